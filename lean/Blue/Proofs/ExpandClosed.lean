import Blue.Proofs.SelectorClosed
/-! **C01** closedness from coverage, and `expand_compaction` (repaired).

`closed_of_cover` is the common core of the selector theorems: if every input `f` can, for every
level at or below its own (down to the output level), be covered by a key range all of whose
files at that level are inputs, the selection is closed.  `selection_closed` (the slices of
`compute_bounds`) and `trivial_move_closed` are instances; `expansion_closed` is the instance for
`expand_compaction` as repaired: working upward from the output level, a level's files inside
the current window are added only if *every* file of that level that meets the window lies inside
it (otherwise the expansion stops), and the window narrows to the hull of what was added.  Before
the repair the window was kept when a level added nothing although a file of that level met it
without being contained — `expansion_unrepaired_open` (D-8). -/
namespace Blue.Spec

/-- levels in search order, each file tagged by an arbitrary input predicate -/
def tagBy (inp : Nat → TFile → Bool) (levels : List (Nat × List TFile)) : Tagged Nat :=
  (levels.map (fun l => l.2.map (fun f => (inp l.1 f, f.vers)))).flatten

theorem closed_of_cover (inp : Nat → TFile → Bool) (levels : List (Nat × List TFile))
    (hlv : levels.Pairwise (fun a b => a.1 < b.1))
    (hwf : ∀ l ∈ levels, ∀ f ∈ l.2, f.Wf)
    (hcov : ∀ la ∈ levels, ∀ f ∈ la.2, inp la.1 f = true → ∀ lb ∈ levels, la.1 ≤ lb.1 →
      ∃ r : Rng, (r.lo ≤ f.first ∧ f.last ≤ r.hi) ∧ ∀ g ∈ lb.2, r.meets g = true → inp lb.1 g = true) :
    Closed (tagBy inp levels) := by
  unfold Closed tagBy
  rw [List.pairwise_flatten]
  constructor
  · intro tl htl
    obtain ⟨l, hl, rfl⟩ := List.mem_map.mp htl
    rw [List.pairwise_map]
    apply List.Pairwise.imp_of_mem (R := fun _ _ => True)
    · intro c d hc hd _ hct hdf hshare
      dsimp only at hct hdf hshare
      obtain ⟨r, hr, hall⟩ := hcov l hl c hc hct l hl (Nat.le_refl _)
      have hm := shares_meets (hwf l hl c hc) (hwf l hl d hd) r hr hshare
      have := hall d hd hm
      rw [this] at hdf; cases hdf
    · exact List.pairwise_of_forall (fun _ _ => trivial)
  · rw [List.pairwise_map]
    refine hlv.imp_of_mem ?_
    intro la lb hla hlb hlt x hx y hy hxt hyf hshare
    obtain ⟨c, hc, rfl⟩ := List.mem_map.mp hx
    obtain ⟨d, hd, rfl⟩ := List.mem_map.mp hy
    dsimp only at hxt hyf hshare
    obtain ⟨r, hr, hall⟩ := hcov la hla c hc hxt lb hlb (Nat.le_of_lt hlt)
    have hm := shares_meets (hwf la hla c hc) (hwf lb hlb d hd) r hr hshare
    have := hall d hd hm
    rw [this] at hyf; cases hyf

/-- the result of `expand_compaction` (repaired): the base selection plus, per level, the extra
    files; `win lvl` is the window in force when level `lvl` was examined; `stop` is the level at
    which the expansion gave up (nothing is added above it), `stop = lower` if it ran through -/
structure Expansion where
  base : Selection
  win : Nat → Rng
  extra : Nat → TFile → Bool
  stop : Nat

def Expansion.inp (e : Expansion) (lvl : Nat) (f : TFile) : Bool := e.base.takes lvl f || e.extra lvl f

/-- what the repaired loop guarantees -/
structure Expansion.Ok (e : Expansion) (levels : List (Nat × List TFile)) : Prop where
  base_ok : e.base.Ok levels
  /-- extras only at examined levels, inside that level's window -/
  extra_in : ∀ l ∈ levels, ∀ f ∈ l.2, e.extra l.1 f = true →
    e.stop ≤ l.1 ∧ e.base.lower ≤ l.1 ∧ l.1 ≤ e.base.upper ∧ (e.win l.1).lo ≤ f.first ∧ f.last ≤ (e.win l.1).hi
  /-- at an examined level every file that meets the window is an input (the repair: otherwise
      the loop returns before adding anything from this level or a shallower one) -/
  all_in : ∀ l ∈ levels, e.stop ≤ l.1 → l.1 ≤ e.base.upper → ∀ g ∈ l.2, (e.win l.1).meets g = true → e.inp l.1 g = true
  /-- windows only narrow on the way up -/
  narrow : ∀ a b, e.stop ≤ a → a ≤ b → b ≤ e.base.upper → (e.win a).within (e.win b)

/-- **C01** `expand_compaction` as repaired yields a closed selection -/
theorem expansion_closed (e : Expansion) (levels : List (Nat × List TFile))
    (hlv : levels.Pairwise (fun a b => a.1 < b.1)) (hup : ∀ l ∈ levels, l.1 ≤ e.base.upper)
    (hwf : ∀ l ∈ levels, ∀ f ∈ l.2, f.Wf) (hok : e.Ok levels) :
    Closed (tagBy e.inp levels) := by
  apply closed_of_cover e.inp levels hlv hwf
  intro la hla f hf hinp lb hlb hle
  unfold Expansion.inp at hinp
  rw [Bool.or_eq_true] at hinp
  rcases hinp with hb | hx
  · -- a base input: covered by the base range of the deeper level
    have hcov := hok.base_ok.covers la hla f hf hb
    unfold Selection.takes at hb
    simp only [Bool.and_eq_true, decide_eq_true_eq] at hb
    have hw := hok.base_ok.widen la.1 lb.1 hb.1.1 hle (hup lb hlb)
    refine ⟨e.base.range lb.1, ⟨by have := hw.1; omega, by have := hw.2; omega⟩, ?_⟩
    intro g hg hm
    unfold Expansion.inp Selection.takes
    have h1 : e.base.lower ≤ lb.1 := by omega
    have h2 := hup lb hlb
    simp [h1, h2, hm]
  · -- an extra input: covered by the window of the deeper level
    obtain ⟨hst, _, _, hlo, hhi⟩ := hok.extra_in la hla f hf hx
    have hn := hok.narrow la.1 lb.1 hst hle (hup lb hlb)
    refine ⟨e.win lb.1, ⟨by have := hn.1; omega, by have := hn.2; omega⟩, ?_⟩
    intro g hg hm
    exact hok.all_in lb hlb (by omega) (hup lb hlb) g hg hm

/-- D-8 as a theorem about the loop as it was: level 2 holds `g = [5..9]` (older version of key 5),
    level 1 holds `a = [5..5]` (newer version of key 5); the window `[4..6]` reaches level 1
    un-narrowed because level 2 added nothing, `a` is added although `g` meets the window and
    stays — the selection {a, base} is not closed and the read of key 5 turns stale -/
theorem expansion_unrepaired_open :
    let a : TFile := ⟨5, 5, [(5, 8)]⟩
    let g : TFile := ⟨5, 9, [(5, 3)]⟩
    let out : List (Ver Nat) := [(4, 1), (5, 8), (6, 1)]
    (⟨4, 6⟩ : Rng).meets g = true ∧ ¬ ((4 ≤ g.first) ∧ (g.last ≤ 6))
    ∧ load [a.vers, g.vers, [(4, 1), (6, 1)]] 5 9 = some (5, 8)
    ∧ load [g.vers, out] 5 9 = some (5, 3) := by
  intro a g out
  exact ⟨by decide, by decide, by decide, by decide⟩

end Blue.Spec

#print axioms Blue.Spec.closed_of_cover
#print axioms Blue.Spec.expansion_closed
#print axioms Blue.Spec.expansion_unrepaired_open
