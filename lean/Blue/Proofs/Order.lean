import Blue.Proofs.Heap
import Blue.Proofs.Family
namespace Blue.Cursor
open Blue.Heap

variable {E : Type}

structure StrictTotal (lt : E → E → Bool) : Prop where
  irrefl : ∀ a, lt a a = false
  trans : ∀ a b c, lt a b = true → lt b c = true → lt a c = true
  total : ∀ a b, a ≠ b → lt a b = true ∨ lt b a = true

namespace StrictTotal
variable {lt : E → E → Bool} (st : StrictTotal lt)
include st

theorem asymm (a b : E) (h : lt a b = true) : lt b a = false := by
  cases hba : lt b a with
  | false => rfl
  | true => have := st.trans a b a h hba; rw [st.irrefl] at this; cases this

theorem ntrans (a b c : E) (h1 : lt a b = false) (h2 : lt b c = false) : lt a c = false := by
  cases hac : lt a c with
  | false => rfl
  | true =>
    -- a < c; b is comparable with both
    by_cases hab : a = b
    · subst hab; rw [hac] at h2; cases h2
    · rcases st.total a b hab with h | h
      · rw [h] at h1; cases h1
      · -- b < a < c → b < c
        have := st.trans b a c h hac; rw [this] at h2; cases h2

theorem eq_of_not_lt (a b : E) (h1 : lt a b = false) (h2 : lt b a = false) : a = b := by
  by_cases hab : a = b
  · exact hab
  · rcases st.total a b hab with h | h
    · rw [h] at h1; cases h1
    · rw [h] at h2; cases h2

end StrictTotal

/-- The comparator on child cursors is a strict weak order, in both directions. -/
theorem strictWeak_cmp {lt : E → E → Bool} (st : StrictTotal lt) (fwd : Bool) :
    StrictWeak (Merging.cmp lt fwd) := by
  constructor
  · intro a
    unfold Merging.cmp isLess
    cases fwd <;> cases a.kv <;> simp [st.irrefl]
  · intro a b
    unfold Merging.cmp isLess
    cases fwd <;> cases ha : a.kv <;> cases hb : b.kv <;> simp
    · intro h; exact st.asymm _ _ h
    · intro h; exact st.asymm _ _ h
  · intro a b c
    unfold Merging.cmp isLess
    cases fwd <;> cases ha : a.kv <;> cases hb : b.kv <;> cases hc : c.kv <;> simp
    · intro h1 h2; exact st.ntrans _ _ _ h2 h1
    · intro h1 h2; exact st.ntrans _ _ _ h1 h2

end Blue.Cursor
