import Blue.Model.VerifyStore
import Blue.Proofs.VerifyGc
/-! **C04** `verifier_accepts_honest`: every history of edits the store model writes — ingests,
    compactions cut anywhere, garbage collections under any policy, trivial moves, outputs that
    reproduce an input — is accepted by the verifier's real checks (`verifyFragment`), fragment by
    fragment for any roll-over points, and the accumulated setsum is the sum over the live files. -/
namespace Blue.VerifyOne
open Blue.Books
open Blue.Mani (Edit)
open Blue.Verifier (Name getInfo)
open Blue.Compact (Entry)

variable {G : Type} [DecidableEq G] (g : Grp G)

/-- the environment computes in the group `g`, and `nm` writes digests `parse` reads back -/
structure Honest (env : Env G) (nm : G → Name) : Prop where
  ops : env.ops = opsOf g
  parse : ∀ s, env.parse (nm s) = some s

/-- a file's setsum as the store and the verifier compute it -/
abbrev fsum (env : Env G) (f : File) : G := setsumOf env.ops env.h f

theorem gcSplit_eq : ∀ (R : List KeyRef) (m : List Entry), gcSplit R m = (gcKeep R m, gcDrop R m)
  | R, [] => by cases R <;> rfl
  | [], e :: m => by rw [gcSplit_nil]; rfl
  | r :: rs, e :: m => by
    by_cases hr : r = kr e
    · rw [gcSplit_cons_eq r rs e m hr, gcSplit_eq rs m]; simp only [gcKeep, gcDrop, hr, if_true]
    · rw [gcSplit_cons_ne r rs e m hr, gcSplit_eq (r :: rs) m]; simp only [gcKeep, gcDrop, hr, if_false]

theorem treeSum_eq (env : Env G) (he : env.ops = opsOf g) (files : List File) :
    treeSum env.ops env.h files = total g (fsum env) files := by
  cases env with
  | mk ops parse h fs policy tail =>
    simp only at he; subst he; rfl

/-! ### cutting -/

theorem cut_flatten : ∀ (ns : List Nat) (l : List Entry), (Blue.Compact.cut ns l).flatten = l
  | [], l => by simp [Blue.Compact.cut]
  | n :: ns, l => by simp [Blue.Compact.cut, cut_flatten ns, List.take_append_drop]

theorem filter_nonempty_flatten : ∀ (L : List (List Entry)), (L.filter (fun p => !p.isEmpty)).flatten = L.flatten
  | [] => rfl
  | p :: L => by
    cases p with
    | nil => simp [List.filter, filter_nonempty_flatten L]
    | cons a t => simp [List.filter, filter_nonempty_flatten L]

theorem pieces_flatten (cuts : List Nat) (l : List Entry) : (pieces cuts l).flatten = l := by
  unfold pieces; rw [filter_nonempty_flatten, cut_flatten]

/-! ### what the edit says, digest by digest -/

theorem getInfo_mkEdit (nm : G → Name) (I O D : G) (rm add : List G) :
    getInfo (mkEdit nm I O D rm add) 73 = some (nm I) ∧ getInfo (mkEdit nm I O D rm add) 79 = some (nm O)
      ∧ getInfo (mkEdit nm I O D rm add) 68 = some (nm D) ∧ getInfo (mkEdit nm I O D rm add) 76 = none :=
  ⟨rfl, rfl, rfl, rfl⟩

theorem info_mkEdit {env : Env G} {nm : G → Name} (hp : ∀ s, env.parse (nm s) = some s) (I O D : G) (rm add : List G) :
    info env (mkEdit nm I O D rm add) 73 = .ok I ∧ info env (mkEdit nm I O D rm add) 79 = .ok O
      ∧ info env (mkEdit nm I O D rm add) 68 = .ok D := by
  obtain ⟨h1, h2, h3, _⟩ := getInfo_mkEdit nm I O D rm add
  refine ⟨?_, ?_, ?_⟩
  · unfold info; rw [h1]; simp only [hp]
  · unfold info; rw [h2]; simp only [hp]
  · unfold info; rw [h3]; simp only [hp]

theorem parseAll_map {env : Env G} {nm : G → Name} (hp : ∀ s, env.parse (nm s) = some s) :
    ∀ ss : List G, parseAll env (ss.map nm) = some ss
  | [] => rfl
  | s :: t => by simp only [List.map_cons, parseAll, hp, parseAll_map hp t]

theorem readAll_map (env : Env G) : ∀ (files : List File), (∀ f ∈ files, env.fs (fsum env f) = some f) →
    readAll env (files.map (fsum env)) = .ok files
  | [], _ => rfl
  | f :: t, hf => by
    simp only [List.map_cons, readAll, hf f List.mem_cons_self,
      readAll_map env t (fun f' h' => hf f' (List.mem_cons_of_mem _ h'))]

/-! ### conservation -/

theorem total_fsum (env : Env G) (he : env.ops = opsOf g) (files : List File) :
    total g (fsum env) files = total g env.h files.flatten := by
  cases env with
  | mk ops parse h fs policy tail =>
    simp only at he; subst he
    rw [total_flatten]
    congr 1
    funext f
    show setsumOf (opsOf g) h f = _
    rw [setsumOf_eq]

/-- a compaction writes what it read -/
theorem compact_conserves (env : Env G) (he : env.ops = opsOf g) (ins : List File) (cuts : List Nat) :
    total g (fsum env) (pieces cuts (mergeTables ins)) = total g (fsum env) ins := by
  rw [total_fsum g env he, total_fsum g env he, pieces_flatten]
  exact total_perm g env.h (mergeTables_perm ins)

/-- a garbage collection writes what it read minus what it dropped -/
theorem gc_conserves (env : Env G) (he : env.ops = opsOf g) (ins : List File) (cuts : List Nat) (R : List KeyRef) :
    total g (fsum env) ins
      = g.add (total g (fsum env) (pieces cuts (gcKeep R (mergeTables ins)))) (total g env.h (gcDrop R (mergeTables ins))) := by
  rw [total_fsum g env he, total_fsum g env he, pieces_flatten, ← total_append]
  have hp := gcSplit_perm (mergeTables ins) R
  rw [gcSplit_eq] at hp
  exact (total_perm g env.h (hp.trans (mergeTables_perm ins))).symm

/-! ### validity of a transaction -/

/-- what the tree guarantees of a transaction on a version with these files -/
def ValidOp (env : Env G) (files : List File) : StoreOp → Prop
  | .ingest f => f ∉ files
  | .compact ins cuts =>
    ins.Nodup ∧ (∀ f ∈ ins, f ∈ files) ∧ (pieces cuts (mergeTables ins)).Nodup
      ∧ ∀ f ∈ pieces cuts (mergeTables ins), f ∈ files → f ∈ ins
  | .gc ins cuts =>
    ins.Nodup ∧ (∀ f ∈ ins, f ∈ files) ∧ Strict (mergeTables ins)
      ∧ (opAdd env.policy (.gc ins cuts)).Nodup
      ∧ ∀ f ∈ opAdd env.policy (.gc ins cuts), f ∈ files → f ∈ ins
  | .move => True

def ValidOps (env : Env G) : List File → List StoreOp → Prop
  | _, [] => True
  | files, op :: ops =>
    ValidOp env files op ∧ ValidOps env (if isMove op then files else stepFiles env.policy files op) ops

/-- every file a transaction of the history reads or writes is in the directory under its name -/
def Present (env : Env G) : List File → List StoreOp → Prop
  | _, [] => True
  | files, op :: ops =>
    (∀ f ∈ opRm op ++ opAdd env.policy op, env.fs (fsum env f) = some f)
      ∧ Present env (if isMove op then files else stepFiles env.policy files op) ops

theorem valid_shape (env : Env G) (files : List File) (op : StoreOp) (hv : ValidOp env files op) :
    (opRm op).Nodup ∧ (∀ f ∈ opRm op, f ∈ files) ∧ (opAdd env.policy op).Nodup
      ∧ ∀ f ∈ opAdd env.policy op, f ∈ files → f ∈ opRm op := by
  cases op with
  | ingest f =>
    refine ⟨List.nodup_nil, ?_, ?_, ?_⟩
    · intro f' hf'; cases hf'
    · simp [opAdd]
    intro f' hf' hin
    simp only [opAdd, List.mem_singleton] at hf'
    subst hf'
    exact absurd hin hv
  | compact ins cuts => exact hv
  | gc ins cuts => exact ⟨hv.1, hv.2.1, hv.2.2.2.1, hv.2.2.2.2⟩
  | move =>
    refine ⟨List.nodup_nil, ?_, List.nodup_nil, ?_⟩
    · intro f' hf'; cases hf'
    · intro f' hf'; cases hf'

theorem stepFiles_nodup (env : Env G) (files : List File) (op : StoreOp) (hnd : files.Nodup)
    (hv : ValidOp env files op) : (stepFiles env.policy files op).Nodup := by
  obtain ⟨_, _, h3, h4⟩ := valid_shape env files op hv
  unfold stepFiles
  rw [List.nodup_append]
  refine ⟨hnd.filter _, h3, ?_⟩
  intro a ha b hb hab
  subst hab
  rw [List.mem_filter] at ha
  have := h4 a hb ha.1
  simp only [Bool.not_eq_true', List.contains_eq_mem, decide_eq_false_iff_not] at ha
  exact ha.2 this

/-- the recorded discard is Σ removed − Σ added -/
theorem opDiscard_eq (env : Env G) (he : env.ops = opsOf g) (op : StoreOp) :
    opDiscard env.ops env.h env.policy op
      = computedDiscard g (fsum env) (opRm op) (opAdd env.policy op) := by
  unfold computedDiscard
  cases op with
  | ingest f =>
    simp only [opDiscard, opRm, opAdd, total_cons]
    rw [he]
    show g.neg (setsumOf (opsOf g) env.h f) = g.sub (total g (fsum env) []) (g.add (fsum env f) (total g (fsum env) []))
    show g.neg (setsumOf (opsOf g) env.h f) = g.sub g.zero (g.add (fsum env f) g.zero)
    unfold fsum
    rw [he, g.add_zero]
    unfold Grp.sub
    rw [zero_add]
  | compact ins cuts =>
    simp only [opDiscard, opRm, opAdd]
    rw [compact_conserves g env he, sub_self, he]; rfl
  | gc ins cuts =>
    simp only [opDiscard, opRm, opAdd]
    rw [gc_conserves g env he ins cuts (retained env.policy (mergeTables ins)), add_sub_cancel_left]
    rw [he, setsumOf_eq]
  | move =>
    simp only [opDiscard, opRm, opAdd]
    rw [he]
    show g.zero = g.sub g.zero g.zero
    rw [sub_self]

/-- `verify_gc` goes through on the store's own garbage collection -/
theorem verifyGc_honest (env : Env G) (he : env.ops = opsOf g) (ins : List File) (cuts : List Nat)
    (hs : Strict (mergeTables ins))
    (hfs : ∀ f ∈ ins ++ opAdd env.policy (.gc ins cuts), env.fs (fsum env f) = some f) :
    verifyGc env (ins.map (fsum env)) ((opAdd env.policy (.gc ins cuts)).map (fsum env))
      (opDiscard env.ops env.h env.policy (.gc ins cuts)) = .ok () := by
  unfold verifyGc
  rw [readAll_map env ins (fun f hf => hfs f (List.mem_append_left _ hf)),
    readAll_map env _ (fun f hf => hfs f (List.mem_append_right _ hf))]
  simp only
  have hR : (retained env.policy (mergeTables ins)).Sublist ((mergeTables ins).map kr) := by
    have := Blue.Gc.gcP_sublist env.policy 0 (some []) ((mergeTables ins).map toEnt)
    unfold retained
    have e : Blue.Gc.ents ((mergeTables ins).map toEnt) = (mergeTables ins).map kr := by
      unfold Blue.Gc.ents; rw [List.map_map]; rfl
    rw [e] at this; exact this
  -- the merged outputs are what was kept
  have hkept : mergeTables (opAdd env.policy (.gc ins cuts))
      = gcKeep (retained env.policy (mergeTables ins)) (mergeTables ins) := by
    unfold mergeTables opAdd
    rw [pieces_flatten]
    apply sort_weak
    have hsub := gcSplit_sublist (mergeTables ins) (retained env.policy (mergeTables ins))
    rw [gcSplit_eq] at hsub
    exact (Strict.sublist hsub hs).weak
  rw [hkept]
  have hw := gcWalk_honest g env.h env.tailChecked (mergeTables ins) (retained env.policy (mergeTables ins)) g.zero hs hR
  rw [gcSplit_eq] at hw
  simp only at hw
  have hw' : gcWalk env.ops env.h env.tailChecked (mergeTables ins)
      (gcKeep (retained env.policy (mergeTables ins)) (mergeTables ins)) (retained env.policy (mergeTables ins))
      env.ops.zero
      = Except.ok (g.add g.zero (total g env.h (gcDrop (retained env.policy (mergeTables ins)) (mergeTables ins)))) := by
    rw [he]; exact hw
  rw [hw']
  have hd : g.add g.zero (total g env.h (gcDrop (retained env.policy (mergeTables ins)) (mergeTables ins)))
      = opDiscard env.ops env.h env.policy (.gc ins cuts) := by
    simp only [opDiscard]
    rw [he, setsumOf_eq, zero_add]
  simp only [hd, if_true]

/-- **one transaction of the store is accepted**, and the accumulator moves to the sum over the new
    version's files -/
theorem editOf_accepted (env : Env G) (nm : G → Name) (hh : Honest g env nm) (files : List File) (op : StoreOp)
    (hnd : files.Nodup) (hv : ValidOp env files op)
    (hfs : ∀ f ∈ opRm op ++ opAdd env.policy op, env.fs (fsum env f) = some f) :
    verifyEdit env false (treeSum env.ops env.h files) (editOf env.ops env.h env.policy nm files op)
      = .ok (treeSum env.ops env.h (stepFiles env.policy files op), treeSum env.ops env.h (stepFiles env.policy files op)) := by
  have he := hh.ops
  obtain ⟨v1, v2, _, _⟩ := valid_shape env files op hv
  -- the books: I = O + D and O is the sum over the new version
  have hbal := tx_balances g (fsum env) files (opRm op) (opAdd env.policy op) hnd v1 v2
  simp only at hbal
  obtain ⟨hb1, hb2⟩ := hbal
  have hD := opDiscard_eq g env he op
  have hO : env.ops.sub (treeSum env.ops env.h files) (opDiscard env.ops env.h env.policy op)
      = treeSum env.ops env.h (stepFiles env.policy files op) := by
    rw [treeSum_eq g env he, treeSum_eq g env he, hD]
    have hst : stepFiles env.policy files op = applyTx files (opRm op) (opAdd env.policy op) := by
      unfold stepFiles applyTx
      congr 1
      apply List.filter_congr
      intro x _
      simp
    rw [hst, hb2, he]; rfl
  rw [verifyEdit_ok]
  unfold editOf
  simp only
  obtain ⟨i1, i2, i3⟩ := info_mkEdit hh.parse (treeSum env.ops env.h files)
    (env.ops.sub (treeSum env.ops env.h files) (opDiscard env.ops env.h env.policy op))
    (opDiscard env.ops env.h env.policy op) ((opRm op).map (fsum env)) ((opAdd env.policy op).map (fsum env))
  refine ⟨opDiscard env.ops env.h env.policy op, (opAdd env.policy op).map (fsum env), (opRm op).map (fsum env),
    i1, ?_, i3, ?_, ?_, ?_, ?_⟩
  · rw [i2, hO]
  · rw [← hO, he]
    exact (sub_add_cancel g _ _).symm
  · rw [scan_ok]
    refine ⟨parseAll_map hh.parse _, ?_⟩
    intro s hs
    obtain ⟨f, hf, rfl⟩ := List.mem_map.mp hs
    exact ⟨f, hfs f (List.mem_append_right _ hf), rfl⟩
  · rw [scan_ok]
    refine ⟨parseAll_map hh.parse _, ?_⟩
    intro s hs
    obtain ⟨f, hf, rfl⟩ := List.mem_map.mp hs
    exact ⟨f, hfs f (List.mem_append_left _ hf), rfl⟩
  · rw [finishEdit_ok]
    have hcomp : computed env.ops ((opAdd env.policy op).map (fsum env)) ((opRm op).map (fsum env))
        = opDiscard env.ops env.h env.policy op := by
      rw [he, computed_eq, ← he, hD]
      unfold computedDiscard
      rw [total_map, total_map]
    refine ⟨?_, hcomp.symm, ?_, ?_⟩
    · unfold logOk mkEdit; rfl
    · intro ⟨hne, hrm⟩
      cases op with
      | ingest f => exact absurd rfl hrm
      | compact ins cuts => exact absurd rfl hne
      | move => exact absurd rfl hne
      | gc ins cuts => exact verifyGc_honest g env he ins cuts hv.2.2.1 hfs
    · rw [hcomp, hO]

theorem editsOf_accepted (env : Env G) (nm : G → Name) (hh : Honest g env nm) :
    ∀ (ops : List StoreOp) (files : List File) (last : Option G), files.Nodup → ValidOps env files ops →
      Present env files ops → last = some (treeSum env.ops env.h files) →
      verifyEdits env false (treeSum env.ops env.h files) last (editsOf env.ops env.h env.policy nm files ops)
        = .ok (treeSum env.ops env.h (finalFiles env.policy files ops),
               some (treeSum env.ops env.h (finalFiles env.policy files ops)))
  | [], files, last, _, _, _, hl => by simp only [editsOf, finalFiles, verifyEdits, hl]
  | op :: ops, files, last, hnd, hv, hp, hl => by
    by_cases hm : isMove op = true
    · simp only [editsOf, finalFiles, hm, if_true]
      simp only [ValidOps, Present, hm, if_true] at hv hp
      exact editsOf_accepted env nm hh ops files last hnd hv.2 hp.2 hl
    · simp only [editsOf, finalFiles, hm, Bool.false_eq_true, if_false]
      simp only [ValidOps, Present, hm, Bool.false_eq_true, if_false] at hv hp
      simp only [verifyEdits]
      rw [editOf_accepted g env nm hh files op hnd hv.1 hp.1]
      simp only
      exact editsOf_accepted env nm hh ops _ _ (stepFiles_nodup env files op hnd hv.1) hv.2 hp.2 rfl

theorem finalFiles_nodup (env : Env G) : ∀ (ops : List StoreOp) (files : List File), files.Nodup →
    ValidOps env files ops → (finalFiles env.policy files ops).Nodup
  | [], _, hnd, _ => hnd
  | op :: ops, files, hnd, hv => by
    simp only [finalFiles]
    by_cases hm : isMove op = true
    · simp only [ValidOps, hm, if_true] at hv ⊢
      exact finalFiles_nodup env ops files hnd hv.2
    · simp only [ValidOps, hm, Bool.false_eq_true, if_false] at hv ⊢
      exact finalFiles_nodup env ops _ (stepFiles_nodup env files op hnd hv.1) hv.2

/-- **C04** `verifier_accepts_honest`, one fragment: the state at the roll-over followed by any
    history of transactions of the store is accepted by `verify_one`'s real checks from the sum over
    the files at the roll-over, and what it returns is the sum over the files at the end -/
theorem fragment_accepted (env : Env G) (nm : G → Name) (hh : Honest g env nm) (I D : G)
    (files : List File) (ops : List StoreOp) (hnd : files.Nodup) (hv : ValidOps env files ops)
    (hp : Present env files ops) :
    verifyFragment env (treeSum env.ops env.h files)
        (rollup env.ops env.h nm I D files :: editsOf env.ops env.h env.policy nm files ops)
      = .ok (treeSum env.ops env.h (finalFiles env.policy files ops)) := by
  unfold verifyFragment
  simp only [verifyEdits]
  have hfirst : verifyEdit env true (treeSum env.ops env.h files) (rollup env.ops env.h nm I D files)
      = .ok (treeSum env.ops env.h files, treeSum env.ops env.h files) := by
    rw [verifyEdit_first_ok]
    unfold rollup
    obtain ⟨i1, i2, i3⟩ := info_mkEdit hh.parse I (treeSum env.ops env.h files) D [] (files.map (setsumOf env.ops env.h))
    exact ⟨⟨I, D, _, [], i1, i2, i3, parseAll_map hh.parse _, rfl⟩, rfl, rfl⟩
  rw [hfirst]
  simp only
  rw [editsOf_accepted g env nm hh ops files _ hnd hv hp rfl]
  simp only [if_true]

/-- validity and presence along a history that rolls over between the segments -/
def ValidSegs (env : Env G) : List File → List (List StoreOp) → Prop
  | _, [] => True
  | files, seg :: segs =>
    ValidOps env files seg ∧ Present env files seg ∧ ValidSegs env (finalFiles env.policy files seg) segs

/-- **C04** `verifier_accepts_honest`: for any roll-over points, the fragments of a history of the
    store are accepted one after the other, each from what the one before returned -/
theorem fragments_accepted (env : Env G) (nm : G → Name) (hh : Honest g env nm) (I D : G) :
    ∀ (segs : List (List StoreOp)) (files : List File), files.Nodup → ValidSegs env files segs →
      ∃ acc, verifyAll env (treeSum env.ops env.h files)
        (fragmentsOf env.ops env.h env.policy nm I D files segs) = .ok acc
  | [], files, _, _ => ⟨_, rfl⟩
  | seg :: segs, files, hnd, hv => by
    simp only [fragmentsOf, verifyAll]
    rw [fragment_accepted g env nm hh I D files seg hnd hv.1 hv.2.1]
    simp only
    exact fragments_accepted env nm hh I D segs _ (finalFiles_nodup env seg files hnd hv.1) hv.2.2

end Blue.VerifyOne

#print axioms Blue.VerifyOne.fragment_accepted
#print axioms Blue.VerifyOne.fragments_accepted
