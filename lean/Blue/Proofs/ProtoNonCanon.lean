import Blue.Proofs.ProtoDeep
/-! Property C15: what the decoder does with NON-MINIMAL varints, by position.

    * the LENGTH PREFIX of a length-delimited struct field (`bytes`, `string`, `bytesNN`,
      `message<M>`, plain / `Option` / `Vec`): REJECTED.  `FieldIterator::next` hands the field's
      unpacker `&buf[0..x.pack_sz() + sz]` (prototk/src/lib.rs:652) — cut at the CANONICAL size of the
      prefix — so the unpacker, which reads the prefix again, finds fewer than `sz` bytes after it
      (`buffer-too-short`), or, when the cut falls inside the prefix, no complete varint
      (`varint-overflow`): `unpackMsg_nonminimal_length_prefix_rejected`;
    * the payload of an enum's tuple variant with a varint field type, the length prefix of any
      variant of an enum, the discriminant and the length prefix of a `Result`: ACCEPTED, with the
      value of the canonical encoding — these are read by `unpack_from(&mut up)` /
      `take_length_prefixed(&mut up)` from the whole remaining buffer, no cut
      (`enum_payload_nonminimal_varint_accepted`, `enum_nonminimal_length_prefix_accepted`,
      `result_nonminimal_accepted`);
    * the TAG of a struct field: ACCEPTED (`struct_nonminimal_tag_accepted`): the cut concerns the
      payload only. -/
namespace Blue.ProtoMsg
open Blue.Wire Blue.Varint

theorem decVarint_lt_U64 (bs : List Nat) (x : Nat) (rest : List Nat) (h : decVarint bs = some (x, rest)) :
    x < U64 := by
  obtain ⟨_, _, _, _, _, _, hv⟩ := decVarintAux_shape' 10 0 0 bs x rest h
  rw [hv]; exact Nat.mod_lt _ (by decide)

/-- a varint read completely reads the same with anything after it -/
theorem decVarint_full_append (nb : List Nat) (x : Nat) (rest : List Nat) (h : decVarint nb = some (x, [])) :
    decVarint (nb ++ rest) = some (x, rest) := by
  have := decVarint_append nb x [] rest h
  simpa using this

/-! ## rejected: the length prefix of a struct field -/

/-- the error class: the cut `canonical prefix size + length` falls after the non-minimal prefix
    (the usual case) or inside it (a prefix padded by more bytes than the payload has) -/
def nonminimalPrefixErr (nbLen x : Nat) : Err :=
  if nbLen ≤ (encVarint x).length + x then .bufferTooShort else .varintOverflow

/-- the slice `FieldIterator::next` cuts for a length-delimited field with a non-minimal length
    prefix is not a length-prefixed frame -/
theorem decFrame_nonminimal_slice (nb rest : List Nat) (x : Nat)
    (hdec : decVarint nb = some (x, [])) (hnc : (encVarint x).length < nb.length) :
    decFrame ((nb ++ rest).take ((encVarint x).length + x)) = .error (nonminimalPrefixErr nb.length x) := by
  unfold nonminimalPrefixErr
  by_cases hc : nb.length ≤ (encVarint x).length + x
  · rw [if_pos hc, List.take_append, List.take_of_length_le hc]
    unfold decFrame
    rw [decVarint_full_append nb x _ hdec]
    have : (List.take ((encVarint x).length + x - nb.length) rest).length < x := by
      rw [List.length_take]; omega
    simp only [this, if_true]
  · rw [if_neg hc, List.take_append_of_le_length (by omega)]
    unfold decFrame
    rw [decVarint_truncated nb x [] _ hdec (by simp; omega)]

/-- every field type with the length-delimited wire type starts by reading the frame -/
theorem decTyWith_frame_error (rec : Msg → List Nat → R (Val × List Nat)) (ty : Ty) (sl : List Nat) (e : Err)
    (hw : ty.wt = .lengthDelimited) (h : decFrame sl = .error e) : decTyWith rec ty sl = .error e := by
  cases ty with
  | msg m => simp only [decTyWith, h]
  | scalar s =>
    cases s <;> first | (cases hw; done) | simp only [decTyWith, decScalar, h]

/-- **C15** `nonminimal_length_prefix_rejected`: `nb` is a varint the decoder reads completely but
    longer than the canonical encoding of its value `x`; it arrives as the LENGTH PREFIX of field
    `n` (length-delimited wire type) at any field boundary of any buffer (`pre` complete fields),
    followed by at least `x` bytes; the struct has an arm for (`n`, length-delimited) — `bytes`,
    `string`, `bytesNN` or `message<M>`, of any cardinality.  The struct is rejected: with the
    error the fields before it already produced, else with `buffer-too-short` (the cut falls
    after the prefix) or `varint-overflow` (the cut falls inside the prefix) — never a value. -/
theorem unpackMsg_nonminimal_length_prefix_rejected (f : Nat) (fs : List Field) (n : Nat)
    (pre nb rest : List Nat) (x : Nat)
    (hn : validFieldNumber n = true) (hpre : Bytes pre)
    (hclean : (fieldsE (pre.length + 1) pre).2 = none)
    (hdec : decVarint nb = some (x, [])) (hnc : (encVarint x).length < nb.length)
    (hlen : x ≤ rest.length)
    (harm : ∃ g ∈ fs, g.num = n ∧ g.ty.wt = .lengthDelimited) :
    unpackMsg (f + 1) (.struct fs) (pre ++ (encTag ⟨n, .lengthDelimited⟩ ++ nb ++ rest))
      = match unpackMsg (f + 1) (.struct fs) pre with
        | .error e => .error e
        | .ok _ => .error (nonminimalPrefixErr nb.length x) := by
  have hne : encTag ⟨n, .lengthDelimited⟩ ++ nb ++ rest ≠ [] := by
    intro h; exact encTag_ne_nil _ (List.append_eq_nil_iff.mp (List.append_eq_nil_iff.mp h).1).1
  have hstep : fieldStepE (encTag ⟨n, .lengthDelimited⟩ ++ nb ++ rest)
      = .ok ((⟨n, .lengthDelimited⟩, (nb ++ rest).take ((encVarint x).length + x)), rest.drop x) := by
    unfold fieldStepE
    rw [List.append_assoc, decTagE_enc ⟨n, .lengthDelimited⟩ hn]
    simp only
    rw [decVarint_full_append nb x rest hdec]
    have : ¬ rest.length < x := by omega
    simp only [this, if_false]
  have hslice : ∀ g ∈ fs, g.num = n ∧ g.ty.wt = .lengthDelimited →
      decTyWith (unpackMsg f) g.ty ((nb ++ rest).take ((encVarint x).length + x))
        = .error (nonminimalPrefixErr nb.length x) :=
    fun g _ hc => decTyWith_frame_error _ g.ty _ _ hc.2 (decFrame_nonminimal_slice nb rest x hdec hnc)
  simp only [unpackMsg]
  unfold unpackFields
  rw [fieldsE_append (pre.length + 1) pre (by omega) hpre hclean _ _ (by omega),
    fieldsE_step _ _ hne, hstep]
  simp only [List.foldl_append, List.foldl_cons, hclean]
  cases hA : (fieldsE (pre.length + 1) pre).1.foldl (mergeStep (unpackMsg f) false fs)
      (.ok (fs.map (dfltSlotWith (dfltMsg f)))) with
  | error e => simp only [mergeStep, foldl_mergeStep_error]
  | ok a =>
    have hlen' : a.length = fs.length :=
      foldl_mergeStep_length (unpackMsg f) false fs fs.length _ (.ok (fs.map (dfltSlotWith (dfltMsg f))))
        (fun b hb => by simp only [Except.ok.injEq] at hb; subst hb; simp) a hA
    have := mergeInto_arm_error (unpackMsg f)
      (⟨n, .lengthDelimited⟩, (nb ++ rest).take ((encVarint x).length + x)) (nonminimalPrefixErr nb.length x)
      fs a hlen' harm hslice
    simp only [mergeStep, this, foldl_mergeStep_error]

theorem decode_nonminimal_length_prefix_rejected (fs : List Field) (n : Nat) (pre nb rest : List Nat) (x : Nat)
    (hn : validFieldNumber n = true) (hpre : Bytes pre)
    (hclean : (fieldsE (pre.length + 1) pre).2 = none)
    (hdec : decVarint nb = some (x, [])) (hnc : (encVarint x).length < nb.length)
    (hlen : x ≤ rest.length)
    (harm : ∃ g ∈ fs, g.num = n ∧ g.ty.wt = .lengthDelimited) :
    ∃ e, decode (.struct fs) (pre ++ (encTag ⟨n, .lengthDelimited⟩ ++ nb ++ rest)) = .error e := by
  obtain ⟨k, hk⟩ : ∃ k, (Msg.struct fs).depth = k + 1 := ⟨fieldsDepth fs, rfl⟩
  unfold decode
  rw [hk, unpackMsg_nonminimal_length_prefix_rejected k fs n pre nb rest x hn hpre hclean hdec hnc hlen harm]
  cases unpackMsg (k + 1) (.struct fs) pre with
  | error e => exact ⟨e, rfl⟩
  | ok r => exact ⟨_, rfl⟩

/-! ## accepted: everything an enum or a `Result` reads -/

theorem findVariant_wt : ∀ (vars : List Variant) (t : Tag) (k i : Nat) (v : Variant),
    findVariant vars t k = some (i, v) → v.wt = t.wt
  | [], _, _, _, _, h => by simp [findVariant] at h
  | a :: vs, t, k, i, v, h => by
    simp only [findVariant] at h
    by_cases hc : a.num = t.num ∧ a.wt = t.wt
    · rw [if_pos hc] at h
      simp only [Option.some.injEq, Prod.mk.injEq] at h
      rw [← h.2]; exact hc.2
    · rw [if_neg hc] at h
      exact findVariant_wt vs t (k + 1) i v h

/-- a scalar with the varint wire type sees its buffer through `decVarint` only -/
theorem decScalar_varint_congr (s : Scalar) (hs : s.wt = .varint) (b1 b2 : List Nat)
    (h : decVarint b1 = decVarint b2) : decScalar s b1 = decScalar s b2 := by
  cases s <;> first | (cases hs; done) | simp only [decScalar, decVarintE, h]

/-- a field type with the length-delimited wire type sees its buffer through `decFrame` only -/
theorem decTyWith_frame_congr (rec : Msg → List Nat → R (Val × List Nat)) (ty : Ty)
    (hw : ty.wt = .lengthDelimited) (b1 b2 : List Nat) (h : decFrame b1 = decFrame b2) :
    decTyWith rec ty b1 = decTyWith rec ty b2 := by
  cases ty with
  | msg m => simp only [decTyWith, h]
  | scalar s =>
    cases s <;> first | (cases hw; done) | simp only [decTyWith, decScalar, h]

theorem decFrame_nonminimal (nb rest : List Nat) (x : Nat) (hdec : decVarint nb = some (x, [])) :
    decFrame (nb ++ rest) = decFrame (encVarint x ++ rest) := by
  unfold decFrame
  rw [decVarint_full_append nb x rest hdec, decVarint_enc x (decVarint_lt_U64 nb x [] hdec) rest]

/-- **C15** `enum_payload_nonminimal_varint_accepted`: the payload of a tuple variant with a varint
    field type is read by `unpack_from` from the whole remaining buffer, so a non-minimal varint
    `nb` of value `x` is accepted and gives what the canonical encoding gives (value and rest) -/
theorem unpackMsg_enum_nonminimal_varint (f : Nat) (vars : List Variant) (d : Val) (n i n' : Nat) (s : Scalar)
    (nb rest : List Nat) (x : Nat) (hn : validFieldNumber n = true)
    (hfind : findVariant vars ⟨n, .varint⟩ 0 = some (i, .tuple n' (.scalar s)))
    (hdec : decVarint nb = some (x, [])) :
    unpackMsg (f + 1) (.enum vars d) (encTag ⟨n, .varint⟩ ++ nb ++ rest)
      = unpackMsg (f + 1) (.enum vars d) (encTag ⟨n, .varint⟩ ++ encVarint x ++ rest) := by
  have hs : s.wt = .varint := by
    have := findVariant_wt vars _ 0 i _ hfind
    simpa [Variant.wt, Ty.wt] using this
  simp only [unpackMsg, List.append_assoc]
  rw [decTagE_enc ⟨n, .varint⟩ hn, decTagE_enc ⟨n, .varint⟩ hn]
  simp only [hfind, decTyWith]
  rw [decScalar_varint_congr s hs (nb ++ rest) (encVarint x ++ rest)
    (by rw [decVarint_full_append nb x rest hdec, decVarint_enc x (decVarint_lt_U64 nb x [] hdec) rest])]

/-- **C15** the length prefix of ANY variant of an enum (unit, tuple with a length-delimited field
    type, named) is read by `take_length_prefixed` / `unpack_from` from the whole remaining buffer:
    non-minimal prefixes are accepted -/
theorem unpackMsg_enum_nonminimal_length_prefix (f : Nat) (vars : List Variant) (d : Val) (n : Nat)
    (nb rest : List Nat) (x : Nat) (hn : validFieldNumber n = true)
    (hdec : decVarint nb = some (x, [])) :
    unpackMsg (f + 1) (.enum vars d) (encTag ⟨n, .lengthDelimited⟩ ++ nb ++ rest)
      = unpackMsg (f + 1) (.enum vars d) (encTag ⟨n, .lengthDelimited⟩ ++ encVarint x ++ rest) := by
  have hfr := decFrame_nonminimal nb rest x hdec
  simp only [unpackMsg, List.append_assoc]
  rw [decTagE_enc ⟨n, .lengthDelimited⟩ hn, decTagE_enc ⟨n, .lengthDelimited⟩ hn]
  simp only
  cases hfind : findVariant vars ⟨n, .lengthDelimited⟩ 0 with
  | none => rfl
  | some r =>
    obtain ⟨i, v⟩ := r
    cases v with
    | unit n' => simp only [hfr]
    | named n' fs => simp only [hfr]
    | tuple n' ty =>
      have hw : ty.wt = .lengthDelimited := by
        have := findVariant_wt vars _ 0 i _ hfind
        simpa [Variant.wt] using this
      simp only [decTyWith_frame_congr (unpackMsg f) ty hw _ _ hfr]

/-- **C15** `Result<T, E>`: the discriminant is a bare varint and the frame is length-prefixed, both
    read from the whole remaining buffer: non-minimal encodings of either are accepted -/
theorem unpackMsg_result_nonminimal (f : Nat) (okm errm : Msg) (d : Val) (tb nb rest : List Nat) (tv x : Nat)
    (htag : decVarint tb = some (tv, [])) (hdec : decVarint nb = some (x, [])) :
    unpackMsg (f + 1) (.result okm errm d) (tb ++ nb ++ rest)
      = unpackMsg (f + 1) (.result okm errm d) (encVarint tv ++ encVarint x ++ rest) := by
  have hfr := decFrame_nonminimal nb rest x hdec
  simp only [unpackMsg, List.append_assoc]
  rw [decVarint_full_append tb tv _ htag, decVarint_enc tv (decVarint_lt_U64 tb tv [] htag)]
  simp only [hfr]

/-! ## accepted: the tag of a struct field -/

theorem fieldStepE_tag_congr (b1 b2 : List Nat) (h : decTagE b1 = decTagE b2) : fieldStepE b1 = fieldStepE b2 := by
  unfold fieldStepE; rw [h]

/-- **C15** a struct field whose TAG is a non-minimal varint (`tb` of value `tv`) is read like the
    field with the canonical tag: `FieldIterator::next` reads the tag with `Tag::unpack` from the
    whole remaining buffer and cuts only the payload -/
theorem unpackMsg_struct_nonminimal_tag (f : Nat) (fs : List Field) (pre tb p : List Nat) (tv : Nat)
    (hpre : Bytes pre) (hclean : (fieldsE (pre.length + 1) pre).2 = none)
    (htag : decVarint tb = some (tv, [])) :
    unpackMsg (f + 1) (.struct fs) (pre ++ (tb ++ p)) = unpackMsg (f + 1) (.struct fs) (pre ++ (encVarint tv ++ p)) := by
  have hv : decVarint (tb ++ p) = decVarint (encVarint tv ++ p) := by
    rw [decVarint_full_append tb tv p htag, decVarint_enc tv (decVarint_lt_U64 tb tv [] htag) p]
  have hT : decTagE (tb ++ p) = decTagE (encVarint tv ++ p) := by unfold decTagE; rw [hv]
  have hS := fieldStepE_tag_congr _ _ hT
  have hne1 : tb ++ p ≠ [] := by
    obtain ⟨q, hq, hqne⟩ := decVarint_suffix tb tv [] htag
    simp only [List.append_nil] at hq
    rw [hq]; simp [hqne]
  have hne2 : encVarint tv ++ p ≠ [] := by simp [encVarint_ne_nil]
  have hF : fieldsE ((tb ++ p).length + 1) (tb ++ p) = fieldsE ((encVarint tv ++ p).length + 1) (encVarint tv ++ p) := by
    rw [fieldsE_step _ _ hne1, fieldsE_step _ _ hne2, hS]
    cases hR : fieldStepE (encVarint tv ++ p) with
    | error e => rfl
    | ok r =>
      obtain ⟨fld, rest'⟩ := r
      simp only
      have s1 : rest'.length < (tb ++ p).length := by
        obtain ⟨q, hq, hqne⟩ := fieldStepE_suffix (tb ++ p) fld rest' (by rw [hS]; exact hR)
        rw [hq]; have := List.length_pos_iff.mpr hqne; simp; omega
      have s2 : rest'.length < (encVarint tv ++ p).length := by
        obtain ⟨q, hq, hqne⟩ := fieldStepE_suffix _ fld rest' hR
        rw [hq]; have := List.length_pos_iff.mpr hqne; simp; omega
      rw [fieldsE_fuel _ _ rest' s1 s2]
  simp only [unpackMsg]
  unfold unpackFields
  rw [fieldsE_append (pre.length + 1) pre (by omega) hpre hclean _ _ (by omega),
    fieldsE_append (pre.length + 1) pre (by omega) hpre hclean _ _ (by omega), hF]

end Blue.ProtoMsg
