import Blue.Proofs.RrrCfLayoutDef
/-! `construct` lays the pattern out as `Layout` describes: what each of the four arrays contains
    (as fixed-width / varying-width field sequences of explicit lists), where each block starts,
    and what the select samples point to. -/
namespace Blue.RrrCf
open Blue.BitArr Blue.Rrr

/-! ### the words and the blocks of words -/

theorem range_drop_take (n a c : Nat) :
    ((List.range n).drop a).take c = (List.range (min c (n - a))).map (fun t => a + t) := by
  apply List.ext_getElem?
  intro t
  rw [List.getElem?_take, List.getElem?_drop, List.getElem?_map]
  by_cases h : t < min c (n - a)
  · rw [if_pos (by omega), List.getElem?_range (by omega), List.getElem?_range h]; rfl
  · rw [List.getElem?_eq_none (l := List.range (min c (n - a))) (by rw [List.length_range]; omega)]
    by_cases h2 : t < c
    · rw [if_pos h2, List.getElem?_eq_none (by rw [List.length_range]; omega)]; rfl
    · rw [if_neg h2]; rfl

theorem wordsOf_eq (ws : WordSpec) (bits : List Bool) : wordsOf bits = (List.range (nwOf bits)).map (wd bits) := by
  apply List.ext_getElem?
  intro k
  have hl := ws.wordsOf_length bits
  by_cases h : k < nwOf bits
  · rw [ws.wordsOf_get bits k (by rw [hl]; exact h), List.getElem?_map, List.getElem?_range h]; rfl
  · rw [List.getElem?_eq_none (by rw [hl]; unfold nwOf at h; omega),
      List.getElem?_eq_none (by rw [List.length_map, List.length_range]; omega)]

/-- the words of block `k` (`words[idx..idx+amt]`) -/
theorem block_words (ws : WordSpec) (bits : List Bool) (k : Nat) :
    ((wordsOf bits).drop (23 * k)).take 23
      = (List.range (min 23 (nwOf bits - 23 * k))).map (fun t => wd bits (23 * k + t)) := by
  rw [wordsOf_eq ws, ← List.map_drop, ← List.map_take, range_drop_take, List.map_map]
  rfl

/-- slots beyond the pattern hold the zero word -/
theorem wd_beyond (bits : List Bool) (i : Nat) (h : nwOf bits ≤ i) : wd bits i = 0 := by
  unfold wd
  rw [chunk_nil bits i (by unfold nwOf at h; omega)]
  rfl

/-- padding the words of a block with zero words to 23 gives the 23 slots of the block -/
theorem block_words_padded (ws : WordSpec) (bits : List Bool) (k : Nat) :
    ((wordsOf bits).drop (23 * k)).take 23
        ++ List.replicate (23 - (((wordsOf bits).drop (23 * k)).take 23).length) 0
      = (List.range 23).map (fun t => wd bits (23 * k + t)) := by
  rw [block_words ws, List.length_map, List.length_range]
  generalize hm : min 23 (nwOf bits - 23 * k) = m
  have h23 : m + (23 - m) = 23 := by omega
  have hr : List.range 23 = List.range m ++ (List.range (23 - m)).map (fun x => m + x) := by
    have := List.range_add (n := m) (m := 23 - m)
    rwa [h23] at this
  rw [hr, List.map_append, List.map_map]
  congr 1
  have hc : List.replicate (23 - m) (0 : Nat) = (List.range (23 - m)).map (fun _ => 0) := by
    rw [List.map_const', List.length_range]
  rw [hc]
  apply List.map_congr_left
  intro s hs
  rw [List.mem_range] at hs
  show 0 = wd bits (23 * k + (m + s))
  exact (wd_beyond bits _ (by omega)).symm

/-! ### the bits of one block -/

/-- block `k` as `construct` writes it: cumulative rank, 23 classes, 23 offsets (all 23 slots
    uniformly: a padded slot is the zero word, class 0, zero offset bits) -/
def blockBits (rw : Nat) (bits : List Bool) (k : Nat) : List Bool :=
  toBits (ones bits (63 * (23 * k))) rw
    ++ ((List.range 23).map (fun t => cls bits (23 * k + t))).flatMap (fun c => toBits c 6)
    ++ packFields ((List.range 23).map (fun t => (offs bits (23 * k + t), lOf (cls bits (23 * k + t)))))

/-- skipping the zero-width offsets (`if l_c > 0`) does not change what is written -/
theorem filter_offsets (oc : List (Nat × Nat)) :
    ((oc.filter (fun e => decide (lOf e.2 > 0))).map (fun e => (e.1, lOf e.2))).flatMap (fun f => toBits f.1 f.2)
      = (oc.map (fun e => (e.1, lOf e.2))).flatMap (fun f => toBits f.1 f.2) := by
  induction oc with
  | nil => rfl
  | cons e t ih =>
    rw [List.filter_cons]
    by_cases h : lOf e.2 > 0
    · rw [if_pos (by simpa using h), List.map_cons, List.flatMap_cons, ih, List.map_cons, List.flatMap_cons]
    · rw [if_neg (by simpa using h), ih, List.map_cons, List.flatMap_cons]
      have h0 : lOf e.2 = 0 := by omega
      simp only [h0, toBits_zero, List.nil_append]

theorem flatMap_replicate_nil {α β : Type} (F : α → List β) (a : α) (h : F a = []) (r : Nat) :
    (List.replicate r a).flatMap F = [] := by
  induction r with
  | zero => rfl
  | succ r ih => rw [List.replicate_succ, List.flatMap_cons, h, ih]; rfl

theorem blockFields_bits (ws : WordSpec) (rw : Nat) (bits : List Bool) (k : Nat) :
    (blockFields rw (ones bits (63 * (23 * k))) (((wordsOf bits).drop (23 * k)).take 23)).flatMap
        (fun f : Nat × Nat => toBits f.1 f.2) = blockBits rw bits k := by
  have hpad := block_words_padded ws bits k
  generalize ((wordsOf bits).drop (23 * k)).take 23 = blk at hpad
  have hw : wpbC = 23 := rfl
  have hC : ((blk.map encode).map (fun e : Nat × Nat => (e.2, 6)) ++ List.replicate (wpbC - blk.length) (0, 6)).flatMap
        (fun f : Nat × Nat => toBits f.1 f.2)
      = ((List.range 23).map (fun t => cls bits (23 * k + t))).flatMap (fun c => toBits c 6) := by
    rw [hw]
    have e1 : (blk.map encode).map (fun e : Nat × Nat => (e.2, 6)) ++ List.replicate (23 - blk.length) (0, 6)
        = ((blk ++ List.replicate (23 - blk.length) 0).map encode).map (fun e : Nat × Nat => (e.2, 6)) := by
      rw [List.map_append, List.map_append, List.map_replicate, List.map_replicate]
      rfl
    have e2 : (((List.range 23).map (fun t => wd bits (23 * k + t))).map encode).map (fun e : Nat × Nat => (e.2, 6))
        = ((List.range 23).map (fun t => cls bits (23 * k + t))).map (fun c => (c, 6)) := by
      rw [List.map_map, List.map_map, List.map_map]
      apply List.map_congr_left
      intro t _
      show ((encode (wd bits (23 * k + t))).2, 6) = (cls bits (23 * k + t), 6)
      rw [cls_enc ws]
    rw [e1, hpad, e2, List.flatMap_map]
  have hO : (((blk.map encode).filter (fun e : Nat × Nat => decide (lOf e.2 > 0))).map (fun e : Nat × Nat => (e.1, lOf e.2))).flatMap
        (fun f : Nat × Nat => toBits f.1 f.2)
      = packFields ((List.range 23).map (fun t => (offs bits (23 * k + t), lOf (cls bits (23 * k + t))))) := by
    rw [filter_offsets]
    have e1 : ((blk.map encode).map (fun e : Nat × Nat => (e.1, lOf e.2))).flatMap (fun f : Nat × Nat => toBits f.1 f.2)
        = (((blk ++ List.replicate (23 - blk.length) 0).map encode).map (fun e : Nat × Nat => (e.1, lOf e.2))).flatMap
            (fun f : Nat × Nat => toBits f.1 f.2) := by
      rw [List.map_append, List.map_append, List.flatMap_append, List.map_replicate, List.map_replicate,
        flatMap_replicate_nil _ _ rfl, List.append_nil]
    have e2 : (((List.range 23).map (fun t => wd bits (23 * k + t))).map encode).map (fun e : Nat × Nat => (e.1, lOf e.2))
        = (List.range 23).map (fun t => (offs bits (23 * k + t), lOf (cls bits (23 * k + t)))) := by
      rw [List.map_map, List.map_map]
      apply List.map_congr_left
      intro t _
      show ((encode (wd bits (23 * k + t))).1, lOf (encode (wd bits (23 * k + t))).2) = _
      rw [cls_enc ws]
      rfl
    rw [e1, hpad, e2]
    rfl
  unfold blockFields blockBits
  simp only
  rw [List.flatMap_cons, List.flatMap_append, hC, hO, List.append_assoc]

/-! ### the rank counters -/

theorem foldl_add_sum {α : Type} (f : α → Nat) (l : List α) (r : Nat) :
    l.foldl (fun r e => r + f e) r = r + (l.map f).sum := by
  induction l generalizing r with
  | nil => rfl
  | cons a t ih => rw [List.foldl_cons, ih, List.map_cons, List.sum_cons]; omega

theorem ones_range (ws : WordSpec) (bits : List Bool) (i0 m : Nat) :
    ones bits (63 * (i0 + m)) = ones bits (63 * i0) + ((List.range m).map (fun t => cls bits (i0 + t))).sum := by
  induction m with
  | zero => rfl
  | succ m ih =>
    have h1 := ones_slot bits (i0 + m) 63 (Nat.le_refl _)
    have h2 := cls_eq ws bits (i0 + m)
    have e : 63 * (i0 + (m + 1)) = 63 * (i0 + m) + 63 := by omega
    rw [List.range_succ, List.map_append, List.sum_append, e, h1, ih, ← h2]
    simp only [List.map_cons, List.map_nil, List.sum_cons, List.sum_nil]
    omega

theorem zeros_range (ws : WordSpec) (bits : List Bool) (i0 m : Nat) :
    ((List.range m).map (fun t => 63 - cls bits (i0 + t))).sum
      + ((List.range m).map (fun t => cls bits (i0 + t))).sum = 63 * m := by
  induction m with
  | zero => rfl
  | succ m ih =>
    rw [List.range_succ, List.map_append, List.sum_append, List.map_append, List.sum_append]
    have := cls_le ws bits (i0 + m)
    simp only [List.map_cons, List.map_nil, List.sum_cons, List.sum_nil]
    omega

theorem block_sums (ws : WordSpec) (bits : List Bool) (k : Nat) (f : Nat → Nat) :
    ((((wordsOf bits).drop (23 * k)).take 23).map encode).foldl (fun r e => r + f e.2) r0
      = r0 + ((List.range (min 23 (nwOf bits - 23 * k))).map (fun t => f (cls bits (23 * k + t)))).sum := by
  rw [foldl_add_sum (fun e : Nat × Nat => f e.2), block_words ws, List.map_map, List.map_map]
  refine congrArg (fun l => r0 + List.sum l) ?_
  apply List.map_congr_left
  intro t _
  show f (encode (wd bits (23 * k + t))).2 = _
  rw [cls_enc ws]

/-- `rank` after block `k` -/
theorem block_rank (ws : WordSpec) (bits : List Bool) (k : Nat) :
    ((((wordsOf bits).drop (23 * k)).take 23).map encode).foldl (fun r e => r + e.2) (ones bits (63 * (23 * k)))
      = ones bits (63 * (23 * (k + 1))) := by
  rw [block_sums ws bits k (fun c => c), ← ones_range ws]
  have hn : nwOf bits = (bits.length + 62) / 63 := rfl
  rcases Nat.lt_or_ge (nwOf bits - 23 * k) 23 with h | h
  · rw [ones_ge_len _ _ (by omega), ones_ge_len _ _ (by omega)]
  · have e : 63 * (23 * k + 23) = 63 * (23 * (k + 1)) := by omega
    rw [Nat.min_eq_left h, e]

/-- `rank0 + rank` after block `k` -/
theorem block_rank0 (ws : WordSpec) (bits : List Bool) (k r0 : Nat) :
    ((((wordsOf bits).drop (23 * k)).take 23).map encode).foldl (fun r e => r + (63 - e.2)) r0
        + ones bits (63 * (23 * (k + 1)))
      = r0 + ones bits (63 * (23 * k)) + 63 * min 23 (nwOf bits - 23 * k) := by
  rw [← block_rank ws, block_sums ws bits k (fun c => c), block_sums ws bits k (fun c => 63 - c)]
  have := zeros_range ws bits (23 * k) (min 23 (nwOf bits - 23 * k))
  omega

/-! ### the select samples -/

theorem sampleC_eq : sampleC = 1449 := rfl

theorem sampleLoop_zero (w blk r : Nat) (s : List Bool) (nx : Nat) : sampleLoop w blk r 0 s nx = (s, nx) := rfl
theorem sampleLoop_succ (w blk r f : Nat) (s : List Bool) (nx : Nat) :
    sampleLoop w blk r (f + 1) s nx
      = if r ≥ nx then sampleLoop w blk r f (pushWord s blk w) (nx + sampleC) else (s, nx) := rfl

theorem sampleLoop_spec (w blk r : Nat) : ∀ (fuel : Nat) (S : List Nat), r < 1449 * (S.length + fuel) →
    ∃ m, sampleLoop w blk r fuel (S.flatMap (fun v => toBits v w)) (1449 * S.length)
        = ((S ++ List.replicate m blk).flatMap (fun v => toBits v w), 1449 * (S.length + m))
      ∧ r < 1449 * (S.length + m) ∧ (0 < m → 1449 * (S.length + m - 1) ≤ r) := by
  intro fuel
  induction fuel with
  | zero =>
    intro S h
    exact ⟨0, by rw [sampleLoop_zero]; simp, by simpa using h, fun h => absurd h (Nat.lt_irrefl 0)⟩
  | succ f ih =>
    intro S h
    rw [sampleLoop_succ]
    by_cases hge : r ≥ 1449 * S.length
    · rw [if_pos hge]
      have e1 : pushWord (S.flatMap (fun v => toBits v w)) blk w = (S ++ [blk]).flatMap (fun v => toBits v w) := by
        rw [List.flatMap_append]; simp [pushWord]
      have e2 : 1449 * S.length + sampleC = 1449 * (S ++ [blk]).length := by
        rw [sampleC_eq, List.length_append]; simp; omega
      rw [e1, e2]
      obtain ⟨m, h1, h2, h3⟩ := ih (S ++ [blk]) (by rw [List.length_append]; simp; omega)
      refine ⟨m + 1, ?_, ?_, ?_⟩
      · rw [h1, List.append_assoc, List.length_append]
        simp only [List.length_cons, List.length_nil, List.singleton_append, List.replicate_succ]
        congr 2
        omega
      · rw [List.length_append] at h2; simp at h2; omega
      · intro _
        rw [List.length_append] at h2 h3; simp at h2 h3
        rcases Nat.eq_zero_or_pos m with hm | hm
        · subst hm; simp; omega
        · have := h3 hm; omega
    · rw [if_neg hge]
      exact ⟨0, by simp, by simp; omega, fun h => absurd h (Nat.lt_irrefl 0)⟩

/-- what the sample array holds after `k` blocks, `A k'` being the count after `k'` blocks -/
def SampInv (A : Nat → Nat) (k : Nat) (S : List Nat) (next : Nat) : Prop :=
  next = 1449 * S.length ∧ (k = 0 → S = []) ∧ (0 < k → S.length = A k / 1449 + 1)
    ∧ ∀ j b, S[j]? = some b → b < k ∧ (b = 0 ∨ A b < 1449 * j)

theorem sampStep (A : Nat → Nat) (w k : Nat) (S : List Nat) (next : Nat) (inv : SampInv A k S next)
    (hmono : A k ≤ A (k + 1)) :
    ∃ S', sampleLoop w k (A (k + 1)) (A (k + 1) + 1) (S.flatMap (fun v => toBits v w)) next
        = (S'.flatMap (fun v => toBits v w), 1449 * S'.length) ∧ SampInv A (k + 1) S' (1449 * S'.length) := by
  obtain ⟨hn, h0, hpos, hent⟩ := inv
  obtain ⟨m, h1, h2, h3⟩ := sampleLoop_spec w k (A (k + 1)) (A (k + 1) + 1) S (by omega)
  refine ⟨S ++ List.replicate m k, ?_, rfl, fun h => absurd h (by omega), ?_, ?_⟩
  · rw [hn, h1, List.length_append, List.length_replicate]
  · intro _
    rw [List.length_append, List.length_replicate]
    rcases Nat.eq_zero_or_pos m with hm | hm
    · subst hm
      rcases Nat.eq_zero_or_pos k with hk | hk
      · have := h0 hk; subst this; simp at h2
      · have := hpos hk; omega
    · have := h3 hm; omega
  · intro j b hj
    rcases Nat.lt_or_ge j S.length with hlt | hge
    · rw [List.getElem?_append_left hlt] at hj
      obtain ⟨hb1, hb2⟩ := hent j b hj
      exact ⟨by omega, hb2⟩
    · rw [List.getElem?_append_right hge, List.getElem?_replicate] at hj
      split at hj
      · cases hj
        refine ⟨by omega, ?_⟩
        rcases Nat.eq_zero_or_pos k with hk | hk
        · left; exact hk
        · right; have := hpos hk; omega
      · cases hj

/-! ### the loop of `construct` -/

def buildUpTo (rw : Nat) (bits : List Bool) (k : Nat) : List Bool := (List.range k).flatMap (blockBits rw bits)
/-- the bit offset of block `k` in `b` -/
def offB (rw : Nat) (bits : List Bool) (k : Nat) : Nat := (buildUpTo rw bits k).length
/-- set bits counted after `k` blocks -/
def A1 (bits : List Bool) (k : Nat) : Nat := ones bits (63 * (23 * k))
/-- clear bits counted after `k` blocks (`rank0 += 63 - c` per real word: the padding of the short last
    word counts, the padded class slots of the short last block do not) -/
def A0 (bits : List Bool) (k : Nat) : Nat := 63 * min (23 * k) (nwOf bits) - ones bits (63 * (23 * k))

theorem buildUpTo_succ (rw : Nat) (bits : List Bool) (k : Nat) :
    buildUpTo rw bits (k + 1) = buildUpTo rw bits k ++ blockBits rw bits k := by
  unfold buildUpTo
  rw [List.range_succ, List.flatMap_append]
  simp

theorem blockStep_rank (rw : Nat) (blk : List Nat) (st : CState) :
    (blockStep rw blk st).rank = (blk.map encode).foldl (fun r e => r + e.2) st.rank := rfl
theorem blockStep_rank0 (rw : Nat) (blk : List Nat) (st : CState) :
    (blockStep rw blk st).rank0 = (blk.map encode).foldl (fun r e => r + (63 - e.2)) st.rank0 := rfl
theorem blockStep_build (rw : Nat) (blk : List Nat) (st : CState) :
    (blockStep rw blk st).build
      = st.build ++ (blockFields rw st.rank blk).flatMap (fun f => toBits f.1 f.2) := rfl
theorem blockStep_ps (rw : Nat) (blk : List Nat) (st : CState) :
    (blockStep rw blk st).ps = st.ps ++ [st.build.length] := rfl
theorem blockStep_s0 (rw : Nat) (blk : List Nat) (st : CState) :
    ((blockStep rw blk st).s0, (blockStep rw blk st).next0)
      = sampleLoop rw ((st.ps ++ [st.build.length]).length - 1) (blockStep rw blk st).rank0
          ((blockStep rw blk st).rank0 + 1) st.s0 st.next0 := rfl
theorem blockStep_s1 (rw : Nat) (blk : List Nat) (st : CState) :
    ((blockStep rw blk st).s1, (blockStep rw blk st).next1)
      = sampleLoop rw ((st.ps ++ [st.build.length]).length - 1) (blockStep rw blk st).rank
          ((blockStep rw blk st).rank + 1) st.s1 st.next1 := rfl

/-- appending the block's bits in one go is the same as the successive `push_word`s -/
theorem blockStep_build_eq_pushes (rw : Nat) (blk : List Nat) (st : CState) :
    (blockStep rw blk st).build
      = (blockFields rw st.rank blk).foldl (fun a f => pushWord a f.1 f.2) st.build := by
  rw [blockStep_build, foldl_pushWord_fields]; rfl

structure Inv (rw : Nat) (bits : List Bool) (k : Nat) (st : CState) : Prop where
  rank : st.rank = ones bits (63 * (23 * k))
  rank0 : st.rank0 + st.rank = 63 * min (23 * k) (nwOf bits)
  build : st.build = buildUpTo rw bits k
  ps : st.ps = (List.range k).map (offB rw bits)
  s0 : ∃ S, st.s0 = S.flatMap (fun v => toBits v rw) ∧ SampInv (A0 bits) k S st.next0
  s1 : ∃ S, st.s1 = S.flatMap (fun v => toBits v rw) ∧ SampInv (A1 bits) k S st.next1

theorem inv_init (rw : Nat) (bits : List Bool) : Inv rw bits 0 cInit where
  rank := by simp [cInit, ones_zero]
  rank0 := by simp [cInit]
  build := rfl
  ps := rfl
  s0 := ⟨[], rfl, rfl, fun _ => rfl, fun h => absurd h (Nat.lt_irrefl 0), fun j b h => by simp at h⟩
  s1 := ⟨[], rfl, rfl, fun _ => rfl, fun h => absurd h (Nat.lt_irrefl 0), fun j b h => by simp at h⟩

theorem blockStep_inv (ws : WordSpec) (rw : Nat) (bits : List Bool) (k : Nat) (st : CState)
    (hk : 23 * k < nwOf bits) (inv : Inv rw bits k st) :
    Inv rw bits (k + 1) (blockStep rw (((wordsOf bits).drop (23 * k)).take 23) st) := by
  generalize hblk : ((wordsOf bits).drop (23 * k)).take 23 = blk
  have hr' : (blockStep rw blk st).rank = ones bits (63 * (23 * (k + 1))) := by
    rw [blockStep_rank, inv.rank, ← hblk, block_rank ws]
  have h0 := block_rank0 ws bits k st.rank0
  rw [hblk, ← blockStep_rank0 rw blk st] at h0
  have hsum : (blockStep rw blk st).rank0 + (blockStep rw blk st).rank = 63 * min (23 * (k + 1)) (nwOf bits) := by
    have := inv.rank0
    rw [inv.rank] at this
    rw [hr']
    omega
  have hge : st.rank0 ≤ (blockStep rw blk st).rank0 := by
    rw [blockStep_rank0, ← hblk, block_sums ws bits k (fun c => 63 - c)]
    omega
  have hr0 : st.rank0 = A0 bits k := by
    have := inv.rank0
    rw [inv.rank] at this
    unfold A0; omega
  have hr0' : (blockStep rw blk st).rank0 = A0 bits (k + 1) := by
    rw [hr'] at hsum
    unfold A0; omega
  have hlen : (st.ps ++ [st.build.length]).length - 1 = k := by
    rw [inv.ps, List.length_append, List.length_map, List.length_range]; rfl
  refine ⟨hr', hsum, ?_, ?_, ?_, ?_⟩
  · rw [blockStep_build, inv.rank, ← hblk, blockFields_bits ws, inv.build, buildUpTo_succ]
  · rw [blockStep_ps, inv.ps, inv.build, List.range_succ, List.map_append]
    rfl
  · obtain ⟨S, hs, hinv⟩ := inv.s0
    obtain ⟨S', h1, h2⟩ := sampStep (A0 bits) rw k S st.next0 hinv (by rw [← hr0, ← hr0']; exact hge)
    have e := blockStep_s0 rw blk st
    rw [hlen, hr0', hs, h1] at e
    injection e with e1 e2
    exact ⟨S', e1, e2 ▸ h2⟩
  · obtain ⟨S, hs, hinv⟩ := inv.s1
    obtain ⟨S', h1, h2⟩ := sampStep (A1 bits) rw k S st.next1 hinv (ones_mono bits (by omega))
    have e := blockStep_s1 rw blk st
    have hr1 : (blockStep rw blk st).rank = A1 bits (k + 1) := hr'
    rw [hlen, hr1, hs, h1] at e
    injection e with e1 e2
    exact ⟨S', e1, e2 ▸ h2⟩

theorem cLoop_zero (rw : Nat) (rest : List Nat) (st : CState) : cLoop rw 0 rest st = st := rfl
theorem cLoop_succ (rw f : Nat) (rest : List Nat) (st : CState) :
    cLoop rw (f + 1) rest st
      = if rest.isEmpty then st else cLoop rw f (rest.drop wpbC) (blockStep rw (rest.take wpbC) st) := rfl

theorem cLoop_inv (ws : WordSpec) (rw : Nat) (bits : List Bool) :
    ∀ (fuel k : Nat) (st : CState), Inv rw bits k st → nwOf bits ≤ 23 * k + fuel → k ≤ nbOf bits →
      Inv rw bits (nbOf bits) (cLoop rw fuel ((wordsOf bits).drop (23 * k)) st) := by
  intro fuel
  have hwl : (wordsOf bits).length = nwOf bits := ws.wordsOf_length bits
  induction fuel with
  | zero =>
    intro k st inv hf hk
    have : k = nbOf bits := by unfold nbOf at *; omega
    rw [cLoop_zero, ← this]; exact inv
  | succ f ih =>
    intro k st inv hf hk
    rw [cLoop_succ]
    by_cases he : ((wordsOf bits).drop (23 * k)).isEmpty
    · rw [if_pos he]
      rw [List.isEmpty_iff, List.drop_eq_nil_iff, hwl] at he
      have : k = nbOf bits := by unfold nbOf at *; omega
      rw [← this]; exact inv
    · rw [if_neg he]
      rw [List.isEmpty_iff, List.drop_eq_nil_iff, hwl] at he
      have hw : wpbC = 23 := rfl
      have e : 23 * k + 23 = 23 * (k + 1) := by omega
      rw [hw, List.drop_drop, e]
      exact ih (k + 1) _ (blockStep_inv ws rw bits k st (by omega) inv) (by omega) (by unfold nbOf; omega)

/-! ### reading the arrays back -/

theorem buildUpTo_add (rw : Nat) (bits : List Bool) (k d : Nat) :
    ∃ post, buildUpTo rw bits (k + d) = buildUpTo rw bits k ++ post := by
  unfold buildUpTo
  rw [List.range_add, List.flatMap_append]
  exact ⟨_, rfl⟩

theorem buildUpTo_split (rw : Nat) (bits : List Bool) (k nb : Nat) (h : k < nb) :
    ∃ post, buildUpTo rw bits nb = buildUpTo rw bits k ++ blockBits rw bits k ++ post := by
  obtain ⟨post, hp⟩ := buildUpTo_add rw bits (k + 1) (nb - (k + 1))
  have e : k + 1 + (nb - (k + 1)) = nb := by omega
  rw [e, buildUpTo_succ] at hp
  exact ⟨post, hp⟩

theorem offB_mono (rw : Nat) (bits : List Bool) {k k' : Nat} (h : k ≤ k') : offB rw bits k ≤ offB rw bits k' := by
  obtain ⟨post, hp⟩ := buildUpTo_add rw bits k (k' - k)
  have e : k + (k' - k) = k' := by omega
  rw [e] at hp
  unfold offB
  rw [hp, List.length_append]
  omega

theorem nbOf_le_len (bits : List Bool) : nbOf bits ≤ bits.length := by unfold nbOf nwOf; omega

theorem take_fs_sum (bits : List Bool) (k t : Nat) (ht : t ≤ 23) :
    ((((List.range 23).map (fun t => (offs bits (23 * k + t), lOf (cls bits (23 * k + t))))).take t).map
      (fun f : Nat × Nat => f.2)).sum = oSum bits (23 * k) t := by
  rw [← List.map_take, List.take_range, Nat.min_eq_left ht, List.map_map]
  unfold oSum
  have e : ((fun f : Nat × Nat => f.2) ∘ fun t => (offs bits (23 * k + t), lOf (cls bits (23 * k + t))))
      = (fun t' => lOf (cls bits (23 * k + t'))) := by
    funext t'
    simp only [Function.comp]
  rw [e]

theorem blockAt_of_build (ws : WordSpec) (bits : List Bool) (v : Vec) (k : Nat) (hk : k < nbOf bits)
    (hb : v.b = sealBits (buildUpTo v.rWidth bits (nbOf bits))) (hrw : v.rWidth = calcWidth bits.length) :
    BlockAt bits v k (offB v.rWidth bits k) := by
  obtain ⟨post, hsplit⟩ := buildUpTo_split v.rWidth bits k (nbOf bits) hk
  generalize hpre : buildUpTo v.rWidth bits k = pre at hsplit
  have hoff : offB v.rWidth bits k = pre.length := by unfold offB; rw [hpre]
  generalize hCL : ((List.range 23).map (fun t => cls bits (23 * k + t))) = vals at *
  generalize hFS : ((List.range 23).map (fun t => (offs bits (23 * k + t), lOf (cls bits (23 * k + t))))) = fs at *
  have hbb : blockBits v.rWidth bits k
      = toBits (ones bits (63 * (23 * k))) v.rWidth ++ vals.flatMap (fun c => toBits c 6) ++ packFields fs := by
    unfold blockBits; rw [hCL, hFS]
  rw [hbb] at hsplit
  rw [hsplit] at hb
  generalize hX : toBits (ones bits (63 * (23 * k))) v.rWidth = X at hb
  generalize hY : vals.flatMap (fun c => toBits c 6) = Y at hb
  generalize hZ : packFields fs = Z at hb
  have hXl : X.length = v.rWidth := by rw [← hX, toBits_length]
  have hYl : Y.length = 138 := by
    rw [← hY, flatMap_toBits_length, ← hCL, List.length_map, List.length_range]
  have hb1 : v.b = sealBits (pre ++ X ++ (Y ++ Z ++ post)) := by
    rw [hb]; simp only [List.append_assoc]
  have hb2 : v.b = sealBits ((pre ++ X) ++ Y ++ (Z ++ post)) := by
    rw [hb]; simp only [List.append_assoc]
  have hb3 : v.b = sealBits ((pre ++ X ++ Y) ++ Z ++ post) := by
    rw [hb]; simp only [List.append_assoc]
  have hR : ones bits (63 * (23 * k)) < 2 ^ v.rWidth := by
    rw [hrw]; exact lt_two_pow_calcWidth _ _ (ones_le_len _ _)
  have hcl : ∀ t, t < 23 → load v.b (pre.length + v.rWidth + 6 * t) 6 = some (cls bits (23 * k + t)) := by
    intro t ht
    have hv : vals[t]? = some (cls bits (23 * k + t)) := by
      rw [← hCL, List.getElem?_map, List.getElem?_range ht]; rfl
    have := load_sealed_fixed (pre ++ X) (Z ++ post) vals 6 t _ hv
      (by have := cls_le ws bits (23 * k + t); omega)
    rw [List.length_append, hXl, Nat.mul_comm t 6, hY] at this
    rw [hb2]; exact this
  refine ⟨?_, ?_, ?_, ?_⟩
  · have := load_sealed_mid pre (Y ++ Z ++ post) _ v.rWidth hR
    rw [hX] at this
    rw [hoff, hb1]; exact this
  · have h22 := hcl 22 (by omega)
    have hb8 : v.b.length % 8 = 0 := by rw [hb]; exact sealBits_length_mod _
    have := (load_inside_val v.b hb8 _ 6 _ (by omega) h22).2
    rw [hoff]; omega
  · intro t ht
    rw [hoff]; exact hcl t ht
  · intro t ht
    have hf : fs[t]? = some (offs bits (23 * k + t), lOf (cls bits (23 * k + t))) := by
      rw [← hFS, List.getElem?_map, List.getElem?_range ht]; rfl
    have := load_sealed_fields (pre ++ X ++ Y) post fs t _ _ hf (offs_lt ws bits (23 * k + t))
    have hsum : ((fs.take t).map (·.2)).sum = oSum bits (23 * k) t := by
      rw [← hFS]; exact take_fs_sum bits k t (by omega)
    rw [List.length_append, List.length_append, hXl, hYl, hsum, hZ] at this
    rw [hoff, hb3]; exact this

theorem samples_of_inv (bits : List Bool) (rw : Nat) (hrw : rw = calcWidth bits.length) (zero : Bool)
    (A : Nat → Nat) (hA1 : ∀ b, b < nbOf bits → A b = cntE zero bits (63 * (23 * b)))
    (hA2 : cntE zero bits bits.length ≤ A (nbOf bits))
    (S : List Nat) (next : Nat) (inv : SampInv A (nbOf bits) S next) :
    Samples bits (sealBits (S.flatMap (fun v => toBits v rw))) rw zero := by
  obtain ⟨_, h0, hpos, hent⟩ := inv
  rw [← packAll_eq]
  refine ⟨S, ?_, ?_⟩
  · intro j b hj
    obtain ⟨hb1, hb2⟩ := hent j b hj
    refine ⟨?_, hb1, ?_⟩
    · apply load_packAll S rw j b hj
      rw [hrw]
      apply lt_two_pow_calcWidth
      have := nbOf_le_len bits
      omega
    · rcases hb2 with h | h
      · left; exact h
      · right; rw [← hA1 b hb1]; exact h
  · intro j hj
    refine ⟨load_packAll_beyond S rw j (by rw [hrw]; exact calcWidth_ge _) hj, ?_⟩
    intro x hx hxj
    rcases Nat.eq_zero_or_pos (nbOf bits) with hnb | hnb
    · have hl : bits.length = 0 := by unfold nbOf nwOf at hnb; omega
      rw [hl, cntE_zero]; exact hx
    · have := hpos hnb
      omega

theorem construct_layout (ws : WordSpec) (bits : List Bool) : Layout bits (construct bits) := by
  have inv := cLoop_inv ws (calcWidth bits.length) bits (wordsOf bits).length 0 cInit (inv_init _ _)
    (by rw [ws.wordsOf_length]; unfold nwOf; omega) (Nat.zero_le _)
  rw [show 23 * 0 = 0 from rfl, List.drop_zero] at inv
  generalize hst : cLoop (calcWidth bits.length) (wordsOf bits).length (wordsOf bits) cInit = st at inv
  -- name the parts of the constructed vector
  have hv : construct bits =
      { bits := bits.length, wordsPerBlock := wpbC, selectSample := sampleC,
        pWidth := calcWidth ((if st.ps.isEmpty then [0] else st.ps).getLast?.getD 0 + 1),
        rWidth := calcWidth bits.length,
        p := sealBits (packAll (if st.ps.isEmpty then [0] else st.ps)
          (calcWidth ((if st.ps.isEmpty then [0] else st.ps).getLast?.getD 0 + 1))),
        b := sealBits st.build, s0 := sealBits st.s0, s1 := sealBits st.s1 } := by
    unfold construct
    simp only [hst]
    rfl
  rw [hv]
  generalize hps : (if st.ps.isEmpty then [0] else st.ps) = ps
  generalize hpw : calcWidth (ps.getLast?.getD 0 + 1) = pw
  have hpw8 : 8 ≤ pw := by rw [← hpw]; exact calcWidth_ge _
  have hpsl : nbOf bits ≤ ps.length ∧ (0 < ps.length) := by
    rw [← hps, inv.ps]
    split
    · rename_i h
      rw [List.isEmpty_iff, List.map_eq_nil_iff, List.range_eq_nil] at h
      rw [h]; simp
    · rename_i h
      rw [List.isEmpty_iff, List.map_eq_nil_iff, List.range_eq_nil] at h
      rw [List.length_map, List.length_range]; omega
  have hpsk : ∀ k, k < nbOf bits → ps[k]? = some (offB (calcWidth bits.length) bits k) ∧ ps.length = nbOf bits
      ∧ offB (calcWidth bits.length) bits k < 2 ^ pw := by
    intro k hk
    have hne : ¬ st.ps.isEmpty = true := by
      rw [inv.ps, List.isEmpty_iff, List.map_eq_nil_iff, List.range_eq_nil]; omega
    rw [if_neg hne, inv.ps] at hps
    have hlast : ps.getLast?.getD 0 = offB (calcWidth bits.length) bits (nbOf bits - 1) := by
      rw [← hps, List.getLast?_map, List.getLast?_range, if_neg (by omega)]; rfl
    refine ⟨?_, ?_, ?_⟩
    · rw [← hps, List.getElem?_map, List.getElem?_range hk]; rfl
    · rw [← hps, List.length_map, List.length_range]
    · rw [← hpw, hlast]
      apply lt_two_pow_calcWidth
      have := offB_mono (calcWidth bits.length) bits (show k ≤ nbOf bits - 1 by omega)
      omega
  refine ⟨rfl, rfl, rfl, sealBits_length_mod _, ?_, ?_, ?_, ?_⟩
  · show nbOf bits ≤ (sealBits (packAll ps pw)).length
    have h1 := sealBits_length_ge (packAll ps pw)
    rw [packAll_length] at h1
    have h2 : ps.length * 8 ≤ ps.length * pw := Nat.mul_le_mul_left _ hpw8
    omega
  · intro k hk
    obtain ⟨h1, _, h3⟩ := hpsk k hk
    refine ⟨offB (calcWidth bits.length) bits k, load_packAll ps pw k _ h1 h3, ?_⟩
    exact blockAt_of_build ws bits _ k hk (by show sealBits st.build = _; rw [inv.build]) rfl
  · intro k hk hk0
    apply load_packAll_beyond ps pw k hpw8
    rcases Nat.eq_zero_or_pos (nbOf bits) with hnb | hnb
    · rw [← hps, inv.ps, hnb]; simp; omega
    · have := (hpsk 0 hnb).2.1; omega
  · intro zero
    have hn : nwOf bits ≤ 23 * nbOf bits := by unfold nbOf; omega
    have hl : bits.length ≤ 63 * (23 * nbOf bits) := by unfold nbOf nwOf; omega
    cases zero with
    | true =>
      obtain ⟨S, hs, hinv⟩ := inv.s0
      show Samples bits (sealBits st.s0) (calcWidth bits.length) true
      rw [hs]
      apply samples_of_inv bits _ rfl true (A0 bits) _ _ S _ hinv
      · intro b hb
        have : 23 * b ≤ nwOf bits := by unfold nbOf at hb; omega
        unfold A0 cntE
        simp only [if_true]
        rw [Nat.min_eq_left this]
      · unfold A0 cntE
        simp only [if_true]
        rw [Nat.min_eq_right hn, ones_ge_len bits _ hl, ones_ge_len bits _ (Nat.le_refl _)]
        unfold nwOf; omega
    | false =>
      obtain ⟨S, hs, hinv⟩ := inv.s1
      show Samples bits (sealBits st.s1) (calcWidth bits.length) false
      rw [hs]
      apply samples_of_inv bits _ rfl false (A1 bits) _ _ S _ hinv
      · intro b _
        rfl
      · unfold A1 cntE
        simp only [Bool.false_eq_true, if_false]
        rw [ones_ge_len bits _ hl, ones_ge_len bits _ (Nat.le_refl _)]
        exact Nat.le_refl _

end Blue.RrrCf
