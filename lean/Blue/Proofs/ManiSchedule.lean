import Blue.Model.ManiDir
import Blue.Proofs.ManiCrash
import Blue.Proofs.ManiAlgebra
import Blue.Proofs.ManiChain
import Blue.Proofs.ManiOpenBytes
/-! The rollover RULE (`rollsOver`, `schedule` of `Blue/Model/ManiDir.lean`) inside the crash theorems.

    `schedule` keeps books of its own (`mani`: what MANIFEST holds; `sofar`: every edit applied) and
    emits `Client` calls.  Here: the books are the file system's (`FollowsRule`: each `.edit` / `.editRoll`
    of the emitted history is what the test at the end of `_apply` answers on the bytes the MODEL FILE
    SYSTEM holds at that call), the emitted history is in the alphabet of `crash_recover`, and the
    facts about the test itself: ratio 0, the first edits, antitonicity, and the bound it enforces on
    the size of MANIFEST. -/
namespace Blue.Mani
open Blue.ManiCrash

/-- the edits a list of events applies, in order -/
def eventEdits : List Event → List Edit
  | [] => []
  | .edit e :: t => e :: eventEdits t
  | .rollover :: t => eventEdits t
  | .reopen :: t => eventEdits t

/-- the edits MANIFEST holds in the model file system: what `metadata(MANIFEST).len()` measures is
    `fileBytes` of this list -/
def onDisk (fs : Fs Edit) : List Edit := fs.mani.durable ++ fs.mani.pending

/-- **a history that rolls over exactly where the rule says**, read against the model file system:
    an `.edit e` is an `apply` after whose write the test answers "no" on the bytes MANIFEST then
    holds, an `.editRoll e` one where it answers "yes", an explicit `.rollover` needs a MANIFEST -/
def FollowsRule (crc : List Nat → Nat) (ratio : Nat) : List (Client Edit) → Fs Edit → List Edit → Prop
  | [], _, _ => True
  | .edit e :: cs, fs, sofar =>
    rollsOver crc ratio (onDisk fs) sofar e = false
    ∧ FollowsRule crc ratio cs (run fs (block maniAlgebra sofar (.edit e))) (sofar ++ [e])
  | .editRoll e :: cs, fs, sofar =>
    rollsOver crc ratio (onDisk fs) sofar e = true
    ∧ FollowsRule crc ratio cs (run fs (block maniAlgebra sofar (.editRoll e))) (sofar ++ [e])
  | .rollover :: cs, fs, sofar =>
    onDisk fs ≠ [] ∧ FollowsRule crc ratio cs (run fs (block maniAlgebra sofar .rollover)) sofar

/-- an event list `schedule` accepts from the empty directory: its first call is not an explicit
    rollover (there is no MANIFEST to link) -/
def Program : List Event → Bool
  | [] => true
  | .edit _ :: _ => true
  | .rollover :: _ => false
  | .reopen :: t => Program t

/-! ## the blocks on the file system -/

theorem onDisk_edit (fs : Fs Edit) (sofar : List Edit) (e : Edit) :
    onDisk (run fs (block maniAlgebra sofar (.edit e))) = onDisk fs ++ [e] := by
  show (fs.mani.durable ++ (fs.mani.pending ++ [e])) ++ [] = (fs.mani.durable ++ fs.mani.pending) ++ [e]
  rw [List.append_nil, List.append_assoc]

/-- after the rollover inside an `apply` MANIFEST holds exactly one edit, the roll-up of the state, synced -/
theorem mani_after_editRoll (fs : Fs Edit) (sofar : List Edit) (e : Edit) :
    (run fs (block maniAlgebra sofar (.editRoll e))).mani
      = ⟨[maniAlgebra.rollup (replay maniAlgebra (sofar ++ [e]))], []⟩ := rfl

/-- … and after an explicit rollover -/
theorem mani_after_rollover (fs : Fs Edit) (sofar : List Edit) :
    (run fs (block maniAlgebra sofar .rollover)).mani
      = ⟨[maniAlgebra.rollup (replay maniAlgebra sofar)], []⟩ := rfl

theorem onDisk_editRoll (fs : Fs Edit) (sofar : List Edit) (e : Edit) :
    onDisk (run fs (block maniAlgebra sofar (.editRoll e)))
      = [maniAlgebra.rollup (replay maniAlgebra (sofar ++ [e]))] := rfl

theorem onDisk_rollover (fs : Fs Edit) (sofar : List Edit) :
    onDisk (run fs (block maniAlgebra sofar .rollover)) = [maniAlgebra.rollup (replay maniAlgebra sofar)] := rfl

/-! ## `schedule`, one step at a time -/

variable (crc : List Nat → Nat) (ratio : Nat)

theorem schedule_nil (mani sofar : List Edit) : schedule crc ratio [] mani sofar = some [] := rfl

theorem schedule_edit (e : Edit) (evs : List Event) (mani sofar : List Edit) :
    schedule crc ratio (.edit e :: evs) mani sofar =
      if rollsOver crc ratio mani sofar e then
        (schedule crc ratio evs [maniAlgebra.rollup (replay maniAlgebra (sofar ++ [e]))] (sofar ++ [e])).map
          (fun cs => .editRoll e :: cs)
      else (schedule crc ratio evs (mani ++ [e]) (sofar ++ [e])).map (fun cs => .edit e :: cs) := rfl

theorem schedule_rollover (evs : List Event) (mani sofar : List Edit) :
    schedule crc ratio (.rollover :: evs) mani sofar =
      if mani.isEmpty then none
      else (schedule crc ratio evs [maniAlgebra.rollup (replay maniAlgebra sofar)] sofar).map (fun cs => .rollover :: cs) := rfl

theorem schedule_reopen (evs : List Event) (mani sofar : List Edit) :
    schedule crc ratio (.reopen :: evs) mani sofar =
      if mani.isEmpty then schedule crc ratio evs mani sofar
      else (schedule crc ratio evs [maniAlgebra.rollup (replay maniAlgebra sofar)] sofar).map (fun cs => .rollover :: cs) := rfl

theorem isEmpty_false_ne {α : Type} (l : List α) (h : l.isEmpty = false) : l ≠ [] := by
  intro hl; rw [hl] at h; exact Bool.noConfusion h

/-- **the schedule is a history of the crash theorems' alphabet that follows the rule on the model
    file system**: whenever `schedule`'s books agree with the file system at the start
    (`onDisk fs = mani`), the calls it emits are `Client` calls whose edits are the events' edits, in
    order, and every one of them is what the rule answers on the bytes the FILE SYSTEM holds when
    the call is made -/
theorem schedule_follows_rule : ∀ (evs : List Event) (mani sofar : List Edit) (h : List (Client Edit)) (fs : Fs Edit),
    schedule crc ratio evs mani sofar = some h → onDisk fs = mani →
    FollowsRule crc ratio h fs sofar ∧ editsOf h = eventEdits evs
  | [], mani, sofar, h, fs, hs, _ => by
    rw [schedule_nil] at hs
    cases hs
    exact ⟨trivial, rfl⟩
  | .edit e :: evs, mani, sofar, h, fs, hs, hfs => by
    rw [schedule_edit] at hs
    cases hr : rollsOver crc ratio mani sofar e with
    | true =>
      rw [hr, if_pos rfl] at hs
      obtain ⟨cs, hcs, rfl⟩ := Option.map_eq_some_iff.mp hs
      have ih := schedule_follows_rule evs _ _ cs (run fs (block maniAlgebra sofar (.editRoll e))) hcs
        (onDisk_editRoll fs sofar e)
      refine ⟨⟨by rw [hfs]; exact hr, ih.1⟩, ?_⟩
      show e :: editsOf cs = e :: eventEdits evs
      rw [ih.2]
    | false =>
      rw [hr, if_neg (by decide)] at hs
      obtain ⟨cs, hcs, rfl⟩ := Option.map_eq_some_iff.mp hs
      have ih := schedule_follows_rule evs _ _ cs (run fs (block maniAlgebra sofar (.edit e))) hcs
        (by rw [onDisk_edit, hfs])
      refine ⟨⟨by rw [hfs]; exact hr, ih.1⟩, ?_⟩
      show e :: editsOf cs = e :: eventEdits evs
      rw [ih.2]
  | .rollover :: evs, mani, sofar, h, fs, hs, hfs => by
    rw [schedule_rollover] at hs
    cases hm : mani.isEmpty with
    | true => rw [hm, if_pos rfl] at hs; cases hs
    | false =>
      rw [hm, if_neg (by decide)] at hs
      obtain ⟨cs, hcs, rfl⟩ := Option.map_eq_some_iff.mp hs
      have ih := schedule_follows_rule evs _ _ cs (run fs (block maniAlgebra sofar .rollover)) hcs
        (onDisk_rollover fs sofar)
      exact ⟨⟨by rw [hfs]; exact isEmpty_false_ne _ hm, ih.1⟩, ih.2⟩
  | .reopen :: evs, mani, sofar, h, fs, hs, hfs => by
    rw [schedule_reopen] at hs
    cases hm : mani.isEmpty with
    | true =>
      rw [hm, if_pos rfl] at hs
      exact schedule_follows_rule evs mani sofar h fs hs hfs
    | false =>
      rw [hm, if_neg (by decide)] at hs
      obtain ⟨cs, hcs, rfl⟩ := Option.map_eq_some_iff.mp hs
      have ih := schedule_follows_rule evs _ _ cs (run fs (block maniAlgebra sofar .rollover)) hcs
        (onDisk_rollover fs sofar)
      exact ⟨⟨by rw [hfs]; exact isEmpty_false_ne _ hm, ih.1⟩, ih.2⟩

/-- with a MANIFEST on disk every event list is a program -/
theorem schedule_isSome_of_mani : ∀ (evs : List Event) (mani sofar : List Edit), mani ≠ [] →
    (schedule crc ratio evs mani sofar).isSome = true
  | [], _, _, _ => rfl
  | .edit e :: evs, mani, sofar, _ => by
    rw [schedule_edit]
    split
    · rw [Option.isSome_map]; exact schedule_isSome_of_mani evs _ _ (List.cons_ne_nil _ _)
    · rw [Option.isSome_map]; exact schedule_isSome_of_mani evs _ _ (by simp)
  | .rollover :: evs, mani, sofar, hm => by
    rw [schedule_rollover]
    have : mani.isEmpty = false := by cases mani with | nil => exact absurd rfl hm | cons _ _ => rfl
    rw [this, if_neg (by decide), Option.isSome_map]
    exact schedule_isSome_of_mani evs _ _ (List.cons_ne_nil _ _)
  | .reopen :: evs, mani, sofar, hm => by
    rw [schedule_reopen]
    have : mani.isEmpty = false := by cases mani with | nil => exact absurd rfl hm | cons _ _ => rfl
    rw [this, if_neg (by decide), Option.isSome_map]
    exact schedule_isSome_of_mani evs _ _ (List.cons_ne_nil _ _)

/-- from the empty directory `schedule` answers exactly on the programs -/
theorem schedule_isSome_iff : ∀ (evs : List Event) (sofar : List Edit),
    (schedule crc ratio evs [] sofar).isSome = Program evs
  | [], _ => rfl
  | .edit e :: evs, sofar => by
    rw [schedule_edit]
    split
    · rw [Option.isSome_map]; exact schedule_isSome_of_mani crc ratio evs _ _ (List.cons_ne_nil _ _)
    · rw [Option.isSome_map]; exact schedule_isSome_of_mani crc ratio evs _ _ (by simp)
  | .rollover :: evs, sofar => rfl
  | .reopen :: evs, sofar => by
    rw [schedule_reopen]
    have hE : (([] : List Edit).isEmpty = true) := rfl
    rw [if_pos hE]
    exact schedule_isSome_iff evs sofar

/-- a list of `apply` calls and nothing else is a program -/
theorem program_edits (es : List Edit) : Program (es.map Event.edit) = true := by
  cases es <;> rfl

theorem eventEdits_edits (es : List Edit) : eventEdits (es.map Event.edit) = es := by
  induction es with
  | nil => rfl
  | cons e t ih => show e :: eventEdits (t.map Event.edit) = e :: t; rw [ih]

/-- **`schedule_is_a_history`**: for every ratio, checksum and program from the empty directory
    (in particular every list of `apply` calls) `schedule` emits a history `h` of the alphabet the
    crash theorems quantify over, holding the events' edits in order, and rolling over — on the
    model file system the crash theorems run — exactly where the rule says -/
theorem schedule_is_a_history (evs : List Event) (hp : Program evs = true) :
    ∃ h : List (Client Edit), schedule crc ratio evs [] [] = some h
      ∧ editsOf h = eventEdits evs ∧ FollowsRule crc ratio h emptyFs [] := by
  have hs := schedule_isSome_iff crc ratio evs []
  rw [hp] at hs
  obtain ⟨h, hh⟩ := Option.isSome_iff_exists.mp hs
  have := schedule_follows_rule crc ratio evs [] [] h emptyFs hh rfl
  exact ⟨h, hh, this.2, this.1⟩

/-! ## the crash, reopen and chain theorems for the scheduled history -/

/-- **crash, as the store decides to roll over**: for every ratio, the history `schedule` emits,
    cut at any system call, reopens under both persistence models to the replay of a prefix of the
    EVENTS' edits that contains every acknowledged one -/
theorem scheduled_crash_recover (evs : List Event) (h : List (Client Edit))
    (hs : schedule crc ratio evs [] [] = some h) (n : Nat) :
    FollowsRule crc ratio h emptyFs []
    ∧ Ok maniAlgebra (recoverB maniAlgebra (run emptyFs ((opsOf maniAlgebra h []).take n))) (eventEdits evs)
        (acked ((opsOf maniAlgebra h []).take n)) (appended ((opsOf maniAlgebra h []).take n))
    ∧ Ok maniAlgebra (recoverA maniAlgebra (run emptyFs ((opsOf maniAlgebra h []).take n))) (eventEdits evs)
        (acked ((opsOf maniAlgebra h []).take n)) (appended ((opsOf maniAlgebra h []).take n)) := by
  have hf := schedule_follows_rule crc ratio evs [] [] h emptyFs hs rfl
  have := mani_crash_recover h emptyFs [] ⟨rfl, rfl⟩ n
  simp only [List.nil_append, List.length_nil, Nat.zero_add] at this
  rw [hf.2] at this
  exact ⟨hf.1, this⟩

/-- **reopen from the bytes, as the store decides to roll over** -/
theorem scheduled_open_after_history (hcrc : CrcOk crc) (evs : List Event) (h : List (Client Edit))
    (hs : schedule crc ratio evs [] [] = some h) (hok : ∀ e ∈ eventEdits evs, e.Ok) (n : Nat) :
    let fs := run emptyFs ((opsOf maniAlgebra h []).take n)
    openBytes crc (fileBytes crc (crashB fs).mani.durable) = some (recoverB maniAlgebra fs)
    ∧ openBytes crc (fileBytes crc (crashA fs).mani.durable) = some (recoverA maniAlgebra fs)
    ∧ (∃ k, acked ((opsOf maniAlgebra h []).take n) ≤ k ∧ k ≤ appended ((opsOf maniAlgebra h []).take n)
        ∧ openBytes crc (fileBytes crc (crashB fs).mani.durable) = some (replay maniAlgebra ((eventEdits evs).take k)))
    ∧ (∃ k, acked ((opsOf maniAlgebra h []).take n) ≤ k ∧ k ≤ appended ((opsOf maniAlgebra h []).take n)
        ∧ openBytes crc (fileBytes crc (crashA fs).mani.durable) = some (replay maniAlgebra ((eventEdits evs).take k))) := by
  have hf := schedule_follows_rule crc ratio evs [] [] h emptyFs hs rfl
  have := open_after_history crc hcrc h (by rw [hf.2]; exact hok) n
  rw [hf.2] at this
  exact this

/-- **chain, as the store decides to roll over**: without a crash the fragments chain; after a
    crash at any system call and the completed reopen they chain, under both models -/
theorem scheduled_chain (evs : List Event) (h : List (Client Edit))
    (_hs : schedule crc ratio evs [] [] = some h) (n : Nat) :
    chainOk (fragments (run emptyFs (opsOf maniAlgebra h []))) = true
    ∧ (let fs := run emptyFs ((opsOf maniAlgebra h []).take n)
       chainOk (fragments (run (crashA fs) (reopenOps maniAlgebra (crashA fs)))) = true
       ∧ chainOk (fragments (run (crashB fs) (reopenOps maniAlgebra (crashB fs)))) = true) :=
  ⟨chain_crash_free h, chain_after_crash_and_reopen h n⟩

/-! ## the rule itself -/

theorem encodeEdit_pos (e : Edit) : 0 < (encodeEdit crc e).length := by
  rw [encodeEdit_items]
  simp only [List.length_append, List.length_cons, List.length_nil]
  omega

theorem fileBytes_snoc_pos (m : List Edit) (e : Edit) : 0 < (fileBytes crc (m ++ [e])).length := by
  unfold fileBytes
  rw [List.flatMap_append, List.length_append]
  have : 0 < ([e].flatMap (encodeEdit crc)).length := by
    simp only [List.flatMap_cons, List.flatMap_nil, List.append_nil]
    exact encodeEdit_pos crc e
  omega

theorem replay_snoc_apply (s : List Edit) (e : Edit) :
    replay maniAlgebra (s ++ [e]) = applyEdit (replay maniAlgebra s) e := replay_snoc maniAlgebra s e

/-- **the test, read as an inequality**: `_apply` does NOT roll over iff MANIFEST — with the edit just
    written — is at most `ratio` times `Manifest::size` of the state after the edit, or the state
    before the edit held no strings (`was_empty`) -/
theorem rollsOver_false_iff (m s : List Edit) (e : Edit) :
    rollsOver crc ratio m s e = false ↔
      (fileBytes crc (m ++ [e])).length ≤ ratio * (replay maniAlgebra (s ++ [e])).size
      ∨ (replay maniAlgebra s).strs = [] := by
  rw [replay_snoc_apply]
  unfold rollsOver
  simp only [Bool.and_eq_false_iff, decide_eq_false_iff_not, Nat.not_lt, gt_iff_lt, Bool.not_eq_false',
    List.isEmpty_iff]

theorem rollsOver_true_iff (m s : List Edit) (e : Edit) :
    rollsOver crc ratio m s e = true ↔
      ratio * (replay maniAlgebra (s ++ [e])).size < (fileBytes crc (m ++ [e])).length
      ∧ (replay maniAlgebra s).strs ≠ [] := by
  rw [replay_snoc_apply]
  unfold rollsOver
  simp only [Bool.and_eq_true, decide_eq_true_eq, gt_iff_lt, Bool.not_eq_true', List.isEmpty_eq_false_iff, ne_eq]

/-- **ratio 0**: `_apply` rolls over after EVERY edit applied to a state that holds a string, and
    only then (an edit is at least the separator line, so `on_disk_bytes > 0`) -/
theorem rollsOver_ratio_zero (m s : List Edit) (e : Edit) :
    rollsOver crc 0 m s e = !(replay maniAlgebra s).strs.isEmpty := by
  unfold rollsOver
  have := fileBytes_snoc_pos crc m e
  simp only [Nat.zero_mul, gt_iff_lt, this, decide_true, Bool.true_and]

/-- **`was_empty`**: whatever the ratio and the size of MANIFEST, an edit applied to a state without
    strings (the first edits of a directory; any edit after everything was removed) does not roll over -/
theorem rollsOver_was_empty (m s : List Edit) (e : Edit) (h : (replay maniAlgebra s).strs = []) :
    rollsOver crc ratio m s e = false :=
  (rollsOver_false_iff crc ratio m s e).mpr (Or.inr h)

/-- **antitone in the ratio**, call by call (same MANIFEST, same state, same edit): a larger ratio
    rolls over no more often.  (Not a statement about whole schedules: after the first call on
    which two ratios differ the two MANIFESTs differ.) -/
theorem rollsOver_antitone (r r' : Nat) (hr : r ≤ r') (m s : List Edit) (e : Edit)
    (h : rollsOver crc r' m s e = true) : rollsOver crc r m s e = true := by
  rw [rollsOver_true_iff] at h ⊢
  exact ⟨Nat.lt_of_le_of_lt (Nat.mul_le_mul_right _ hr) h.1, h.2⟩

/-- … and monotone in what MANIFEST holds: a longer file rolls over no less often -/
theorem rollsOver_mono_file (m m' s : List Edit) (e : Edit)
    (hm : (fileBytes crc m).length ≤ (fileBytes crc m').length)
    (h : rollsOver crc ratio m s e = true) : rollsOver crc ratio m' s e = true := by
  rw [rollsOver_true_iff] at h ⊢
  refine ⟨Nat.lt_of_lt_of_le h.1 ?_, h.2⟩
  unfold fileBytes at hm ⊢
  rw [List.flatMap_append, List.flatMap_append, List.length_append, List.length_append]
  omega

/-! ## the bound the rule enforces, at every call of a history that follows it -/

theorem opsOf_cons {St E : Type} (A : Algebra St E) (c : Client E) (cs : List (Client E)) (sofar : List E) :
    opsOf A (c :: cs) sofar = block A sofar c ++ opsOf A cs (sofarAfter sofar c) := rfl

/-- the rule holds of every suffix of a history that follows it, on the file system the prefix leaves -/
theorem followsRule_suffix : ∀ (pre post : List (Client Edit)) (fs : Fs Edit) (sofar : List Edit),
    FollowsRule crc ratio (pre ++ post) fs sofar →
    FollowsRule crc ratio post (run fs (opsOf maniAlgebra pre sofar)) (sofar ++ editsOf pre)
  | [], post, fs, sofar, h => by
    show FollowsRule crc ratio post fs (sofar ++ [])
    rw [List.append_nil]; exact h
  | .edit e :: pre, post, fs, sofar, h => by
    have ih := followsRule_suffix pre post _ _ h.2
    rw [opsOf_cons, run_append]
    show FollowsRule crc ratio post _ (sofar ++ (e :: editsOf pre))
    rw [List.append_assoc] at ih
    exact ih
  | .editRoll e :: pre, post, fs, sofar, h => by
    have ih := followsRule_suffix pre post _ _ h.2
    rw [opsOf_cons, run_append]
    show FollowsRule crc ratio post _ (sofar ++ (e :: editsOf pre))
    rw [List.append_assoc] at ih
    exact ih
  | .rollover :: pre, post, fs, sofar, h => by
    have ih := followsRule_suffix pre post _ _ h.2
    rw [opsOf_cons, run_append]
    exact ih

/-- **the bound, at every `apply` that does not roll over**: in a history that follows the rule, let
    `g` be the file system just before such an `apply e` and `s` the edits applied so far.  When the
    call returns MANIFEST holds what it held plus `e`, all synced, and its size in bytes is at most
    `ratio · Manifest::size(state after e)` — unless the state before `e` held no strings -/
theorem bound_at_edit (pre post : List (Client Edit)) (e : Edit) (fs : Fs Edit) (sofar : List Edit)
    (h : FollowsRule crc ratio (pre ++ .edit e :: post) fs sofar) :
    let g := run fs (opsOf maniAlgebra pre sofar)
    let s := sofar ++ editsOf pre
    let g' := run g (block maniAlgebra s (.edit e))
    g'.mani = ⟨onDisk g ++ [e], []⟩
    ∧ ((fileBytes crc (onDisk g')).length ≤ ratio * (replay maniAlgebra (s ++ [e])).size
       ∨ (replay maniAlgebra s).strs = []) := by
  intro g s g'
  have hsuf := followsRule_suffix crc ratio pre (.edit e :: post) fs sofar h
  have hr : rollsOver crc ratio (onDisk g) s e = false := hsuf.1
  refine ⟨?_, ?_⟩
  · show (⟨g.mani.durable ++ (g.mani.pending ++ [e]), []⟩ : FileSt Edit) = ⟨(g.mani.durable ++ g.mani.pending) ++ [e], []⟩
    rw [List.append_assoc]
  · have := (rollsOver_false_iff crc ratio (onDisk g) s e).mp hr
    rw [show onDisk g' = onDisk g ++ [e] from onDisk_edit g s e]
    exact this

/-- **at every `apply` that rolls over**: the test was met on the file as it stood with the edit
    written, and when the call returns MANIFEST holds exactly one edit — the roll-up of the state —
    synced; its size is the roll-up's and does not depend on the ratio -/
theorem rollup_at_editRoll (pre post : List (Client Edit)) (e : Edit) (fs : Fs Edit) (sofar : List Edit)
    (h : FollowsRule crc ratio (pre ++ .editRoll e :: post) fs sofar) :
    let g := run fs (opsOf maniAlgebra pre sofar)
    let s := sofar ++ editsOf pre
    let g' := run g (block maniAlgebra s (.editRoll e))
    g'.mani = ⟨[maniAlgebra.rollup (replay maniAlgebra (s ++ [e]))], []⟩
    ∧ ratio * (replay maniAlgebra (s ++ [e])).size < (fileBytes crc (onDisk g ++ [e])).length
    ∧ (replay maniAlgebra s).strs ≠ [] := by
  intro g s g'
  have hsuf := followsRule_suffix crc ratio pre (.editRoll e :: post) fs sofar h
  have hr : rollsOver crc ratio (onDisk g) s e = true := hsuf.1
  exact ⟨rfl, (rollsOver_true_iff crc ratio (onDisk g) s e).mp hr⟩

/-- … and at every explicit rollover (`Manifest::rollover`, or the one `Manifest::open` performs) -/
theorem rollup_at_rollover (pre : List (Client Edit)) (fs : Fs Edit) (sofar : List Edit) :
    let g := run fs (opsOf maniAlgebra pre sofar)
    let s := sofar ++ editsOf pre
    (run g (block maniAlgebra s .rollover)).mani = ⟨[maniAlgebra.rollup (replay maniAlgebra s)], []⟩ := rfl

/-- **ratio 0, whole histories**: in a history that follows the rule with ratio 0 an `apply` that does
    not roll over was applied to a state without strings -/
theorem ratio_zero_edit_was_empty (pre post : List (Client Edit)) (e : Edit) (fs : Fs Edit) (sofar : List Edit)
    (h : FollowsRule crc 0 (pre ++ .edit e :: post) fs sofar) :
    (replay maniAlgebra (sofar ++ editsOf pre)).strs = [] := by
  have hsuf := followsRule_suffix crc 0 pre (.edit e :: post) fs sofar h
  have hr : rollsOver crc 0 (onDisk (run fs (opsOf maniAlgebra pre sofar))) (sofar ++ editsOf pre) e = false := hsuf.1
  rw [rollsOver_ratio_zero] at hr
  simpa using hr

/-- **the bound for the scheduled history** (the two theorems above, from the empty directory, for
    what `schedule` emits): at every call `c` of the history, with `g` the file system before it -/
theorem scheduled_size_bound (evs : List Event) (h pre post : List (Client Edit)) (c : Client Edit)
    (hs : schedule crc ratio evs [] [] = some h) (hsplit : h = pre ++ c :: post) :
    let g := run emptyFs (opsOf maniAlgebra pre [])
    let s := editsOf pre
    let g' := run g (block maniAlgebra s c)
    match c with
    | .edit e =>
      g'.mani = ⟨onDisk g ++ [e], []⟩
      ∧ ((fileBytes crc (onDisk g')).length ≤ ratio * (replay maniAlgebra (s ++ [e])).size
         ∨ (replay maniAlgebra s).strs = [])
    | .editRoll e =>
      g'.mani = ⟨[maniAlgebra.rollup (replay maniAlgebra (s ++ [e]))], []⟩
      ∧ ratio * (replay maniAlgebra (s ++ [e])).size < (fileBytes crc (onDisk g ++ [e])).length
      ∧ (replay maniAlgebra s).strs ≠ []
    | .rollover => g'.mani = ⟨[maniAlgebra.rollup (replay maniAlgebra s)], []⟩ := by
  have hf := (schedule_follows_rule crc ratio evs [] [] h emptyFs hs rfl).1
  rw [hsplit] at hf
  cases c with
  | edit e =>
    have := bound_at_edit crc ratio pre post e emptyFs [] hf
    simpa only [List.nil_append] using this
  | editRoll e =>
    have := rollup_at_editRoll crc ratio pre post e emptyFs [] hf
    simpa only [List.nil_append] using this
  | rollover => exact rfl

end Blue.Mani
