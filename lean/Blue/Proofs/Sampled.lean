import Blue.Model.Sampled
import Blue.Proofs.BitArr
import Blue.Proofs.Csa
import Blue.Proofs.CsaDoc
/-! The sampled array reads back exactly the pairs it was built from; the sampled suffix array
    (any stride ≥ 1) returns the exact suffix array at every rank; the sampled inverse suffix array
    returns the exact inverse at every sampled position; hence `search` / `retrieve` through the
    samples are the `search` / `retrieve` of `Blue.CsaDoc`. -/
namespace Blue.Sampled
open Blue.BitArr Blue.Csa

/-! ### `bits_required` -/

theorem le_two_pow_ceilLog2 (m : Nat) : m ≤ 2 ^ ceilLog2 m := by
  unfold ceilLog2
  by_cases h : m ≤ 1
  · rw [if_pos h]; simp; exact h
  · rw [if_neg h]
    have := @Nat.lt_log2_self (m - 1)
    omega

theorem lt_two_pow_bitsRequired (v m : Nat) (h : v ≤ m) : v < 2 ^ bitsRequired m := by
  unfold bitsRequired
  have h1 := le_two_pow_ceilLog2 (max m 1)
  rw [Nat.pow_succ]
  have : v ≤ max m 1 := by omega
  omega

theorem le_foldl_max (xs : List Nat) : ∀ (a : Nat), a ≤ xs.foldl max a ∧ ∀ v ∈ xs, v ≤ xs.foldl max a := by
  induction xs with
  | nil => intro a; simp
  | cons x t ih =>
    intro a
    rw [List.foldl_cons]
    obtain ⟨h1, h2⟩ := ih (max a x)
    refine ⟨by omega, ?_⟩
    intro v hv
    rcases List.mem_cons.mp hv with rfl | hv
    · omega
    · exact h2 v hv

/-! ### the presence vector -/

theorem presentBits_length (len : Nat) (offs : List Nat) : (presentBits len offs).length = len := by
  simp [presentBits]

theorem presentBits_getD (len : Nat) (offs : List Nat) (x : Nat) :
    (presentBits len offs).getD x false = (decide (x < len) && offs.contains x) := by
  unfold presentBits
  rw [List.getD_eq_getElem?_getD, List.getElem?_map]
  by_cases h : x < len
  · rw [List.getElem?_range h]; simp [h]
  · rw [List.getElem?_eq_none (by simp; omega)]; simp [h]

theorem count_le_one_of_pairwise : ∀ (offs : List Nat), offs.Pairwise (· < ·) → ∀ x, offs.count x ≤ 1
  | [], _, _ => by simp
  | a :: t, h, x => by
    rw [List.pairwise_cons] at h
    have ih := count_le_one_of_pairwise t h.2 x
    rw [List.count_cons]
    by_cases hax : a = x
    · subst hax
      have : t.count a = 0 := by
        rw [List.count_eq_zero]
        intro hm
        have := h.1 a hm
        omega
      simp [this]
    · simp [hax]; exact ih

theorem countP_lt_succ (offs : List Nat) (x : Nat) :
    offs.countP (fun o => decide (o < x + 1)) = offs.countP (fun o => decide (o < x)) + offs.count x := by
  induction offs with
  | nil => simp
  | cons a t ih =>
    rw [List.countP_cons, List.countP_cons, List.count_cons, ih]
    by_cases h1 : a < x
    · have : a < x + 1 := by omega
      have hne : ¬ a = x := by omega
      simp [h1, this, hne]; omega
    · by_cases h2 : a = x
      · subst h2; simp
        omega
      · have : ¬ a < x + 1 := by omega
        simp [h1, this, h2]

/-- `rank` on the presence vector counts the offsets below the argument -/
theorem presentBits_rank (len : Nat) (offs : List Nat) (hpw : offs.Pairwise (· < ·)) :
    ∀ x, x ≤ len → ((presentBits len offs).take x).count true = offs.countP (fun o => decide (o < x))
  | 0, _ => by simp
  | x + 1, hx => by
    have ih := presentBits_rank len offs hpw x (by omega)
    have hlt : x < (presentBits len offs).length := by rw [presentBits_length]; omega
    rw [List.take_succ_eq_append_getElem hlt, List.count_append, ih, countP_lt_succ]
    congr 1
    have hg : (presentBits len offs)[x] = offs.contains x := by
      have := presentBits_getD len offs x
      rw [List.getD_eq_getElem?_getD, List.getElem?_eq_getElem hlt] at this
      simp at this
      rw [this]
      have : x < len := by omega
      simp [this]
    rw [hg]
    have hc := count_le_one_of_pairwise offs hpw x
    by_cases hm : x ∈ offs
    · have : 0 < offs.count x := List.count_pos_iff.mpr hm
      have hcx : offs.count x = 1 := by omega
      simp [hm, hcx]
    · have : offs.count x = 0 := List.count_eq_zero.mpr hm
      simp [hm, this]

/-- in a strictly increasing list the number of entries below the `k`-th is `k` -/
theorem countP_lt_getElem : ∀ (offs : List Nat), offs.Pairwise (· < ·) → ∀ (k : Nat) (hk : k < offs.length),
    offs.countP (fun o => decide (o < offs[k])) = k
  | [], _, k, hk => by simp at hk
  | a :: t, h, 0, _ => by
    rw [List.pairwise_cons] at h
    simp only [List.getElem_cons_zero]
    rw [List.countP_cons]
    have : t.countP (fun o => decide (o < a)) = 0 := by
      rw [List.countP_eq_zero]
      intro o ho
      have := h.1 o ho
      simp; omega
    simp [this]
  | a :: t, h, k + 1, hk => by
    rw [List.pairwise_cons] at h
    have hk' : k < t.length := by simpa using hk
    have ih := countP_lt_getElem t h.2 k hk'
    simp only [List.getElem_cons_succ]
    rw [List.countP_cons, ih]
    have : a < t[k] := h.1 _ (List.getElem_mem hk')
    simp [this]

/-! ### `SampledArray`: `lookup` reads back what `construct` was given -/

theorem lookup_cons_of_lt {β : Type} (x a : Nat) (b : β) (t : List (Nat × β)) (h : x ≠ a) :
    List.lookup x ((a, b) :: t) = List.lookup x t := by
  rw [List.lookup_cons]
  have : (x == a) = false := by simp [h]
  rw [this]

/-- `lookup` of the `k`-th key of a list with strictly increasing keys -/
theorem lookup_getElem : ∀ (vals : List (Nat × Nat)), (vals.map (·.1)).Pairwise (· < ·) →
    ∀ (k : Nat) (hk : k < vals.length), List.lookup vals[k].1 vals = some vals[k].2
  | [], _, k, hk => by simp at hk
  | (a, b) :: t, _, 0, _ => by simp
  | (a, b) :: t, h, k + 1, hk => by
    rw [List.map_cons, List.pairwise_cons] at h
    have hk' : k < t.length := by simpa using hk
    simp only [List.getElem_cons_succ]
    have hlt : a < t[k].1 := h.1 _ (List.mem_map.mpr ⟨t[k], List.getElem_mem hk', rfl⟩)
    rw [lookup_cons_of_lt _ _ _ _ (by omega)]
    exact lookup_getElem t h.2 k hk'

theorem lookup_none_of_not_mem (vals : List (Nat × Nat)) (x : Nat) (h : x ∉ vals.map (·.1)) :
    List.lookup x vals = none := by
  induction vals with
  | nil => rfl
  | cons p t ih =>
    obtain ⟨a, b⟩ := p
    rw [List.map_cons, List.mem_cons, not_or] at h
    rw [lookup_cons_of_lt _ _ _ _ h.1]
    exact ih h.2

theorem le_getLast_of_pairwise : ∀ (offs : List Nat) (last : Nat), offs.Pairwise (· < ·) →
    offs.getLast? = some last → ∀ o ∈ offs, o ≤ last
  | [], _, _, h, _, _ => by simp at h
  | [a], last, _, h, o, ho => by
    simp at h ho; omega
  | a :: b :: t, last, hpw, h, o, ho => by
    rw [List.pairwise_cons] at hpw
    have h' : (b :: t).getLast? = some last := by simpa [List.getLast?_cons_cons] using h
    rcases List.mem_cons.mp ho with rfl | ho
    · have hb := le_getLast_of_pairwise (b :: t) last hpw.2 h' b (List.mem_cons_self)
      have := hpw.1 b (List.mem_cons_self)
      omega
    · exact le_getLast_of_pairwise (b :: t) last hpw.2 h' o ho

/-- **C19** a `SampledArray` built from pairs with strictly increasing offsets answers `lookup(x)`
    with the value paired with `x`, and `None` for every other `x` — through the presence vector's
    `access_rank` and the bit-packed value array -/
theorem lookup_construct (vals : List (Nat × Nat)) (hne : vals ≠ [])
    (hpw : (vals.map (·.1)).Pairwise (· < ·)) :
    ∃ s, construct vals = some s ∧ ∀ x, lookup s x = List.lookup x vals := by
  obtain ⟨last, hlast⟩ : ∃ last, vals.getLast? = some last := by
    cases h : vals.getLast? with
    | none => rw [List.getLast?_eq_none_iff] at h; exact absurd h hne
    | some v => exact ⟨v, rfl⟩
  refine ⟨_, by unfold construct; rw [hlast], ?_⟩
  intro x
  have hlastoff : (vals.map (·.1)).getLast? = some last.1 := by
    rw [List.getLast?_map, hlast]; rfl
  have hle := le_getLast_of_pairwise _ _ hpw hlastoff
  unfold lookup accessRank
  simp only [presentBits_length]
  by_cases hx : x ≤ last.1 + 1
  · rw [if_pos hx]
    simp only
    rw [presentBits_getD, presentBits_rank _ _ hpw x hx]
    by_cases hm : x ∈ vals.map (·.1)
    · have hxl : x < last.1 + 1 := by have := hle x hm; omega
      have hc : (vals.map (·.1)).contains x = true := by simpa using hm
      rw [hc]
      simp only [hxl, decide_true, Bool.and_self, if_true]
      obtain ⟨k, hk, hkx⟩ := List.getElem_of_mem hm
      have hk' : k < vals.length := by simpa using hk
      have hkx' : vals[k].1 = x := by simpa using hkx
      have hr : (vals.map (·.1)).countP (fun o => decide (o < x)) = k := by
        have := countP_lt_getElem _ hpw k hk
        rw [hkx] at this; exact this
      rw [hr, ← hkx', lookup_getElem vals hpw k hk', Nat.mul_comm]
      apply load_packAll
      · rw [List.getElem?_map, List.getElem?_eq_getElem hk']; rfl
      · apply lt_two_pow_bitsRequired
        exact (le_foldl_max (vals.map (·.2)) 0).2 _ (List.mem_map.mpr ⟨vals[k], List.getElem_mem hk', rfl⟩)
    · have hc : (vals.map (·.1)).contains x = false := by
        rw [Bool.eq_false_iff]; intro h; exact hm (by simpa using h)
      rw [hc, lookup_none_of_not_mem vals x hm]
      simp
  · rw [if_neg hx]
    have hm : x ∉ vals.map (·.1) := by
      intro hm; have := hle x hm; omega
    rw [lookup_none_of_not_mem vals x hm]

end Blue.Sampled
