import Blue.Model.ListFree
namespace Blue.ListFree
variable {D : Type}

/-- the chain from `p`: node ids and data, in order -/
inductive Chain (heap : List (Node D)) : Option Nat → List Nat → List D → Prop where
  | nil : Chain heap none [] []
  | cons {p : Nat} {nd : Node D} {ids : List Nat} {ds : List D} :
      heap[p]? = some nd → Chain heap nd.next ids ds → Chain heap (some p) (p :: ids) (nd.data :: ds)

def owned : PC D → Option Nat
  | .load n => some n
  | .setNext n _ => some n
  | .cas n _ => some n
  | _ => none

structure Inv (s : St D) : Prop where
  chain : ∃ ids, Chain s.heap s.head ids s.pushed ∧
    ∀ i n, owned (s.pcs i) = some n → n ∉ ids
  inHeap : ∀ i n, owned (s.pcs i) = some n → n < s.heap.length
  distinct : ∀ i j n, i ≠ j → owned (s.pcs i) = some n → owned (s.pcs j) ≠ some n
  casNext : ∀ i n h, s.pcs i = .cas n h → ∃ nd, s.heap[n]? = some nd ∧ nd.next = h

theorem chain_lt {heap : List (Node D)} {p : Option Nat} {ids : List Nat} {ds : List D}
    (h : Chain heap p ids ds) : ∀ x ∈ ids, x < heap.length := by
  induction h with
  | nil => intro x hx; cases hx
  | cons hp _ ih =>
    intro x hx
    simp only [List.mem_cons] at hx
    rcases hx with rfl | hx
    · exact (List.getElem?_eq_some_iff.mp hp).1
    · exact ih x hx

/-- a chain only depends on the nodes it visits -/
theorem chain_frame {heap heap' : List (Node D)} {p : Option Nat} {ids : List Nat} {ds : List D}
    (h : Chain heap p ids ds) (hsame : ∀ x ∈ ids, heap'[x]? = heap[x]?) : Chain heap' p ids ds := by
  induction h with
  | nil => exact Chain.nil
  | cons hp _ ih =>
    refine Chain.cons ?_ (ih (fun x hx => hsame x (List.mem_cons_of_mem _ hx)))
    rw [hsame _ (List.mem_cons_self ..)]; exact hp

theorem setPc_same (pcs : Nat → PC D) (i : Nat) (pc : PC D) : setPc pcs i pc i = pc := by simp [setPc]
theorem setPc_other (pcs : Nat → PC D) (i j : Nat) (pc : PC D) (h : j ≠ i) : setPc pcs i pc j = pcs j := by
  simp [setPc, h]

theorem inv_init : Inv (init : St D) := by
  refine ⟨⟨[], Chain.nil, ?_⟩, ?_, ?_, ?_⟩ <;> intros <;> simp_all [init, owned]

theorem inv_call {s : St D} (h : Inv s) (i : Nat) (d : D) : Inv (call s i d) := by
  unfold call
  cases hpc : s.pcs i with
  | idle =>
    simp only
    have hown : ∀ j n, owned (setPc s.pcs i (.alloc d) j) = some n → owned (s.pcs j) = some n := by
      intro j n hj
      by_cases hji : j = i
      · subst hji; simp only [setPc_same] at hj; simp [owned] at hj
      · simp only [setPc_other _ _ _ _ hji] at hj; exact hj
    obtain ⟨ids, hc, hni⟩ := h.chain
    refine ⟨⟨ids, hc, fun j n hj => hni j n (hown j n hj)⟩, fun j n hj => h.inHeap j n (hown j n hj), ?_, ?_⟩
    · intro a b n hab ha hb
      exact h.distinct a b n hab (hown a n ha) (hown b n hb)
    · intro j n hh hj
      by_cases hji : j = i
      · subst hji; simp only [setPc_same] at hj; cases hj
      · simp only [setPc_other _ _ _ _ hji] at hj; exact h.casNext j n hh hj
  | alloc _ => exact h
  | load _ => exact h
  | setNext _ _ => exact h
  | cas _ _ => exact h

theorem inv_step {s : St D} (h : Inv s) (i : Nat) : Inv (step s i) := by
  obtain ⟨ids, hc, hni⟩ := h.chain
  have hidslt := chain_lt hc
  unfold step
  cases hpc : s.pcs i with
  | idle => exact h
  | alloc d =>
    simp only
    have hold : ∀ j n, j ≠ i → owned (setPc s.pcs i (.load s.heap.length) j) = some n → owned (s.pcs j) = some n := by
      intro j n hji hj; simp only [setPc_other _ _ _ _ hji] at hj; exact hj
    refine ⟨⟨ids, ?_, ?_⟩, ?_, ?_, ?_⟩
    · apply chain_frame hc
      intro x hx
      rw [List.getElem?_append_left (hidslt x hx)]
    · intro j n hj
      by_cases hji : j = i
      · subst hji; simp only [setPc_same] at hj; simp only [owned, Option.some.injEq] at hj
        subst hj; intro hmem; have := hidslt _ hmem; omega
      · exact hni j n (hold j n hji hj)
    · intro j n hj
      simp only [List.length_append, List.length_cons, List.length_nil]
      by_cases hji : j = i
      · subst hji; simp only [setPc_same] at hj; simp only [owned, Option.some.injEq] at hj; omega
      · have := h.inHeap j n (hold j n hji hj); omega
    · intro a b n hab ha hb
      by_cases hai : a = i
      · subst hai
        simp only [setPc_same] at ha; simp only [owned, Option.some.injEq] at ha
        have := h.inHeap b n (hold b n (fun hh => hab hh.symm) hb); omega
      · by_cases hbi : b = i
        · subst hbi
          simp only [setPc_same] at hb; simp only [owned, Option.some.injEq] at hb
          have := h.inHeap a n (hold a n hai ha); omega
        · exact h.distinct a b n hab (hold a n hai ha) (hold b n hbi hb)
    · intro j n hh hj
      by_cases hji : j = i
      · subst hji; simp only [setPc_same] at hj; cases hj
      · simp only [setPc_other _ _ _ _ hji] at hj
        obtain ⟨nd, h1, h2⟩ := h.casNext j n hh hj
        have hlt := (List.getElem?_eq_some_iff.mp h1).1
        exact ⟨nd, by rw [List.getElem?_append_left hlt]; exact h1, h2⟩
  | load n =>
    simp only
    have hown : ∀ j m, owned (setPc s.pcs i (.setNext n s.head) j) = some m → owned (s.pcs j) = some m := by
      intro j m hj
      by_cases hji : j = i
      · subst hji; simp only [setPc_same] at hj; rw [hpc]; exact hj
      · simp only [setPc_other _ _ _ _ hji] at hj; exact hj
    refine ⟨⟨ids, hc, fun j m hj => hni j m (hown j m hj)⟩, fun j m hj => h.inHeap j m (hown j m hj), ?_, ?_⟩
    · intro a b m hab ha hb; exact h.distinct a b m hab (hown a m ha) (hown b m hb)
    · intro j m hh hj
      by_cases hji : j = i
      · subst hji; simp only [setPc_same] at hj; cases hj
      · simp only [setPc_other _ _ _ _ hji] at hj; exact h.casNext j m hh hj
  | setNext n hd =>
    simp only
    have hnown : owned (s.pcs i) = some n := by rw [hpc]; rfl
    have hnlt := h.inHeap i n hnown
    have hget : s.heap[n]? = some s.heap[n] := by simp [hnlt]
    rw [hget]
    simp only
    have hown : ∀ j m, owned (setPc s.pcs i (.cas n hd) j) = some m → owned (s.pcs j) = some m := by
      intro j m hj
      by_cases hji : j = i
      · subst hji; simp only [setPc_same] at hj; rw [hpc]; exact hj
      · simp only [setPc_other _ _ _ _ hji] at hj; exact hj
    refine ⟨⟨ids, ?_, fun j m hj => hni j m (hown j m hj)⟩, ?_, ?_, ?_⟩
    · apply chain_frame hc
      intro x hx
      have : x ≠ n := by intro hxn; subst hxn; exact hni i x hnown hx
      rw [List.getElem?_set_ne (fun hh => this hh.symm)]
    · intro j m hj; rw [List.length_set]; exact h.inHeap j m (hown j m hj)
    · intro a b m hab ha hb; exact h.distinct a b m hab (hown a m ha) (hown b m hb)
    · intro j m hh hj
      by_cases hji : j = i
      · subst hji; simp only [setPc_same] at hj
        injection hj with h1 h2; subst h1 h2
        exact ⟨_, by rw [List.getElem?_set_self hnlt], rfl⟩
      · simp only [setPc_other _ _ _ _ hji] at hj
        obtain ⟨nd, h1, h2⟩ := h.casNext j m hh hj
        have hmn : m ≠ n := by
          intro hmn; subst hmn
          exact h.distinct j i m hji (by rw [hj]; rfl) hnown
        exact ⟨nd, by rw [List.getElem?_set_ne (fun hh => hmn hh.symm)]; exact h1, h2⟩
  | cas n hd =>
    simp only
    have hnown : owned (s.pcs i) = some n := by rw [hpc]; rfl
    obtain ⟨nd, hnd, hnext⟩ := h.casNext i n hd hpc
    by_cases heq : s.head = hd
    · rw [if_pos heq, hnd]
      simp only
      have hown : ∀ j m, owned (setPc s.pcs i .idle j) = some m → j ≠ i ∧ owned (s.pcs j) = some m := by
        intro j m hj
        by_cases hji : j = i
        · subst hji; simp only [setPc_same] at hj; simp [owned] at hj
        · simp only [setPc_other _ _ _ _ hji] at hj; exact ⟨hji, hj⟩
      refine ⟨⟨n :: ids, ?_, ?_⟩, ?_, ?_, ?_⟩
      · exact Chain.cons hnd (by rw [hnext, ← heq]; exact hc)
      · intro j m hj
        obtain ⟨hji, hj'⟩ := hown j m hj
        intro hmem
        simp only [List.mem_cons] at hmem
        rcases hmem with rfl | hmem
        · exact h.distinct j i m hji hj' hnown
        · exact hni j m hj' hmem
      · intro j m hj; exact h.inHeap j m (hown j m hj).2
      · intro a b m hab ha hb; exact h.distinct a b m hab (hown a m ha).2 (hown b m hb).2
      · intro j m hh hj
        by_cases hji : j = i
        · subst hji; simp only [setPc_same] at hj; cases hj
        · simp only [setPc_other _ _ _ _ hji] at hj; exact h.casNext j m hh hj
    · rw [if_neg heq]
      have hown : ∀ j m, owned (setPc s.pcs i (.load n) j) = some m → owned (s.pcs j) = some m := by
        intro j m hj
        by_cases hji : j = i
        · subst hji; simp only [setPc_same] at hj; rw [hpc]; exact hj
        · simp only [setPc_other _ _ _ _ hji] at hj; exact hj
      refine ⟨⟨ids, hc, fun j m hj => hni j m (hown j m hj)⟩, fun j m hj => h.inHeap j m (hown j m hj), ?_, ?_⟩
      · intro a b m hab ha hb; exact h.distinct a b m hab (hown a m ha) (hown b m hb)
      · intro j m hh hj
        by_cases hji : j = i
        · subst hji; simp only [setPc_same] at hj; cases hj
        · simp only [setPc_other _ _ _ _ hji] at hj; exact h.casNext j m hh hj

/-- **C17** (prepend-only list) under every interleaving of any number of threads, the list
    reachable from `head` is exactly the data of the prepends whose CAS succeeded, newest first -/
theorem inv_run (evs : List (Ev D)) : Inv (evs.foldl apply (init : St D)) := by
  have : ∀ (evs : List (Ev D)) (s : St D), Inv s → Inv (evs.foldl apply s) := by
    intro evs
    induction evs with
    | nil => intro s h; exact h
    | cons e t ih =>
      intro s h
      simp only [List.foldl_cons]
      apply ih
      cases e with
      | call i d => exact inv_call h i d
      | step i => exact inv_step h i
  exact this evs init inv_init

theorem walk_chain {heap : List (Node D)} {p : Option Nat} {ids : List Nat} {ds : List D}
    (h : Chain heap p ids ds) : ∀ fuel, ids.length < fuel → walk heap fuel p = ds := by
  induction h with
  | nil => intro fuel hf; cases fuel <;> simp [walk]
  | cons hp _ ih =>
    intro fuel hf
    cases fuel with
    | zero => simp at hf
    | succ f =>
      simp only [walk, hp]
      rw [ih f (by simp at hf; omega)]

end Blue.ListFree

#print axioms Blue.ListFree.inv_run
