import Blue.Proofs.SstAccept
import Blue.Proofs.ProtoMsg
import Blue.Proofs.SstRoundtrip
/-! The wire-format side condition `KV.Wf` of the C10 theorems follows from the builder's own size
    limits: an entry within `MAX_KEY_LEN` / `MAX_VALUE_LEN` with a `u64` timestamp is `Wf`.  Hence
    every entry an `SstBuilder` accepted is `Wf` when the attempts' timestamps are `u64`
    (`accepted_wf`): the hypothesis `hwfE` of `sst_builder_refines` / `sst_file_roundtrip` is
    derived, not assumed.  (`hwfD`, `hfitE`, `hfitD` — the index entries' `Wf` and the `u32` restart
    offsets — are derived in `Blue.Proofs.SstFits`.)  Added after the independent audit of the C10
    statements. -/
namespace Blue.Sst
open Blue.Wire Blue.EntryCodec Blue.Block Blue.Cursor

theorem encTag_small (n : Nat) (w : WT) (hn : n < 16) : (encTag ⟨n, w⟩).length ≤ 10 := by
  unfold encTag
  apply Blue.ProtoMsg.encVarint_length_le_ten
  have : w.bits < 8 := by cases w <;> decide
  unfold U64
  simp only
  omega

/-- an entry within the builder's limits fits the wire format -/
theorem kv_wf_of_limits (e : KV) (hts : e.ts < U64) (hk : e.key.length ≤ MAX_KEY_LEN)
    (hv : ∀ v, e.val = some v → v.length ≤ MAX_VALUE_LEN) : e.Wf := by
  refine ⟨hts, ?_⟩
  intro shared hsh
  have hK : e.key.length ≤ 16384 := hk
  have hU : U64 = 18446744073709551616 := rfl
  have hd : (e.key.drop shared).length ≤ 16384 := by rw [List.length_drop]; omega
  have v1 := Blue.ProtoMsg.encVarint_length_le_ten shared (by omega)
  have v2 := Blue.ProtoMsg.encVarint_length_le_ten (e.key.drop shared).length (by omega)
  have v3 := Blue.ProtoMsg.encVarint_length_le_ten e.ts hts
  unfold wireEntry
  cases hval : e.val with
  | none =>
    simp only [Entry.Wf, Del.Wf]
    refine ⟨⟨by omega, hts, by omega⟩, ?_⟩
    have t5 := encTag_small 5 .varint (by decide)
    have t6 := encTag_small 6 .lengthDelimited (by decide)
    have t7 := encTag_small 7 .varint (by decide)
    simp only [encDel, encBytes, List.length_append]
    omega
  | some v =>
    have hV : v.length ≤ 32768 := hv v hval
    have v4 := Blue.ProtoMsg.encVarint_length_le_ten v.length (by omega)
    simp only [Entry.Wf, Put.Wf]
    refine ⟨⟨by omega, hts, by omega, by omega⟩, ?_⟩
    have t1 := encTag_small 1 .varint (by decide)
    have t2 := encTag_small 2 .lengthDelimited (by decide)
    have t3 := encTag_small 3 .varint (by decide)
    have t4 := encTag_small 4 .lengthDelimited (by decide)
    simp only [encPut, encBytes, List.length_append]
    omega

/-- the limits as a Boolean check (for closed examples) -/
def inLimits (e : KV) : Bool :=
  decide (e.ts < U64) && decide (e.key.length ≤ MAX_KEY_LEN)
    && (match e.val with | some v => decide (v.length ≤ MAX_VALUE_LEN) | none => true)

theorem wf_of_inLimits {e : KV} (h : inLimits e = true) : e.Wf := by
  unfold inLimits at h
  simp only [Bool.and_eq_true, decide_eq_true_eq] at h
  obtain ⟨⟨h1, h2⟩, h3⟩ := h
  apply kv_wf_of_limits e h1 h2
  intro v hv
  rw [hv] at h3
  simpa using h3

/-- `Fits` as a Boolean check (for closed examples) -/
def fitsB (b : Builder) : Bool := decide (b.buffer.length < 4294967296) && decide (b.restarts.length < 4294967296)

theorem fits_of_fitsB {b : Builder} (h : fitsB b = true) : Fits b := by
  unfold fitsB at h
  simp only [Bool.and_eq_true, decide_eq_true_eq] at h
  exact h

/-- the side conditions `hwfD`, `hfitE`, `hfitD`, `hsize` of the round trip theorems as one Boolean
    check on a sealed state and its file (for closed examples) -/
def sideB (o : SstOpts) (s1 : SB) (f : SstFile) : Bool :=
  s1.divE.all inLimits && s1.cutE.all (fun es => fitsB (build o.blk es)) && fitsB (build o.blk s1.divE)
    && decide (f.bytes.length < U64)

theorem side_of_sideB {o : SstOpts} {s1 : SB} {f : SstFile} (h : sideB o s1 f = true) :
    (∀ d ∈ s1.divE, d.Wf) ∧ (∀ es ∈ s1.cutE, Fits (build o.blk es)) ∧ Fits (build o.blk s1.divE)
    ∧ f.bytes.length < U64 := by
  simp only [sideB, Bool.and_eq_true, List.all_eq_true, decide_eq_true_eq] at h
  obtain ⟨⟨⟨h1, h2⟩, h3⟩, h4⟩ := h
  exact ⟨fun d hd => wf_of_inLimits (h1 d hd), fun es hes => fits_of_fitsB (h2 es hes), fits_of_fitsB h3, h4⟩

theorem acceptedOfB_mem : ∀ (rs : List (Option BuildErr)) (atts : List KV) (e : KV), e ∈ acceptedOfB rs atts → e ∈ atts
  | [], _, _, h => by simp [acceptedOfB] at h
  | none :: _, [], _, h => by simp [acceptedOfB] at h
  | some _ :: _, [], _, h => by simp [acceptedOfB] at h
  | none :: rs, a :: as, e, h => by
    simp only [acceptedOfB, List.mem_cons] at h ⊢
    rcases h with h | h
    · exact Or.inl h
    · exact Or.inr (acceptedOfB_mem rs as e h)
  | some _ :: rs, a :: as, e, h => by
    simp only [acceptedOfB] at h
    exact List.mem_cons_of_mem _ (acceptedOfB_mem rs as e h)

/-- **every entry an `SstBuilder` accepted fits the wire format** when the attempts' timestamps are
    `u64` — the hypothesis `hwfE` of `sst_builder_refines` / `sst_file_roundtrip`, derived from the
    builder's own `check_key_len` / `check_value_len` -/
theorem accepted_wf (o : SstOpts) (atts : List KV) (hts : ∀ e ∈ atts, e.ts ≤ U64MAX) :
    ∀ e ∈ (SB.putAll o SB.init atts).2.accepted, e.Wf := by
  obtain ⟨_, hacc, _, hlim, _⟩ := sst_builder_rejects o atts
  intro e he
  rw [hacc] at he
  obtain ⟨h1, h2⟩ := hlim e he
  have := hts e (acceptedOfB_mem _ _ e he)
  exact kv_wf_of_limits e (by unfold U64MAX at this; unfold U64; omega) h1 h2

end Blue.Sst

#print axioms Blue.Sst.kv_wf_of_limits
#print axioms Blue.Sst.accepted_wf
