import Blue.Model.BlockCursor
namespace Blue.BlockCursor
open Blue.Cursor
variable {E : Type}

structure WfBlock (b : DBlock E) : Prop where
  ne : 0 < b.entries.length
  r0 : b.restarts[0]? = some 0
  inc : ∀ (r r' : Nat) (s s' : Nat), r < r' → b.restarts[r]? = some s → b.restarts[r']? = some s' → s < s'
  lt : ∀ (r s : Nat), b.restarts[r]? = some s → s < b.entries.length

/-- the cursor position as a position of the reference cursor over the entries -/
inductive BRel (b : DBlock E) : Pos → Nat → Prop where
  | first : BRel b .first 0
  | last : BRel b .last (b.entries.length + 1)
  | at (r i s : Nat) : b.restarts[r]? = some s → s ≤ i →
      (∀ s', b.restarts[r + 1]? = some s' → i < s') → i < b.entries.length → BRel b (.at r i) (i + 1)

theorem brel_kv {b : DBlock E} {pos : Pos} {p : Nat} (h : BRel b pos p) :
    kv ⟨b, pos⟩ = (Ref.mk b.entries p).kv := by
  cases h with
  | first => simp [kv, Ref.kv]
  | last => simp [kv, Ref.kv]
  | «at» r i s _ _ _ hi => simp [kv, Ref.kv]

theorem seekRestart_rel {b : DBlock E} (wf : WfBlock b) (pos : Pos) (r s : Nat) (hs : b.restarts[r]? = some s) :
    (seekRestart ⟨b, pos⟩ r).blk = b ∧ BRel b (seekRestart ⟨b, pos⟩ r).pos (s + 1) := by
  unfold seekRestart
  simp only [hs]
  have hlt := wf.lt r s hs
  rw [if_pos hlt]
  refine ⟨rfl, BRel.at r s s hs (Nat.le_refl _) ?_ hlt⟩
  intro s' hs'
  exact wf.inc r (r + 1) s s' (by omega) hs hs'

theorem next_rel {b : DBlock E} (wf : WfBlock b) {pos : Pos} {p : Nat} (h : BRel b pos p) :
    (next ⟨b, pos⟩).blk = b ∧ BRel b (next ⟨b, pos⟩).pos (Ref.next ⟨b.entries, p⟩).pos := by
  cases h with
  | first =>
    have hr : (Ref.next ⟨b.entries, 0⟩).pos = 0 + 1 := by simp [Ref.next]
    rw [hr]
    exact seekRestart_rel wf .first 0 0 wf.r0
  | last =>
    have hr : (Ref.next ⟨b.entries, b.entries.length + 1⟩).pos = b.entries.length + 1 := by
      unfold Ref.next; simp only; rw [if_neg (by omega)]
    rw [hr]
    exact ⟨rfl, BRel.last⟩
  | «at» r i s hs hsi hup hi =>
    have hr : (Ref.next ⟨b.entries, i + 1⟩).pos = i + 2 := by
      unfold Ref.next; simp only; rw [if_pos (by omega)]
    rw [hr]
    simp only [next]
    by_cases hend : i + 1 ≥ b.entries.length
    · rw [if_pos hend]
      have : i + 2 = b.entries.length + 1 := by omega
      rw [this]
      exact And.intro rfl BRel.last
    · rw [if_neg hend]
      cases hr1 : b.restarts[r + 1]? with
      | none =>
        simp only
        refine ⟨by first | rfl | trivial, BRel.at r (i + 1) s hs (by omega) ?_ (by omega)⟩
        intro s' hs'; rw [hr1] at hs'; cases hs'
      | some j =>
        simp only
        have hij := hup j hr1
        by_cases hj : j ≤ i + 1
        · rw [if_pos hj]
          have : j = i + 1 := by omega
          subst this
          exact seekRestart_rel wf (.at r i) (r + 1) (i + 1) hr1
        · rw [if_neg hj]
          refine ⟨by first | rfl | trivial, BRel.at r (i + 1) s hs (by omega) ?_ (by omega)⟩
          intro s' hs'; rw [hr1] at hs'; cases hs'; omega

/-- the forward scan of `prev` stops exactly on the predecessor of `target` -/
theorem scanTo_rel {b : DBlock E} (wf : WfBlock b) (target : Nat) (ht : target ≤ b.entries.length) :
    ∀ (fuel : Nat) (pos : Pos) (i : Nat), BRel b pos (i + 1) → i + 1 ≤ target → target ≤ i + 1 + fuel →
      (scanTo target fuel ⟨b, pos⟩).blk = b ∧ BRel b (scanTo target fuel ⟨b, pos⟩).pos target := by
  intro fuel
  induction fuel with
  | zero =>
    intro pos i h h1 h2
    have : target = i + 1 := by omega
    subst this
    exact ⟨rfl, h⟩
  | succ f ih =>
    intro pos i h h1 h2
    cases h with
    | last => omega
    | «at» r i' s hs hsi hup hi =>
      simp only [scanTo]
      by_cases hlt : i + 1 < target
      · rw [if_pos hlt]
        obtain ⟨hb, hrel⟩ := next_rel wf (BRel.at r i s hs hsi hup hi)
        have hr : (Ref.next ⟨b.entries, i + 1⟩).pos = (i + 1) + 1 := by
          unfold Ref.next; simp only; rw [if_pos (by omega)]
        rw [hr] at hrel
        have hc : next ⟨b, .at r i⟩ = ⟨b, (next ⟨b, .at r i⟩).pos⟩ := by
          cases hn : next ⟨b, .at r i⟩ with
          | mk bb pp => rw [hn] at hb; simp at hb; simp [hb]
        rw [hc]
        exact ih _ (i + 1) hrel (by omega) (by omega)
      · rw [if_neg hlt]
        have : target = i + 1 := by omega
        subst this
        exact ⟨rfl, BRel.at r i s hs hsi hup hi⟩

theorem bcur_eta (c : BCur E) {b : DBlock E} (h : c.blk = b) : c = ⟨b, c.pos⟩ := by
  cases c; simp at h; simp [h]

theorem restarts_last {b : DBlock E} (wf : WfBlock b) :
    ∃ s, b.restarts[b.restarts.length - 1]? = some s := by
  have h0 : 0 < b.restarts.length := (List.getElem?_eq_some_iff.mp wf.r0).1
  exact ⟨b.restarts[b.restarts.length - 1], List.getElem?_eq_getElem (by omega)⟩

theorem prev_rel {b : DBlock E} (wf : WfBlock b) {pos : Pos} {p : Nat} (h : BRel b pos p) :
    (prev ⟨b, pos⟩).blk = b ∧ BRel b (prev ⟨b, pos⟩).pos (Ref.prev ⟨b.entries, p⟩).pos := by
  cases h with
  | first =>
    have hr : (Ref.prev ⟨b.entries, 0⟩).pos = 0 := by simp [Ref.prev]
    rw [hr]; exact ⟨rfl, BRel.first⟩
  | last =>
    have hr : (Ref.prev ⟨b.entries, b.entries.length + 1⟩).pos = b.entries.length := by simp [Ref.prev]
    rw [hr]
    have hne := wf.ne
    obtain ⟨s, hs⟩ := restarts_last wf
    simp only [prev]
    rw [if_neg (by omega)]
    have hcond : b.restarts.length ≥ b.restarts.length ∨
        b.entries.length ≤ (b.restarts[b.restarts.length]?).getD 0 := Or.inl (Nat.le_refl _)
    rw [if_pos hcond]
    obtain ⟨hb, hrel⟩ := seekRestart_rel wf .last (b.restarts.length - 1) s hs
    rw [bcur_eta _ hb]
    have hslt := wf.lt _ s hs
    exact scanTo_rel wf b.entries.length (Nat.le_refl _) b.entries.length _ s hrel (by omega) (by omega)
  | «at» r i s hs hsi hup hi =>
    have hr : (Ref.prev ⟨b.entries, i + 1⟩).pos = i := by simp [Ref.prev]
    rw [hr]
    simp only [prev]
    by_cases hi0 : i = 0
    · rw [if_pos hi0, hi0]; exact ⟨rfl, BRel.first⟩
    · rw [if_neg hi0]
      have hrlt : r < b.restarts.length := (List.getElem?_eq_some_iff.mp hs).1
      simp only [hs, Option.getD_some]
      by_cases hfirst : r ≥ b.restarts.length ∨ i ≤ s
      · rw [if_pos hfirst]
        have his : i = s := by rcases hfirst with h | h <;> omega
        -- the first entry of its restart interval: go to the previous interval
        have hr0 : r ≠ 0 := by
          intro h0; subst h0
          rw [wf.r0] at hs; cases hs; omega
        have hprev : b.restarts[r - 1]? = some b.restarts[r - 1] := List.getElem?_eq_getElem (by omega)
        have hlt := wf.inc (r - 1) r _ s (by omega) hprev hs
        obtain ⟨hb, hrel⟩ := seekRestart_rel wf (.at r i) (r - 1) _ hprev
        rw [bcur_eta _ hb]
        exact scanTo_rel wf i (by omega) b.entries.length _ _ hrel (by omega) (by omega)
      · rw [if_neg hfirst]
        have hsi' : s < i := by
          apply Nat.lt_of_not_le; intro h; exact hfirst (Or.inr h)
        obtain ⟨hb, hrel⟩ := seekRestart_rel wf (.at r i) r s hs
        rw [bcur_eta _ hb]
        exact scanTo_rel wf i (by omega) b.entries.length _ _ hrel (by omega) (by omega)

/-- the restart search only ever moves `left` onto a restart point whose entry is before the target -/
theorem searchRestarts_inv (b : DBlock E) (pos : Pos) (pred : E → Bool) :
    ∀ (fuel left right : Nat),
      (left = 0 ∨ ∃ s e, b.restarts[left]? = some s ∧ b.entries[s]? = some e ∧ pred e = false) →
      (searchRestarts ⟨b, pos⟩ pred fuel left right = 0 ∨
        ∃ s e, b.restarts[searchRestarts ⟨b, pos⟩ pred fuel left right]? = some s ∧ b.entries[s]? = some e
          ∧ pred e = false) := by
  intro fuel
  induction fuel with
  | zero => intro left right h; exact h
  | succ f ih =>
    intro left right h
    simp only [searchRestarts]
    by_cases hlt : left < right
    · rw [if_pos hlt]
      cases hm : (b.restarts[left + (right - left + 1) / 2]?).bind (fun i => b.entries[i]?) with
      | none => exact h
      | some e =>
        simp only
        cases hp : pred e with
        | true => simp only [if_true]; exact ih left _ h
        | false =>
          simp only [Bool.false_eq_true, if_false]
          apply ih
          right
          cases hrm : b.restarts[left + (right - left + 1) / 2]? with
          | none => rw [hrm] at hm; simp at hm
          | some s =>
            rw [hrm] at hm
            simp only [Option.bind_some] at hm
            exact ⟨s, e, rfl, hm, hp⟩
    · rw [if_neg hlt]; exact h

/-- the linear scan stops on the first entry satisfying the predicate -/
theorem scanWhile_rel {b : DBlock E} (wf : WfBlock b) (pred : E → Bool) :
    ∀ (fuel : Nat) (pos : Pos) (i : Nat), BRel b pos (i + 1) → i ≤ b.entries.findIdx pred →
      b.entries.findIdx pred < i + fuel →
      (scanWhile pred fuel ⟨b, pos⟩).blk = b ∧ BRel b (scanWhile pred fuel ⟨b, pos⟩).pos (b.entries.findIdx pred + 1) := by
  intro fuel
  induction fuel with
  | zero => intro pos i _ h1 h2; omega
  | succ f ih =>
    intro pos i h h1 h2
    have hfle : b.entries.findIdx pred ≤ b.entries.length := List.findIdx_le_length
    cases h with
    | last =>
      -- already past the end: nothing satisfies the predicate
      have : b.entries.findIdx pred = b.entries.length := by omega
      rw [this]
      simp only [scanWhile, kv]
      exact ⟨by first | rfl | trivial, BRel.last⟩
    | «at» r i' s hs hsi hup hi =>
      simp only [scanWhile, kv]
      have he : b.entries[i]? = some b.entries[i] := by simp [hi]
      rw [he]
      simp only
      by_cases hp : pred b.entries[i] = true
      · rw [if_pos hp]
        -- `i` is the first index satisfying the predicate
        have : b.entries.findIdx pred = i := by
          apply Nat.le_antisymm _ h1
          apply Nat.le_of_not_lt
          intro hlt
          have := List.not_of_lt_findIdx hlt
          simp [hp] at this
        rw [this]
        exact ⟨rfl, BRel.at r i s hs hsi hup hi⟩
      · rw [if_neg hp]
        have hne : b.entries.findIdx pred ≠ i := by
          intro heq
          have hlt : b.entries.findIdx pred < b.entries.length := by omega
          have := List.findIdx_getElem (w := hlt)
          simp only [heq] at this
          exact hp this
        obtain ⟨hb, hrel⟩ := next_rel wf (BRel.at r i s hs hsi hup hi)
        have hr : (Ref.next ⟨b.entries, i + 1⟩).pos = (i + 1) + 1 := by
          unfold Ref.next; simp only; rw [if_pos (by omega)]
        rw [hr] at hrel
        rw [bcur_eta _ hb]
        exact ih _ (i + 1) hrel (by omega) (by omega)

/-- seek predicates switch once along the block -/
def MonoAlong (xs : List E) (pred : E → Bool) : Prop :=
  ∀ (i j : Nat) (ei ej : E), i ≤ j → xs[i]? = some ei → xs[j]? = some ej → pred ei = true → pred ej = true

theorem seek_rel {b : DBlock E} (wf : WfBlock b) (pred : E → Bool) (hm : MonoAlong b.entries pred) (pos : Pos) :
    (seek pred ⟨b, pos⟩).blk = b ∧ BRel b (seek pred ⟨b, pos⟩).pos (b.entries.findIdx pred + 1) := by
  unfold seek
  simp only
  have hinv := searchRestarts_inv b pos pred b.restarts.length 0 (b.restarts.length - 1) (Or.inl rfl)
  generalize searchRestarts ⟨b, pos⟩ pred b.restarts.length 0 (b.restarts.length - 1) = left at hinv
  have hfle : b.entries.findIdx pred ≤ b.entries.length := List.findIdx_le_length
  -- the restart point the scan starts from, and why the answer is not before it
  have hstart : ∃ s, b.restarts[left]? = some s ∧ s ≤ b.entries.findIdx pred := by
    rcases hinv with h0 | ⟨s, e, hs, he, hp⟩
    · subst h0; exact ⟨0, wf.r0, Nat.zero_le _⟩
    · refine ⟨s, hs, ?_⟩
      apply Nat.le_of_not_lt
      intro hlt
      have hfl : b.entries.findIdx pred < b.entries.length := by
        have := (List.getElem?_eq_some_iff.mp he).1; omega
      have htrue : pred b.entries[b.entries.findIdx pred] = true := List.findIdx_getElem (w := hfl)
      have := hm (b.entries.findIdx pred) s _ e (Nat.le_of_lt hlt) (by simp [hfl]) he htrue
      rw [hp] at this; cases this
  obtain ⟨s, hs, hsle⟩ := hstart
  obtain ⟨hb, hrel⟩ := seekRestart_rel wf pos left s hs
  rw [bcur_eta _ hb]
  exact scanWhile_rel wf pred (b.entries.length + 1) _ s hrel hsle (by omega)

def step (c : BCur E) : Op E → BCur E
  | .first => seekToFirst c | .last => seekToLast c | .next => next c | .prev => prev c
  | .seek pred => seek pred c

def run (c : BCur E) : List (Op E) → List (Option E)
  | [] => []
  | op :: ops => kv (step c op) :: run (step c op) ops

theorem step_rel {b : DBlock E} (wf : WfBlock b) {pos : Pos} {p : Nat} (h : BRel b pos p) (op : Op E)
    (hop : ∀ pred, op = .seek pred → MonoAlong b.entries pred) :
    (step ⟨b, pos⟩ op).blk = b ∧ BRel b (step ⟨b, pos⟩ op).pos ((Ref.mk b.entries p).step op).pos
      ∧ ((Ref.mk b.entries p).step op).xs = b.entries := by
  cases op with
  | first => exact ⟨rfl, BRel.first, rfl⟩
  | last =>
    refine ⟨rfl, ?_, rfl⟩
    show BRel b .last (b.entries.length + 1)
    exact BRel.last
  | next =>
    obtain ⟨h1, h2⟩ := next_rel wf h
    exact ⟨h1, h2, by simp only [Ref.step, Ref.next]; split <;> rfl⟩
  | prev =>
    obtain ⟨h1, h2⟩ := prev_rel wf h
    exact ⟨h1, h2, by simp only [Ref.step, Ref.prev]; split <;> rfl⟩
  | seek pred =>
    obtain ⟨h1, h2⟩ := seek_rel wf pred (hop pred rfl) pos
    exact ⟨h1, h2, rfl⟩

/-- **C10** `block_cursor_refines`: over a well-formed block (restart points strictly increasing,
    the first at entry 0), for every finite program of `seek_to_first / seek_to_last / seek / next /
    prev`, the block cursor shows what the reference cursor over the entries shows -/
theorem block_cursor_refines {b : DBlock E} (wf : WfBlock b) :
    ∀ (ops : List (Op E)) (pos : Pos) (p : Nat), BRel b pos p →
      (∀ pred, Op.seek pred ∈ ops → MonoAlong b.entries pred) →
      run ⟨b, pos⟩ ops = Ref.run ⟨b.entries, p⟩ ops := by
  intro ops
  induction ops with
  | nil => intros; rfl
  | cons op ops ih =>
    intro pos p h hops
    obtain ⟨h1, h2, h3⟩ := step_rel wf h op (fun pred hp => hops pred (by rw [hp]; simp))
    have hc : (Ref.mk b.entries p).step op = ⟨b.entries, ((Ref.mk b.entries p).step op).pos⟩ := by
      cases hs : (Ref.mk b.entries p).step op with
      | mk a c => rw [hs] at h3; simp at h3; simp [h3]
    simp only [run, Ref.run]
    rw [bcur_eta _ h1, brel_kv h2, ← hc]
    congr 1
    rw [hc]
    exact ih _ _ h2 (fun pred hp => hops pred (List.mem_cons_of_mem _ hp))

end Blue.BlockCursor

#print axioms Blue.BlockCursor.block_cursor_refines
