import Blue.Model.SkipOwn
import Blue.Proofs.SkipLife
/-! No use after free, as an invariant of the ownership transition system `Blue.SkipOwn` (reference
    count, released set, ghost use-after-free flag), for every run of handle events from a fresh
    list; and the bridge to `Blue.SkipLife`, whose `live` the correspondence check compares with
    the allocation registry of the real crate. -/
namespace Blue.SkipOwn
open Blue.SkipLife (Op holders)

/-! ### counting held iterators -/

theorem filter_append_true (l : List Bool) : ((l ++ [true]).filter id).length = (l.filter id).length + 1 := by
  simp [List.filter_append]

theorem filter_set_false : ∀ (l : List Bool) (j : Nat), l.getD j false = true →
    ((l.set j false).filter id).length + 1 = (l.filter id).length
  | [], j, h => by simp at h
  | b :: t, 0, h => by
    simp only [List.getD_cons_zero] at h
    subst h
    simp [List.set]
  | b :: t, j + 1, h => by
    simp only [List.getD_cons_succ] at h
    have ih := filter_set_false t j h
    cases b with
    | true => simp only [List.set, List.filter, id, List.length_cons]; omega
    | false => simp only [List.set, List.filter, id]; exact ih

/-! ### the invariant -/

structure Inv (s : St) : Prop where
  /-- the count is the number of handles that exist -/
  rc_eq : s.rc = holders (abs s)
  /-- nothing is released while the count is positive, everything once it is zero -/
  freed_eq : s.freed = if s.rc = 0 then List.range s.nodes else []
  npos : 0 < s.nodes
  nouaf : s.uaf = false

theorem inv_init : Inv {} := ⟨rfl, rfl, by decide, rfl⟩

theorem holders_abs (s : St) :
    holders (abs s) = (if s.listHeld then 1 else 0) + (s.iters.filter id).length := rfl

theorem held_pos {s : St} {j : Nat} (h : held s j = true) : 0 < (s.iters.filter id).length := by
  have hm : true ∈ s.iters := by
    simp only [held, List.getD] at h
    cases hg : s.iters[j]? with
    | none => rw [hg] at h; simp at h
    | some b =>
      rw [hg] at h
      simp only [Option.getD_some] at h
      subst h
      exact List.mem_of_getElem? hg
  exact List.length_pos_of_mem (List.mem_filter.mpr ⟨hm, rfl⟩)

theorem inv_step {s s' : St} (h : Inv s) (op : Op) (hs : step false s op = some s') : Inv s' := by
  have hrc := h.rc_eq
  rw [holders_abs] at hrc
  cases op with
  | insert =>
    simp only [step] at hs
    split at hs
    · rename_i hl
      cases hs
      have hpos : s.rc ≠ 0 := by rw [hrc, hl]; simp
      have hf : s.freed = [] := by rw [h.freed_eq, if_neg hpos]
      refine ⟨?_, ?_, ?_, ?_⟩
      · exact h.rc_eq
      · show s.freed = if s.rc = 0 then List.range (s.nodes + 1) else []
        rw [if_neg hpos]; exact hf
      · show 0 < s.nodes + 1; omega
      · show (s.uaf || !s.freed.isEmpty) = false
        rw [h.nouaf, hf]; rfl
    · cases hs
  | iter =>
    simp only [step] at hs
    split at hs
    · cases hs
      refine ⟨?_, ?_, h.npos, h.nouaf⟩
      · show s.rc + 1 = (if s.listHeld then 1 else 0) + ((s.iters ++ [true]).filter id).length
        rw [filter_append_true]; omega
      · show s.freed = if s.rc + 1 = 0 then List.range s.nodes else []
        rw [if_neg (by omega)]
        have hpos : s.rc ≠ 0 := by rename_i hl; rw [hrc, hl]; simp
        rw [h.freed_eq, if_neg hpos]
    · cases hs
  | cloneIter j =>
    simp only [step] at hs
    split at hs
    · rename_i hj
      cases hs
      have := held_pos hj
      refine ⟨?_, ?_, h.npos, h.nouaf⟩
      · show s.rc + 1 = (if s.listHeld then 1 else 0) + ((s.iters ++ [true]).filter id).length
        rw [filter_append_true]; omega
      · show s.freed = if s.rc + 1 = 0 then List.range s.nodes else []
        rw [if_neg (by omega), h.freed_eq, if_neg (by omega)]
    · cases hs
  | dropList =>
    simp only [step] at hs
    split at hs
    · rename_i hl
      simp only [Bool.false_eq_true, if_false] at hs
      cases hs
      rw [hl] at hrc
      simp only [if_true] at hrc
      have hf : s.freed = [] := by rw [h.freed_eq, if_neg (by omega)]
      refine ⟨?_, ?_, h.npos, h.nouaf⟩
      · show s.rc - 1 = (if false = true then 1 else 0) + (s.iters.filter id).length
        simp only [Bool.false_eq_true, if_false]; omega
      · show (if s.rc - 1 = 0 then List.range s.nodes else s.freed)
          = if s.rc - 1 = 0 then List.range s.nodes else []
        rw [hf]
    · cases hs
  | dropIter j =>
    simp only [step] at hs
    split at hs
    · rename_i hj
      cases hs
      have hset := filter_set_false s.iters j hj
      have hf : s.freed = [] := by rw [h.freed_eq, if_neg (by have := held_pos hj; omega)]
      refine ⟨?_, ?_, h.npos, h.nouaf⟩
      · show s.rc - 1 = (if s.listHeld = true then 1 else 0) + ((s.iters.set j false).filter id).length
        omega
      · show (if s.rc - 1 = 0 then List.range s.nodes else s.freed)
          = if s.rc - 1 = 0 then List.range s.nodes else []
        rw [hf]
    · cases hs
  | use j =>
    simp only [step] at hs
    split at hs
    · rename_i hj
      cases hs
      have hf : s.freed = [] := by rw [h.freed_eq, if_neg (by have := held_pos hj; omega)]
      refine ⟨h.rc_eq, h.freed_eq, h.npos, ?_⟩
      show (s.uaf || !s.freed.isEmpty) = false
      rw [h.nouaf, hf]; rfl
    · cases hs

theorem inv_run : ∀ (ops : List Op) {s s' : St}, Inv s → run false s ops = some s' → Inv s'
  | [], s, s', h, hr => by simp only [run] at hr; cases hr; exact h
  | op :: ops, s, s', h, hr => by
    simp only [run] at hr
    split at hr
    · rename_i s1 hs1
      exact inv_run ops (inv_step h op hs1) hr
    · cases hr

/-! ### the property -/

/-- **no use after free**: along every run of handle events from a fresh list — iterators opened,
    cloned, dropped, the list dropped, inserts, dereferences through iterators, in any order — no
    event dereferences nodes after a node has been released -/
theorem no_use_after_free (ops : List Op) {s : St} (hr : run false {} ops = some s) : s.uaf = false :=
  (inv_run ops inv_init hr).nouaf

/-- … stated at the event: whenever a dereference (through an iterator, or the search of an
    insert) is enabled in a reachable state, nothing has been released -/
theorem deref_finds_all_nodes (ops : List Op) {s s' : St} (hr : run false {} ops = some s) (op : Op)
    (hop : (∃ j, op = .use j) ∨ op = .insert) (hs : step false s op = some s') : s.freed = [] := by
  have h := inv_run ops inv_init hr
  have hrc := h.rc_eq
  rw [holders_abs] at hrc
  rcases hop with ⟨j, rfl⟩ | rfl
  · simp only [step] at hs
    split at hs
    · rename_i hj
      rw [h.freed_eq, if_neg (by have := held_pos hj; omega)]
    · cases hs
  · simp only [step] at hs
    split at hs
    · rename_i hl
      rw [h.freed_eq, if_neg (by rw [hrc, hl]; simp)]
    · cases hs

/-- **an iterator keeps the nodes alive, the last holder releases them**: in every reachable state
    nothing is released while a handle exists, and every node is once none does -/
theorem freed_iff_no_holder (ops : List Op) {s : St} (hr : run false {} ops = some s) :
    (holders (abs s) ≠ 0 → s.freed = []) ∧ (holders (abs s) = 0 → s.freed = List.range s.nodes) := by
  have h := inv_run ops inv_init hr
  rw [← h.rc_eq]
  constructor
  · intro hne; rw [h.freed_eq, if_neg hne]
  · intro he; rw [h.freed_eq, if_pos he]

/-- nodes are released by the drop of the last holder and by nothing else -/
theorem release_only_at_last_drop (ops : List Op) {s s' : St} (hr : run false {} ops = some s) (op : Op)
    (hs : step false s op = some s') (hbefore : s.freed = []) (hafter : s'.freed ≠ []) :
    (op = .dropList ∨ ∃ j, op = .dropIter j) ∧ holders (abs s) = 1 ∧ holders (abs s') = 0 := by
  have h := inv_run ops inv_init hr
  have h' := inv_step h op hs
  have hz' : s'.rc = 0 := by
    apply Classical.byContradiction
    intro hne
    exact hafter (by rw [h'.freed_eq, if_neg hne])
  have hnz : s.rc ≠ 0 := by
    intro he
    have := h.freed_eq
    rw [if_pos he, hbefore] at this
    have hl : (List.range s.nodes).length = 0 := by rw [← this]; rfl
    rw [List.length_range] at hl
    have := h.npos; omega
  have hdiff : (op = .dropList ∨ ∃ j, op = .dropIter j) ∧ s.rc = s'.rc + 1 := by
    cases op with
    | insert =>
      simp only [step] at hs; split at hs
      · cases hs; exact absurd hz' hnz
      · cases hs
    | iter =>
      simp only [step] at hs; split at hs
      · cases hs; simp at hz'
      · cases hs
    | cloneIter j =>
      simp only [step] at hs; split at hs
      · cases hs; simp at hz'
      · cases hs
    | use j =>
      simp only [step] at hs; split at hs
      · cases hs; exact absurd hz' hnz
      · cases hs
    | dropList =>
      simp only [step] at hs; split at hs
      · simp only [Bool.false_eq_true, if_false] at hs
        cases hs
        refine ⟨Or.inl rfl, ?_⟩
        show s.rc = s.rc - 1 + 1; omega
      · cases hs
    | dropIter j =>
      simp only [step] at hs; split at hs
      · cases hs
        refine ⟨Or.inr ⟨j, rfl⟩, ?_⟩
        show s.rc = s.rc - 1 + 1; omega
      · cases hs
  refine ⟨hdiff.1, ?_, ?_⟩
  · rw [← h.rc_eq]; omega
  · rw [← h'.rc_eq]; exact hz'

/-! ### the bridge to `Blue.SkipLife` -/

/-- the handle part of the two models moves in step (any state) -/
theorem step_abs (s : St) (op : Op) : (step false s op).map abs = Blue.SkipLife.step (abs s) op := by
  cases op with
  | insert => by_cases hl : s.listHeld = true <;> simp [step, Blue.SkipLife.step, abs, hl, deref]
  | iter => by_cases hl : s.listHeld = true <;> simp [step, Blue.SkipLife.step, abs, hl]
  | cloneIter j =>
    by_cases hj : s.iters.getD j false = true <;> simp [step, Blue.SkipLife.step, abs, held, Blue.SkipLife.held]
  | dropList => by_cases hl : s.listHeld = true <;> simp [step, Blue.SkipLife.step, abs, hl, release]
  | dropIter j =>
    by_cases hj : s.iters.getD j false = true <;>
      simp [step, Blue.SkipLife.step, abs, held, Blue.SkipLife.held, release]
  | use j =>
    by_cases hj : s.iters.getD j false = true <;> simp [step, Blue.SkipLife.step, abs, held, Blue.SkipLife.held, deref]

/-- … and on reachable states the number `Blue.SkipLife.live` *defines* is the number of nodes the
    transition system has not released -/
theorem live_abs {s : St} (h : Inv s) : Blue.SkipLife.live (abs s) = liveNodes s := by
  unfold Blue.SkipLife.live liveNodes
  rw [← h.rc_eq, h.freed_eq]
  split
  · rw [List.length_range]; omega
  · simp [abs]

/-- `Blue.SkipLife`'s run (the one the C17 driver replays) from the run of this system -/
def lifeRun : Blue.SkipLife.St → List Op → Option Blue.SkipLife.St
  | s, [] => some s
  | s, op :: ops =>
    match Blue.SkipLife.step s op with
    | some s' => lifeRun s' ops
    | none => none

theorem run_abs : ∀ (ops : List Op) (s : St), (run false s ops).map abs = lifeRun (abs s) ops
  | [], s => rfl
  | op :: ops, s => by
    simp only [run, lifeRun]
    rw [← step_abs]
    cases step false s op with
    | none => rfl
    | some s1 => exact run_abs ops s1

/-- **refinement**: every run of `Blue.SkipLife` from the fresh list is the handle part of a run of
    this system, and after it `live` is the number of nodes not released -/
theorem life_refines (ops : List Op) {t : Blue.SkipLife.St} (hr : lifeRun {} ops = some t) :
    ∃ s, run false {} ops = some s ∧ abs s = t ∧ Blue.SkipLife.live t = liveNodes s ∧ s.uaf = false := by
  have := run_abs ops {}
  have habs : abs ({} : St) = ({} : Blue.SkipLife.St) := rfl
  rw [habs, hr] at this
  cases hrun : run false {} ops with
  | none => rw [hrun] at this; cases this
  | some s =>
    rw [hrun] at this
    simp only [Option.map_some, Option.some.injEq] at this
    have hi := inv_run ops inv_init hrun
    exact ⟨s, rfl, this, by rw [← this]; exact live_abs hi, hi.nouaf⟩

/-! ### the ownership as found (D-4) -/

/-- **finding D-4 as a theorem about the code as it was**: `SkipList::drop` released every node
    while an iterator still shared the head pointer; the iterator's next dereference is a use
    after free.  The same schedule under the repaired ownership keeps all three nodes until the
    iterator goes. -/
theorem use_after_free_as_found :
    (run true {} [.insert, .insert, .iter, .dropList, .use 0]).map (fun s => (s.uaf, s.freed)) = some (true, [0, 1, 2])
    ∧ (run false {} [.insert, .insert, .iter, .dropList, .use 0]).map (fun s => (s.uaf, s.freed, s.rc)) = some (false, [], 1)
    ∧ (run false {} [.insert, .insert, .iter, .dropList, .use 0, .dropIter 0]).map (fun s => (s.uaf, s.freed, s.rc))
        = some (false, [0, 1, 2], 0) := by decide

end Blue.SkipOwn
