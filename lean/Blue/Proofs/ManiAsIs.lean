import Blue.Model.Mani
/-! **D-24 / D-12 as theorems** about the manifest format as the code has it (with a constant
    checksum, which is enough to walk the parser). -/
namespace Blue.Mani

def crc0 : List Nat → Nat := fun _ => 0

/-- an info entry with key `+` is read back as the *addition* of its value -/
theorem info_plus_misread :
    readEdits crc0 10 (encodeEdit crc0 ⟨[], [], [(43, [120])]⟩) Edit.empty
      = ([⟨[], [[120]], []⟩], false) := by
  decide +kernel

/-- … and one with key `-` as a *removal* -/
theorem info_minus_misread :
    readEdits crc0 10 (encodeEdit crc0 ⟨[], [], [(45, [120])]⟩) Edit.empty
      = ([⟨[[120]], [], []⟩], false) := by
  decide +kernel

/-- the empty string can be added but the line it produces is rejected on reopen -/
theorem empty_string_unreadable :
    readEdits crc0 10 (encodeEdit crc0 ⟨[], [[]], []⟩) Edit.empty = ([], true) := by
  decide +kernel

/-- a string ending in `\\r` loses it to `lines()`, and the checksum (here: the length test) no
    longer matches what was written: with a real CRC this is a corruption error, with the
    constant one the string comes back shortened -/
theorem trailing_cr_lost :
    readEdits crc0 10 (encodeEdit crc0 ⟨[], [[120, 13]], []⟩) Edit.empty = ([⟨[], [[120]], []⟩], false) := by
  decide +kernel

end Blue.Mani
