import Blue.Proofs.SkipProgress
/-! Lock-freedom of `skipfree::SkipList` for every operation, `insert` with its per-level
    store / CAS / re-advance loops included (model `Blue.SkipML`, sequentially consistent
    interleavings).  The measure of an insert adds, for every level it still has to link, 2 if the
    predecessor's pointer is still the one it recorded (store, CAS that will succeed) and otherwise
    the cost of a failed CAS, a re-advance along the level and a second attempt.  A step of another
    thread that is not a successful CAS changes no pointer of a linked node (`ptr_step`), so it
    leaves the measure as it is; every own step makes it smaller. -/
namespace Blue.SkipProgress
open Blue.SkipML
open Blue.SkipList (SChain keyOf nextOf)

/-- a step changes the level-`j` pointer of the head or of a node linked at level `j` only by a
    successful CAS at that level on that node -/
theorem ptr_step {s : St} {ids} (h : MInv s ids) (j p : Nat) (hp : p = 0 ∨ p ∈ ids j) (i : Nat) :
    mnext (step s i).heap j p = mnext s.heap j p ∨ casOn s i j p := by
  have hplt : p < s.heap.length := by
    rcases hp with hp | hp
    · rw [hp]; exact minv_heap_pos h
    · exact minv_ids_lt h j _ hp
  cases hpc : (th s i).pc with
  | alloc k' h' prev' obs' =>
    left
    unfold step; simp only [hpc]
    show mnext (s.heap ++ [_]) j _ = _
    rw [mnext_append _ _ _ _ hplt]
  | setNext nd' k' idx' h' prev' obs' =>
    left
    have fi : InsFacts s ids nd' k' idx' h' prev' obs' :=
      insFacts_of (fun o ho => own_obl h i hpc o (by simpa [obls] using ho))
    unfold step; simp only [hpc]
    show mnext (msetNext s.heap idx' nd' _) j _ = _
    rw [mnext_msetNext_ne]
    intro ⟨e1, e2⟩
    subst e1
    rcases hp with hp | hp
    · have := fi.node.1; omega
    · exact fi.above j (Nat.le_refl _) (e2 ▸ hp)
  | cas nd' k' idx' h' prev' obs' =>
    by_cases hc : mnext s.heap idx' (prev'.getD idx' 0) = obs'.getD idx' none
    · by_cases hsame : j = idx' ∧ p = prev'.getD idx' 0
      · right
        refine ⟨obs'.getD idx' none, nd', ?_⟩
        unfold access; rw [hpc]; simp only
        rw [decide_eq_true hc, hsame.2, hsame.1]
      · left
        have hheap : (step s i).heap = msetNext s.heap idx' (prev'.getD idx' 0) (some nd') := by
          unfold step; simp only [hpc, hc, if_true]
          split <;> rfl
        rw [hheap, mnext_msetNext_ne _ _ _ _ _ _ hsame]
    · left
      have hheap : (step s i).heap = s.heap := by
        unfold step; simp only [hpc, hc, if_false]; rfl
      rw [hheap]
  | idle => left; rw [step_heap_same s i (by rw [hpc]; trivial)]
  | panicked => left; rw [step_heap_same s i (by rw [hpc]; trivial)]
  | search _ _ _ _ _ _ => left; rw [step_heap_same s i (by rw [hpc]; trivial)]
  | adv _ _ _ _ _ _ => left; rw [step_heap_same s i (by rw [hpc]; trivial)]
  | geq _ _ _ _ => left; rw [step_heap_same s i (by rw [hpc]; trivial)]
  | lt _ _ _ => left; rw [step_heap_same s i (by rw [hpc]; trivial)]
  | last _ _ => left; rw [step_heap_same s i (by rw [hpc]; trivial)]
  | nxt _ => left; rw [step_heap_same s i (by rw [hpc]; trivial)]

/-- the next step of `j` is a successful CAS (at any level): a node gets linked -/
def linksNode (s : St) (j : Nat) : Bool := (succCasAt s j).isSome

theorem casOn_links {s : St} {i j p : Nat} (h : casOn s i j p) : linksNode s i = true := by
  obtain ⟨old, new, ha⟩ := h
  simp [linksNode, succCasAt, ha]

theorem linksKey_of_not_linksNode {s : St} {i : Nat} (h : linksNode s i = false) : linksKey s i = false := by
  unfold linksNode at h; unfold linksKey
  cases hs : succCasAt s i with
  | none => rfl
  | some l => rw [hs] at h; cases h

/-! ### the measure of an insert -/

/-- cost of linking level `j` behind `p` when `o` was recorded as `p`'s successor -/
def levCost (s : St) (k p : Nat) (o : Option Nat) (j : Nat) : Nat :=
  if mnext s.heap j p = o then 2 else cnt s (some k) p + 5

/-- cost of the levels `lo, …, lo + n - 1` -/
def sumLev (s : St) (k : Nat) (prev : List Nat) (obs : List (Option Nat)) : Nat → Nat → Nat
  | _, 0 => 0
  | lo, n + 1 => levCost s k (prev.getD lo 0) (obs.getD lo none) lo + sumLev s k prev obs (lo + 1) n

def psi (s : St) : PC → Nat
  | .search k h x lvl prev obs => phi s (.search k h x lvl prev obs) + 1 + h * (linkedNodes s + 5)
  | .alloc k h prev obs => 1 + sumLev s k prev obs 0 h
  | .setNext _ k idx h prev obs => sumLev s k prev obs idx (h - idx)
  | .cas _ k idx h prev obs =>
    (if mnext s.heap idx (prev.getD idx 0) = obs.getD idx none then 1 else cnt s (some k) (prev.getD idx 0) + 4) +
      sumLev s k prev obs (idx + 1) (h - idx - 1)
  | .adv _ k idx h prev obs => cnt s (some k) (prev.getD idx 0) + 3 + sumLev s k prev obs (idx + 1) (h - idx - 1)
  | pc => phi s pc

/-- `B(state)` for thread `t`: the number of own steps its pending operation can still take -/
def opBound (s : St) (t : Nat) : Nat := psi s (th s t).pc

/-- the thread has a pending operation -/
def pending : PC → Bool
  | .idle => false
  | .panicked => false
  | _ => true

def opBusy (t : Nat) (s : St) : Bool := pending (th s t).pc

theorem sumLev_congr {s s' : St} {k : Nat} {prev prev' : List Nat} {obs obs' : List (Option Nat)} :
    ∀ (n lo : Nat),
      (∀ j, lo ≤ j → j < lo + n →
        levCost s' k (prev'.getD j 0) (obs'.getD j none) j = levCost s k (prev.getD j 0) (obs.getD j none) j) →
      sumLev s' k prev' obs' lo n = sumLev s k prev obs lo n := by
  intro n
  induction n with
  | zero => intro lo _; rfl
  | succ n ih =>
    intro lo hall
    simp only [sumLev]
    rw [hall lo (Nat.le_refl _) (by omega), ih (lo + 1) (fun j h1 h2 => hall j (by omega) (by omega))]

theorem levCost_le (s : St) (k p : Nat) (o : Option Nat) (j : Nat) : levCost s k p o j ≤ linkedNodes s + 5 := by
  unfold levCost
  have := cnt_le s (some k) p
  split <;> omega

theorem sumLev_le (s : St) (k : Nat) (prev : List Nat) (obs : List (Option Nat)) :
    ∀ (n lo : Nat), sumLev s k prev obs lo n ≤ n * (linkedNodes s + 5) := by
  intro n
  induction n with
  | zero => intro lo; simp [sumLev]
  | succ n ih =>
    intro lo
    simp only [sumLev, Nat.succ_mul]
    have := ih (lo + 1)
    have := levCost_le s k (prev.getD lo 0) (obs.getD lo none) lo
    omega

theorem levCost_frame {s s' : St} (f : Frame s s') (k p : Nat) (o : Option Nat) (j : Nat) (hp : p < s.heap.length)
    (hptr : mnext s'.heap j p = mnext s.heap j p) : levCost s' k p o j = levCost s k p o j := by
  unfold levCost
  rw [hptr, cnt_frame f _ _ hp]

/-- the predecessors an inserting thread still has to CAS on are the head or linked at their level -/
def PrevsOk (s : St) (ids : Nat → List Nat) : PC → Prop
  | .alloc k h prev _ => ∀ j, j < h → StandOk s.heap ids k j (prev.getD j 0)
  | .setNext _ k idx h prev _ => idx < h ∧ ∀ j, idx ≤ j → j < h → StandOk s.heap ids k j (prev.getD j 0)
  | .cas _ k idx h prev _ => idx < h ∧ ∀ j, idx ≤ j → j < h → StandOk s.heap ids k j (prev.getD j 0)
  | .adv _ k idx h prev _ => idx < h ∧ ∀ j, idx ≤ j → j < h → StandOk s.heap ids k j (prev.getD j 0)
  | _ => True

theorem prevsOk_own {s : St} {ids} (h : MInv s ids) (t : Nat) : PrevsOk s ids (th s t).pc := by
  have hP := h.pure t
  cases hpc : (th s t).pc with
  | alloc k hh prev obs =>
    rw [hpc] at hP
    have := own_obl h t hpc (.prevs k 0 s.H prev) (by simp [obls])
    intro j hj
    exact this j (Nat.zero_le _) (by have := hP.2.1; omega)
  | setNext nd k idx hh prev obs =>
    rw [hpc] at hP
    have ft : InsFacts s ids nd k idx hh prev obs :=
      insFacts_of (fun o ho => own_obl h t hpc o (by simpa [obls] using ho))
    exact ⟨hP.1, ft.prevs⟩
  | cas nd k idx hh prev obs =>
    rw [hpc] at hP
    have ft : InsFacts s ids nd k idx hh prev obs :=
      insFacts_of (fun o ho => own_obl h t hpc o (by simp only [obls, List.mem_cons]; exact Or.inr ho))
    exact ⟨hP.1, ft.prevs⟩
  | adv nd k idx hh prev obs =>
    rw [hpc] at hP
    have ft : InsFacts s ids nd k idx hh prev obs :=
      insFacts_of (fun o ho => own_obl h t hpc o (by simpa [obls] using ho))
    exact ⟨hP.1, ft.prevs⟩
  | _ => trivial

theorem on_lt {s : St} {ids} (h : MInv s ids) {j p : Nat} (hp : p = 0 ∨ p ∈ ids j) : p < s.heap.length := by
  rcases hp with hp | hp
  · rw [hp]; exact minv_heap_pos h
  · exact minv_ids_lt h j _ hp

/-- the measure of `pc` is the same in `s'` when the linked keys, the keys of the nodes and the
    pointers of the linked nodes are -/
theorem psi_same {s s' : St} {ids} (h : MInv s ids) (f : Frame s s')
    (hptr : ∀ j p, (p = 0 ∨ p ∈ ids j) → mnext s'.heap j p = mnext s.heap j p)
    (pc : PC) (hpos : pcPos pc < s.heap.length) (hprevs : PrevsOk s ids pc) : psi s' pc = psi s pc := by
  have lev : ∀ k p o j, (p = 0 ∨ p ∈ ids j) → levCost s' k p o j = levCost s k p o j :=
    fun k p o j hp => levCost_frame f k p o j (on_lt h hp) (hptr j p hp)
  cases pc with
  | search k hh x lvl prev obs =>
    simp only [psi]; rw [phi_frame f _ hpos, linkedNodes_frame f]
  | alloc k hh prev obs =>
    simp only [psi]
    rw [sumLev_congr hh 0 (fun j _ h2 => lev _ _ _ _ (stand_on (hprevs j (by omega))))]
  | setNext nd k idx hh prev obs =>
    simp only [psi]
    rw [sumLev_congr (hh - idx) idx (fun j h1 h2 => lev _ _ _ _ (stand_on (hprevs.2 j h1 (by omega))))]
  | cas nd k idx hh prev obs =>
    have hp := stand_on (hprevs.2 idx (Nat.le_refl _) hprevs.1)
    simp only [psi]
    rw [hptr idx _ hp, cnt_frame f _ _ (on_lt h hp),
      sumLev_congr (hh - idx - 1) (idx + 1) (fun j h1 h2 => lev _ _ _ _ (stand_on (hprevs.2 j (by omega) (by omega))))]
  | adv nd k idx hh prev obs =>
    have hp := stand_on (hprevs.2 idx (Nat.le_refl _) hprevs.1)
    simp only [psi]
    rw [cnt_frame f _ _ (on_lt h hp),
      sumLev_congr (hh - idx - 1) (idx + 1) (fun j h1 h2 => lev _ _ _ _ (stand_on (hprevs.2 j (by omega) (by omega))))]
  | idle => rfl
  | panicked => rfl
  | geq k x lvl c => exact phi_frame f _ hpos
  | lt k x lvl => exact phi_frame f _ hpos
  | last x lvl => exact phi_frame f _ hpos
  | nxt x => exact phi_frame f _ hpos

/-- a step that is not a successful CAS leaves every thread's measure as it is -/
theorem step_psi_same {s : St} {ids} (h : MInv s ids) (i : Nat) (hev : linksNode s i = false)
    (pc : PC) (hpos : pcPos pc < s.heap.length) (hprevs : PrevsOk s ids pc) : psi (step s i) pc = psi s pc :=
  psi_same h (step_frame h i (linksKey_of_not_linksNode hev))
    (fun j p hp => (ptr_step h j p hp i).resolve_right (fun hc => by
      have := casOn_links hc; rw [hev] at this; cases this)) pc hpos hprevs

theorem op_other_keeps {s : St} {ids} (h : MInv s ids) (t i : Nat) (hne : i ≠ t) (hev : linksNode s i = false) :
    opBound (step s i) t ≤ opBound s t := by
  unfold opBound
  rw [step_th_other s i t (fun e => hne e.symm), step_psi_same h i hev _ (pcPos_lt h t) (prevsOk_own h t)]
  exact Nat.le_refl _

/-! ### the thread's own steps -/

theorem sumLev_setPc (s : St) (i : Nat) (pc : PC) (k : Nat) (prev : List Nat) (obs : List (Option Nat)) (lo n : Nat) :
    sumLev (setPc s i pc) k prev obs lo n = sumLev s k prev obs lo n :=
  sumLev_congr n lo (fun _ _ _ => rfl)

theorem psi_setPc (s : St) (i : Nat) (pc pc' : PC) : psi (setPc s i pc) pc' = psi s pc' := by
  cases pc' <;> simp only [psi] <;> (try rw [sumLev_setPc]) <;> rfl

theorem phi_pos_search (s : St) (k hh x lvl : Nat) (prev : List Nat) (obs : List (Option Nat)) :
    0 < phi s (.search k hh x lvl prev obs) := by simp only [phi]; omega

theorem op_dec_search {s : St} {ids} (h : MInv s ids) (t k hh x lvl : Nat) (prev : List Nat) (obs : List (Option Nat))
    (hpc : (th s t).pc = .search k hh x lvl prev obs) :
    pending (th (step s t) t).pc = false ∨ psi (step s t) (th (step s t) t).pc < psi s (th s t).pc := by
  have hi : t < s.ths.length := th_lt_of_pc (by rw [hpc]; simp)
  have hlvl : lvl < s.H := by have := h.pure t; rw [hpc] at this; exact this.2.2.1
  have hx := stand_on (own_obl h t hpc (.stand k lvl x) (by simp [obls]))
  have hpsi : psi s (th s t).pc = psi s (.search k hh x lvl prev obs) := by rw [hpc]
  rw [hpsi]
  have hle := cnt_le s (some k) x
  have halloc : ∀ prev' obs', psi s (.alloc k hh prev' obs') < psi s (.search k hh x lvl prev obs) := by
    intro prev' obs'
    have := sumLev_le s k prev' obs' hh 0
    have := phi_pos_search s k hh x lvl prev obs
    simp only [psi]; omega
  unfold step; simp only [hpc]
  cases hnx : mnext s.heap lvl x with
  | none =>
    simp only []
    cases lvl with
    | zero => right; simp only; rw [th_setPc_pc _ _ _ hi, psi_setPc]; exact halloc _ _
    | succ l =>
      right; simp only; rw [th_setPc_pc _ _ _ hi, psi_setPc]
      simp only [psi, phi, Nat.succ_mul]; omega
  | some n =>
    cases haf : after s.heap k (some n) with
    | true =>
      right; simp only; rw [th_setPc_pc _ _ _ hi, psi_setPc]
      have := walk_dec h (some k) x lvl n hlvl hx hnx (by
        intro k' hk'; cases hk'; simpa [after] using haf)
      simp only [psi, phi]; omega
    | false =>
      simp only []
      cases lvl with
      | zero =>
        simp only; split
        · left; rw [th_setPc_pc _ _ _ hi]; rfl
        · right; rw [th_setPc_pc _ _ _ hi, psi_setPc]; exact halloc _ _
      | succ l =>
        right; simp only; rw [th_setPc_pc _ _ _ hi, psi_setPc]
        simp only [psi, phi, Nat.succ_mul]; omega

theorem sumLev_head (s : St) (k : Nat) (prev : List Nat) (obs : List (Option Nat)) {hh idx : Nat} (h : idx < hh) :
    sumLev s k prev obs idx (hh - idx) =
      levCost s k (prev.getD idx 0) (obs.getD idx none) idx + sumLev s k prev obs (idx + 1) (hh - idx - 1) := by
  obtain ⟨m, hm⟩ : ∃ m, hh - idx = m + 1 := ⟨hh - idx - 1, by omega⟩
  have : hh - idx - 1 = m := by omega
  rw [this, hm]; rfl

theorem op_dec_alloc {s : St} {ids} (h : MInv s ids) (t k hh : Nat) (prev : List Nat) (obs : List (Option Nat))
    (hpc : (th s t).pc = .alloc k hh prev obs) :
    pending (th (step s t) t).pc = false ∨ psi (step s t) (th (step s t) t).pc < psi s (th s t).pc := by
  have hi : t < s.ths.length := th_lt_of_pc (by rw [hpc]; simp)
  have hP := h.pure t
  rw [hpc] at hP
  have hprevs := prevsOk_own h t
  rw [hpc] at hprevs
  have hev : linksNode s t = false := by simp [linksNode, succCasAt, access, hpc]
  have hpc' : (th (step s t) t).pc = .setNext s.heap.length k 0 hh prev obs := by
    unfold step; simp only [hpc]; exact th_setPc_pc _ _ _ hi
  right
  rw [hpc', hpc, step_psi_same h t hev _ (by simpa [pcPos] using minv_heap_pos h)
    (show PrevsOk s ids (.setNext s.heap.length k 0 hh prev obs) from ⟨hP.1, fun j _ hj => hprevs j hj⟩)]
  simp only [psi, Nat.sub_zero]; omega

theorem op_dec_setNext {s : St} {ids} (h : MInv s ids) (t nd k idx hh : Nat) (prev : List Nat) (obs : List (Option Nat))
    (hpc : (th s t).pc = .setNext nd k idx hh prev obs) :
    pending (th (step s t) t).pc = false ∨ psi (step s t) (th (step s t) t).pc < psi s (th s t).pc := by
  have hi : t < s.ths.length := th_lt_of_pc (by rw [hpc]; simp)
  have hprevs := prevsOk_own h t
  rw [hpc] at hprevs
  have hev : linksNode s t = false := by simp [linksNode, succCasAt, access, hpc]
  have hpc' : (th (step s t) t).pc = .cas nd k idx hh prev obs := by
    unfold step; simp only [hpc]; exact th_setPc_pc _ _ _ hi
  right
  rw [hpc', hpc, step_psi_same h t hev _ (by simpa [pcPos] using minv_heap_pos h)
    (show PrevsOk s ids (.cas nd k idx hh prev obs) from hprevs)]
  simp only [psi]
  rw [sumLev_head s k prev obs hprevs.1]
  simp only [levCost]
  split <;> omega

theorem cntP_cas (s s' : St) (k x n : Nat) (hk : ∀ m, mkey s'.heap m = mkey s.heap m)
    (hins : s'.inserted = s.inserted ∨ s'.inserted = k :: s.inserted) :
    cntP s' (some k) x n = cntP s (some k) x n := by
  unfold cntP
  rw [hk n, hk x]
  rcases hins with e | e
  · rw [e]
  · rw [e]
    by_cases hlt : mkey s.heap n < k
    · have hne : (mkey s.heap n == k) = false := by simpa using Nat.ne_of_lt hlt
      have hcont : (k :: s.inserted).contains (mkey s.heap n) = s.inserted.contains (mkey s.heap n) := by
        rw [List.contains_cons, hne, Bool.false_or]
      rw [hcont]
    · simp [hlt]

theorem cnt_cas (s s' : St) (k x : Nat) (hl : s'.heap.length = s.heap.length) (hk : ∀ m, mkey s'.heap m = mkey s.heap m)
    (hins : s'.inserted = s.inserted ∨ s'.inserted = k :: s.inserted) :
    cnt s' (some k) x = cnt s (some k) x := by
  unfold cnt
  rw [hl]
  apply List.countP_congr
  intro n _
  rw [cntP_cas s s' k x n hk hins]

theorem op_dec_cas {s : St} {ids} (_h : MInv s ids) (t nd k idx hh : Nat) (prev : List Nat) (obs : List (Option Nat))
    (hpc : (th s t).pc = .cas nd k idx hh prev obs) :
    pending (th (step s t) t).pc = false ∨ psi (step s t) (th (step s t) t).pc < psi s (th s t).pc := by
  have hi : t < s.ths.length := th_lt_of_pc (by rw [hpc]; simp)
  have hpsi : psi s (th s t).pc = psi s (.cas nd k idx hh prev obs) := by rw [hpc]
  rw [hpsi]
  unfold step; simp only [hpc]
  by_cases hc : mnext s.heap idx (prev.getD idx 0) = obs.getD idx none
  · simp only [hc, if_true]
    split
    · right
      rename_i hlt
      rw [th_setPc_pc _ t _ (by exact hi), psi_setPc]
      simp only [psi, hc, if_true]
      have e : hh - (idx + 1) = hh - idx - 1 := by omega
      rw [e]
      have : sumLev { s with heap := msetNext s.heap idx (prev.getD idx 0) (some nd),
                             inserted := if idx = 0 then k :: s.inserted else s.inserted } k prev obs (idx + 1) (hh - idx - 1)
          = sumLev s k prev obs (idx + 1) (hh - idx - 1) := by
        apply sumLev_congr
        intro j h1 _
        unfold levCost
        simp only
        rw [mnext_msetNext_ne _ _ _ _ _ _ (by intro ⟨e1, _⟩; omega)]
        rw [cnt_cas s _ k _ (length_msetNext ..) (fun m => mkey_msetNext ..)
          (by simp only; split <;> simp)]
      rw [this]; omega
    · left; rw [th_setPc_pc _ t _ (by exact hi)]; rfl
  · simp only [hc, if_false]
    right
    rw [th_setPc_pc _ _ _ hi, psi_setPc]
    simp only [psi, hc, if_false]; omega

theorem op_dec_adv {s : St} {ids} (h : MInv s ids) (t nd k idx hh : Nat) (prev : List Nat) (obs : List (Option Nat))
    (hpc : (th s t).pc = .adv nd k idx hh prev obs) :
    pending (th (step s t) t).pc = false ∨ psi (step s t) (th (step s t) t).pc < psi s (th s t).pc := by
  have hi : t < s.ths.length := th_lt_of_pc (by rw [hpc]; simp)
  have hP := h.pure t
  rw [hpc] at hP
  obtain ⟨hP1, hP2, hP3, hP4⟩ := hP
  have hprevs := prevsOk_own h t
  rw [hpc] at hprevs
  have hp := stand_on (hprevs.2 idx (Nat.le_refl _) hprevs.1)
  have hpsi : psi s (th s t).pc = psi s (.adv nd k idx hh prev obs) := by rw [hpc]
  rw [hpsi]
  have hstay : ∀ next, psi s (.setNext nd k idx hh prev (obs.set idx next)) < psi s (.adv nd k idx hh prev obs) ∨
      mnext s.heap idx (prev.getD idx 0) ≠ next := by
    intro next
    by_cases e : mnext s.heap idx (prev.getD idx 0) = next
    · left
      simp only [psi]
      rw [sumLev_head s k prev _ hprevs.1]
      simp only [levCost]
      rw [getD_set_same _ _ _ _ (by omega), if_pos e]
      have : sumLev s k prev (obs.set idx next) (idx + 1) (hh - idx - 1) = sumLev s k prev obs (idx + 1) (hh - idx - 1) := by
        apply sumLev_congr
        intro j h1 _
        rw [getD_set_ne _ _ _ _ _ (by omega)]
      rw [this]; omega
    · exact Or.inr e
  unfold step; simp only [hpc]
  cases hnx : mnext s.heap idx (prev.getD idx 0) with
  | none =>
    right; simp only; rw [th_setPc_pc _ _ _ hi, psi_setPc]
    exact (hstay none).resolve_right (fun e => e hnx)
  | some n =>
    cases haf : after s.heap k (some n) with
    | true =>
      right; simp only; rw [th_setPc_pc _ _ _ hi, psi_setPc]
      have := walk_dec h (some k) (prev.getD idx 0) idx n (by omega) hp hnx (by
        intro k' hk'; cases hk'; simpa [after] using haf)
      simp only [psi]
      rw [getD_set_same _ _ _ _ (by omega)]
      have e : sumLev s k (prev.set idx n) obs (idx + 1) (hh - idx - 1) = sumLev s k prev obs (idx + 1) (hh - idx - 1) := by
        apply sumLev_congr
        intro j h1 _
        rw [getD_set_ne _ _ _ _ _ (by omega)]
      rw [e]; omega
    | false =>
      right; simp only; rw [th_setPc_pc _ _ _ hi, psi_setPc]
      exact (hstay (some n)).resolve_right (fun e => e hnx)

def insertKind : PC → Bool
  | .search .. => true
  | .alloc .. => true
  | .setNext .. => true
  | .cas .. => true
  | .adv .. => true
  | _ => false

theorem psi_reader (s : St) (pc : PC) (h : insertKind pc = false) : psi s pc = phi s pc := by
  cases pc <;> first | rfl | (simp [insertKind] at h)

theorem pending_reader (pc : PC) (h : insertKind pc = false) (hs : searching pc = false) : pending pc = false := by
  cases pc <;> simp_all [insertKind, searching, pending]

/-- a reading thread stays a reading thread -/
theorem reader_stays (s : St) (t : Nat) (h : insertKind (th s t).pc = false) :
    insertKind (th (step s t) t).pc = false := by
  by_cases hi : t < s.ths.length
  · cases hpc : (th s t).pc <;> rw [hpc] at h <;> simp [insertKind] at h <;> (unfold step; simp only [hpc])
    all_goals repeat' split
    all_goals first
      | rfl
      | (rw [hpc]; rfl)
      | (rw [th_setPc_pc _ _ _ hi]; rfl)
      | (rw [th_setTh_same _ _ _ hi]; rfl)
  · have e : th s t = {} := th_default s t (by omega)
    have : step s t = s := by unfold step; rw [e]
    rw [this]; exact h

theorem op_dec {s : St} {ids} (h : MInv s ids) (t : Nat) (hb : pending (th s t).pc = true) :
    pending (th (step s t) t).pc = false ∨ psi (step s t) (th (step s t) t).pc < psi s (th s t).pc := by
  cases hpc : (th s t).pc with
  | search k hh x lvl prev obs => rw [← hpc]; exact op_dec_search h t k hh x lvl prev obs hpc
  | alloc k hh prev obs => rw [← hpc]; exact op_dec_alloc h t k hh prev obs hpc
  | setNext nd k idx hh prev obs => rw [← hpc]; exact op_dec_setNext h t nd k idx hh prev obs hpc
  | cas nd k idx hh prev obs => rw [← hpc]; exact op_dec_cas h t nd k idx hh prev obs hpc
  | adv nd k idx hh prev obs => rw [← hpc]; exact op_dec_adv h t nd k idx hh prev obs hpc
  | idle => rw [hpc] at hb; cases hb
  | panicked => rw [hpc] at hb; cases hb
  | _ =>
    rw [← hpc]
    have hk : insertKind (th s t).pc = false := by rw [hpc]; rfl
    have hk' := reader_stays s t hk
    have hs : searching (th s t).pc = true := by rw [hpc]; rfl
    rcases own_dec h t hs with hd | hd
    · exact Or.inl (pending_reader _ hk' hd)
    · right; rw [psi_reader _ _ hk', psi_reader _ _ hk]; exact hd

theorem op_busy_pos {s : St} {ids} (h : MInv s ids) (t : Nat) (hb : opBusy t s = true) : 0 < opBound s t := by
  unfold opBusy at hb; unfold opBound
  have hP := h.pure t
  have hpr := prevsOk_own h t
  cases hpc : (th s t).pc <;> rw [hpc] at hb hP hpr <;> simp only [pending] at hb <;> simp only [psi, phi]
  all_goals try omega
  all_goals try cases hb
  · -- setNext
    rw [sumLev_head _ _ _ _ hpr.1]
    simp only [levCost]; split <;> omega
  · -- cas
    split <;> omega

/-! ### the theorems -/

theorem sinv_op_own (t : Nat) (s : St) (h : SInv s) (hb : opBusy t s = true) :
    opBusy t (step s t) = false ∨ opBound (step s t) t < opBound s t := by
  obtain ⟨ids, hi⟩ := h
  exact op_dec hi t hb

theorem sinv_op_other (t : Nat) (s : St) (j : Nat) (h : SInv s) (hne : j ≠ t) (hev : linksNode s j = false) :
    opBound (step s j) t ≤ opBound s t := by
  obtain ⟨ids, hi⟩ := h
  exact op_other_keeps hi t j hne hev

/-- thread `t` has a pending operation in every state of the run -/
def pendingAlong (t : Nat) (s : St) (r : List Nat) : Bool := busyAlong step (opBusy t) s r

/-- the number of steps of the run, by threads other than `t`, that are successful CASes -/
def casesByOthers (t : Nat) (s : St) (r : List Nat) : Nat := othersProgress step t linksNode s r

/-- **an operation that runs alone finishes** within `opBound s t` of its own steps -/
theorem operation_terminates_without_interference {s : St} (h : Reach s) (t : Nat) :
    ∃ m, m ≤ opBound s t ∧ pending (th (run s (List.replicate m t)) t).pc = false := by
  exact generic_alone step t SInv (fun s => opBound s t) (opBusy t) sinv_step (sinv_op_own t)
    (fun s hs hb => by obtain ⟨ids, hi⟩ := hs; exact op_busy_pos hi t hb)
    (opBound s t) s (reach_minv h) (Nat.le_refl _)

/-- **lock-freedom**: in every run from a reachable state, if thread `t` has a pending operation
    (an insert anywhere in its search, allocation or per-level store / CAS / re-advance loops, or a
    search) in every state of the run and has taken more than `opBound s t` steps, a step of the run
    by another thread was a successful CAS: an operation is delayed only by the progress of another -/
theorem lock_freedom {s : St} (h : Reach s) (t : Nat) (r : List Nat)
    (hbusy : pendingAlong t s r = true) (hsteps : opBound s t < r.count t) :
    ∃ r1 j r2, r = r1 ++ j :: r2 ∧ j ≠ t ∧ (succCasAt (run s r1) j).isSome = true := by
  have hp : 0 < casesByOthers t s r := by
    apply Nat.pos_of_ne_zero
    intro h0
    have := generic_bound0 step t SInv (fun s => opBound s t) (opBusy t) linksNode sinv_step (sinv_op_own t)
      (sinv_op_other t) r s (reach_minv h) hbusy h0
    omega
  obtain ⟨r1, j, r2, e, hj, hev⟩ := othersProgress_pos step t linksNode r s hp
  exact ⟨r1, j, r2, e, hj, by simpa [linksNode, run] using hev⟩

/-- the explicit bound: `MAX_HEIGHT * (nodes + 1)` for a search, plus one allocation, plus
    `MAX_HEIGHT * (nodes + 5)` for the levels to link -/
def opB (H L : Nat) : Nat := H * (L + 1) + 1 + H * (L + 5)

theorem opB_mono (H : Nat) {L L' : Nat} (h : L ≤ L') : opB H L ≤ opB H L' := by
  unfold opB
  have h1 : H * (L + 1) ≤ H * (L' + 1) := Nat.mul_le_mul (Nat.le_refl _) (by omega)
  have h2 : H * (L + 5) ≤ H * (L' + 5) := Nat.mul_le_mul (Nat.le_refl _) (by omega)
  omega

theorem opBound_le {s : St} {ids} (h : MInv s ids) (t : Nat) : opBound s t ≤ opB s.H s.heap.length := by
  have hM : linkedNodes s ≤ s.heap.length := by
    have := List.countP_le_length (p := fun n => s.inserted.contains (mkey s.heap n)) (l := List.range s.heap.length)
    simpa [linkedNodes] using this
  have hsb := searchBound_le h t
  unfold searchBound at hsb
  have key2 : ∀ a n, a ≤ linkedNodes s + 5 → n + 1 ≤ s.H → a + n * (linkedNodes s + 5) ≤ s.H * (s.heap.length + 5) := by
    intro a n ha hn
    have h1 : (n + 1) * (linkedNodes s + 5) ≤ s.H * (s.heap.length + 5) := Nat.mul_le_mul hn (by omega)
    rw [Nat.succ_mul] at h1
    omega
  have key1 : ∀ n, n ≤ s.H → n * (linkedNodes s + 5) ≤ s.H * (s.heap.length + 5) :=
    fun n hn => Nat.mul_le_mul hn (by omega)
  have hP := h.pure t
  unfold opBound opB
  cases hpc : (th s t).pc with
  | search k hh x lvl prev obs =>
    rw [hpc] at hP hsb
    have := key1 hh hP.2.1
    simp only [psi]; omega
  | alloc k hh prev obs =>
    rw [hpc] at hP
    have := sumLev_le s k prev obs hh 0
    have := key1 hh hP.2.1
    simp only [psi]; omega
  | setNext nd k idx hh prev obs =>
    rw [hpc] at hP
    obtain ⟨hP1, hP2, _, _⟩ := hP
    have := sumLev_le s k prev obs (hh - idx) idx
    have := key1 (hh - idx) (by omega)
    simp only [psi]; omega
  | cas nd k idx hh prev obs =>
    rw [hpc] at hP
    obtain ⟨hP1, hP2, _, _⟩ := hP
    have := sumLev_le s k prev obs (hh - idx - 1) (idx + 1)
    have hc := cnt_le s (some k) (prev.getD idx 0)
    have := key2 (cnt s (some k) (prev.getD idx 0) + 4) (hh - idx - 1) (by omega) (by omega)
    simp only [psi]; split <;> omega
  | adv nd k idx hh prev obs =>
    rw [hpc] at hP
    obtain ⟨hP1, hP2, _, _⟩ := hP
    have := sumLev_le s k prev obs (hh - idx - 1) (idx + 1)
    have hc := cnt_le s (some k) (prev.getD idx 0)
    have := key2 (cnt s (some k) (prev.getD idx 0) + 3) (hh - idx - 1) (by omega) (by omega)
    simp only [psi]; omega
  | idle => rw [hpc] at hsb; simp only [psi]; omega
  | panicked => rw [hpc] at hsb; simp only [psi]; omega
  | geq k x lvl c => rw [hpc] at hsb; simp only [psi]; omega
  | lt k x lvl => rw [hpc] at hsb; simp only [psi]; omega
  | last x lvl => rw [hpc] at hsb; simp only [psi]; omega
  | nxt x => rw [hpc] at hsb; simp only [psi]; omega

theorem op_bound_along (t H L : Nat) : ∀ (r : List Nat) (s : St), SInv s → s.H = H → (run s r).heap.length ≤ L →
    along step (fun s' => opBound s' t ≤ opB H L) s r := by
  intro r
  induction r with
  | nil =>
    intro s ⟨ids, hi⟩ hH hL
    have := opBound_le hi t
    rw [hH] at this
    exact Nat.le_trans this (opB_mono H hL)
  | cons j r ih =>
    intro s hs hH hL
    refine ⟨?_, ih (step s j) (sinv_step s j hs) (by rw [step_H, hH]) hL⟩
    obtain ⟨ids, hi⟩ := hs
    have := opBound_le hi t
    rw [hH] at this
    exact Nat.le_trans this (opB_mono H (Nat.le_trans (run_len (j :: r) s) hL))

/-- **every operation finishes**: in any run, an operation that is still pending has taken at most
    `opB MAX_HEIGHT nodes` own steps per successful CAS of another thread during the run, plus once
    that (`nodes`: allocated nodes at the end of the run, the head included).  Every insert makes at
    most `MAX_HEIGHT` successful CASes, so with `N` inserts in the workload an operation that keeps
    being scheduled finishes within `opB MAX_HEIGHT (N + 1) * (MAX_HEIGHT * N + 1)` own steps. -/
theorem all_operations_finish {s : St} (h : Reach s) (t : Nat) (r : List Nat)
    (hbusy : pendingAlong t s r = true) :
    r.count t ≤ opB s.H (run s r).heap.length * (casesByOthers t s r + 1) := by
  have hs : SInv s := reach_minv h
  have hb := generic_bound step t SInv (fun s => opBound s t) (opBusy t) linksNode sinv_step (sinv_op_own t)
    (sinv_op_other t) (opB s.H (run s r).heap.length) r s hs hbusy
    (op_bound_along t s.H (run s r).heap.length r s hs rfl (Nat.le_refl _))
  have h0 : opBound s t ≤ opB s.H (run s r).heap.length := by
    obtain ⟨ids, hi⟩ := hs
    exact Nat.le_trans (opBound_le hi t) (opB_mono s.H (run_len r s))
  rw [Nat.mul_succ]
  unfold casesByOthers
  omega

end Blue.SkipProgress
