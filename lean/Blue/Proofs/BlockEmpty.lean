import Blue.Proofs.BlockBytes
/-! The cursor of the *empty* block (no entries; `BlockBuilder::seal` accepts it and writes the one
    restart offset 0).  `WfBlock` asks for at least one entry, so `block_cursor_refines` /
    `sealed_block_cursor_refines` do not speak about it.  Here: over a decoded block without
    entries — whatever its restart list — every finite cursor program shows `None` after every
    call, which is what the reference cursor over the empty sequence shows.  The model is the
    *repaired* `BlockCursor` (D-7, /repo fix b7b0796: `seek_restart` of an offset at the restarts
    boundary is "past the end" instead of a corruption error).  Added after the independent audit
    of the C10 theorem statements (docs/AUDIT_REPORT.md, C10 "empty-block cursor"). -/
namespace Blue.BlockCursor
open Blue.Cursor
variable {E : Type}

theorem seekRestart_blk (c : BCur E) (r : Nat) : (seekRestart c r).blk = c.blk := by
  unfold seekRestart
  cases c.blk.restarts[r]? with
  | none => rfl
  | some i => simp only; split <;> rfl

theorem next_blk (c : BCur E) : (next c).blk = c.blk := by
  unfold next
  cases hp : c.pos with
  | first => exact seekRestart_blk c 0
  | last => rfl
  | «at» r i =>
    simp only
    split
    · rfl
    · cases c.blk.restarts[r + 1]? with
      | none => rfl
      | some j => simp only; split; exact seekRestart_blk c (r + 1); rfl

theorem scanTo_blk (target : Nat) : ∀ (f : Nat) (c : BCur E), (scanTo target f c).blk = c.blk
  | 0, _ => rfl
  | f + 1, c => by
    simp only [scanTo]
    cases c.pos with
    | first => rfl
    | last => rfl
    | «at» r i =>
      simp only
      split
      · rw [scanTo_blk target f, next_blk]
      · rfl

theorem prev_blk (c : BCur E) : (prev c).blk = c.blk := by
  unfold prev
  cases hp : c.pos with
  | first => rfl
  | last =>
    simp only
    split
    · rfl
    · rw [scanTo_blk, seekRestart_blk]
  | «at» r i =>
    simp only
    split
    · rfl
    · rw [scanTo_blk, seekRestart_blk]

theorem scanWhile_blk (pred : E → Bool) : ∀ (f : Nat) (c : BCur E), (scanWhile pred f c).blk = c.blk
  | 0, _ => rfl
  | f + 1, c => by
    simp only [scanWhile]
    cases kv c with
    | none => rfl
    | some e =>
      simp only
      split
      · rfl
      · rw [scanWhile_blk pred f, next_blk]

theorem seek_blk (pred : E → Bool) (c : BCur E) : (seek pred c).blk = c.blk := by
  unfold seek
  simp only
  rw [scanWhile_blk, seekRestart_blk]

theorem step_blk (c : BCur E) (op : Op E) : (step c op).blk = c.blk := by
  cases op with
  | first => rfl
  | last => rfl
  | next => exact next_blk c
  | prev => exact prev_blk c
  | seek pred => exact seek_blk pred c

theorem kv_empty (c : BCur E) (h : c.blk.entries = []) : kv c = none := by
  unfold kv
  cases c.pos with
  | first => rfl
  | last => rfl
  | «at» r i => simp [h]

theorem ref_kv_empty (c : Ref E) (h : c.xs = []) : c.kv = none := by
  unfold Ref.kv
  split
  · rfl
  · simp [h]

theorem ref_step_xs (c : Ref E) (op : Op E) : (c.step op).xs = c.xs := by
  cases op with
  | first => rfl
  | last => rfl
  | next => simp only [Ref.step, Ref.next]; split <;> rfl
  | prev => simp only [Ref.step, Ref.prev]; split <;> rfl
  | seek p => rfl

theorem run_empty : ∀ (ops : List (Op E)) (c : BCur E), c.blk.entries = [] → run c ops = ops.map (fun _ => none)
  | [], _, _ => rfl
  | op :: ops, c, h => by
    have h' : (step c op).blk.entries = [] := by rw [step_blk]; exact h
    simp only [run, List.map_cons, kv_empty _ h', run_empty ops _ h']

theorem ref_run_empty : ∀ (ops : List (Op E)) (c : Ref E), c.xs = [] → Ref.run c ops = ops.map (fun _ => none)
  | [], _, _ => rfl
  | op :: ops, c, h => by
    have h' : (c.step op).xs = [] := by rw [ref_step_xs]; exact h
    simp only [Ref.run, List.map_cons, ref_kv_empty _ h', ref_run_empty ops _ h']

/-- **the cursor of a block without entries**: whatever the restart list and the position, every
    finite program of `seek_to_first / seek_to_last / next / prev / seek` shows `None` after every
    call — the reference cursor over the empty sequence -/
theorem empty_block_cursor_refines (restarts : List Nat) (pos : Pos) (p : Nat) (ops : List (Op E)) :
    run ⟨⟨[], restarts⟩, pos⟩ ops = Ref.run ⟨([] : List E), p⟩ ops
    ∧ Ref.run ⟨([] : List E), p⟩ ops = ops.map (fun _ => none) := by
  rw [run_empty ops _ rfl, ref_run_empty ops _ rfl]
  exact ⟨rfl, rfl⟩

end Blue.BlockCursor

namespace Blue.Block
open Blue.Wire Blue.EntryCodec Blue.BlockCursor Blue.Cursor

theorem fits_empty (o : Opts) : Fits (build o []) := by
  unfold Fits build
  simp only [List.foldl_nil, Builder.init]
  decide

/-- **the sealed empty block, from its bytes**: `BlockBuilder::seal` with nothing put, `Block::new`
    on the bytes, the forward decode — no entries, and every finite cursor program over the decoded
    block shows `None` after every call (= the reference cursor over the empty sequence).  For every
    restart policy, interval 0 included (nothing is put, so no restart is ever taken). -/
theorem sealed_empty_block_cursor (o : Opts) (ops : List KOp) :
    ∃ blk d, Blk.new (build o []).seal = .ok blk ∧ blk.toDBlock = some d ∧ d.entries = []
      ∧ BlockCursor.run ⟨d, .first⟩ (ops.map KOp.toOp) = Ref.run ⟨([] : List KV), 0⟩ (ops.map KOp.toOp)
      ∧ BlockCursor.run ⟨d, .first⟩ (ops.map KOp.toOp) = ops.map (fun _ => none) := by
  obtain ⟨blk, h1, h2⟩ := toDBlock_seal o [] (by intro e he; cases he) (fits_empty o)
  refine ⟨blk, _, h1, h2, rfl, ?_, ?_⟩
  · exact (empty_block_cursor_refines _ .first 0 _).1
  · rw [run_empty _ _ rfl, List.map_map]; rfl

end Blue.Block

#print axioms Blue.BlockCursor.empty_block_cursor_refines
#print axioms Blue.Block.sealed_empty_block_cursor
