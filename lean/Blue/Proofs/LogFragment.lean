import Blue.Proofs.LogFrameDamage
import Blue.Proofs.ProtoUnknown
/-! **C09 (log), the discriminant at the level of entries.**

The discriminant of a frame header is outside the checksum (`disc_outside_checksum_example`): a
`FIRST` frame whose discriminant reads `WHOLE` is handed out by the frame reader as a batch of its
own — the first fragment of the genuine batch — before the orphaned `SECOND` frame is an error.
`LogIterator::next` hands out *entries*, decoded from the batch buffer one by one.  Here: the entry
decoders are monotone in prefixes of the buffer, so what is decoded from the fragment is a prefix
of what is decoded from the genuine batch; the iterator delivers a prefix of the genuine entries and
then an error, and the replay fails.

* `decVarint_take`, `decTag_take`, `decBytes_take`, `decEntry_take` (and the `_append` forms);
* `batchEntries_fuel`, `batchEntries_prefix`, `batchEntries_take`;
* `log_first_as_whole_fragment`, `log_first_as_whole_fragment_exact` (batches), `log_first_as_whole_entries_prefix` (entries, replay);
* `log_whole_not_whole_at_eof_detected`: the last append's `WHOLE` frame read as `FIRST` (or as
  anything but `WHOLE`). -/

/-! ### 1. the decoders read a prefix the same way -/
namespace Blue.Wire
open Blue.ProtoMsg

theorem decVarint_rest_lt (bs : List Nat) (v : Nat) (r : List Nat) (h : decVarint bs = some (v, r)) :
    r.length < bs.length := by
  obtain ⟨p, hp, hne⟩ := decVarint_suffix bs v r h
  have := List.length_pos_iff.mpr hne
  rw [hp, List.length_append]
  omega

theorem take_of_append (r' t : List Nat) : ∃ k, r' = (r' ++ t).take k :=
  ⟨r'.length, List.take_left.symm⟩

theorem decVarint_take (bs : List Nat) (n v : Nat) (r' : List Nat) (h : decVarint (bs.take n) = some (v, r')) :
    ∃ r, decVarint bs = some (v, r) ∧ ∃ k, r' = r.take k := by
  have h1 := decVarint_append _ v r' (bs.drop n) h
  rw [List.take_append_drop] at h1
  exact ⟨_, h1, take_of_append r' _⟩

theorem decTag_append (bs : List Nat) (tag : Tag) (r x : List Nat) (h : decTag bs = some (tag, r)) :
    decTag (bs ++ x) = some (tag, r ++ x) := by
  unfold decTag at h ⊢
  cases hv : decVarint bs with
  | none => rw [hv] at h; cases h
  | some vr =>
    obtain ⟨v, rest⟩ := vr
    rw [hv] at h
    rw [decVarint_append bs v rest x hv]
    simp only at h ⊢
    by_cases h1 : v > U32MAX
    · rw [if_pos h1] at h; cases h
    · rw [if_neg h1] at h ⊢
      by_cases h2 : (!validFieldNumber (v / 8)) = true
      · rw [if_pos h2] at h; cases h
      · rw [if_neg h2] at h ⊢
        cases hw : WT.ofBits (v % 8) with
        | none => rw [hw] at h; cases h
        | some wt =>
          rw [hw] at h
          simp only [Option.some.injEq, Prod.mk.injEq] at h ⊢
          exact ⟨h.1, by rw [h.2]⟩

theorem decTag_rest_lt (bs : List Nat) (tag : Tag) (r : List Nat) (h : decTag bs = some (tag, r)) :
    r.length < bs.length := by
  unfold decTag at h
  cases hv : decVarint bs with
  | none => rw [hv] at h; cases h
  | some vr =>
    obtain ⟨v, rest⟩ := vr
    rw [hv] at h
    simp only at h
    by_cases h1 : v > U32MAX
    · rw [if_pos h1] at h; cases h
    · rw [if_neg h1] at h
      by_cases h2 : (!validFieldNumber (v / 8)) = true
      · rw [if_pos h2] at h; cases h
      · rw [if_neg h2] at h
        cases hw : WT.ofBits (v % 8) with
        | none => rw [hw] at h; cases h
        | some wt =>
          rw [hw] at h
          simp only [Option.some.injEq, Prod.mk.injEq] at h
          rw [← h.2]
          exact decVarint_rest_lt bs v rest hv

theorem decTag_take (bs : List Nat) (n : Nat) (tag : Tag) (r' : List Nat)
    (h : decTag (bs.take n) = some (tag, r')) :
    ∃ r, decTag bs = some (tag, r) ∧ ∃ k, r' = r.take k := by
  have h1 := decTag_append _ tag r' (bs.drop n) h
  rw [List.take_append_drop] at h1
  exact ⟨_, h1, take_of_append r' _⟩

theorem decBytes_append (bs body r x : List Nat) (h : decBytes bs = some (body, r)) :
    decBytes (bs ++ x) = some (body, r ++ x) := by
  unfold decBytes at h ⊢
  cases hv : decVarint bs with
  | none => rw [hv] at h; cases h
  | some vr =>
    obtain ⟨n, rest⟩ := vr
    rw [hv] at h
    rw [decVarint_append bs n rest x hv]
    simp only at h ⊢
    by_cases h1 : rest.length < n
    · rw [if_pos h1] at h; cases h
    · rw [if_neg h1] at h
      rw [if_neg (by rw [List.length_append]; omega)]
      simp only [Option.some.injEq, Prod.mk.injEq] at h ⊢
      obtain ⟨hb, hr⟩ := h
      exact ⟨by rw [← hb, List.take_append_of_le_length (by omega)],
        by rw [← hr, List.drop_append_of_le_length (by omega)]⟩

theorem decBytes_rest_lt (bs body r : List Nat) (h : decBytes bs = some (body, r)) : r.length < bs.length := by
  unfold decBytes at h
  cases hv : decVarint bs with
  | none => rw [hv] at h; cases h
  | some vr =>
    obtain ⟨n, rest⟩ := vr
    rw [hv] at h
    simp only at h
    have hlt := decVarint_rest_lt bs n rest hv
    by_cases h1 : rest.length < n
    · rw [if_pos h1] at h; cases h
    · rw [if_neg h1] at h
      simp only [Option.some.injEq, Prod.mk.injEq] at h
      rw [← h.2, List.length_drop]
      omega

/-- the body is the same, the rest is a prefix of the rest -/
theorem decBytes_take (bs : List Nat) (n : Nat) (body r' : List Nat)
    (h : decBytes (bs.take n) = some (body, r')) :
    ∃ r, decBytes bs = some (body, r) ∧ ∃ k, r' = r.take k := by
  have h1 := decBytes_append _ body r' (bs.drop n) h
  rw [List.take_append_drop] at h1
  exact ⟨_, h1, take_of_append r' _⟩

end Blue.Wire

namespace Blue.EntryCodec
open Blue.Wire

theorem decEntry_append (bs : List Nat) (e : Entry) (r x : List Nat) (h : decEntry bs = some (e, r)) :
    decEntry (bs ++ x) = some (e, r ++ x) := by
  unfold decEntry at h ⊢
  cases ht : decTag bs with
  | none => rw [ht] at h; cases h
  | some tb =>
    obtain ⟨tag, buf⟩ := tb
    rw [ht] at h
    rw [decTag_append bs tag buf x ht]
    obtain ⟨num, wt⟩ := tag
    simp only at h ⊢
    split at h
    · cases hb : decBytes buf with
      | none => rw [hb] at h; cases h
      | some br =>
        obtain ⟨body, rest⟩ := br
        rw [hb] at h
        rw [decBytes_append buf body rest x hb]
        simp only at h ⊢
        cases hp : decPut body with
        | none => rw [hp] at h; cases h
        | some p =>
          rw [hp] at h
          simp only [Option.map_some, Option.some.injEq, Prod.mk.injEq] at h ⊢
          exact ⟨h.1, by rw [h.2]⟩
    · cases hb : decBytes buf with
      | none => rw [hb] at h; cases h
      | some br =>
        obtain ⟨body, rest⟩ := br
        rw [hb] at h
        rw [decBytes_append buf body rest x hb]
        simp only at h ⊢
        cases hp : decDel body with
        | none => rw [hp] at h; cases h
        | some p =>
          rw [hp] at h
          simp only [Option.map_some, Option.some.injEq, Prod.mk.injEq] at h ⊢
          exact ⟨h.1, by rw [h.2]⟩
    · cases h

theorem decEntry_rest_lt (bs : List Nat) (e : Entry) (r : List Nat) (h : decEntry bs = some (e, r)) :
    r.length < bs.length := by
  unfold decEntry at h
  cases ht : decTag bs with
  | none => rw [ht] at h; cases h
  | some tb =>
    obtain ⟨tag, buf⟩ := tb
    rw [ht] at h
    have hlt := decTag_rest_lt bs tag buf ht
    obtain ⟨num, wt⟩ := tag
    simp only at h
    split at h
    · cases hb : decBytes buf with
      | none => rw [hb] at h; cases h
      | some br =>
        obtain ⟨body, rest⟩ := br
        rw [hb] at h
        have := decBytes_rest_lt buf body rest hb
        simp only at h
        cases hp : decPut body with
        | none => rw [hp] at h; cases h
        | some p =>
          rw [hp] at h
          simp only [Option.map_some, Option.some.injEq, Prod.mk.injEq] at h
          rw [← h.2]; omega
    · cases hb : decBytes buf with
      | none => rw [hb] at h; cases h
      | some br =>
        obtain ⟨body, rest⟩ := br
        rw [hb] at h
        have := decBytes_rest_lt buf body rest hb
        simp only at h
        cases hp : decDel body with
        | none => rw [hp] at h; cases h
        | some p =>
          rw [hp] at h
          simp only [Option.map_some, Option.some.injEq, Prod.mk.injEq] at h
          rw [← h.2]; omega
    · cases h

/-- **an entry decoded from a prefix of the buffer is the entry decoded from the buffer** -/
theorem decEntry_take (bs : List Nat) (n : Nat) (e : Entry) (r' : List Nat)
    (h : decEntry (bs.take n) = some (e, r')) :
    ∃ r k, decEntry bs = some (e, r) ∧ r' = r.take k := by
  have h1 := decEntry_append _ e r' (bs.drop n) h
  rw [List.take_append_drop] at h1
  obtain ⟨k, hk⟩ := take_of_append r' (bs.drop n)
  exact ⟨_, k, h1, hk⟩

end Blue.EntryCodec

/-! ### 2. the entries of a fragment of a batch -/
namespace Blue.Damage
open Blue.Log Blue.EntryCodec Blue.Block

theorem batchEntries_succ (f : Nat) (bs : List Nat) :
    batchEntries (f + 1) bs =
      match decEntry bs with
      | none => ([], true)
      | some (.put p, rest) =>
        if p.shared ≠ 0 then ([], true)
        else if rest.isEmpty then ([⟨p.keyFrag, p.timestamp, some p.value⟩], false)
        else ((⟨p.keyFrag, p.timestamp, some p.value⟩ : KV) :: (batchEntries f rest).1, (batchEntries f rest).2)
      | some (.del d, rest) =>
        if d.shared ≠ 0 then ([], true)
        else if rest.isEmpty then ([⟨d.keyFrag, d.timestamp, none⟩], false)
        else ((⟨d.keyFrag, d.timestamp, none⟩ : KV) :: (batchEntries f rest).1, (batchEntries f rest).2) := rfl

/-- above `length + 1` the fuel of `batchEntries` does not matter: every entry takes a byte -/
theorem batchEntries_fuel : ∀ (F F' : Nat) (bs : List Nat), bs.length < F → bs.length < F' →
    batchEntries F bs = batchEntries F' bs := by
  intro F
  induction F with
  | zero => intro F' bs h; omega
  | succ f ih =>
    intro F' bs h h'
    cases F' with
    | zero => omega
    | succ f' =>
      rw [batchEntries_succ, batchEntries_succ]
      cases hd : decEntry bs with
      | none => rfl
      | some er =>
        obtain ⟨e, r⟩ := er
        have hlt := decEntry_rest_lt bs e r hd
        have hih := ih f' r (by omega) (by omega)
        cases e with
        | put p => simp only [hih]
        | del dl => simp only [hih]

/-- **the entries decoded from a prefix of a batch buffer are a prefix of the entries decoded from
    the buffer** (whatever the fuel on the prefix; enough fuel on the buffer) -/
theorem batchEntries_prefix : ∀ (F F' : Nat) (b' t : List Nat), (b' ++ t).length < F' →
    ∃ more, (batchEntries F' (b' ++ t)).1 = (batchEntries F b').1 ++ more := by
  intro F
  induction F with
  | zero => intro F' b' t _; exact ⟨_, rfl⟩
  | succ f ih =>
    intro F' b' t hlen
    cases F' with
    | zero => omega
    | succ f' =>
      rw [batchEntries_succ, batchEntries_succ]
      cases hd : decEntry b' with
      | none => exact ⟨_, rfl⟩
      | some er =>
        obtain ⟨e, r'⟩ := er
        have hlt := decEntry_rest_lt b' e r' hd
        rw [decEntry_append b' e r' t hd]
        have hl2 : (r' ++ t).length < f' := by
          rw [List.length_append] at hlen ⊢; omega
        obtain ⟨more, hm⟩ := ih f' r' t hl2
        cases e with
        | put p =>
          simp only
          by_cases hs : p.shared ≠ 0
          · rw [if_pos hs, if_pos hs]; exact ⟨[], rfl⟩
          · rw [if_neg hs, if_neg hs]
            cases r' with
            | nil =>
              simp only [List.isEmpty_nil, if_true, List.nil_append]
              by_cases ht : t.isEmpty = true
              · rw [if_pos ht]; exact ⟨[], rfl⟩
              · rw [if_neg ht]; exact ⟨_, rfl⟩
            | cons y ys =>
              simp only [List.cons_append, List.isEmpty_cons, Bool.false_eq_true, if_false]
              simp only [List.cons_append] at hm
              rw [hm]
              exact ⟨more, rfl⟩
        | del dl =>
          simp only
          by_cases hs : dl.shared ≠ 0
          · rw [if_pos hs, if_pos hs]; exact ⟨[], rfl⟩
          · rw [if_neg hs, if_neg hs]
            cases r' with
            | nil =>
              simp only [List.isEmpty_nil, if_true, List.nil_append]
              by_cases ht : t.isEmpty = true
              · rw [if_pos ht]; exact ⟨[], rfl⟩
              · rw [if_neg ht]; exact ⟨_, rfl⟩
            | cons y ys =>
              simp only [List.cons_append, List.isEmpty_cons, Bool.false_eq_true, if_false]
              simp only [List.cons_append] at hm
              rw [hm]
              exact ⟨more, rfl⟩

/-- the same for `b.take n` -/
theorem batchEntries_take (b : List Nat) (n F F' : Nat) (hF' : b.length < F') :
    ∃ more, (batchEntries F' b).1 = (batchEntries F (b.take n)).1 ++ more := by
  have h := batchEntries_prefix F F' (b.take n) (b.drop n) (by rw [List.take_append_drop]; exact hF')
  rw [List.take_append_drop] at h
  exact h

theorem deliver_cons (b : List Nat) (bs : List (List Nat)) (e : Bool) :
    deliver (b :: bs) e =
      if (batchEntries (b.length + 1) b).2 then ((batchEntries (b.length + 1) b).1, true)
      else ((batchEntries (b.length + 1) b).1 ++ (deliver bs e).1, (deliver bs e).2) := rfl

/-- batches that decode cleanly are delivered in full, and the rest after them -/
theorem deliver_append_clean : ∀ (xs ys : List (List Nat)) (e : Bool),
    (∀ x ∈ xs, (batchEntries (x.length + 1) x).2 = false) →
    deliver (xs ++ ys) e = ((deliver xs false).1 ++ (deliver ys e).1, (deliver ys e).2)
  | [], ys, e, _ => by simp [deliver]
  | x :: xs, ys, e, h => by
    have hx := h x (List.mem_cons_self ..)
    have ih := deliver_append_clean xs ys e (fun y hy => h y (List.mem_cons_of_mem _ hy))
    rw [List.cons_append, deliver_cons, deliver_cons, hx, ih]
    simp only [Bool.false_eq_true, if_false, List.append_assoc]

/-- one batch, then the reader's error: the entries decoded from the batch -/
theorem deliver_single_err (x : List Nat) :
    deliver [x] true = ((batchEntries (x.length + 1) x).1, true) := by
  rw [deliver_cons]
  cases (batchEntries (x.length + 1) x).2 with
  | true => rfl
  | false => simp [deliver]

theorem replay_of_drain_err (P : Params) (d : List Nat) (h : (drain P d).2 = true) :
    logToBuilder P d = .readerError ∧ logToSetsumOk P d = false := by
  constructor
  · unfold logToBuilder replayOf
    rw [h, if_pos rfl]
  · unfold logToSetsumOk
    rw [h]
    rfl

end Blue.Damage

/-! ### 3. a `FIRST` frame read as `WHOLE` -/
namespace Blue.Log
open Blue.Damage
variable {P : Params}

theorem gap_padGeom {e t : Nat} (h : GapGeom P e t) : PadGeom P e t := by
  obtain ⟨ht, hle, hH⟩ := h
  by_cases heq : e = t
  · exact .inl heq
  · right
    unfold trueUp at ht
    by_cases hm : e % P.B = 0
    · rw [if_pos hm] at ht; exact absurd ht heq
    · rw [if_neg hm] at ht
      unfold nextBoundary at ht
      refine ⟨e / P.B, ?_, Nat.div_mul_le_self e P.B, by omega, hH⟩
      rw [← ht, Nat.add_mul, Nat.one_mul]

/-- the batches before an offset are read from intact bytes, then the reader goes on there -/
theorem readSome_prefix_then (g : Good P) (d : List Nat) :
    ∀ (bufs : List (List Nat)) (pre : List Nat),
      (∀ b ∈ bufs, b.length ≤ P.tableFull) →
      d.take (pre.length + (writeAll P bufs pre.length).length) = pre ++ writeAll P bufs pre.length →
      ∀ n, readSome P d (bufs.length + n) pre.length
        = (bufs ++ (readSome P d n (pre.length + (writeAll P bufs pre.length).length)).1,
           (readSome P d n (pre.length + (writeAll P bufs pre.length).length)).2) := by
  have hB : 0 < P.B := by have := g.hB; omega
  intro bufs
  induction bufs with
  | nil =>
    intro pre _ _ n
    simp only [writeAll, List.length_nil, Nat.add_zero, Nat.zero_add, List.nil_append]
  | cons x xs ih =>
    intro pre hsz hd n
    simp only [writeAll] at hd ⊢
    generalize hA : appendAt P 2 pre.length x = A at *
    generalize hW : writeAll P xs (pre.length + A.length) = W at *
    have hread := append_read_any g pre x W (hsz x (List.mem_cons_self ..))
    rw [hA] at hread
    have hsame : (pre ++ A ++ W).take (pre.length + (A ++ W).length)
        = d.take (pre.length + (A ++ W).length) := by
      rw [hd, List.take_of_length_le (by simp only [List.length_append]; omega)]
      simp only [List.append_assoc]
    have hread' := reads_agree_before_damage hB _ d _ hsame 2 pre.length _ hread
      (by simp only [List.length_append]; omega)
    rw [show (x :: xs).length + n = (xs.length + n) + 1 by simp only [List.length_cons]; omega,
      readSome_succ, hread']
    simp only
    have hlen : (pre ++ A).length = pre.length + A.length := List.length_append
    have := ih (pre ++ A) (fun b hb => hsz b (List.mem_cons_of_mem _ hb))
      (by rw [hlen, hW]; simpa only [List.length_append, Nat.add_assoc, List.append_assoc] using hd) n
    rw [hlen, hW] at this
    rw [this]
    simp only [List.length_append, Nat.add_assoc, List.cons_append]

/-- one append: the reader's view of the damaged `FIRST` header is a header with discriminant
    `WHOLE` that names the payload bytes and their checksum — the first fragment is delivered as a
    batch, and the read that follows (over the padding, at the orphaned `SECOND` frame) is an error -/
theorem core_first_as_whole_pass (g : Good P) (F d : List Nat) (hlen : d.length = F.length) (pos s s2 : Nat)
    (p1 p2 : List Nat) (hgeo : PadGeom P pos s) (hz : ZeroRun F pos s) (hF1 : FrameAt P F s FIRST p1)
    (hsz1 : p1.length ≤ P.tableFull) (hgap : GapGeom P (s + (frame P FIRST p1).length) s2)
    (hzg : ZeroRun F (s + (frame P FIRST p1).length) s2) (hF2 : FrameAt P F s2 SECOND p2)
    (hsz2 : p2.length ≤ P.tableFull)
    (hag : ∀ i, i < s ∨ payOff P s FIRST p1 ≤ i → d[i]? = F[i]?)
    (h' : Hdr) (hv : nextHeader P d 2 s = .ok (h', payOff P s FIRST p1))
    (hsize : h'.size = p1.length) (hcrc' : h'.crc = P.crc p1) (hWd : h'.disc = WHOLE) :
    nextBatch P d 2 pos = .ok (p1, s + (frame P FIRST p1).length)
      ∧ nextBatch P d 2 (s + (frame P FIRST p1).length) = .err := by
  have hB : 0 < P.B := by have := g.hB; omega
  have hzd : ZeroRun d pos s := hz.agree d (fun i _ h2 => hag i (.inl h2))
  have hskip := skip_lead g d pos s hgeo hzd
  obtain ⟨_, hsl, hbound, hend⟩ := hF1.facts g hsz1 (by decide) 1
  have hsd : slice d (payOff P s FIRST p1) h'.size = p1 := by
    rw [hsize, slice_agree d F _ p1.length (fun i h1 _ => hag i (.inr h1)), hsl]
  have hf := nextFrame_of_header_ok d 2 pos h' _ (by rw [hskip]; exact hv) (by omega)
    (by rw [hsd, hcrc'])
  rw [hsd, hsize, hend] at hf
  refine ⟨nextBatch_whole d 2 pos h' p1 _ hf hWd, ?_⟩
  -- after the fragment: the writer's zeros up to the boundary, then a `SECOND` frame
  rw [nextBatch_suffix_agree hB d F hlen (payOff P s FIRST p1) (fun i hi => hag i (.inr hi)) 2 _
    (by omega)]
  have hsk := skip_lead g F _ s2 (gap_padGeom hgap) hzg
  have hf2 := hF2.read g hsz2 (by decide) 1
  rw [← nextFrame_of_header F 2 2 _ s2 hsk] at hf2
  exact nextBatch_other F 2 _ _ p2 _ hf2 (show SECOND ≠ WHOLE by decide) (show SECOND ≠ FIRST by decide)

/-- one append: the reader's view of the damaged `FIRST` header has discriminant `WHOLE`.  An error
    at once — or the first fragment is delivered as a batch, and the read that follows (over the
    padding, at the orphaned `SECOND` frame) is an error -/
theorem core_first_as_whole (g : Good P) (F d : List Nat) (hlen : d.length = F.length) (pos s s2 : Nat)
    (p1 p2 : List Nat) (hgeo : PadGeom P pos s) (hz : ZeroRun F pos s) (hF1 : FrameAt P F s FIRST p1)
    (hsz1 : p1.length ≤ P.tableFull) (hgap : GapGeom P (s + (frame P FIRST p1).length) s2)
    (hzg : ZeroRun F (s + (frame P FIRST p1).length) s2) (hF2 : FrameAt P F s2 SECOND p2)
    (hsz2 : p2.length ≤ P.tableFull)
    (hag : ∀ i, i < s ∨ payOff P s FIRST p1 ≤ i → d[i]? = F[i]?)
    (hnc : ∀ h' o', nextHeader P d 2 s = .ok (h', o') → o' + h'.size ≤ d.length →
      (o' = payOff P s FIRST p1 ∧ h'.size = p1.length ∧ h'.crc = P.crc p1)
        ∨ P.crc (slice d o' h'.size) ≠ h'.crc)
    (hne : nextHeader P d 2 s ≠ .eof)
    (hW : ∀ h' o', nextHeader P d 2 s = .ok (h', o') → h'.disc = WHOLE) :
    nextBatch P d 2 pos = .err
      ∨ (nextBatch P d 2 pos = .ok (p1, s + (frame P FIRST p1).length)
          ∧ nextBatch P d 2 (s + (frame P FIRST p1).length) = .err) := by
  have hB : 0 < P.B := by have := g.hB; omega
  have hzd : ZeroRun d pos s := hz.agree d (fun i _ h2 => hag i (.inl h2))
  have hskip := skip_lead g d pos s hgeo hzd
  obtain ⟨_, hsl, hbound, hend⟩ := hF1.facts g hsz1 (by decide) 1
  rcases hv : nextHeader P d 2 s with ⟨h', o'⟩ | _ | _
  · by_cases hl : o' + h'.size > d.length
    · left
      exact nextBatch_of_frame_err d 2 pos (nextFrame_too_long d 2 pos h' o' (by rw [hskip]; exact hv) hl)
    · rcases hnc h' o' hv (by omega) with ⟨ho, hsize, hcrc'⟩ | hbad
      · right
        subst ho
        exact core_first_as_whole_pass g F d hlen pos s s2 p1 p2 hgeo hz hF1 hsz1 hgap hzg hF2 hsz2 hag h' hv
          hsize hcrc' (hW h' _ hv)
      · left
        exact nextBatch_of_frame_err d 2 pos (crc_mismatch_is_error d 2 pos h' o' (by rw [hskip]; exact hv) hbad)
  · exact absurd hv hne
  · left
    exact nextBatch_of_header_err d 2 pos (by rw [hskip]; exact hv)

/-- **C09 (log): a `FIRST` frame whose discriminant reads `WHOLE`, at the level of batches.**  The
    setting of `log_header_damage_detected` for a `FIRST` frame, with the case `hdisc` excludes:
    whatever header the reader sees there has discriminant `WHOLE`.  The damage is detected at
    once, or the reader delivers the batches before, then the first fragment `b.take n` of the
    damaged append's batch as a batch, then an error (the `SECOND` frame is orphaned: a batch
    cannot start with it). -/
theorem log_first_as_whole_fragment (g : Good P) (bufs1 : List (List Nat)) (b : List Nat)
    (bufs2 : List (List Nat)) (hsz : ∀ x ∈ bufs1, x.length ≤ P.tableFull) (hb : b.length ≤ P.tableFull)
    (d : List Nat) (hlen : d.length = (writeAll P (bufs1 ++ b :: bufs2) 0).length)
    (s : Nat) (p : List Nat)
    (hmem : (s, FIRST, p) ∈ framesOf P 2 (writeAll P bufs1 0).length b)
    (hag : ∀ i, i < s ∨ payOff P s FIRST p ≤ i → d[i]? = (writeAll P (bufs1 ++ b :: bufs2) 0)[i]?)
    (hnc : ∀ h' o', nextHeader P d 2 s = .ok (h', o') → o' + h'.size ≤ d.length →
      (o' = payOff P s FIRST p ∧ h'.size = p.length ∧ h'.crc = P.crc p) ∨ P.crc (slice d o' h'.size) ≠ h'.crc)
    (hne : nextHeader P d 2 s ≠ .eof)
    (hW : ∀ h' o', nextHeader P d 2 s = .ok (h', o') → h'.disc = WHOLE) :
    ∃ n, p = b.take n ∧
      ((∀ k, readSome P d (bufs1.length + 1 + k) 0 = (bufs1, true))
        ∨ (∀ k, readSome P d (bufs1.length + 2 + k) 0 = (bufs1 ++ [b.take n], true))) := by
  rw [file_split] at hag hlen
  generalize hpre : writeAll P bufs1 0 = pre at *
  generalize writeAll P bufs2 (pre.length + (appendAt P 2 pre.length b).length) = suf at *
  obtain ⟨s0, hgeo, hz, hlay⟩ := append_layout g pre b suf hb
  have hs0 := padGeom_le hgeo
  cases hlay with
  | whole hfr hF =>
    rw [hfr] at hmem
    simp only [List.mem_singleton, Prod.mk.injEq] at hmem
    exact absurd hmem.2.1 (by decide)
  | split fb s2 hfr hF1 hgap hzg hF2 =>
    rw [hfr] at hmem
    simp only [List.mem_cons, Prod.mk.injEq, List.not_mem_nil, or_false] at hmem
    rcases hmem with ⟨rfl, -, rfl⟩ | ⟨-, h2, -⟩
    · refine ⟨fb, rfl, ?_⟩
      have core := core_first_as_whole g _ d hlen pre.length s s2 (b.take fb) (b.drop fb) hgeo hz hF1
        (take_size_le b fb _ hb) hgap hzg hF2 (drop_size_le b fb _ hb) hag hnc hne hW
      subst hpre
      have hpreag : ∀ i, i < (writeAll P bufs1 0).length →
          d[i]? = (writeAll P bufs1 0 ++ (appendAt P 2 (writeAll P bufs1 0).length b ++ suf))[i]? := by
        intro i hi
        rw [hag i (.inl (by omega)), List.append_assoc]
      rcases core with herr | ⟨hok, herr2⟩
      · left
        intro k
        exact detected_of_err g bufs1 hsz d _ hpreag herr k
      · right
        intro k
        have h := readSome_prefix_then g d bufs1 [] hsz
        simp only [List.length_nil, Nat.zero_add, List.nil_append] at h
        have htake : d.take (writeAll P bufs1 0).length = writeAll P bufs1 0 := by
          rw [agree_take d _ _ hpreag, List.take_left]
        rw [show bufs1.length + 2 + k = bufs1.length + (k + 1 + 1) by omega, h htake (k + 1 + 1),
          readSome_succ, hok]
        simp only
        rw [readSome_succ, herr2]
    · exact absurd h2 (by decide)

/-- the same with the reader's view given: a header with discriminant `WHOLE` that names the payload
    bytes and their checksum (what overwriting only the discriminant produces).  No alternative:
    the fragment is delivered as a batch, then the error. -/
theorem log_first_as_whole_fragment_exact (g : Good P) (bufs1 : List (List Nat)) (b : List Nat)
    (bufs2 : List (List Nat)) (hsz : ∀ x ∈ bufs1, x.length ≤ P.tableFull) (hb : b.length ≤ P.tableFull)
    (d : List Nat) (hlen : d.length = (writeAll P (bufs1 ++ b :: bufs2) 0).length)
    (s : Nat) (p : List Nat)
    (hmem : (s, FIRST, p) ∈ framesOf P 2 (writeAll P bufs1 0).length b)
    (hag : ∀ i, i < s ∨ payOff P s FIRST p ≤ i → d[i]? = (writeAll P (bufs1 ++ b :: bufs2) 0)[i]?)
    (h' : Hdr) (hv : nextHeader P d 2 s = .ok (h', payOff P s FIRST p))
    (hsize : h'.size = p.length) (hcrc' : h'.crc = P.crc p) (hWd : h'.disc = WHOLE) :
    ∃ n, p = b.take n ∧ ∀ k, readSome P d (bufs1.length + 2 + k) 0 = (bufs1 ++ [b.take n], true) := by
  have hnc : ∀ h'' o', nextHeader P d 2 s = .ok (h'', o') → o' + h''.size ≤ d.length →
      (o' = payOff P s FIRST p ∧ h''.size = p.length ∧ h''.crc = P.crc p)
        ∨ P.crc (slice d o' h''.size) ≠ h''.crc := by
    intro h'' o' hv' _
    rw [hv] at hv'
    cases hv'
    exact .inl ⟨rfl, hsize, hcrc'⟩
  have hne : nextHeader P d 2 s ≠ .eof := by rw [hv]; intro h; cases h
  have hW : ∀ h'' o', nextHeader P d 2 s = .ok (h'', o') → h''.disc = WHOLE := by
    intro h'' o' hv'
    rw [hv] at hv'
    cases hv'
    exact hWd
  obtain ⟨n, hp, hcases⟩ := log_first_as_whole_fragment g bufs1 b bufs2 hsz hb d hlen s p hmem hag hnc hne hW
  refine ⟨n, hp, ?_⟩
  rcases hcases with h | h
  · -- not detected at once: the fragment read succeeds, so the first alternative is impossible
    exfalso
    rw [file_split] at hag hlen
    generalize hpre : writeAll P bufs1 0 = pre at *
    generalize writeAll P bufs2 (pre.length + (appendAt P 2 pre.length b).length) = suf at *
    obtain ⟨s0, hgeo, hz, hlay⟩ := append_layout g pre b suf hb
    have hs0 := padGeom_le hgeo
    cases hlay with
    | whole hfr hF =>
      rw [hfr] at hmem
      simp only [List.mem_singleton, Prod.mk.injEq] at hmem
      exact absurd hmem.2.1 (by decide)
    | split fb s2 hfr hF1 hgap hzg hF2 =>
      rw [hfr] at hmem
      simp only [List.mem_cons, Prod.mk.injEq, List.not_mem_nil, or_false] at hmem
      rcases hmem with ⟨rfl, -, rfl⟩ | ⟨-, h2, -⟩
      · obtain ⟨hok, _⟩ := core_first_as_whole_pass g _ d hlen pre.length s s2 (b.take fb) (b.drop fb) hgeo hz
          hF1 (take_size_le b fb _ hb) hgap hzg hF2 (drop_size_le b fb _ hb) hag h' hv hsize hcrc' hWd
        subst hpre
        have hr := readSome_prefix_then g d bufs1 [] hsz
        simp only [List.length_nil, Nat.zero_add, List.nil_append] at hr
        have htake : d.take (writeAll P bufs1 0).length = writeAll P bufs1 0 := by
          rw [agree_take d (writeAll P bufs1 0 ++ (appendAt P 2 (writeAll P bufs1 0).length b ++ suf)) _
            (fun i hi => by rw [hag i (.inl (by omega)), List.append_assoc]), List.take_left]
        have h1 := h 0
        rw [show bufs1.length + 1 + 0 = bufs1.length + (0 + 1) by omega, hr htake (0 + 1), readSome_succ, hok] at h1
        simp only [Prod.mk.injEq] at h1
        have := congrArg List.length h1.1
        simp only [List.length_append, List.length_cons] at this
        omega
      · exact absurd h2 (by decide)
  · exact h

/-- **C09 (log): the same at the level of entries.**  `LogIterator` hands out entries, decoded from
    each batch buffer one by one.  If the batches up to and including the damaged append's decode
    cleanly, then from `d` it delivers a *prefix of the genuine entries* — those of the batches
    before, and those decoded from the fragment, which are the first entries of the genuine batch —
    and then an error; `log_to_builder` and `log_to_setsum` fail. -/
theorem log_first_as_whole_entries_prefix (g : Good P) (bufs1 : List (List Nat)) (b : List Nat)
    (bufs2 : List (List Nat)) (hsz : ∀ x ∈ bufs1, x.length ≤ P.tableFull) (hb : b.length ≤ P.tableFull)
    (d : List Nat) (hlen : d.length = (writeAll P (bufs1 ++ b :: bufs2) 0).length)
    (s : Nat) (p : List Nat)
    (hmem : (s, FIRST, p) ∈ framesOf P 2 (writeAll P bufs1 0).length b)
    (hag : ∀ i, i < s ∨ payOff P s FIRST p ≤ i → d[i]? = (writeAll P (bufs1 ++ b :: bufs2) 0)[i]?)
    (hnc : ∀ h' o', nextHeader P d 2 s = .ok (h', o') → o' + h'.size ≤ d.length →
      (o' = payOff P s FIRST p ∧ h'.size = p.length ∧ h'.crc = P.crc p) ∨ P.crc (slice d o' h'.size) ≠ h'.crc)
    (hne : nextHeader P d 2 s ≠ .eof)
    (hW : ∀ h' o', nextHeader P d 2 s = .ok (h', o') → h'.disc = WHOLE)
    (hclean : ∀ x ∈ bufs1 ++ [b], (batchEntries (x.length + 1) x).2 = false) :
    (drain P d).2 = true
    ∧ (∃ more, (deliver (bufs1 ++ [b]) false).1 = (drain P d).1 ++ more)
    ∧ logToBuilder P d = .readerError ∧ logToSetsumOk P d = false := by
  have hB : 0 < P.B := by have := g.hB; omega
  obtain ⟨n, _, hcases⟩ := log_first_as_whole_fragment g bufs1 b bufs2 hsz hb d hlen s p hmem hag hnc hne hW
  have hclean1 : ∀ x ∈ bufs1, (batchEntries (x.length + 1) x).2 = false :=
    fun x hx => hclean x (List.mem_append_left _ hx)
  have hcleanb : (batchEntries (b.length + 1) b).2 = false := hclean b (by simp)
  have hgen : (deliver (bufs1 ++ [b]) false).1 = (deliver bufs1 false).1 ++ (batchEntries (b.length + 1) b).1 := by
    rw [deliver_append_clean bufs1 [b] false hclean1, deliver_cons, hcleanb]
    simp [deliver]
  have hl := writeAll_length_ge P hB (bufs1 ++ b :: bufs2) 0
  simp only [List.length_append, List.length_cons] at hl
  have key : (drain P d).2 = true ∧ ∃ more, (deliver (bufs1 ++ [b]) false).1 = (drain P d).1 ++ more := by
    rcases hcases with h | h
    · have hdr := (log_damage_replay_fails g bufs1 b bufs2 d hlen h).1
      have h0 := deliver_append_clean bufs1 [] true hclean1
      rw [List.append_nil] at h0
      rw [hdr, h0, hgen]
      exact ⟨rfl, (batchEntries (b.length + 1) b).1, by simp [deliver]⟩
    · have hdr : drain P d = deliver (bufs1 ++ [b.take n]) true := by
        unfold drain
        obtain ⟨k, hk⟩ : ∃ k, d.length + 2 = bufs1.length + 2 + k := ⟨d.length - bufs1.length, by omega⟩
        rw [hk, h k]
      obtain ⟨more, hm⟩ := batchEntries_take b n ((b.take n).length + 1) (b.length + 1) (by omega)
      rw [hdr, deliver_append_clean bufs1 [b.take n] true hclean1, deliver_single_err, hgen, hm]
      exact ⟨rfl, more, by simp only [List.append_assoc]⟩
  exact ⟨key.1, key.2, replay_of_drain_err P d key.1⟩

/-! ### 4. a `WHOLE` frame not read as `WHOLE`, at the end of the log -/

/-- a `FIRST` frame that ends where the file ends: there is no `SECOND` frame, an error -/
theorem nextBatch_first_at_eof (hB : 0 < P.B) (d : List Nat) (fuel off : Nat) (h1 : Hdr) (p1 : List Nat)
    (e1 : Nat) (hf : nextFrame P d fuel off = .ok (h1, p1, e1)) (hd : h1.disc = FIRST)
    (hend : d.length ≤ e1) : nextBatch P d fuel off = .err := by
  unfold nextBatch
  rw [hf]
  simp only
  rw [if_neg (by rw [hd]; decide), if_pos hd]
  by_cases ht : trueUp P e1 - e1 > P.H
  · rw [if_pos ht]
  · rw [if_neg ht]
    cases padZero d e1 (trueUp P e1) with
    | false => simp
    | true =>
      simp only [Bool.not_true, Bool.false_eq_true, if_false]
      cases hf2 : nextFrame P d fuel (trueUp P e1) with
      | eof => rfl
      | err => rfl
      | ok r =>
        have h1 := (nextFrame_ok_bounds d fuel _ r hf2).1
        have h2 := trueUp_ge hB e1
        omega

theorem core_whole_not_whole_eof (g : Good P) (F d : List Nat) (hlen : d.length = F.length) (pos s : Nat)
    (p : List Nat) (hgeo : PadGeom P pos s) (hz : ZeroRun F pos s) (hF : FrameAt P F s WHOLE p)
    (hsz : p.length ≤ P.tableFull) (hend : F.length ≤ s + (frame P WHOLE p).length)
    (hag : ∀ i, i < s ∨ payOff P s WHOLE p ≤ i → d[i]? = F[i]?)
    (hnc : ∀ h' o', nextHeader P d 2 s = .ok (h', o') → o' + h'.size ≤ d.length →
      (o' = payOff P s WHOLE p ∧ h'.size = p.length ∧ h'.crc = P.crc p) ∨ P.crc (slice d o' h'.size) ≠ h'.crc)
    (hne : nextHeader P d 2 s ≠ .eof)
    (hchg : ∀ h' o', nextHeader P d 2 s = .ok (h', o') → h'.disc ≠ WHOLE) :
    nextBatch P d 2 pos = .err := by
  have hB : 0 < P.B := by have := g.hB; omega
  have hzd : ZeroRun d pos s := hz.agree d (fun i _ h2 => hag i (.inl h2))
  have hskip := skip_lead g d pos s hgeo hzd
  obtain ⟨_, hsl, hbound, hend'⟩ := hF.facts g hsz (by decide) 1
  rcases hv : nextHeader P d 2 s with ⟨h', o'⟩ | _ | _
  · by_cases hl : o' + h'.size > d.length
    · exact nextBatch_of_frame_err d 2 pos (nextFrame_too_long d 2 pos h' o' (by rw [hskip]; exact hv) hl)
    · rcases hnc h' o' hv (by omega) with ⟨ho, hsize, hcrc'⟩ | hbad
      · have hsd : slice d o' h'.size = p := by
          rw [ho, hsize, slice_agree d F _ p.length (fun i h1 _ => hag i (.inr h1)), hsl]
        have hf := nextFrame_of_header_ok d 2 pos h' o' (by rw [hskip]; exact hv) (by omega)
          (by rw [hsd, hcrc'])
        by_cases hfst : h'.disc = FIRST
        · exact nextBatch_first_at_eof hB d 2 pos h' _ _ hf hfst (by rw [ho, hsize]; omega)
        · exact nextBatch_other d 2 pos h' _ _ hf (hchg h' o' hv) hfst
      · exact nextBatch_of_frame_err d 2 pos (crc_mismatch_is_error d 2 pos h' o' (by rw [hskip]; exact hv) hbad)
  · exact absurd hv hne
  · exact nextBatch_of_header_err d 2 pos (by rw [hskip]; exact hv)

/-- **the last append's `WHOLE` frame read as `FIRST`** (or with any discriminant but `WHOLE`): the
    reader waits for a `SECOND` frame that the file does not have — an error, nothing of the batch
    is delivered.  (Only for the last append of the log: in the middle of a log the read goes on
    into the next append, whose layout this file does not follow.) -/
theorem log_whole_not_whole_at_eof_detected (g : Good P) (bufs1 : List (List Nat)) (b : List Nat)
    (hsz : ∀ x ∈ bufs1, x.length ≤ P.tableFull) (hb : b.length ≤ P.tableFull)
    (d : List Nat) (hlen : d.length = (writeAll P (bufs1 ++ [b]) 0).length)
    (s : Nat) (p : List Nat)
    (hmem : (s, WHOLE, p) ∈ framesOf P 2 (writeAll P bufs1 0).length b)
    (hag : ∀ i, i < s ∨ payOff P s WHOLE p ≤ i → d[i]? = (writeAll P (bufs1 ++ [b]) 0)[i]?)
    (hnc : ∀ h' o', nextHeader P d 2 s = .ok (h', o') → o' + h'.size ≤ d.length →
      (o' = payOff P s WHOLE p ∧ h'.size = p.length ∧ h'.crc = P.crc p) ∨ P.crc (slice d o' h'.size) ≠ h'.crc)
    (hne : nextHeader P d 2 s ≠ .eof)
    (hchg : ∀ h' o', nextHeader P d 2 s = .ok (h', o') → h'.disc ≠ WHOLE) (k : Nat) :
    readSome P d (bufs1.length + 1 + k) 0 = (bufs1, true) := by
  rw [file_split] at hag hlen
  simp only [writeAll, List.append_nil] at hag hlen
  generalize hpre : writeAll P bufs1 0 = pre at *
  obtain ⟨s0, hgeo, hz, hlay⟩ := append_layout g pre b [] hb
  simp only [List.append_nil] at hz hlay
  have hs0 := padGeom_le hgeo
  cases hlay with
  | whole hfr hF =>
    rw [hfr] at hmem
    simp only [List.mem_singleton, Prod.mk.injEq] at hmem
    obtain ⟨rfl, -, rfl⟩ := hmem
    -- the frame ends where the file ends
    have hread := append_read_any g pre p [] hb
    simp only [List.append_nil] at hread
    have hw := nextBatch_whole _ 2 pre.length _ p _ (head_frame g _ pre.length s WHOLE p hgeo hz hF hb (by decide)) rfl
    rw [hread] at hw
    simp only [R.ok.injEq, Prod.mk.injEq, true_and] at hw
    have herr := core_whole_not_whole_eof g _ d hlen pre.length s p hgeo hz hF hb
      (by rw [List.length_append]; omega) hag hnc hne hchg
    subst hpre
    apply detected_of_err g bufs1 hsz d (appendAt P 2 (writeAll P bufs1 0).length p) _ herr k
    intro i hi
    rw [hag i (.inl (by omega))]
  | split fb s2 hfr hF1 hgap hzg hF2 =>
    rw [hfr] at hmem
    simp only [List.mem_cons, Prod.mk.injEq, List.not_mem_nil, or_false] at hmem
    rcases hmem with ⟨-, h2, -⟩ | ⟨-, h2, -⟩
    · exact absurd h2 (by decide)
    · exact absurd h2 (by decide)

end Blue.Log

#print axioms Blue.Wire.decVarint_take
#print axioms Blue.Wire.decTag_take
#print axioms Blue.Wire.decBytes_take
#print axioms Blue.EntryCodec.decEntry_take
#print axioms Blue.Damage.batchEntries_fuel
#print axioms Blue.Damage.batchEntries_take
#print axioms Blue.Log.log_first_as_whole_fragment
#print axioms Blue.Log.log_first_as_whole_fragment_exact
#print axioms Blue.Log.log_first_as_whole_entries_prefix
#print axioms Blue.Log.log_whole_not_whole_at_eof_detected
