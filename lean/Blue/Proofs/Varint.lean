import Blue.Model.Varint
import Blue.Proofs.Wire
/-! `unpack_slow`, `unpack_size::<SZ>` and the ten-way dispatch of `buffertk::v64` (modelled
    operation for operation in `Blue/Model/Varint.lean`) never panic and compute
    `Blue.Wire.decVarint` (property C15: "fast path = slow path"). -/
namespace Blue.Varint
open Blue.Wire

/-! ## arithmetic of a 64-bit word -/

theorem modSplit (A B l c : Nat) (hB : 0 < B) (hl : l < A) :
    (l + A * c) % (A * B) = l + A * (c % B) := by
  have h1 : A * c = A * (c % B) + A * B * (c / B) := by
    rw [Nat.mul_assoc, ← Nat.mul_add, Nat.mod_add_div]
  have h2 : l + A * (c % B) < A * B := by
    have h3 : c % B + 1 ≤ B := Nat.mod_lt c hB
    have h4 := Nat.mul_le_mul_left A h3
    rw [Nat.mul_add, Nat.mul_one] at h4
    omega
  rw [h1, ← Nat.add_assoc, Nat.add_mul_mod_self_left, Nat.mod_eq_of_lt h2]

theorem u64_split (s : Nat) (hs : s ≤ 64) : U64 = 2 ^ s * 2 ^ (64 - s) := by
  rw [← Nat.pow_add]
  have : s + (64 - s) = 64 := by omega
  rw [this]; decide

/-- `(c as u64) << s` keeps the low `64 - s` bits of `c` -/
theorem shl64_eq (c s : Nat) (hs : s < 64) : shl64 c s = some (2 ^ s * (c % 2 ^ (64 - s))) := by
  unfold shl64
  rw [if_pos hs, Nat.shiftLeft_eq, u64_split s (by omega), Nat.mul_comm c, Nat.mul_mod_mul_left]

/-- the value both decoders end on: low part below `2^s`, last byte shifted by `s` -/
theorem final_value (acc c s : Nat) (hs : s < 64) (hacc : acc < 2 ^ s) :
    (acc + c * 2 ^ s) % U64 = acc + 2 ^ s * (c % 2 ^ (64 - s)) := by
  rw [u64_split s (by omega), Nat.mul_comm c]
  exact modSplit _ _ _ _ (Nat.two_pow_pos _) hacc

theorem or_eq_add (ret s a : Nat) (h : ret < 2 ^ s) : ret ||| 2 ^ s * a = ret + 2 ^ s * a := by
  rw [Nat.or_comm, ← Nat.two_pow_add_eq_or_of_lt h, Nat.add_comm]

/-! ## bytes -/

theorem and_cont : ∀ b, b < 256 → ((b &&& CONT = 0) ↔ b < 128) := by decide +kernel

theorem and_low (b : Nat) : b &&& LOW = b % 128 := Nat.and_two_pow_sub_one_eq_mod b 7

/-! ## the common value: the continuation bytes below the last one -/

/-- `Σ (bᵢ - 128) · 2^(shl + 7i)` -/
def lowSum : List Nat → Nat → Nat
  | [], _ => 0
  | b :: bs, shl => (b - 128) * 2 ^ shl + lowSum bs (shl + 7)

theorem lowSum_append : ∀ (p q : List Nat) (shl : Nat),
    lowSum (p ++ q) shl = lowSum p shl + lowSum q (shl + 7 * p.length)
  | [], q, shl => by simp [lowSum]
  | b :: p, q, shl => by
    simp only [List.cons_append, lowSum, List.length_cons, lowSum_append p q (shl + 7)]
    have : shl + 7 + 7 * p.length = shl + 7 * (p.length + 1) := by omega
    rw [this]; omega

theorem lowSum_bound : ∀ (p : List Nat) (shl : Nat), (∀ b ∈ p, b < 256) →
    lowSum p shl + 2 ^ shl ≤ 2 ^ (shl + 7 * p.length)
  | [], shl, _ => by simp [lowSum]
  | b :: p, shl, h => by
    have hb : b - 128 ≤ 127 := by have := h b List.mem_cons_self; omega
    have h1 := Nat.mul_le_mul_right (2 ^ shl) hb
    have h2 := lowSum_bound p (shl + 7) (fun x hx => h x (List.mem_cons_of_mem _ hx))
    have h3 : 2 ^ (shl + 7) = 128 * 2 ^ shl := by rw [Nat.pow_add]; omega
    have h4 : shl + 7 + 7 * p.length = shl + 7 * (p.length + 1) := by omega
    simp only [lowSum, List.length_cons]
    rw [h4] at h2
    omega

theorem lowSum_lt (p : List Nat) (h : ∀ b ∈ p, b < 256) : lowSum p 0 < 2 ^ (7 * p.length) := by
  have := lowSum_bound p 0 h
  simp only [Nat.pow_zero, Nat.zero_add] at this
  omega

/-- `decVarintAux` over a run of continuation bytes -/
theorem decVarintAux_cont : ∀ (pre : List Nat) (f shl acc : Nat) (suf : List Nat),
    (∀ b ∈ pre, 128 ≤ b) →
    decVarintAux (f + pre.length) shl acc (pre ++ suf)
      = decVarintAux f (shl + 7 * pre.length) (acc + lowSum pre shl) suf
  | [], f, shl, acc, suf, _ => by simp [lowSum]
  | b :: pre, f, shl, acc, suf, h => by
    have hb : ¬ b < 128 := by have := h b List.mem_cons_self; omega
    have e : f + (b :: pre).length = (f + pre.length) + 1 := by simp; omega
    rw [e]
    simp only [List.cons_append, decVarintAux, hb, if_false]
    rw [decVarintAux_cont pre f (shl + 7) _ suf (fun x hx => h x (List.mem_cons_of_mem _ hx))]
    simp only [lowSum, List.length_cons]
    have e2 : shl + 7 + 7 * pre.length = shl + 7 * (pre.length + 1) := by omega
    rw [e2, Nat.add_assoc]


/-- a run of continuation bytes -/
def Cont (p : List Nat) : Prop := ∀ b ∈ p, 128 ≤ b ∧ b < 256

theorem Cont.snoc {p : List Nat} {b : Nat} (h : Cont p) (h1 : 128 ≤ b) (h2 : b < 256) : Cont (p ++ [b]) := by
  intro x hx
  simp only [List.mem_append, List.mem_singleton] at hx
  rcases hx with hx | rfl
  · exact h x hx
  · exact ⟨h1, h2⟩

theorem lowSum_snoc (p : List Nat) (b : Nat) :
    lowSum (p ++ [b]) 0 = lowSum p 0 + (b - 128) * 2 ^ (7 * p.length) := by
  rw [lowSum_append]; simp [lowSum]

theorem getElem?_mid (pre : List Nat) (b : Nat) (suf : List Nat) : (pre ++ b :: suf)[pre.length]? = some b := by
  simp

theorem drop_mid (pre : List Nat) (b : Nat) (suf : List Nat) : (pre ++ b :: suf).drop (pre.length + 1) = suf := by
  have : pre ++ b :: suf = (pre ++ [b]) ++ suf := by simp
  rw [this, List.drop_left' (by simp)]

/-! ## the unrolled decoder -/

theorem sizeLoop_spec : ∀ (pre : List Nat) (off r : Nat), (∀ b ∈ pre, 128 ≤ b) →
    (pre = [] ∨ off + 7 * pre.length < 71) → r + lowSum pre off < U64 →
    sizeLoop pre off r = some (r + lowSum pre off)
  | [], off, r, _, _, _ => by simp [sizeLoop, lowSum]
  | b :: bs, off, r, h, ho, hr => by
    have hb : 128 ≤ b := h b List.mem_cons_self
    have hoff : off < 64 := by
      rcases ho with ho | ho
      · cases ho
      · simp only [List.length_cons] at ho; omega
    simp only [lowSum] at hr
    have ht : (b - 128) * 2 ^ off < U64 := by omega
    have hs : shl64 (b - 128) off = some ((b - 128) * 2 ^ off) := by
      unfold shl64; rw [if_pos hoff, Nat.shiftLeft_eq, Nat.mod_eq_of_lt ht]
    have ha : add64 r ((b - 128) * 2 ^ off) = some (r + (b - 128) * 2 ^ off) := by
      unfold add64; rw [if_pos (by omega)]
    have hsub : sub64 b CONT = some (b - 128) := by
      unfold sub64 CONT; rw [if_pos hb]
    have ih := sizeLoop_spec bs (off + 7) (r + (b - 128) * 2 ^ off)
      (fun x hx => h x (List.mem_cons_of_mem _ hx))
      (by
        rcases ho with ho | ho
        · cases ho
        · right; simp only [List.length_cons] at ho; omega)
      (by omega)
    simp only [sizeLoop, hsub, hs, ha, STEP, ih, lowSum]
    congr 1; omega

/-- `unpack_size::<k+1>` on a buffer whose first `k ≤ 9` bytes are continuation bytes -/
theorem unpackSize_spec (pre : List Nat) (last : Nat) (suf : List Nat) (hp : Cont pre) (hk : pre.length ≤ 9) :
    unpackSize (pre.length + 1) (pre ++ last :: suf)
      = .ok ((lowSum pre 0 + last * 2 ^ (7 * pre.length)) % U64) suf := by
  have hs : 7 * pre.length < 64 := by omega
  have hlt := lowSum_lt pre (fun b hb => (hp b hb).2)
  have hfin := final_value (lowSum pre 0) last (7 * pre.length) hs hlt
  have hlt64 : (lowSum pre 0 + last * 2 ^ (7 * pre.length)) % U64 < U64 := Nat.mod_lt _ (by decide)
  have hloop := sizeLoop_spec pre 0 (2 ^ (7 * pre.length) * (last % 2 ^ (64 - 7 * pre.length)))
    (fun b hb => (hp b hb).1) (by right; omega) (by omega)
  have hne : ¬ (pre.length + 1 = 0) := by omega
  have hlen : pre.length + 1 ≤ (pre ++ last :: suf).length := by simp
  unfold unpackSize
  simp only [hne, if_false, Nat.add_sub_cancel, getElem?_mid, STEP, shl64_eq last _ hs,
    List.take_left' (rfl : pre.length = pre.length), hloop, hlen, if_true, drop_mid]
  rw [hfin, Nat.add_comm]

def armsFrom : Nat → Nat → List (Nat × Nat)
  | _, 0 => []
  | j, n+1 => (j, j + 1) :: armsFrom (j + 1) n

theorem arms10_eq : arms10 = armsFrom 0 10 := rfl

theorem decVarintAux_last (f shl acc b : Nat) (suf : List Nat) (hb : b < 128) :
    decVarintAux (f + 1) shl acc (b :: suf) = some ((acc + b * 2 ^ shl) % U64, suf) := by
  simp [decVarintAux, hb]

theorem decVarintAux_more (f shl acc b : Nat) (suf : List Nat) (hb : ¬ b < 128) :
    decVarintAux (f + 1) shl acc (b :: suf) = decVarintAux f (shl + 7) (acc + (b - 128) * 2 ^ shl) suf := by
  simp [decVarintAux, hb]

/-- the `if buf[j] < 128 … else if buf[j+1] < 128 …` chain after `j` continuation bytes -/
theorem dispatch_spec : ∀ (n j : Nat) (pre suf : List Nat), pre.length = j → Cont pre →
    (∀ b ∈ suf, b < 256) → j + n ≤ 10 → j + n ≤ (pre ++ suf).length →
    dispatch (armsFrom j n) (pre ++ suf)
      = ofDec (pre ++ suf).length (decVarintAux n (7 * j) (lowSum pre 0) suf)
  | 0, j, pre, suf, _, _, _, _, _ => by simp [armsFrom, dispatch, decVarintAux, ofDec]
  | n+1, j, pre, suf, hj, hp, hs, h10, hlen => by
    cases suf with
    | nil => simp at hlen; omega
    | cons b suf' =>
      have hb256 : b < 256 := hs b List.mem_cons_self
      subst hj
      simp only [armsFrom, dispatch, getElem?_mid]
      by_cases hb : b < 128
      · rw [if_pos (show b < CONT from hb), unpackSize_spec pre b suf' hp (by omega), decVarintAux_last _ _ _ _ _ hb]
        rfl
      · rw [if_neg (show ¬ b < CONT from hb), decVarintAux_more _ _ _ _ _ hb]
        have e : pre ++ b :: suf' = (pre ++ [b]) ++ suf' := by simp
        have ih := dispatch_spec n (pre.length + 1) (pre ++ [b]) suf' (by simp)
          (hp.snoc (by omega) hb256) (fun x hx => hs x (List.mem_cons_of_mem _ hx)) (by omega)
          (by rw [← e]; omega)
        rw [e, ih, lowSum_snoc]
        have e2 : 7 * (pre.length + 1) = 7 * pre.length + 7 := by omega
        rw [e2]

/-- **fast path**: on a buffer of at least ten bytes the unrolled dispatch is `decVarint` -/
theorem dispatch_eq_decVarint (bs : List Nat) (hb : ∀ b ∈ bs, b < 256) (hlen : 10 ≤ bs.length) :
    dispatch arms10 bs = ofDec bs.length (decVarint bs) := by
  have := dispatch_spec 10 0 [] bs rfl (by intro x hx; cases hx) hb (by omega) (by simpa using hlen)
  simpa [arms10_eq, decVarint, lowSum] using this

/-! ## the byte-at-a-time decoder -/

theorem slowLoop_eq (bytes : Nat) (buf : List Nat) (idx shl ret : Nat) :
    slowLoop bytes buf idx shl ret =
      if idx + 1 < bytes then
        match buf[idx]? with
        | none => none
        | some b =>
          if b &&& CONT ≠ 0 then
            match shl64 (b &&& LOW) shl with
            | none => none
            | some t => slowLoop bytes buf (idx + 1) (shl + STEP) (ret ||| t)
          else some (idx, shl, ret)
      else some (idx, shl, ret) := by
  rw [slowLoop]
  rfl

/-- the code after the loop, standing on a terminating byte -/
theorem slowTail_last (bytes : Nat) (pre : List Nat) (b : Nat) (suf : List Nat) (hp : Cont pre)
    (hk : pre.length ≤ 9) (hb : b < 128) :
    slowTail bytes (pre ++ b :: suf) (pre.length, 7 * pre.length, lowSum pre 0)
      = .ok ((lowSum pre 0 + b * 2 ^ (7 * pre.length)) % U64) suf := by
  have hs : 7 * pre.length < 64 := by omega
  have hlt := lowSum_lt pre (fun x hx => (hp x hx).2)
  have hc : b &&& CONT = 0 := (and_cont b (by omega)).mpr hb
  have hl : b &&& LOW = b := by rw [and_low]; omega
  have hne : (pre ++ b :: suf).isEmpty = false := by cases pre <;> rfl
  have hlen : pre.length + 1 ≤ (pre ++ b :: suf).length := by simp
  unfold slowTail
  simp only [hne, Bool.false_eq_true, if_false, getElem?_mid, hc, if_true, hl, shl64_eq b _ hs, hlen, drop_mid]
  rw [or_eq_add _ _ _ hlt, final_value _ _ _ hs hlt]

/-- the code after the loop, standing on a continuation byte -/
theorem slowTail_cont (bytes : Nat) (pre : List Nat) (b : Nat) (suf : List Nat) (st : Nat × Nat)
    (hb : ¬ b < 128) (hb256 : b < 256) :
    slowTail bytes (pre ++ b :: suf) (pre.length, st) = .err bytes := by
  have hc : ¬ (b &&& CONT = 0) := fun h => hb ((and_cont b hb256).mp h)
  have hne : (pre ++ b :: suf).isEmpty = false := by cases pre <;> rfl
  unfold slowTail
  simp only [hne, Bool.false_eq_true, if_false, getElem?_mid, hc]

theorem slow_spec (bytes : Nat) (h10 : bytes ≤ 10) :
    ∀ (k : Nat) (pre suf : List Nat), bytes - pre.length = k → pre.length < bytes →
      bytes ≤ (pre ++ suf).length → Cont pre → (∀ b ∈ suf, b < 256) →
      (match slowLoop bytes (pre ++ suf) pre.length (7 * pre.length) (lowSum pre 0) with
        | none => Res.panic
        | some st => slowTail bytes (pre ++ suf) st)
        = ofDec bytes (decVarintAux (bytes - pre.length) (7 * pre.length) (lowSum pre 0) suf) := by
  intro k
  induction k with
  | zero => intro pre suf hk hlt; omega
  | succ k ih =>
    intro pre suf hk hlt hlen hp hs
    cases suf with
    | nil => simp at hlen; omega
    | cons b suf' =>
      have hb256 : b < 256 := hs b List.mem_cons_self
      have hf : bytes - pre.length = (bytes - pre.length - 1) + 1 := by omega
      rw [slowLoop_eq, hf]
      by_cases hmore : pre.length + 1 < bytes
      · rw [if_pos hmore]
        simp only [getElem?_mid]
        by_cases hb : b < 128
        · have hc : b &&& CONT = 0 := (and_cont b hb256).mpr hb
          simp only [hc, ne_eq, not_true_eq_false, if_false]
          rw [slowTail_last bytes pre b suf' hp (by omega) hb, decVarintAux_last _ _ _ _ _ hb]
          rfl
        · have hc : ¬ (b &&& CONT = 0) := fun h => hb ((and_cont b hb256).mp h)
          have hsh : 7 * pre.length < 64 := by omega
          have hlow : b &&& LOW = b - 128 := by rw [and_low]; omega
          have hsmall : (b - 128) % 2 ^ (64 - 7 * pre.length) = b - 128 := by
            apply Nat.mod_eq_of_lt
            have : (2 : Nat) ^ 7 ≤ 2 ^ (64 - 7 * pre.length) := Nat.pow_le_pow_right (by omega) (by omega)
            omega
          have hlt' := lowSum_lt pre (fun x hx => (hp x hx).2)
          simp only [ne_eq, hc, not_false_eq_true, if_true, hlow, shl64_eq _ _ hsh, hsmall, STEP]
          rw [or_eq_add _ _ _ hlt', decVarintAux_more _ _ _ _ _ hb]
          have e : pre ++ b :: suf' = (pre ++ [b]) ++ suf' := by simp
          have hl1 : (pre ++ [b]).length = pre.length + 1 := by simp
          have ih' := ih (pre ++ [b]) suf' (by rw [hl1]; omega) (by rw [hl1]; omega) (by rw [← e]; exact hlen)
            (hp.snoc (by omega) hb256) (fun x hx => hs x (List.mem_cons_of_mem _ hx))
          rw [hl1, lowSum_snoc] at ih'
          have e2 : 7 * (pre.length + 1) = 7 * pre.length + 7 := by omega
          have e3 : bytes - (pre.length + 1) = bytes - pre.length - 1 := by omega
          have e4 : 2 ^ (7 * pre.length) * (b - 128) = (b - 128) * 2 ^ (7 * pre.length) := Nat.mul_comm _ _
          rw [e2, e3, ← e] at ih'
          rw [e4]
          exact ih'
      · rw [if_neg hmore]
        by_cases hb : b < 128
        · simp only []
          rw [slowTail_last bytes pre b suf' hp (by omega) hb, decVarintAux_last _ _ _ _ _ hb]
          rfl
        · simp only []
          rw [slowTail_cont bytes pre b suf' _ hb hb256, decVarintAux_more _ _ _ _ _ hb]
          have : bytes - pre.length - 1 = 0 := by omega
          rw [this]
          simp [decVarintAux, ofDec]

/-- `decVarintAux` looks at no more than `fuel` bytes: more fuel than bytes changes nothing -/
theorem decVarintAux_fuel : ∀ (bs : List Nat) (f g shl acc : Nat), bs.length ≤ f → bs.length ≤ g →
    decVarintAux f shl acc bs = decVarintAux g shl acc bs
  | [], f, g, _, _, _, _ => by cases f <;> cases g <;> rfl
  | b :: bs, f, g, shl, acc, hf, hg => by
    cases f with
    | zero => simp at hf
    | succ f =>
      cases g with
      | zero => simp at hg
      | succ g =>
        simp only [decVarintAux]
        rw [decVarintAux_fuel bs f g _ _ (by simp at hf; omega) (by simp at hg; omega)]

/-- **slow path**: `unpack_slow` (as written, for a buffer of any length) is `decVarint`; the
    error carries `min(len, 10)` -/
theorem unpackSlow_eq_decVarint (bs : List Nat) (hb : ∀ b ∈ bs, b < 256) :
    unpackSlow (10, 10) bs = ofDec (min bs.length 10) (decVarint bs) := by
  have hbytes : (if bs.length < 10 then bs.length else 10) = min bs.length 10 := by
    split <;> omega
  unfold unpackSlow
  simp only [hbytes]
  cases bs with
  | nil =>
    rw [slowLoop_eq]
    simp [slowTail, decVarint, decVarintAux, ofDec]
  | cons b t =>
    have hpos : 0 < min (b :: t).length 10 := by simp; omega
    have := slow_spec (min (b :: t).length 10) (by omega) _ [] (b :: t) rfl (by simpa using hpos)
      (by simp; omega) (by intro x hx; cases hx) hb
    simp only [List.nil_append, List.length_nil, Nat.mul_zero, lowSum, Nat.sub_zero] at this
    refine Eq.trans this ?_
    congr 1
    unfold decVarint
    by_cases hl : (b :: t).length < 10
    · exact decVarintAux_fuel _ _ _ _ _ (by omega) (by omega)
    · have : min (b :: t).length 10 = 10 := by omega
      rw [this]

/-! ## headline statements -/

/-- a buffer of bytes -/
def Bytes (bs : List Nat) : Prop := ∀ b ∈ bs, b < 256

/-- **C15** `Unpackable::unpack for v64` with the slow decoder taken below `m` bytes: for every
    `m ≥ 10` it never panics and is `decVarint`; the error carries `min(len, 10)` from the slow
    decoder and `len` from the dispatch.  The hypothesis `10 ≤ m` is what the indexing `buf[9]`
    of the last arm needs. -/
theorem unpackWith_eq_decVarint (m : Nat) (hm : 10 ≤ m) (bs : List Nat) (hb : Bytes bs) :
    unpackWith ⟨m, (10, 10), arms10⟩ bs
      = ofDec (if bs.length < m then min bs.length 10 else bs.length) (decVarint bs) := by
  unfold unpackWith
  by_cases h : bs.length < m
  · simp only [h, if_true]; exact unpackSlow_eq_decVarint bs hb
  · simp only [h, if_false]; exact dispatch_eq_decVarint bs hb (by omega)

/-- **C15** the code as it is (`m = 10`): `v64::unpack` is the model decoder on every buffer,
    and the error of an over-long varint carries the length of the buffer -/
theorem unpack_eq_decVarint (bs : List Nat) (hb : Bytes bs) :
    unpack bs = ofDec bs.length (decVarint bs) := by
  have := unpackWith_eq_decVarint 10 (by omega) bs hb
  unfold unpack shape
  rw [this]
  congr 1
  split <;> omega

/-- **C15** fast path = slow path: on every buffer of at least ten bytes (where the code takes the
    unrolled dispatch) `unpack_slow` as written would return the same value and the same
    remainder, and fail on the same buffers; both are `decVarint`; neither panics.  The two
    errors differ in their payload only (`len` against `10`). -/
theorem fast_eq_slow (bs : List Nat) (hb : Bytes bs) (hlen : 10 ≤ bs.length) :
    dispatch arms10 bs = ofDec bs.length (decVarint bs)
    ∧ unpackSlow (10, 10) bs = ofDec 10 (decVarint bs) := by
  refine ⟨dispatch_eq_decVarint bs hb hlen, ?_⟩
  have := unpackSlow_eq_decVarint bs hb
  rw [this]; congr 1; omega

theorem ofDec_ok_iff (n m : Nat) (d : Option (Nat × List Nat)) (v : Nat) (rest : List Nat) :
    ofDec n d = .ok v rest ↔ ofDec m d = .ok v rest := by
  cases d with
  | none => simp [ofDec]
  | some r => simp [ofDec]

theorem ofDec_ne_panic (n : Nat) (d : Option (Nat × List Nat)) : ofDec n d ≠ .panic := by
  cases d with
  | none => simp [ofDec]
  | some r => simp [ofDec]

/-- **C15** no input makes `v64::unpack` panic -/
theorem unpack_never_panics (bs : List Nat) (hb : Bytes bs) : unpack bs ≠ .panic := by
  rw [unpack_eq_decVarint bs hb]; exact ofDec_ne_panic _ _

/-- **C15** `pack` then `unpack` returns the value and what followed it, for every `u64`
    (through whichever decoder the length selects) -/
theorem unpack_pack (x : Nat) (hx : x < U64) (rest : List Nat) (hr : Bytes rest) :
    unpack (encVarint x ++ rest) = .ok x rest := by
  have hb : Bytes (encVarint x ++ rest) := by
    intro b hb
    simp only [List.mem_append] at hb
    rcases hb with hb | hb
    · exact encVarint_bytes x b hb
    · exact hr b hb
  rw [unpack_eq_decVarint _ hb, decVarint_enc x hx rest]
  rfl

/-- the ten-byte boundary is needed: with the slow decoder taken below `m < 10` bytes only, a
    buffer of `m` continuation bytes reaches `buf[m]` in the dispatch — an index out of range
    (this is the seeded change `buf.len() < 9`) -/
theorem short_boundary_panics : ∀ m, m < 10 →
    unpackWith ⟨m, (10, 10), arms10⟩ (List.replicate m 128) = .panic := by decide

/-! ## `v64::pack` as written is `encVarint` -/

theorem packLoop_eq (out : List Nat) (x idx : Nat) :
    packLoop out x idx =
      if x > 0 then
        match out[idx - 1]? with
        | none => none
        | some p =>
          if idx < (out.set (idx - 1) (p ||| CONT)).length then
            packLoop (((out.set (idx - 1) (p ||| CONT))).set idx (x &&& LOW)) (x >>> STEP) (idx + 1)
          else none
      else some out := by
  rw [packLoop]
  rfl

theorem set_mid (pre : List Nat) (b v : Nat) (suf : List Nat) :
    (pre ++ b :: suf).set pre.length v = pre ++ v :: suf := by
  induction pre with
  | nil => rfl
  | cons a t ih => simp only [List.cons_append, List.length_cons, List.set_cons_succ, ih]

theorem or_cont (c : Nat) (h : c < 128) : c ||| CONT = c + 128 := by
  have := or_eq_add c 7 1 (by simpa using h)
  simpa [CONT, Nat.add_comm] using this

/-- the rest of an encoding after a byte stored without its continuation bit -/
def encTail (cur x : Nat) : List Nat := if x > 0 then (cur + 128) :: encVarint x else [cur]

theorem encVarint_eq_encTail (x : Nat) : encVarint x = encTail (x % 128) (x / 128) := by
  unfold encTail
  by_cases h : x < 128
  · have : ¬ (x / 128 > 0) := by omega
    rw [encVarint_lt h, if_neg this]; congr 1; omega
  · have : x / 128 > 0 := by omega
    rw [encVarint_ge h, if_pos this]

theorem packLoop_spec : ∀ (x : Nat) (pre : List Nat) (cur : Nat) (tail : List Nat), cur < 128 →
    tail.length + 1 = (encTail cur x).length →
    packLoop (pre ++ cur :: tail) x (pre.length + 1) = some (pre ++ encTail cur x) := by
  intro x
  induction x using Nat.strongRecOn with
  | _ x ih =>
    intro pre cur tail hc hl
    rw [packLoop_eq]
    by_cases hx : x > 0
    · rw [if_pos hx]
      simp only [Nat.add_sub_cancel, getElem?_mid, set_mid, or_cont cur hc]
      unfold encTail at hl ⊢
      rw [if_pos hx] at hl ⊢
      rw [encVarint_eq_encTail x] at hl ⊢
      cases tail with
      | nil =>
        exfalso
        have : 0 < (encTail (x % 128) (x / 128)).length := by unfold encTail; split <;> simp
        simp only [List.length_nil, List.length_cons] at hl; omega
      | cons t0 tail' =>
        have hlen : pre.length + 1 < (pre ++ (cur + 128) :: t0 :: tail').length := by simp
        rw [if_pos hlen]
        have e : pre ++ (cur + 128) :: t0 :: tail' = (pre ++ [cur + 128]) ++ t0 :: tail' := by simp
        have el : pre.length + 1 = (pre ++ [cur + 128]).length := by simp
        rw [e, el, set_mid, and_low]
        have hshift : x >>> STEP = x / 128 := by simp [STEP, Nat.shiftRight_eq_div_pow]
        rw [hshift]
        have := ih (x / 128) (Nat.div_lt_self hx (by decide)) (pre ++ [cur + 128]) (x % 128) tail'
          (Nat.mod_lt _ (by decide)) (by simp only [List.length_cons] at hl ⊢; omega)
        rw [this]; simp
    · rw [if_neg hx]
      unfold encTail at hl ⊢
      rw [if_neg hx] at hl ⊢
      cases tail with
      | nil => rfl
      | cons a t => simp at hl

/-- **C15** `v64::pack` as written, on a buffer of `pack_sz` bytes of any content, writes exactly
    the model's `encVarint`, and indexes within the buffer -/
theorem pack_eq_encVarint (x : Nat) (out : List Nat) (hl : out.length = (encVarint x).length) :
    pack x out = some (encVarint x) := by
  unfold pack
  cases out with
  | nil => have := encVarint_length_pos x; simp at hl; omega
  | cons o tail =>
    have hpos : 0 < (o :: tail).length := by simp
    rw [if_pos hpos]
    have hshift : x >>> STEP = x / 128 := by simp [STEP, Nat.shiftRight_eq_div_pow]
    simp only [List.set_cons_zero, and_low, hshift]
    have := packLoop_spec (x / 128) [] (x % 128) tail (Nat.mod_lt _ (by decide))
      (by rw [← encVarint_eq_encTail]; simp at hl; omega)
    simpa [← encVarint_eq_encTail] using this

end Blue.Varint
