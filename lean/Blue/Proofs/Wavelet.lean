import Blue.Proofs.WaveletTree
/-! **C19** the prefix-code wavelet tree (`scrunch::wavelet_tree::prefix::WaveletTree`) answers
    `access` / `rank_q` / `select_q` like the reference (`ReferenceWaveletTree`) on the plain text,
    for EVERY prefix-free code book (`prefixFreeB`) that covers the text (`inBookB`).

    Headlines: `construct_ok`, `access_eq`, `rankQ_eq` (symbols of the text) / `rankQ_exact`
    (symbols of the book), `selectQ_eq` / `selectQ_exact`, `rankQ_not_in_book`,
    `selectQ_not_in_book`, `construct_not_in_book`.

    The tree differs from the reference only for symbols that do NOT occur in the text (the psi
    function never asks for those; with `HuffmanEncoder::construct` every symbol of the book occurs):
    for a symbol outside the book both queries are `None`; for a symbol of the book that does not
    occur they are `None` too unless some symbol of the text shares all but the last code bit
    (`siblingB`), in which case they agree with the reference (`absent_differs`). -/
namespace Blue.Wavelet

/-! ### the code book as an encoder -/

theorem encode_some {cb : CodeBook} {t : Nat} {c : Code} (h : encode cb t = some c) :
    ∃ en, en ∈ cb ∧ en.1 = t ∧ en.2 = c := by
  unfold encode at h
  cases hf : cb.find? (fun en => en.1 == t) with
  | none => rw [hf] at h; cases h
  | some en =>
    rw [hf] at h
    simp only [Option.some.injEq] at h
    have := List.find?_some hf
    exact ⟨en, List.mem_of_find?_eq_some hf, by simpa using this, h⟩

theorem encode_of_mem {cb : CodeBook} (hp : PrefixFree cb) {en : Entry} (hen : en ∈ cb) :
    encode cb en.1 = some en.2 := by
  unfold encode
  cases hf : cb.find? (fun e => e.1 == en.1) with
  | none =>
    have := List.find?_eq_none.mp hf en hen
    simp at this
  | some e' =>
    have h1 := List.find?_some hf
    have := hp.2.1 e' (List.mem_of_find?_eq_some hf) en hen (by simpa using h1)
    rw [this]

theorem decode_of_mem {cb : CodeBook} (hp : PrefixFree cb) {en : Entry} (hen : en ∈ cb) (s : Nat) :
    decode cb en.2.1 s = some en.1 := by
  unfold decode
  cases hf : cb.find? (fun e => e.2.1 == en.2.1) with
  | none =>
    have := List.find?_eq_none.mp hf en hen
    simp at this
  | some e' =>
    have h1 : e'.2.1 = en.2.1 := by simpa using List.find?_some hf
    have hm := List.mem_of_find?_eq_some hf
    -- equal code values: the shorter is a prefix of the longer
    have : e' = en := by
      by_cases hle : e'.2.2 ≤ en.2.2
      · apply hp.2.2 e' hm en hen
        exact ⟨hle, by rw [← h1]; exact Nat.mod_eq_of_lt (hp.1 e' hm).2⟩
      · symm
        apply hp.2.2 en hen e' hm
        exact ⟨by omega, by rw [h1]; exact Nat.mod_eq_of_lt (hp.1 en hen).2⟩
    rw [this]

/-- two symbols with the same code are the same symbol -/
theorem encode_inj {cb : CodeBook} (hp : PrefixFree cb) {t q : Nat} {c : Code}
    (ht : encode cb t = some c) (hq : encode cb q = some c) : t = q := by
  obtain ⟨e1, h1, rfl, r1⟩ := encode_some ht
  obtain ⟨e2, h2, rfl, r2⟩ := encode_some hq
  have : e1 = e2 := by
    apply hp.2.2 e1 h1 e2 h2
    rw [r1, r2]
    exact ⟨Nat.le_refl _, Nat.mod_eq_of_lt (by have := (hp.1 e2 h2).2; rwa [r2] at this)⟩
  rw [this]

/-- the code of a symbol of the book -/
def codeOf (cb : CodeBook) (t : Nat) : Code := (encode cb t).getD (0, 0)

theorem codeOf_eq {cb : CodeBook} {t : Nat} {c : Code} (h : encode cb t = some c) : codeOf cb t = c := by
  unfold codeOf; rw [h]; rfl

/-- every symbol of the text has an entry -/
def InBook (cb : CodeBook) (text : List Nat) : Prop := ∀ t ∈ text, (encode cb t).isSome = true

theorem inBook_of_B {cb : CodeBook} {text : List Nat} (h : inBookB cb text = true) : InBook cb text :=
  List.all_eq_true.mp h

theorem encode_codeOf {cb : CodeBook} {text : List Nat} (hin : InBook cb text) {t : Nat} (ht : t ∈ text) :
    encode cb t = some (codeOf cb t) := by
  obtain ⟨c, hc⟩ := Option.isSome_iff_exists.mp (hin t ht)
  rw [hc, codeOf_eq hc]

theorem encodeAll_nil (cb : CodeBook) : encodeAll cb [] = some [] := rfl
theorem encodeAll_cons (cb : CodeBook) (t : Nat) (ts : List Nat) :
    encodeAll cb (t :: ts) =
      match encode cb t, encodeAll cb ts with
      | some c, some cs => some (c :: cs)
      | _, _ => none := rfl

theorem encodeAll_eq {cb : CodeBook} : ∀ {text : List Nat}, InBook cb text →
    encodeAll cb text = some (text.map (codeOf cb))
  | [], _ => rfl
  | t :: ts, hin => by
    have ih := encodeAll_eq (cb := cb) (text := ts) (fun s hs => hin s (List.mem_cons_of_mem _ hs))
    rw [encodeAll_cons, encode_codeOf hin List.mem_cons_self, ih]
    rfl

theorem encodeAll_none {cb : CodeBook} : ∀ {text : List Nat}, ¬ InBook cb text → encodeAll cb text = none
  | [], h => absurd (fun t ht => by cases ht) h
  | t :: ts, h => by
    rw [encodeAll_cons]
    cases he : encode cb t with
    | none => rfl
    | some c =>
      have : ¬ InBook cb ts := by
        intro hts
        apply h
        intro s hs
        rcases List.mem_cons.mp hs with rfl | hs'
        · rw [he]; rfl
        · exact hts s hs'
      rw [encodeAll_none this]

theorem valid_codes {cb : CodeBook} {text : List Nat} (hp : PrefixFree cb) (hin : InBook cb text) :
    Valid (text.map (codeOf cb)) := by
  have key : ∀ c ∈ text.map (codeOf cb), ∃ en, en ∈ cb ∧ en.2 = c := by
    intro c hc
    obtain ⟨t, ht, rfl⟩ := List.mem_map.mp hc
    obtain ⟨en, h1, _, h3⟩ := encode_some (encode_codeOf hin ht)
    exact ⟨en, h1, h3⟩
  constructor
  · intro c hc
    obtain ⟨en, h1, rfl⟩ := key c hc
    exact hp.1 en h1
  · intro c hc d hd
    obtain ⟨e1, h1, rfl⟩ := key c hc
    obtain ⟨e2, h2, rfl⟩ := key d hd
    exact ⟨fun p => by rw [hp.2.2 e1 h1 e2 h2 p], fun p => by rw [hp.2.2 e2 h2 e1 h1 p]⟩

theorem qok_codes {cb : CodeBook} {text : List Nat} (hp : PrefixFree cb) (hin : InBook cb text)
    {q : Nat} {c : Code} (hq : encode cb q = some c) : QOK (text.map (codeOf cb)) c := by
  obtain ⟨en, h1, _, rfl⟩ := encode_some hq
  refine ⟨hp.1 en h1, (valid_codes hp hin).1, ?_⟩
  intro d hd
  obtain ⟨t, ht, rfl⟩ := List.mem_map.mp hd
  obtain ⟨e2, h2, _, h3⟩ := encode_some (encode_codeOf hin ht)
  rw [← h3]
  exact ⟨fun p => by rw [hp.2.2 en h1 e2 h2 p], fun p => by rw [hp.2.2 e2 h2 en h1 p]⟩

/-- counting a symbol in the text = counting its code among the codes -/
theorem count_codes {cb : CodeBook} {text : List Nat} (hp : PrefixFree cb) (hin : InBook cb text)
    {q : Nat} {c : Code} (hq : encode cb q = some c) (x : Nat) :
    ((text.map (codeOf cb)).take x).count c = (text.take x).count q := by
  rw [← List.map_take, ← codeOf_eq hq]
  apply count_map_inj
  intro t ht hc
  have htm := List.mem_of_mem_take ht
  have h1 := encode_codeOf hin htm
  rw [hc, codeOf_eq hq] at h1
  exact encode_inj hp h1 hq

theorem count_codes_all {cb : CodeBook} {text : List Nat} (hp : PrefixFree cb) (hin : InBook cb text)
    {q : Nat} {c : Code} (hq : encode cb q = some c) :
    (text.map (codeOf cb)).count c = text.count q := by
  have := count_codes hp hin hq text.length
  rwa [List.take_of_length_le (by rw [List.length_map]; exact Nat.le_refl _), List.take_length] at this

theorem isLeast_codes {cb : CodeBook} {text : List Nat} (hp : PrefixFree cb) (hin : InBook cb text)
    {q : Nat} {c : Code} (hq : encode cb q = some c) (x p : Nat) :
    IsLeast (text.map (codeOf cb)) c x p ↔ IsLeast text q x p := by
  unfold IsLeast
  rw [List.length_map, count_codes hp hin hq]
  constructor
  · rintro ⟨h1, h2, h3⟩
    exact ⟨h1, h2, fun p' hp' => by have := h3 p' hp'; rwa [count_codes hp hin hq] at this⟩
  · rintro ⟨h1, h2, h3⟩
    exact ⟨h1, h2, fun p' hp' => by rw [count_codes hp hin hq]; exact h3 p' hp'⟩

theorem siblingB_iff {cb : CodeBook} {text : List Nat} (hin : InBook cb text)
    {q : Nat} {c : Code} (hq : encode cb q = some c) :
    siblingB cb text q = true ↔ Sib (text.map (codeOf cb)) c := by
  unfold siblingB Sib
  rw [hq]
  simp only [Bool.or_eq_true, beq_iff_eq, List.any_eq_true]
  constructor
  · rintro (h | ⟨t, ht, h⟩)
    · exact Or.inl h
    · rw [encode_codeOf hin ht] at h
      simp only [Bool.and_eq_true, decide_eq_true_eq, beq_iff_eq] at h
      exact Or.inr ⟨codeOf cb t, List.mem_map.mpr ⟨t, ht, rfl⟩, h.1, h.2⟩
  · rintro (h | ⟨d, hd, h1, h2⟩)
    · exact Or.inl h
    · obtain ⟨t, ht, rfl⟩ := List.mem_map.mp hd
      refine Or.inr ⟨t, ht, ?_⟩
      rw [encode_codeOf hin ht]
      simp only [Bool.and_eq_true, decide_eq_true_eq, beq_iff_eq]
      exact ⟨h1, h2⟩

theorem siblingB_of_mem {cb : CodeBook} {text : List Nat} (hin : InBook cb text) {q : Nat} (hq : q ∈ text) :
    siblingB cb text q = true :=
  (siblingB_iff hin (encode_codeOf hin hq)).mpr (sib_of_mem (List.mem_map.mpr ⟨q, hq, rfl⟩))

theorem siblingB_not_in_book {cb : CodeBook} {text : List Nat} {q : Nat} (hq : encode cb q = none) :
    siblingB cb text q = false := by
  unfold siblingB; rw [hq]

/-! ### `construct` -/

theorem le_foldl_max (syms : List Code) : ∀ (m : Nat),
    m ≤ syms.foldl (fun m c => max m c.2) m ∧ ∀ c ∈ syms, c.2 ≤ syms.foldl (fun m c => max m c.2) m := by
  induction syms with
  | nil => intro m; exact ⟨Nat.le_refl _, fun c hc => by cases hc⟩
  | cons a t ih =>
    intro m
    obtain ⟨h1, h2⟩ := ih (max m a.2)
    simp only [List.foldl_cons]
    refine ⟨by omega, ?_⟩
    intro c hc
    rcases List.mem_cons.mp hc with rfl | hc'
    · omega
    · exact h2 c hc'

theorem le_maxLen (syms : List Code) : ∀ c ∈ syms, c.2 ≤ maxLen syms := (le_foldl_max syms 0).2

/-- what `construct` returns -/
theorem construct_inv {cb : CodeBook} {text : List Nat} (hp : PrefixFree cb) (hin : InBook cb text)
    {w : WT} (h : construct cb text = some w) :
    ∃ f l r, build (f + 1) (text.map (codeOf cb)) = some (Tree.node ((text.map (codeOf cb)).map isRight) l r)
      ∧ w = { cb := cb, length := text.length, root := Tree.node ((text.map (codeOf cb)).map isRight) l r } := by
  unfold construct at h
  rw [encodeAll_eq hin] at h
  simp only at h
  cases hb : build (maxLen (text.map (codeOf cb)) + 1) (text.map (codeOf cb)) with
  | none => rw [hb] at h; cases h
  | some t =>
    rw [hb] at h
    simp only [Option.some.injEq, List.length_map] at h
    obtain ⟨l, r, rfl, _⟩ := build_inv (valid_codes hp hin) hb
    exact ⟨_, l, r, hb, h.symm⟩

/-- **C19** `construct` succeeds (no `LogicError`, no `InvalidEncoder`) on every text covered by a
    prefix-free code book, and the tree has the text's length -/
theorem construct_ok (cb : CodeBook) (text : List Nat) (hpf : prefixFreeB cb = true)
    (hin : inBookB cb text = true) :
    ∃ w, construct cb text = some w ∧ len w = text.length ∧ w.cb = cb := by
  have hp := prefixFree_of_B hpf
  have hi := inBook_of_B hin
  obtain ⟨t, ht⟩ := build_some (maxLen (text.map (codeOf cb))) _ (valid_codes hp hi) (le_maxLen _)
  refine ⟨{ cb := cb, length := text.length, root := t }, ?_, rfl, rfl⟩
  unfold construct
  rw [encodeAll_eq hi]
  simp only
  rw [ht, List.length_map]

/-- a symbol outside the book: `Err(InvalidEncoder)` -/
theorem construct_not_in_book (cb : CodeBook) (text : List Nat) (hin : inBookB cb text = false) :
    construct cb text = none := by
  have : ¬ InBook cb text := by
    intro h
    have : inBookB cb text = true := List.all_eq_true.mpr h
    rw [hin] at this; cases this
  unfold construct
  rw [encodeAll_none this]

/-! ### the queries -/

/-- **C19** `access` is the reference `access` -/
theorem access_eq (cb : CodeBook) (text : List Nat) (hpf : prefixFreeB cb = true)
    (hin : inBookB cb text = true) (w : WT) (hw : construct cb text = some w) (x : Nat) :
    access w x = Blue.WaveletRef.access text x := by
  have hp := prefixFree_of_B hpf
  have hi := inBook_of_B hin
  obtain ⟨f, l, r, hb, rfl⟩ := construct_inv hp hi hw
  obtain ⟨h1, h2⟩ := recAccess_build cb (f + 1) _ _ (valid_codes hp hi) hb 0 0 x (by simp)
  unfold access Blue.WaveletRef.access
  simp only
  cases hx : text[x]? with
  | none =>
    apply h2
    rw [List.length_map]
    exact List.getElem?_eq_none_iff.mp hx
  | some s =>
    have hs := List.mem_of_getElem? hx
    rw [h1 (codeOf cb s) (by rw [List.getElem?_map, hx]; rfl)]
    obtain ⟨en, he1, rfl, he3⟩ := encode_some (encode_codeOf hi hs)
    rw [← he3, Nat.pow_zero, Nat.one_mul, Nat.zero_add]
    exact decode_of_mem hp he1 0

theorem rankQ_node (cb : CodeBook) (n : Nat) (bits : List Bool) (l r : Tree) (q x : Nat) :
    rankQ { cb := cb, length := n, root := Tree.node bits l r } q x =
      match encode cb q with
      | none => none
      | some (e, sz) => recRank (Tree.node bits l r) e sz x := rfl

theorem selectQ_node (cb : CodeBook) (n : Nat) (bits : List Bool) (l r : Tree) (q x : Nat) :
    selectQ { cb := cb, length := n, root := Tree.node bits l r } q x =
      match encode cb q with
      | none => none
      | some (e, sz) => recSelect (Tree.node bits l r) e sz x := rfl

/-- **C19** `rank_q` for every symbol of the book, exactly: the reference `rank_q` when some symbol
    of the text shares all but the last code bit with `q` (in particular when `q` occurs), `None`
    otherwise -/
theorem rankQ_exact (cb : CodeBook) (text : List Nat) (hpf : prefixFreeB cb = true)
    (hin : inBookB cb text = true) (w : WT) (hw : construct cb text = some w)
    (q : Nat) (hq : (encode cb q).isSome = true) (x : Nat) :
    rankQ w q x = if siblingB cb text q then Blue.WaveletRef.rankQ text q x else none := by
  have hp := prefixFree_of_B hpf
  have hi := inBook_of_B hin
  obtain ⟨f, l, r, hb, rfl⟩ := construct_inv hp hi hw
  obtain ⟨c, hc⟩ := Option.isSome_iff_exists.mp hq
  obtain ⟨h1, h2⟩ := recRank_build (f + 1) _ _ (valid_codes hp hi) hb c (qok_codes hp hi hc) x
  rw [rankQ_node, hc]
  show recRank _ c.1 c.2 x = _
  rw [List.length_map] at h1 h2
  unfold Blue.WaveletRef.rankQ
  cases hs : siblingB cb text q with
  | false =>
    apply h2
    intro ⟨_, hsib⟩
    rw [(siblingB_iff hi hc).mpr hsib] at hs
    cases hs
  | true =>
    have hsib := (siblingB_iff hi hc).mp hs
    simp only [if_true]
    by_cases hx : x ≤ text.length
    · rw [h1 hx hsib, if_pos hx, count_codes hp hi hc]
    · rw [if_neg hx]
      exact h2 (fun h => hx h.1)

/-- **C19** `rank_q` of a symbol that occurs in the text is the reference `rank_q`, for every `x`
    (`None` beyond the length) -/
theorem rankQ_eq (cb : CodeBook) (text : List Nat) (hpf : prefixFreeB cb = true)
    (hin : inBookB cb text = true) (w : WT) (hw : construct cb text = some w)
    (q : Nat) (hq : q ∈ text) (x : Nat) :
    rankQ w q x = Blue.WaveletRef.rankQ text q x := by
  have hi := inBook_of_B hin
  rw [rankQ_exact cb text hpf hin w hw q (hi q hq) x, siblingB_of_mem hi hq]
  rfl

/-- **C19** `select_q` for every symbol of the book, exactly -/
theorem selectQ_exact (cb : CodeBook) (text : List Nat) (hpf : prefixFreeB cb = true)
    (hin : inBookB cb text = true) (w : WT) (hw : construct cb text = some w)
    (q : Nat) (hq : (encode cb q).isSome = true) (x : Nat) :
    selectQ w q x = if siblingB cb text q then Blue.WaveletRef.selectQ text q x else none := by
  have hp := prefixFree_of_B hpf
  have hi := inBook_of_B hin
  obtain ⟨f, l, r, hb, rfl⟩ := construct_inv hp hi hw
  obtain ⟨c, hc⟩ := Option.isSome_iff_exists.mp hq
  obtain ⟨h1, h2⟩ := recSelect_build (f + 1) _ _ (valid_codes hp hi) hb c (qok_codes hp hi hc) x
  rw [selectQ_node, hc]
  show recSelect _ c.1 c.2 x = _
  cases hs : siblingB cb text q with
  | false =>
    apply h2
    intro hsib
    rw [(siblingB_iff hi hc).mpr hsib] at hs
    cases hs
  | true =>
    obtain ⟨k1, k2⟩ := h1 ((siblingB_iff hi hc).mp hs)
    simp only [if_true]
    cases ho : recSelect (Tree.node ((text.map (codeOf cb)).map isRight) l r) c.1 c.2 x with
    | none =>
      have := k2 ho
      rw [count_codes_all hp hi hc] at this
      rw [Blue.WaveletRef.selectQ_none text q x this]
    | some p =>
      have := (isLeast_codes hp hi hc x p).mp (k1 p ho)
      rw [(Blue.WaveletRef.selectQ_iff text q x p).mpr this]

/-- **C19** `select_q` of a symbol that occurs in the text is the reference `select_q`, for every
    `x` (`Some(0)` for `x = 0`, `None` beyond the number of occurrences) -/
theorem selectQ_eq (cb : CodeBook) (text : List Nat) (hpf : prefixFreeB cb = true)
    (hin : inBookB cb text = true) (w : WT) (hw : construct cb text = some w)
    (q : Nat) (hq : q ∈ text) (x : Nat) :
    selectQ w q x = Blue.WaveletRef.selectQ text q x := by
  have hi := inBook_of_B hin
  rw [selectQ_exact cb text hpf hin w hw q (hi q hq) x, siblingB_of_mem hi hq]
  rfl

/-- a symbol of the book that does not occur in the text: `select_q(q, x)` is `None` for every
    `x ≥ 1` (as the reference), and for `x = 0` it is `Some(0)` (as the reference) only when the
    sibling node exists, otherwise `None` -/
theorem selectQ_absent (cb : CodeBook) (text : List Nat) (hpf : prefixFreeB cb = true)
    (hin : inBookB cb text = true) (w : WT) (hw : construct cb text = some w)
    (q : Nat) (hq : (encode cb q).isSome = true) (hno : q ∉ text) :
    (∀ x, 1 ≤ x → selectQ w q x = none ∧ Blue.WaveletRef.selectQ text q x = none)
    ∧ selectQ w q 0 = (if siblingB cb text q then some 0 else none)
    ∧ Blue.WaveletRef.selectQ text q 0 = some 0 := by
  have h0 : Blue.WaveletRef.selectQ text q 0 = some 0 :=
    (Blue.WaveletRef.selectQ_iff text q 0 0).mpr ⟨Nat.zero_le _, by simp, fun p' hp' => absurd hp' (Nat.not_lt_zero _)⟩
  refine ⟨fun x hx => ?_, ?_, h0⟩
  · have hn : Blue.WaveletRef.selectQ text q x = none :=
      Blue.WaveletRef.selectQ_none text q x (by rw [List.count_eq_zero.mpr hno]; omega)
    refine ⟨?_, hn⟩
    rw [selectQ_exact cb text hpf hin w hw q hq x, hn]
    split <;> rfl
  · rw [selectQ_exact cb text hpf hin w hw q hq 0, h0]

/-- … and `rank_q(q, x)` is `Some(0)` for `x ≤ len` (as the reference) only when the sibling node
    exists, otherwise `None` -/
theorem rankQ_absent (cb : CodeBook) (text : List Nat) (hpf : prefixFreeB cb = true)
    (hin : inBookB cb text = true) (w : WT) (hw : construct cb text = some w)
    (q : Nat) (hq : (encode cb q).isSome = true) (hno : q ∉ text) (x : Nat) :
    rankQ w q x = (if siblingB cb text q = true ∧ x ≤ text.length then some 0 else none)
    ∧ Blue.WaveletRef.rankQ text q x = (if x ≤ text.length then some 0 else none) := by
  have hr : Blue.WaveletRef.rankQ text q x = (if x ≤ text.length then some 0 else none) := by
    unfold Blue.WaveletRef.rankQ
    have : (text.take x).count q = 0 :=
      List.count_eq_zero.mpr (fun h => hno (List.mem_of_mem_take h))
    rw [this]
  refine ⟨?_, hr⟩
  rw [rankQ_exact cb text hpf hin w hw q hq x, hr]
  cases siblingB cb text q <;> simp

/-- a symbol outside the book: `rank_q` is `None` (the reference answers `Some(0)` up to the length) -/
theorem rankQ_not_in_book (cb : CodeBook) (text : List Nat) (w : WT) (hw : construct cb text = some w)
    (q : Nat) (hq : encode cb q = none) (x : Nat) : rankQ w q x = none := by
  have hcb : w.cb = cb := by
    unfold construct at hw
    split at hw
    · cases hw
    · split at hw
      · cases hw
      · simp only [Option.some.injEq] at hw
        rw [← hw]
  unfold rankQ
  rw [hcb, hq]
  split <;> rfl

/-- a symbol outside the book: `select_q` is `None` (the reference answers `Some(0)` for `x = 0`) -/
theorem selectQ_not_in_book (cb : CodeBook) (text : List Nat) (w : WT) (hw : construct cb text = some w)
    (q : Nat) (hq : encode cb q = none) (x : Nat) : selectQ w q x = none := by
  have hcb : w.cb = cb := by
    unfold construct at hw
    split at hw
    · cases hw
    · split at hw
      · cases hw
      · simp only [Option.some.injEq] at hw
        rw [← hw]
  unfold selectQ
  rw [hcb, hq]
  split <;> rfl

/-! ### non-vacuity -/

/-- the Huffman book of a three-symbol text: `a` = `0`, `b` = `01`, `c` = `11` (first bit first) -/
def book3 : CodeBook := [(97, 0, 1), (98, 1, 2), (99, 3, 2)]
def text3 : List Nat := [97, 98, 97, 99, 99, 97, 98]

example : prefixFreeB book3 = true ∧ inBookB book3 text3 = true := by decide

example : construct book3 text3 = some
    { cb := book3, length := 7,
      root := Tree.node [false, true, false, true, true, false, true] Tree.absent
                (Tree.node [false, true, true, false] Tree.absent Tree.absent) } := by decide

example : (construct book3 text3).map (fun w => (List.range 9).map (access w))
    = some ((List.range 9).map (Blue.WaveletRef.access text3)) := by decide

example : (construct book3 text3).map (fun w => [97, 98, 99].map fun q => (List.range 9).map (rankQ w q))
    = some ([97, 98, 99].map fun q => (List.range 9).map (Blue.WaveletRef.rankQ text3 q)) := by decide

example : (construct book3 text3).map (fun w => [97, 98, 99].map fun q => (List.range 5).map (selectQ w q))
    = some ([97, 98, 99].map fun q => (List.range 5).map (Blue.WaveletRef.selectQ text3 q)) := by decide

example : (construct book3 text3).map (fun w => (selectQ w 98 2, selectQ w 99 1, rankQ w 99 5))
    = some (some 7, some 4, some 2) := by decide

/-- the one-symbol book (`HuffmanEncoder::construct` gives the only symbol the code `0` of length 1):
    one node, all bits clear -/
example : prefixFreeB [(5, 0, 1)] = true := by decide
example : construct [(5, 0, 1)] [5, 5, 5]
    = some { cb := [(5, 0, 1)], length := 3, root := Tree.node [false, false, false] Tree.absent Tree.absent } := by
  decide
example : (construct [(5, 0, 1)] [5, 5, 5]).map (fun w =>
      ((List.range 5).map (access w), (List.range 5).map (rankQ w 5), (List.range 5).map (selectQ w 5)))
    = some ([some 5, some 5, some 5, none, none], [some 0, some 1, some 2, some 3, none],
            [some 0, some 1, some 2, some 3, none]) := by decide

/-- the checks reject: a code that is a prefix of another, a repeated symbol, a zero length, an
    excess bit -/
example : prefixFreeB [(1, 0, 1), (2, 2, 2)] = false ∧ prefixFreeB [(1, 0, 1), (1, 1, 1)] = false
    ∧ prefixFreeB [(1, 0, 0)] = false ∧ prefixFreeB [(1, 2, 1)] = false := by decide

/-- where the tree is NOT the reference: symbols that do not occur in the text.  With the book of
    three symbols and the text `aa`, `b` (in the book, no sibling in the text) and `z` (not in the
    book) get `None` from the tree where the reference says `Some(0)`.  Not a defect of the index:
    psi only asks for symbols that occur. -/
theorem absent_differs :
    (construct book3 [97, 97]).map (fun w => (rankQ w 98 0, selectQ w 98 0, rankQ w 100 0, selectQ w 100 0))
      = some (none, none, none, none)
    ∧ Blue.WaveletRef.rankQ [97, 97] 98 0 = some 0 ∧ Blue.WaveletRef.selectQ [97, 97] 98 0 = some 0
    ∧ siblingB book3 [97, 97] 98 = false
    -- with a sibling (`b` occurs, `c` does not) the tree agrees with the reference
    ∧ (construct book3 [97, 98]).map (fun w => (rankQ w 99 2, selectQ w 99 0, selectQ w 99 1))
      = some (some 0, some 0, none)
    ∧ siblingB book3 [97, 98] 99 = true := by decide

end Blue.Wavelet

#print axioms Blue.Wavelet.construct_ok
#print axioms Blue.Wavelet.construct_not_in_book
#print axioms Blue.Wavelet.access_eq
#print axioms Blue.Wavelet.rankQ_eq
#print axioms Blue.Wavelet.rankQ_exact
#print axioms Blue.Wavelet.rankQ_absent
#print axioms Blue.Wavelet.rankQ_not_in_book
#print axioms Blue.Wavelet.selectQ_eq
#print axioms Blue.Wavelet.selectQ_exact
#print axioms Blue.Wavelet.selectQ_absent
#print axioms Blue.Wavelet.selectQ_not_in_book
#print axioms Blue.Wavelet.absent_differs
#print axioms Blue.WaveletRef.selectQ_iff
#print axioms Blue.WaveletRef.selectQ_none_iff
#print axioms Blue.Wavelet.count_side
