import Blue.Proofs.SstLoad
/-! `SstBuilder` as a whole (model `SB`): whatever is attempted, the builder's ghost cut of the
    accepted entries into blocks is a partition into non-empty blocks, the index entries it put are
    the dividers `dividersOf` of that cut, the block and index *bytes* it wrote are the sealed
    builds of those lists — so they decode back (`toDBlock_seal`) and the table cursor over what
    was written refines the reference cursor over the accepted entries. -/
namespace Blue.Sst
open Blue.Block Blue.Cursor

/-! ### success, case by case -/
theorem cput_ok {o : Opts} {c c' : CBuilder} {e : KV} (h : c.put o e = .ok c') :
    c' = ⟨c.b.add o e, e.ts⟩ ∧ putCheck c.b.approxSize c.b.lastKey c.lastTs e = none := by
  unfold CBuilder.put at h
  cases hc : putCheck c.b.approxSize c.b.lastKey c.lastTs e with
  | some err => rw [hc] at h; cases h
  | none => rw [hc] at h; cases h; exact ⟨rfl, rfl⟩

/-- the index entry `flush_block` writes -/
def indexEntry (s : SB) (c : CBuilder) (k : List Nat) (t : Nat) : KV :=
  ⟨(divideKeys s.lastKey s.lastTs k t).1, (divideKeys s.lastKey s.lastTs k t).2,
    some (encBlockMeta ⟨s.bytesWritten, s.bytesWritten + (frame SE_PLAIN c.b.seal).length, crc32c c.b.seal⟩)⟩

/-- the state after `flush_block` -/
def flushed (s : SB) (c idx : CBuilder) (k : List Nat) (t : Nat) : SB :=
  { s with cur := none, bytesWritten := s.bytesWritten + (frame SE_PLAIN c.b.seal).length,
           index := idx, blocks := s.blocks ++ [c.b.seal], cutE := s.cutE ++ [s.curE], curE := [],
           divE := s.divE ++ [indexEntry s c k t] }

theorem flush_ok {o : SstOpts} {s s' : SB} {k : List Nat} {t : Nat} (h : s.flush o k t = .ok s') :
    ∃ c idx, s.cur = some c ∧ s.index.put o.blk (indexEntry s c k t) = .ok idx ∧ s' = flushed s c idx k t := by
  unfold SB.flush at h
  cases hc : s.cur with
  | none => rw [hc] at h; cases h
  | some c =>
    rw [hc] at h
    simp only at h
    cases hlt : keyRefLt s.lastKey s.lastTs k t with
    | false => rw [hlt] at h; simp at h
    | true =>
    rw [hlt] at h
    simp only [Bool.not_true, Bool.false_eq_true, if_false] at h
    cases hi : s.index.put o.blk (indexEntry s c k t) with
    | error e => unfold indexEntry at hi; rw [hi] at h; cases h
    | ok idx =>
      unfold indexEntry at hi
      rw [hi] at h
      cases h
      exact ⟨c, idx, rfl, by unfold indexEntry; exact hi, rfl⟩

/-- the state after an accepted entry, given the state `s1` that holds the block it goes to -/
def afterPut (s1 : SB) (c' : CBuilder) (e : KV) : SB :=
  { s1 with cur := some c', count := s1.count + 1, lastKey := e.key, lastTs := e.ts,
            smallest := min s1.smallest e.ts, biggest := max s1.biggest e.ts,
            accepted := s1.accepted ++ [e], curE := s1.curE ++ [e] }

theorem put_ok {o : SstOpts} {s s' : SB} {e : KV} (h : s.put o e = .ok s') :
    putCheck s.approxSize s.lastKey s.lastTs e = none ∧
    ((s.cur = none ∧ ∃ c', CBuilder.init.put o.blk e = .ok c' ∧ s' = afterPut { s with cur := some CBuilder.init } c' e)
    ∨ (∃ c, s.cur = some c ∧ ¬ c.b.approxSize > o.targetBlockSize ∧ ∃ c', c.put o.blk e = .ok c' ∧ s' = afterPut s c' e)
    ∨ (∃ c, s.cur = some c ∧ c.b.approxSize > o.targetBlockSize ∧ ∃ sf, s.flush o e.key e.ts = .ok sf
        ∧ ∃ c', CBuilder.init.put o.blk e = .ok c' ∧ s' = afterPut { sf with cur := some CBuilder.init } c' e)) := by
  unfold SB.put at h
  cases hc : putCheck s.approxSize s.lastKey s.lastTs e with
  | some err => rw [hc] at h; cases h
  | none =>
    rw [hc] at h
    refine ⟨rfl, ?_⟩
    simp only at h
    cases hcur : s.cur with
    | none =>
      rw [hcur] at h
      simp only at h
      cases hp : CBuilder.init.put o.blk e with
      | error err => rw [hp] at h; cases h
      | ok c' => rw [hp] at h; cases h; exact Or.inl ⟨rfl, c', rfl, rfl⟩
    | some c =>
      rw [hcur] at h
      simp only at h
      by_cases hbig : c.b.approxSize > o.targetBlockSize
      · simp only [hbig, if_true] at h
        cases hf : s.flush o e.key e.ts with
        | error x => rw [hf] at h; cases h
        | ok sf =>
          rw [hf] at h
          simp only at h
          cases hp : CBuilder.init.put o.blk e with
          | error err => rw [hp] at h; cases h
          | ok c' => rw [hp] at h; cases h; exact Or.inr (Or.inr ⟨c, rfl, hbig, sf, rfl, c', rfl, rfl⟩)
      · simp only [hbig, if_false] at h
        rw [hcur] at h
        simp only at h
        cases hp : c.put o.blk e with
        | error err => rw [hp] at h; cases h
        | ok c' => rw [hp] at h; cases h; exact Or.inr (Or.inl ⟨c, rfl, hbig, c', hp, rfl⟩)

/-! ### `divide_keys`' run-time assertion never fires -/
theorem flush_not_assert {o : SstOpts} {s : SB} {k : List Nat} {t : Nat}
    (h : keyRefLt s.lastKey s.lastTs k t = true) : s.flush o k t ≠ .error .assert := by
  unfold SB.flush
  cases s.cur with
  | none => simp
  | some c =>
    simp only [h, Bool.not_true, Bool.false_eq_true, if_false]
    split <;> simp

/-- **C10** `put` / `del` never trip the `assert!(lhs < rhs)` of `divide_keys`: a block is only
    flushed for an entry that has passed the sort-order check -/
theorem put_not_assert (o : SstOpts) (s : SB) (e : KV) : s.put o e ≠ .error .assert := by
  unfold SB.put
  cases hc : putCheck s.approxSize s.lastKey s.lastTs e with
  | some err => simp
  | none =>
    have hlt := ((putCheck_none_iff _ _ _ _).mp hc).2.2.2
    simp only
    cases hcur : s.cur with
    | none =>
      simp only
      cases CBuilder.init.put o.blk e <;> simp
    | some c =>
      simp only
      by_cases hbig : c.b.approxSize > o.targetBlockSize
      · simp only [hbig, if_true]
        cases hf : s.flush o e.key e.ts with
        | error x =>
          simp only
          intro hx
          cases hx
          exact flush_not_assert hlt hf
        | ok sf =>
          simp only
          cases CBuilder.init.put o.blk e <;> simp
      · simp only [hbig, if_false, hcur]
        cases c.put o.blk e <;> simp

/-- **C10** nor does `seal`: the minimal successor of the last key is a strict successor -/
theorem seal_not_assert (o : SstOpts) (s : SB) (filter setsum : List Nat) :
    s.seal o filter setsum ≠ .error .assert := by
  unfold SB.seal
  cases hcur : s.cur with
  | none => simp
  | some c =>
    simp only
    cases hf : s.flush o (minimalSuccessor s.lastKey s.lastTs).1 (minimalSuccessor s.lastKey s.lastTs).2 with
    | error x =>
      simp only
      intro hx
      cases hx
      exact flush_not_assert (minimalSuccessor_gt s.lastKey s.lastTs) hf
    | ok sf => simp

/-! ### dividers between consecutive blocks -/
def keyTs (e : KV) : List Nat × Nat := (e.key, e.ts)

/-- the index keys between consecutive blocks (all of `dividersOf` but the one after the last
    block, which is only known at `seal`) -/
def divsBetween : List (List KV) → List KV
  | b :: c :: rest =>
    match b.getLast?, c.head? with
    | some l, some f => dividerOf l f.key f.ts :: divsBetween (c :: rest)
    | _, _ => []
  | _ => []

theorem divsBetween_single (b : List KV) : divsBetween [b] = [] := by simp [divsBetween]

theorem getLast?_some_of_ne {α : Type} {l : List α} (h : l ≠ []) : ∃ x, l.getLast? = some x := by
  cases hl : l.getLast? with
  | none => exact absurd (List.getLast?_eq_none_iff.mp hl) h
  | some x => exact ⟨x, rfl⟩

theorem head?_some_of_ne {α : Type} {l : List α} (h : l ≠ []) : ∃ x, l.head? = some x := by
  cases l with
  | nil => exact absurd rfl h
  | cons x _ => exact ⟨x, rfl⟩

theorem divsBetween_cons2 (x y : List KV) (rest : List (List KV)) (lx fy : KV)
    (h1 : x.getLast? = some lx) (h2 : y.head? = some fy) :
    divsBetween (x :: y :: rest) = dividerOf lx fy.key fy.ts :: divsBetween (y :: rest) := by
  simp [divsBetween, h1, h2]

/-- flushing the open block `b` and opening `c`: one more divider -/
theorem divsBetween_snoc (L : List (List KV)) (b c : List KV) (l f : KV) (hne : ∀ x ∈ L, x ≠ []) (hb : b ≠ [])
    (hl : b.getLast? = some l) (hf : c.head? = some f) :
    divsBetween (L ++ [b] ++ [c]) = divsBetween (L ++ [b]) ++ [dividerOf l f.key f.ts] := by
  induction L with
  | nil => simp [divsBetween, hl, hf]
  | cons x L ih =>
    have hx : x ≠ [] := hne x (List.mem_cons_self ..)
    obtain ⟨lx, hlx⟩ := getLast?_some_of_ne hx
    have ih' := ih (fun z hz => hne z (List.mem_cons_of_mem _ hz))
    cases L with
    | nil =>
      obtain ⟨fb, hfb⟩ := head?_some_of_ne hb
      simp only [List.nil_append, List.cons_append] at ih' ⊢
      rw [divsBetween_cons2 x b [c] lx fb hlx hfb, divsBetween_cons2 x b [] lx fb hlx hfb, ih']
      rfl
    | cons y L' =>
      have hy : y ≠ [] := hne y (List.mem_cons_of_mem _ (List.mem_cons_self ..))
      obtain ⟨fy, hfy⟩ := head?_some_of_ne hy
      simp only [List.cons_append] at ih' ⊢
      rw [divsBetween_cons2 x y _ lx fy hlx hfy, divsBetween_cons2 x y _ lx fy hlx hfy, ih']
      rfl

/-- appending to the open block changes no divider -/
theorem divsBetween_grow (L : List (List KV)) (b : List KV) (e : KV) (hne : ∀ x ∈ L, x ≠ []) (hb : b ≠ []) :
    divsBetween (L ++ [b ++ [e]]) = divsBetween (L ++ [b]) := by
  induction L with
  | nil => simp [divsBetween]
  | cons x L ih =>
    have hx : x ≠ [] := hne x (List.mem_cons_self ..)
    obtain ⟨lx, hlx⟩ := getLast?_some_of_ne hx
    have ih' := ih (fun z hz => hne z (List.mem_cons_of_mem _ hz))
    cases L with
    | nil =>
      obtain ⟨fb, hfb⟩ := head?_some_of_ne hb
      have hfb' : (b ++ [e]).head? = some fb := by
        cases b with
        | nil => exact absurd rfl hb
        | cons z zs => simpa using hfb
      simp only [List.nil_append, List.cons_append]
      rw [divsBetween_cons2 x _ [] lx fb hlx hfb', divsBetween_cons2 x b [] lx fb hlx hfb,
        divsBetween_single, divsBetween_single]
    | cons y L' =>
      have hy : y ≠ [] := hne y (List.mem_cons_of_mem _ (List.mem_cons_self ..))
      obtain ⟨fy, hfy⟩ := head?_some_of_ne hy
      simp only [List.cons_append] at ih' ⊢
      rw [divsBetween_cons2 x y _ lx fy hlx hfy, divsBetween_cons2 x y _ lx fy hlx hfy, ih']

/-- at `seal`: the dividers of the finished cut are those between the blocks plus the one behind
    the last entry -/
theorem dividersOf_split : ∀ (L : List (List KV)) (bl : List KV) (l : KV), (∀ b ∈ L, b ≠ []) →
    L.getLast? = some bl → bl.getLast? = some l →
    dividersOf L = divsBetween L ++ [dividerOf l (minimalSuccessor l.key l.ts).1 (minimalSuccessor l.key l.ts).2]
  | [], _, _, _, h, _ => by simp at h
  | [b], bl, l, _, h, hl => by
    simp only [List.getLast?_singleton, Option.some.injEq] at h
    subst h
    simp [dividersOf, divsBetween, hl]
  | b :: c :: rest, bl, l, hne, h, hl => by
    have hb : b ≠ [] := hne b (List.mem_cons_self ..)
    have hc : c ≠ [] := hne c (List.mem_cons_of_mem _ (List.mem_cons_self ..))
    obtain ⟨lb, hlb⟩ := getLast?_some_of_ne hb
    obtain ⟨fc, hfc⟩ := head?_some_of_ne hc
    have h' : (c :: rest).getLast? = some bl := by rw [List.getLast?_cons_cons] at h; exact h
    have ih := dividersOf_split (c :: rest) bl l (fun x hx => hne x (List.mem_cons_of_mem _ hx)) h' hl
    rw [divsBetween_cons2 b c rest lb fc hlb hfc]
    simp only [dividersOf, hlb, hfc, ih, List.cons_append]

/-! ### the builder's invariant -/
structure SInv (o : SstOpts) (s : SB) : Prop where
  acc : s.accepted = s.cutE.flatten ++ s.curE
  ne : ∀ b ∈ s.cutE, b ≠ []
  fresh : s.cur = none → s.accepted = [] ∧ s.cutE = [] ∧ s.divE = []
  opn : ∀ c, s.cur = some c → s.curE ≠ [] ∧ c.b = build o.blk s.curE
  last : ∀ l, s.accepted.getLast? = some l → s.lastKey = l.key ∧ s.lastTs = l.ts
  first : s.accepted = [] → s.lastKey = [] ∧ s.lastTs = U64MAX
  sorted : Sorted s.accepted
  divs : s.divE.map keyTs = (divsBetween (s.cutE ++ [s.curE])).map keyTs
  blocksB : s.blocks = s.cutE.map (fun es => (build o.blk es).seal)
  indexB : s.index.b = build o.blk s.divE

theorem sinv_init (o : SstOpts) : SInv o SB.init :=
  ⟨rfl, by simp [SB.init], fun _ => ⟨rfl, rfl, rfl⟩, by intro c h; simp [SB.init] at h, by intro l h; simp [SB.init] at h,
   fun _ => ⟨rfl, rfl⟩, List.Pairwise.nil, by simp [SB.init, divsBetween], rfl, rfl⟩

theorem build_snoc (o : Opts) (es : List KV) (e : KV) : build o (es ++ [e]) = (build o es).add o e := by
  unfold build; rw [List.foldl_append]; rfl

theorem sorted_snoc {pre : List KV} {e : KV} (hs : Sorted pre)
    (hl : ∀ l, pre.getLast? = some l → KV.lt l e = true) : Sorted (pre ++ [e]) := by
  unfold Sorted
  rw [List.pairwise_append]
  refine ⟨hs, by simp, ?_⟩
  intro a ha b hb
  simp only [List.mem_singleton] at hb
  subst hb
  obtain ⟨l, hlast⟩ := getLast?_some_of_ne (List.ne_nil_of_mem ha)
  have hle := hl l hlast
  have hal := le_getLast hs hlast ha
  by_cases h : a = l
  · subst h; exact hle
  · -- a ≠ l and ¬ l < a: a < l
    have : KV.lt a l = true := by
      have hp := List.pairwise_iff_getElem.mp hs
      obtain ⟨i, hi, rfl⟩ := List.getElem_of_mem ha
      obtain ⟨j, hj, rfl⟩ := List.getElem_of_mem (List.mem_of_getLast? hlast)
      rcases Nat.lt_trichotomy i j with hij | hij | hij
      · exact hp i j hi hj hij
      · subst hij; exact absurd rfl h
      · have := hp j i hj hi hij; rw [this] at hal; cases hal
    exact kvlt_trans this hle

/-- what an accepted entry does to the ghost lists, whichever block it goes to -/
theorem sinv_afterPut {o : SstOpts} {s1 : SB} {c c' : CBuilder} {e : KV}
    (hcur : s1.cur = some c) (hcb : c.b = build o.blk s1.curE) (hc' : c'.b = c.b.add o.blk e)
    (hacc : s1.accepted = s1.cutE.flatten ++ s1.curE) (hne : ∀ b ∈ s1.cutE, b ≠ [])
    (hsorted : Sorted (s1.accepted ++ [e]))
    (hdivs : s1.divE.map keyTs = (divsBetween (s1.cutE ++ [s1.curE ++ [e]])).map keyTs)
    (hblocks : s1.blocks = s1.cutE.map (fun es => (build o.blk es).seal))
    (hindex : s1.index.b = build o.blk s1.divE) :
    SInv o (afterPut s1 c' e) := by
  refine ⟨?_, hne, ?_, ?_, ?_, ?_, hsorted, hdivs, hblocks, hindex⟩
  · simp only [afterPut]; rw [hacc, List.append_assoc]
  · intro h; simp [afterPut] at h
  · intro c2 h
    simp only [afterPut, Option.some.injEq] at h
    subst h
    refine ⟨by simp [afterPut], ?_⟩
    simp only [afterPut]
    rw [hc', hcb, build_snoc]
  · intro l h
    simp only [afterPut, List.getLast?_append, List.getLast?_singleton, Option.some_or, Option.some.injEq] at h
    subst h; exact ⟨rfl, rfl⟩
  · intro h; simp [afterPut] at h

/-- **C10** every accepted entry keeps the invariant -/
theorem sinv_put {o : SstOpts} {s s' : SB} {e : KV} (hi : SInv o s) (h : s.put o e = .ok s') : SInv o s' := by
  obtain ⟨hchk, hcase⟩ := put_ok h
  have hlt := ((putCheck_none_iff _ _ _ _).mp hchk).2.2.2
  have hsorted : Sorted (s.accepted ++ [e]) := by
    apply sorted_snoc hi.sorted
    intro l hl
    obtain ⟨h1, h2⟩ := hi.last l hl
    unfold KV.lt; rw [← h1, ← h2]; exact hlt
  rcases hcase with ⟨hcur, c', hp, rfl⟩ | ⟨c, hcur, _, c', hp, rfl⟩ | ⟨c, hcur, _, sf, hf, c', hp, rfl⟩
  · -- the first entry of the table
    obtain ⟨ha, hc, hd⟩ := hi.fresh hcur
    have hcurE : s.curE = [] := by
      have := hi.acc; rw [ha, hc] at this; simpa using this.symm
    have hc' : c'.b = CBuilder.init.b.add o.blk e := by rw [(cput_ok hp).1]
    exact sinv_afterPut (s1 := { s with cur := some CBuilder.init }) (c := CBuilder.init) rfl
      (by simp only; rw [hcurE]; rfl) hc'
      (by simp only; rw [ha, hc, hcurE]; rfl)
      (by simp only; rw [hc]; simp)
      hsorted
      (by simp only; rw [hd, hc, hcurE]; simp [divsBetween])
      hi.blocksB hi.indexB
  · -- into the open block
    obtain ⟨hne, hcb⟩ := hi.opn c hcur
    have hc' : c'.b = c.b.add o.blk e := by rw [(cput_ok hp).1]
    exact sinv_afterPut hcur hcb hc' hi.acc hi.ne hsorted
      (by rw [divsBetween_grow _ _ _ hi.ne hne]; exact hi.divs) hi.blocksB hi.indexB
  · -- flush, then a new block
    obtain ⟨hne, hcb⟩ := hi.opn c hcur
    obtain ⟨c2, idx, hcur2, hidx, rfl⟩ := flush_ok hf
    rw [hcur] at hcur2; cases hcur2
    obtain ⟨l, hl⟩ := getLast?_some_of_ne hne
    have hlacc : s.accepted.getLast? = some l := by
      rw [hi.acc, List.getLast?_append, hl]; rfl
    obtain ⟨hk, ht⟩ := hi.last l hlacc
    have hc' : c'.b = CBuilder.init.b.add o.blk e := by rw [(cput_ok hp).1]
    exact sinv_afterPut (s1 := { flushed s c idx e.key e.ts with cur := some CBuilder.init })
      (c := CBuilder.init) rfl rfl hc'
      (by simp only [flushed]; rw [hi.acc]; simp)
      (by
        simp only [flushed]
        intro b hb
        rw [List.mem_append, List.mem_singleton] at hb
        rcases hb with hb | rfl
        · exact hi.ne b hb
        · exact hne)
      hsorted
      (by
        simp only [flushed]
        rw [List.map_append, hi.divs]
        have := divsBetween_snoc s.cutE s.curE ([] ++ [e]) l e hi.ne hne hl rfl
        rw [this, List.map_append]
        congr 1
        simp only [List.map_cons, List.map_nil, keyTs, indexEntry, dividerOf, hk, ht])
      (by simp only [flushed]; rw [hi.blocksB, List.map_append, hcb]; rfl)
      (by simp only [flushed]; rw [(cput_ok hidx).1]; simp only; rw [hi.indexB, build_snoc])

/-- **C10** whatever is attempted (refused attempts change nothing), the invariant holds -/
theorem sinv_putAll (o : SstOpts) : ∀ (atts : List KV) (s : SB), SInv o s → SInv o (SB.putAll o s atts).2
  | [], _, h => h
  | e :: es, s, h => by
    simp only [SB.putAll]
    cases hp : s.put o e with
    | error err => exact sinv_putAll o es s h
    | ok s' => exact sinv_putAll o es s' (sinv_put h hp)

/-- the flush at `seal`: the finished cut and its index -/
theorem seal_flush_cut {o : SstOpts} {s sf : SB} (hi : SInv o s) {c : CBuilder} (hcur : s.cur = some c)
    (hf : s.flush o (minimalSuccessor s.lastKey s.lastTs).1 (minimalSuccessor s.lastKey s.lastTs).2 = .ok sf) :
    sf.cutE.flatten = s.accepted ∧ (∀ b ∈ sf.cutE, b ≠ [])
    ∧ sf.divE.map keyTs = (dividersOf sf.cutE).map keyTs
    ∧ sf.blocks = sf.cutE.map (fun es => (build o.blk es).seal) ∧ sf.index.b = build o.blk sf.divE := by
  obtain ⟨hne, hcb⟩ := hi.opn c hcur
  obtain ⟨c2, idx, hcur2, hidx, rfl⟩ := flush_ok hf
  rw [hcur] at hcur2; cases hcur2
  obtain ⟨l, hl⟩ := getLast?_some_of_ne hne
  have hlacc : s.accepted.getLast? = some l := by
    rw [hi.acc, List.getLast?_append, hl]; rfl
  obtain ⟨hk, ht⟩ := hi.last l hlacc
  have hne' : ∀ b ∈ s.cutE ++ [s.curE], b ≠ [] := by
    intro b hb
    rw [List.mem_append, List.mem_singleton] at hb
    rcases hb with hb | rfl
    · exact hi.ne b hb
    · exact hne
  refine ⟨?_, hne', ?_, ?_, ?_⟩
  · simp only [flushed]; rw [hi.acc]; simp
  · simp only [flushed]
    rw [dividersOf_split (s.cutE ++ [s.curE]) s.curE l hne' (by simp) hl, List.map_append, List.map_append, hi.divs]
    congr 1
    simp only [List.map_cons, List.map_nil, keyTs, indexEntry, dividerOf, hk, ht]
  · simp only [flushed]; rw [hi.blocksB, List.map_append, hcb]; rfl
  · simp only [flushed]; rw [(cput_ok hidx).1]; simp only; rw [hi.indexB, build_snoc]

/-- only the key and timestamp of a divider matter -/
theorem separates_congr {L : List (List KV)} {D D' : List KV} (h : Separates L D)
    (he : D'.map keyTs = D.map keyTs) : Separates L D' := by
  have hlen : D'.length = D.length := by simpa using congrArg List.length he
  have hget : ∀ (i : Nat) (d' : KV), D'[i]? = some d' → ∃ d, D[i]? = some d ∧ keyTs d = keyTs d' := by
    intro i d' hd'
    have := congrArg (fun l => l[i]?) he
    simp only [List.getElem?_map, hd', Option.map_some] at this
    cases hd : D[i]? with
    | none => rw [hd] at this; cases this
    | some d => rw [hd] at this; simp only [Option.map_some, Option.some.injEq] at this; exact ⟨d, rfl, this.symm⟩
  have hlt : ∀ (d d' e : KV), keyTs d = keyTs d' → KV.lt d' e = KV.lt d e := by
    intro d d' e hk
    simp only [keyTs, Prod.mk.injEq] at hk
    unfold KV.lt; rw [hk.1, hk.2]
  refine ⟨by rw [hlen]; exact h.len, ?_, ?_⟩
  · intro i d' blk e hd' hb he'
    obtain ⟨d, hd, hk⟩ := hget i d' hd'
    rw [hlt d d' e hk]; exact h.ge i d blk e hd hb he'
  · intro i d' blk e hd' hb he'
    obtain ⟨d, hd, hk⟩ := hget i d' hd'
    rw [hlt d d' e hk]; exact h.lt i d blk e hd hb he'

theorem separates_cursor_refines (L : List (List KV)) (D : List KV) (hne : ∀ b ∈ L, b ≠ []) (hsep : Separates L D)
    (ops : List KOp) :
    SstCur.run ⟨L, D, 0, none⟩ (ops.map KOp.toOp) = Ref.run ⟨L.flatten, 0⟩ (ops.map KOp.toOp) := by
  apply sst_cursor_refines (L := L) (D := D) hne _ 0 none 0 SRel.first
  intro pred hp
  obtain ⟨op, _, hop⟩ := List.mem_map.mp hp
  cases op <;> simp [KOp.toOp] at hop
  subst hop
  exact separates_divOk hsep _

/-- a sealed block decodes to its entries -/
theorem decodeBlock_seal (o : Opts) (es : List KV) (hwf : ∀ e ∈ es, e.Wf) (hfit : Fits (build o es)) :
    decodeBlock (build o es).seal = some es := by
  obtain ⟨blk, h1, h2⟩ := toDBlock_seal o es hwf hfit
  unfold decodeBlock
  rw [h1]; simp only [h2, Option.map_some]

/-- **C10** `SstBuilder`, start to `seal`: feed any attempts (out of order, duplicate, oversize
    ones are refused and change nothing); at `seal` the data blocks and the index block that were
    written decode to a cut of the accepted entries into non-empty blocks and to separating index
    entries; the accepted entries are sorted; and the table cursor over what was written shows, for
    every finite program over keys, what the reference cursor over the accepted entries shows;
    `load` is the newest version not newer than the timestamp, or its tombstone.
    (`Wf` / `Fits`: the fields fit the wire types and the `u32` offsets — hypotheses of this
    statement; they follow from the builders' limits: `Blue.Sst.sealed_side_conditions`.) -/
theorem sst_builder_refines (o : SstOpts) (atts : List KV) (c : CBuilder) (sf : SB)
    (hcur : (SB.putAll o SB.init atts).2.cur = some c)
    (hf : (SB.putAll o SB.init atts).2.flush o
        (minimalSuccessor (SB.putAll o SB.init atts).2.lastKey (SB.putAll o SB.init atts).2.lastTs).1
        (minimalSuccessor (SB.putAll o SB.init atts).2.lastKey (SB.putAll o SB.init atts).2.lastTs).2 = .ok sf)
    (hwfE : ∀ e ∈ (SB.putAll o SB.init atts).2.accepted, e.Wf) (hwfD : ∀ d ∈ sf.divE, d.Wf)
    (hfitE : ∀ es ∈ sf.cutE, Fits (build o.blk es)) (hfitD : Fits (build o.blk sf.divE)) :
    mapOpt decodeBlock sf.blocks = some sf.cutE
    ∧ decodeBlock sf.index.b.seal = some sf.divE
    ∧ sf.cutE.flatten = (SB.putAll o SB.init atts).2.accepted
    ∧ (∀ b ∈ sf.cutE, b ≠ [])
    ∧ Sorted (SB.putAll o SB.init atts).2.accepted
    ∧ Separates sf.cutE sf.divE
    ∧ (∀ ops : List KOp, SstCur.run ⟨sf.cutE, sf.divE, 0, none⟩ (ops.map KOp.toOp)
        = Ref.run ⟨(SB.putAll o SB.init atts).2.accepted, 0⟩ (ops.map KOp.toOp))
    ∧ (∀ (fileSize : Nat) (setsum : List Nat) (smallest biggest : Nat) (k : List Nat) (ts : Nat),
        (Table.mk sf.cutE sf.divE fileSize setsum smallest biggest).load k ts
          = loadSpec (SB.putAll o SB.init atts).2.accepted k ts) := by
  have hi := sinv_putAll o atts SB.init (sinv_init o)
  obtain ⟨h1, h2, h3, h4, h5⟩ := seal_flush_cut hi hcur hf
  have hsorted : Sorted sf.cutE.flatten := by rw [h1]; exact hi.sorted
  have hsep : Separates sf.cutE sf.divE := separates_congr (dividersOf_separates sf.cutE h2 hsorted) h3
  refine ⟨?_, ?_, h1, h2, hi.sorted, hsep, ?_, ?_⟩
  · rw [h4]
    have := mapOpt_map decodeBlock (fun es => (build o.blk es).seal) id sf.cutE (by
      intro es hes
      apply decodeBlock_seal o.blk es _ (hfitE es hes)
      intro e he
      apply hwfE e
      rw [← h1]
      exact List.mem_flatten.mpr ⟨es, hes, he⟩)
    simpa using this
  · rw [h5]; exact decodeBlock_seal o.blk sf.divE hwfD hfitD
  · intro ops
    have := separates_cursor_refines sf.cutE sf.divE h2 hsep ops
    rw [h1] at this; exact this
  · intro fileSize setsum smallest biggest k ts
    have := table_load_eq_spec ⟨sf.cutE, sf.divE, fileSize, setsum, smallest, biggest⟩ h2 hsorted k ts
      (separates_divOk hsep k)
    rw [h1] at this; exact this

end Blue.Sst
