import Blue.Model.BooksCrash
import Blue.Proofs.StoreFault
import Blue.Proofs.LogRetire
/-! **C04 ∘ C02**: the books at every crash point, after the reopen, and over incarnations.

    `booked g h files txs` (Blue/Model/BooksCrash.lean) are the records the manifest transactions of
    the protocol model `Blue.StoreCrash` are written with.  `GoodTx files tx`: the listed files `tx`
    removes are, as a multiset, its `rms` — true of every transaction of the alphabet (a flush / a
    recovery removes nothing; a compaction removes `files.filter p`), without any distinctness of
    names (the model allows a compaction with two empty outputs).  From it: the chain verifies and
    its last `O` is the sum over the listed files (`booked_ok`).  The manifest of every crash image
    is a prefix of the transactions appended, a prefix of a good chain is good. -/
namespace Blue.BooksCrash
open Blue.Books Blue.StoreCrash Blue.StoreFault

variable {G : Type} [DecidableEq G] (g : Grp G) (h : Nat → G)

/-! ### one transaction balances -/

def GoodTx (files : List Name) (tx : Tx) : Prop :=
  (files.filter (fun f => decide (f ∈ tx.rms))).Perm tx.rms

def GoodTxs : List Name → List Tx → Prop
  | _, [] => True
  | files, tx :: txs => GoodTx files tx ∧ GoodTxs (StoreCrash.applyTx files tx) txs

omit [DecidableEq G] in
theorem alg (kept R A : G) : g.add kept A = g.sub (g.add R kept) (g.sub R A) := by
  unfold Grp.sub
  have hnegneg : ∀ x, g.neg (g.neg x) = x := by
    intro x
    have h1 := g.add_neg (g.neg x)
    have h2 := g.add_neg x
    calc g.neg (g.neg x) = g.add g.zero (g.neg (g.neg x)) := (zero_add g _).symm
      _ = g.add (g.add x (g.neg x)) (g.neg (g.neg x)) := by rw [h2]
      _ = g.add x (g.add (g.neg x) (g.neg (g.neg x))) := g.add_assoc _ _ _
      _ = g.add x g.zero := by rw [h1]
      _ = x := g.add_zero x
  have hnegadd : ∀ x y, g.neg (g.add x y) = g.add (g.neg x) (g.neg y) := by
    intro x y
    have h : g.add (g.add x y) (g.add (g.neg x) (g.neg y)) = g.zero := by
      rw [g.add_assoc, ← g.add_assoc y, g.add_comm y (g.neg x), g.add_assoc (g.neg x), g.add_neg, g.add_zero,
        g.add_neg]
    calc g.neg (g.add x y) = g.add (g.neg (g.add x y)) g.zero := (g.add_zero _).symm
      _ = g.add (g.neg (g.add x y)) (g.add (g.add x y) (g.add (g.neg x) (g.neg y))) := by rw [h]
      _ = g.add (g.add (g.neg (g.add x y)) (g.add x y)) (g.add (g.neg x) (g.neg y)) := (g.add_assoc _ _ _).symm
      _ = g.add g.zero (g.add (g.neg x) (g.neg y)) := by rw [g.add_comm (g.neg (g.add x y)), g.add_neg]
      _ = g.add (g.neg x) (g.neg y) := zero_add g _
  rw [hnegadd, hnegneg]
  calc g.add kept A = g.add (g.add g.zero kept) A := by rw [zero_add]
    _ = g.add (g.add (g.add R (g.neg R)) kept) A := by rw [g.add_neg]
    _ = g.add (g.add R kept) (g.add (g.neg R) A) := by
        rw [g.add_assoc R (g.neg R) kept, g.add_comm (g.neg R) kept, ← g.add_assoc R kept (g.neg R),
          g.add_assoc (g.add R kept) (g.neg R) A]

omit [DecidableEq G] in
/-- the new version sums to `O = I − D` -/
theorem balance (s : Name → G) (files : List Name) (tx : Tx) (hg : GoodTx files tx) :
    total g s (StoreCrash.applyTx files tx)
      = g.sub (total g s files) (computedDiscard g s tx.rms tx.adds) := by
  unfold StoreCrash.applyTx computedDiscard
  rw [total_append]
  have hsplit := total_filter_split g s (fun f => decide (f ∈ tx.rms)) files
  have hf : files.filter (fun x => decide (x ∉ tx.rms)) = files.filter (fun f => !decide (f ∈ tx.rms)) := by
    apply List.filter_congr
    intro x _
    simp
  rw [hf, ← hsplit, total_perm g s hg]
  exact alg g _ _ _

/-! ### a chain of good transactions verifies, and its last `O` is the sum over the listed files -/

theorem booked_ok : ∀ (txs : List Tx) (files : List Name), GoodTxs files txs →
    verify g (digest g h) (total g (digest g h) files) (booked g h files txs) = true
    ∧ lastO (total g (digest g h) files) (booked g h files txs)
        = total g (digest g h) (txs.foldl StoreCrash.applyTx files)
  | [], _, _ => ⟨rfl, rfl⟩
  | tx :: txs, files, hgood => by
    obtain ⟨h1, h2⟩ := hgood
    have hb := balance g (digest g h) files tx h1
    obtain ⟨v, l⟩ := booked_ok txs _ h2
    rw [hb] at v l
    constructor
    · simp only [booked, verify, storeRec, decide_true, Bool.true_and, Bool.and_eq_true, decide_eq_true_eq]
      exact ⟨⟨(sub_add_cancel g _ _).symm, trivial⟩, v⟩
    · exact l

omit [DecidableEq G] in
theorem booked_append : ∀ (a b : List Tx) (files : List Name),
    booked g h files (a ++ b) = booked g h files a ++ booked g h (a.foldl StoreCrash.applyTx files) b
  | [], _, _ => rfl
  | tx :: a, b, files => by
    show _ :: booked g h _ (a ++ b) = _ :: (booked g h _ a ++ _)
    rw [booked_append a b]; rfl

theorem goodTxs_append : ∀ (a b : List Tx) (files : List Name),
    GoodTxs files (a ++ b) ↔ GoodTxs files a ∧ GoodTxs (a.foldl StoreCrash.applyTx files) b
  | [], _, _ => ⟨fun h => ⟨trivial, h⟩, fun h => h.2⟩
  | tx :: a, b, files => by
    show GoodTx files tx ∧ GoodTxs _ (a ++ b) ↔ (GoodTx files tx ∧ GoodTxs _ a) ∧ _
    rw [goodTxs_append a b, and_assoc]; rfl

theorem goodTxs_prefix {a c : List Tx} (hp : a <+: c) {files : List Name} (hc : GoodTxs files c) :
    GoodTxs files a := by
  obtain ⟨b, rfl⟩ := hp
  exact ((goodTxs_append a b files).mp hc).1

omit [DecidableEq G] in
theorem lastO_append {F : Type} : ∀ (a b : List (Rec G F)) (o : G), lastO o (a ++ b) = lastO (lastO o a) b
  | [], _, _ => rfl
  | r :: a, b, _ => lastO_append a b r.O

theorem verify_append_iff {F : Type} [DecidableEq F] (s : F → G) : ∀ (a b : List (Rec G F)) (o : G),
    verify g s o (a ++ b) = (verify g s o a && verify g s (lastO o a) b)
  | [], _, _ => by simp [verify, lastO]
  | r :: a, b, o => by
    simp only [List.cons_append, verify, lastO]
    rw [verify_append_iff s a b r.O]
    simp only [Bool.and_assoc]

/-- a manifest whose transactions only add is good from any file list -/
theorem good_addOnly : ∀ (txs : List Tx) (files : List Name), (∀ tx ∈ txs, tx.rms = []) → GoodTxs files txs
  | [], _, _ => trivial
  | tx :: txs, files, hall => by
    refine ⟨?_, good_addOnly txs _ (fun t ht => hall t (List.mem_cons_of_mem _ ht))⟩
    unfold GoodTx
    rw [hall tx List.mem_cons_self]
    simp

/-! ### the manifest of a run -/

theorem appendedTxs_append (a b : List Op) : appendedTxs (a ++ b) = appendedTxs a ++ appendedTxs b :=
  List.filterMap_append

theorem appendedTxs_nil {l : List Op} (hl : ∀ op ∈ l, txOf op = none) : appendedTxs l = [] :=
  List.filterMap_eq_nil_iff.mpr hl

theorem maniAll_step (fs : Fs) (op : Op) : maniAll (step fs op) = maniAll fs ++ appendedTxs [op] := by
  cases op with
  | maniAppend tx =>
    show fs.maniDurable ++ (fs.maniPending ++ [tx]) = (fs.maniDurable ++ fs.maniPending) ++ [tx]
    rw [List.append_assoc]
  | maniSync =>
    show (fs.maniDurable ++ fs.maniPending) ++ [] = (fs.maniDurable ++ fs.maniPending) ++ []
    rfl
  | link nm =>
    unfold maniAll
    rw [(step_link_mani fs nm).1, (step_link_mani fs nm).2]
    exact (List.append_nil _).symm
  | _ => exact (List.append_nil _).symm

theorem maniAll_run : ∀ (ops : List Op) (fs : Fs), maniAll (run fs ops) = maniAll fs ++ appendedTxs ops
  | [], fs => (List.append_nil _).symm
  | op :: t, fs => by
    rw [run_cons, maniAll_run t, maniAll_step, List.append_assoc, ← appendedTxs_append]
    rfl

theorem maniOf_prefix (b : Bool) (fs : Fs) : maniOf b fs <+: maniAll fs := by
  cases b
  · exact List.prefix_refl _
  · exact List.prefix_append _ _

theorem appendedTxs_take_prefix (ops : List Op) (n : Nat) : appendedTxs (ops.take n) <+: appendedTxs ops := by
  have : appendedTxs ops = appendedTxs (ops.take n) ++ appendedTxs (ops.drop n) := by
    rw [← appendedTxs_append, List.take_append_drop]
  rw [this]
  exact List.prefix_append _ _

/-! ### every block of the alphabet appends good transactions -/

theorem good_block (kv : Kv) (c : Client) :
    GoodTxs kv.files (appendedTxs (block kv c))
    ∧ (after kv c).files = (appendedTxs (block kv c)).foldl StoreCrash.applyTx kv.files := by
  cases c with
  | put => exact ⟨trivial, rfl⟩
  | flush =>
    by_cases hne : kv.content = []
    · have hb : block kv .flush = [] := by simp [block, hne]
      have ha : after kv .flush = kv := by simp [after, hne]
      rw [hb, ha]; exact ⟨trivial, rfl⟩
    · have happ : appendedTxs (block kv .flush) = [⟨[kv.content], []⟩] := by
        rw [flush_split' kv hne]; rfl
      have ha : (after kv .flush).files = StoreCrash.applyTx kv.files ⟨[kv.content], []⟩ := by simp [after, hne]
      rw [happ, ha]
      exact ⟨good_addOnly _ _ (by intro tx ht; rw [List.mem_singleton.mp ht]), rfl⟩
  | reopen =>
    by_cases hne : kv.content = []
    · have hb : block kv .reopen = [.logTrash kv.cur, .logCreate (kv.cur + 1)] := by simp [block, hne]
      have ha : (after kv .reopen).files = kv.files := by simp [after, hne]
      rw [hb, ha]; exact ⟨trivial, rfl⟩
    · have happ : appendedTxs (block kv .reopen) = [⟨[kv.content], []⟩] := by
        rw [reopen_split' kv hne]; rfl
      have ha : (after kv .reopen).files = StoreCrash.applyTx kv.files ⟨[kv.content], []⟩ := by simp [after, hne]
      rw [happ, ha]
      exact ⟨good_addOnly _ _ (by intro tx ht; rw [List.mem_singleton.mp ht]), rfl⟩
  | compact p outs =>
    by_cases hv : validCompact kv p outs
    · have hpre : appendedTxs (outs.flatMap (fun o => [Op.tmpCreate o o, Op.tmpSync o]) ++ outs.map Op.link
          ++ outs.map Op.tmpUnlink) = [] := by
        apply appendedTxs_nil
        intro op hop
        simp only [List.mem_append, List.mem_flatMap, List.mem_map, List.mem_cons, List.not_mem_nil,
          or_false] at hop
        rcases hop with (⟨o, _, rfl | rfl⟩ | ⟨o, _, rfl⟩) | ⟨o, _, rfl⟩ <;> rfl
      have hpost : appendedTxs ((kv.files.filter p).map Op.sstTrash) = [] := by
        apply appendedTxs_nil
        intro op hop
        obtain ⟨o, _, rfl⟩ := List.mem_map.mp hop
        rfl
      have happ : appendedTxs (block kv (.compact p outs)) = [⟨outs, kv.files.filter p⟩] := by
        rw [compact_split kv p outs hv, appendedTxs_append, appendedTxs_append, hpre, hpost]
        rfl
      rw [happ]
      refine ⟨⟨?_, trivial⟩, by simp [after, hv]⟩
      unfold GoodTx
      have : kv.files.filter (fun f => decide (f ∈ kv.files.filter p)) = kv.files.filter p := by
        apply List.filter_congr
        intro x hx
        simp [List.mem_filter, hx]
      rw [this]
    · simp [block, after, hv, appendedTxs, GoodTxs]

/-- **every history**: the transactions its operation list appends are good from the client's files -/
theorem good_hist : ∀ (hist : List Client) (kv : Kv), GoodTxs kv.files (appendedTxs (opsOf hist kv))
  | [], _ => trivial
  | c :: cs, kv => by
    show GoodTxs kv.files (appendedTxs (block kv c ++ opsOf cs (after kv c)))
    rw [appendedTxs_append, goodTxs_append]
    refine ⟨(good_block kv c).1, ?_⟩
    rw [← (good_block kv c).2]
    exact good_hist cs (after kv c)

/-! ### files: digests recomputed from the bytes -/

omit [DecidableEq G] in
theorem total_flatten : ∀ (L : List Name), total g (digest g h) L = total g h L.flatten
  | [] => rfl
  | nm :: t => by
    rw [total_cons, List.flatten_cons, total_append, total_flatten t]; rfl

omit [DecidableEq G] in
theorem fileDigest_whole {view : File → List Nat} {fs : Fs} {nm : Name}
    (hf : (find fs.sst nm).map view = some nm) : fileDigest g h view fs nm = some (digest g h nm) := by
  unfold fileDigest
  cases hfind : find fs.sst nm with
  | none => rw [hfind] at hf; cases hf
  | some f =>
    rw [hfind] at hf
    simp only [Option.map_some] at hf ⊢
    injection hf with hf
    rw [hf]; rfl

omit [DecidableEq G] in
theorem treeSetsum_whole {view : File → List Nat} {fs : Fs} : ∀ (L : List Name),
    (∀ nm ∈ L, (find fs.sst nm).map view = some nm) →
    treeSetsum g h view fs L = some (total g (digest g h) L)
  | [], _ => rfl
  | nm :: t, hall => by
    have h1 := fileDigest_whole g h (hall nm List.mem_cons_self)
    have h2 := treeSetsum_whole t (fun x hx => hall x (List.mem_cons_of_mem _ hx))
    simp only [treeSetsum]
    rw [h1, h2]; rfl

/-- **a good manifest and a reopen that succeeds**: the chain verifies, its last `O` is the sum over
    the listed files, every listed file recomputes to its recorded digest, the open-time comparison
    succeeds, and `O` plus the logs' batches not in a listed file is the sum over what the reopen yields -/
theorem books_of_recover {view : File → List Nat} {M : List Tx} {fs : Fs} {l : List Nat}
    (hgood : GoodTxs [] M) (hrec : recover view M fs = some l) :
    verify g (digest g h) g.zero (booked g h [] M) = true
    ∧ maniO g h M = total g (digest g h) (live M)
    ∧ (∀ nm ∈ live M, fileDigest g h view fs nm = some (digest g h nm))
    ∧ fromManifestOk g h view M fs = true
    ∧ g.add (maniO g h M) (total g h (logPart (live M) (fs.logs.map (fun l => view l.2)))) = total g h l := by
  obtain ⟨hv, hl⟩ := booked_ok g h M [] hgood
  obtain ⟨hwhole, hlist⟩ := recover_inv hrec
  have hO : maniO g h M = total g (digest g h) (live M) := hl
  refine ⟨hv, hO, fun nm hnm => fileDigest_whole g h (hwhole nm hnm), ?_, ?_⟩
  · unfold fromManifestOk
    rw [treeSetsum_whole g h _ hwhole, hO]
    exact decide_eq_true rfl
  · rw [hO, hlist, total_append, total_flatten]

/-! ### (2) the books at every crash point -/

theorem good_crash (hist : List Client) (n : Nat) (b : Bool) :
    GoodTxs [] (maniOf b (run fs0 ((opsOf hist kv0).take n))) := by
  apply goodTxs_prefix (maniOf_prefix b _)
  rw [maniAll_run]
  show GoodTxs [] ([] ++ appendedTxs ((opsOf hist kv0).take n))
  rw [List.nil_append]
  exact goodTxs_prefix (appendedTxs_take_prefix _ n) (good_hist hist kv0)

theorem recover_viewOf (b : Bool) (fs : Fs) :
    recover (viewOf b) (maniOf b fs) fs = if b then recoverB fs else recoverA fs := by
  cases b <;> rfl

/-- **`books_at_every_crash_point`**: every history of the alphabet of C02 (puts, flushes, merge
    compactions, clean reopens), every crash point `n` of its system-call sequence, both persistence
    models (`b = true`: unsynced bytes are lost — the synced manifest, the durable bytes of the
    files; `b = false`: completed calls persist): the manifest the crash leaves, booked, is a chain
    the verifier accepts from the zero setsum; its last `O` is the group sum over the files it lists;
    each listed file is in `sst/` and its digest recomputed from its bytes is the recorded one; the
    open-time comparison of `from_manifest` holds; and `O` plus the batches of the logs still in the
    directory (those not already in a listed file) is the sum over the batches `0 … k-1`, with
    `acknowledged ≤ k ≤ appended` — one setsum covers all data at the crash point itself. -/
theorem books_at_every_crash_point (hist : List Client) (n : Nat) (b : Bool) :
    let fs := run fs0 ((opsOf hist kv0).take n)
    let M := maniOf b fs
    verify g (digest g h) g.zero (booked g h [] M) = true
    ∧ maniO g h M = total g (digest g h) (live M)
    ∧ (∀ nm ∈ live M, fileDigest g h (viewOf b) fs nm = some (digest g h nm))
    ∧ fromManifestOk g h (viewOf b) M fs = true
    ∧ ∃ k, acked ((opsOf hist kv0).take n) ≤ k ∧ k ≤ appended ((opsOf hist kv0).take n)
        ∧ g.add (maniO g h M) (total g h (logPart (live M) (fs.logs.map (fun l => viewOf b l.2))))
            = total g h (List.range k) := by
  intro fs M
  have hgood := good_crash hist n b
  obtain ⟨hB, hA⟩ := crash_recover_init hist n
  have hok : Ok (recover (viewOf b) M fs) (acked ((opsOf hist kv0).take n)) (appended ((opsOf hist kv0).take n)) := by
    show Ok (recover (viewOf b) (maniOf b fs) fs) _ _
    rw [recover_viewOf]
    cases b
    · exact hA
    · exact hB
  obtain ⟨l, k, hl, hp, h1, h2⟩ := hok
  obtain ⟨r1, r2, r3, r4, r5⟩ := books_of_recover g h hgood hl
  exact ⟨r1, r2, r3, r4, k, h1, h2, by rw [r5, total_perm g h hp]⟩

/-! ### (3) the reopen of a crash image -/

theorem appendedTxs_recOne (fs : Fs) (n : Nat) (d : List Nat) :
    appendedTxs (recOne fs n d) = if d = [] ∨ d ∈ live (maniAll fs) then [] else [⟨[d], []⟩] := by
  unfold recOne maniAll
  by_cases hd : d = []
  · subst hd
    simp only [↓reduceIte, true_or]; rfl
  · by_cases hl : d ∈ live (fs.maniDurable ++ fs.maniPending)
    · simp only [hd, hl, ↓reduceIte, or_true]
      cases (find fs.sst d).isSome <;> rfl
    · simp only [hd, hl, ↓reduceIte, or_self]
      cases (find fs.sst d).isSome <;> rfl

theorem recLogs_addOnly : ∀ (ls : List (Nat × File)) (fs : Fs), ∀ tx ∈ appendedTxs (recLogs ls fs), tx.rms = []
  | [], _, _, ht => nomatch ht
  | l :: ls, fs, tx, ht => by
    have ht' : tx ∈ appendedTxs (recOne fs l.1 l.2.data ++ recLogs ls (run fs (recOne fs l.1 l.2.data))) := ht
    rw [appendedTxs_append, List.mem_append, appendedTxs_recOne] at ht'
    rcases ht' with ht' | ht'
    · split at ht'
      · cases ht'
      · rw [List.mem_singleton.mp ht']
    · exact recLogs_addOnly ls _ tx ht'

theorem appendedTxs_recoverOps (fs : Fs) : appendedTxs (recoverOps fs) = appendedTxs (recLogs fs.logs fs) := by
  unfold recoverOps
  rw [appendedTxs_append, appendedTxs_append]
  have h1 : appendedTxs ((orphans (run fs (recLogs fs.logs fs))).map Op.sstTrash) = [] := by
    apply appendedTxs_nil
    intro op hop
    obtain ⟨o, _, rfl⟩ := List.mem_map.mp hop
    rfl
  rw [h1]
  show _ ++ [] ++ [] = _
  rw [List.append_nil, List.append_nil]

omit [DecidableEq G] in
theorem storeRec_ingest (L : List Name) (d : Name) :
    storeRec g (digest g h) L [] [d] = recoverRec g (digest g h) (total g (digest g h) L) d := by
  have hD : computedDiscard g (digest g h) ([] : List Name) [d] = g.sub g.zero (digest g h d) := by
    show g.sub g.zero (g.add (digest g h d) g.zero) = _
    rw [g.add_zero]
  unfold storeRec recoverRec
  rw [hD]

theorem recoverRecs_in {F : Type} [DecidableEq F] (s : F → G) {listed : List F} {f : F} (o : G) (fs : List F)
    (hin : f ∈ listed) : recoverRecs g s listed o (f :: fs) = recoverRecs g s listed o fs := by
  rw [recoverRecs, if_pos hin]

theorem recoverRecs_notin {F : Type} [DecidableEq F] (s : F → G) {listed : List F} {f : F} (o : G) (fs : List F)
    (hin : f ∉ listed) : recoverRecs g s listed o (f :: fs)
      = recoverRec g s o f :: recoverRecs g s (listed ++ [f]) (recoverRec g s o f).O fs := by
  rw [recoverRecs, if_neg hin]

/-- the records the recovery writes are the records of `Blue.Books.recoverRecs` (one per non-empty
    log whose SST the manifest does not list, each from the output recorded when its turn comes) -/
theorem recLogs_recs : ∀ (ls : List (Nat × File)) (fs : Fs),
    booked g h (live (maniAll fs)) (appendedTxs (recLogs ls fs))
      = recoverRecs g (digest g h) (live (maniAll fs)) (total g (digest g h) (live (maniAll fs)))
          ((ls.map (fun l => l.2.data)).filter (fun d => d ≠ []))
  | [], _ => rfl
  | l :: ls, fs => by
    have ih := recLogs_recs ls (run fs (recOne fs l.1 l.2.data))
    rw [maniAll_run, appendedTxs_recOne] at ih
    show booked g h _ (appendedTxs (recOne fs l.1 l.2.data ++ recLogs ls (run fs (recOne fs l.1 l.2.data)))) = _
    rw [appendedTxs_append, appendedTxs_recOne, List.map_cons, List.filter_cons]
    by_cases hd : l.2.data = []
    · rw [if_pos (Or.inl hd)] at ih ⊢
      rw [List.append_nil] at ih
      rw [List.nil_append, ih]
      simp [hd]
    · have hdec : decide (l.2.data ≠ []) = true := decide_eq_true hd
      rw [hdec, if_pos rfl]
      by_cases hl : l.2.data ∈ live (maniAll fs)
      · rw [if_pos (Or.inr hl)] at ih ⊢
        rw [List.append_nil] at ih
        rw [List.nil_append, ih, recoverRecs_in g _ _ _ hl]
      · have hno : ¬ (l.2.data = [] ∨ l.2.data ∈ live (maniAll fs)) := by
          intro hc; rcases hc with hc | hc; exact hd hc; exact hl hc
        rw [if_neg hno] at ih ⊢
        rw [live_append, applyTx_add] at ih
        rw [List.singleton_append]
        show storeRec g (digest g h) _ [] [l.2.data]
            :: booked g h (StoreCrash.applyTx (live (maniAll fs)) ⟨[l.2.data], []⟩) _ = _
        rw [applyTx_add, ih, storeRec_ingest, recoverRecs_notin g _ _ _ hl]
        congr 2
        show _ = g.sub _ (g.sub g.zero (digest g h l.2.data))
        rw [sub_zero_neg, total_append]
        show g.add _ (g.add (digest g h l.2.data) g.zero) = _
        rw [g.add_zero]

/-- **the reopen of any directory of the class `Img`** (C02 `recover_block`) whose manifest is a good
    chain: at the point where `from_manifest` runs (after `recover`), nothing is pending, the
    manifest is the old one plus the recovery's transactions, it is good again, and all the batches
    `0 … k-1` are in listed files -/
theorem recovery_img {fs : Fs} {k : Nat} (himg : Img fs k) (hgood : GoodTxs [] fs.maniDurable) :
    (run fs (recLogs fs.logs fs)).maniPending = []
    ∧ (run fs (recLogs fs.logs fs)).maniDurable = fs.maniDurable ++ appendedTxs (recLogs fs.logs fs)
    ∧ (run fs (recoverOps fs)).maniDurable = (run fs (recLogs fs.logs fs)).maniDurable
    ∧ GoodTxs [] (run fs (recLogs fs.logs fs)).maniDurable
    ∧ ∃ l, l.Perm (List.range k)
        ∧ recover (·.data) (run fs (recLogs fs.logs fs)).maniDurable (run fs (recLogs fs.logs fs)) = some l
        ∧ recover (·.durable) (run fs (recLogs fs.logs fs)).maniDurable (run fs (recLogs fs.logs fs)) = some l
        ∧ (run fs (recLogs fs.logs fs)).logs = [] := by
  obtain ⟨i1, i2, i3, i4, _, _⟩ := recLogs_block fs.logs fs k himg rfl
  have hfull := i1 (recLogs fs.logs fs).length
  rw [List.take_length] at hfull
  have himg1 : Img (run fs (recLogs fs.logs fs)) k :=
    himg.of_eq i2 i3 (by intro l hl; rw [i4] at hl; cases hl) hfull.2
  have hall := maniAll_run (recLogs fs.logs fs) fs
  have hmd : (run fs (recLogs fs.logs fs)).maniDurable = fs.maniDurable ++ appendedTxs (recLogs fs.logs fs) := by
    unfold maniAll at hall
    rw [i3, himg.mp, List.append_nil, List.append_nil] at hall
    exact hall
  obtain ⟨_, hInv, _, _, _⟩ := recover_block himg
  have hend : (run fs (recoverOps fs)).maniDurable = (run fs (recLogs fs.logs fs)).maniDurable := by
    have := maniAll_run (recoverOps fs) fs
    unfold maniAll at this
    rw [hInv.mp, himg.mp, List.append_nil, List.append_nil, appendedTxs_recoverOps] at this
    rw [this, hmd]
  refine ⟨i3, hmd, hend, ?_, ?_⟩
  · rw [hmd, goodTxs_append]
    exact ⟨hgood, good_addOnly _ _ (recLogs_addOnly _ _)⟩
  · obtain ⟨l, hl, hp⟩ := himg1.reco
    refine ⟨l, hp, ?_, ?_, i4⟩
    · rw [← himg1.recA_eq]; exact hl
    · have := himg1.recB_eq
      unfold recoverB at this
      rw [this]; exact hl

/-- the books of such a directory after `recover` -/
theorem books_recovery_img {fs : Fs} {k : Nat} (himg : Img fs k) (hgood : GoodTxs [] fs.maniDurable) :
    let fs1 := run fs (recLogs fs.logs fs)
    booked g h [] fs1.maniDurable
        = booked g h [] fs.maniDurable
          ++ recoverRecs g (digest g h) (live fs.maniDurable) (maniO g h fs.maniDurable) (logNames fs)
    ∧ verify g (digest g h) g.zero (booked g h [] fs1.maniDurable) = true
    ∧ maniO g h fs1.maniDurable
        = g.add (maniO g h fs.maniDurable) (total g (digest g h) (recovered (live fs.maniDurable) (logNames fs)))
    ∧ maniO g h fs1.maniDurable = total g (digest g h) (live fs1.maniDurable)
    ∧ maniO g h fs1.maniDurable = total g h (List.range k)
    ∧ (∀ nm ∈ live fs1.maniDurable, fileDigest g h (·.data) fs1 nm = some (digest g h nm)
        ∧ fileDigest g h (·.durable) fs1 nm = some (digest g h nm))
    ∧ fromManifestOk g h (·.data) fs1.maniDurable fs1 = true
    ∧ fromManifestOk g h (·.durable) fs1.maniDurable fs1 = true := by
  intro fs1
  obtain ⟨_, hmd, _, hg1, l, hp, hA, hB, hlogs⟩ := recovery_img himg hgood
  obtain ⟨a1, a2, a3, a4, a5⟩ := books_of_recover g h hg1 hA
  obtain ⟨_, _, b3, b4, _⟩ := books_of_recover g h hg1 hB
  have hO0 : maniO g h fs.maniDurable = total g (digest g h) (live fs.maniDurable) :=
    (booked_ok g h fs.maniDurable [] hgood).2
  have hma : maniAll fs = fs.maniDurable := by unfold maniAll; rw [himg.mp, List.append_nil]
  have hrecs : booked g h [] fs1.maniDurable
        = booked g h [] fs.maniDurable
          ++ recoverRecs g (digest g h) (live fs.maniDurable) (maniO g h fs.maniDurable) (logNames fs) := by
    show booked g h [] (run fs (recLogs fs.logs fs)).maniDurable = _
    rw [hmd, booked_append, hO0]
    have := recLogs_recs g h fs.logs fs
    rw [hma] at this
    exact congrArg _ this
  refine ⟨hrecs, a1, ?_, a2, ?_, fun nm hnm => ⟨a3 nm hnm, b3 nm hnm⟩, a4, b4⟩
  · show lastO g.zero (booked g h [] fs1.maniDurable) = _
    rw [hrecs, lastO_append]
    exact recover_output g (digest g h) (logNames fs) (live fs.maniDurable) (maniO g h fs.maniDurable)
  · have hl0 : (run fs (recLogs fs.logs fs)).logs = [] := hlogs
    rw [hl0] at a5
    simp only [List.map_nil, logPart_nil] at a5
    rw [← total_perm g h hp, ← a5]
    exact (g.add_zero _).symm

/-- **`books_after_recovery`**: the reopen of the crash image of any history at any crash point,
    under either persistence model.  `M` = the manifest the crash left, `fs1` = the directory when
    `recover` has run (one `recover_one` per log, ascending) and `from_manifest` compares:
    the booked manifest is the old chain followed by `Blue.Books.recoverRecs` (C04 `recover_chains`)
    on the non-empty logs; the verifier accepts it; its last `O` is the old `O` plus the recovered
    files, is the sum over the files listed now, and is the group sum over the batches `0 … k-1` with
    `acknowledged ≤ k ≤ appended` (every acknowledged batch; of the unacknowledged ones exactly
    those — at most the one put in flight — whose log append the crash image shows); every listed
    file recomputes to its digest from written and from synced bytes; `from_manifest`'s comparison
    succeeds; and the manifest the whole open leaves is that manifest. -/
theorem books_after_recovery (hist : List Client) (n : Nat) (b : Bool) :
    let img := image b (run fs0 ((opsOf hist kv0).take n))
    let M := maniOf b (run fs0 ((opsOf hist kv0).take n))
    let fs1 := run img (recLogs img.logs img)
    img.maniDurable = M
    ∧ (run img (recoverOps img)).maniDurable = fs1.maniDurable
    ∧ booked g h [] fs1.maniDurable
        = booked g h [] M ++ recoverRecs g (digest g h) (live M) (maniO g h M) (logNames img)
    ∧ verify g (digest g h) g.zero (booked g h [] fs1.maniDurable) = true
    ∧ maniO g h fs1.maniDurable = g.add (maniO g h M) (total g (digest g h) (recovered (live M) (logNames img)))
    ∧ maniO g h fs1.maniDurable = total g (digest g h) (live fs1.maniDurable)
    ∧ (∀ nm ∈ live fs1.maniDurable, fileDigest g h (·.data) fs1 nm = some (digest g h nm)
        ∧ fileDigest g h (·.durable) fs1 nm = some (digest g h nm))
    ∧ fromManifestOk g h (·.data) fs1.maniDurable fs1 = true
    ∧ fromManifestOk g h (·.durable) fs1.maniDurable fs1 = true
    ∧ ∃ k, acked ((opsOf hist kv0).take n) ≤ k ∧ k ≤ appended ((opsOf hist kv0).take n)
        ∧ maniO g h fs1.maniDurable = total g h (List.range k) := by
  intro img M fs1
  obtain ⟨k, k1, k2, himg⟩ := crash_image_img hist n b
  have hM : img.maniDurable = M := by cases b <;> rfl
  have hgood : GoodTxs [] img.maniDurable := by rw [hM]; exact good_crash hist n b
  obtain ⟨c1, c2, c3, c4, c5, c6, c7, c8⟩ := books_recovery_img g h himg hgood
  rw [hM] at c1 c3
  exact ⟨hM, (recovery_img himg hgood).2.2.1, c1, c2, c3, c4, c6, c7, c8, k, k1, k2, c5⟩

/-! ### (4) any number of incarnations -/

theorem good_epoch {fs : Fs} {k : Nat} (himg : Img fs k) (hgood : GoodTxs [] fs.maniDurable) (e : Epoch) :
    GoodTxs [] (image e.b (run fs (epochOps fs e))).maniDurable := by
  have hM : (image e.b (run fs (epochOps fs e))).maniDurable = maniOf e.b (run fs (epochOps fs e)) := by
    cases e.b <;> rfl
  rw [hM]
  apply goodTxs_prefix (maniOf_prefix e.b _)
  rw [maniAll_run]
  have hma : maniAll fs = fs.maniDurable := by unfold maniAll; rw [himg.mp, List.append_nil]
  have hpre : maniAll fs ++ appendedTxs (epochOps fs e)
      <+: maniAll fs ++ (appendedTxs (recoverOps fs) ++ appendedTxs (opsOf e.h (kvAfter fs))) := by
    rw [← appendedTxs_append]
    exact (List.prefix_append_right_inj _).mpr (appendedTxs_take_prefix _ e.n)
  apply goodTxs_prefix hpre
  rw [← List.append_assoc, goodTxs_append, goodTxs_append, hma]
  obtain ⟨_, hInv, _, _, _⟩ := recover_block himg
  refine ⟨⟨hgood, ?_⟩, ?_⟩
  · rw [appendedTxs_recoverOps]; exact good_addOnly _ _ (recLogs_addOnly _ _)
  · have hfiles : (kvAfter fs).files
        = (fs.maniDurable ++ appendedTxs (recoverOps fs)).foldl StoreCrash.applyTx [] := by
      rw [← hInv.md]
      have := maniAll_run (recoverOps fs) fs
      unfold maniAll at this
      rw [hInv.mp, himg.mp, List.append_nil, List.append_nil] at this
      rw [this]; rfl
    rw [← hfiles]
    exact good_hist e.h (kvAfter fs)

/-- **`books_over_incarnations`** (the shape of C02 `epochs_ok`): any number of incarnations — each
    opens what the previous one left, runs any history, and is cut anywhere, inside its recovery
    too, by a crash under either persistence model or a surfaced fault — starting from a directory
    of the class `Img` with a good manifest (the empty store is one): the last directory is of the
    class again, with `k'` between all acknowledgements and all appends, and its manifest is a good
    chain — so `books_of_img` applies to it, and `books_recovery_img` to its reopen. -/
theorem books_over_incarnations : ∀ (es : List Epoch) (fs : Fs) (k : Nat), Img fs k →
    GoodTxs [] fs.maniDurable →
    ∃ k', Img (runEpochs fs es) k' ∧ k + ackedEpochs fs es ≤ k' ∧ k' ≤ k + appendedEpochs fs es
      ∧ GoodTxs [] (runEpochs fs es).maniDurable
  | [], fs, k, himg, hgood => ⟨k, himg, by simp [ackedEpochs], by simp [appendedEpochs], hgood⟩
  | e :: es, fs, k, himg, hgood => by
    have hB : Ok (recoverB (run fs (epochOps fs e))) (k + acked (epochOps fs e))
        (k + appended (epochOps fs e)) := (epoch_ok himg e.h e.n).1
    have hA : Ok (recoverA (run fs (epochOps fs e))) (k + acked (epochOps fs e))
        (k + appended (epochOps fs e)) := (epoch_ok himg e.h e.n).2.1
    have hwf : Wf (run fs (epochOps fs e)) := (epoch_ok himg e.h e.n).2.2
    obtain ⟨k1, g1, g2, himg1⟩ := img_image e.b hwf hB hA
    obtain ⟨k', i1, i2, i3, i4⟩ := books_over_incarnations es _ k1 himg1 (good_epoch himg hgood e)
    refine ⟨k', i1, ?_, ?_, i4⟩
    · show k + (acked (epochOps fs e) + ackedEpochs (image e.b (run fs (epochOps fs e))) es) ≤ k'
      have : k + acked (epochOps fs e) ≤ k1 := g1
      omega
    · show k' ≤ k + (appended (epochOps fs e) + appendedEpochs (image e.b (run fs (epochOps fs e))) es)
      have : k1 ≤ k + appended (epochOps fs e) := g2
      omega

/-- the books of any directory of the class `Img` with a good manifest, as it is (before the next
    open): the chain verifies, `O` is the sum over the listed files, each listed file recomputes to
    its digest, `from_manifest`'s comparison holds, and `O` plus the logs' batches not yet in a
    listed file is the sum over the batches `0 … k-1` -/
theorem books_of_img {fs : Fs} {k : Nat} (himg : Img fs k) (hgood : GoodTxs [] fs.maniDurable) :
    verify g (digest g h) g.zero (booked g h [] fs.maniDurable) = true
    ∧ maniO g h fs.maniDurable = total g (digest g h) (live fs.maniDurable)
    ∧ (∀ nm ∈ live fs.maniDurable, fileDigest g h (·.data) fs nm = some (digest g h nm))
    ∧ fromManifestOk g h (·.data) fs.maniDurable fs = true
    ∧ g.add (maniO g h fs.maniDurable)
        (total g h (logPart (live fs.maniDurable) (fs.logs.map (fun l => l.2.data)))) = total g h (List.range k) := by
  obtain ⟨l, hl, hp⟩ := himg.reco
  rw [himg.recA_eq] at hl
  obtain ⟨r1, r2, r3, r4, r5⟩ := books_of_recover g h hgood hl
  exact ⟨r1, r2, r3, r4, by rw [r5, total_perm g h hp]⟩

end Blue.BooksCrash

#print axioms Blue.BooksCrash.books_at_every_crash_point
#print axioms Blue.BooksCrash.books_after_recovery
#print axioms Blue.BooksCrash.books_over_incarnations
#print axioms Blue.BooksCrash.books_of_img
#print axioms Blue.BooksCrash.books_recovery_img
