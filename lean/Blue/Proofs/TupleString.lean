import Blue.Proofs.TupleKey1
/-! **C16** ascending strings in the field-numbered format (`Iterate7BitChunks`): seven data bits
    per byte, low bit = "more follows", last chunk zero-padded.  The encoding is order preserving and
    self delimiting on byte strings (`Strong`), which needs that bit lengths are multiples of eight:
    on arbitrary bit strings the zero padding would identify `0` and `00`. -/
namespace Blue.TupleKey1
open Blue.TupleKey2

def Bits (l : List Nat) : Prop := ∀ b ∈ l, b < 2

theorem val7_lt : ∀ (w : Nat) (l : List Nat), Bits l → val7 l w < 2 ^ w
  | 0, l, _ => by cases l <;> simp [val7]
  | w + 1, [], _ => by simp [val7]; exact Nat.pos_of_neZero _
  | w + 1, x :: xs, h => by
    simp only [val7]
    have hx := h x List.mem_cons_self
    have := val7_lt w xs (fun b hb => h b (List.mem_cons_of_mem _ hb))
    rw [Nat.pow_succ]
    have : x * 2 ^ w ≤ 1 * 2 ^ w := Nat.mul_le_mul_right _ (by omega)
    omega

theorem val7_nil (w : Nat) : val7 [] w = 0 := by cases w <;> rfl

/-- the padded value is monotone in the bit-string order -/
theorem val7_mono : ∀ (w : Nat) (u v : List Nat), Bits u → Bits v → blt u v = true → val7 u w ≤ val7 v w
  | 0, u, v, _, _, _ => by cases u <;> cases v <;> simp [val7]
  | w + 1, [], v, _, _, _ => by rw [val7_nil]; exact Nat.zero_le _
  | w + 1, x :: xs, [], _, _, h => by simp [blt] at h
  | w + 1, x :: xs, y :: ys, hu, hv, h => by
    simp only [val7]
    simp only [blt] at h
    have hxs := val7_lt w xs (fun b hb => hu b (List.mem_cons_of_mem _ hb))
    by_cases hxy : x < y
    · have : (x + 1) * 2 ^ w ≤ y * 2 ^ w := Nat.mul_le_mul_right _ hxy
      rw [Nat.add_mul] at this; omega
    · rw [if_neg hxy] at h
      by_cases hyx : y < x
      · rw [if_pos hyx] at h; cases h
      · rw [if_neg hyx] at h
        have : x = y := by omega
        subst this
        have := val7_mono w xs ys (fun b hb => hu b (List.mem_cons_of_mem _ hb))
          (fun b hb => hv b (List.mem_cons_of_mem _ hb)) h
        omega

/-- strictly so when the two strings differ inside the shorter one and that one fits -/
theorem val7_strict : ∀ (w : Nat) (u v : List Nat), Bits u → Bits v → blt u v = true →
    v.length ≤ u.length → v.length ≤ w → val7 u w < val7 v w
  | 0, u, v, _, _, h, hl, hw => by
    have : v = [] := List.length_eq_zero_iff.mp (by omega)
    subst this
    cases u <;> simp [blt] at h
  | w + 1, [], v, _, _, h, hl, _ => by
    have : v = [] := List.length_eq_zero_iff.mp (by simpa using hl)
    subst this; simp [blt] at h
  | w + 1, x :: xs, [], _, _, h, _, _ => by simp [blt] at h
  | w + 1, x :: xs, y :: ys, hu, hv, h, hl, hw => by
    simp only [val7]
    simp only [blt] at h
    have hxs := val7_lt w xs (fun b hb => hu b (List.mem_cons_of_mem _ hb))
    by_cases hxy : x < y
    · have : (x + 1) * 2 ^ w ≤ y * 2 ^ w := Nat.mul_le_mul_right _ hxy
      rw [Nat.add_mul] at this; omega
    · rw [if_neg hxy] at h
      by_cases hyx : y < x
      · rw [if_pos hyx] at h; cases h
      · rw [if_neg hyx] at h
        have : x = y := by omega
        subst this
        have := val7_strict w xs ys (fun b hb => hu b (List.mem_cons_of_mem _ hb))
          (fun b hb => hv b (List.mem_cons_of_mem _ hb)) h (by simpa using hl) (by simpa using hw)
        omega

/-- two strings of at least `w` bits: decided in the first `w` bits, or equal there and decided
    behind them -/
theorem val7_split : ∀ (w : Nat) (u v : List Nat), Bits u → Bits v → blt u v = true →
    w ≤ u.length → w ≤ v.length →
    val7 (u.take w) w < val7 (v.take w) w ∨ (u.take w = v.take w ∧ blt (u.drop w) (v.drop w) = true)
  | 0, u, v, _, _, h, _, _ => Or.inr ⟨rfl, h⟩
  | w + 1, [], _, _, _, _, hl, _ => by simp at hl
  | w + 1, _ :: _, [], _, _, _, _, hl => by simp at hl
  | w + 1, x :: xs, y :: ys, hu, hv, h, hlu, hlv => by
    simp only [List.take_succ_cons, List.drop_succ_cons, val7]
    simp only [blt] at h
    have hub : Bits xs := fun b hb => hu b (List.mem_cons_of_mem _ hb)
    have hvb : Bits ys := fun b hb => hv b (List.mem_cons_of_mem _ hb)
    have hxs := val7_lt w (xs.take w) (fun b hb => hub b (List.mem_of_mem_take hb))
    by_cases hxy : x < y
    · left
      have : (x + 1) * 2 ^ w ≤ y * 2 ^ w := Nat.mul_le_mul_right _ hxy
      rw [Nat.add_mul] at this; omega
    · rw [if_neg hxy] at h
      by_cases hyx : y < x
      · rw [if_pos hyx] at h; cases h
      · rw [if_neg hyx] at h
        have : x = y := by omega
        subst this
        rcases val7_split w xs ys hub hvb h (by simpa using hlu) (by simpa using hlv) with hlt | ⟨he, hb⟩
        · left; omega
        · right; exact ⟨by rw [he], hb⟩

theorem val7_take (w : Nat) : ∀ (l : List Nat), val7 (l.take w) w = val7 l w := by
  induction w with
  | zero => intro l; cases l <;> simp [val7]
  | succ w ih =>
    intro l
    cases l with
    | nil => rfl
    | cons x xs => simp only [List.take_succ_cons, val7]; rw [ih]

theorem chunks_succ (f : Nat) (bl : List Nat) :
    chunks (f + 1) bl = if bl.length > 7 then (2 * val7 (bl.take 7) 7 + 1) :: chunks f (bl.drop 7)
      else if bl.length > 0 then [2 * val7 bl 7] else [] := rfl

/-- the chunk sequence of a non-empty bit string compares like the bit string, whatever follows,
    provided the two lengths agree modulo 8 -/
theorem chunks_strong : ∀ (n : Nat) (a b : List Nat), a.length ≤ n → Bits a → Bits b → a ≠ [] →
    a.length % 8 = b.length % 8 → blt a b = true →
    ∀ (fa fb : Nat), a.length < fa → b.length < fb →
    ∀ x y, blt (chunks fa a ++ x) (chunks fb b ++ y) = true := by
  intro n
  induction n with
  | zero =>
    intro a b hl _ _ hne
    exact absurd (List.length_eq_zero_iff.mp (by omega)) hne
  | succ n ih =>
    intro a b hl ha hb hne hmod hlt fa fb hfa hfb x y
    obtain ⟨fa', rfl⟩ : ∃ k, fa = k + 1 := ⟨fa - 1, by omega⟩
    obtain ⟨fb', rfl⟩ : ∃ k, fb = k + 1 := ⟨fb - 1, by omega⟩
    rw [chunks_succ, chunks_succ]
    have hapos : 0 < a.length := List.length_pos_iff.mpr hne
    by_cases ha7 : a.length > 7
    · rw [if_pos ha7]
      by_cases hb7 : b.length > 7
      · rw [if_pos hb7]
        rcases val7_split 7 a b ha hb hlt (by omega) (by omega) with hv | ⟨he, hrest⟩
        · exact blt_cons_lt (by omega) _ _
        · rw [he]
          simp only [List.cons_append, blt_cons_same]
          apply ih (a.drop 7) (b.drop 7)
          · simp only [List.length_drop]; omega
          · exact fun c hc => ha c (List.mem_of_mem_drop hc)
          · exact fun c hc => hb c (List.mem_of_mem_drop hc)
          · intro h0
            have := congrArg List.length h0
            simp only [List.length_drop, List.length_nil] at this; omega
          · simp only [List.length_drop]; omega
          · exact hrest
          · simp only [List.length_drop]; omega
          · simp only [List.length_drop]; omega
      · rw [if_neg hb7]
        -- `b` is shorter and still larger: they differ inside `b`
        have hbpos : 0 < b.length := by
          cases b with
          | nil => cases a <;> simp [blt] at hlt
          | cons _ _ => simp
        rw [if_pos hbpos]
        have hs := val7_strict 7 a b ha hb hlt (by omega) (by omega)
        rw [val7_take]
        exact blt_cons_lt (by omega) _ _
    · rw [if_neg ha7, if_pos hapos]
      by_cases hb7 : b.length > 7
      · rw [if_pos hb7]
        have hm := val7_mono 7 a b ha hb hlt
        rw [val7_take]
        exact blt_cons_lt (by omega) _ _
      · rw [if_neg hb7]
        have hbpos : 0 < b.length := by
          cases b with
          | nil => cases a <;> simp [blt] at hlt
          | cons _ _ => simp
        rw [if_pos hbpos]
        -- both are last chunks: the lengths agree, so they differ inside
        have hs := val7_strict 7 a b ha hb hlt (by omega) (by omega)
        exact blt_cons_lt (by omega) _ _

/-! ### from bytes to bits -/

def Bytes (s : List Nat) : Prop := ∀ b ∈ s, b < 256

theorem byteBits_eq_digits (b : Nat) : byteBits b = digits 2 b 8 := by
  simp [byteBits, digits]

theorem bits_cons (b : Nat) (s : List Nat) : bits (b :: s) = byteBits b ++ bits s := by
  simp [bits]

theorem bits_length : ∀ (s : List Nat), (bits s).length = 8 * s.length
  | [] => rfl
  | b :: s => by rw [bits_cons, List.length_append, bits_length s]; simp [byteBits]; omega

theorem bits_Bits : ∀ (s : List Nat), Bits (bits s)
  | [] => by intro b hb; simp [bits] at hb
  | x :: s => by
    intro b hb
    rw [bits_cons, List.mem_append] at hb
    rcases hb with hb | hb
    · simp only [byteBits, List.mem_cons, List.not_mem_nil, or_false] at hb
      rcases hb with rfl | rfl | rfl | rfl | rfl | rfl | rfl | rfl <;> exact Nat.mod_lt _ (by omega)
    · exact bits_Bits s b hb

/-- byte order is bit order -/
theorem bits_mono : ∀ (s t : List Nat), Bytes s → Bytes t → blt s t = true → blt (bits s) (bits t) = true
  | [], [], _, _, h => by simp [blt] at h
  | [], y :: ys, _, _, _ => by
    rw [bits_cons]
    simp [bits, byteBits, blt]
  | x :: xs, [], _, _, h => by simp [blt] at h
  | x :: xs, y :: ys, hs, ht, h => by
    rw [bits_cons, bits_cons, byteBits_eq_digits, byteBits_eq_digits]
    simp only [blt] at h
    have hx := hs x List.mem_cons_self
    have hy := ht y List.mem_cons_self
    by_cases hxy : x < y
    · have := digits_strong 2 (by omega) id (fun a b h _ => h) 8 x y
        (by rw [Nat.mod_eq_of_lt (by omega), Nat.mod_eq_of_lt (by omega)]; exact hxy) (bits xs) (bits ys)
      simpa using this
    · rw [if_neg hxy] at h
      by_cases hyx : y < x
      · rw [if_pos hyx] at h; cases h
      · rw [if_neg hyx] at h
        have : x = y := by omega
        subst this
        rw [blt_append_left]
        exact bits_mono xs ys (fun b hb => hs b (List.mem_cons_of_mem _ hb))
          (fun b hb => ht b (List.mem_cons_of_mem _ hb)) h

theorem chunks_ne_nil (f : Nat) (bl : List Nat) (h : 0 < bl.length) : chunks (f + 1) bl ≠ [] := by
  rw [chunks_succ]
  split
  · simp
  · simp

theorem encString_nonempty (s : List Nat) (h : s ≠ []) :
    encString s = chunks (s.length * 8 + 1) (bits s) := by
  unfold encString
  have hpos : 0 < (bits s).length := by
    rw [bits_length]; have := List.length_pos_iff.mpr h; omega
  have := chunks_ne_nil (s.length * 8) (bits s) hpos
  cases hc : chunks (s.length * 8 + 1) (bits s) with
  | nil => exact absurd hc this
  | cons _ _ => rfl

/-- **C16** ascending strings, field-numbered format: byte strings compare as their encodings,
    whatever follows them (so a shorter string sorts before every extension of it, and tuples
    compose by `strong_pair`) -/
theorem encString_strong :
    Strong encString (fun s t => blt s t = true ∧ Bytes s ∧ Bytes t) := by
  intro s t ⟨hlt, hs, ht⟩ x y
  have htne : t ≠ [] := by
    intro h; subst h; cases s <;> simp [blt] at hlt
  rw [encString_nonempty t htne]
  have htlen : 7 < (bits t).length := by
    rw [bits_length]; have := List.length_pos_iff.mpr htne; omega
  by_cases hsne : s = []
  · subst hsne
    have : encString [] = [0] := by decide
    rw [this, chunks_succ, if_pos htlen]
    exact blt_cons_lt (by omega) _ _
  · rw [encString_nonempty s hsne]
    apply chunks_strong (bits s).length (bits s) (bits t) (Nat.le_refl _) (bits_Bits s) (bits_Bits t)
    · intro h
      have := congrArg List.length h
      rw [bits_length] at this
      have := List.length_pos_iff.mpr hsne
      simp at *; omega
    · rw [bits_length, bits_length]; omega
    · exact bits_mono s t hs ht hlt
    · rw [bits_length]; omega
    · rw [bits_length]; omega

end Blue.TupleKey1

#print axioms Blue.TupleKey1.encString_strong
