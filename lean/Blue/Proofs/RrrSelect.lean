import Blue.Proofs.RrrAccess
import Blue.Proofs.RrrRef
/-! `select` and `select0` of a built RRR vector against the plain bit array: the sample arrays `s1` / `s0`
    send the search to a block that starts before the answer, the `loop` of `select_helper` walks to the
    word holding it, and `select1` / `select0` of that word finish. -/
namespace Blue.Rrr
open Blue.BitArr

attribute [local irreducible] encode decode popcount wordsOf select1 select0

theorem selLoop_zero (v : Vec) (x : Nat) (g : Nat → Nat) (wsel : Nat → Nat → Option Nat) (cOff oOff rank idx : Nat) :
    selLoop v x g wsel 0 cOff oOff rank idx = none := rfl

/-- the body of `select_helper`'s loop once the word is found -/
def selFinish (v : Vec) (x : Nat) (wsel : Nat → Nat → Option Nat) (c oOff ob rank idx : Nat) : Option Nat :=
  match loadO v c oOff ob with
  | none => none
  | some w =>
    match wsel w (x - rank) with
    | none => none
    | some k => if idx + k > len v then none else some (idx + k)

theorem selLoop_succ (v : Vec) (x : Nat) (g : Nat → Nat) (wsel : Nat → Nat → Option Nat) (f cOff oOff rank idx : Nat) :
    selLoop v x g wsel (f + 1) cOff oOff rank idx =
      match loadCO v cOff with
      | none => none
      | some co =>
        if rank + g co.1 ≥ x then selFinish v x wsel co.1 oOff co.2 rank idx
        else selLoop v x g wsel f (cOff + 6) (oOff + co.2) (rank + g co.1) (idx + 63) := rfl

section
variable (ws : WordSpec) (bits : List Bool)
include ws

/-- the walk reaches word `t`, the first word at which the cumulative count `G` reaches `x` -/
theorem selLoop_find (g : Nat → Nat) (wsel : Nat → Nat → Option Nat) (G : Nat → Nat)
    (hG : ∀ k, G (k + 1) = G k + g (cnt bits k)) (x t : Nat) (ht : t < nwords bits) (hx : x ≤ G (t + 1)) :
    ∀ (d s fuel : Nat), s + d = t → (∀ k, s ≤ k → k < t → G (k + 1) < x) → d < fuel →
      selLoop (construct bits) x g wsel fuel (6 * s) (psum (wid bits) s) (G s) (63 * s)
        = (wsel (wordAt bits t) (x - G t)).bind
            (fun k => if 63 * t + k > bits.length then none else some (63 * t + k)) := by
  intro d
  induction d with
  | zero =>
    intro s fuel hs _ hf
    have : s = t := by omega
    subst this
    obtain ⟨f, rfl⟩ : ∃ f, fuel = f + 1 := ⟨fuel - 1, by omega⟩
    rw [selLoop_succ, loadCO_word ws bits s ht]
    simp only
    rw [if_pos (show G s + g (cnt bits s) ≥ x by rw [← hG]; exact hx)]
    unfold selFinish
    rw [loadO_word ws bits s ht, len_construct]
    simp only
    cases wsel (wordAt bits s) (x - G s) <;> rfl
  | succ d ih =>
    intro s fuel hs hlt hf
    obtain ⟨f, rfl⟩ : ∃ f, fuel = f + 1 := ⟨fuel - 1, by omega⟩
    rw [selLoop_succ, loadCO_word ws bits s (by omega)]
    simp only
    have hlt' := hlt s (Nat.le_refl _) (by omega)
    rw [hG] at hlt'
    rw [if_neg (by omega)]
    have e2 : 6 * s + 6 = 6 * (s + 1) := by omega
    have e3 : psum (wid bits) s + wid bits s = psum (wid bits) (s + 1) := (psum_succ _ _).symm
    have e4 : 63 * s + 63 = 63 * (s + 1) := by omega
    rw [e2, e3, e4, ← hG]
    exact ih (s + 1) f (by omega) (fun k h1 h2 => hlt k (by omega) h2) (by omega)

/-- the walk runs off the end of `c` (possibly through one phantom class 0 in the seal padding) when no
    word reaches `x`; a hit in the phantom word lies beyond the pattern -/
theorem selLoop_none (g : Nat → Nat) (wsel : Nat → Nat → Option Nat) (G : Nat → Nat)
    (hG : ∀ k, G (k + 1) = G k + g (cnt bits k)) (x : Nat)
    (hph : ∀ k, wsel 0 (x - G (nwords bits)) = some k → 63 * nwords bits + k > bits.length) :
    ∀ (d s fuel : Nat), s + d = nwords bits → (∀ k, s ≤ k → k < nwords bits → G (k + 1) < x) → d + 2 ≤ fuel →
      selLoop (construct bits) x g wsel fuel (6 * s) (psum (wid bits) s) (G s) (63 * s) = none := by
  intro d
  induction d with
  | zero =>
    intro s fuel hs _ hf
    have : s = nwords bits := by omega
    subst this
    obtain ⟨f, rfl⟩ : ∃ f, fuel = f + 2 := ⟨fuel - 2, by omega⟩
    rw [selLoop_succ]
    rcases loadCO_end ws bits (nwords bits) (Nat.le_refl _) with h | h
    · rw [h]
    · rw [h]
      simp only
      by_cases hc : G (nwords bits) + g 0 ≥ x
      · rw [if_pos hc]
        unfold selFinish
        rw [loadO_zero, len_construct]
        simp only
        cases hw : wsel 0 (x - G (nwords bits)) with
        | none => rfl
        | some k =>
          simp only
          rw [if_pos (hph k hw)]
      · rw [if_neg hc, selLoop_succ]
        have e2 : 6 * nwords bits + 6 = 6 * (nwords bits + 1) := by omega
        rw [e2, loadCO_beyond ws bits _ (Nat.le_refl _)]
  | succ d ih =>
    intro s fuel hs hlt hf
    obtain ⟨f, rfl⟩ : ∃ f, fuel = f + 1 := ⟨fuel - 1, by omega⟩
    rw [selLoop_succ, loadCO_word ws bits s (by omega)]
    simp only
    have hlt' := hlt s (Nat.le_refl _) (by omega)
    rw [hG] at hlt'
    rw [if_neg (by omega)]
    have e2 : 6 * s + 6 = 6 * (s + 1) := by omega
    have e3 : psum (wid bits) s + wid bits s = psum (wid bits) (s + 1) := (psum_succ _ _).symm
    have e4 : 63 * s + 63 = 63 * (s + 1) := by omega
    rw [e2, e3, e4, ← hG]
    exact ih (s + 1) f (by omega) (fun k h1 h2 => hlt k (by omega) h2) (by omega)

/-- all set bits: the cumulative count after the last word -/
theorem psum_cnt_all : psum (cnt bits) (nwords bits) = bits.count true := by
  have hn := nwords_bounds ws bits
  rw [← count_true_take_blocks, List.take_of_length_le (by omega)]

/-- all clear bits plus the padding of the last word -/
theorem psum_cnt0_all : psum (fun i => 63 - cnt bits i) (nwords bits) + bits.count true = 63 * nwords bits := by
  rw [← psum_cnt_all ws]
  exact psum_compl (cnt bits) 63 _ (fun i _ => cnt_le bits i)

omit ws in
/-- what a loaded sample guarantees: its block is a real block, and the count before it is below `x` -/
theorem sample_lt (G : Nat → Nat) (S : List Nat) (ns : Nat) (inv : SampleInv G (nwords bits) S ns) (hG0 : G 0 = 0)
    (x a : Nat) (hx : 0 < x) (hs : S[x / 64]? = some a) : 8 * a < nwords bits ∧ G (8 * a) < x := by
  obtain ⟨h1, h2⟩ := inv.val _ _ hs
  refine ⟨h1, ?_⟩
  rcases h2 with h2 | h2
  · subst h2; rw [hG0]; exact hx
  · omega

omit ws in
/-- a missing sample means the cumulative count never reaches `x` -/
theorem sample_none (G : Nat → Nat) (S : List Nat) (ns : Nat) (inv : SampleInv G (nwords bits) S ns)
    (hn : nwords bits ≠ 0) (x : Nat) (hs : S[x / 64]? = none) : G (nwords bits) < x := by
  have h1 := inv.len
  rw [if_neg hn] at h1
  have h2 : S.length ≤ x / 64 := by
    rcases Nat.lt_or_ge (x / 64) S.length with h | h
    · rw [List.getElem?_eq_getElem h] at hs; cases hs
    · exact h
  omega

/-- **C19 (rrr)** `select`, for every argument -/
theorem select_construct (x : Nat) : select (construct bits) x = Blue.BitVec.select bits x := by
  have hn := nwords_bounds ws bits
  unfold select selectHelper
  rw [construct_bits, calcWidth_eq]
  simp only
  by_cases h0 : x = 0
  · rw [if_pos h0, h0, Blue.BitVec.select_zero]
  rw [if_neg h0, len_construct]
  have hcl : bits.count true ≤ bits.length := List.count_le_length
  by_cases hgt : x > bits.length
  · rw [if_pos hgt]
    exact (Blue.BitVec.select_none_of_gt bits x (by omega)).symm
  rw [if_neg hgt, construct_select, load_s1 ws bits]
  have hT := psum_cnt_all ws bits
  have inv := final_s1 ws bits
  have hn0 : nwords bits ≠ 0 := by omega
  cases hs : (finalSt bits).s1[x / 64]? with
  | none =>
    simp only
    have := sample_none bits _ _ _ inv hn0 x hs
    exact (Blue.BitVec.select_none_of_gt bits x (by omega)).symm
  | some a =>
    simp only
    obtain ⟨ha1, ha2⟩ := sample_lt bits _ _ _ inv (psum_zero _) x a (by omega) hs
    rw [load_p ws bits, if_pos ha1]
    simp only
    rw [load_r ws bits, if_pos ha1, construct_word]
    simp only [Option.getD_some]
    have e1 : a * 6 * 8 = 6 * (8 * a) := by omega
    have e2 : a * 8 * 63 = 63 * (8 * a) := by omega
    rw [e1, e2]
    have hfuel := c_length_ge ws bits
    by_cases hdef : x ≤ psum (cnt bits) (nwords bits)
    · obtain ⟨t, ht, h1, h2⟩ := exists_first_reach (psum (cnt bits)) x (nwords bits) (by rw [psum_zero]; omega) hdef
      have h8 : 8 * a ≤ t := by
        apply Nat.le_of_not_lt
        intro hlt
        have := psum_mono (cnt bits) (show t + 1 ≤ 8 * a by omega)
        omega
      rw [selLoop_find ws bits (fun c => c) select1 (psum (cnt bits)) (fun k => psum_succ _ k) x t ht h2
        (t - 8 * a) (8 * a) _ (by omega)
        (fun k _ hk => by
          have := psum_mono (cnt bits) (show k + 1 ≤ t by omega)
          omega)
        (by omega)]
      obtain ⟨k, hk1, hk2, hk3⟩ := select_in_chunk bits t x (by omega) h1 h2
      unfold wordAt
      rw [ws.select1_ofBits _ _ (chunk_length_le bits t), hk1, hk3]
      simp only [Option.bind_some]
      rw [if_neg (by omega)]
    · rw [selLoop_none ws bits (fun c => c) select1 (psum (cnt bits)) (fun k => psum_succ _ k) x
        (fun k hk => by
          exfalso
          have e : (0 : Nat) = ofBits [] := rfl
          rw [e, ws.select1_ofBits [] _ (by simp)] at hk
          obtain ⟨_, h2, _⟩ := Blue.BitVec.select_spec _ _ _ hk
          simp at h2
          omega)
        (nwords bits - 8 * a) (8 * a) _ (by omega)
        (fun k _ hk => by
          have := psum_mono (cnt bits) (show k + 1 ≤ nwords bits by omega)
          omega)
        (by omega)]
      exact (Blue.BitVec.select_none_of_gt bits x (by omega)).symm

/-- **C19 (rrr)** `select0`, for every argument (the zero padding of a short last word and a phantom
    class-0 word in the padding of `c` are both rejected by `idx > self.len()`) -/
theorem vselect0_construct (x : Nat) : vselect0 (construct bits) x = Blue.BitVec.select0 bits x := by
  have hn := nwords_bounds ws bits
  unfold vselect0 selectHelper
  rw [construct_bits, calcWidth_eq]
  simp only
  by_cases h0 : x = 0
  · rw [if_pos h0, h0, Blue.BitVec.select0_zero]
  rw [if_neg h0, len_construct]
  have hcl : bits.count false ≤ bits.length := List.count_le_length
  have htf := Blue.BitVec.count_true_add_false bits
  by_cases hgt : x > bits.length
  · rw [if_pos hgt]
    exact (Blue.BitVec.select0_none_of_gt bits x (by omega)).symm
  rw [if_neg hgt, construct_select, load_s0 ws bits]
  have hT := psum_cnt0_all ws bits
  have inv := final_s0 ws bits
  have hn0 : nwords bits ≠ 0 := by omega
  cases hs : (finalSt bits).s0[x / 64]? with
  | none =>
    simp only
    have := sample_none bits _ _ _ inv hn0 x hs
    exact (Blue.BitVec.select0_none_of_gt bits x (by omega)).symm
  | some a =>
    simp only
    obtain ⟨ha1, ha2⟩ := sample_lt bits _ _ _ inv (psum_zero _) x a (by omega) hs
    rw [load_p ws bits, if_pos ha1]
    simp only
    rw [load_r ws bits, if_pos ha1, construct_word]
    simp only [Option.getD_some]
    have hcompl := psum_compl (cnt bits) 63 (8 * a) (fun i _ => cnt_le bits i)
    have e0 : a * 8 * 63 - psum (cnt bits) (8 * a) = psum (fun i => 63 - cnt bits i) (8 * a) := by omega
    have e1 : a * 6 * 8 = 6 * (8 * a) := by omega
    have e2 : a * 8 * 63 = 63 * (8 * a) := by omega
    rw [e0, e1, e2]
    have hfuel := c_length_ge ws bits
    by_cases hdef : x ≤ psum (fun i => 63 - cnt bits i) (nwords bits)
    · obtain ⟨t, ht, h1, h2⟩ := exists_first_reach (psum (fun i => 63 - cnt bits i)) x (nwords bits)
        (by rw [psum_zero]; omega) hdef
      have h8 : 8 * a ≤ t := by
        apply Nat.le_of_not_lt
        intro hlt
        have := psum_mono (fun i => 63 - cnt bits i) (show t + 1 ≤ 8 * a by omega)
        omega
      rw [selLoop_find ws bits (fun c => 63 - c) Blue.Rrr.select0 (psum (fun i => 63 - cnt bits i))
        (fun k => psum_succ _ k) x t ht h2
        (t - 8 * a) (8 * a) _ (by omega)
        (fun k _ hk => by
          have := psum_mono (fun i => 63 - cnt bits i) (show k + 1 ≤ t by omega)
          omega)
        (by omega)]
      obtain ⟨k, hk1, hk2⟩ := select0_in_chunk bits t x (by omega) h1 h2
      unfold wordAt
      rw [ws.select0_ofBits _ _ (chunk_length_le bits t)]
      unfold padChunk at hk1
      rw [hk1, hk2]
      simp only [Option.bind_some]
    · rw [selLoop_none ws bits (fun c => 63 - c) Blue.Rrr.select0 (psum (fun i => 63 - cnt bits i))
        (fun k => psum_succ _ k) x
        (fun k hk => by
          have e : (0 : Nat) = ofBits [] := rfl
          rw [e, ws.select0_ofBits [] _ (by simp)] at hk
          obtain ⟨_, h2, _⟩ := Blue.BitVec.select0_spec _ _ _ hk
          have hk0 : k ≠ 0 := by
            intro hk0
            rw [hk0] at h2
            simp at h2
            omega
          omega)
        (nwords bits - 8 * a) (8 * a) _ (by omega)
        (fun k _ hk => by
          have := psum_mono (fun i => 63 - cnt bits i) (show k + 1 ≤ nwords bits by omega)
          omega)
        (by omega)]
      exact (Blue.BitVec.select0_none_of_gt bits x (by omega)).symm

/-! ### the `usize` / `u64` subtractions of `select_helper` do not underflow on a built vector -/

/-- `select`: the rank loaded for the sampled block is below `x`; the loop only continues while
    `rank + c < x`, so `x - rank` never underflows -/
theorem select_rank_lt (x a : Nat) (hx : 0 < x)
    (hs : load (construct bits).s1 (x / 64 * widthOf bits.length) (widthOf bits.length) = some a) :
    ∃ rv, load (construct bits).r (a * widthOf bits.length) (widthOf bits.length) = some rv ∧ rv < x := by
  rw [load_s1 ws bits] at hs
  obtain ⟨h1, h2⟩ := sample_lt bits _ _ _ (final_s1 ws bits) (psum_zero _) x a hx hs
  exact ⟨_, by rw [load_r ws bits, if_pos h1], h2⟩

/-- `select0`: `idx * word * 63 - r[idx]` does not underflow, and the result is below `x` -/
theorem select0_no_underflow (x a : Nat) (hx : 0 < x)
    (hs : load (construct bits).s0 (x / 64 * widthOf bits.length) (widthOf bits.length) = some a) :
    ∃ rv, load (construct bits).r (a * widthOf bits.length) (widthOf bits.length) = some rv
      ∧ rv ≤ a * 8 * 63 ∧ a * 8 * 63 - rv < x := by
  rw [load_s0 ws bits] at hs
  obtain ⟨h1, h2⟩ := sample_lt bits _ _ _ (final_s0 ws bits) (psum_zero _) x a hx hs
  have hcompl := psum_compl (cnt bits) 63 (8 * a) (fun i _ => cnt_le bits i)
  exact ⟨_, by rw [load_r ws bits, if_pos h1], by omega, by omega⟩

end

end Blue.Rrr
