import Blue.Model.StoreHistWindow
import Blue.Proofs.StoreHistRefine
import Blue.Proofs.StoreHistScan
import Blue.Proofs.StoreHistCursor
/-! **C01 / C03** at history level, with the flush split into `flushInstall` / `flushClear`
    (`Blue.StoreHistWindow`): the window invariant, reads in window states, refinement of the split
    histories, and the scan specification list of window states. -/
namespace Blue.StoreHistWindow
open Blue.Spec Blue.Kvs Blue.StoreHist Blue.Cursor

/-! ## the window invariant -/

/-- what a window state knows about its immutable memtable `i` (which is ALSO in the tree):
    * `sub` — every version of `i` is in the tree (right after `flushInstall`: the new level-0 file
      holds exactly `i`; after a compaction consumed the file: a subset of the tree's versions);
    * `mem_imm` — the memtable is newer than `i` (all keys);
    * `imm_top` — a tree version of a key of `b ∈ i` is a copy of a version of `i` or OLDER than `b`.
    Note what is NOT true: "newer above" with `≤` for `<` over `mem :: i :: tree` — `i` may hold
    `(k, 5), (k, 3)` and the tree the copy `(k, 5)`, which is newer than `i`'s `(k, 3)`. -/
structure Extra (h : HState) (i : List (Ver Nat)) : Prop where
  sub : ∀ b ∈ i, b ∈ (treeComps h.st).flatten
  mem_imm : ∀ a ∈ h.st.mem, ∀ b ∈ i, b.2 < a.2
  imm_top : ∀ b ∈ i, ∀ e ∈ (treeComps h.st).flatten, e.1 = b.1 → e ∈ i ∨ e.2 < b.2

/-- the invariant of the split histories: every clause of `Blue.StoreHist.Inv` for the state with
    the duplicate child removed (`shadow w`: the state itself outside a window, the state with `imm`
    cleared inside one — I1, I2 over `mem :: tree`, counters, published timestamps, level-0
    metadata), and inside a window `imm` is present and related to the tree by `Extra` -/
structure WInv (w : WState) : Prop where
  base : Inv (shadow w)
  imm : w.win = true → ∃ i, w.h.st.imm = some i ∧ Extra w.h i

theorem shadow_seq (w : WState) : (shadow w).seq = w.h.seq := by
  obtain ⟨h, win⟩ := w; cases win <;> rfl

theorem shadow_vis (w : WState) : (shadow w).vis = w.h.vis := by
  obtain ⟨h, win⟩ := w; cases win <;> rfl

theorem shadow_pay (w : WState) : (shadow w).pay = w.h.pay := by
  obtain ⟨h, win⟩ := w; cases win <;> rfl

theorem shadow_tree (w : WState) : treeComps (shadow w).st = treeComps w.h.st := by
  obtain ⟨h, win⟩ := w; cases win <;> rfl

theorem shadow_mem (w : WState) : (shadow w).st.mem = w.h.st.mem := by
  obtain ⟨h, win⟩ := w; cases win <;> rfl

def instSt (h : HState) (c : List (Ver Nat)) : HState :=
  { h with st := { h.st with l0 := flushFile c :: h.st.l0 } }

theorem install_none (h : HState) (hi : h.st.imm = none) : install h = h := by
  simp only [install, hi]

theorem install_nil (h : HState) (hi : h.st.imm = some []) : install h = h := by
  simp only [install, hi]

theorem install_cons (h : HState) {v : Ver Nat} {i : List (Ver Nat)} (hi : h.st.imm = some (v :: i)) :
    install h = instSt h (v :: i) := by
  obtain ⟨⟨mem, imm, l0, levels⟩, seq, vis, pay⟩ := h
  have hi' : imm = some (v :: i) := hi
  subst hi'; rfl

theorem clr_write (h : HState) (b : List (Nat × Payload)) : clr (apply h (.write b)) = apply (clr h) (.write b) := by
  cases hb : batchOk b with
  | false => rw [apply_write_bad h b hb, apply_write_bad (clr h) b hb]
  | true => rw [apply_write_ok h b hb, apply_write_ok (clr h) b hb]; rfl

/-- **the simulation**: one step of the split alphabet is zero or one step of `Blue.StoreHist` on
    the shadow -/
theorem shadow_step (w : WState) (op : WOp) (hwf : w.win = true → ∃ i, w.h.st.imm = some i) :
    shadow (applyW w op) = run (shadow w) (collapseOp w op) := by
  obtain ⟨h, win⟩ := w
  cases win with
  | false =>
    cases op with
    | write b => rfl
    | rollover => rfl
    | flushClear => rfl
    | compact l0' levels' => rfl
    | flushInstall =>
      show shadow ⟨install h, h.st.imm.isSome⟩ = apply h .flush
      cases hi : h.st.imm with
      | none => rw [install_none h hi, apply_flush_none h hi]; rfl
      | some i0 =>
        cases i0 with
        | nil => rw [install_nil h hi, apply_flush_nil h hi]; rfl
        | cons v i => rw [install_cons h hi, apply_flush_cons h hi]; rfl
  | true =>
    cases op with
    | write b => exact clr_write h b
    | rollover =>
      obtain ⟨i, hi⟩ := hwf rfl
      show shadow ⟨apply h .rollover, true⟩ = clr h
      rw [apply_rollover_some h hi]; rfl
    | flushInstall => rfl
    | flushClear => rfl
    | compact l0' levels' => rfl

theorem valid_step (w : WState) (op : WOp) (ok : OpOkW w op) : Valid (shadow w) (collapseOp w op) := by
  obtain ⟨h, win⟩ := w
  cases op with
  | write b => exact ⟨trivial, trivial⟩
  | rollover => cases win <;> first | exact ⟨trivial, trivial⟩ | exact trivial
  | flushInstall => cases win <;> first | exact ⟨trivial, trivial⟩ | exact trivial
  | flushClear => exact trivial
  | compact l0' levels' =>
    cases win with
    | false => exact ⟨ok, trivial⟩
    | true =>
      obtain ⟨pre, post, outs, a, x, _, _, hsplit, hclosed, hsame, houts, hkept, hdis, hplace, hl0, hI1⟩ := ok
      exact ⟨.mk pre post outs a x rfl rfl hsplit hclosed hsame houts hkept hdis hplace hl0 hI1, trivial⟩

theorem spec_step (w : WState) (op : WOp) (m : SpecMap) :
    runSpec (shadow w) m (collapseOp w op) = specStepW m (w.h.seq + 1) op := by
  cases op with
  | write b => show specStep m ((shadow w).seq + 1) (.write b) = _; rw [shadow_seq]; rfl
  | rollover => obtain ⟨h, win⟩ := w; cases win <;> rfl
  | flushInstall => obtain ⟨h, win⟩ := w; cases win <;> rfl
  | flushClear => rfl
  | compact l0' levels' => rfl

/-- a compaction keeps the tree's set of versions -/
theorem tree_flat_compact {s s' : KState} (ok : CompactionOk s s') (e : Ver Nat) :
    e ∈ (treeComps s').flatten ↔ e ∈ (treeComps s).flatten := by
  obtain ⟨pre, post, outs, a, x, _, _, hsplit, _, hsame, _, hkept, _, hplace, _, _⟩ := ok
  rw [hsplit, hplace]
  have := compaction_mem [] pre post outs a x hsame hkept e
  rw [List.nil_append, List.nil_append] at this
  exact this

theorem tree_flat_all (s : KState) {e : Ver Nat} (h : e ∈ (treeComps s).flatten) : e ∈ (allComps s).flatten := by
  rw [allComps_eq, List.flatten_append]; exact List.mem_append_right _ h

theorem extra_step (w : WState) (op : WOp) (ok : OpOkW w op) (inv : WInv w)
    (hw' : (applyW w op).win = true) : ∃ i, (applyW w op).h.st.imm = some i ∧ Extra (applyW w op).h i := by
  obtain ⟨h, win⟩ := w
  cases win with
  | false =>
    have hb : Inv h := inv.base
    cases op with
    | write b => exact (Bool.false_ne_true hw').elim
    | rollover => exact (Bool.false_ne_true hw').elim
    | flushClear => exact (Bool.false_ne_true hw').elim
    | compact l0' levels' => exact (Bool.false_ne_true hw').elim
    | flushInstall =>
      have hw'' : h.st.imm.isSome = true := hw'
      show ∃ i, (install h).st.imm = some i ∧ Extra (install h) i
      cases hi : h.st.imm with
      | none => rw [hi] at hw''; cases hw''
      | some i0 =>
        cases i0 with
        | nil =>
          rw [install_nil h hi]
          exact ⟨[], hi, Extra.mk (fun b hb => nomatch hb) (fun a _ b hb => nomatch hb) (fun b hb => nomatch hb)⟩
        | cons v i =>
          rw [install_cons h hi]
          have e1 : allComps (flushSt h (v :: i)).st = h.st.mem :: treeComps (instSt h (v :: i)).st := rfl
          have e2 := allComps_flush hb hi
          rw [e1, allComps_imm_some h.st hi] at e2
          have e3 : treeComps (instSt h (v :: i)).st = (v :: i) :: treeComps h.st := (List.cons.inj e2).2
          have i2 := hb.i2
          rw [allComps_imm_some h.st hi] at i2
          refine ⟨v :: i, hi, Extra.mk ?_ ?_ ?_⟩
          · intro b hb'
            rw [e3, List.flatten_cons]; exact List.mem_append_left _ hb'
          · exact hb.mem_imm (v :: i) hi
          · intro b hb' e he hk
            rw [e3, List.flatten_cons] at he
            rcases List.mem_append.mp he with he | he
            · exact Or.inl he
            · obtain ⟨d, hd, hed⟩ := List.mem_flatten.mp he
              exact Or.inr (i2.2.1 b hb' d hd e hed hk.symm)
  | true =>
    have hb : Inv (clr h) := inv.base
    obtain ⟨i, hi, ex⟩ := inv.imm rfl
    have hi' : h.st.imm = some i := hi
    cases op with
    | flushInstall => exact ⟨i, hi, ex⟩
    | flushClear => exact (Bool.false_ne_true hw').elim
    | rollover =>
      show ∃ i, (apply h .rollover).st.imm = some i ∧ Extra (apply h .rollover) i
      rw [apply_rollover_some h hi']; exact ⟨i, hi, ex⟩
    | write b =>
      show ∃ i, (apply h (.write b)).st.imm = some i ∧ Extra (apply h (.write b)) i
      cases hb' : batchOk b with
      | false => rw [apply_write_bad h b hb']; exact ⟨i, hi, ex⟩
      | true =>
        rw [apply_write_ok h b hb']
        refine ⟨i, hi', Extra.mk ex.sub ?_ ex.imm_top⟩
        intro a ha b' hb''
        have ha' : a ∈ newVers h b ++ h.st.mem := ha
        rcases List.mem_append.mp ha' with ha' | ha'
        · rw [newVers_ts a ha']
          have h1 : b'.2 ≤ h.vis := hb.ts_le b' (tree_flat_all (clr h).st (ex.sub b' hb''))
          have h2 : h.vis ≤ h.seq := hb.vis_le
          omega
        · exact ex.mem_imm a ha' b' hb''
    | compact l0' levels' =>
      have hflat := tree_flat_compact (show CompactionOk h.st { h.st with l0 := l0', levels := levels' } from ok)
      refine ⟨i, hi', Extra.mk ?_ ex.mem_imm ?_⟩
      · intro b hb'; exact (hflat b).mpr (ex.sub b hb')
      · intro b hb' e he hk; exact ex.imm_top b hb' e ((hflat e).mp he) hk

theorem step_sim (w : WState) (op : WOp) (m : SpecMap) (ok : OpOkW w op) (inv : WInv w)
    (r : Rel (shadow w) m) :
    WInv (applyW w op) ∧ Rel (shadow (applyW w op)) (specStepW m (w.h.seq + 1) op) := by
  have hs := shadow_step w op (fun hw => let ⟨i, hi, _⟩ := inv.imm hw; ⟨i, hi⟩)
  have h := run_inv_rel (collapseOp w op) (shadow w) m (valid_step w op ok) inv.base r
  rw [← hs, spec_step] at h
  exact ⟨⟨h.1, extra_step w op ok inv⟩, h.2⟩

theorem winv_init : WInv initW := ⟨inv_init, fun h => by cases h⟩

theorem runW_cons (w : WState) (op : WOp) (ops : List WOp) : runW w (op :: ops) = runW (applyW w op) ops := rfl

theorem run_winv_rel : ∀ (ops : List WOp) (w : WState) (m : SpecMap), ValidW w ops → WInv w → Rel (shadow w) m →
    WInv (runW w ops) ∧ Rel (shadow (runW w ops)) (runSpecW w m ops)
  | [], _, _, _, inv, r => ⟨inv, r⟩
  | op :: ops, w, m, hv, inv, r => by
    rw [runW_cons, runSpecW]
    have h := step_sim w op m hv.1 inv r
    exact run_winv_rel ops (applyW w op) _ hv.2 h.1 h.2

/-- **window_invariant**: after ANY history of the split alphabet whose compaction steps meet their
    obligations — ending inside a window or not — the weakened invariant holds -/
theorem window_invariant (ops : List WOp) (hv : ValidW initW ops) : WInv (runW initW ops) :=
  (run_winv_rel ops initW _ hv winv_init rel_init).1

theorem window_rel (ops : List WOp) (hv : ValidW initW ops) : Rel (shadow (runW initW ops)) (specW ops) :=
  (run_winv_rel ops initW _ hv winv_init rel_init).2

/-- I1 of the window state itself, and every timestamp (also `imm`'s) is published -/
theorem WInv.i1 {w : WState} (inv : WInv w) : I1 w.h.st := by
  have := inv.base.i1
  obtain ⟨h, win⟩ := w; cases win <;> exact this

theorem allComps_window {h : HState} {i : List (Ver Nat)} (hi : h.st.imm = some i) :
    allComps h.st = h.st.mem :: i :: treeComps h.st := allComps_imm_some h.st hi

theorem allComps_clr (h : HState) : allComps (clr h).st = h.st.mem :: treeComps h.st := rfl

/-- a window state and its shadow hold the same SET of versions -/
theorem window_flat {w : WState} (inv : WInv w) (e : Ver Nat) :
    e ∈ (allComps w.h.st).flatten ↔ e ∈ (allComps (shadow w).st).flatten := by
  obtain ⟨h, win⟩ := w
  cases win with
  | false => exact Iff.rfl
  | true =>
    obtain ⟨i, hi, ex⟩ := inv.imm rfl
    have hi' : h.st.imm = some i := hi
    show e ∈ (allComps h.st).flatten ↔ e ∈ (allComps (clr h).st).flatten
    rw [allComps_window hi', allComps_clr]
    simp only [List.flatten_cons, List.mem_append]
    constructor
    · rintro (h1 | h1 | h1)
      · exact Or.inl h1
      · exact Or.inr (ex.sub e h1)
      · exact Or.inr h1
    · rintro (h1 | h1)
      · exact Or.inl h1
      · exact Or.inr (Or.inr h1)

/-! ## reads in window states -/

theorem load_cons (c : List (Ver Nat)) (cs : List (List (Ver Nat))) (k t : Nat) :
    load (c :: cs) k t = (match lookupComp c k t with | some e => some e | none => load cs k t) := by
  simp only [load]
  cases lookupComp c k t <;> rfl

/-- the duplicate child changes no lookup: first hit in `i`, searched before the tree, is the hit
    the tree gives -/
theorem load_dup (i : List (Ver Nat)) (tree : List (List (Ver Nat))) (hN : NewerAbove tree)
    (sub : ∀ b ∈ i, b ∈ tree.flatten)
    (top : ∀ b ∈ i, ∀ e ∈ tree.flatten, e.1 = b.1 → e ∈ i ∨ e.2 < b.2) (k t : Nat) :
    load (i :: tree) k t = load tree k t := by
  rw [load_cons]
  have hc := lookupComp_spec i k t
  cases hl : lookupComp i k t with
  | none => rfl
  | some b =>
    rw [hl] at hc
    show some b = load tree k t
    obtain ⟨hb1, hb2, hb3, hb4⟩ := hc
    have hv := load_visible tree k t hN
    cases hld : load tree k t with
    | none =>
      rw [hld] at hv
      exact absurd hb3 (hv b (sub b hb1) hb2)
    | some b' =>
      rw [hld] at hv
      obtain ⟨hv1, hv2, hv3, hv4⟩ := hv
      have h1 : b.2 ≤ b'.2 := hv4 b (sub b hb1) hb2 hb3
      rcases top b hb1 b' hv1 (by rw [hv2, hb2]) with h2 | h2
      · have h3 : b'.2 ≤ b.2 := hb4 b' h2 hv2 hv3
        congr 1
        apply Prod.ext
        · rw [hb2, hv2]
        · omega
      · omega

/-- **window_reads_unchanged**: in every reachable state `w` of the split alphabet — in particular in
    every window state — `kvsLoad`, at EVERY key and EVERY timestamp, answers what it answers on
    `shadow w`, the state after `flushClear` -/
theorem window_reads_unchanged {w : WState} (inv : WInv w) (k t : Nat) :
    kvsLoad w.h.st k t = kvsLoad (shadow w).st k t := by
  obtain ⟨h, win⟩ := w
  cases win with
  | false => rfl
  | true =>
    have hb : Inv (clr h) := inv.base
    obtain ⟨i, hi, ex⟩ := inv.imm rfl
    have hi' : h.st.imm = some i := hi
    have i1 : I1 h.st := hb.i1
    show kvsLoad h.st k t = kvsLoad (clr h).st k t
    rw [kvsLoad_eq h.st (fun l hl => (i1 l hl).1) (fun l hl => (i1 l hl).2),
      kvsLoad_eq (clr h).st (fun l hl => (hb.i1 l hl).1) (fun l hl => (hb.i1 l hl).2),
      allComps_window hi', allComps_clr]
    have i2 := hb.i2
    rw [allComps_clr] at i2
    rw [load_cons h.st.mem (i :: treeComps h.st), load_cons h.st.mem (treeComps h.st),
      load_dup i (treeComps h.st) i2.2 ex.sub ex.imm_top k t]

/-- `flushClear` leads to the shadow: reads after the clear are the reads inside the window -/
theorem window_reads_clear {w : WState} (inv : WInv w) (k t : Nat) :
    kvsLoad (applyW w .flushClear).h.st k t = kvsLoad w.h.st k t := by
  rw [window_reads_unchanged inv]
  obtain ⟨h, win⟩ := w
  cases win <;> rfl

/-! ## refinement of the split histories -/

/-- **history_refines_window**: after ANY valid history of the split alphabet — every `flushInstall`
    followed by its `flushClear`, or not yet (the history may END inside a window, and writes,
    compactions, reads may fall between the two halves) — `kvsLoad` on the reached state, at every
    timestamp from the published sequence number on, returns the version of the last accepted
    write, and the payload map holds its payload -/
theorem history_refines_window (ops : List WOp) (hv : ValidW initW ops) (k t : Nat)
    (ht : (runW initW ops).h.vis ≤ t) :
    kvsLoad (runW initW ops).h.st k t = (specW ops k).map (fun e => (k, e.1))
    ∧ ∀ ts p, specW ops k = some (ts, p) → (runW initW ops).h.pay k ts = some p := by
  have inv := window_invariant ops hv
  have r := window_rel ops hv
  refine ⟨?_, ?_⟩
  · rw [window_reads_unchanged inv, kvsLoad_of_rel inv.base r k t (by rw [shadow_vis]; exact ht)]
  · intro ts p hk
    rw [← shadow_pay]
    exact (r.present k ts p hk).2.2

theorem read_window {w : WState} (inv : WInv w) (k : Nat) : StoreHist.read w.h k = StoreHist.read (shadow w) k := by
  unfold StoreHist.read
  rw [window_reads_unchanged inv, shadow_vis, shadow_pay]

theorem valStepW_of_specStepW (m : SpecMap) (ts : Nat) (op : WOp) :
    (fun k => (specStepW m ts op k).map (·.2)) = valStepW (fun k => (m k).map (·.2)) op := by
  cases op with
  | write b => exact valStep_of_specStep m ts (.write b)
  | rollover => rfl
  | flushInstall => rfl
  | flushClear => rfl
  | compact _ _ => rfl

theorem runSpecW_payload : ∀ (ops : List WOp) (w : WState) (m : SpecMap) (k : Nat),
    (runSpecW w m ops k).map (·.2) = ops.foldl valStepW (fun k => (m k).map (·.2)) k
  | [], _, _, _ => rfl
  | op :: ops, w, m, k => by
    rw [runSpecW, List.foldl_cons, ← valStepW_of_specStepW m (w.h.seq + 1) op]
    exact runSpecW_payload ops (applyW w op) _ k

/-- the answer of `load`, as payload, in the reached state (window or not) is the payload of the
    last accepted write of the history -/
theorem history_reads_last_write_window (ops : List WOp) (hv : ValidW initW ops) (k : Nat) :
    StoreHist.read (runW initW ops).h k = lastWriteW ops k := by
  rw [read_window (window_invariant ops hv), read_of_rel (window_invariant ops hv).base (window_rel ops hv) k]
  exact runSpecW_payload ops initW (fun _ => none) k

/-! ## the collapsed history -/

theorem valid_append : ∀ (a : List Op) (h : HState) (b : List Op), Valid h a → Valid (run h a) b → Valid h (a ++ b)
  | [], _, _, _, hb => hb
  | op :: a, h, b, ha, hb => ⟨ha.1, valid_append a (apply h op) b ha.2 hb⟩

theorem run_append (h : HState) (a b : List Op) : run h (a ++ b) = run (run h a) b := List.foldl_append ..

theorem runSpec_append : ∀ (a : List Op) (h : HState) (m : SpecMap) (b : List Op),
    runSpec h m (a ++ b) = runSpec (run h a) (runSpec h m a) b
  | [], _, _, _ => rfl
  | op :: a, h, m, b => by
    show runSpec (apply h op) (specStep m (h.seq + 1) op) (a ++ b) = _
    rw [runSpec_append a]; rfl

theorem run_collapse : ∀ (ops : List WOp) (w : WState) (m : SpecMap), ValidW w ops → WInv w → Rel (shadow w) m →
    shadow (runW w ops) = run (shadow w) (collapse w ops) ∧ Valid (shadow w) (collapse w ops)
      ∧ runSpecW w m ops = runSpec (shadow w) m (collapse w ops)
  | [], _, _, _, _, _ => ⟨rfl, trivial, rfl⟩
  | op :: ops, w, m, hv, inv, r => by
    have hs := shadow_step w op (fun hw => let ⟨i, hi, _⟩ := inv.imm hw; ⟨i, hi⟩)
    have h := step_sim w op m hv.1 inv r
    have ih := run_collapse ops (applyW w op) _ hv.2 h.1 h.2
    rw [hs] at ih
    refine ⟨?_, ?_, ?_⟩
    · show shadow (runW (applyW w op) ops) = run (shadow w) (collapseOp w op ++ collapse (applyW w op) ops)
      rw [run_append]; exact ih.1
    · exact valid_append _ _ _ (valid_step w op hv.1) ih.2.1
    · show runSpecW (applyW w op) (specStepW m (w.h.seq + 1) op) ops
        = runSpec (shadow w) m (collapseOp w op ++ collapse (applyW w op) ops)
      rw [ih.2.2, ← spec_step w op m]
      exact (runSpec_append _ _ _ _).symm

/-- a split history reaches, up to the duplicate child, the state its collapsed `Blue.StoreHist`
    history reaches; the collapsed history is valid and has the same specification -/
theorem window_collapse (ops : List WOp) (hv : ValidW initW ops) :
    shadow (runW initW ops) = run init (collapse initW ops) ∧ Valid init (collapse initW ops)
      ∧ specW ops = spec (collapse initW ops) :=
  run_collapse ops initW _ hv winv_init rel_init

/-! ## scans in window states -/

/-- `Blue.StoreHist.ChildrenAreTables` WITHOUT its clause `no_dups` (false in a window state: every
    version of `imm` is also in the tree): what `store_scan_spec_dups` asks of the children — the
    tree's `Family`, the store's `FamilyW` (the same entry may be in several children) -/
structure ChildrenAreTablesDups (s : KState) : Prop where
  mems_sorted : ∀ T ∈ memTables s, Sorted natLt T
  tree_sorted : ∀ T ∈ treeTabs s, Sorted natLt T
  tree_ne : ∀ lvl ∈ treeTables s, 0 < lvl.length
  famT : Family (vlt natLt) (treeM s) (treeTabsO s).length
  kidsT : (treeTabs s).Perm ((List.range (treeTabsO s).length).map (childList (treeM s)))
  fam : FamilyW (vlt natLt) (storeM s) (storeTabs s).length
  kids : (List.range (storeTabs s).length).map (childList (storeM s)) = storeTabs s
  members : ∀ e, e ∈ (storeM s).map (·.1) ↔ e ∈ (allComps s).flatten

theorem children_dups_of_tree (s s0 : KState) (hc : ChildrenAreTables s0)
    (hl0 : s.l0 = s0.l0) (hlv : s.levels = s0.levels) : ChildrenAreTablesDups s := by
  obtain ⟨mem, imm, l0, levels⟩ := s
  obtain ⟨mem0, imm0, l00, levels0⟩ := s0
  have hl0' : l0 = l00 := hl0
  have hlv' : levels = levels0 := hlv
  subst hl0' hlv'
  have hmem : ∀ T ∈ memTables ⟨mem, imm, l0, levels⟩, Sorted natLt T := by
    intro T hT
    obtain ⟨c, _, rfl⟩ := List.mem_map.mp hT
    exact tableOf_sorted c
  have famT : Family (vlt natLt) (treeM ⟨mem, imm, l0, levels⟩) (treeTabsO ⟨mem, imm, l0, levels⟩).length := hc.famT
  have hS := mergedOf_familyW vst (storeTabs ⟨mem, imm, l0, levels⟩) (by
    intro T hT'
    rcases List.mem_append.mp hT' with h | h
    · exact hmem T h
    · rw [List.mem_singleton] at h; subst h; exact famT.sorted)
  have htm : ∀ e, e ∈ (treeM ⟨mem, imm, l0, levels⟩).map (·.1) ↔ e ∈ (treeComps ⟨mem, imm, l0, levels⟩).flatten := by
    intro e
    have := (mergedList_perm (vlt natLt) (treeTabsO ⟨mem, imm, l0, levels⟩)).mem_iff (a := e)
    unfold mergedList at this
    unfold treeM
    rw [this, treeTabsO_flatten, mem_flatten_tables]
  refine ⟨hmem, hc.tree_sorted, hc.tree_ne, famT, hc.kidsT, hS.1, hS.2, ?_⟩
  intro e
  have := (mergedList_perm (vlt natLt) (storeTabs ⟨mem, imm, l0, levels⟩)).mem_iff (a := e)
  unfold mergedList at this
  show e ∈ (storeM ⟨mem, imm, l0, levels⟩).map (·.1)
    ↔ e ∈ (memComps ⟨mem, imm, l0, levels⟩ ++ treeComps ⟨mem, imm, l0, levels⟩).flatten
  unfold storeM
  rw [this]
  unfold storeTabs memTables
  rw [List.flatten_append, List.mem_append, List.flatten_append, List.mem_append, mem_flatten_tables]
  simp only [List.flatten_cons, List.flatten_nil, List.append_nil]
  rw [htm]

/-- **window_children_are_tables_with_dups**: the `Family` / `FamilyW` hypotheses of
    `store_scan_spec_dups` hold of the children `range_scan` builds in EVERY reachable state of the
    split alphabet, window states included (children: mem, imm, every level-0 file — also the one
    holding imm's versions —, every non-empty deeper level) -/
theorem window_children_are_tables_with_dups {w : WState} (inv : WInv w) : ChildrenAreTablesDups w.h.st := by
  have hc := children_of_inv (shadow w).st inv.base.i1 inv.base.i2
  obtain ⟨h, win⟩ := w
  cases win <;> exact children_dups_of_tree h.st _ hc rfl rfl

theorem tombOf_shadow (w : WState) : tombOf (shadow w) = tombOf w.h := by
  funext v; unfold tombOf; rw [shadow_pay]

/-- **window_scan_spec**: the specification list of `store_scan_spec_dups` on the state reached by a
    split history (identical copies shown once: `dedupAdj` of the merged list with multiplicity) IS
    `specScan` of the collapsed history — the list `history_scan_list` / `history_scan_cursor`
    assign to the atomic-flush history with the same writes -/
theorem window_scan_spec (ops : List WOp) (hv : ValidW initW ops) (t : Nat) (ht : (runW initW ops).h.vis ≤ t)
    (sb eb : Bound Nat) :
    ((dedupAdj ((storeM (runW initW ops).h.st).map (·.1))).filter
        (isLive (dedupAdj ((storeM (runW initW ops).h.st).map (·.1))) t (tombOf (runW initW ops).h))).filter
        (inRange natLt sb eb)
      = specScan (collapse initW ops) sb eb := by
  have inv := window_invariant ops hv
  obtain ⟨hsh, hv', _⟩ := window_collapse ops hv
  have hc := window_children_are_tables_with_dups inv
  have hw : SortedW natLt ((storeM (runW initW ops).h.st).map (·.1)) := hc.fam.sorted
  have hsd : Sorted natLt (dedupAdj ((storeM (runW initW ops).h.st).map (·.1))) := sorted_dedupAdj natLt_st hw
  have hM : ∀ e, e ∈ dedupAdj ((storeM (runW initW ops).h.st).map (·.1))
      ↔ e ∈ (allComps (run init (collapse initW ops)).st).flatten := fun e => by
    rw [mem_dedupAdj, hc.members e, window_flat inv e, hsh]
  have ht' : (run init (collapse initW ops)).vis ≤ t := by rw [← hsh, shadow_vis]; exact ht
  have htomb : tombOf (runW initW ops).h = tombOf (run init (collapse initW ops)) := by
    rw [← hsh, tombOf_shadow]
  apply sorted_ext vst _ _ (history_scan_sorted _ _ hsd t sb eb) (specScan_sorted _ sb eb)
  intro e
  rw [htomb, history_scan_refines (klt := natLt) _ hv' _ hM t ht' sb eb e, mem_specScan]

/-- **history_scan_cursor_window**: `history_scan_cursor` for the split alphabet.  After ANY valid
    split history — in particular one that ends INSIDE the flush window, where `imm` and the tree
    both show imm's versions — the stack `Bounds(Pruning(Merging[mem, imm?, Merging[level-0 files…,
    Concat(Lazy(level files))…]]))` over cursors of the reached state's components shows, under
    every finite program, what the reference cursor shows over `specScan (collapse initW ops)`.
    Hypotheses as in `history_scan_cursor` (component cursors behave as their tables). -/
theorem history_scan_cursor_window (ops : List WOp) (hv : ValidW initW ops) (t : Nat)
    (ht : (runW initW ops).h.vis ≤ t)
    (sb eb : Bound Nat) (n : Nat) (hn : stateSize (runW initW ops).h.st + 2 ≤ n)
    {Cm S : Cur (Ver Nat)} (mems : List (Cm.σ × List (Ver Nat)))
    (levels : List (List (S.σ × List (Ver Nat))))
    (hmemT : mems.map (·.2) = memTables (runW initW ops).h.st)
    (hlevT : levels.map (·.map (·.2)) = treeTables (runW initW ops).h.st)
    (hmems : ∀ m ∈ mems, BehEq (SeekAdm natLt) Cm m.1 (RefCur (Ver Nat)) ⟨m.2, 0⟩)
    (hfiles : ∀ lvl ∈ levels, ∀ f ∈ lvl, BehEq (SeekAdm natLt) S f.1 (RefCur (Ver Nat)) ⟨f.2, 0⟩) :
    BehEq (SeekAdm natLt)
      (BoundsC.cur (PruningC.cur (MergingC.cur (Cur.sum Cm (TreeCur natLt S)) (vlt natLt))
        (pcfg t (tombOf (runW initW ops).h)) n) (bcfg natLt sb eb) n)
      (BoundsC.new (PruningC.cur (MergingC.cur (Cur.sum Cm (TreeCur natLt S)) (vlt natLt))
          (pcfg t (tombOf (runW initW ops).h)) n) (bcfg natLt sb eb)
        (PruningC.new (MergingC.cur (Cur.sum Cm (TreeCur natLt S)) (vlt natLt))
          (MergingC.new (Cur.sum Cm (TreeCur natLt S)) (vlt natLt) (storeKids mems levels))))
      (RefCur (Ver Nat)) ⟨specScan (collapse initW ops) sb eb, 0⟩ := by
  have hc := window_children_are_tables_with_dups (window_invariant ops hv)
  have hne : ∀ lvl ∈ levels, 0 < lvl.length := by
    intro lvl hl
    have := hc.tree_ne (lvl.map (·.2)) (by rw [← hlevT]; exact List.mem_map.mpr ⟨lvl, hl, rfl⟩)
    rwa [List.length_map] at this
  have hkidsT : ((levels.map levelTable).map (·.xs)).Perm
      ((List.range (treeTabsO (runW initW ops).h.st).length).map (childList (treeM (runW initW ops).h.st))) := by
    have e : (levels.map levelTable).map (·.xs) = treeTabs (runW initW ops).h.st := by
      unfold treeTabs
      rw [← hlevT, List.map_map, List.map_map]
      rfl
    rw [e]; exact hc.kidsT
  have hkids : (mems.map (·.2) ++ [(treeM (runW initW ops).h.st).map (·.1)]).Perm
      ((List.range (storeTabs (runW initW ops).h.st).length).map (childList (storeM (runW initW ops).h.st))) := by
    rw [hc.kids, hmemT]; exact List.Perm.refl _
  have h := store_scan_spec_dups natLt_st (treeM (runW initW ops).h.st) _ hc.famT (storeM (runW initW ops).h.st) _
    hc.fam t (tombOf (runW initW ops).h) sb eb n (by rw [List.length_map]; exact Nat.le_trans (Nat.add_le_add_right (storeM_length_le _) 2) hn) mems hmems levels hfiles
    hne hkidsT hkids
  rw [window_scan_spec ops hv t ht sb eb] at h
  exact h

/-! ## one step, without the specification; reads across `flushInstall` -/

theorem run_inv : ∀ (ops : List Op) (h : HState), Valid h ops → Inv h → Inv (run h ops)
  | [], _, _, inv => inv
  | op :: ops, h, hv, inv => run_inv ops (apply h op) hv.2 (inv_step h op hv.1 inv)

/-- the window invariant is inductive: kept by every step of the split alphabet -/
theorem winv_step (w : WState) (op : WOp) (ok : OpOkW w op) (inv : WInv w) : WInv (applyW w op) := by
  have hs := shadow_step w op (fun hw => let ⟨i, hi, _⟩ := inv.imm hw; ⟨i, hi⟩)
  have h := run_inv (collapseOp w op) (shadow w) (valid_step w op ok) inv.base
  rw [← hs] at h
  exact ⟨h, extra_step w op ok inv⟩

theorem kvsLoad_flush (h : HState) (inv : Inv h) (k t : Nat) :
    kvsLoad (apply h .flush).st k t = kvsLoad h.st k t := by
  have inv' := inv_flush h inv
  rw [kvsLoad_eq _ (fun l hl => (inv'.i1 l hl).1) (fun l hl => (inv'.i1 l hl).2),
    kvsLoad_eq _ (fun l hl => (inv.i1 l hl).1) (fun l hl => (inv.i1 l hl).2)]
  cases hi : h.st.imm with
  | none => rw [apply_flush_none h hi]
  | some i0 =>
    cases i0 with
    | nil =>
      rw [apply_flush_nil h hi, allComps_imm_some h.st hi]
      have e : allComps (flushNilSt h).st = h.st.mem :: treeComps h.st := rfl
      rw [e, load_cons h.st.mem, load_cons h.st.mem, load_cons []]
      rfl
    | cons v i => rw [apply_flush_cons h hi, allComps_flush inv hi]

/-- **`flushInstall` changes no read**: the state that enters the window answers every `kvsLoad`
    as the state just before the install -/
theorem window_reads_install {w : WState} (inv : WInv w) (k t : Nat) :
    kvsLoad (applyW w .flushInstall).h.st k t = kvsLoad w.h.st k t := by
  have inv' := winv_step w .flushInstall trivial inv
  rw [window_reads_unchanged inv', window_reads_unchanged inv,
    shadow_step w .flushInstall (fun hw => let ⟨i, hi, _⟩ := inv.imm hw; ⟨i, hi⟩)]
  have hb := inv.base
  obtain ⟨h, win⟩ := w
  cases win with
  | true => rfl
  | false => exact kvsLoad_flush h hb k t

end Blue.StoreHistWindow

#print axioms Blue.StoreHistWindow.window_invariant
#print axioms Blue.StoreHistWindow.window_reads_unchanged
#print axioms Blue.StoreHistWindow.window_reads_install
#print axioms Blue.StoreHistWindow.window_reads_clear
#print axioms Blue.StoreHistWindow.winv_step
#print axioms Blue.StoreHistWindow.history_refines_window
#print axioms Blue.StoreHistWindow.history_reads_last_write_window
#print axioms Blue.StoreHistWindow.window_collapse
#print axioms Blue.StoreHistWindow.window_children_are_tables_with_dups
#print axioms Blue.StoreHistWindow.window_scan_spec
#print axioms Blue.StoreHistWindow.history_scan_cursor_window
