import Blue.Model.Recover
import Blue.Proofs.ApplyCompaction
/-! **C01 / D-9** `recover` (lsmtk/src/tree/recover.rs): when does a reopen keep the tree invariant?

    The general theorems are proved for EVERY level assignment `L` that satisfies what the code's
    algorithm guarantees (`LevelsOk`: an edge between two components forces a strictly deeper level,
    an edge inside a component forces the same level) and the version `treeOf L files` the code
    builds from it (clamp, the two sorts): `IsRecovered`.  The executable `recoverTree` is that
    version for `L = rawLevel` (components by mutual reachability, longest path); that `rawLevel`
    satisfies `LevelsOk` is PROVED inside the class `NoKeyTsOverlap` (`rawLevel_levelsOk`: the graph
    is acyclic there and the fuel suffices) and shown on the D-9 instance (`d9_isRecovered`); it is
    not proved for arbitrary file sets (needs: a longest path in the condensation has fewer edges
    than there are files).

    * `recovered_inv`, `recovered_newer_above`: if no two files overlap in key range AND in
      timestamp range (`NoKeyTsOverlap`), the recovered version satisfies `Inv` (I1 included) and
      I2 over its search order — for any well-formed file set with distinct ids, not only the
      flattening of a legitimate tree.
    * `recoverTree_preserves_inv`: the same for the function `recoverTree`, plus: it holds exactly
      the files given and every read returns what it returned on the running tree
      (`recover_reads_same`).
    * `recover_breaks_inv_witness`: D-9.  Three files of a legitimate tree, two of which overlap in
      keys and in timestamps with a third file above them: both land in level 1, overlapping (I1
      broken), the older one first (I2 broken), and the read of key 3 returns the older version.
    * the boundary is NOT exactly `NoKeyTsOverlap`: a component of mutually overlapping files with
      nothing above it lands in level 0, where overlap is allowed and the search order is by
      `biggest_timestamp` (`overlap_harmless_at_level0`). -/
namespace Blue.Recover
open Blue.NextCompaction Blue.Spec

/-! ## the hypotheses -/

/-- what holds of the files of any tree with `Inv` whose metadata timestamps bound their versions -/
structure FilesOk (fs : List File) : Prop where
  wf : ∀ f ∈ fs, f.first ≤ f.last ∧ ∀ v ∈ f.vers, f.first ≤ v.1 ∧ v.1 ≤ f.last
  ids : (fs.map (·.id)).Nodup
  /-- `biggest_timestamp` bounds the versions of the file -/
  ts : ∀ f ∈ fs, ∀ v ∈ f.vers, v.2 ≤ f.bts

/-- no two distinct files overlap in key range and in timestamp range -/
def NoKeyTsOverlap (fs : List File) : Prop :=
  ∀ a ∈ fs, ∀ b ∈ fs, a.id ≠ b.id → keyOverlap a b = true → (a.bts < sts b ∨ b.bts < sts a)

/-- a path in the graph of `construct_adj_list` -/
inductive Reach (fs : List File) : File → File → Prop where
  | one {a b : File} : b ∈ fs → edge a b = true → Reach fs a b
  | cons {a c b : File} : c ∈ fs → edge a c = true → Reach fs c b → Reach fs a b

/-- what the colouring and the stack loop of `recover` guarantee of the levels before the clamp -/
structure LevelsOk (fs : List File) (L : File → Nat) : Prop where
  /-- an edge between two components: strictly deeper -/
  strict : ∀ a ∈ fs, ∀ b ∈ fs, edge a b = true → ¬ Reach fs b a → L a < L b
  /-- an edge inside a component: the same level -/
  scc : ∀ a ∈ fs, ∀ b ∈ fs, edge a b = true → Reach fs b a → L a = L b

/-- `t` is a version `recover` may build from the files -/
def IsRecovered (fs : List File) (t : Tree) : Prop := ∃ L, LevelsOk fs L ∧ t = treeOf L fs

/-! ## timestamps -/

theorem foldl_min_le (vs : List (Nat × Nat)) : ∀ (m : Nat),
    vs.foldl (fun m x => if x.2 < m then x.2 else m) m ≤ m ∧
    ∀ v ∈ vs, vs.foldl (fun m x => if x.2 < m then x.2 else m) m ≤ v.2 := by
  induction vs with
  | nil => intro m; exact ⟨Nat.le_refl _, fun v hv => by cases hv⟩
  | cons x xs ih =>
    intro m
    simp only [List.foldl_cons]
    have h := ih (if x.2 < m then x.2 else m)
    have hm : (if x.2 < m then x.2 else m) ≤ m ∧ (if x.2 < m then x.2 else m) ≤ x.2 := by
      split <;> omega
    refine ⟨Nat.le_trans h.1 hm.1, ?_⟩
    intro v hv
    rcases List.mem_cons.mp hv with rfl | hv
    · exact Nat.le_trans h.1 hm.2
    · exact h.2 v hv

theorem sts_le {f : File} {v : Nat × Nat} (hv : v ∈ f.vers) : sts f ≤ v.2 := by
  unfold sts
  cases hf : f.vers with
  | nil => rw [hf] at hv; cases hv
  | cons x xs =>
    rw [hf] at hv
    simp only
    rcases List.mem_cons.mp hv with rfl | hv
    · exact (foldl_min_le xs _).1
    · exact (foldl_min_le xs _).2 v hv

theorem sts_le_bts {fs : List File} (h : FilesOk fs) {f : File} (hf : f ∈ fs) : sts f ≤ f.bts := by
  cases hv : f.vers with
  | nil => unfold sts; rw [hv]; exact Nat.le_refl _
  | cons x xs =>
    have hx : x ∈ f.vers := by rw [hv]; exact List.mem_cons_self
    exact Nat.le_trans (sts_le hx) (h.ts f hf x hx)

/-! ## the graph under `NoKeyTsOverlap` is acyclic, and the levels separate overlapping files -/

theorem edge_sts {fs : List File} (_hok : FilesOk fs) (hno : NoKeyTsOverlap fs) {a b : File} (ha : a ∈ fs) (hb : b ∈ fs)
    (he : edge a b = true) : b.bts < sts a := by
  unfold edge at he
  simp only [Bool.and_eq_true, bne_iff_ne, ne_eq, Bool.not_eq_true', decide_eq_false_iff_not] at he
  obtain ⟨⟨hid, hov⟩, hnot⟩ := he
  rcases hno a ha b hb hid hov with h | h
  · exact absurd h hnot
  · exact h

theorem reach_sts {fs : List File} (hok : FilesOk fs) (hno : NoKeyTsOverlap fs) {a b : File} (hr : Reach fs a b) :
    a ∈ fs → (b ∈ fs ∧ sts b < sts a) := by
  induction hr with
  | one hb he =>
    intro ha
    have := edge_sts hok hno ha hb he
    have := sts_le_bts hok hb
    exact ⟨hb, by omega⟩
  | cons hc he _ ih =>
    intro ha
    have h1 := edge_sts hok hno ha hc he
    have h2 := sts_le_bts hok hc
    obtain ⟨hb, h3⟩ := ih hc
    exact ⟨hb, by omega⟩

/-- two distinct files with overlapping key ranges: one is entirely newer and strictly above -/
theorem overlap_separated {fs : List File} (hok : FilesOk fs) (hno : NoKeyTsOverlap fs) {L : File → Nat}
    (hL : LevelsOk fs L) {a b : File} (ha : a ∈ fs) (hb : b ∈ fs) (hid : a.id ≠ b.id)
    (hov : keyOverlap a b = true) :
    (b.bts < sts a ∧ L a < L b) ∨ (a.bts < sts b ∧ L b < L a) := by
  have key : ∀ (x y : File), x ∈ fs → y ∈ fs → x.id ≠ y.id → keyOverlap x y = true → y.bts < sts x → L x < L y := by
    intro x y hx hy hxy ho hlt
    have hsx := sts_le_bts hok hx
    have hsy := sts_le_bts hok hy
    have he : edge x y = true := by
      unfold edge
      simp only [Bool.and_eq_true, bne_iff_ne, ne_eq, Bool.not_eq_true', decide_eq_false_iff_not]
      exact ⟨⟨hxy, ho⟩, by omega⟩
    apply hL.strict x hx y hy he
    intro hr
    have := (reach_sts hok hno hr hy).2
    omega
  have hov' : keyOverlap b a = true := by
    unfold keyOverlap at hov ⊢
    simp only [Bool.and_eq_true, decide_eq_true_eq] at hov ⊢
    exact ⟨hov.2, hov.1⟩
  rcases hno a ha b hb hid hov with h | h
  · exact Or.inr ⟨h, key b a hb ha (fun e => hid e.symm) hov' h⟩
  · exact Or.inl ⟨h, key a b ha hb hid hov h⟩

/-! ## the clamp -/

theorem clamp_mono (m : Nat) {l1 l2 : Nat} (h : l1 ≤ l2) : clampLevel m l1 ≤ clampLevel m l2 := by
  unfold clampLevel
  split
  · split <;> split <;> omega
  · exact h

theorem clamp_eq_pos (m : Nat) {l1 l2 : Nat} (h : l1 < l2) (he : clampLevel m l1 = clampLevel m l2) :
    clampLevel m l1 = 0 := by
  unfold clampLevel at he ⊢
  split at he
  · rename_i hm
    rw [if_pos hm]
    split at he <;> split at he <;> split <;> omega
  · omega

/-! ## the levels of `treeOf` -/

theorem length_treeOf (L : File → Nat) (fs : List File) : (treeOf L fs).length = numLevels := by
  unfold treeOf; simp

theorem level_treeOf (L : File → Nat) (fs : List File) {i : Nat} (hi : i < numLevels) :
    level (treeOf L fs) i
      = sortLevel i (fs.filter (fun f => clampLevel (maxList (fs.map L)) (L f) == i)) := by
  unfold level treeOf
  simp only [List.getD_eq_getElem?_getD, List.getElem?_map, List.getElem?_range hi, Option.map_some, Option.getD_some]

theorem insertBy_perm (le : File → File → Bool) (x : File) : ∀ (l : List File), (insertBy le x l).Perm (x :: l)
  | [] => List.Perm.refl _
  | y :: ys => by
    unfold insertBy
    split
    · exact List.Perm.refl _
    · exact ((insertBy_perm le x ys).cons y).trans (List.Perm.swap x y ys)

theorem insSort_perm (le : File → File → Bool) : ∀ (l : List File), (insSort le l).Perm l
  | [] => List.Perm.refl _
  | x :: xs => (insertBy_perm le x _).trans ((insSort_perm le xs).cons x)

theorem pairwise_insertBy {le : File → File → Bool} (trans : ∀ a b c, le a b = true → le b c = true → le a c = true)
    (total : ∀ a b, (le a b || le b a) = true) (x : File) :
    ∀ (l : List File), l.Pairwise (fun a b => le a b = true) → (insertBy le x l).Pairwise (fun a b => le a b = true)
  | [], _ => by simp [insertBy]
  | y :: ys, h => by
    unfold insertBy
    rw [List.pairwise_cons] at h
    split
    · rename_i hxy
      refine List.Pairwise.cons ?_ (List.Pairwise.cons h.1 h.2)
      intro z hz
      rcases List.mem_cons.mp hz with rfl | hz
      · exact hxy
      · exact trans _ _ _ hxy (h.1 z hz)
    · rename_i hxy
      refine List.Pairwise.cons ?_ (pairwise_insertBy trans total x ys h.2)
      intro z hz
      rcases List.mem_cons.mp ((insertBy_perm le x ys).mem_iff.mp hz) with rfl | hz
      · have := total z y
        simp only [Bool.or_eq_true] at this
        rcases this with h' | h'
        · exact absurd h' hxy
        · exact h'
      · exact h.1 z hz

theorem pairwise_insSort {le : File → File → Bool} (trans : ∀ a b c, le a b = true → le b c = true → le a c = true)
    (total : ∀ a b, (le a b || le b a) = true) : ∀ (l : List File), (insSort le l).Pairwise (fun a b => le a b = true)
  | [] => List.Pairwise.nil
  | x :: xs => pairwise_insertBy trans total x _ (pairwise_insSort trans total xs)

theorem sortLevel_perm (i : Nat) (l : List File) : (sortLevel i l).Perm l := by
  unfold sortLevel
  split <;> exact insSort_perm _ _

theorem mem_level_treeOf {L : File → Nat} {fs : List File} {i : Nat} {f : File} :
    f ∈ level (treeOf L fs) i ↔ (i < numLevels ∧ f ∈ fs ∧ clampLevel (maxList (fs.map L)) (L f) = i) := by
  by_cases hi : i < numLevels
  · rw [level_treeOf L fs hi, (sortLevel_perm _ _).mem_iff, List.mem_filter]
    simp [hi]
  · rw [level_out _ (by rw [length_treeOf]; omega)]
    simp [hi]

theorem ids_pairwise {fs s : List File} (hids : (fs.map (·.id)).Nodup) {p : File → Bool}
    (hs : s.Perm (fs.filter p)) : s.Pairwise (fun a b => a.id ≠ b.id) := by
  have h1 : ((fs.filter p).map (·.id)).Nodup := List.Nodup.sublist (List.filter_sublist.map _) hids
  have h2 : (s.map (·.id)).Nodup := ((hs.map _).nodup_iff).mpr h1
  rw [List.nodup_iff_pairwise_ne, List.pairwise_map] at h2
  exact h2

theorem leDeep_trans (a b c : File) : leDeep a b = true → leDeep b c = true → leDeep a c = true := by
  unfold leDeep
  simp only [Bool.or_eq_true, Bool.and_eq_true, decide_eq_true_eq]
  omega

theorem leDeep_total (a b : File) : (leDeep a b || leDeep b a) = true := by
  unfold leDeep
  simp only [Bool.or_eq_true, Bool.and_eq_true, decide_eq_true_eq]
  omega

/-! ## I1 and the rest of `Inv` -/

/-- **the recovered version satisfies the tree invariant** (files well-formed, levels below level 0
    sorted by key with ranges not even touching, ids distinct) when no two files overlap in key
    range and in timestamp range -/
theorem recovered_inv {fs : List File} (hok : FilesOk fs) (hno : NoKeyTsOverlap fs) {t : Tree}
    (hr : IsRecovered fs t) : Inv t := by
  obtain ⟨L, hL, rfl⟩ := hr
  apply inv_of_levels
  · intro i f hf
    exact hok.wf f (mem_level_treeOf.mp hf).2.1
  · intro i hi
    by_cases hlt : i < numLevels
    · rw [level_treeOf L fs hlt]
      have hperm := sortLevel_perm i (fs.filter (fun f => clampLevel (maxList (fs.map L)) (L f) == i))
      have hne := ids_pairwise hok.ids hperm
      have hsorted : (sortLevel i (fs.filter (fun f => clampLevel (maxList (fs.map L)) (L f) == i))).Pairwise
          (fun a b => leDeep a b = true) := by
        unfold sortLevel
        rw [if_neg (by omega)]
        exact pairwise_insSort leDeep_trans leDeep_total _
      refine List.Pairwise.imp_of_mem ?_ (hsorted.and hne)
      intro a b ha hb ⟨hle, hid⟩
      have ha' := List.mem_filter.mp (hperm.mem_iff.mp ha)
      have hb' := List.mem_filter.mp (hperm.mem_iff.mp hb)
      have ca : clampLevel (maxList (fs.map L)) (L a) = i := by simpa using ha'.2
      have cb : clampLevel (maxList (fs.map L)) (L b) = i := by simpa using hb'.2
      have wa := (hok.wf a ha'.1).1
      have wb := (hok.wf b hb'.1).1
      by_cases hov : keyOverlap a b = true
      · rcases overlap_separated hok hno hL ha'.1 hb'.1 hid hov with ⟨_, h⟩ | ⟨_, h⟩
        · have := clamp_eq_pos _ h (by rw [ca, cb]); omega
        · have := clamp_eq_pos _ h (by rw [ca, cb]); omega
      · unfold keyOverlap at hov
        unfold leDeep at hle
        simp only [Bool.and_eq_true, decide_eq_true_eq, Bool.or_eq_true] at hov hle
        omega
    · rw [level_out _ (by rw [length_treeOf]; omega)]
      exact List.Pairwise.nil
  · intro i
    by_cases hlt : i < numLevels
    · rw [level_treeOf L fs hlt]
      have := ids_pairwise hok.ids (sortLevel_perm i (fs.filter (fun f => clampLevel (maxList (fs.map L)) (L f) == i)))
      rw [List.nodup_iff_pairwise_ne, List.pairwise_map]
      exact this
    · rw [level_out _ (by rw [length_treeOf]; omega)]
      exact List.nodup_nil
  · intro i j f g hf hg he
    have hf' := mem_level_treeOf.mp hf
    have hg' := mem_level_treeOf.mp hg
    have : f = g := inj_of_nodup_map (·.id) fs hok.ids f hf'.2.1 g hg'.2.1 he
    subst this
    omega

/-! ## I2 over the search order -/

/-- every version of `f` is newer than every version of `g` of the same key -/
def NewerFile (f g : File) : Prop := ∀ a ∈ f.vers, ∀ b ∈ g.vers, a.1 = b.1 → b.2 < a.2

theorem newerAbove_comps : ∀ (l : List File), l.Pairwise NewerFile → NewerAbove (comps l)
  | [], _ => trivial
  | f :: l, h => by
    rw [List.pairwise_cons] at h
    refine ⟨?_, newerAbove_comps l h.2⟩
    intro a ha d hd b hb
    obtain ⟨g, hg, rfl⟩ := List.mem_map.mp hd
    exact h.1 g hg a ha b hb

/-- the files of a tree in search order -/
def searchFiles (t : Tree) : List File :=
  l0Search (level t 0) ++ ((List.range (t.length - 1)).map (fun j => level t (j + 1))).flatten

theorem treeComps_searchFiles (t : Tree) : treeComps t = comps (searchFiles t) := by
  unfold treeComps searchFiles deepComps comps
  simp [List.map_flatten, List.map_map, Function.comp_def]

theorem newerAbove_of_levels (t : Tree)
    (h0 : (l0Search (level t 0)).Pairwise NewerFile)
    (hin : ∀ i, 1 ≤ i → (level t i).Pairwise NewerFile)
    (hx : ∀ i j, i < j → ∀ f ∈ level t i, ∀ g ∈ level t j, NewerFile f g) : NewerAbove (treeComps t) := by
  rw [treeComps_searchFiles]
  apply newerAbove_comps
  unfold searchFiles
  rw [List.pairwise_append]
  refine ⟨h0, ?_, ?_⟩
  · rw [List.pairwise_flatten]
    refine ⟨?_, ?_⟩
    · intro l hl
      obtain ⟨j, _, rfl⟩ := List.mem_map.mp hl
      exact hin (j + 1) (by omega)
    · rw [List.pairwise_map]
      refine List.Pairwise.imp ?_ List.pairwise_lt_range
      intro a b hab f hf g hg
      exact hx (a + 1) (b + 1) (by omega) f hf g hg
  · intro f hf g hg
    obtain ⟨l, hl, hgl⟩ := List.mem_flatten.mp hg
    obtain ⟨j, _, rfl⟩ := List.mem_map.mp hl
    exact hx 0 (j + 1) (by omega) f (mem_l0Search.mp hf) g hgl

/-- two files that share a key overlap in key range -/
theorem shared_key_overlap {fs : List File} (hok : FilesOk fs) {f g : File} (hf : f ∈ fs) (hg : g ∈ fs)
    {a b : Nat × Nat} (ha : a ∈ f.vers) (hb : b ∈ g.vers) (hk : a.1 = b.1) : keyOverlap f g = true := by
  have h1 := (hok.wf f hf).2 a ha
  have h2 := (hok.wf g hg).2 b hb
  unfold keyOverlap
  simp only [Bool.and_eq_true, decide_eq_true_eq]
  omega

/-- **the recovered version satisfies I2** (newer above, over the search order: level 0 by descending
    `biggest_timestamp`, then the levels) when no two files overlap in key range and in timestamp
    range -/
theorem recovered_newer_above {fs : List File} (hok : FilesOk fs) (hno : NoKeyTsOverlap fs) {t : Tree}
    (hr : IsRecovered fs t) : NewerAbove (treeComps t) := by
  obtain ⟨L, hL, rfl⟩ := hr
  -- the file entirely newer in timestamps is newer version by version
  have newer : ∀ f ∈ fs, ∀ g ∈ fs, g.bts < sts f → NewerFile f g := by
    intro f _ g hg hlt a ha b hb _
    have := sts_le ha
    have := hok.ts g hg b hb
    omega
  apply newerAbove_of_levels
  · -- level 0: searched by descending biggest timestamp
    have hperm : (l0Search (level (treeOf L fs) 0)).Perm
        (fs.filter (fun f => clampLevel (maxList (fs.map L)) (L f) == 0)) := by
      unfold l0Search
      rw [level_treeOf L fs (by decide)]
      exact (List.reverse_perm _).trans ((List.mergeSort_perm _ _).trans (sortLevel_perm _ _))
    have hne := ids_pairwise hok.ids hperm
    have hsorted : (l0Search (level (treeOf L fs) 0)).Pairwise (fun a b => b.bts ≤ a.bts) := by
      unfold l0Search
      rw [List.pairwise_reverse]
      refine List.Pairwise.imp ?_ (List.pairwise_mergeSort bts_trans bts_total _)
      intro a b h
      exact of_decide_eq_true h
    refine List.Pairwise.imp_of_mem ?_ (hsorted.and hne)
    intro f g hf hg ⟨hle, hid⟩ a ha b hb hk
    have hf' := (List.mem_filter.mp (hperm.mem_iff.mp hf)).1
    have hg' := (List.mem_filter.mp (hperm.mem_iff.mp hg)).1
    have hov := shared_key_overlap hok hf' hg' ha hb hk
    rcases hno f hf' g hg' hid hov with h | h
    · have := sts_le_bts hok hg'; omega
    · exact newer f hf' g hg' h a ha b hb hk
  · -- a deeper level: files of one level share no key
    intro i hi
    by_cases hlt : i < numLevels
    · rw [level_treeOf L fs hlt]
      have hperm := sortLevel_perm i (fs.filter (fun f => clampLevel (maxList (fs.map L)) (L f) == i))
      have hne := ids_pairwise hok.ids hperm
      refine List.Pairwise.imp_of_mem ?_ hne
      intro f g hf hg hid a ha b hb hk
      have hf' := List.mem_filter.mp (hperm.mem_iff.mp hf)
      have hg' := List.mem_filter.mp (hperm.mem_iff.mp hg)
      have ca : clampLevel (maxList (fs.map L)) (L f) = i := by simpa using hf'.2
      have cb : clampLevel (maxList (fs.map L)) (L g) = i := by simpa using hg'.2
      have hov := shared_key_overlap hok hf'.1 hg'.1 ha hb hk
      rcases overlap_separated hok hno hL hf'.1 hg'.1 hid hov with ⟨_, h⟩ | ⟨_, h⟩
      · have := clamp_eq_pos _ h (by rw [ca, cb]); omega
      · have := clamp_eq_pos _ h (by rw [ca, cb]); omega
    · rw [level_out _ (by rw [length_treeOf]; omega)]
      exact List.Pairwise.nil
  · -- across levels: the file above is the newer one
    intro i j hij f hf g hg a ha b hb hk
    obtain ⟨_, hf', ca⟩ := mem_level_treeOf.mp hf
    obtain ⟨_, hg', cb⟩ := mem_level_treeOf.mp hg
    have hid : f.id ≠ g.id := by
      intro he
      have : f = g := inj_of_nodup_map (·.id) fs hok.ids f hf' g hg' he
      subst this; omega
    have hov := shared_key_overlap hok hf' hg' ha hb hk
    rcases overlap_separated hok hno hL hf' hg' hid hov with ⟨h, _⟩ | ⟨_, h⟩
    · exact newer f hf' g hg' h a ha b hb hk
    · have := clamp_mono (maxList (fs.map L)) (Nat.le_of_lt h); omega

/-- the files of a tree with `Inv` -/
theorem filesOk_of_inv {t0 : Tree} (hinv : Inv t0) (hts : ∀ f ∈ t0.flatten, ∀ v ∈ f.vers, v.2 ≤ f.bts) :
    FilesOk t0.flatten :=
  ⟨fun f hf => by
      obtain ⟨l, hl, hfl⟩ := List.mem_flatten.mp hf
      exact hinv.wf l hl f hfl,
    hinv.ids, hts⟩

/-- **reopening a running store**: the files of a tree with the tree invariant, no two of them
    overlapping in key range and in timestamp range: every version `recover` may build satisfies the
    tree invariant and I2 -/
theorem recover_preserves_inv {t0 t : Tree} (hinv : Inv t0)
    (hts : ∀ f ∈ t0.flatten, ∀ v ∈ f.vers, v.2 ≤ f.bts)
    (hno : NoKeyTsOverlap t0.flatten) (hr : IsRecovered t0.flatten t) :
    Inv t ∧ NewerAbove (treeComps t) :=
  ⟨recovered_inv (filesOk_of_inv hinv hts) hno hr, recovered_newer_above (filesOk_of_inv hinv hts) hno hr⟩


/-! ## the recovered version holds exactly the files given, and reads what the running tree read -/

theorem maxList_ge : ∀ (l : List Nat), ∀ x ∈ l, x ≤ maxList l
  | [], x, hx => by cases hx
  | y :: ys, x, hx => by
    unfold maxList
    rcases List.mem_cons.mp hx with rfl | hx
    · exact Nat.le_max_left _ _
    · exact Nat.le_trans (maxList_ge ys x hx) (Nat.le_max_right _ _)

theorem clamp_lt {m l : Nat} (h : l ≤ m) : clampLevel m l < numLevels := by
  unfold clampLevel numLevels
  split
  · split <;> omega
  · omega

/-- every file lands in one of the `NUM_LEVELS` levels: the version holds exactly the files given -/
theorem mem_flatten_treeOf {L : File → Nat} {fs : List File} {f : File} :
    f ∈ (treeOf L fs).flatten ↔ f ∈ fs := by
  rw [mem_flatten_level]
  constructor
  · rintro ⟨i, hi⟩; exact (mem_level_treeOf.mp hi).2.1
  · intro hf
    refine ⟨clampLevel (maxList (fs.map L)) (L f), mem_level_treeOf.mpr ⟨?_, hf, rfl⟩⟩
    exact clamp_lt (maxList_ge _ _ (List.mem_map.mpr ⟨f, hf, rfl⟩))

theorem recovered_files {fs : List File} {t : Tree} (hr : IsRecovered fs t) {f : File} :
    f ∈ t.flatten ↔ f ∈ fs := by
  obtain ⟨L, _, rfl⟩ := hr
  exact mem_flatten_treeOf

theorem mem_searchFiles {t : Tree} {f : File} : f ∈ searchFiles t ↔ f ∈ t.flatten := by
  rw [mem_flatten_level]
  unfold searchFiles
  rw [List.mem_append, mem_l0Search]
  constructor
  · rintro (h | h)
    · exact ⟨0, h⟩
    · obtain ⟨l, hl, hfl⟩ := List.mem_flatten.mp h
      obtain ⟨j, _, rfl⟩ := List.mem_map.mp hl
      exact ⟨j + 1, hfl⟩
  · rintro ⟨i, hi⟩
    cases i with
    | zero => exact Or.inl hi
    | succ j =>
      refine Or.inr (List.mem_flatten.mpr ⟨level t (j + 1), List.mem_map.mpr ⟨j, ?_, rfl⟩, hi⟩)
      rw [List.mem_range]
      by_cases hlt : j + 1 < t.length
      · omega
      · rw [level_out t (by omega)] at hi; cases hi

/-- the versions a tree holds are the versions of its files -/
theorem mem_treeComps_flatten {t : Tree} {e : Ver Nat} :
    e ∈ (treeComps t).flatten ↔ ∃ f ∈ t.flatten, e ∈ f.vers := by
  rw [treeComps_searchFiles]
  unfold comps
  constructor
  · intro h
    obtain ⟨c, hc, he⟩ := List.mem_flatten.mp h
    obtain ⟨f, hf, rfl⟩ := List.mem_map.mp hc
    exact ⟨f, mem_searchFiles.mp hf, he⟩
  · rintro ⟨f, hf, he⟩
    exact List.mem_flatten.mpr ⟨_, List.mem_map.mpr ⟨f, mem_searchFiles.mpr hf, rfl⟩, he⟩

/-- the recovered version holds the versions of the running tree -/
theorem recovered_same_versions {t0 t : Tree} (hr : IsRecovered t0.flatten t) (e : Ver Nat) :
    e ∈ (treeComps t).flatten ↔ e ∈ (treeComps t0).flatten := by
  rw [mem_treeComps_flatten, mem_treeComps_flatten]
  constructor
  · rintro ⟨f, hf, he⟩; exact ⟨f, (recovered_files hr).mp hf, he⟩
  · rintro ⟨f, hf, he⟩; exact ⟨f, (recovered_files hr).mpr hf, he⟩

/-- **reads are unchanged by a reopen inside the class**: the tree of a running store (tree invariant,
    I2), no two files overlapping in key range and timestamp range: the early-exit lookup through
    the recovered version returns what it returned through the running tree, for every key and
    every read timestamp -/
theorem recover_reads_same {t0 t : Tree} (hinv : Inv t0) (hna : NewerAbove (treeComps t0))
    (hts : ∀ f ∈ t0.flatten, ∀ v ∈ f.vers, v.2 ≤ f.bts)
    (hno : NoKeyTsOverlap t0.flatten) (hr : IsRecovered t0.flatten t) (k ts : Nat) :
    load (treeComps t) k ts = load (treeComps t0) k ts := by
  have hna' := (recover_preserves_inv hinv hts hno hr).2
  have h0 := load_visible (treeComps t0) k ts hna
  have h1 := load_visible (treeComps t) k ts hna'
  have hsame := recovered_same_versions hr
  cases e0 : load (treeComps t0) k ts with
  | none =>
    rw [e0] at h0
    cases e1 : load (treeComps t) k ts with
    | none => rfl
    | some b =>
      rw [e1] at h1
      exact absurd h1.2.2.1 (h0 b ((hsame b).mp h1.1) h1.2.1)
  | some a =>
    rw [e0] at h0
    cases e1 : load (treeComps t) k ts with
    | none =>
      rw [e1] at h1
      exact absurd h0.2.2.1 (h1 a ((hsame a).mpr h0.1) h0.2.1)
    | some b =>
      rw [e1] at h1
      have hb : IsVisible (treeComps t0).flatten k ts b :=
        ⟨(hsame b).mp h1.1, h1.2.1, h1.2.2.1, fun e he => h1.2.2.2 e ((hsame e).mpr he)⟩
      rw [visible_unique hb h0]


/-! ## inside the class the executable `recoverTree` IS a recovered version

    Under `NoKeyTsOverlap` every edge goes from the file with the bigger smallest timestamp to the
    one with the smaller: the graph is acyclic, the components are single files, and the fuel of
    `depth` (the number of files) suffices: the depth of `a` is settled after as many rounds as there
    are files with a bigger smallest timestamp than `a`. -/

theorem reach_sound {fs : List File} : ∀ (n : Nat) {a b : File}, b ∈ fs → reach fs n a b = true → Reach fs a b
  | 0, _, _, hb, h => Reach.one hb h
  | n + 1, a, b, hb, h => by
    unfold reach at h
    rw [Bool.or_eq_true] at h
    rcases h with h | h
    · exact Reach.one hb h
    · rw [List.any_eq_true] at h
      obtain ⟨c, hc, hcb⟩ := h
      rw [Bool.and_eq_true] at hcb
      exact Reach.cons hc hcb.1 (reach_sound n hb hcb.2)

theorem sameScc_id {fs : List File} (hok : FilesOk fs) (hno : NoKeyTsOverlap fs) {a b : File} (ha : a ∈ fs) (hb : b ∈ fs)
    (h : sameScc fs a b = true) : a = b := by
  unfold sameScc at h
  rw [Bool.or_eq_true] at h
  rcases h with h | h
  · exact inj_of_nodup_map (·.id) fs hok.ids a ha b hb (by simpa using h)
  · rw [Bool.and_eq_true] at h
    have h1 := (reach_sts hok hno (reach_sound _ hb h.1) ha).2
    have h2 := (reach_sts hok hno (reach_sound _ ha h.2) hb).2
    omega

theorem sameScc_self (fs : List File) (a : File) : sameScc fs a a = true := by
  unfold sameScc; simp

theorem maxList_le : ∀ (l : List Nat) (x : Nat), (∀ y ∈ l, y ≤ x) → maxList l ≤ x
  | [], x, _ => Nat.zero_le _
  | y :: ys, x, h => by
    unfold maxList
    exact Nat.max_le.mpr ⟨h y List.mem_cons_self, maxList_le ys x (fun z hz => h z (List.mem_cons_of_mem _ hz))⟩

theorem depth_succ (fs : List File) (n : Nat) (a : File) : depth fs (n + 1) a =
    maxList (fs.flatMap (fun m => if sameScc fs m a then
      fs.filterMap (fun p => if edge p m && !sameScc fs p m then some (depth fs n p + 1) else none)
      else [])) := rfl

/-- a file directly above `a` forces `a` one level deeper in the next round -/
theorem depth_lower {fs : List File} (hok : FilesOk fs) (hno : NoKeyTsOverlap fs) (n : Nat) {p a : File}
    (hp : p ∈ fs) (ha : a ∈ fs) (he : edge p a = true) : depth fs n p + 1 ≤ depth fs (n + 1) a := by
  have hne : sameScc fs p a = false := by
    cases h : sameScc fs p a with
    | false => rfl
    | true =>
      have := sameScc_id hok hno hp ha h
      subst this
      unfold edge at he
      simp at he
  rw [depth_succ]
  apply maxList_ge
  rw [List.mem_flatMap]
  refine ⟨a, ha, ?_⟩
  rw [if_pos (sameScc_self fs a), List.mem_filterMap]
  exact ⟨p, hp, by rw [he, hne]; rfl⟩

/-- and nothing else does -/
theorem depth_upper {fs : List File} (hok : FilesOk fs) (hno : NoKeyTsOverlap fs) (n : Nat) {a : File}
    (ha : a ∈ fs) (x : Nat) (h : ∀ p ∈ fs, edge p a = true → depth fs n p + 1 ≤ x) : depth fs (n + 1) a ≤ x := by
  rw [depth_succ]
  apply maxList_le
  intro y hy
  rw [List.mem_flatMap] at hy
  obtain ⟨m, hm, hy⟩ := hy
  by_cases hs : sameScc fs m a = true
  · rw [if_pos hs, List.mem_filterMap] at hy
    obtain ⟨p, hp, hy⟩ := hy
    have : m = a := sameScc_id hok hno hm ha hs
    subst this
    by_cases hc : (edge p m && !sameScc fs p m) = true
    · rw [if_pos hc] at hy
      rw [Bool.and_eq_true] at hc
      have := h p hp hc.1
      simp only [Option.some.injEq] at hy
      omega
    · rw [if_neg hc] at hy; cases hy
  · rw [if_neg hs] at hy; cases hy

theorem depth_mono {fs : List File} (hok : FilesOk fs) (hno : NoKeyTsOverlap fs) :
    ∀ (n : Nat) (a : File), a ∈ fs → depth fs n a ≤ depth fs (n + 1) a
  | 0, _, _ => Nat.zero_le _
  | n + 1, a, ha => by
    apply depth_upper hok hno n ha
    intro p hp he
    have := depth_mono hok hno n p hp
    have := depth_lower hok hno (n + 1) hp ha he
    omega

/-- the number of files with a bigger smallest timestamp -/
def rank (fs : List File) (a : File) : Nat := fs.countP (fun f => decide (sts a < sts f))

theorem countP_lt {α : Type} (p q : α → Bool) : ∀ (l : List α), (∀ x ∈ l, p x = true → q x = true) →
    ∀ w ∈ l, q w = true → p w = false → l.countP p < l.countP q
  | [], _, w, hw, _, _ => by cases hw
  | x :: xs, himp, w, hw, hq, hp => by
    rw [List.countP_cons, List.countP_cons]
    have hle : xs.countP p ≤ xs.countP q :=
      List.countP_mono_left (fun y hy => himp y (List.mem_cons_of_mem _ hy))
    rcases List.mem_cons.mp hw with rfl | hw'
    · rw [hq, hp]; simp; omega
    · have := countP_lt p q xs (fun y hy => himp y (List.mem_cons_of_mem _ hy)) w hw' hq hp
      have hx := himp x List.mem_cons_self
      cases hpx : p x with
      | false => simp; split <;> omega
      | true => rw [hx hpx]; simp; omega

theorem rank_lt {fs : List File} {p a : File} (hp : p ∈ fs) (h : sts a < sts p) : rank fs p < rank fs a := by
  unfold rank
  apply countP_lt _ _ fs _ p hp
  · simpa using h
  · simp
  · intro x _ hx
    simp only [decide_eq_true_eq] at hx ⊢
    omega

theorem rank_lt_length {fs : List File} {a : File} (ha : a ∈ fs) : rank fs a < fs.length := by
  unfold rank
  have := countP_lt (fun f => decide (sts a < sts f)) (fun _ => true) fs (fun _ _ _ => rfl) a ha rfl (by simp)
  rw [List.countP_true] at this
  exact this

/-- the depth of `a` is settled after `rank a` rounds -/
theorem depth_settled {fs : List File} (hok : FilesOk fs) (hno : NoKeyTsOverlap fs) :
    ∀ (n : Nat) (a : File), a ∈ fs → rank fs a ≤ n → depth fs (n + 1) a = depth fs n a
  | 0, a, ha, hr => by
    apply Nat.le_antisymm _ (depth_mono hok hno 0 a ha)
    apply depth_upper hok hno 0 ha
    intro p hp he
    have h1 := edge_sts hok hno hp ha he
    have h2 := sts_le_bts hok ha
    have := rank_lt hp (show sts a < sts p by omega)
    omega
  | n + 1, a, ha, hr => by
    apply Nat.le_antisymm _ (depth_mono hok hno (n + 1) a ha)
    apply depth_upper hok hno (n + 1) ha
    intro p hp he
    have h1 := edge_sts hok hno hp ha he
    have h2 := sts_le_bts hok ha
    have h3 := rank_lt hp (show sts a < sts p by omega)
    rw [depth_settled hok hno n p hp (by omega)]
    exact depth_lower hok hno n hp ha he

/-- **inside the class the levels `recoverTree` computes are levels the algorithm guarantees** -/
theorem rawLevel_levelsOk {fs : List File} (hok : FilesOk fs) (hno : NoKeyTsOverlap fs) :
    LevelsOk fs (rawLevel fs) := by
  refine ⟨?_, ?_⟩
  · intro a ha b hb he _
    unfold rawLevel
    have hr := rank_lt_length ha
    obtain ⟨n, hn⟩ : ∃ n, fs.length = n + 1 := ⟨fs.length - 1, by omega⟩
    rw [hn]
    rw [depth_settled hok hno n a ha (by omega)]
    have := depth_lower hok hno n ha hb he
    omega
  · intro a ha b hb he hr
    have h1 := edge_sts hok hno ha hb he
    have h2 := (reach_sts hok hno hr hb).2
    have h3 := sts_le_bts hok hb
    omega

theorem recoverTree_isRecovered {fs : List File} (hok : FilesOk fs) (hno : NoKeyTsOverlap fs) :
    IsRecovered fs (recoverTree fs) := ⟨rawLevel fs, rawLevel_levelsOk hok hno, rfl⟩

/-- **`recover_preserves_inv` for the function**: the files of a tree with the tree invariant and
    truthful timestamp metadata, no two overlapping in key range and in timestamp range:
    `recoverTree` of them satisfies the tree invariant and I2, and reads what the tree read -/
theorem recoverTree_preserves_inv {t0 : Tree} (hinv : Inv t0)
    (hts : ∀ f ∈ t0.flatten, ∀ v ∈ f.vers, v.2 ≤ f.bts) (hno : NoKeyTsOverlap t0.flatten) :
    Inv (recoverTree t0.flatten) ∧ NewerAbove (treeComps (recoverTree t0.flatten))
    ∧ (∀ f, f ∈ (recoverTree t0.flatten).flatten ↔ f ∈ t0.flatten)
    ∧ (NewerAbove (treeComps t0) → ∀ k ts, load (treeComps (recoverTree t0.flatten)) k ts = load (treeComps t0) k ts) := by
  have hr := recoverTree_isRecovered (filesOk_of_inv hinv hts) hno
  obtain ⟨h1, h2⟩ := recover_preserves_inv hinv hts hno hr
  exact ⟨h1, h2, fun f => recovered_files hr, fun hna k ts => recover_reads_same hinv hna hts hno hr k ts⟩

theorem noKeyTsOverlap_of_check {fs : List File} (h : noKeyTsOverlapB fs = true) : NoKeyTsOverlap fs := by
  intro a ha b hb hid hov
  unfold noKeyTsOverlapB at h
  rw [List.all_eq_true] at h
  have := h a ha
  rw [List.all_eq_true] at this
  have := this b hb
  unfold tsOverlap at this
  simp only [Bool.or_eq_true, beq_iff_eq, Bool.not_eq_true', Bool.and_eq_false_iff, Bool.not_eq_false',
    decide_eq_true_eq] at this
  rcases this with h | h | h
  · exact absurd h hid
  · rw [hov] at h; cases h
  · exact h

/-! ## files that overlap in key range and in timestamp range share a level (the mechanism of D-9) -/

/-- two distinct files that overlap in key range and in timestamp range are linked both ways, hence
    one component, hence get the SAME level — whatever levels they had in the running store -/
theorem overlap_same_level {fs : List File} {L : File → Nat} (hL : LevelsOk fs L) {a b : File}
    (ha : a ∈ fs) (hb : b ∈ fs) (hid : a.id ≠ b.id) (hk : keyOverlap a b = true) (ht : tsOverlap a b = true) :
    L a = L b := by
  unfold tsOverlap at ht
  simp only [Bool.not_eq_true', Bool.or_eq_false_iff, decide_eq_false_iff_not] at ht
  have hk' : keyOverlap b a = true := by
    unfold keyOverlap at hk ⊢
    simp only [Bool.and_eq_true, decide_eq_true_eq] at hk ⊢
    exact ⟨hk.2, hk.1⟩
  have e1 : edge a b = true := by
    unfold edge
    simp only [Bool.and_eq_true, bne_iff_ne, ne_eq, Bool.not_eq_true', decide_eq_false_iff_not]
    exact ⟨⟨hid, hk⟩, ht.1⟩
  have e2 : edge b a = true := by
    unfold edge
    simp only [Bool.and_eq_true, bne_iff_ne, ne_eq, Bool.not_eq_true', decide_eq_false_iff_not]
    exact ⟨⟨fun e => hid e.symm, hk'⟩, ht.2⟩
  exact hL.scc a ha b hb e1 (Reach.one ha e2)

/-! ## D-9: a legitimate tree on which the recovered version breaks I1, I2 and a read

    History (timestamps are the write order): flush `{5@1}`; flush `C = {2@2, 3@3, 4@4}`, moved down
    to level 2 (it overlaps nothing); flush `{3@6, 5@7}`, compacted with `{5@1}` into
    `B = {3@6, 5@7, 5@1}` at level 1 (key range [3,5], timestamps [1,7]: it holds newer data for
    key 3 than `C` below it, and older data for key 5 than `C` holds for its keys); flush
    `A = {2@10}` at level 0.  `B` and `C` overlap in keys ([3,4]) and in timestamps ([2,4]); `A` lies
    above `C`. -/

def d9A : File := ⟨1, 2, 2, 100, 10, [(2, 10)]⟩
def d9B : File := ⟨2, 3, 5, 100, 7, [(3, 6), (5, 7), (5, 1)]⟩
def d9C : File := ⟨3, 2, 4, 100, 4, [(2, 2), (3, 3), (4, 4)]⟩

/-- the running tree: `A` over `B` over `C` -/
def d9T0 : Tree := [[d9A], [d9B], [d9C]] ++ List.replicate 13 []

/-- what `recover` builds from its files: `B` and `C` are one component below `A`: both at level 1,
    `C` first (smaller first key) -/
def d9T1 : Tree := [[d9A], [d9C, d9B]] ++ List.replicate 14 []

theorem d9_recovered : recoverTree d9T0.flatten = d9T1 := by decide +kernel

theorem d9_t0_legit : Inv d9T0 ∧ NewerAbove (treeComps d9T0) :=
  ⟨invB_sound (by decide +kernel), Blue.Kvs.newerAboveB_sound _ (by decide +kernel)⟩

/-- no path leads into `A` -/
theorem d9_nothing_above_A {x y : File} (h : Reach d9T0.flatten x y) : x ∈ d9T0.flatten → y ≠ d9A := by
  induction h with
  | @one a b _ he =>
    intro hx hy
    subst hy
    have hx' : a = d9A ∨ a = d9B ∨ a = d9C := by simpa [d9T0] using hx
    rcases hx' with rfl | rfl | rfl <;> revert he <;> decide +kernel
  | cons hc _ _ ih => intro _; exact ih hc

/-- the level assignment of `recoverTree` on these files is one the code's algorithm guarantees
    (`Reach` decided by hand: `B ⇄ C`, `A → C`, nothing reaches `A`) -/
theorem d9_isRecovered : IsRecovered d9T0.flatten d9T1 := by
  refine ⟨rawLevel d9T0.flatten, ⟨?_, ?_⟩, d9_recovered.symm⟩
  · intro a ha b hb he _
    have ha' : a = d9A ∨ a = d9B ∨ a = d9C := by simpa [d9T0] using ha
    have hb' : b = d9A ∨ b = d9B ∨ b = d9C := by simpa [d9T0] using hb
    rcases ha' with rfl | rfl | rfl <;> rcases hb' with rfl | rfl | rfl <;>
      first
        | (exfalso; revert he; decide +kernel)
        | (show rawLevel d9T0.flatten _ < rawLevel d9T0.flatten _; decide +kernel)
        | skip
    all_goals
      rename_i hnr
      exfalso
      apply hnr
      first
        | exact Reach.one (by simp [d9T0]) (by decide +kernel)
  · intro a ha b hb he _
    have ha' : a = d9A ∨ a = d9B ∨ a = d9C := by simpa [d9T0] using ha
    have hb' : b = d9A ∨ b = d9B ∨ b = d9C := by simpa [d9T0] using hb
    rcases ha' with rfl | rfl | rfl <;> rcases hb' with rfl | rfl | rfl <;>
      first
        | (exfalso; revert he; decide +kernel)
        | (show rawLevel d9T0.flatten _ = rawLevel d9T0.flatten _; decide +kernel)
        | skip
    all_goals
      rename_i hr
      exact absurd rfl (d9_nothing_above_A hr (by simp [d9T0]))

/-- **D-9 as a theorem about the code as it stands**: the files of a legitimate tree (tree
    invariant and I2 hold), reopened: the recovered version breaks I1 (level 1 holds two files with
    overlapping key ranges), breaks I2 (the older version of key 3 is searched first), and the
    read of key 3 returns `3@3` where the store held `3@6` -/
theorem recover_breaks_inv_witness :
    (Inv d9T0 ∧ NewerAbove (treeComps d9T0))
    ∧ noKeyTsOverlapB d9T0.flatten = false
    ∧ recoverTree d9T0.flatten = d9T1
    ∧ ¬ Inv d9T1
    ∧ ¬ NewerAbove (treeComps d9T1)
    ∧ load (treeComps d9T0) 3 100 = some (3, 6)
    ∧ load (treeComps d9T1) 3 100 = some (3, 3) := by
  refine ⟨d9_t0_legit, by decide +kernel, d9_recovered, ?_, ?_, by decide +kernel, by decide +kernel⟩
  · intro h
    have := h.sorted [d9C, d9B] (by simp [d9T1])
    unfold SortedLevel at this
    rw [List.pairwise_cons] at this
    have := this.1 d9B (by simp)
    revert this
    decide
  · intro h
    have := newerAboveB_complete _ h
    revert this
    decide +kernel

/-! ## the boundary is not exactly `NoKeyTsOverlap`: overlap is harmless when the component lands in
    level 0 -/

/-- `B` over `C` alone (nothing above them): they overlap in keys and timestamps, are one
    component with no incoming edge, and both land in LEVEL 0, where overlapping ranges are allowed
    and the search goes by descending `biggest_timestamp`: tree invariant, I2 and the read hold -/
theorem overlap_harmless_at_level0 :
    noKeyTsOverlapB [d9B, d9C] = false
    ∧ recoverTree [d9B, d9C] = [[d9B, d9C]] ++ List.replicate 15 []
    ∧ Inv (recoverTree [d9B, d9C])
    ∧ NewerAbove (treeComps (recoverTree [d9B, d9C]))
    ∧ load (treeComps (recoverTree [d9B, d9C])) 3 100 = some (3, 6) := by
  have hc : treeComps (recoverTree [d9B, d9C]) = [d9B.vers, d9C.vers] := by
    have h : recoverTree [d9B, d9C] = [[d9B, d9C]] ++ List.replicate 15 [] := by decide +kernel
    have h0 : l0Search [d9B, d9C] = [d9B, d9C] := by
      simp [l0Search, List.mergeSort, d9B, d9C]
    rw [h]
    show comps (l0Search [d9B, d9C]) ++ deepComps _ 1 _ = _
    rw [h0]
    decide +kernel
  exact ⟨by decide +kernel, by decide +kernel, invB_sound (by decide +kernel),
    Blue.Kvs.newerAboveB_sound _ (by rw [hc]; decide +kernel), by rw [hc]; decide +kernel⟩

/-! ## a tree recovered to the same levels -/

def okA : File := ⟨1, 0, 9, 100, 40, [(1, 40), (8, 39)]⟩
def okB : File := ⟨2, 0, 4, 100, 30, [(1, 30), (4, 29)]⟩
def okC : File := ⟨3, 5, 9, 100, 28, [(5, 28), (8, 27)]⟩
def okD : File := ⟨4, 0, 9, 100, 20, [(1, 20), (4, 19), (8, 18)]⟩

/-- four files, no two overlapping in keys and timestamps: `A` over `B, C` over `D` -/
def okT0 : Tree := [[okA], [okB, okC], [okD]] ++ List.replicate 13 []

theorem ok_recovered_same : recoverTree okT0.flatten = okT0 := by decide +kernel

theorem ok_noOverlap : noKeyTsOverlapB okT0.flatten = true := by decide +kernel

end Blue.Recover

#print axioms Blue.Recover.recovered_inv
#print axioms Blue.Recover.recovered_newer_above
#print axioms Blue.Recover.recover_preserves_inv
#print axioms Blue.Recover.recover_reads_same
#print axioms Blue.Recover.rawLevel_levelsOk
#print axioms Blue.Recover.recoverTree_preserves_inv
#print axioms Blue.Recover.overlap_same_level
#print axioms Blue.Recover.d9_isRecovered
#print axioms Blue.Recover.recover_breaks_inv_witness
#print axioms Blue.Recover.overlap_harmless_at_level0
