import Blue.Model.StallTree
import Blue.Proofs.Stall
import Blue.Proofs.NextCompactionMain
/-! **C20** the protocol model and the selector composed over runs (`Blue.StallTree`).

* `proj_step`, `stalltree_refines_stall`: every run of `StallTree` projects, event by event, to a run
  of `Blue.Stall` (level 0 of the tree as file count and bytes; the selector's answer and what an
  installed compaction takes out of level 0 are read off the tree), and `selOK` of every projected
  selection is `selT` of the tree and the compactions in flight at that state;
* `stalltree_inv_run`, `stalltree_never_all_parked`, `stalltree_stalled_has_runner`: the theorems of
  `Blue.Stall` transferred;
* `rank_step` / `released_of_rank`: bounded progress over any rank of the tree that every install
  made while ingest is stalled lowers; `release_measure_step`, `stalled_ingest_released_partial`
  (rank: the files of level 0; for runs whose compactions in flight all take a file out of level 0);
  `pot_apply_lt`, `stalled_ingest_released` (rank: the potential of the whole tree; any compaction);
* `relieving_not_guaranteed`: the selector hands out a move below level 0 while ingest is stalled. -/
namespace Blue.StallTree
open Blue.NextCompaction

/-! ## `Level::size` -/

def u64Max : Nat := 18446744073709551615

theorem satAddU_le (a b : Nat) : satAddU a b ≤ u64Max := by
  unfold satAddU u64Max; split <;> omega

theorem le_satAddU {a : Nat} (b : Nat) (ha : a ≤ u64Max) : a ≤ satAddU a b := by
  unfold satAddU; unfold u64Max at ha; split <;> omega

theorem satAddU_mono {a b : Nat} (x : Nat) (h : a ≤ b) : satAddU a x ≤ satAddU b x := by
  unfold satAddU; split <;> split <;> omega

theorem foldl_satAddU_le (l : List File) (a : Nat) (ha : a ≤ u64Max) :
    l.foldl (fun a f => satAddU a f.size) a ≤ u64Max := by
  induction l generalizing a with
  | nil => exact ha
  | cons x r ih => exact ih _ (satAddU_le _ _)

theorem levelSize_le (l : List File) : levelSize l ≤ u64Max :=
  foldl_satAddU_le l 0 (by decide)

theorem foldl_filter_le (p : File → Bool) (l : List File) (a b : Nat) (hab : a ≤ b) (hb : b ≤ u64Max) :
    (l.filter p).foldl (fun a f => satAddU a f.size) a ≤ l.foldl (fun a f => satAddU a f.size) b := by
  induction l generalizing a b with
  | nil => exact hab
  | cons x r ih =>
    rw [List.filter_cons]
    split
    · exact ih _ _ (satAddU_mono _ hab) (satAddU_le _ _)
    · exact ih _ _ (Nat.le_trans hab (le_satAddU _ hb)) (satAddU_le _ _)

theorem levelSize_filter_le (p : File → Bool) (l : List File) : levelSize (l.filter p) ≤ levelSize l :=
  foldl_filter_le p l 0 0 (Nat.le_refl _) (by decide)

theorem levelSize_append_one (l : List File) (f : File) : levelSize (l ++ [f]) = satAddU (levelSize l) f.size := by
  simp [levelSize, List.foldl_append]

theorem length_filter_lt {α : Type} (p : α → Bool) (l : List α) (h : ∃ x ∈ l, p x = false) :
    (l.filter p).length < l.length := by
  induction l with
  | nil => obtain ⟨x, hx, _⟩ := h; cases hx
  | cons a r ih =>
    rw [List.filter_cons]
    split
    · rename_i hpa
      obtain ⟨x, hx, hpx⟩ := h
      rcases List.mem_cons.mp hx with rfl | hx
      · rw [hpa] at hpx; cases hpx
      · have := ih ⟨x, hx, hpx⟩
        simp only [List.length_cons]; omega
    · have := List.length_filter_le p r
      simp only [List.length_cons]; omega

/-! ## level 0 under `ingest` and `apply_compaction` -/

theorem level0_ingest {t : Tree} (h : t ≠ []) (f : File) : level (ingest t f) 0 = level t 0 ++ [f] := by
  cases t with
  | nil => exact absurd rfl h
  | cons l0 rest => rfl

theorem ingest_ne_nil {t : Tree} (h : t ≠ []) (f : File) : ingest t f ≠ [] := by
  cases t with
  | nil => exact absurd rfl h
  | cons l0 rest => simp [ingest]

theorem applyCompaction_ne_nil {t : Tree} (h : t ≠ []) (c : Core) (outs : List File) :
    applyCompaction t c outs ≠ [] := by
  cases t with
  | nil => exact absurd rfl h
  | cons l0 rest => simp [applyCompaction, List.mapIdx_cons]

theorem level0_apply {t : Tree} (h : t ≠ []) (c : Core) (outs : List File) (hc : c.lower < c.upper) :
    level (applyCompaction t c outs) 0 = if c.lower = 0 then dropInputs c.inputs (level t 0) else level t 0 := by
  cases t with
  | nil => exact absurd rfl h
  | cons l0 rest =>
    simp only [applyCompaction, List.mapIdx_cons, level, List.getD_cons_zero, applyLevel]
    by_cases h0 : c.lower = 0
    · have : c.lower ≤ 0 ∧ 0 < c.upper := by omega
      simp [this, h0]
    · have h1 : ¬ (c.lower ≤ 0 ∧ 0 < c.upper) := by omega
      have h2 : ¬ (0 = c.upper) := by omega
      simp [h2, h0]

theorem l0_apply_len_le {t : Tree} (h : t ≠ []) (c : Core) (outs : List File) (hc : c.lower < c.upper) :
    (level (applyCompaction t c outs) 0).length ≤ (level t 0).length := by
  rw [level0_apply h c outs hc]
  split
  · exact List.length_filter_le _ _
  · exact Nat.le_refl _

theorem l0_apply_size_le {t : Tree} (h : t ≠ []) (c : Core) (outs : List File) (hc : c.lower < c.upper) :
    levelSize (level (applyCompaction t c outs) 0) ≤ levelSize (level t 0) := by
  rw [level0_apply h c outs hc]
  split
  · exact levelSize_filter_le _ _
  · exact Nat.le_refl _

theorem l0_apply_len_lt {t : Tree} (h : t ≠ []) (c : Core) (outs : List File) (hc : c.lower < c.upper)
    (hr : relieves t c = true) :
    (level (applyCompaction t c outs) 0).length < (level t 0).length := by
  simp only [relieves, Bool.and_eq_true, beq_iff_eq, List.any_eq_true] at hr
  obtain ⟨h0, f, hf, hin⟩ := hr
  rw [level0_apply h c outs hc, if_pos h0]
  exact length_filter_lt _ _ ⟨f, hf, by rw [hin]; rfl⟩

/-! ## what the selector returns -/

theorem nextCompaction_lower_lt_upper (n : Num) (o : Opts) (t : Tree) (g : List Core) {c : Core}
    (h : nextCompaction n o t g = some c) : c.lower < c.upper := by
  apply nextCompaction_origin n o t g (fun c => c.lower < c.upper) ?_ ?_ h
  · intro lower f c _ _ hone
    rw [(trivialOne_some hone).2.2.2.1]
    exact Nat.lt_succ_self _
  · intro lower first last d sz _ hd _ _ _ _
    show lower < lower + d
    omega

/-! ## well-formed states -/

structure WF (s : St) : Prop where
  tree : s.tree ≠ []
  levels : ∀ c, CState.inflight c ∈ s.compactors → c.lower < c.upper

theorem mem_og {s : St} {c : Core} : c ∈ og s ↔ CState.inflight c ∈ s.compactors := by
  unfold og
  rw [List.mem_filterMap]
  constructor
  · rintro ⟨a, ha, hc⟩
    cases a <;> simp [core?] at hc
    subst hc; exact ha
  · intro h; exact ⟨_, h, rfl⟩

theorem wfB_sound {s : St} (h : wfB s = true) : WF s := by
  simp only [wfB, Bool.and_eq_true, Bool.not_eq_true', List.isEmpty_eq_false_iff, List.all_eq_true,
    decide_eq_true_eq] at h
  exact ⟨h.1, fun c hc => h.2 c (mem_og.mpr hc)⟩

theorem mem_wakeC {l : List CState} {c : Core} (h : CState.inflight c ∈ wakeC l) : CState.inflight c ∈ l := by
  unfold wakeC at h
  rw [List.mem_map] at h
  obtain ⟨a, ha, he⟩ := h
  split at he
  · cases he
  · subst he; exact ha

theorem wf_step (cfg : Cfg) {s : St} (h : WF s) (ev : Ev) : WF (step cfg s ev) := by
  cases ev with
  | ingest i f =>
    simp only [step]
    split
    · split
      · exact ⟨h.tree, h.levels⟩
      · exact ⟨ingest_ne_nil h.tree f, fun c hc => h.levels c (mem_wakeC hc)⟩
    · exact h
  | select i =>
    simp only [step]
    split
    · split
      · rename_i c hn
        refine ⟨h.tree, fun d hd => ?_⟩
        rcases List.mem_or_eq_of_mem_set hd with hd | hd
        · exact h.levels d hd
        · cases hd; exact nextCompaction_lower_lt_upper _ _ _ _ hn
      · refine ⟨h.tree, fun d hd => ?_⟩
        rcases List.mem_or_eq_of_mem_set hd with hd | hd
        · exact h.levels d hd
        · cases hd
    · exact h
  | finish i outs =>
    simp only [step]
    split
    · refine ⟨applyCompaction_ne_nil h.tree _ _, fun d hd => ?_⟩
      rcases List.mem_or_eq_of_mem_set hd with hd | hd
      · exact h.levels d hd
      · cases hd
    · exact h
  | abort i =>
    simp only [step]
    split
    · refine ⟨h.tree, fun d hd => ?_⟩
      rcases List.mem_or_eq_of_mem_set hd with hd | hd
      · exact h.levels d hd
      · cases hd
    · exact h
  | spurI i =>
    simp only [step]
    split
    · exact ⟨h.tree, h.levels⟩
    · exact h
  | spurC i =>
    simp only [step]
    split
    · refine ⟨h.tree, fun d hd => ?_⟩
      rcases List.mem_or_eq_of_mem_set hd with hd | hd
      · exact h.levels d hd
      · cases hd
    · exact h

theorem wf_run (cfg : Cfg) {s : St} (h : WF s) (evs : List Ev) : WF (run cfg s evs) := by
  induction evs generalizing s with
  | nil => exact h
  | cons ev r ih => exact ih (wf_step cfg h ev)

/-! ## the projection -/

theorem wakeAll_map_ctl (l : List CState) : Stall.wakeAll (l.map ctl) = (wakeC l).map ctl := by
  induction l with
  | nil => rfl
  | cons a r ih =>
    simp only [Stall.wakeAll, wakeC, List.map_cons, List.map_map] at ih ⊢
    rw [List.cons.injEq]
    refine ⟨?_, ?_⟩
    · cases a <;> simp [ctl]
    · simpa [Function.comp_def] using ih

theorem set_map_ctl (l : List CState) (i : Nat) (x : CState) :
    Stall.setAt (l.map ctl) i (ctl x) = (l.set i x).map ctl := by
  simp [Stall.setAt, List.map_set]

theorem getElem?_map_ctl (l : List CState) (i : Nat) : (l.map ctl)[i]? = (l[i]?).map ctl := by
  simp

theorem idle_list (l : List CState) :
    (l.map ctl).all (· != Stall.TState.inflight) = (l.filterMap core?).isEmpty := by
  induction l with
  | nil => rfl
  | cons a r ih =>
    cases a with
    | running =>
      have : (Stall.TState.running != Stall.TState.inflight) = true := by decide
      simp only [List.map_cons, List.all_cons, ctl, List.filterMap_cons, core?, this, Bool.true_and]
      exact ih
    | waiting =>
      have : (Stall.TState.waiting != Stall.TState.inflight) = true := by decide
      simp only [List.map_cons, List.all_cons, ctl, List.filterMap_cons, core?, this, Bool.true_and]
      exact ih
    | inflight c => simp [ctl, core?]

theorem idle_proj (cfg : Cfg) (s : St) : Stall.idle (proj cfg s) = (og s).isEmpty := by
  simp only [Stall.idle, proj, og, idle_list]
  simp

theorem stalled_proj (cfg : Cfg) (s : St) : Stall.stalled (proj cfg s) = stalledT cfg s.tree := rfl

/-- one step of `StallTree` is one step of `Blue.Stall` on what the state shows -/
theorem proj_step (cfg : Cfg) {s : St} (h : WF s) (ev : Ev) :
    proj cfg (step cfg s ev) = Stall.step (proj cfg s) (projEv cfg s ev) := by
  cases ev with
  | ingest i f =>
    simp only [projEv, Stall.step]
    have hi : (proj cfg s).ingesters[i]? = s.ingesters[i]? := rfl
    rw [hi, stalled_proj]
    cases hg : s.ingesters[i]? with
    | none => simp [step, hg]
    | some a =>
      cases a with
      | running =>
        cases hst : stalledT cfg s.tree with
        | true => simp [step, hg, hst, proj, l0Len, l0Bytes, Stall.setAt]
        | false =>
          have hs' : step cfg s (.ingest i f)
              = { s with tree := ingest s.tree f, quiet := false, compactors := wakeC s.compactors } := by
            simp [step, hg, hst]
          rw [hs']
          have hb : l0Bytes s ≤ satAddU (l0Bytes s) f.size := le_satAddU _ (levelSize_le _)
          simp only [proj, l0Len, l0Bytes, level0_ingest h.tree, levelSize_append_one, List.length_append,
            List.length_cons, List.length_nil, wakeAll_map_ctl, if_true, Bool.false_eq_true, if_false]
          simp only [l0Bytes] at hb
          congr 1
          omega
      | inflight => simp [step, hg]
      | waiting => simp [step, hg]
  | select i =>
    simp only [projEv, Stall.step]
    have hi : (proj cfg s).compactors[i]? = (s.compactors[i]?).map ctl := getElem?_map_ctl _ _
    rw [hi, idle_proj]
    cases hg : s.compactors[i]? with
    | none => simp [step, hg]
    | some a =>
      cases a with
      | running =>
        cases hn : nextCompaction cfg.num cfg.opts s.tree (og s) with
        | none =>
          simp only [step, hg, hn, Option.map_some, ctl, Option.isSome_none, Bool.false_eq_true, if_false]
          simp only [proj, l0Len, l0Bytes, ← set_map_ctl, ctl]
        | some c =>
          simp only [step, hg, hn, Option.map_some, ctl, Option.isSome_some, if_true]
          simp only [proj, l0Len, l0Bytes, ← set_map_ctl, ctl]
      | inflight c => simp [step, hg, ctl]
      | waiting => simp [step, hg, ctl]
  | finish i outs =>
    simp only [projEv, Stall.step]
    have hi : (proj cfg s).compactors[i]? = (s.compactors[i]?).map ctl := getElem?_map_ctl _ _
    rw [hi]
    cases hg : s.compactors[i]? with
    | none => simp [step, hg]
    | some a =>
      cases a with
      | running => simp [step, hg, ctl]
      | waiting => simp [step, hg, ctl]
      | inflight c =>
        have hc : c.lower < c.upper := h.levels c (List.mem_of_getElem? hg)
        have hs' : step cfg s (.finish i outs)
            = { s with tree := applyCompaction s.tree c outs, quiet := false,
                       ingesters := Stall.wakeAll s.ingesters, compactors := s.compactors.set i .running } := by
          simp [step, hg]
        rw [hs']
        have h1 := l0_apply_len_le h.tree c outs hc
        have h2 := l0_apply_size_le h.tree c outs hc
        simp only [Option.map_some, ctl, proj, l0Len, l0Bytes, ← set_map_ctl]
        congr 1 <;> omega
  | abort i =>
    simp only [projEv, Stall.step]
    have hi : (proj cfg s).compactors[i]? = (s.compactors[i]?).map ctl := getElem?_map_ctl _ _
    rw [hi]
    cases hg : s.compactors[i]? with
    | none => simp [step, hg]
    | some a =>
      cases a with
      | running => simp [step, hg, ctl]
      | waiting => simp [step, hg, ctl]
      | inflight c =>
        simp only [step, hg, Option.map_some, ctl]
        simp only [proj, l0Len, l0Bytes, ← set_map_ctl, ctl, if_true]
  | spurI i =>
    simp only [projEv, Stall.step]
    have hi : (proj cfg s).ingesters[i]? = s.ingesters[i]? := rfl
    rw [hi]
    cases hg : s.ingesters[i]? with
    | none => simp [step, hg]
    | some a => cases a <;> simp [step, hg, proj, l0Len, l0Bytes, Stall.setAt]
  | spurC i =>
    simp only [projEv, Stall.step]
    have hi : (proj cfg s).compactors[i]? = (s.compactors[i]?).map ctl := getElem?_map_ctl _ _
    rw [hi]
    cases hg : s.compactors[i]? with
    | none => simp [step, hg]
    | some a =>
      cases a with
      | running => simp [step, hg, ctl]
      | inflight c => simp [step, hg, ctl]
      | waiting =>
        simp only [step, hg, Option.map_some, ctl]
        simp only [proj, l0Len, l0Bytes, ← set_map_ctl, ctl]

/-- `selOK` of a projected event is `selT` of the tree and the compactions in flight -/
theorem selOK_proj (cfg : Cfg) (s : St) (ev : Ev) (hsel : selSt cfg s = true) :
    Stall.selOK (proj cfg s) (projEv cfg s ev) = true := by
  cases ev with
  | select i =>
    simp only [projEv]
    cases hn : (nextCompaction cfg.num cfg.opts s.tree (og s)).isSome with
    | true => rfl
    | false =>
      simp only [Stall.selOK, stalled_proj, idle_proj]
      simpa [selSt, selT, hn] using hsel
  | _ => rfl

/-- **every run of `StallTree` is a run of `Blue.Stall`** with `Sel` at every selection, where
    `Sel` is `selT` of the tree states along the run -/
theorem stalltree_refines_stall (cfg : Cfg) (s : St) (evs : List Ev) (hwf : WF s)
    (hsel : along cfg (selSt cfg) s evs = true) :
    proj cfg (run cfg s evs) = (projRun cfg s evs).foldl Stall.step (proj cfg s)
      ∧ Stall.runSel (proj cfg s) (projRun cfg s evs) = true := by
  induction evs generalizing s with
  | nil => exact ⟨rfl, rfl⟩
  | cons ev r ih =>
    simp only [along, Bool.and_eq_true] at hsel
    have := ih (step cfg s ev) (wf_step cfg hwf ev) hsel.2
    simp only [run, List.foldl_cons, projRun, Stall.runSel, Bool.and_eq_true] at this ⊢
    rw [← proj_step cfg hwf ev]
    exact ⟨this.1, selOK_proj cfg s ev hsel.1, this.2⟩

/-- the invariant of `Blue.Stall` along every run of `StallTree` -/
theorem stalltree_inv_run (cfg : Cfg) (s : St) (evs : List Ev) (hwf : WF s) (hinv : Stall.Inv (proj cfg s))
    (hsel : along cfg (selSt cfg) s evs = true) : Stall.Inv (proj cfg (run cfg s evs)) := by
  obtain ⟨h1, h2⟩ := stalltree_refines_stall cfg s evs hwf hsel
  rw [h1]
  exact Stall.inv_run hinv _ h2

/-- `writes_never_all_parked_partial` transferred: with `Sel` a property of the tree states -/
theorem stalltree_never_all_parked (cfg : Cfg) (s : St) (evs : List Ev) (hwf : WF s)
    (hinv : Stall.Inv (proj cfg s)) (hsel : along cfg (selSt cfg) s evs = true) :
    Stall.deadlocked (proj cfg (run cfg s evs)) = false :=
  Stall.inv_not_deadlocked (stalltree_inv_run cfg s evs hwf hinv hsel)

/-- `stalled_has_runner` transferred, as enabledness of a compaction-thread step: while an ingester
    is parked some compaction thread can select or has a compaction to install -/
theorem stalltree_stalled_has_runner (cfg : Cfg) (s : St) (evs : List Ev) (hwf : WF s)
    (hinv : Stall.Inv (proj cfg s)) (hsel : along cfg (selSt cfg) s evs = true)
    (hst : Stall.TState.waiting ∈ (run cfg s evs).ingesters) :
    ∃ i, compStep (run cfg s evs) (.select i) = true ∨ ∀ outs, compStep (run cfg s evs) (.finish i outs) = true := by
  have hI := stalltree_inv_run cfg s evs hwf hinv hsel
  obtain ⟨t, ht, hne⟩ := Stall.stalled_has_runner hI ⟨_, hst, rfl⟩
  have ht' : t ∈ (run cfg s evs).compactors.map ctl := ht
  rw [List.mem_map] at ht'
  obtain ⟨a, ha, hat⟩ := ht'
  obtain ⟨i, hi, hget⟩ := List.getElem_of_mem ha
  have hg : (run cfg s evs).compactors[i]? = some a := by rw [List.getElem?_eq_getElem hi, hget]
  refine ⟨i, ?_⟩
  cases a with
  | running => left; simp [compStep, hg]
  | inflight c => right; intro outs; simp [compStep, hg]
  | waiting => subst hat; exact absurd rfl hne

/-! ## the measure -/

theorem sum_set_weight (l : List CState) (i : Nat) (a x : CState) (h : l[i]? = some a) :
    ((l.set i x).map weight).sum + weight a = (l.map weight).sum + weight x := by
  induction l generalizing i with
  | nil => simp at h
  | cons b r ih =>
    cases i with
    | zero =>
      simp only [List.getElem?_cons_zero, Option.some.injEq] at h
      subst h
      simp only [List.set_cons_zero, List.map_cons, List.sum_cons]; omega
    | succ j =>
      simp only [List.getElem?_cons_succ] at h
      have := ih j h
      simp only [List.set_cons_succ, List.map_cons, List.sum_cons]; omega

/-- the measure over a rank `ρ` of the tree -/
def rank (ρ : Tree → Nat) (s : St) : Nat := 2 * ρ s.tree + (s.compactors.map weight).sum

theorem measure_eq_rank (s : St) : measure s = rank (fun t => (level t 0).length) s := rfl
theorem measureG_eq_rank (s : St) : measureG s = rank pot s := rfl

/-- **`release_measure`**, for a rank of the tree that the install of the event (if it is one)
    lowers: while ingest is stalled every effective compaction-thread step lowers the measure by at
    least one, nothing an ingester does changes it (it parks), and a failed compaction or a spurious
    wake-up of a compaction thread adds at most two; the step that ends the stall leaves no ingester
    asleep -/
theorem rank_step (ρ : Tree → Nat) (cfg : Cfg) {s : St} (hst : stalledT cfg s.tree = true) (ev : Ev)
    (hdec : ∀ i outs c, ev = .finish i outs → s.compactors[i]? = some (.inflight c) →
      ρ (applyCompaction s.tree c outs) < ρ s.tree) :
    rank ρ (step cfg s ev) + (if compStep s ev then 1 else 0) ≤ rank ρ s + 2 * disturbance ev
      ∧ (stalledT cfg (step cfg s ev).tree = false → released cfg (step cfg s ev) = true) := by
  cases ev with
  | ingest i f =>
    have hs' : rank ρ (step cfg s (.ingest i f)) = rank ρ s ∧ (step cfg s (.ingest i f)).tree = s.tree := by
      simp only [step]
      split
      · simp [hst, rank]
      · exact ⟨rfl, rfl⟩
    refine ⟨by simp [hs'.1, compStep, disturbance], fun hf => ?_⟩
    rw [hs'.2, hst] at hf; cases hf
  | select i =>
    cases hg : s.compactors[i]? with
    | none =>
      have : step cfg s (.select i) = s := by simp [step, hg]
      rw [this]
      refine ⟨by simp [compStep, hg, disturbance], fun hf => ?_⟩
      rw [hst] at hf; cases hf
    | some a =>
      cases a with
      | running =>
        cases hn : nextCompaction cfg.num cfg.opts s.tree (og s) with
        | none =>
          have hs' : step cfg s (.select i)
              = { s with compactors := s.compactors.set i .waiting, quiet := s.quiet || (og s).isEmpty } := by
            simp [step, hg, hn]
          rw [hs']
          have := sum_set_weight s.compactors i .running .waiting hg
          refine ⟨?_, fun hf => ?_⟩
          · simp only [rank, compStep, hg, disturbance, weight] at this ⊢
            simp at this ⊢; omega
          · simp only [] at hf; rw [hst] at hf; cases hf
        | some c =>
          have hs' : step cfg s (.select i) = { s with compactors := s.compactors.set i (.inflight c) } := by
            simp [step, hg, hn]
          rw [hs']
          have := sum_set_weight s.compactors i .running (.inflight c) hg
          refine ⟨?_, fun hf => ?_⟩
          · simp only [rank, compStep, hg, disturbance, weight] at this ⊢
            simp at this ⊢; omega
          · simp only [] at hf; rw [hst] at hf; cases hf
      | inflight c =>
        have : step cfg s (.select i) = s := by simp [step, hg]
        rw [this]
        refine ⟨by simp [compStep, hg, disturbance], fun hf => ?_⟩
        rw [hst] at hf; cases hf
      | waiting =>
        have : step cfg s (.select i) = s := by simp [step, hg]
        rw [this]
        refine ⟨by simp [compStep, hg, disturbance], fun hf => ?_⟩
        rw [hst] at hf; cases hf
  | finish i outs =>
    cases hg : s.compactors[i]? with
    | none =>
      have : step cfg s (.finish i outs) = s := by simp [step, hg]
      rw [this]
      refine ⟨by simp [compStep, hg, disturbance], fun hf => ?_⟩
      rw [hst] at hf; cases hf
    | some a =>
      cases a with
      | inflight c =>
        have hs' : step cfg s (.finish i outs)
            = { s with tree := applyCompaction s.tree c outs, quiet := false,
                       ingesters := Stall.wakeAll s.ingesters, compactors := s.compactors.set i .running } := by
          simp [step, hg]
        rw [hs']
        have h1 := hdec i outs c rfl hg
        have := sum_set_weight s.compactors i (.inflight c) .running hg
        refine ⟨?_, fun hf => ?_⟩
        · simp only [rank, compStep, hg, disturbance, weight] at this ⊢
          simp at this ⊢; omega
        · simp only [released, Bool.and_eq_true, Bool.not_eq_true', List.all_eq_true, bne_iff_ne]
          exact ⟨hf, fun t ht => Stall.mem_wakeAll ht⟩
      | running =>
        have : step cfg s (.finish i outs) = s := by simp [step, hg]
        rw [this]
        refine ⟨by simp [compStep, hg, disturbance], fun hf => ?_⟩
        rw [hst] at hf; cases hf
      | waiting =>
        have : step cfg s (.finish i outs) = s := by simp [step, hg]
        rw [this]
        refine ⟨by simp [compStep, hg, disturbance], fun hf => ?_⟩
        rw [hst] at hf; cases hf
  | abort i =>
    cases hg : s.compactors[i]? with
    | none =>
      have : step cfg s (.abort i) = s := by simp [step, hg]
      rw [this]
      refine ⟨by simp [compStep, disturbance], fun hf => ?_⟩
      rw [hst] at hf; cases hf
    | some a =>
      cases a with
      | inflight c =>
        have hs' : step cfg s (.abort i) = { s with compactors := s.compactors.set i .running } := by
          simp [step, hg]
        rw [hs']
        have := sum_set_weight s.compactors i (.inflight c) .running hg
        refine ⟨?_, fun hf => ?_⟩
        · simp only [rank, compStep, disturbance, weight] at this ⊢
          simp at this ⊢; omega
        · simp only [] at hf; rw [hst] at hf; cases hf
      | running =>
        have : step cfg s (.abort i) = s := by simp [step, hg]
        rw [this]
        refine ⟨by simp [compStep, disturbance], fun hf => ?_⟩
        rw [hst] at hf; cases hf
      | waiting =>
        have : step cfg s (.abort i) = s := by simp [step, hg]
        rw [this]
        refine ⟨by simp [compStep, disturbance], fun hf => ?_⟩
        rw [hst] at hf; cases hf
  | spurI i =>
    have hs' : rank ρ (step cfg s (.spurI i)) = rank ρ s ∧ (step cfg s (.spurI i)).tree = s.tree := by
      simp only [step]
      split
      · simp [rank]
      · exact ⟨rfl, rfl⟩
    refine ⟨by simp [hs'.1, compStep, disturbance], fun hf => ?_⟩
    rw [hs'.2, hst] at hf; cases hf
  | spurC i =>
    cases hg : s.compactors[i]? with
    | none =>
      have : step cfg s (.spurC i) = s := by simp [step, hg]
      rw [this]
      refine ⟨by simp [compStep, disturbance], fun hf => ?_⟩
      rw [hst] at hf; cases hf
    | some a =>
      cases a with
      | waiting =>
        have hs' : step cfg s (.spurC i) = { s with compactors := s.compactors.set i .running } := by
          simp [step, hg]
        rw [hs']
        have := sum_set_weight s.compactors i .waiting .running hg
        refine ⟨?_, fun hf => ?_⟩
        · simp only [rank, compStep, disturbance, weight] at this ⊢
          simp at this ⊢; omega
        · simp only [] at hf; rw [hst] at hf; cases hf
      | running =>
        have : step cfg s (.spurC i) = s := by simp [step, hg]
        rw [this]
        refine ⟨by simp [compStep, disturbance], fun hf => ?_⟩
        rw [hst] at hf; cases hf
      | inflight c =>
        have : step cfg s (.spurC i) = s := by simp [step, hg]
        rw [this]
        refine ⟨by simp [compStep, disturbance], fun hf => ?_⟩
        rw [hst] at hf; cases hf

/-- the install of every `finish` of the run, made while ingest is stalled, lowers `ρ` -/
def DecAlong (cfg : Cfg) (ρ : Tree → Nat) : St → List Ev → Prop
  | _, [] => True
  | s, ev :: r =>
    (stalledT cfg s.tree = true → ∀ i outs c, ev = .finish i outs → s.compactors[i]? = some (.inflight c) →
      ρ (applyCompaction s.tree c outs) < ρ s.tree) ∧ DecAlong cfg ρ (step cfg s ev) r

/-- bounded progress over a rank -/
theorem released_of_rank (ρ : Tree → Nat) (cfg : Cfg) (s : St) (evs : List Ev)
    (hst : stalledT cfg s.tree = true) (hdec : DecAlong cfg ρ s evs)
    (hN : rank ρ s + 2 * disturbances evs < compSteps cfg s evs) :
    everReleased cfg s evs = true := by
  induction evs generalizing s with
  | nil => simp [compSteps] at hN
  | cons ev r ih =>
    obtain ⟨hm, hfin⟩ := rank_step ρ cfg hst ev (hdec.1 hst)
    simp only [everReleased, Bool.or_eq_true]
    right
    cases hst' : stalledT cfg (step cfg s ev).tree with
    | false =>
      have := hfin hst'
      cases r with
      | nil => simpa [everReleased] using this
      | cons e r' => simp [everReleased, this]
    | true =>
      apply ih (step cfg s ev) hst' hdec.2
      simp only [compSteps, disturbances, List.map_cons, List.sum_cons] at hN ⊢
      omega

/-! ### level 0 as the rank -/

theorem decAlong_of_relSt (cfg : Cfg) (s : St) (evs : List Ev) (hwf : WF s)
    (hrel : along cfg (relSt cfg) s evs = true) : DecAlong cfg (fun t => (level t 0).length) s evs := by
  induction evs generalizing s with
  | nil => trivial
  | cons ev r ih =>
    have hrel' : relSt cfg s = true ∧ along cfg (relSt cfg) (step cfg s ev) r = true := by
      simpa [along] using hrel
    refine ⟨?_, ih _ (wf_step cfg hwf ev) hrel'.2⟩
    intro hst i outs c _ hg
    have hmem : CState.inflight c ∈ s.compactors := List.mem_of_getElem? hg
    have hr : relieves s.tree c = true := by
      have h := hrel'.1
      simp only [relSt, hst, Bool.not_true, Bool.false_or, List.all_eq_true] at h
      exact h c (mem_og.mpr hmem)
    exact l0_apply_len_lt hwf.tree c outs (hwf.levels c hmem) hr

/-- `release_measure` with level 0 as the rank, one step -/
theorem release_measure_step (cfg : Cfg) {s : St} (hwf : WF s) (hst : stalledT cfg s.tree = true)
    (hrel : relSt cfg s = true) (ev : Ev) :
    measure (step cfg s ev) + (if compStep s ev then 1 else 0) ≤ measure s + 2 * disturbance ev
      ∧ (stalledT cfg (step cfg s ev).tree = false → released cfg (step cfg s ev) = true) := by
  refine rank_step (fun t => (level t 0).length) cfg hst ev ?_
  intro i outs c _ hg
  have hmem : CState.inflight c ∈ s.compactors := List.mem_of_getElem? hg
  have hr : relieves s.tree c = true := by
    simp only [relSt, hst, Bool.not_true, Bool.false_or, List.all_eq_true] at hrel
    exact hrel c (mem_og.mpr hmem)
  exact l0_apply_len_lt hwf.tree c outs (hwf.levels c hmem) hr

/-- **bounded progress** (partial: `relSt` along the run is a hypothesis): from a state in which
    ingest is stalled, a run with more than `measure s + 2 * disturbances evs` effective
    compaction-thread steps passes through a state in which ingest is not stalled and no ingester
    is asleep on `stall` — the install that ended the stall has notified them all.

    Restricted to runs in which every compaction in flight while ingest is stalled takes a file out
    of level 0 (`relSt`): the real selector prefers a trivial move at any level and may hand out
    compactions below level 0 while ingest is stalled (`stalled_ingest_released` counts those). -/
theorem stalled_ingest_released_partial (cfg : Cfg) (s : St) (evs : List Ev) (hwf : WF s)
    (hst : stalledT cfg s.tree = true) (hrel : along cfg (relSt cfg) s evs = true)
    (hN : measure s + 2 * disturbances evs < compSteps cfg s evs) :
    everReleased cfg s evs = true :=
  released_of_rank _ cfg s evs hst (decAlong_of_relSt cfg s evs hwf hrel) hN

/-! ### the potential of the tree as the rank: any compaction -/

/-- `apply_compaction_inner` from level `k` on -/
def applyFrom (c : Core) (outs : List File) : Nat → Tree → Tree
  | _, [] => []
  | k, l :: r => applyLevel c outs k l :: applyFrom c outs (k + 1) r

theorem mapIdx_applyFrom (c : Core) (outs : List File) (t : Tree) (k : Nat) :
    t.mapIdx (fun i => applyLevel c outs (i + k)) = applyFrom c outs k t := by
  induction t generalizing k with
  | nil => rfl
  | cons l r ih =>
    rw [List.mapIdx_cons]
    simp only [Nat.zero_add, applyFrom]
    congr 1
    have : (fun i => applyLevel c outs (i + 1 + k)) = (fun i => applyLevel c outs (i + (k + 1))) := by
      funext i; congr 1; omega
    rw [this]; exact ih (k + 1)

theorem applyCompaction_eq (t : Tree) (c : Core) (outs : List File) :
    applyCompaction t c outs = applyFrom c outs 0 t :=
  mapIdx_applyFrom c outs t 0

theorem applyFrom_id (c : Core) (outs : List File) (t : Tree) (k : Nat) (hk : c.upper < k) :
    applyFrom c outs k t = t := by
  induction t generalizing k with
  | nil => rfl
  | cons l r ih =>
    have h1 : ¬ (c.lower ≤ k ∧ k < c.upper) := by omega
    have h2 : ¬ (k = c.upper) := by omega
    simp only [applyFrom, applyLevel, h1, h2, if_false]
    rw [ih (k + 1) (by omega)]

theorem movesDownFrom_false (c : Core) (t : Tree) (k : Nat) (hk : c.upper ≤ k) : movesDownFrom c k t = false := by
  induction t generalizing k with
  | nil => rfl
  | cons l r ih =>
    have h1 : ¬ (c.lower ≤ k ∧ k < c.upper) := by omega
    simp only [movesDownFrom, h1, decide_false, Bool.false_and, Bool.false_or]
    exact ih (k + 1) (by omega)

theorem vcLevel_filter_le (p : File → Bool) (l : List File) : vcLevel (l.filter p) ≤ vcLevel l := by
  induction l with
  | nil => exact Nat.le_refl _
  | cons a r ih =>
    rw [List.filter_cons]
    split
    · simp only [vcLevel, List.map_cons, List.sum_cons] at ih ⊢; omega
    · simp only [vcLevel, List.map_cons, List.sum_cons] at ih ⊢; omega

theorem vcLevel_filter_lt (p : File → Bool) (l : List File) (h : ∃ f ∈ l, p f = false ∧ f.vers ≠ []) :
    vcLevel (l.filter p) < vcLevel l := by
  induction l with
  | nil => obtain ⟨x, hx, _⟩ := h; cases hx
  | cons a r ih =>
    have hle := vcLevel_filter_le p r
    rw [List.filter_cons]
    split
    · rename_i hpa
      obtain ⟨x, hx, hpx, hv⟩ := h
      rcases List.mem_cons.mp hx with rfl | hx
      · rw [hpa] at hpx; cases hpx
      · have := ih ⟨x, hx, hpx, hv⟩
        simp only [vcLevel, List.map_cons, List.sum_cons] at this ⊢; omega
    · rename_i hpa
      obtain ⟨x, hx, hpx, hv⟩ := h
      rcases List.mem_cons.mp hx with rfl | hx
      · have : 0 < x.vers.length := List.length_pos_iff.mpr hv
        simp only [vcLevel, List.map_cons, List.sum_cons] at hle ⊢; omega
      · have := ih ⟨x, hx, hpx, hv⟩
        simp only [vcLevel, List.map_cons, List.sum_cons] at this ⊢; omega

theorem potFrom_mono (t : Tree) {a' a : Nat} (h : a' ≤ a) : potFrom a' t ≤ potFrom a t := by
  induction t generalizing a' a with
  | nil => exact Nat.le_refl _
  | cons l r ih =>
    have := @ih (a' + vcLevel l) (a + vcLevel l) (by omega)
    simp only [potFrom]; omega

theorem vcLevel_applyLevel_le (c : Core) (outs : List File) (k : Nat) (l : List File) (hk : k < c.upper) :
    vcLevel (applyLevel c outs k l) ≤ vcLevel l := by
  unfold applyLevel
  split
  · exact vcLevel_filter_le _ _
  · have : ¬ (k = c.upper) := by omega
    simp [this]

theorem potFrom_apply_le (c : Core) (outs : List File) (t : Tree) (k a' a : Nat) (hk : k ≤ c.upper)
    (ha : a' ≤ a) (hv : a' + vtot (applyFrom c outs k t) ≤ a + vtot t) :
    potFrom a' (applyFrom c outs k t) ≤ potFrom a t := by
  induction t generalizing k a' a with
  | nil => exact Nat.le_refl _
  | cons l r ih =>
    simp only [applyFrom, vtot, List.map_cons, List.sum_cons, potFrom] at hv ⊢
    by_cases hku : k < c.upper
    · have h1 := vcLevel_applyLevel_le c outs k l hku
      have := ih (k + 1) (a' + vcLevel (applyLevel c outs k l)) (a + vcLevel l) (by omega) (by omega)
        (by simp only [vtot]; omega)
      omega
    · have hid := applyFrom_id c outs r (k + 1) (by omega)
      rw [hid] at hv ⊢
      have := @potFrom_mono r (a' + vcLevel (applyLevel c outs k l)) (a + vcLevel l) (by omega)
      omega

theorem potFrom_apply_lt (c : Core) (outs : List File) (t : Tree) (k a' a : Nat) (hk : k ≤ c.upper)
    (hm : movesDownFrom c k t = true) (ha : a' ≤ a) (hv : a' + vtot (applyFrom c outs k t) ≤ a + vtot t) :
    potFrom a' (applyFrom c outs k t) < potFrom a t := by
  induction t generalizing k a' a with
  | nil => cases hm
  | cons l r ih =>
    have hku : k < c.upper := by
      false_or_by_contra
      rename_i hn
      rw [movesDownFrom_false c (l :: r) k (by omega)] at hm; cases hm
    have h1 := vcLevel_applyLevel_le c outs k l hku
    simp only [movesDownFrom, Bool.or_eq_true, Bool.and_eq_true, decide_eq_true_eq, List.any_eq_true] at hm
    simp only [applyFrom, vtot, List.map_cons, List.sum_cons, potFrom] at hv ⊢
    rcases hm with ⟨hr, f, hf, hin, hne⟩ | hm
    · have hlt : vcLevel (applyLevel c outs k l) < vcLevel l := by
        unfold applyLevel
        rw [if_pos hr]
        apply vcLevel_filter_lt
        refine ⟨f, hf, by rw [hin]; rfl, ?_⟩
        intro he; rw [he] at hne; cases hne
      have := potFrom_apply_le c outs r (k + 1) (a' + vcLevel (applyLevel c outs k l)) (a + vcLevel l)
        (by omega) (by omega) (by simp only [vtot]; omega)
      omega
    · have := ih (k + 1) (a' + vcLevel (applyLevel c outs k l)) (a + vcLevel l) (by omega) hm (by omega)
        (by simp only [vtot]; omega)
      omega

/-- a compaction that takes a version out of a level above its output level, and whose outputs add
    no version to the tree, lowers the potential -/
theorem pot_apply_lt (t : Tree) (c : Core) (outs : List File) (hm : movesDown t c = true)
    (hv : noNewVers t c outs = true) : pot (applyCompaction t c outs) < pot t := by
  simp only [noNewVers, decide_eq_true_eq] at hv
  rw [applyCompaction_eq] at hv ⊢
  exact potFrom_apply_lt c outs t 0 0 0 (Nat.zero_le _) hm (Nat.le_refl _) (by omega)

theorem decAlong_of_downSt (cfg : Cfg) (s : St) (evs : List Ev)
    (hdown : along cfg (downSt cfg) s evs = true) (houts : alongEv cfg outsOK s evs = true) :
    DecAlong cfg pot s evs := by
  induction evs generalizing s with
  | nil => trivial
  | cons ev r ih =>
    have hd : downSt cfg s = true ∧ along cfg (downSt cfg) (step cfg s ev) r = true := by
      simpa [along] using hdown
    have ho : outsOK s ev = true ∧ alongEv cfg outsOK (step cfg s ev) r = true := by
      simpa [alongEv] using houts
    refine ⟨?_, ih _ hd.2 ho.2⟩
    intro hst i outs c hev hg
    subst hev
    have hmem : CState.inflight c ∈ s.compactors := List.mem_of_getElem? hg
    have hm : movesDown s.tree c = true := by
      have h := hd.1
      simp only [downSt, hst, Bool.not_true, Bool.false_or, List.all_eq_true] at h
      exact h c (mem_og.mpr hmem)
    have hv : noNewVers s.tree c outs = true := by
      have h := ho.1
      simpa [outsOK, hg] using h
    exact pot_apply_lt s.tree c outs hm hv

/-- **bounded progress, any compaction**: from a state in which ingest is stalled, a run with more
    than `measureG s + 2 * disturbances evs` effective compaction-thread steps passes through a state
    in which ingest is not stalled and no ingester is asleep on `stall`.  Nothing is asked of WHICH
    compactions the selector hands out while ingest is stalled (trivial moves and compactions below
    level 0 included): the measure is the potential of the whole tree.

    The two hypotheses are facts about single installs, evaluated on the states of the run, that
    are NOT derived here from `nextCompaction` / the merge: `downSt` — a compaction in flight while
    ingest is stalled has, in the tree it is about to be installed on, an input holding a version
    above its output level (for a compaction fresh from the selector that is "the file it was built
    around is not empty"; that it is still so at install time is C01's `chosen_stable_under_*`);
    `outsOK` — the outputs of an install hold no version the removed files did not hold (C01).
    `Sel` is not needed for the bound; it is what keeps a compaction-thread step enabled
    (`stalltree_stalled_has_runner`). -/
theorem stalled_ingest_released (cfg : Cfg) (s : St) (evs : List Ev)
    (hst : stalledT cfg s.tree = true) (hdown : along cfg (downSt cfg) s evs = true)
    (houts : alongEv cfg outsOK s evs = true)
    (hN : measureG s + 2 * disturbances evs < compSteps cfg s evs) :
    everReleased cfg s evs = true :=
  released_of_rank pot cfg s evs hst (decAlong_of_downSt cfg s evs hdown houts) hN

/-! ## closed examples -/
namespace Ex

/-- stall at 2 files in level 0; mandatory compaction at 2 files -/
def cfg : Cfg := ⟨ieee, ⟨100, 1000000000, 10, 2, 1000000000⟩, 2, 1000000000⟩
def A : File := ⟨1, 0, 10, 100, 2, [(5, 2)]⟩
def B : File := ⟨2, 5, 15, 100, 3, [(7, 3)]⟩
def C : File := ⟨3, 0, 20, 100, 1, [(5, 1)]⟩
/-- the merge of `A`, `B`, `C` -/
def O : File := ⟨4, 0, 20, 300, 3, [(5, 2), (5, 1), (7, 3)]⟩
def D : File := ⟨5, 30, 40, 100, 4, [(35, 4)]⟩

/-- level 0 over the threshold (2 files), one ingester, one compaction thread, both running -/
def s0 : St := ⟨[[A, B], [C]], [.running], [.running], false⟩

/-- the ingester parks, the compaction thread selects (the selector's answer is computed: the hull
    compaction of level 0 with its overlap in level 1), installs; the ingester is released -/
def evs0 : List Ev := [.ingest 0 D, .select 0, .finish 0 [O]]

theorem wf0 : WF s0 := wfB_sound (by decide)

theorem inv0 : Stall.Inv (proj cfg s0) := by
  refine ⟨rfl, rfl, rfl, by simp [proj, s0], ?_, ?_, ?_⟩
  · intro t ht hw
    simp [proj, s0] at ht
    subst ht; cases hw
  · intro hall
    have := hall .running (by simp [proj, s0, ctl])
    cases this
  · intro hq; cases hq

/-- the same level 0 over a third, empty level: the selector hands out the trivial move of `C`
    from level 1 to level 2 while ingest is stalled -/
def s3 : St := ⟨[[A, B], [C], []], [.waiting], [.running], false⟩

/-- stall at 1 file; files with disjoint key ranges, each moved down by a trivial move -/
def cfg1 : Cfg := ⟨ieee, ⟨100, 1000000000, 10, 4, 1000000000⟩, 1, 1000000000⟩
def F1 : File := ⟨1, 0, 9, 100, 1, [(5, 1)]⟩
def F2 : File := ⟨2, 10, 19, 100, 2, [(15, 2)]⟩
def F3 : File := ⟨3, 20, 29, 100, 3, [(25, 3)]⟩
def F4 : File := ⟨4, 30, 39, 100, 4, [(35, 4)]⟩
def s1 : St := ⟨[[F1], []], [.waiting], [.running], false⟩
def evs1 : List Ev :=
  [.select 0, .finish 0 [F1], .ingest 0 F2, .select 0, .finish 0 [F2], .ingest 0 F3, .select 0, .finish 0 [F3],
   .ingest 0 F4, .select 0]

end Ex

/-- `relSt` is not a property of the selector: on a stalled tree with nothing in flight it may hand
    out a compaction that takes nothing out of level 0 (here the trivial move of the level-1 file
    to the empty level 2, preferred to the mandatory level-0 compaction) -/
theorem relieving_not_guaranteed :
    stalledT Ex.cfg Ex.s3.tree = true ∧ og Ex.s3 = []
      ∧ (nextCompaction Ex.cfg.num Ex.cfg.opts Ex.s3.tree (og Ex.s3)).map (fun c => (c.lower, c.upper, c.inputs))
          = some (1, 2, [3])
      ∧ relSt Ex.cfg (step Ex.cfg Ex.s3 (.select 0)) = false
      ∧ downSt Ex.cfg (step Ex.cfg Ex.s3 (.select 0)) = true := by
  decide

end Blue.StallTree
