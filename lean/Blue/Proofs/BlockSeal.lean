import Blue.Model.BlockSeal
import Blue.Proofs.BlockRestarts
import Blue.Proofs.SstDivide
/-! Around the entry area of a block: the builder's accept/refuse decision stated outright, what a
    run of attempts leaves in the builder, programs over *keys* as instances of the generic cursor
    theorems (a sorted block makes every `seek` predicate monotone). -/
namespace Blue.Block
open Blue.BlockCursor Blue.Cursor Blue.Sst

/-! ### the decision -/
/-- **C10** `put` / `del` accept exactly: key within `MAX_KEY_LEN`, value within `MAX_VALUE_LEN`,
    builder below `TABLE_FULL_SIZE`, and strictly after the last accepted entry in the `KeyRef`
    order (key ascending, timestamp descending) -/
theorem putCheck_none_iff (approx : Nat) (lastKey : List Nat) (lastTs : Nat) (e : KV) :
    putCheck approx lastKey lastTs e = none ↔
      e.key.length ≤ MAX_KEY_LEN ∧ (∀ v, e.val = some v → v.length ≤ MAX_VALUE_LEN)
      ∧ approx < TABLE_FULL_SIZE ∧ keyRefLt lastKey lastTs e.key e.ts = true := by
  unfold putCheck
  cases hv : e.val with
  | none =>
    by_cases h1 : e.key.length > MAX_KEY_LEN <;> by_cases h3 : approx ≥ TABLE_FULL_SIZE <;>
      cases h4 : keyRefLt lastKey lastTs e.key e.ts <;> simp [h1, h3] <;> omega
  | some v =>
    by_cases h1 : e.key.length > MAX_KEY_LEN <;> by_cases h2 : v.length > MAX_VALUE_LEN <;>
      by_cases h3 : approx ≥ TABLE_FULL_SIZE <;>
      cases h4 : keyRefLt lastKey lastTs e.key e.ts <;> simp [h1, h2, h3] <;> omega

/-- the order in which the refusals are decided (sizes before order) -/
theorem putCheck_order (approx : Nat) (lastKey : List Nat) (lastTs : Nat) (e : KV) :
    (e.key.length > MAX_KEY_LEN → putCheck approx lastKey lastTs e = some .keyTooLarge)
    ∧ (e.key.length ≤ MAX_KEY_LEN → (∃ v, e.val = some v ∧ v.length > MAX_VALUE_LEN) →
        putCheck approx lastKey lastTs e = some .valueTooLarge) := by
  unfold putCheck
  constructor
  · intro h; simp [h]
  · intro h ⟨v, hv, hl⟩
    have : ¬ e.key.length > MAX_KEY_LEN := by omega
    simp [this, hv, hl]

/-- **C10** a refused entry appends nothing: the builder after `put` is the builder before -/
theorem put_error_unchanged (o : Opts) (c : CBuilder) (e : KV) (err : PutErr)
    (h : c.put o e = .error err) : (CBuilder.putAll o c [e]).2 = c := by
  simp [CBuilder.putAll, h]

/-- the accepted attempts: those answered with `none` -/
def acceptedOf : List (Option PutErr) → List KV → List KV
  | none :: rs, e :: es => e :: acceptedOf rs es
  | some _ :: rs, _ :: es => acceptedOf rs es
  | _, _ => []

/-- **C10** after any run of attempts the builder holds exactly the accepted ones: its bytes are
    the bytes of building the accepted entries alone -/
theorem putAll_builds (o : Opts) : ∀ (atts : List KV) (c : CBuilder),
    (CBuilder.putAll o c atts).2.b = (acceptedOf (CBuilder.putAll o c atts).1 atts).foldl (Builder.add o) c.b
  | [], _ => rfl
  | e :: es, c => by
    simp only [CBuilder.putAll]
    cases h : c.put o e with
    | error err =>
      simp only [acceptedOf]
      exact putAll_builds o es c
    | ok c' =>
      simp only [acceptedOf, List.foldl_cons]
      have hb : c'.b = c.b.add o e := by
        unfold CBuilder.put at h
        cases hc : putCheck c.b.approxSize c.b.lastKey c.lastTs e with
        | some err => rw [hc] at h; cases h
        | none => rw [hc] at h; cases h; rfl
      rw [← hb]
      exact putAll_builds o es c'

/-- the builder's own last key and timestamp are the last accepted entry's -/
def LastIs (c : CBuilder) (acc : List KV) : Prop :=
  match acc.getLast? with
  | some l => c.b.lastKey = l.key ∧ c.lastTs = l.ts
  | none => True

/-- **C10** whatever is attempted, what the builder accepts is strictly sorted -/
theorem putAll_sorted (o : Opts) : ∀ (atts : List KV) (c : CBuilder) (pre : List KV),
    Sorted pre → LastIs c pre → (pre = [] → c.b.lastKey = [] ∧ c.lastTs = U64MAX) →
    Sorted (pre ++ acceptedOf (CBuilder.putAll o c atts).1 atts)
  | [], _, pre, hs, _, _ => by simpa [CBuilder.putAll, acceptedOf] using hs
  | e :: es, c, pre, hs, hl, h0 => by
    simp only [CBuilder.putAll]
    cases h : c.put o e with
    | error err =>
      simp only [acceptedOf]
      exact putAll_sorted o es c pre hs hl h0
    | ok c' =>
      simp only [acceptedOf]
      unfold CBuilder.put at h
      cases hc : putCheck c.b.approxSize c.b.lastKey c.lastTs e with
      | some err => rw [hc] at h; cases h
      | none =>
        rw [hc] at h
        have hc' : c' = ⟨c.b.add o e, e.ts⟩ := by cases h; rfl
        have hlt := ((putCheck_none_iff _ _ _ _).mp hc).2.2.2
        have hs' : Sorted (pre ++ [e]) := by
          unfold Sorted
          rw [List.pairwise_append]
          refine ⟨hs, by simp, ?_⟩
          intro a ha b hb
          simp only [List.mem_singleton] at hb
          subst hb
          -- a ≤ last pre < e
          unfold LastIs at hl
          cases hlast : pre.getLast? with
          | none => rw [List.getLast?_eq_none_iff.mp hlast] at ha; cases ha
          | some l =>
            rw [hlast] at hl
            have hle : KV.lt l b = true := by unfold KV.lt; rw [← hl.1, ← hl.2]; exact hlt
            by_cases hal : a = l
            · subst hal; exact hle
            · have hal' : KV.lt a l = true := by
                have hp := List.pairwise_iff_getElem.mp hs
                obtain ⟨i, hi, rfl⟩ := List.getElem_of_mem ha
                have hlm := List.mem_of_getLast? hlast
                obtain ⟨j, hj, hjl⟩ := List.getElem_of_mem hlm
                have hj' : j = pre.length - 1 := by
                  -- the last element sits at the last index; if not, it would be before itself
                  false_or_by_contra
                  rename_i hne
                  have hlast' : pre[pre.length - 1]'(by omega) = l := by
                    have := List.getLast?_eq_getElem? (l := pre)
                    rw [this] at hlast
                    exact (List.getElem?_eq_some_iff.mp hlast).2
                  have := hp j (pre.length - 1) hj (by omega) (by omega)
                  rw [hjl, hlast', kvlt_irrefl] at this
                  cases this
                subst hjl
                rcases Nat.lt_trichotomy i j with hij | hij | hij
                · exact hp i j hi hj hij
                · subst hij; exact absurd rfl hal
                · omega
              exact kvlt_trans hal' hle
        have := putAll_sorted o es c' (pre ++ [e]) hs' (by
          unfold LastIs
          simp only [List.getLast?_append, List.getLast?_singleton, Option.some_or]
          rw [hc']
          exact ⟨add_lastKey o c.b e, rfl⟩) (by intro h; simp at h)
        simpa [List.append_assoc] using this

/-! ### programs over keys -/
theorem bstep_eq (c : BCur KV) (op : KOp) : bstep c op = BlockCursor.step c op.toOp := by
  cases op <;> rfl

/-- in a sorted block "at or after `k`" is monotone along the entries -/
theorem sorted_monoAlong {es : List KV} (hs : Sorted es) (k : List Nat) : MonoAlong es (atOrAfter k) := by
  intro i j ei ej hij hi hj hp
  rcases Nat.lt_or_ge i j with h | h
  · obtain ⟨hi', e1⟩ := List.getElem?_eq_some_iff.mp hi
    obtain ⟨hj', e2⟩ := List.getElem?_eq_some_iff.mp hj
    have := List.pairwise_iff_getElem.mp hs i j hi' hj' h
    rw [e1, e2] at this
    have hk := keyRefLt_key this
    unfold atOrAfter at hp ⊢
    simp only [Bool.not_eq_true'] at hp ⊢
    exact keyLt_ntrans k ei.key ej.key hp hk
  · have : i = j := by omega
    subst this
    rw [hi] at hj; cases hj; exact hp

/-- **C10** a block built from a sorted, non-empty entry list with restart intervals ≥ 1: every
    program of `seek_to_first / seek_to_last / next / prev / seek(key)` shows what the reference
    cursor over the entries shows; in particular `seek(k)` shows the first entry with key ≥ `k` -/
theorem built_block_keys_refine (o : Opts) (ho : 1 ≤ o.bytesRestartInterval ∧ 1 ≤ o.pairsRestartInterval)
    (es : List KV) (hne : es ≠ []) (hs : Sorted es) (ops : List KOp) :
    BlockCursor.run ⟨⟨es, (buildG o es).ridx⟩, .first⟩ (ops.map KOp.toOp)
      = Ref.run ⟨es, 0⟩ (ops.map KOp.toOp) := by
  apply built_block_cursor_refines o ho es hne
  intro pred hp
  obtain ⟨op, _, hop⟩ := List.mem_map.mp hp
  cases op <;> simp [KOp.toOp] at hop
  subst hop
  exact sorted_monoAlong hs _

/-- what `seek(k)` shows on the reference cursor: the first entry whose key is at least `k` -/
theorem ref_seek_first_ge (es : List KV) (k : List Nat) (pos : Nat) :
    (Ref.seek (atOrAfter k) ⟨es, pos⟩).kv = es.find? (atOrAfter k) := by
  unfold Ref.seek Ref.kv
  simp only [Nat.add_one_ne_zero, if_false, Nat.add_sub_cancel]
  induction es with
  | nil => simp
  | cons x xs ih =>
    by_cases hx : atOrAfter k x = true
    · simp [List.findIdx_cons, hx]
    · have hx' : atOrAfter k x = false := by simpa using hx
      simp [List.findIdx_cons, hx', ih]

end Blue.Block

namespace Blue.Block
open Blue.BlockCursor

/-! ### restart offsets are prefix sums -/
theorem list_rev_ind {α : Type} {P : List α → Prop} (h0 : P [])
    (hs : ∀ (pre : List α) (e : α), P pre → P (pre ++ [e])) : ∀ l, P l := by
  have : ∀ (n : Nat) (l : List α), l.length = n → P l := by
    intro n
    induction n with
    | zero => intro l hl; rw [List.length_eq_zero_iff.mp hl]; exact h0
    | succ n ih =>
      intro l hl
      have hne : l ≠ [] := by intro h; rw [h] at hl; cases hl
      rw [← List.dropLast_concat_getLast hne]
      exact hs _ _ (ih _ (by simp [hl]))
  intro l; exact this _ l rfl

theorem buildG_snoc (o : Opts) (pre : List KV) (e : KV) : buildG o (pre ++ [e]) = (buildG o pre).add o e := by
  unfold buildG; rw [List.foldl_append]; rfl

/-- the byte offset at which entry `i` of a block starts: the length of the entry area built from
    the first `i` entries -/
def entryOffset (o : Opts) (es : List KV) (i : Nat) : Nat := (build o (es.take i)).buffer.length

theorem restarts_offsets_aux (o : Opts) (es : List KV) :
    (buildG o es).b.restarts = (buildG o es).ridx.map (entryOffset o es)
    ∧ (buildG o es).n = es.length ∧ ∀ r ∈ (buildG o es).ridx, r ≤ es.length := by
  induction es using list_rev_ind with
  | h0 => exact ⟨by simp [buildG, G.init, Builder.init, entryOffset, build], rfl, by simp [buildG, G.init]⟩
  | hs pre e ih =>
    obtain ⟨h1, h2, h3⟩ := ih
    rw [buildG_snoc]
    have hold : ∀ r ∈ (buildG o pre).ridx, entryOffset o (pre ++ [e]) r = entryOffset o pre r := by
      intro r hr
      unfold entryOffset
      rw [List.take_append_of_le_length (h3 r hr)]
    have hmap : (buildG o pre).ridx.map (entryOffset o (pre ++ [e])) = (buildG o pre).ridx.map (entryOffset o pre) :=
      List.map_congr_left hold
    have hnew : entryOffset o (pre ++ [e]) (buildG o pre).n = (buildG o pre).b.buffer.length := by
      unfold entryOffset
      rw [h2, List.take_left', buildG_build]
      rfl
    unfold G.add
    simp only
    by_cases hr : (decide (o.bytesRestartInterval ≤ (buildG o pre).b.bytesSinceRestart)
        || decide (o.pairsRestartInterval ≤ (buildG o pre).b.pairsSinceRestart)) = true
    · simp only [hr, if_true]
      refine ⟨?_, by simp [h2], ?_⟩
      · simp only [Builder.add, hr, if_true, List.map_append, List.map_cons, List.map_nil]
        rw [hmap, ← h1, hnew]
      · intro r hr'
        rw [List.mem_append] at hr'
        simp only [List.length_append, List.length_cons, List.length_nil]
        rcases hr' with h | h
        · have := h3 r h; omega
        · simp only [List.mem_singleton] at h; omega
    · have hr' : (decide (o.bytesRestartInterval ≤ (buildG o pre).b.bytesSinceRestart)
          || decide (o.pairsRestartInterval ≤ (buildG o pre).b.pairsSinceRestart)) = false := by
        cases hh : (decide (o.bytesRestartInterval ≤ (buildG o pre).b.bytesSinceRestart)
          || decide (o.pairsRestartInterval ≤ (buildG o pre).b.pairsSinceRestart)) with
        | true => exact absurd hh hr
        | false => rfl
      simp only [hr', Bool.false_eq_true, if_false]
      refine ⟨?_, by simp [h2], ?_⟩
      · simp only [Builder.add, hr', Bool.false_eq_true, if_false]
        rw [hmap, ← h1]
      · intro r hr''
        have := h3 r hr''
        simp only [List.length_append, List.length_cons, List.length_nil]; omega

/-- **C10** the restart array holds byte offsets, the cursor model works on entry indices: the
    `j`-th restart offset the builder records is the offset at which the entry named by the
    `j`-th ghost index starts (the prefix sum of the encoded lengths of the entries before it) -/
theorem restarts_are_entry_offsets (o : Opts) (es : List KV) :
    (build o es).restarts = (buildG o es).ridx.map (entryOffset o es) := by
  rw [← buildG_build]; exact (restarts_offsets_aux o es).1

end Blue.Block
