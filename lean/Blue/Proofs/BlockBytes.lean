import Blue.Proofs.BlockSeal
/-! From the *bytes* of a sealed block back to the decoded block the cursor model runs over:
    `Block::new` finds the footer `seal` wrote, the restart points read back are the builder's,
    the forward decode yields the entries at their byte offsets, and every restart offset is the
    offset of the entry its ghost index names.  Closes the gap between `block_roundtrip` /
    `build_wf` (entry area, restart *indices*) and the byte level. -/
namespace Blue.Block
open Blue.Wire Blue.EntryCodec Blue.BlockCursor

/-! ### little-endian words -/
theorem le32_length (x : Nat) : (le32 x).length = 4 := rfl

theorem unle32_le32 (x : Nat) (h : x < 4294967296) : unle32 (le32 x) = x := by
  simp only [le32, unle32]; omega

theorem flatMap_le32_length : ∀ (R : List Nat), (R.flatMap le32).length = 4 * R.length
  | [] => rfl
  | r :: R => by
    simp only [List.flatMap_cons, List.length_append, le32_length, flatMap_le32_length R, List.length_cons]
    omega

theorem drop_len_add {α : Type} (l₁ l₂ : List α) (i : Nat) : (l₁ ++ l₂).drop (l₁.length + i) = l₂.drop i := by
  rw [List.drop_append, List.drop_eq_nil_of_le (by omega)]
  simp

/-- the `i`-th four-byte chunk of the packed restart array -/
theorem chunk_le32 : ∀ (R : List Nat) (i x : Nat) (tail : List Nat), R[i]? = some x →
    ((R.flatMap le32 ++ tail).drop (4 * i)).take 4 = le32 x
  | [], i, x, _, h => by simp at h
  | r :: R, 0, x, tail, h => by
    simp only [List.getElem?_cons_zero, Option.some.injEq] at h
    subst h
    simp only [List.flatMap_cons, Nat.mul_zero, List.drop_zero, List.append_assoc]
    exact List.take_left' (le32_length r)
  | r :: R, i + 1, x, tail, h => by
    simp only [List.getElem?_cons_succ] at h
    have e : 4 * (i + 1) = (le32 r).length + 4 * i := by rw [le32_length]; omega
    simp only [List.flatMap_cons, List.append_assoc]
    rw [e, drop_len_add]
    exact chunk_le32 R i x tail h

/-! ### the footer read back -/
theorem encVarint_82 : encVarint (FOOTER_RESTARTS * 8 + 2) = [82] := encVarint_lt (by decide)
theorem encVarint_93 : encVarint (FOOTER_COUNT * 8 + 5) = [93] := encVarint_lt (by decide)

/-- the sealed bytes, laid out -/
theorem seal_layout (b : Builder) :
    b.seal = (b.buffer ++ 82 :: encVarint (4 * b.restarts.length))
      ++ (b.restarts.flatMap le32 ++ 93 :: le32 b.restarts.length) := by
  unfold Builder.seal footer
  rw [encVarint_82, encVarint_93]
  simp [List.append_assoc]

theorem seal_length (b : Builder) :
    b.seal.length = b.buffer.length + 1 + (encVarint (4 * b.restarts.length)).length
      + 4 * b.restarts.length + 5 := by
  rw [seal_layout]
  simp only [List.length_append, List.length_cons, flatMap_le32_length, le32_length]
  omega

/-- what `Block::new` computes when the trailing count is `n` and the block is long enough -/
theorem new_of_count (bytes : List Nat) (n : Nat) (h4 : 4 ≤ bytes.length)
    (hn : unle32 (bytes.drop (bytes.length - 4)) = n) (h5 : 5 + 4 * n ≤ bytes.length)
    (hh : 1 + (encVarint (4 * n)).length ≤ bytes.length - 5 - 4 * n) :
    Blk.new bytes = .ok ⟨bytes, bytes.length - 5 - 4 * n - (1 + (encVarint (4 * n)).length),
      bytes.length - 5 - 4 * n, n⟩ := by
  unfold Blk.new
  have h4' : ¬ bytes.length < 4 := by omega
  simp only [h4', if_false, hn]
  have h5' : ¬ bytes.length < 5 + 4 * n := by omega
  have hh' : ¬ bytes.length - 5 - 4 * n < 1 + (encVarint (4 * n)).length := by omega
  simp only [h5', if_false, hh']

/-- **C10** `Block::new` on sealed bytes finds the footer `seal` wrote: the restarts boundary is
    the end of the entry area, the restart array starts behind tag and length, the count is the
    builder's -/
theorem new_seal (b : Builder) (hn : b.restarts.length < 4294967296) :
    Blk.new b.seal = .ok ⟨b.seal, b.buffer.length,
      b.buffer.length + 1 + (encVarint (4 * b.restarts.length)).length, b.restarts.length⟩ := by
  have hlen := seal_length b
  have hdrop : b.seal.drop (b.seal.length - 4) = le32 b.restarts.length := by
    have e : b.seal = (b.buffer ++ 82 :: encVarint (4 * b.restarts.length)
        ++ (b.restarts.flatMap le32 ++ [93])) ++ le32 b.restarts.length := by
      rw [seal_layout]; simp [List.append_assoc]
    have hl : (b.buffer ++ 82 :: encVarint (4 * b.restarts.length)
        ++ (b.restarts.flatMap le32 ++ [93])).length = b.seal.length - 4 := by
      rw [hlen]
      simp only [List.length_append, List.length_cons, flatMap_le32_length, List.length_nil]
      omega
    rw [← hl, e]
    exact List.drop_left' rfl
  have := new_of_count b.seal b.restarts.length (by omega)
    (by rw [hdrop]; exact unle32_le32 _ hn) (by omega) (by omega)
  rw [this]
  congr 2 <;> omega

/-- the restart points read back from sealed bytes are the builder's restart offsets -/
theorem restartPoints_seal (b : Builder) (hn : b.restarts.length < 4294967296)
    (hr : ∀ r ∈ b.restarts, r < 4294967296) :
    (Blk.mk b.seal b.buffer.length
      (b.buffer.length + 1 + (encVarint (4 * b.restarts.length)).length) b.restarts.length).restartPoints
      = b.restarts := by
  unfold Blk.restartPoints
  apply List.ext_getElem (by simp)
  intro i h1 h2
  simp only [List.getElem_map, List.getElem_range]
  unfold Blk.restartPoint
  simp only
  have hx : b.restarts[i]? = some b.restarts[i] := List.getElem?_eq_getElem h2
  have hl : (b.buffer ++ 82 :: encVarint (4 * b.restarts.length)).length
      = b.buffer.length + 1 + (encVarint (4 * b.restarts.length)).length := by
    simp only [List.length_append, List.length_cons]; omega
  rw [seal_layout, ← hl, drop_len_add, chunk_le32 _ i _ _ hx]
  exact unle32_le32 _ (hr _ (List.getElem_mem h2))

/-! ### the builder's trace: where each entry starts and how it was compressed -/
structure TItem where
  idx : Nat
  off : Nat
  shared : Nat
  restart : Bool
  e : KV

def restartOf (o : Opts) (b : Builder) : Bool :=
  decide (o.bytesRestartInterval ≤ b.bytesSinceRestart) || decide (o.pairsRestartInterval ≤ b.pairsSinceRestart)

def sharedOf (o : Opts) (b : Builder) (e : KV) : Nat :=
  if restartOf o b then 0 else sharedLen b.lastKey e.key

def trace (o : Opts) : Nat → Builder → List KV → List TItem
  | _, _, [] => []
  | n, b, e :: es => ⟨n, b.buffer.length, sharedOf o b e, restartOf o b, e⟩ :: trace o (n + 1) (b.add o e) es

theorem add_buffer (o : Opts) (b : Builder) (e : KV) :
    (b.add o e).buffer = b.buffer ++ encEntry (wireEntry (sharedOf o b e) e) := rfl

theorem add_restarts (o : Opts) (b : Builder) (e : KV) :
    (b.add o e).restarts = if restartOf o b then b.restarts ++ [b.buffer.length] else b.restarts := rfl

theorem add_buffer_lt (o : Opts) (b : Builder) (e : KV) : b.buffer.length < (b.add o e).buffer.length := by
  rw [add_buffer, List.length_append]
  have := List.length_pos_iff.mpr (encEntry_ne_nil (wireEntry (sharedOf o b e) e))
  omega

theorem foldl_buffer_le (o : Opts) : ∀ (es : List KV) (b : Builder),
    b.buffer.length + es.length ≤ (es.foldl (Builder.add o) b).buffer.length
  | [], _ => by simp
  | e :: es, b => by
    simp only [List.foldl_cons, List.length_cons]
    have := foldl_buffer_le o es (b.add o e)
    have := add_buffer_lt o b e
    omega

theorem trace_entries (o : Opts) : ∀ (es : List KV) (n : Nat) (b : Builder), (trace o n b es).map (·.e) = es
  | [], _, _ => rfl
  | e :: es, n, b => by simp only [trace, List.map_cons, trace_entries o es]

theorem trace_idx (o : Opts) : ∀ (es : List KV) (n : Nat) (b : Builder) (i : Nat) (t : TItem),
    (trace o n b es)[i]? = some t → t.idx = n + i
  | [], _, _, _, _, h => by simp [trace] at h
  | e :: es, n, b, 0, t, h => by
    simp only [trace, List.getElem?_cons_zero, Option.some.injEq] at h
    subst h; rfl
  | e :: es, n, b, i + 1, t, h => by
    simp only [trace, List.getElem?_cons_succ] at h
    have := trace_idx o es (n + 1) (b.add o e) i t h
    omega

/-- offsets lie inside the entry area and grow strictly -/
theorem trace_offsets (o : Opts) : ∀ (es : List KV) (n : Nat) (b : Builder),
    (∀ t ∈ trace o n b es, b.buffer.length ≤ t.off ∧ t.off < (es.foldl (Builder.add o) b).buffer.length)
    ∧ (trace o n b es).Pairwise (fun s t => s.off < t.off)
  | [], _, _ => ⟨by simp [trace], by simp [trace]⟩
  | e :: es, n, b => by
    obtain ⟨h1, h2⟩ := trace_offsets o es (n + 1) (b.add o e)
    have hlt := add_buffer_lt o b e
    have hle := foldl_buffer_le o es (b.add o e)
    refine ⟨?_, ?_⟩
    · intro t ht
      simp only [trace, List.mem_cons] at ht
      simp only [List.foldl_cons]
      rcases ht with rfl | ht
      · simp only; omega
      · have := h1 t ht; omega
    · simp only [trace]
      rw [List.pairwise_cons]
      refine ⟨?_, h2⟩
      intro t ht
      have := h1 t ht
      simp only; omega

/-- the restart offsets recorded while building are the offsets of the trace items marked
    `restart` -/
theorem trace_restarts (o : Opts) : ∀ (es : List KV) (n : Nat) (b : Builder),
    (es.foldl (Builder.add o) b).restarts
      = b.restarts ++ ((trace o n b es).filter (·.restart)).map (·.off)
  | [], _, _ => by simp [trace]
  | e :: es, n, b => by
    simp only [List.foldl_cons, trace]
    rw [trace_restarts o es (n + 1) (b.add o e), add_restarts]
    cases hr : restartOf o b with
    | true => simp [hr, List.filter_cons]
    | false => simp [hr, List.filter_cons]

/-- the ghost indices recorded while building are the indices of the same items -/
theorem trace_ridx (o : Opts) : ∀ (es : List KV) (g : G),
    (es.foldl (G.add o) g).ridx = g.ridx ++ ((trace o g.n g.b es).filter (·.restart)).map (·.idx)
  | [], _ => by simp [trace]
  | e :: es, g => by
    simp only [List.foldl_cons, trace]
    rw [trace_ridx o es (g.add o e)]
    have e1 : (g.add o e).n = g.n + 1 := rfl
    have e2 : (g.add o e).b = g.b.add o e := rfl
    have e3 : (g.add o e).ridx = if restartOf o g.b then g.ridx ++ [g.n] else g.ridx := rfl
    rw [e1, e2, e3]
    cases hr : restartOf o g.b with
    | true => simp [hr, List.filter_cons]
    | false => simp [hr, List.filter_cons]

/-! ### the forward decode follows the trace -/
theorem decodeOffs_step (R : List Nat) (f : Nat) (bs : List Nat) (off : Nat) (prev : List Nat) (hne : bs ≠ []) :
    decodeOffs R (f + 1) bs off prev =
      match decEntry bs with
      | none => none
      | some (.put p, rest) =>
        (decodeOffs R f rest (off + (bs.length - rest.length))
            ((if R.contains off then [] else prev).take p.shared ++ p.keyFrag)).map
          (fun l => (off, ⟨(if R.contains off then [] else prev).take p.shared ++ p.keyFrag, p.timestamp, some p.value⟩) :: l)
      | some (.del d, rest) =>
        (decodeOffs R f rest (off + (bs.length - rest.length))
            ((if R.contains off then [] else prev).take d.shared ++ d.keyFrag)).map
          (fun l => (off, ⟨(if R.contains off then [] else prev).take d.shared ++ d.keyFrag, d.timestamp, none⟩) :: l) := by
  cases bs with
  | nil => exact absurd rfl hne
  | cons x t => rfl

theorem sharedOf_le (o : Opts) (b : Builder) (e : KV) : sharedOf o b e ≤ e.key.length := by
  unfold sharedOf
  split
  · omega
  · have h1 := sharedLen_take b.lastKey e.key
    have h2 := sharedLen_le_left b.lastKey e.key
    have := congrArg List.length h1
    simp only [List.length_take] at this
    omega

theorem sharedOf_rebuild (o : Opts) (b : Builder) (e : KV) :
    b.lastKey.take (sharedOf o b e) ++ e.key.drop (sharedOf o b e) = e.key := by
  have := rebuild_key b.lastKey e.key (restartOf o b)
  simpa [sharedOf] using this

/-- decoding the bytes the builder appended, from the builder's offset and last key, gives the
    entries at the offsets of the trace — provided a restart point never names an entry that was
    compressed against its predecessor -/
theorem decodeOffs_trace (o : Opts) (R : List Nat) :
    ∀ (es : List KV) (n : Nat) (b : Builder), (∀ e ∈ es, e.Wf) →
      (∀ t ∈ trace o n b es, R.contains t.off = true → t.shared = 0) →
      ∃ suffix, (es.foldl (Builder.add o) b).buffer = b.buffer ++ suffix ∧
        ∀ fuel, es.length < fuel →
          decodeOffs R fuel suffix b.buffer.length b.lastKey
            = some ((trace o n b es).map (fun t => (t.off, t.e))) := by
  intro es
  induction es with
  | nil =>
    intro n b _ _
    refine ⟨[], by simp, ?_⟩
    intro fuel hf
    cases fuel with
    | zero => simp at hf
    | succ f => rfl
  | cons e es ih =>
    intro n b hwf hR
    obtain ⟨suf, hbuf, hdec⟩ := ih (n + 1) (b.add o e) (fun x hx => hwf x (List.mem_cons_of_mem _ hx))
      (fun t ht => hR t (by simp only [trace]; exact List.mem_cons_of_mem _ ht))
    have hkey := add_lastKey o b e
    have hshared := sharedOf_le o b e
    have hw : (wireEntry (sharedOf o b e) e).Wf := (hwf e (List.mem_cons_self ..)).2 _ hshared
    refine ⟨encEntry (wireEntry (sharedOf o b e) e) ++ suf, ?_, ?_⟩
    · simp only [List.foldl_cons]; rw [hbuf, add_buffer, List.append_assoc]
    · intro fuel hf
      obtain ⟨f, rfl⟩ : ∃ f, fuel = f + 1 := ⟨fuel - 1, by simp at hf; omega⟩
      have hne : encEntry (wireEntry (sharedOf o b e) e) ++ suf ≠ [] := by
        intro h; exact encEntry_ne_nil _ (List.append_eq_nil_iff.mp h).1
      have hrec := hdec f (by simp at hf; omega)
      rw [hkey] at hrec
      have hoff : b.buffer.length + ((encEntry (wireEntry (sharedOf o b e) e) ++ suf).length - suf.length)
          = (b.add o e).buffer.length := by
        rw [add_buffer]; simp only [List.length_append]; omega
      -- the key the decoder rebuilds
      have hk : (if R.contains b.buffer.length then [] else b.lastKey).take (sharedOf o b e)
          ++ e.key.drop (sharedOf o b e) = e.key := by
        cases hc : R.contains b.buffer.length with
        | true =>
          have h0 : sharedOf o b e = 0 := hR ⟨n, b.buffer.length, sharedOf o b e, restartOf o b, e⟩
            (by simp only [trace]; exact List.mem_cons_self ..) hc
          simp [h0]
        | false => simp only [Bool.false_eq_true, if_false]; exact sharedOf_rebuild o b e
      rw [decodeOffs_step R f _ _ _ hne, decEntry_enc _ hw suf]
      cases hv : e.val with
      | some v =>
        have hwe : wireEntry (sharedOf o b e) e = .put ⟨sharedOf o b e, e.key.drop (sharedOf o b e), e.ts, v⟩ := by
          unfold wireEntry; rw [hv]
        simp only [hwe, hk, hoff, hrec, Option.map_some, trace, List.map_cons]
        congr 3
        cases e; simp_all
      | none =>
        have hwe : wireEntry (sharedOf o b e) e = .del ⟨sharedOf o b e, e.key.drop (sharedOf o b e), e.ts⟩ := by
          unfold wireEntry; rw [hv]
        simp only [hwe, hk, hoff, hrec, Option.map_some, trace, List.map_cons]
        congr 3
        cases e; simp_all

/-! ### offsets back to indices -/
theorem findOff_increasing : ∀ (l : List Nat) (i x : Nat), l.Pairwise (· < ·) → l[i]? = some x →
    findOff x l = some i
  | [], _, _, _, h => by simp at h
  | y :: ys, 0, x, _, h => by
    simp only [List.getElem?_cons_zero, Option.some.injEq] at h
    subst h; simp [findOff]
  | y :: ys, i + 1, x, hp, h => by
    simp only [List.getElem?_cons_succ] at h
    have hp' := List.pairwise_cons.mp hp
    have hyx : y < x := hp'.1 x (List.mem_of_getElem? h)
    have : ¬ y = x := by omega
    simp only [findOff, this, if_false]
    rw [findOff_increasing ys i x hp'.2 h]
    rfl

theorem mapOpt_map {α β γ : Type} (f : β → Option γ) (g : α → β) (h : α → γ) :
    ∀ (l : List α), (∀ x ∈ l, f (g x) = some (h x)) → mapOpt f (l.map g) = some (l.map h)
  | [], _ => rfl
  | a :: as, hx => by
    simp only [List.map_cons, mapOpt]
    rw [hx a (List.mem_cons_self ..), mapOpt_map f g h as (fun x hm => hx x (List.mem_cons_of_mem _ hm))]

/-! ### bytes → decoded block -/
/-- the entries are few and the block small enough for the `u32` offsets of the format (the code
    asserts this; `TABLE_FULL_SIZE` keeps every real block far below) -/
def Fits (b : Builder) : Prop := b.buffer.length < 4294967296 ∧ b.restarts.length < 4294967296

theorem trace_restart_shared (o : Opts) : ∀ (es : List KV) (n : Nat) (b : Builder) (t : TItem),
    t ∈ trace o n b es → t.restart = true → t.shared = 0
  | [], _, _, _, h, _ => by simp [trace] at h
  | e :: es, n, b, t, h, hr => by
    simp only [trace, List.mem_cons] at h
    rcases h with rfl | h
    · simp only at hr ⊢; simp [sharedOf, hr]
    · exact trace_restart_shared o es _ _ t h hr

/-- **C10** from bytes to the decoded block: `Block::new` on the sealed bytes of a built block,
    followed by the forward decode and the offset → index translation, yields exactly the entries
    that were put and the builder's restart points as entry indices — for every entry list (the
    empty one included) and every restart policy -/
theorem toDBlock_seal (o : Opts) (es : List KV) (hwf : ∀ e ∈ es, e.Wf) (hfit : Fits (build o es)) :
    ∃ blk, Blk.new (build o es).seal = .ok blk ∧ blk.toDBlock = some ⟨es, (buildG o es).ridx⟩ := by
  obtain ⟨hbl, hrl⟩ := hfit
  refine ⟨_, new_seal (build o es) hrl, ?_⟩
  have ebuild : (es.foldl (Builder.add o) Builder.init) = build o es := rfl
  -- the trace of the whole build, as an opaque list with the facts we need
  obtain ⟨T, hT⟩ : ∃ T, T = trace o 0 Builder.init es := ⟨_, rfl⟩
  have hoff1 : ∀ t ∈ T, t.off < (build o es).buffer.length := by
    intro t ht; rw [hT] at ht
    have := ((trace_offsets o es 0 Builder.init).1 t ht).2
    rw [ebuild] at this; exact this
  have hpw : T.Pairwise (fun s t => s.off < t.off) := by rw [hT]; exact (trace_offsets o es 0 Builder.init).2
  have hR : (build o es).restarts = 0 :: (T.filter (·.restart)).map (·.off) := by
    rw [hT]; exact trace_restarts o es 0 Builder.init
  have hI : (buildG o es).ridx = 0 :: (T.filter (·.restart)).map (·.idx) := by
    rw [hT]; exact trace_ridx o es G.init
  have hents : T.map (·.e) = es := by rw [hT]; exact trace_entries o es 0 Builder.init
  have hidx : ∀ (i : Nat) (t : TItem), T[i]? = some t → t.idx = i := by
    intro i t h; rw [hT] at h
    have := trace_idx o es 0 Builder.init i t h; omega
  have hrs : ∀ t ∈ T, t.restart = true → t.shared = 0 := by
    intro t ht; rw [hT] at ht; exact trace_restart_shared o es 0 Builder.init t ht
  -- the first entry starts at offset 0 and is compressed against the empty key
  have hhead : ∀ t, T[0]? = some t → t.off = 0 ∧ t.shared = 0 := by
    intro t h; rw [hT] at h
    cases es with
    | nil => simp [trace] at h
    | cons e0 rest =>
      simp only [trace, List.getElem?_cons_zero, Option.some.injEq] at h
      subst h
      refine ⟨rfl, ?_⟩
      simp only [sharedOf]
      split
      · rfl
      · simp [Builder.init, sharedLen]
  have hnil : es = [] → T = [] := by intro h; rw [hT, h]; rfl
  have hcons : es ≠ [] → ∃ t, T[0]? = some t := by
    intro h; rw [hT]
    cases es with
    | nil => exact absurd rfl h
    | cons e0 rest => exact ⟨⟨0, Builder.init.buffer.length, sharedOf o Builder.init e0, restartOf o Builder.init, e0⟩, by simp [trace]⟩
  have hinj : ∀ t ∈ T, ∀ t' ∈ T, t'.off = t.off → t' = t := by
    intro t ht t' ht' he
    obtain ⟨i, hi, hti⟩ := List.getElem_of_mem ht
    obtain ⟨j, hj, htj⟩ := List.getElem_of_mem ht'
    have hp := List.pairwise_iff_getElem.mp hpw
    rcases Nat.lt_trichotomy i j with h | h | h
    · have := hp i j hi hj h; rw [hti, htj] at this; omega
    · subst h; rw [← hti, ← htj]
    · have := hp j i hj hi h; rw [hti, htj] at this; omega
  have hrlt : ∀ r ∈ (build o es).restarts, r < 4294967296 := by
    intro r hr
    rw [hR] at hr
    simp only [List.mem_cons, List.mem_map, List.mem_filter] at hr
    rcases hr with rfl | ⟨t, ⟨ht, _⟩, rfl⟩
    · omega
    · have := hoff1 t ht; omega
  -- a restart point never names a compressed entry
  have hzero : ∀ t ∈ T, (build o es).restarts.contains t.off = true → t.shared = 0 := by
    intro t ht hc
    rw [hR] at hc
    simp only [List.contains_iff_mem, List.mem_cons, List.mem_map, List.mem_filter] at hc
    rcases hc with h0 | ⟨t', ⟨ht', hr'⟩, he⟩
    · have hne : es ≠ [] := by intro h; rw [hnil h] at ht; cases ht
      obtain ⟨t0, ht0⟩ := hcons hne
      obtain ⟨h1, h2⟩ := hhead t0 ht0
      have := hinj t ht t0 (List.mem_of_getElem? ht0) (by omega)
      rw [← this]; exact h2
    · have := hinj t ht t' ht' he
      subst this
      exact hrs _ ht' hr'
  obtain ⟨suf, hbuf, hdec⟩ := decodeOffs_trace o (build o es).restarts es 0 Builder.init hwf
    (by rw [← hT]; exact hzero)
  rw [← hT] at hdec
  have hsuf : suf = (build o es).buffer := by
    rw [ebuild] at hbuf; rw [hbuf]; simp [Builder.init]
  have hlen : es.length < (build o es).buffer.length + 1 := by
    have := foldl_buffer_le o es Builder.init
    rw [ebuild] at this; simp only [Builder.init, List.length_nil] at this; omega
  have hd : decodeOffs (build o es).restarts ((build o es).buffer.length + 1) (build o es).buffer 0 []
      = some (T.map fun t => (t.off, t.e)) := by
    have := hdec _ hlen
    rw [hsuf] at this
    exact this
  have hpo : (T.map (·.off)).Pairwise (· < ·) := by rw [List.pairwise_map]; exact hpw
  -- restart offsets to indices
  have h0 : offToIdx (T.map (·.off)) (build o es).buffer.length 0 = some 0 := by
    unfold offToIdx
    by_cases hes : es = []
    · have : (build o es).buffer.length = 0 := by rw [hes]; rfl
      simp [this, hnil hes]
    · obtain ⟨t0, ht0⟩ := hcons hes
      have hb := hoff1 t0 (List.mem_of_getElem? ht0)
      have : ¬ 0 ≥ (build o es).buffer.length := by omega
      simp only [this, if_false]
      have h00 : (T.map (·.off))[0]? = some 0 := by
        rw [List.getElem?_map, ht0]; simp [(hhead t0 ht0).1]
      exact findOff_increasing _ 0 0 hpo h00
  have hrest := mapOpt_map (offToIdx (T.map (·.off)) (build o es).buffer.length) (·.off) (·.idx)
    (T.filter (·.restart)) (by
      intro t ht
      have htT : t ∈ T := (List.mem_filter.mp ht).1
      have hb := hoff1 t htT
      unfold offToIdx
      have : ¬ t.off ≥ (build o es).buffer.length := by omega
      simp only [this, if_false]
      obtain ⟨i, hi, hti⟩ := List.getElem_of_mem htT
      have hi' : T[i]? = some t := by rw [← hti]; exact List.getElem?_eq_getElem hi
      have hix := hidx i t hi'
      have : (T.map (·.off))[i]? = some t.off := by rw [List.getElem?_map, hi']; rfl
      rw [findOff_increasing _ i t.off hpo this, hix])
  have hmap : mapOpt (offToIdx (T.map (·.off)) (build o es).buffer.length) (build o es).restarts
      = some (buildG o es).ridx := by
    rw [hR, hI]
    simp only [mapOpt, h0, hrest]
  -- assemble
  unfold Blk.toDBlock
  simp only
  rw [restartPoints_seal (build o es) hrl hrlt]
  have htake : (build o es).seal.take (build o es).buffer.length = (build o es).buffer := by
    unfold Builder.seal; exact List.take_left' rfl
  rw [htake, hd]
  simp only [List.map_map]
  have e1 : T.map ((fun x => x.1) ∘ fun t => (t.off, t.e)) = T.map (·.off) := by simp [Function.comp_def]
  have e2 : T.map ((fun x => x.2) ∘ fun t => (t.off, t.e)) = es := by
    rw [← hents]; simp [Function.comp_def]
  rw [e1, e2, hmap]
  rfl

/-- **C10** a block, end to end at the byte level: seal a block built from a sorted, non-empty
    entry list (restart intervals ≥ 1); open the *bytes* with `Block::new`; decode; then every
    finite program of `seek_to_first / seek_to_last / next / prev / seek(key)` over the opened block
    shows exactly what the reference cursor over the entries shows -/
theorem sealed_block_cursor_refines (o : Opts) (ho : 1 ≤ o.bytesRestartInterval ∧ 1 ≤ o.pairsRestartInterval)
    (es : List KV) (hne : es ≠ []) (hs : Blue.Sst.Sorted es) (hwf : ∀ e ∈ es, e.Wf) (hfit : Fits (build o es))
    (ops : List KOp) :
    ∃ blk d, Blk.new (build o es).seal = .ok blk ∧ blk.toDBlock = some d ∧ d.entries = es
      ∧ BlockCursor.run ⟨d, .first⟩ (ops.map KOp.toOp) = Blue.Cursor.Ref.run ⟨es, 0⟩ (ops.map KOp.toOp) := by
  obtain ⟨blk, h1, h2⟩ := toDBlock_seal o es hwf hfit
  exact ⟨blk, _, h1, h2, rfl, built_block_keys_refine o ho es hne hs ops⟩

end Blue.Block
