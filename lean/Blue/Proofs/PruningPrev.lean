import Blue.Proofs.PruningBack
namespace Blue.Cursor
open Blue.Cursor.Filtered

variable {E K : Type} [DecidableEq K] (cfg : PruneCfg E K) (xs : List E)

theorem shownP_false_of_not_tsOk {t : Nat} {e : E} (he : xs[t]? = some e) (h : cfg.tsOk e = false) :
    shownP cfg xs t = false := by
  unfold shownP isCand; rw [he]; simp [h]

theorem shownP_false_of_tomb {t : Nat} {e : E} (he : xs[t]? = some e) (h : cfg.tomb e = true) :
    shownP cfg xs t = false := by
  unfold shownP; rw [he]; simp [h]

theorem shownP_false_of_none {t : Nat} (he : xs[t]? = none) : shownP cfg xs t = false := by
  unfold shownP isCand; rw [he]; simp

theorem shownP_false_of_prev {t : Nat} {e e' : E} (he : xs[t+1]? = some e) (he' : xs[t]? = some e')
    (hk : cfg.key e' = cfg.key e) (hts : cfg.tsOk e' = true) : shownP cfg xs (t+1) = false := by
  unfold shownP
  rw [isCand_succ cfg xs he he']
  simp [hk, hts]

/-- characterisation of `prevShown` -/
theorem prevShown_eq_some {n : Nat} {shown : Nat → Bool} {i j : Nat} (hji : j < i) (hjn : j < n)
    (hs : shown j = true) (hnone : ∀ t, j < t → t < i → shown t = false) :
    prevShown n shown i = some j := by
  cases hp : prevShown n shown i with
  | none =>
    have := (prevShown_none n shown hp).2 j hji hjn
    rw [hs] at this; cases this
  | some j' =>
    obtain ⟨h1, h2, h3, _, h5⟩ := prevShown_some n shown hp
    by_cases hlt : j' < j
    · have := h5 j hlt hji hjn; rw [hs] at this; cases this
    · by_cases hgt : j < j'
      · have := hnone j' hgt h1; rw [h3] at this; cases this
      · have : j' = j := by omega
        rw [this]

theorem prevShown_eq_none {n : Nat} {shown : Nat → Bool} {i : Nat}
    (hnone : ∀ t, t < i → shown t = false) : prevShown n shown i = none := by
  cases hp : prevShown n shown i with
  | none => rfl
  | some j' =>
    obtain ⟨h1, _, h3, _, _⟩ := prevShown_some n shown hp
    have := hnone j' h1; rw [h3] at this; cases this

/-- Loop invariant of `prev`. `q` is the cursor position, `q0` the position `prev` started from. -/
structure BackInv (q q0 : Nat) (s : Option K) : Prop where
  noshow : ∀ t, q ≤ t + 1 → t + 1 < q0 → shownP cfg xs t = false
  run : ∀ k, s = some k → ∀ t, t + 1 < q →
    (∀ (u : Nat) (e : E), t ≤ u → u + 1 < q → xs[u]? = some e → cfg.key e = k) → shownP cfg xs t = false

/-- what `prev` must produce -/
def prevTarget (q0 : Nat) : Nat :=
  match prevShown xs.length (shownP cfg xs) (q0 - 1) with | some j => j + 1 | none => 0

theorem prevLoop_spec (g : Grouped cfg xs) (n : Nat) (hn : xs.length + 2 ≤ n) (q0 : Nat) :
    ∀ (fuel q : Nat) (s : Option K), q ≤ xs.length + 1 → q ≤ q0 → q < fuel → BackInv cfg xs q q0 s →
      ∃ s', Pruning.prevLoop cfg n fuel ⟨xs, q⟩ s = some ⟨⟨xs, prevTarget cfg xs q0⟩, s'⟩
        ∧ (prevTarget cfg xs q0 = 0 → s' = none)
        ∧ (∀ j, prevTarget cfg xs q0 = j + 1 → ∃ e, xs[j]? = some e ∧ s' = some (cfg.key e)) := by
  intro fuel
  induction fuel with
  | zero => intro q s _ _ h; omega
  | succ f ih =>
    intro q s hq hq0 hf inv
    unfold Pruning.prevLoop
    dsimp only
    -- step back once
    have hc1 : ∃ q1, (Ref.mk xs q).prev = ⟨xs, q1⟩ ∧ q1 = q - 1 := by
      cases q with
      | zero => exact ⟨0, ref_prev_zero xs, rfl⟩
      | succ q' => exact ⟨q', ref_prev_at xs q', rfl⟩
    obtain ⟨q1, hc1, hq1⟩ := hc1
    rw [hc1]
    have hq1n : q1 ≤ xs.length := by omega
    -- skip the decided key
    have hskip : ∃ q2, Pruning.skipBack cfg n ⟨xs, q1⟩ s = (⟨xs, q2⟩, decide (q2 = 0) && s.isSome)
        ∧ q2 ≤ q1
        ∧ (∀ t, q2 ≤ t → t + 1 < q0 → shownP cfg xs t = false)
        ∧ (q2 = 0 ∨ s.isSome = false ∨ 0 < q2) := by
      cases s with
      | none =>
        refine ⟨q1, ?_, Nat.le_refl _, ?_, Or.inr (Or.inl rfl)⟩
        · cases n <;> simp [Pruning.skipBack]
        · intro t h1 h2; exact inv.noshow t (by omega) h2
      | some k =>
        obtain ⟨q2, h1, h2, h3, _⟩ := skipBack_spec cfg xs k n q1 hq1n (by omega)
        refine ⟨q2, by rw [h1]; simp, h2, ?_, by omega⟩
        intro t ht1 ht2
        by_cases htq : q ≤ t + 1
        · exact inv.noshow t htq ht2
        · -- t lies in the skipped run
          apply inv.run k rfl t (by omega)
          intro u e hu1 hu2 hue
          exact h3 u e (by omega) (by omega) hue
    obtain ⟨q2, hsk, hq2, hns, _⟩ := hskip
    rw [hsk]
    -- the target is described by "nothing shown from q2 on"
    by_cases hq2z : q2 = 0
    · -- ran off the front, or landed before the first entry
      subst hq2z
      have hnone : prevShown xs.length (shownP cfg xs) (q0 - 1) = none :=
        prevShown_eq_none (fun t ht => hns t (Nat.zero_le _) (by omega))
      have htarget : prevTarget cfg xs q0 = 0 := by unfold prevTarget; rw [hnone]
      rw [htarget]
      cases hsome : s.isSome with
      | true =>
        simp only [decide_true, Bool.and_self]
        exact ⟨none, rfl, fun _ => rfl, fun j hj => by omega⟩
      | false =>
        simp only [decide_true, Bool.and_false]
        rw [ref_kv_zero]
        exact ⟨none, rfl, fun _ => rfl, fun j hj => by omega⟩
    · have hq2pos : 0 < q2 := by omega
      have hdec : (decide (q2 = 0) && s.isSome) = false := by simp [hq2z]
      rw [hdec]
      simp only
      obtain ⟨i2, hi2⟩ : ∃ i2, q2 = i2 + 1 := ⟨q2 - 1, by omega⟩
      subst hi2
      rw [ref_kv_at]
      have hi2lt : i2 < xs.length := by omega
      have he2 : xs[i2]? = some xs[i2] := by simp [hi2lt]
      rw [he2]
      simp only
      cases hts2 : cfg.tsOk xs[i2] with
      | false =>
        -- the oldest version of this key is too new: the key shows nothing
        simp only [Bool.not_false, if_true]
        apply ih (i2+1) _ (by omega) (by omega) (by omega)
        constructor
        · intro t h1 h2
          by_cases ht : t = i2
          · subst ht; exact shownP_false_of_not_tsOk cfg xs he2 hts2
          · exact hns t (by omega) h2
        · intro k hk t ht hrun
          cases hk
          have htlt : t < xs.length := by omega
          have het : xs[t]? = some xs[t] := by simp [htlt]
          have hkt := hrun t xs[t] (Nat.le_refl _) ht het
          cases htst : cfg.tsOk xs[t] with
          | false => exact shownP_false_of_not_tsOk cfg xs het htst
          | true =>
            have := g.mono t i2 xs[t] xs[i2] (by omega) het he2 hkt htst
            rw [hts2] at this; cases this
      | true =>
        simp only [Bool.not_true, Bool.false_eq_true, if_false]
        -- walk back to the start of the run of versions not newer than the timestamp
        obtain ⟨q3, hb1, hb2, hb3, hb4⟩ :=
          backToRunStart_spec cfg xs (cfg.key xs[i2]) n (i2+1) (by omega) (by omega)
        simp only [hb1]
        -- the entry at index q3 starts the run
        have hq3le : q3 ≤ i2 := by omega
        have hrun : ∀ (t : Nat) (e : E), q3 ≤ t → t ≤ i2 → xs[t]? = some e →
            cfg.tsOk e = true ∧ cfg.key e = cfg.key xs[i2] := by
          intro t e h1 h2 hte
          by_cases hti : t = i2
          · subst hti; rw [he2] at hte; cases hte; exact ⟨hts2, rfl⟩
          · exact hb3 t e h1 (by omega) hte
        have hq3lt : q3 < xs.length := by omega
        have he3 : xs[q3]? = some xs[q3] := by simp [hq3lt]
        obtain ⟨hts3, hk3⟩ := hrun q3 xs[q3] (Nat.le_refl _) hq3le he3
        have hc5 : Pruning.fwdToCand cfg n
            (if (Ref.mk xs q3).kv.isNone = true then (Ref.mk xs q3).next else ⟨xs, q3⟩) (cfg.key xs[i2])
            = ⟨xs, q3 + 1⟩ := by
          cases q3 with
          | zero =>
            rw [ref_kv_zero]
            simp only [Option.isNone_none, if_true]
            have : (Ref.mk xs 0).next = ⟨xs, 0 + 1⟩ := by unfold Ref.next; simp
            rw [this]
            exact fwdToCand_spec cfg xs _ 0 _ 0 xs[0] (by omega) (by simpa using he3) hts3 hk3
              (fun t e' h1 h2 => by omega)
          | succ q3' =>
            rw [ref_kv_at]
            have hlt' : q3' < xs.length := by omega
            have he' : xs[q3']? = some xs[q3'] := by simp [hlt']
            rw [he']
            simp only [Option.isNone_some, Bool.false_eq_true, if_false]
            have := fwdToCand_spec cfg xs (cfg.key xs[i2]) 1 n q3' xs[q3'+1] (by omega)
              (by simpa using he3) hts3 hk3
              (fun t e' h1 h2 hte => by
                have : t = q3' := by omega
                subst this
                exact hb4 e' (by omega) (by simpa using hte))
            exact this
        rw [hc5, ref_kv_at, he3]
        simp only
        -- the run start is a candidate; the rest of the run is not
        have hcand : isCand cfg xs q3 = true := by
          cases q3 with
          | zero => rw [isCand_zero cfg xs he3, hts3]
          | succ q3' =>
            have hlt' : q3' < xs.length := by omega
            have he' : xs[q3']? = some xs[q3'] := by simp [hlt']
            rw [isCand_succ cfg xs he3 he', hts3]
            have := hb4 xs[q3'] (by omega) (by simpa using he')
            by_cases hk : cfg.key xs[q3'] = cfg.key xs[q3'+1]
            · have : cfg.tsOk xs[q3'] = false := by
                cases h : cfg.tsOk xs[q3'] with
                | false => rfl
                | true => exfalso; exact this ⟨h, by rw [hk, hk3]⟩
              simp [this]
            · simp [hk]
        have hrest : ∀ t, q3 < t → t ≤ i2 → shownP cfg xs t = false := by
          intro t h1 h2
          obtain ⟨t', rfl⟩ : ∃ t', t = t' + 1 := ⟨t - 1, by omega⟩
          have hlt1 : t' + 1 < xs.length := by omega
          have hlt0 : t' < xs.length := by omega
          have e1 : xs[t'+1]? = some xs[t'+1] := by simp [hlt1]
          have e0 : xs[t']? = some xs[t'] := by simp [hlt0]
          obtain ⟨ht0, hk0⟩ := hrun t' xs[t'] (by omega) (by omega) e0
          obtain ⟨_, hk1⟩ := hrun (t'+1) xs[t'+1] (by omega) h2 e1
          exact shownP_false_of_prev cfg xs e1 e0 (by rw [hk0, hk1]) ht0
        cases htomb : cfg.tomb xs[q3] with
        | false =>
          simp only [Bool.not_false, if_true]
          have hshown : shownP cfg xs q3 = true := by
            unfold shownP; rw [he3]; simp [hcand, htomb]
          have hps : prevShown xs.length (shownP cfg xs) (q0 - 1) = some q3 := by
            apply prevShown_eq_some (by omega) hq3lt hshown
            intro t h1 h2
            by_cases hti : t ≤ i2
            · exact hrest t h1 hti
            · exact hns t (by omega) (by omega)
          have htarget : prevTarget cfg xs q0 = q3 + 1 := by unfold prevTarget; rw [hps]
          rw [htarget]
          refine ⟨_, rfl, fun h => by omega, ?_⟩
          intro j hj
          have : j = q3 := by omega
          subst this
          exact ⟨xs[j], he3, rfl⟩
        | true =>
          simp only [Bool.not_true, Bool.false_eq_true, if_false]
          apply ih (q3+1) _ (by omega) (by omega) (by omega)
          constructor
          · intro t h1 h2
            by_cases ht : t = q3
            · subst ht; exact shownP_false_of_tomb cfg xs he3 htomb
            · by_cases hti : t ≤ i2
              · exact hrest t (by omega) hti
              · exact hns t (by omega) h2
          · intro k hk t ht hrun'
            cases hk
            -- entries of this key before the run start are newer than the timestamp
            have htlt : t < xs.length := by omega
            have het : xs[t]? = some xs[t] := by simp [htlt]
            obtain ⟨q3', rfl⟩ : ∃ q3', q3 = q3' + 1 := ⟨q3 - 1, by omega⟩
            have hlt' : q3' < xs.length := by omega
            have he' : xs[q3']? = some xs[q3'] := by simp [hlt']
            have hkq := hrun' q3' xs[q3'] (by omega) (by omega) he'
            have hnot := hb4 xs[q3'] (by omega) (by simpa using he')
            have htsq : cfg.tsOk xs[q3'] = false := by
              cases h : cfg.tsOk xs[q3'] with
              | false => rfl
              | true => exfalso; exact hnot ⟨h, by rw [hkq, hk3]⟩
            have hkt := hrun' t xs[t] (Nat.le_refl _) ht het
            cases htst : cfg.tsOk xs[t] with
            | false => exact shownP_false_of_not_tsOk cfg xs het htst
            | true =>
              have := g.mono t q3' xs[t] xs[q3'] (by omega) het he' (by rw [hkt, hkq]) htst
              rw [htsq] at this; cases this

end Blue.Cursor
