import Blue.Proofs.StoreCrash
import Blue.Proofs.StoreHist
/-! Log retirement (C08: "a log is moved to the trash only when no unreplayed write depends on it"),
    on the file-system protocol of `Blue.StoreCrash`.

    `RetireOk fs ops`: walking `ops` from `fs`, at every `logTrash n` (the `rename log.N → trash/`)
    every log file numbered `n` is empty or its batches are an SST that the DURABLE manifest lists
    and that is in `sst/`, whole and synced (`Retirable`).  Holds of the op list of every history
    (`retireOk_history`), hence at every occurrence of a `logTrash` (`log_trashed_only_after_manifest_sync`).
    The crash side is a reading of `crash_recover`: every acknowledged batch is in a log still in the
    directory or in an SST the manifest lists, present and whole. -/
namespace Blue.StoreCrash

/-- log `n` may be retired in `fs`: each log file with that number is empty, or the SST named by its
    batches is listed by the durable manifest and is in `sst/`, whole and synced -/
def Retirable (fs : Fs) (n : Nat) : Prop :=
  ∀ l ∈ fs.logs, l.1 = n → l.2.data = [] ∨
    (l.2.data ∈ live fs.maniDurable ∧ find fs.sst l.2.data = some ⟨l.2.data, l.2.data⟩)

def trashGuard (fs : Fs) : Op → Prop
  | .logTrash n => Retirable fs n
  | _ => True

/-- every `logTrash` of the list is issued in a state in which the log is retirable -/
def RetireOk : Fs → List Op → Prop
  | _, [] => True
  | fs, op :: ops => trashGuard fs op ∧ RetireOk (step fs op) ops

def NoTrash : Op → Prop
  | .logTrash _ => False
  | _ => True

theorem retireOk_append : ∀ (a b : List Op) (fs : Fs),
    RetireOk fs (a ++ b) ↔ RetireOk fs a ∧ RetireOk (run fs a) b
  | [], b, fs => ⟨fun h => ⟨trivial, h⟩, fun h => h.2⟩
  | op :: a, b, fs => by
    show trashGuard fs op ∧ RetireOk (step fs op) (a ++ b) ↔ (trashGuard fs op ∧ RetireOk (step fs op) a) ∧ RetireOk (run (step fs op) a) b
    rw [retireOk_append a b (step fs op), and_assoc]

theorem retireOk_noTrash : ∀ (ops : List Op) (fs : Fs), (∀ op ∈ ops, NoTrash op) → RetireOk fs ops
  | [], _, _ => trivial
  | op :: ops, fs, h => by
    refine ⟨?_, retireOk_noTrash ops _ (fun o ho => h o (List.mem_cons_of_mem _ ho))⟩
    have := h op List.mem_cons_self
    cases op <;> first | trivial | exact this.elim

/-- at every occurrence of a `logTrash` in a list that is `RetireOk` -/
theorem retireOk_at (pre post : List Op) (n : Nat) (fs : Fs) (h : RetireOk fs (pre ++ .logTrash n :: post)) :
    Retirable (run fs pre) n :=
  ((retireOk_append pre _ fs).mp h).2.1

/-! ### the ingest part of a flush / a recovery, and the state it leaves -/

def ingestOps (c : Name) : List Op :=
  [.tmpCreate c c, .tmpSync c, .link c, .maniAppend ⟨[c], []⟩, .maniSync, .tmpUnlink c]

theorem ingest_noTrash (c : Name) : ∀ op ∈ ingestOps c, NoTrash op := by
  intro op hop
  simp only [ingestOps, List.mem_cons, List.not_mem_nil, or_false] at hop
  rcases hop with rfl | rfl | rfl | rfl | rfl | rfl <;> trivial

theorem ingest_state (fs : Fs) (c : Name) :
    (run fs (ingestOps c)).logs = fs.logs
    ∧ (run fs (ingestOps c)).maniDurable = fs.maniDurable ++ (fs.maniPending ++ [⟨[c], []⟩])
    ∧ find (run fs (ingestOps c)).sst c = some ⟨c, c⟩ := by
  simp [ingestOps, run, step, find]

theorem logCreate_state (fs : Fs) (n : Nat) :
    (step fs (.logCreate n)).logs = fs.logs ++ [(n, ⟨[], []⟩)]
    ∧ (step fs (.logCreate n)).maniDurable = fs.maniDurable
    ∧ (step fs (.logCreate n)).maniPending = fs.maniPending := ⟨rfl, rfl, rfl⟩

theorem mem_live_ingest {fs : Fs} {kv : Kv} (h : Inv fs kv) (c : Name) :
    c ∈ live (fs.maniDurable ++ (fs.maniPending ++ [⟨[c], []⟩])) := by
  rw [h.mp, List.nil_append, live_append, h.md, applyTx_add]
  exact List.mem_append_right _ List.mem_cons_self

/-- after the ingest of the memtable's SST (manifest edit synced) the current log is retirable -/
theorem retirable_after_ingest {fs : Fs} {kv : Kv} (h : Inv fs kv) :
    Retirable (run fs (ingestOps kv.content)) kv.cur := by
  obtain ⟨hl, hm, hs⟩ := ingest_state fs kv.content
  intro l hlm _
  rw [hl, h.logs] at hlm
  have : l = (kv.cur, ⟨kv.content, kv.content⟩) := by simpa using hlm
  subst this
  refine Or.inr ⟨?_, hs⟩
  rw [hm]
  exact mem_live_ingest h kv.content

/-- … also with the next log already created (the flush creates it first) -/
theorem retirable_after_create_ingest {fs : Fs} {kv : Kv} (h : Inv fs kv) :
    Retirable (run (step fs (.logCreate (kv.cur + 1))) (ingestOps kv.content)) kv.cur := by
  obtain ⟨hl, hm, hs⟩ := ingest_state (step fs (.logCreate (kv.cur + 1))) kv.content
  obtain ⟨cl, cm, cp⟩ := logCreate_state fs (kv.cur + 1)
  intro l hlm hn
  rw [hl, cl, h.logs] at hlm
  have : l = (kv.cur, ⟨kv.content, kv.content⟩) ∨ l = (kv.cur + 1, ⟨[], []⟩) := by simpa using hlm
  rcases this with rfl | rfl
  · refine Or.inr ⟨?_, hs⟩
    rw [hm, cm, cp]
    exact mem_live_ingest h kv.content
  · exact Or.inl rfl

theorem flush_split' (kv : Kv) (hne : kv.content ≠ []) :
    block kv .flush = Op.logCreate (kv.cur + 1) :: (ingestOps kv.content ++ [Op.logTrash kv.cur]) := by
  simp [block, hne, ingestOps]

theorem reopen_split' (kv : Kv) (hne : kv.content ≠ []) :
    block kv .reopen = ingestOps kv.content ++ [Op.logTrash kv.cur, Op.logCreate (kv.cur + 1)] := by
  simp [block, hne, ingestOps]

theorem put_noTrash (kv : Kv) : ∀ op ∈ block kv .put, NoTrash op := by
  intro op hop
  simp only [block, List.mem_cons, List.not_mem_nil, or_false] at hop
  rcases hop with rfl | rfl | rfl <;> trivial

theorem compact_noTrash (kv : Kv) (p : Name → Bool) (outs : List Name) :
    ∀ op ∈ block kv (.compact p outs), NoTrash op := by
  intro op hop
  simp only [block] at hop
  split at hop
  · simp only [List.mem_append, List.mem_flatMap, List.mem_map, List.mem_cons, List.not_mem_nil,
      or_false] at hop
    rcases hop with (((⟨o, _, rfl | rfl⟩ | ⟨o, _, rfl⟩) | ⟨o, _, rfl⟩) | rfl | rfl) | ⟨o, _, rfl⟩ <;> trivial
  · cases hop

/-- **every block**: put, flush, compaction, recovery (clean reopen) -/
theorem retireOk_block {fs : Fs} {kv : Kv} (h : Inv fs kv) (c : Client) : RetireOk fs (block kv c) := by
  cases c with
  | put => exact retireOk_noTrash _ _ (put_noTrash kv)
  | compact p outs => exact retireOk_noTrash _ _ (compact_noTrash kv p outs)
  | flush =>
    by_cases hne : kv.content = []
    · have hb : block kv .flush = [] := by simp [block, hne]
      rw [hb]; trivial
    · rw [flush_split' kv hne]
      refine ⟨trivial, ?_⟩
      rw [retireOk_append]
      exact ⟨retireOk_noTrash _ _ (ingest_noTrash _), retirable_after_create_ingest h, trivial⟩
  | reopen =>
    by_cases hne : kv.content = []
    · have hb : block kv .reopen = [.logTrash kv.cur, .logCreate (kv.cur + 1)] := by simp [block, hne]
      rw [hb]
      refine ⟨?_, trivial, trivial⟩
      intro l hl _
      rw [h.logs] at hl
      have : l = (kv.cur, ⟨kv.content, kv.content⟩) := by simpa using hl
      subst this
      exact Or.inl hne
    · rw [reopen_split' kv hne, retireOk_append]
      exact ⟨retireOk_noTrash _ _ (ingest_noTrash _), retirable_after_ingest h, trivial, trivial⟩

/-- **every history of the model's alphabet** (induction over blocks) -/
theorem retireOk_history : ∀ (h : List Client) (fs : Fs) (kv : Kv), Inv fs kv → RetireOk fs (opsOf h kv)
  | [], _, _, _ => trivial
  | c :: cs, fs, kv, hi => by
    show RetireOk fs (block kv c ++ opsOf cs (after kv c))
    rw [retireOk_append]
    exact ⟨retireOk_block hi c, retireOk_history cs _ _ (Blue.StoreFault.inv_block hi c)⟩

/-- **`log_trashed_only_after_manifest_sync`**: in the op list of every history (puts, flushes,
    compactions, recoveries — from any block-boundary state), at EVERY `rename log.N → trash/`
    (every way of writing the list as `pre ++ logTrash n :: post`) the program-order prefix `pre` has
    left the file system in a state where each log file numbered `n` is empty or its batches are an
    SST that the durable — appended AND synced — manifest lists and that is in `sst/`, whole and
    synced.  (Pending manifest edits do not count: `Retirable` reads `maniDurable`.) -/
theorem log_trashed_only_after_manifest_sync (h : List Client) (fs : Fs) (kv : Kv) (hi : Inv fs kv)
    (pre post : List Op) (n : Nat) (hsplit : opsOf h kv = pre ++ .logTrash n :: post) :
    Retirable (run fs pre) n :=
  retireOk_at pre post n fs (hsplit ▸ retireOk_history h fs kv hi)

/-! ### program order: where a durable manifest edit comes from -/

/-- the manifest edits a list of operations makes durable, given the edits pending before it -/
def newDurable : List Tx → List Op → List Tx
  | _, [] => []
  | p, .maniAppend tx :: t => newDurable (p ++ [tx]) t
  | p, .maniSync :: t => p ++ newDurable [] t
  | p, .logCreate _ :: t => newDurable p t
  | p, .logAppend _ _ :: t => newDurable p t
  | p, .logSync _ :: t => newDurable p t
  | p, .ack _ :: t => newDurable p t
  | p, .tmpCreate _ _ :: t => newDurable p t
  | p, .tmpSync _ :: t => newDurable p t
  | p, .link _ :: t => newDurable p t
  | p, .tmpUnlink _ :: t => newDurable p t
  | p, .logTrash _ :: t => newDurable p t
  | p, .sstTrash _ :: t => newDurable p t

theorem step_link_mani (fs : Fs) (nm : Name) :
    (step fs (.link nm)).maniDurable = fs.maniDurable ∧ (step fs (.link nm)).maniPending = fs.maniPending := by
  cases hf : find fs.tmp nm <;> simp [step, hf]

theorem run_maniDurable : ∀ (ops : List Op) (fs : Fs),
    (run fs ops).maniDurable = fs.maniDurable ++ newDurable fs.maniPending ops
  | [], fs => by show fs.maniDurable = fs.maniDurable ++ []; rw [List.append_nil]
  | op :: t, fs => by
    rw [run_cons, run_maniDurable t (step fs op)]
    cases op with
    | maniAppend tx => rfl
    | maniSync =>
      show (fs.maniDurable ++ fs.maniPending) ++ newDurable [] t = fs.maniDurable ++ (fs.maniPending ++ newDurable [] t)
      rw [List.append_assoc]
    | link nm =>
      rw [(step_link_mani fs nm).1, (step_link_mani fs nm).2]; rfl
    | _ => rfl

/-- an edit made durable was pending before and some sync follows, or it is appended and then synced
    IN THIS ORDER inside the list -/
theorem newDurable_origin (tx : Tx) : ∀ (ops : List Op) (p : List Tx), tx ∈ newDurable p ops →
    (tx ∈ p ∧ ∃ a c, ops = a ++ Op.maniSync :: c)
    ∨ ∃ a b c, ops = a ++ Op.maniAppend tx :: (b ++ Op.maniSync :: c)
  | [], _, h => nomatch h
  | op :: t, p, h => by
    have lift : ∀ q, tx ∈ newDurable q t → (tx ∈ q → tx ∈ p ∨ op = Op.maniAppend tx) →
        (tx ∈ p ∧ ∃ a c, op :: t = a ++ Op.maniSync :: c)
        ∨ ∃ a b c, op :: t = a ++ Op.maniAppend tx :: (b ++ Op.maniSync :: c) := by
      intro q hq hqp
      rcases newDurable_origin tx t q hq with ⟨hin, a, c, rfl⟩ | ⟨a, b, c, rfl⟩
      · rcases hqp hin with hp | rfl
        · exact Or.inl ⟨hp, op :: a, c, rfl⟩
        · exact Or.inr ⟨[], a, c, rfl⟩
      · exact Or.inr ⟨op :: a, b, c, rfl⟩
    cases op with
    | maniAppend tx' =>
      refine lift (p ++ [tx']) h ?_
      intro hm
      rcases List.mem_append.mp hm with hp | hs
      · exact Or.inl hp
      · have : tx = tx' := by simpa using hs
        subst this; exact Or.inr rfl
    | maniSync =>
      rcases List.mem_append.mp (h : tx ∈ p ++ newDurable [] t) with hp | hn
      · exact Or.inl ⟨hp, [], t, rfl⟩
      · exact lift [] hn (fun hm => nomatch hm)
    | logCreate _ => exact lift p h Or.inl
    | logAppend _ _ => exact lift p h Or.inl
    | logSync _ => exact lift p h Or.inl
    | ack _ => exact lift p h Or.inl
    | tmpCreate _ _ => exact lift p h Or.inl
    | tmpSync _ => exact lift p h Or.inl
    | link _ => exact lift p h Or.inl
    | tmpUnlink _ => exact lift p h Or.inl
    | logTrash _ => exact lift p h Or.inl
    | sstTrash _ => exact lift p h Or.inl

/-- a name the replay of a manifest lists was there before or is added by one of its transactions -/
theorem mem_foldl_applyTx (c : Name) : ∀ (txs : List Tx) (l : List Name), c ∈ txs.foldl applyTx l →
    c ∈ l ∨ ∃ tx ∈ txs, c ∈ tx.adds
  | [], _, h => Or.inl h
  | tx :: t, l, h => by
    rcases mem_foldl_applyTx c t (applyTx l tx) h with h1 | ⟨tx', ht, hc⟩
    · unfold applyTx at h1
      rcases List.mem_append.mp h1 with h2 | h2
      · exact Or.inl (List.mem_filter.mp h2).1
      · exact Or.inr ⟨tx, List.mem_cons_self, h2⟩
    · exact Or.inr ⟨tx', List.mem_cons_of_mem _ ht, hc⟩

/-- **program order, from the empty store**: in the op list of every history, every
    `rename log.N → trash/` of a non-empty log is preceded by a `maniAppend tx` whose transaction adds
    the SST named by that log's batches, and — after that append, before the rename — by a `maniSync` -/
theorem log_trashed_after_append_then_sync (h : List Client) (pre post : List Op) (n : Nat)
    (hsplit : opsOf h kv0 = pre ++ .logTrash n :: post) :
    ∀ l ∈ (run fs0 pre).logs, l.1 = n → l.2.data ≠ [] →
      ∃ tx a b c, l.2.data ∈ tx.adds ∧ pre = a ++ Op.maniAppend tx :: (b ++ Op.maniSync :: c) := by
  intro l hl hn hne
  rcases log_trashed_only_after_manifest_sync h fs0 kv0 inv0 pre post n hsplit l hl hn with he | ⟨hlive, _⟩
  · exact absurd he hne
  · rw [run_maniDurable] at hlive
    have hlive' : l.2.data ∈ (newDurable [] pre).foldl applyTx [] := hlive
    rcases mem_foldl_applyTx _ _ _ hlive' with h0 | ⟨tx, htx, hc⟩
    · nomatch h0
    · rcases newDurable_origin tx pre [] htx with ⟨h0, _⟩ | ⟨a, b, c, hpre⟩
      · nomatch h0
      · exact ⟨tx, a, b, c, hc, hpre⟩

/-! ### the crash side: every acknowledged batch has a home that is not in the trash -/

theorem mem_logPart {mani : List Name} {ds : List (List Nat)} {b : Nat} (h : b ∈ logPart mani ds) :
    ∃ d ∈ ds, b ∈ d := by
  unfold logPart at h
  obtain ⟨d, hd, hb⟩ := List.mem_flatten.mp h
  exact ⟨d, (List.mem_filter.mp hd).1, hb⟩

/-- what a successful reopen was built from: every SST the manifest lists is in `sst/` and whole, and
    every recovered batch is in a listed SST or in a log of the directory -/
theorem recover_sources {view : File → List Nat} {txs : List Tx} {fs : Fs} {l : List Nat}
    (h : recover view txs fs = some l) :
    (∀ nm ∈ live txs, (find fs.sst nm).map view = some nm)
    ∧ ∀ b ∈ l, (∃ nm ∈ live txs, b ∈ nm) ∨ (∃ lg ∈ fs.logs, b ∈ view lg.2) := by
  unfold recover at h
  split at h
  · rename_i hall
    refine ⟨hall, ?_⟩
    cases h
    intro b hb
    rcases List.mem_append.mp hb with hb | hb
    · obtain ⟨nm, hnm, hbn⟩ := List.mem_flatten.mp hb
      exact Or.inl ⟨nm, hnm, hbn⟩
    · obtain ⟨d, hd, hbd⟩ := mem_logPart hb
      obtain ⟨lg, hlg, rfl⟩ := List.mem_map.mp hd
      exact Or.inr ⟨lg, hlg, hbd⟩
  · cases h

/-- **needed files at a crash point** (`view`/`txs`: persistence model (b) = durable bytes and the
    synced manifest; (a) = written bytes and the whole manifest): every SST the manifest lists is in
    `sst/` and whole; every acknowledged batch `b` is in a listed SST or in a log of the directory -/
def NeededPresent (view : File → List Nat) (txs : List Tx) (fs : Fs) (ackd : Nat) : Prop :=
  (∀ nm ∈ live txs, (find fs.sst nm).map view = some nm)
  ∧ ∀ b, b < ackd → (∃ nm ∈ live txs, b ∈ nm) ∨ (∃ lg ∈ fs.logs, b ∈ view lg.2)

theorem needed_of_ok {view : File → List Nat} {txs : List Tx} {fs : Fs} {lo hi : Nat}
    (h : Ok (recover view txs fs) lo hi) : NeededPresent view txs fs lo := by
  obtain ⟨l, k, hl, hp, hlo, _⟩ := h
  obtain ⟨h1, h2⟩ := recover_sources hl
  exact ⟨h1, fun b hb => h2 b (hp.mem_iff.mpr (List.mem_range.mpr (by omega)))⟩

/-- **no needed file is in the trash or gone, at every crash point, under both persistence models** -/
theorem crash_keeps_needed_files (h : List Client) (n : Nat) :
    let g := run fs0 ((opsOf h kv0).take n)
    NeededPresent (·.durable) g.maniDurable g (acked ((opsOf h kv0).take n))
    ∧ NeededPresent (·.data) (g.maniDurable ++ g.maniPending) g (acked ((opsOf h kv0).take n)) := by
  obtain ⟨hB, hA⟩ := crash_recover_init h n
  exact ⟨needed_of_ok hB, needed_of_ok hA⟩

/-- **`crash_before_retire_keeps_log`**: at every crash point, an acknowledged batch that no SST listed
    by the (durable) manifest holds — its flush has not reached the manifest sync — is in a log that
    is still in the directory (its synced bytes under (b)) -/
theorem crash_before_retire_keeps_log (h : List Client) (n b : Nat) (hb : b < acked ((opsOf h kv0).take n)) :
    let g := run fs0 ((opsOf h kv0).take n)
    ((∀ nm ∈ live g.maniDurable, b ∉ nm) → ∃ lg ∈ g.logs, b ∈ lg.2.durable)
    ∧ ((∀ nm ∈ live (g.maniDurable ++ g.maniPending), b ∉ nm) → ∃ lg ∈ g.logs, b ∈ lg.2.data) := by
  obtain ⟨hB, hA⟩ := crash_keeps_needed_files h n
  refine ⟨fun hno => ?_, fun hno => ?_⟩
  · rcases hB.2 b hb with ⟨nm, hnm, hbn⟩ | hlog
    · exact absurd hbn (hno nm hnm)
    · exact hlog
  · rcases hA.2 b hb with ⟨nm, hnm, hbn⟩ | hlog
    · exact absurd hbn (hno nm hnm)
    · exact hlog

/-- **`crash_after_retire_has_sst`**: at every crash point, an acknowledged batch that is in no log of
    the directory — its log was retired — is in an SST that the (durable) manifest lists and that
    is in `sst/`, whole (synced under (b)) -/
theorem crash_after_retire_has_sst (h : List Client) (n b : Nat) (hb : b < acked ((opsOf h kv0).take n)) :
    let g := run fs0 ((opsOf h kv0).take n)
    ((∀ lg ∈ g.logs, b ∉ lg.2.durable) →
      ∃ nm ∈ live g.maniDurable, b ∈ nm ∧ (find g.sst nm).map (·.durable) = some nm)
    ∧ ((∀ lg ∈ g.logs, b ∉ lg.2.data) →
      ∃ nm ∈ live (g.maniDurable ++ g.maniPending), b ∈ nm ∧ (find g.sst nm).map (·.data) = some nm) := by
  obtain ⟨hB, hA⟩ := crash_keeps_needed_files h n
  refine ⟨fun hno => ?_, fun hno => ?_⟩
  · rcases hB.2 b hb with ⟨nm, hnm, hbn⟩ | ⟨lg, hlg, hbl⟩
    · exact ⟨nm, hnm, hbn, hB.1 nm hnm⟩
    · exact absurd hbl (hno lg hlg)
  · rcases hA.2 b hb with ⟨nm, hnm, hbn⟩ | ⟨lg, hlg, hbl⟩
    · exact ⟨nm, hnm, hbn, hA.1 nm hnm⟩
    · exact absurd hbl (hno lg hlg)

/-! ### the swapped order -/

/-- the flush with the rename of the log moved above the ingest (seeded change
    `log-trashed-before-ingest`): SST written, synced and linked, THEN log → trash, then the manifest edit -/
def flushSwapped (c : Name) (cur : Nat) : List Op :=
  [.logCreate (cur + 1), .tmpCreate c c, .tmpSync c, .link c, .logTrash cur,
   .maniAppend ⟨[c], []⟩, .maniSync, .tmpUnlink c]

instance (fs : Fs) (n : Nat) : Decidable (Retirable fs n) := by unfold Retirable; exact inferInstance

/-- **the swapped order loses an acknowledged batch**: one put (acknowledged), the swapped flush;
    the log is trashed in a state where it is not retirable; a crash right after the rename, and
    also after the manifest append but before its sync, reopens WITHOUT batch 0 under model (b)
    (the first also under (a)), although nothing failed; the real order at the same cuts keeps it -/
theorem swapped_order_loses_batch :
    let ops := opsOf [.put] kv0 ++ flushSwapped [0] 0
    acked (ops.take 8) = 1
    ∧ ¬ Retirable (run fs0 (ops.take 7)) 0
    ∧ recoverB (run fs0 (ops.take 8)) = some []
    ∧ recoverA (run fs0 (ops.take 8)) = some []
    ∧ recoverB (run fs0 (ops.take 9)) = some []
    ∧ recoverB (run fs0 ops) = some [0]
    ∧ recoverB (run fs0 ((opsOf [.put, .flush] kv0).take 8)) = some [0]
    ∧ recoverB (run fs0 ((opsOf [.put, .flush] kv0).take 9)) = some [0] := by
  decide

end Blue.StoreCrash

#print axioms Blue.StoreCrash.log_trashed_only_after_manifest_sync
#print axioms Blue.StoreCrash.crash_keeps_needed_files
#print axioms Blue.StoreCrash.swapped_order_loses_batch
#print axioms Blue.StoreCrash.log_trashed_after_append_then_sync
