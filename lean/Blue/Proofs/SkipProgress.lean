import Blue.Proofs.SkipRuns
/-! Progress of `skipfree::SkipList` (model `Blue.SkipML`, sequentially consistent interleavings):
    every search terminates when it runs alone, and a search can be delayed only by the progress
    (a successful level-0 CAS) of another thread - lock-freedom, stated over runs (lists of thread
    ids, one atomic access each).  The measure of a search standing on node `x` at level `lvl` for
    key `k`: the number of allocated nodes with a linked key that is below `k` and above the key of
    `x`, plus `lvl` times (the number of nodes with a linked key, plus one).  Every load of the
    search makes it smaller; a step of another thread that is not a successful level-0 CAS leaves it
    as it is (an allocation adds a node whose key is not linked; `set_next` and CASes above level 0
    change no key and not the set of linked keys). -/
namespace Blue.SkipProgress
open Blue.SkipML
open Blue.SkipList (SChain keyOf nextOf)

/-! ### the generic argument: a measure that the thread's own steps decrease and that only the
    progress of others can increase -/

section Generic
variable {σ : Type} (stp : σ → Nat → σ) (t : Nat) (Inv : σ → Prop) (Φ : σ → Nat) (busy : σ → Bool)
  (ev : σ → Nat → Bool)

/-- `t` is busy (its operation is pending) in every state of the run, the last included -/
def busyAlong (s : σ) : List Nat → Bool
  | [] => busy s
  | j :: r => busy s && busyAlong (stp s j) r

/-- number of steps of the run that are progress events (`ev`) of threads other than `t` -/
def othersProgress (s : σ) : List Nat → Nat
  | [] => 0
  | j :: r => (if j ≠ t ∧ ev s j = true then 1 else 0) + othersProgress (stp s j) r

/-- every state of the run satisfies `p` -/
def along (p : σ → Prop) (s : σ) : List Nat → Prop
  | [] => p s
  | j :: r => p s ∧ along p (stp s j) r

theorem busyAlong_head {s : σ} {r : List Nat} (h : busyAlong stp busy s r = true) : busy s = true := by
  cases r with
  | nil => exact h
  | cons j r => simp only [busyAlong, Bool.and_eq_true] at h; exact h.1

/-- own steps are paid for by the measure, or by the progress of others (`B` per event) -/
theorem generic_bound
    (hinv : ∀ s j, Inv s → Inv (stp s j))
    (hown : ∀ s, Inv s → busy s = true → busy (stp s t) = false ∨ Φ (stp s t) < Φ s)
    (hoth : ∀ s j, Inv s → j ≠ t → ev s j = false → Φ (stp s j) ≤ Φ s)
    (B : Nat) :
    ∀ (r : List Nat) (s : σ), Inv s → busyAlong stp busy s r = true → along stp (fun s' => Φ s' ≤ B) s r →
      r.count t + Φ (r.foldl stp s) ≤ Φ s + B * othersProgress stp t ev s r := by
  intro r
  induction r with
  | nil => intro s _ _ _; simp [othersProgress]
  | cons j r ih =>
    intro s hi hb hal
    simp only [busyAlong, Bool.and_eq_true] at hb
    obtain ⟨hb0, hb1⟩ := hb
    obtain ⟨_, hal1⟩ := hal
    have hB1 : Φ (stp s j) ≤ B := by
      cases r with
      | nil => exact hal1
      | cons _ _ => exact hal1.1
    have := ih (stp s j) (hinv s j hi) hb1 hal1
    simp only [List.foldl_cons, othersProgress]
    by_cases hj : j = t
    · subst hj
      rcases hown s hi hb0 with hd | hd
      · have := busyAlong_head stp busy hb1; rw [hd] at this; cases this
      · simp only [List.count_cons_self, ne_eq, not_true_eq_false, false_and, if_false, Nat.zero_add]
        omega
    · rw [List.count_cons_of_ne hj]
      cases he : ev s j with
      | false =>
        have := hoth s j hi hj he
        simp only [ne_eq, hj, not_false_eq_true, true_and, Bool.false_eq_true, if_false, Nat.zero_add]
        omega
      | true =>
        simp only [ne_eq, hj, not_false_eq_true, true_and, if_true]
        rw [Nat.mul_add, Nat.mul_one]
        omega

/-- without progress of others, the measure pays for every own step -/
theorem generic_bound0
    (hinv : ∀ s j, Inv s → Inv (stp s j))
    (hown : ∀ s, Inv s → busy s = true → busy (stp s t) = false ∨ Φ (stp s t) < Φ s)
    (hoth : ∀ s j, Inv s → j ≠ t → ev s j = false → Φ (stp s j) ≤ Φ s) :
    ∀ (r : List Nat) (s : σ), Inv s → busyAlong stp busy s r = true → othersProgress stp t ev s r = 0 →
      r.count t + Φ (r.foldl stp s) ≤ Φ s := by
  intro r
  induction r with
  | nil => intro s _ _ _; simp
  | cons j r ih =>
    intro s hi hb hp
    simp only [busyAlong, Bool.and_eq_true] at hb
    obtain ⟨hb0, hb1⟩ := hb
    simp only [othersProgress] at hp
    have hp1 : othersProgress stp t ev (stp s j) r = 0 := by omega
    have := ih (stp s j) (hinv s j hi) hb1 hp1
    simp only [List.foldl_cons]
    by_cases hj : j = t
    · subst hj
      rcases hown s hi hb0 with hd | hd
      · have := busyAlong_head stp busy hb1; rw [hd] at this; cases this
      · simp only [List.count_cons_self]; omega
    · rw [List.count_cons_of_ne hj]
      cases he : ev s j with
      | false => have := hoth s j hi hj he; omega
      | true => simp [hj, he] at hp

/-- a progress event of another thread, located in the run -/
theorem othersProgress_pos : ∀ (r : List Nat) (s : σ), 0 < othersProgress stp t ev s r →
    ∃ r1 j r2, r = r1 ++ j :: r2 ∧ j ≠ t ∧ ev (r1.foldl stp s) j = true := by
  intro r
  induction r with
  | nil => intro s h; simp [othersProgress] at h
  | cons j r ih =>
    intro s h
    simp only [othersProgress] at h
    by_cases hj : j ≠ t ∧ ev s j = true
    · exact ⟨[], j, r, rfl, hj.1, hj.2⟩
    · rw [if_neg hj] at h
      obtain ⟨r1, j', r2, e, h1, h2⟩ := ih (stp s j) (by omega)
      exact ⟨j :: r1, j', r2, by rw [e]; rfl, h1, h2⟩

/-- alone, the thread is done within `Φ` steps -/
theorem generic_alone
    (hinv : ∀ s j, Inv s → Inv (stp s j))
    (hown : ∀ s, Inv s → busy s = true → busy (stp s t) = false ∨ Φ (stp s t) < Φ s)
    (hpos : ∀ s, Inv s → busy s = true → 0 < Φ s) :
    ∀ (n : Nat) (s : σ), Inv s → Φ s ≤ n → ∃ m, m ≤ n ∧ busy ((List.replicate m t).foldl stp s) = false := by
  intro n
  induction n with
  | zero =>
    intro s hi h0
    refine ⟨0, Nat.le_refl _, ?_⟩
    cases hb : busy s with
    | false => simpa using hb
    | true => have := hpos s hi hb; omega
  | succ n ih =>
    intro s hi hn
    cases hb : busy s with
    | false => exact ⟨0, Nat.zero_le _, by simpa using hb⟩
    | true =>
      rcases hown s hi hb with hd | hd
      · exact ⟨1, by omega, by simpa [List.replicate] using hd⟩
      · obtain ⟨m, hm, hbm⟩ := ih (stp s t) (hinv s t hi) (by omega)
        exact ⟨m + 1, by omega, by simpa [List.replicate_succ] using hbm⟩

end Generic

/-- `along` of a decidable predicate is decidable (for the examples) -/
def alongDec {σ : Type} (stp : σ → Nat → σ) (p : σ → Prop) [DecidablePred p] :
    ∀ (s : σ) (r : List Nat), Decidable (along stp p s r)
  | s, [] => inferInstanceAs (Decidable (p s))
  | s, j :: r => @instDecidableAnd _ _ _ (alongDec stp p (stp s j) r)

instance {σ : Type} (stp : σ → Nat → σ) (p : σ → Prop) [DecidablePred p] (s : σ) (r : List Nat) :
    Decidable (along stp p s r) := alongDec stp p s r

/-! ### the skiplist -/

/-- a run: the threads that step, in order -/
def run (s : St) (r : List Nat) : St := r.foldl step s

/-- the level at which the next step of thread `j` links a node (a CAS that succeeds), if it does -/
def succCasAt (s : St) (j : Nat) : Option Nat :=
  match access s j with
  | some (.cas _ lvl _ _ true) => some lvl
  | _ => none

/-- the next step of `j` is a successful CAS at level 0: an insert takes effect -/
def linksKey (s : St) (j : Nat) : Bool := succCasAt s j == some 0

/-- the pcs of a search: `find_greater_or_equal` (seek, contains), `find_less_than`, `find_last`,
    the load of `next`, and the search of `insert` (`find_greater_or_equal_and_pointers`) -/
def searching : PC → Bool
  | .geq .. => true
  | .lt .. => true
  | .last .. => true
  | .nxt .. => true
  | .search .. => true
  | _ => false

def cntP (s : St) (k : Option Nat) (x n : Nat) : Bool :=
  s.inserted.contains (mkey s.heap n) &&
  (match k with
   | some k => decide (mkey s.heap n < k)
   | none => true) &&
  (x == 0 || decide (mkey s.heap x < mkey s.heap n))

/-- allocated nodes with a linked key below `k` (any, for `none`) and above the key of `x` -/
def cnt (s : St) (k : Option Nat) (x : Nat) : Nat := (List.range s.heap.length).countP (cntP s k x)

/-- allocated nodes with a linked key -/
def linkedNodes (s : St) : Nat := (List.range s.heap.length).countP fun n => s.inserted.contains (mkey s.heap n)

/-- the measure of a search -/
def phi (s : St) : PC → Nat
  | .geq k x lvl _ => cnt s (some k) x + 1 + lvl * (linkedNodes s + 1)
  | .lt k x lvl => cnt s (some k) x + 1 + lvl * (linkedNodes s + 1)
  | .search k _ x lvl _ _ => cnt s (some k) x + 1 + lvl * (linkedNodes s + 1)
  | .last x lvl => cnt s none x + 1 + lvl * (linkedNodes s + 1)
  | .nxt _ => 1
  | _ => 0

/-- `B(state)` for thread `t`: the number of its own steps its search can still take -/
def searchBound (s : St) (t : Nat) : Nat := phi s (th s t).pc

def searchBusy (t : Nat) (s : St) : Bool := searching (th s t).pc

/-! #### counting -/

theorem countP_lt {l : List Nat} {p q : Nat → Bool} (himp : ∀ a, q a = true → p a = true) (n : Nat) (hn : n ∈ l)
    (hp : p n = true) (hq : q n = false) : l.countP q < l.countP p := by
  induction l with
  | nil => cases hn
  | cons a l ih =>
    have hle : l.countP q ≤ l.countP p := List.countP_mono_left (fun x _ => himp x)
    simp only [List.mem_cons] at hn
    rcases hn with rfl | hn
    · rw [List.countP_cons_of_pos hp, List.countP_cons_of_neg (by rw [hq]; simp)]
      omega
    · have := ih hn
      by_cases hqa : q a = true
      · rw [List.countP_cons_of_pos hqa, List.countP_cons_of_pos (himp a hqa)]; omega
      · rw [List.countP_cons_of_neg hqa]
        by_cases hpa : p a = true
        · rw [List.countP_cons_of_pos hpa]; omega
        · rw [List.countP_cons_of_neg hpa]; exact this

theorem cnt_le (s : St) (k : Option Nat) (x : Nat) : cnt s k x ≤ linkedNodes s := by
  apply List.countP_mono_left
  intro n _ h
  simp only [cntP, Bool.and_eq_true] at h
  exact h.1.1

/-- a load that moves the search forward makes its count smaller -/
theorem walk_dec {s : St} {ids} (h : MInv s ids) (k : Option Nat) (x lvl n : Nat) (hl : lvl < s.H)
    (hx : x = 0 ∨ x ∈ ids lvl) (hn : mnext s.heap lvl x = some n)
    (hk : ∀ k', k = some k' → mkey s.heap n < k') : cnt s k n < cnt s k x := by
  have hnl : n ∈ ids lvl := minv_next h lvl x n hl hx hn
  have hlt : n < s.heap.length := minv_ids_lt h lvl n hnl
  have hins : mkey s.heap n ∈ s.inserted := minv_key_linked h lvl n hnl
  have hn0 : n ≠ 0 := fun e => h.noHead lvl (e ▸ hnl)
  have hxn : x = 0 ∨ mkey s.heap x < mkey s.heap n := by
    rcases hx with hx | hx
    · exact Or.inl hx
    · right
      have := Blue.SkipList.schain_next_lt (h.chains lvl hl) x hx n (by rw [nextOf_proj]; exact hn)
      rwa [keyOf_proj, keyOf_proj] at this
  apply countP_lt (n := n)
  · intro a ha
    simp only [cntP, Bool.and_eq_true, Bool.or_eq_true, beq_iff_eq, decide_eq_true_eq] at ha ⊢
    refine ⟨ha.1, ?_⟩
    rcases hxn with h0 | h1
    · exact Or.inl h0
    · rcases ha.2 with h2 | h2
      · exact absurd h2 hn0
      · exact Or.inr (Nat.lt_trans h1 h2)
  · exact List.mem_range.mpr hlt
  · simp only [cntP, Bool.and_eq_true, Bool.or_eq_true, beq_iff_eq, decide_eq_true_eq]
    refine ⟨⟨by simpa using hins, ?_⟩, hxn⟩
    cases k with
    | none => rfl
    | some k' => simpa using hk k' rfl
  · simp [cntP, hn0]

/-! #### what a step that is not a successful level-0 CAS leaves as it is -/

/-- `s'` has the linked keys of `s`, the keys of its nodes, and at most one more node, whose key
    is not linked -/
structure Frame (s s' : St) : Prop where
  ins : s'.inserted = s.inserted
  len : s'.heap.length = s.heap.length ∨
    (s'.heap.length = s.heap.length + 1 ∧ mkey s'.heap s.heap.length ∉ s.inserted)
  keys : ∀ n, n < s.heap.length → mkey s'.heap n = mkey s.heap n

theorem frame_setTh (s : St) (i : Nat) (t : Th) : Frame s (setTh s i t) := ⟨rfl, Or.inl rfl, fun _ _ => rfl⟩
theorem frame_setPc (s : St) (i : Nat) (pc : PC) : Frame s (setPc s i pc) := frame_setTh ..
theorem frame_refl (s : St) : Frame s s := ⟨rfl, Or.inl rfl, fun _ _ => rfl⟩

theorem countP_frame {s s' : St} (f : Frame s s') (p p' : Nat → Bool)
    (hsame : ∀ n, n < s.heap.length → p' n = p n)
    (hnew : s'.heap.length = s.heap.length + 1 → p' s.heap.length = false) :
    (List.range s'.heap.length).countP p' = (List.range s.heap.length).countP p := by
  have hold : (List.range s.heap.length).countP p' = (List.range s.heap.length).countP p := by
    apply List.countP_congr
    intro n hn
    rw [hsame n (List.mem_range.mp hn)]
  rcases f.len with hl | ⟨hl, _⟩
  · rw [hl]; exact hold
  · rw [hl, List.range_succ, List.countP_append, hold]
    simp [hnew hl]

theorem cnt_frame {s s' : St} (f : Frame s s') (k : Option Nat) (x : Nat) (hx : x < s.heap.length) :
    cnt s' k x = cnt s k x := by
  apply countP_frame f
  · intro n hn
    simp only [cntP, f.ins, f.keys n hn, f.keys x hx]
  · intro hl
    rcases f.len with hl' | ⟨_, hnot⟩
    · omega
    · simp only [cntP, f.ins]
      have : s.inserted.contains (mkey s'.heap s.heap.length) = false := by simpa using hnot
      rw [this]; rfl

theorem linkedNodes_frame {s s' : St} (f : Frame s s') : linkedNodes s' = linkedNodes s := by
  apply countP_frame f
  · intro n hn; simp only [f.ins, f.keys n hn]
  · intro hl
    rcases f.len with hl' | ⟨_, hnot⟩
    · omega
    · simp only [f.ins]; simpa using hnot

theorem step_frame {s : St} {ids} (h : MInv s ids) (j : Nat) (hev : linksKey s j = false) :
    Frame s (step s j) := by
  cases hpc : (th s j).pc with
  | idle => unfold step; simp only [hpc]; exact frame_refl s
  | panicked => unfold step; simp only [hpc]; exact frame_refl s
  | search k hh x lvl prev obs =>
    unfold step; simp only [hpc]
    repeat' split
    all_goals first | exact frame_setPc .. | exact frame_setTh ..
  | geq k x lvl c =>
    unfold step; simp only [hpc]
    repeat' split
    all_goals first | exact frame_setPc .. | exact frame_setTh ..
  | lt k x lvl =>
    unfold step; simp only [hpc]
    repeat' split
    all_goals first | exact frame_setPc .. | exact frame_setTh ..
  | last x lvl =>
    unfold step; simp only [hpc]
    repeat' split
    all_goals first | exact frame_setPc .. | exact frame_setTh ..
  | nxt x => unfold step; simp only [hpc]; exact frame_setTh ..
  | adv nd k idx hh prev obs =>
    unfold step; simp only [hpc]
    repeat' split
    all_goals first | exact frame_setPc .. | exact frame_setTh ..
  | alloc k hh prev obs =>
    have hfresh : k ∉ s.inserted := own_obl h j hpc (.fresh k) (by simp [obls])
    unfold step; simp only [hpc]
    refine ⟨rfl, Or.inr ⟨by simp [setPc, setTh], ?_⟩, ?_⟩
    · show mkey (s.heap ++ [_]) s.heap.length ∉ s.inserted
      simpa [mkey] using hfresh
    · intro n hn
      show mkey (s.heap ++ [_]) n = _
      exact mkey_append _ _ _ hn
  | setNext nd k idx hh prev obs =>
    unfold step; simp only [hpc]
    refine ⟨rfl, Or.inl ?_, ?_⟩
    · show (msetNext _ _ _ _).length = _
      exact length_msetNext ..
    · intro n _
      show mkey (msetNext _ _ _ _) n = _
      exact mkey_msetNext ..
  | cas nd k idx hh prev obs =>
    have hne : ¬ (idx = 0 ∧ mnext s.heap idx (prev.getD idx 0) = obs.getD idx none) := by
      intro ⟨h0, he⟩
      subst h0
      have : succCasAt s j = some 0 := by
        unfold succCasAt access; rw [hpc]; simp only; rw [decide_eq_true he]
      simp [linksKey, this] at hev
    unfold step; simp only [hpc]
    split
    · rename_i he
      have h0 : idx ≠ 0 := fun e => hne ⟨e, he⟩
      split
      · refine ⟨by simp [setPc, setTh], Or.inl ?_, ?_⟩
        · show (msetNext _ _ _ _).length = _
          exact length_msetNext ..
        · intro n _
          show mkey (msetNext _ _ _ _) n = _
          exact mkey_msetNext ..
      · refine ⟨by simp [setPc, setTh], Or.inl ?_, ?_⟩
        · show (msetNext _ _ _ _).length = _
          exact length_msetNext ..
        · intro n _
          show mkey (msetNext _ _ _ _) n = _
          exact mkey_msetNext ..
    · exact frame_setPc ..

/-! #### the searching thread's own loads -/

theorem th_setPc_pc (s : St) (i : Nat) (pc : PC) (hi : i < s.ths.length) : (th (setPc s i pc) i).pc = pc := by
  unfold setPc; rw [th_setTh_same _ _ _ hi]

theorem phi_setPc (s : St) (i : Nat) (pc pc' : PC) : phi (setPc s i pc) pc' = phi s pc' := rfl

theorem stand_on {s : St} {ids} {k l x : Nat} (h : StandOk s.heap ids k l x) : x = 0 ∨ x ∈ ids l := by
  rcases h with h | h
  · exact Or.inl h
  · exact Or.inr h.1

theorem own_dec_geq {s : St} {ids} (h : MInv s ids) (t k x lvl : Nat) (c : Bool)
    (hpc : (th s t).pc = .geq k x lvl c) :
    searching (th (step s t) t).pc = false ∨ phi (step s t) (th (step s t) t).pc < phi s (th s t).pc := by
  have hi : t < s.ths.length := th_lt_of_pc (by rw [hpc]; simp)
  have hlvl : lvl < s.H := by have := h.pure t; rw [hpc] at this; exact this
  have hx := stand_on (own_obl h t hpc (.stand k lvl x) (by simp [obls]))
  have hphi : phi s (th s t).pc = phi s (.geq k x lvl c) := by rw [hpc]
  rw [hphi]
  have hle := cnt_le s (some k) x
  unfold step; simp only [hpc]
  cases hnx : mnext s.heap lvl x with
  | none =>
    simp only []
    cases lvl with
    | zero => left; simp only; split <;> (rw [th_setTh_same _ _ _ hi]; rfl)
    | succ l =>
      right; simp only; rw [th_setPc_pc _ _ _ hi, phi_setPc]
      simp only [phi, Nat.succ_mul]; omega
  | some n =>
    cases haf : after s.heap k (some n) with
    | true =>
      right; simp only; rw [th_setPc_pc _ _ _ hi, phi_setPc]
      have := walk_dec h (some k) x lvl n hlvl hx hnx (by
        intro k' hk'; cases hk'; simpa [after] using haf)
      simp only [phi]; omega
    | false =>
      simp only []
      cases lvl with
      | zero => left; simp only; split <;> (rw [th_setTh_same _ _ _ hi]; rfl)
      | succ l =>
        right; simp only; rw [th_setPc_pc _ _ _ hi, phi_setPc]
        simp only [phi, Nat.succ_mul]; omega

theorem own_dec_lt {s : St} {ids} (h : MInv s ids) (t k x lvl : Nat)
    (hpc : (th s t).pc = .lt k x lvl) :
    searching (th (step s t) t).pc = false ∨ phi (step s t) (th (step s t) t).pc < phi s (th s t).pc := by
  have hi : t < s.ths.length := th_lt_of_pc (by rw [hpc]; simp)
  have hlvl : lvl < s.H := by have := h.pure t; rw [hpc] at this; exact this
  have hx := stand_on (own_obl h t hpc (.stand k lvl x) (by simp [obls]))
  have hphi : phi s (th s t).pc = phi s (.lt k x lvl) := by rw [hpc]
  rw [hphi]
  have hle := cnt_le s (some k) x
  unfold step; simp only [hpc]
  split
  · left; rw [th_setPc_pc _ _ _ hi]; rfl
  cases hnx : mnext s.heap lvl x with
  | none =>
    simp only []
    cases lvl with
    | zero => left; simp only; rw [th_setTh_same _ _ _ hi]; rfl
    | succ l =>
      right; simp only; rw [th_setPc_pc _ _ _ hi, phi_setPc]
      simp only [phi, Nat.succ_mul]; omega
  | some n =>
    cases haf : after s.heap k (some n) with
    | true =>
      right; simp only; rw [th_setPc_pc _ _ _ hi, phi_setPc]
      have := walk_dec h (some k) x lvl n hlvl hx hnx (by
        intro k' hk'; cases hk'; simpa [after] using haf)
      simp only [phi]; omega
    | false =>
      simp only []
      cases lvl with
      | zero => left; simp only; rw [th_setTh_same _ _ _ hi]; rfl
      | succ l =>
        right; simp only; rw [th_setPc_pc _ _ _ hi, phi_setPc]
        simp only [phi, Nat.succ_mul]; omega

theorem own_dec_last {s : St} {ids} (h : MInv s ids) (t x lvl : Nat)
    (hpc : (th s t).pc = .last x lvl) :
    searching (th (step s t) t).pc = false ∨ phi (step s t) (th (step s t) t).pc < phi s (th s t).pc := by
  have hi : t < s.ths.length := th_lt_of_pc (by rw [hpc]; simp)
  have hlvl : lvl < s.H := by have := h.pure t; rw [hpc] at this; exact this
  have hx : x = 0 ∨ x ∈ ids lvl := own_obl h t hpc (.on lvl x) (by simp [obls])
  have hphi : phi s (th s t).pc = phi s (.last x lvl) := by rw [hpc]
  rw [hphi]
  have hle := cnt_le s none x
  unfold step; simp only [hpc]
  cases hnx : mnext s.heap lvl x with
  | none =>
    simp only []
    cases lvl with
    | zero => left; simp only; rw [th_setTh_same _ _ _ hi]; rfl
    | succ l =>
      right; simp only; rw [th_setPc_pc _ _ _ hi, phi_setPc]
      simp only [phi, Nat.succ_mul]; omega
  | some n =>
    right; simp only; rw [th_setPc_pc _ _ _ hi, phi_setPc]
    have := walk_dec h none x lvl n hlvl hx hnx (by intro k' hk'; cases hk')
    simp only [phi]; omega

theorem own_dec_search {s : St} {ids} (h : MInv s ids) (t k hh x lvl : Nat) (prev : List Nat) (obs : List (Option Nat))
    (hpc : (th s t).pc = .search k hh x lvl prev obs) :
    searching (th (step s t) t).pc = false ∨ phi (step s t) (th (step s t) t).pc < phi s (th s t).pc := by
  have hi : t < s.ths.length := th_lt_of_pc (by rw [hpc]; simp)
  have hlvl : lvl < s.H := by have := h.pure t; rw [hpc] at this; exact this.2.2.1
  have hx := stand_on (own_obl h t hpc (.stand k lvl x) (by simp [obls]))
  have hphi : phi s (th s t).pc = phi s (.search k hh x lvl prev obs) := by rw [hpc]
  rw [hphi]
  have hle := cnt_le s (some k) x
  unfold step; simp only [hpc]
  cases hnx : mnext s.heap lvl x with
  | none =>
    simp only []
    cases lvl with
    | zero => left; simp only; rw [th_setPc_pc _ _ _ hi]; rfl
    | succ l =>
      right; simp only; rw [th_setPc_pc _ _ _ hi, phi_setPc]
      simp only [phi, Nat.succ_mul]; omega
  | some n =>
    cases haf : after s.heap k (some n) with
    | true =>
      right; simp only; rw [th_setPc_pc _ _ _ hi, phi_setPc]
      have := walk_dec h (some k) x lvl n hlvl hx hnx (by
        intro k' hk'; cases hk'; simpa [after] using haf)
      simp only [phi]; omega
    | false =>
      simp only []
      cases lvl with
      | zero => left; simp only; split <;> (rw [th_setPc_pc _ _ _ hi]; rfl)
      | succ l =>
        right; simp only; rw [th_setPc_pc _ _ _ hi, phi_setPc]
        simp only [phi, Nat.succ_mul]; omega

/-- every load of a search makes its measure smaller, or is its last -/
theorem own_dec {s : St} {ids} (h : MInv s ids) (t : Nat) (hb : searching (th s t).pc = true) :
    searching (th (step s t) t).pc = false ∨ phi (step s t) (th (step s t) t).pc < phi s (th s t).pc := by
  cases hpc : (th s t).pc with
  | geq k x lvl c => rw [← hpc]; exact own_dec_geq h t k x lvl c hpc
  | lt k x lvl => rw [← hpc]; exact own_dec_lt h t k x lvl hpc
  | last x lvl => rw [← hpc]; exact own_dec_last h t x lvl hpc
  | search k hh x lvl prev obs => rw [← hpc]; exact own_dec_search h t k hh x lvl prev obs hpc
  | nxt x =>
    have hi : t < s.ths.length := th_lt_of_pc (by rw [hpc]; simp)
    left; unfold step; simp only [hpc]; rw [th_setTh_same _ _ _ hi]; rfl
  | idle => rw [hpc] at hb; cases hb
  | panicked => rw [hpc] at hb; cases hb
  | alloc _ _ _ _ => rw [hpc] at hb; cases hb
  | setNext _ _ _ _ _ _ => rw [hpc] at hb; cases hb
  | cas _ _ _ _ _ _ => rw [hpc] at hb; cases hb
  | adv _ _ _ _ _ _ => rw [hpc] at hb; cases hb

/-! #### steps of the other threads -/

theorem th_setTh_ths (s s' : St) (j t : Nat) (x : Th) (hne : t ≠ j) (hths : s'.ths = s.ths) :
    th (setTh s' j x) t = th s t := by
  rw [th_setTh_other _ _ _ _ hne]; simp [th, hths]

theorem step_th_other (s : St) (j t : Nat) (hne : t ≠ j) : th (step s j) t = th s t := by
  unfold step
  cases (th s j).pc <;> simp only
  all_goals repeat' split
  all_goals first | rfl | exact th_setTh_ths _ _ _ _ _ hne rfl

theorem step_H (s : St) (j : Nat) : (step s j).H = s.H := by
  unfold step
  cases (th s j).pc <;> simp only
  all_goals repeat' split
  all_goals rfl

theorem step_len (s : St) (j : Nat) : s.heap.length ≤ (step s j).heap.length := by
  unfold step
  cases (th s j).pc <;> simp only
  all_goals repeat' split
  all_goals simp [setPc, setTh, length_msetNext]

/-- the node a search stands on -/
def pcPos : PC → Nat
  | .geq _ x _ _ => x
  | .lt _ x _ => x
  | .last x _ => x
  | .search _ _ x _ _ _ => x
  | _ => 0

theorem pcPos_lt {s : St} {ids} (h : MInv s ids) (t : Nat) : pcPos (th s t).pc < s.heap.length := by
  have h0 := minv_heap_pos h
  have on : ∀ l x, (x = 0 ∨ x ∈ ids l) → x < s.heap.length := by
    intro l x hx
    rcases hx with rfl | hx
    · exact h0
    · exact minv_ids_lt h l x hx
  cases hpc : (th s t).pc with
  | geq k x lvl c => exact on lvl x (stand_on (own_obl h t hpc (.stand k lvl x) (by simp [obls])))
  | lt k x lvl => exact on lvl x (stand_on (own_obl h t hpc (.stand k lvl x) (by simp [obls])))
  | search k hh x lvl prev obs => exact on lvl x (stand_on (own_obl h t hpc (.stand k lvl x) (by simp [obls])))
  | last x lvl => exact on lvl x (own_obl h t hpc (.on lvl x) (by simp [obls]))
  | _ => exact h0

theorem phi_frame {s s' : St} (f : Frame s s') (pc : PC) (hx : pcPos pc < s.heap.length) : phi s' pc = phi s pc := by
  cases pc <;> simp only [phi, pcPos] at hx ⊢
  all_goals rw [cnt_frame f _ _ hx, linkedNodes_frame f]

theorem other_keeps {s : St} {ids} (h : MInv s ids) (t j : Nat) (hne : j ≠ t) (hev : linksKey s j = false) :
    searchBound (step s j) t ≤ searchBound s t := by
  unfold searchBound
  rw [step_th_other s j t (fun e => hne e.symm), phi_frame (step_frame h j hev) _ (pcPos_lt h t)]
  exact Nat.le_refl _

theorem busy_pos (s : St) (t : Nat) (hb : searchBusy t s = true) : 0 < searchBound s t := by
  unfold searchBusy at hb; unfold searchBound
  cases hpc : (th s t).pc <;> rw [hpc] at hb <;> simp [searching] at hb <;> simp only [phi] <;> omega

def SInv (s : St) : Prop := ∃ ids, MInv s ids

theorem sinv_step (s : St) (j : Nat) (h : SInv s) : SInv (step s j) := by
  obtain ⟨ids, hi⟩ := h
  obtain ⟨ids', hi', _⟩ := inv_step hi j
  exact ⟨ids', hi'⟩

theorem sinv_own (t : Nat) (s : St) (h : SInv s) (hb : searchBusy t s = true) :
    searchBusy t (step s t) = false ∨ searchBound (step s t) t < searchBound s t := by
  obtain ⟨ids, hi⟩ := h
  exact own_dec hi t hb

theorem sinv_other (t : Nat) (s : St) (j : Nat) (h : SInv s) (hne : j ≠ t) (hev : linksKey s j = false) :
    searchBound (step s j) t ≤ searchBound s t := by
  obtain ⟨ids, hi⟩ := h
  exact other_keeps hi t j hne hev

/-! ### the theorems -/

/-- thread `t` is searching in every state of the run (it has not reached its last load) -/
def searchingAlong (t : Nat) (s : St) (r : List Nat) : Bool := busyAlong step (searchBusy t) s r

/-- the number of steps of the run, by threads other than `t`, that are successful level-0 CASes -/
def insertsByOthers (t : Nat) (s : St) (r : List Nat) : Nat := othersProgress step t linksKey s r

/-- **a search that runs alone reaches its last load** within `searchBound s t` of its own steps:
    the count of linked keys between the node it stands on and its target, plus the levels below it
    times (the number of nodes with a linked key, plus one) -/
theorem search_terminates_without_interference {s : St} (h : Reach s) (t : Nat) :
    ∃ m, m ≤ searchBound s t ∧ searching (th (run s (List.replicate m t)) t).pc = false :=
  generic_alone step t SInv (fun s => searchBound s t) (searchBusy t) sinv_step (sinv_own t) (fun s _ => busy_pos s t)
    (searchBound s t) s (reach_minv h) (Nat.le_refl _)

/-- **lock-freedom of the searches**: if a search (seek, contains, prev, next, or the search of an
    insert) takes more than `searchBound s t` of its own steps in a run without reaching its last
    load, another thread's level-0 CAS succeeded during the run (an insert took effect) -/
theorem search_lock_freedom {s : St} (h : Reach s) (t : Nat) (r : List Nat)
    (hbusy : searchingAlong t s r = true) (hsteps : searchBound s t < r.count t) :
    ∃ r1 j r2, r = r1 ++ j :: r2 ∧ j ≠ t ∧ succCasAt (run s r1) j = some 0 := by
  have hp : 0 < insertsByOthers t s r := by
    apply Nat.pos_of_ne_zero
    intro h0
    have := generic_bound0 step t SInv (fun s => searchBound s t) (searchBusy t) linksKey sinv_step (sinv_own t)
      (sinv_other t) r s (reach_minv h) hbusy h0
    omega
  obtain ⟨r1, j, r2, e, hj, hev⟩ := othersProgress_pos step t linksKey r s hp
  exact ⟨r1, j, r2, e, hj, by simpa [linksKey, run] using hev⟩

theorem searchBound_le {s : St} {ids} (h : MInv s ids) (t : Nat) : searchBound s t ≤ s.H * (s.heap.length + 1) := by
  have hM : linkedNodes s ≤ s.heap.length := by
    have := List.countP_le_length (p := fun n => s.inserted.contains (mkey s.heap n)) (l := List.range s.heap.length)
    simpa [linkedNodes] using this
  have key : ∀ (c lvl : Nat), c ≤ linkedNodes s → lvl < s.H →
      c + 1 + lvl * (linkedNodes s + 1) ≤ s.H * (s.heap.length + 1) := by
    intro c lvl hc hl
    have h1 : (lvl + 1) * (linkedNodes s + 1) ≤ s.H * (s.heap.length + 1) := Nat.mul_le_mul (by omega) (by omega)
    rw [Nat.succ_mul] at h1
    omega
  have hP := h.pure t
  unfold searchBound
  cases hpc : (th s t).pc <;> rw [hpc] at hP <;> simp only [phi, Nat.zero_le]
  · exact key _ _ (cnt_le ..) hP.2.2.1
  · exact key _ _ (cnt_le ..) hP
  · exact key _ _ (cnt_le ..) hP
  · exact key _ _ (cnt_le ..) hP
  · have := Nat.mul_le_mul h.hpos (Nat.succ_le_succ (Nat.zero_le s.heap.length))
    simpa using this

theorem run_len : ∀ (r : List Nat) (s : St), s.heap.length ≤ (run s r).heap.length := by
  intro r
  induction r with
  | nil => intro s; exact Nat.le_refl _
  | cons j r ih => intro s; exact Nat.le_trans (step_len s j) (ih (step s j))

theorem bound_along (t H L : Nat) : ∀ (r : List Nat) (s : St), SInv s → s.H = H → (run s r).heap.length ≤ L →
    along step (fun s' => searchBound s' t ≤ H * (L + 1)) s r := by
  intro r
  induction r with
  | nil =>
    intro s ⟨ids, hi⟩ hH hL
    have := searchBound_le hi t
    have h2 : s.H * (s.heap.length + 1) ≤ H * (L + 1) := by
      rw [hH]; exact Nat.mul_le_mul (Nat.le_refl _) (Nat.succ_le_succ hL)
    exact Nat.le_trans this h2
  | cons j r ih =>
    intro s hs hH hL
    refine ⟨?_, ih (step s j) (sinv_step s j hs) (by rw [step_H, hH]) hL⟩
    obtain ⟨ids, hi⟩ := hs
    have := searchBound_le hi t
    have hl : s.heap.length ≤ L := Nat.le_trans (run_len (j :: r) s) hL
    have h2 : s.H * (s.heap.length + 1) ≤ H * (L + 1) := by
      rw [hH]; exact Nat.mul_le_mul (Nat.le_refl _) (Nat.succ_le_succ hl)
    exact Nat.le_trans this h2

/-- **every search finishes**: in any run, a search that has not reached its last load has taken at
    most `MAX_HEIGHT * (nodes + 1)` own steps per insert of another thread that took effect during
    the run, plus once that (`nodes`: allocated nodes at the end of the run, the head included - at
    most one per insert begun).  As the inserts of a finite workload are finitely many, a search
    that keeps being scheduled reaches its last load. -/
theorem all_searches_finish {s : St} (h : Reach s) (t : Nat) (r : List Nat)
    (hbusy : searchingAlong t s r = true) :
    r.count t ≤ s.H * ((run s r).heap.length + 1) * (insertsByOthers t s r + 1) := by
  have hs : SInv s := reach_minv h
  have hb := generic_bound step t SInv (fun s => searchBound s t) (searchBusy t) linksKey sinv_step (sinv_own t)
    (sinv_other t) (s.H * ((run s r).heap.length + 1)) r s hs hbusy
    (bound_along t s.H (run s r).heap.length r s hs rfl (Nat.le_refl _))
  have h0 : searchBound s t ≤ s.H * ((run s r).heap.length + 1) := by
    obtain ⟨ids, hi⟩ := hs
    exact Nat.le_trans (searchBound_le hi t)
      (Nat.mul_le_mul (Nat.le_refl _) (Nat.succ_le_succ (run_len r s)))
  rw [Nat.mul_succ]
  unfold insertsByOthers
  omega

/-! ### a failed CAS is the trace of another thread's successful CAS -/

/-- thread `t` is between its load of `prev[idx].next[idx]` (which gave `obs[idx]`) and its CAS -/
def casWait (t nd k idx hh : Nat) (prev : List Nat) (obs : List (Option Nat)) (s : St) : Prop :=
  (th s t).pc = .setNext nd k idx hh prev obs ∨ (th s t).pc = .cas nd k idx hh prev obs

/-- the predecessor's pointer is still what the thread loaded: its CAS will succeed -/
def freshAt (s : St) (idx : Nat) (prev : List Nat) (obs : List (Option Nat)) : Prop :=
  mnext s.heap idx (prev.getD idx 0) = obs.getD idx none

instance (t nd k idx hh : Nat) (prev : List Nat) (obs : List (Option Nat)) : DecidablePred (casWait t nd k idx hh prev obs) :=
  fun s => by unfold casWait; exact inferInstance

instance (s : St) (idx : Nat) (prev : List Nat) (obs : List (Option Nat)) : Decidable (freshAt s idx prev obs) := by
  unfold freshAt; exact inferInstance

/-- the next step of thread `i` is a successful CAS at level `lvl` on predecessor `p` -/
def casOn (s : St) (i lvl p : Nat) : Prop := ∃ old new, access s i = some (.cas p lvl old new true)

theorem step_heap_same (s : St) (i : Nat)
    (h : match (th s i).pc with
      | .alloc .. => False
      | .setNext .. => False
      | .cas .. => False
      | _ => True) : (step s i).heap = s.heap := by
  cases hpc : (th s i).pc <;> rw [hpc] at h <;> simp only at h <;> (unfold step; simp only [hpc])
  all_goals repeat' split
  all_goals rfl

theorem fresh_step {s : St} {ids} (h : MInv s ids) (t nd k idx hh : Nat) (prev : List Nat) (obs : List (Option Nat))
    (hw : casWait t nd k idx hh prev obs s) (hf : freshAt s idx prev obs) (i : Nat)
    (hi : i = t → (th s t).pc = .setNext nd k idx hh prev obs) :
    freshAt (step s i) idx prev obs ∨ (i ≠ t ∧ casOn s i idx (prev.getD idx 0)) := by
  have ft : InsFacts s ids nd k idx hh prev obs := by
    rcases hw with hw | hw
    · exact insFacts_of (fun o ho => own_obl h t hw o (by simpa [obls] using ho))
    · exact insFacts_of (fun o ho => own_obl h t hw o (by simp only [obls, List.mem_cons]; exact Or.inr ho))
  have hidx : idx < hh := by
    have := h.pure t
    rcases hw with hw | hw <;> rw [hw] at this <;> exact this.1
  have hp : prev.getD idx 0 = 0 ∨ prev.getD idx 0 ∈ ids idx := stand_on (ft.prevs idx (Nat.le_refl _) hidx)
  have hplt : prev.getD idx 0 < s.heap.length := by
    rcases hp with hp | hp
    · rw [hp]; exact minv_heap_pos h
    · exact minv_ids_lt h idx _ hp
  unfold freshAt at hf ⊢
  cases hpc : (th s i).pc with
  | alloc k' h' prev' obs' =>
    left
    unfold step; simp only [hpc]
    show mnext (s.heap ++ [_]) idx _ = _
    rw [mnext_append _ _ _ _ hplt]; exact hf
  | setNext nd' k' idx' h' prev' obs' =>
    left
    have fi : InsFacts s ids nd' k' idx' h' prev' obs' :=
      insFacts_of (fun o ho => own_obl h i hpc o (by simpa [obls] using ho))
    unfold step; simp only [hpc]
    show mnext (msetNext s.heap idx' nd' _) idx _ = _
    rw [mnext_msetNext_ne]
    · exact hf
    · intro ⟨e1, e2⟩
      subst e1
      rcases hp with hp | hp
      · have := fi.node.1; omega
      · exact fi.above idx (Nat.le_refl _) (e2 ▸ hp)
  | cas nd' k' idx' h' prev' obs' =>
    by_cases hc : mnext s.heap idx' (prev'.getD idx' 0) = obs'.getD idx' none
    · by_cases hsame : idx = idx' ∧ prev.getD idx 0 = prev'.getD idx' 0
      · right
        refine ⟨?_, ?_⟩
        · intro e
          subst e
          rw [hi rfl] at hpc
          cases hpc
        · refine ⟨obs'.getD idx' none, nd', ?_⟩
          unfold access; rw [hpc]; simp only
          rw [decide_eq_true hc, hsame.2, hsame.1]
      · left
        have hheap : (step s i).heap = msetNext s.heap idx' (prev'.getD idx' 0) (some nd') := by
          unfold step; simp only [hpc, hc, if_true]
          split <;> rfl
        rw [hheap, mnext_msetNext_ne _ _ _ _ _ _ hsame]
        exact hf
    · left
      have hheap : (step s i).heap = s.heap := by
        unfold step; simp only [hpc, hc, if_false]; rfl
      rw [hheap]; exact hf
  | idle => left; rw [step_heap_same s i (by rw [hpc]; trivial)]; exact hf
  | panicked => left; rw [step_heap_same s i (by rw [hpc]; trivial)]; exact hf
  | search _ _ _ _ _ _ => left; rw [step_heap_same s i (by rw [hpc]; trivial)]; exact hf
  | adv _ _ _ _ _ _ => left; rw [step_heap_same s i (by rw [hpc]; trivial)]; exact hf
  | geq _ _ _ _ => left; rw [step_heap_same s i (by rw [hpc]; trivial)]; exact hf
  | lt _ _ _ => left; rw [step_heap_same s i (by rw [hpc]; trivial)]; exact hf
  | last _ _ => left; rw [step_heap_same s i (by rw [hpc]; trivial)]; exact hf
  | nxt _ => left; rw [step_heap_same s i (by rw [hpc]; trivial)]; exact hf

theorem cas_failure_aux (t nd k idx hh : Nat) (prev : List Nat) (obs : List (Option Nat)) :
    ∀ (r : List Nat) (s : St), SInv s → along step (casWait t nd k idx hh prev obs) s r → freshAt s idx prev obs →
      ¬ freshAt (run s r) idx prev obs →
      ∃ r1 i r2, r = r1 ++ i :: r2 ∧ i ≠ t ∧ casOn (run s r1) i idx (prev.getD idx 0) := by
  intro r
  induction r with
  | nil => intro s _ _ hf hnf; exact absurd hf hnf
  | cons i r ih =>
    intro s hs hal hf hnf
    obtain ⟨hw, hal1⟩ := hal
    have hw1 : casWait t nd k idx hh prev obs (step s i) := by
      cases r with
      | nil => exact hal1
      | cons _ _ => exact hal1.1
    obtain ⟨ids, hinv⟩ := hs
    have hi : i = t → (th s t).pc = .setNext nd k idx hh prev obs := by
      intro e
      subst e
      rcases hw with hw | hw
      · exact hw
      · -- a step from the CAS leaves the waiting interval
        exfalso
        have hlt : i < s.ths.length := th_lt_of_pc (by rw [hw]; simp)
        have : (th (step s i) i).pc ≠ .setNext nd k idx hh prev obs ∧ (th (step s i) i).pc ≠ .cas nd k idx hh prev obs := by
          unfold step; simp only [hw]
          split
          · split
            · rw [th_setPc_pc _ _ _ (by exact hlt)]
              constructor
              · intro e; injection e with _ _ e3; omega
              · intro e; cases e
            · rw [th_setPc_pc _ _ _ (by exact hlt)]
              constructor <;> (intro e; cases e)
          · rw [th_setPc_pc _ _ _ hlt]
            constructor <;> (intro e; cases e)
        rcases hw1 with e | e
        · exact this.1 e
        · exact this.2 e
    rcases fresh_step hinv t nd k idx hh prev obs hw hf i hi with hf1 | ⟨hne, hc⟩
    · obtain ⟨r1, i', r2, e, h1, h2⟩ := ih (step s i) (sinv_step s i ⟨ids, hinv⟩) hal1 hf1 hnf
      exact ⟨i :: r1, i', r2, by rw [e]; rfl, h1, h2⟩
    · exact ⟨[], i, r, rfl, hne, hc⟩

/-- **a failed CAS means another thread made progress**: thread `t` has loaded
    `prev[idx].next[idx] = obs[idx]` (the pointer is `freshAt` in `s`) and is on its way to
    `cas_next(prev[idx], idx, obs[idx], nd)` during the whole run; if at the end the pointer is no
    longer what it loaded (its CAS fails), a step of the run by another thread was a successful CAS
    at the same level on the same predecessor. -/
theorem cas_failure_means_progress {s : St} (h : Reach s) (t nd k idx hh : Nat) (prev : List Nat) (obs : List (Option Nat))
    (r : List Nat) (hwait : along step (casWait t nd k idx hh prev obs) s r) (hfresh : freshAt s idx prev obs)
    (hfail : ¬ freshAt (run s r) idx prev obs) :
    ∃ r1 i r2, r = r1 ++ i :: r2 ∧ i ≠ t ∧ casOn (run s r1) i idx (prev.getD idx 0) :=
  cas_failure_aux t nd k idx hh prev obs r s (reach_minv h) hwait hfresh hfail

/-- the CAS of a waiting thread fails exactly when the pointer is no longer fresh -/
theorem cas_fails_iff (s : St) (t nd k idx hh : Nat) (prev : List Nat) (obs : List (Option Nat))
    (hpc : (th s t).pc = .cas nd k idx hh prev obs) :
    access s t = some (.cas (prev.getD idx 0) idx (obs.getD idx none) nd false) ↔ ¬ freshAt s idx prev obs := by
  unfold access freshAt; rw [hpc]; simp

/-- the load that ends the `'advancing` loop leaves the pointer fresh -/
theorem adv_load_fresh {s : St} (h : Reach s) (t nd k idx hh : Nat) (prev prev' : List Nat) (obs obs' : List (Option Nat))
    (hpc : (th s t).pc = .adv nd k idx hh prev obs)
    (hpc' : (th (step s t) t).pc = .setNext nd k idx hh prev' obs') : freshAt (step s t) idx prev' obs' := by
  obtain ⟨ids, hinv⟩ := reach_minv h
  have hlt : t < s.ths.length := th_lt_of_pc (by rw [hpc]; simp)
  have hP := hinv.pure t
  rw [hpc] at hP
  obtain ⟨hP1, hP2, _, hP4⟩ := hP
  have hol : idx < obs.length := by omega
  have hheap : (step s t).heap = s.heap := step_heap_same s t (by rw [hpc]; trivial)
  unfold freshAt
  rw [hheap]
  unfold step at hpc'
  simp only [hpc] at hpc'
  split at hpc'
  · rw [th_setPc_pc _ _ _ hlt] at hpc'; cases hpc'
  · rw [th_setPc_pc _ _ _ hlt] at hpc'
    injection hpc' with _ _ _ _ e5 e6
    subst e5; subst e6
    rw [getD_set_same _ _ _ _ hol]

end Blue.SkipProgress
