import Blue.Proofs.ApplyCompaction
import Blue.Proofs.StoreHistRefine
/-! # The store's history over the tree the selector and `apply_compaction_inner` work on

`Blue.StoreHist` (memtables, counters, payloads; a `compact` step is any replacement of the tree
meeting the hypothesis bundle `CompactionOk`) and `Blue.NextCompaction.applyCompaction` (the tree
`Version::apply_compaction_inner` builds from the selector's answer; no memtables) composed:

* `treeComps_toKState`: the tree part of the search order of `toKState mem imm t` is `treeComps t`;
* `compactionOk_of_apply`: for the selector's answer `c` on a tree satisfying `Inv`, the step
  `toKState mem imm t ↦ toKState mem imm (applyCompaction t c outs)` meets `CompactionOk` — the
  split, closedness, the placement of the outputs, "level 0 gains nothing" and I1 of the successor
  are PROVED; what remains are the hypotheses on the outputs (`OutsOk`, exactly the inputs'
  versions, "newer above" among themselves);
* a history relation `TOp` whose compaction steps ARE `applyCompaction` / `applyTrivialMove` of
  `nextCompaction` on the current tree and whose flush IS `ingest`, and `store_history_refines`. -/
namespace Blue.StoreHistTree
open Blue.Spec Blue.Kvs Blue.NextCompaction Blue.StoreHist

/-! ## the representation gap -/

/-- **the bridge**: `Blue.StoreHist.treeComps` (level 0 in `l0Order`, then `levels`) of the store
    state holding the tree `t` is `Blue.NextCompaction.treeComps t` (level 0 in `l0Search`, then the
    levels `1 ..`) -/
theorem treeComps_toKState (mem : List (Ver Nat)) (imm : Option (List (Ver Nat))) (t : Tree) :
    Blue.StoreHist.treeComps (toKState mem imm t) = Blue.NextCompaction.treeComps t := by
  have h := allComps_toKState mem imm t
  rw [allComps_eq] at h
  exact List.append_cancel_left h

/-- I1 of the store state from the tree invariant -/
theorem i1_toKState (mem : List (Ver Nat)) (imm : Option (List (Ver Nat))) {t : Tree}
    (hinv : Blue.NextCompaction.Inv t) : I1 (toKState mem imm t) := by
  apply i1_of_check
  unfold Blue.Kvs.tLevels toKState
  dsimp only
  rw [List.map_map, List.all_map, List.all_eq_true]
  intro l hl
  simp only [Function.comp, List.map_map, Bool.and_eq_true, List.all_map, List.all_eq_true]
  rw [kvs_sortedB_iff]
  exact ⟨hinv.sorted l hl, fun f hf => (kvs_wfB_iff f).mpr (hinv.wf l (List.mem_of_mem_tail hl) f hf)⟩

/-- the versions of the inputs of the tagged list are versions of input files of the tree -/
theorem inputs_tagTree_mem {t : Tree} {c : Core} {e : Ver Nat} (he : e ∈ (inputs (tagTree t c)).flatten) :
    ∃ i f, f ∈ level t i ∧ f.id ∈ c.inputs ∧ e ∈ f.vers := by
  obtain ⟨vs, hvs, hev⟩ := List.mem_flatten.mp he
  unfold inputs tagTree tagIds at hvs
  obtain ⟨x, hx, rfl⟩ := List.mem_map.mp hvs
  obtain ⟨hx1, hx2⟩ := List.mem_filter.mp hx
  obtain ⟨ys, hys, hxy⟩ := List.mem_flatten.mp hx1
  obtain ⟨l, hl, rfl⟩ := List.mem_map.mp hys
  obtain ⟨f, hf, rfl⟩ := List.mem_map.mp hxy
  obtain ⟨_, hmem⟩ := mem_numLevels hl
  refine ⟨l.1, f, (hmem f).mp hf, ?_, hev⟩
  simpa using hx2

/-- **"exactly the inputs' versions"** in terms of the files of the tree -/
theorem same_versions {t : Tree} {c : Core} {outs : List File} (hinv : Blue.NextCompaction.Inv t) (hc : Chosen t c)
    (hsub : ∀ o ∈ outs, ∀ e ∈ o.vers, ∃ i f, f ∈ level t i ∧ f.id ∈ c.inputs ∧ e ∈ f.vers)
    (hsup : ∀ i f, f ∈ level t i → f.id ∈ c.inputs → ∀ e ∈ f.vers, ∃ o ∈ outs, e ∈ o.vers) :
    ∀ e, e ∈ (comps outs).flatten ↔ e ∈ (inputs (tagTree t c)).flatten := by
  intro e
  constructor
  · intro he
    obtain ⟨vs, hvs, hev⟩ := List.mem_flatten.mp he
    obtain ⟨o, ho, rfl⟩ := List.mem_map.mp hvs
    obtain ⟨i, f, hf, hid, hef⟩ := hsub o ho e hev
    exact List.mem_flatten.mpr ⟨f.vers, mem_inputs_tagTree hf (hc.input_at hinv hf hid).2.1 hid, hef⟩
  · intro he
    obtain ⟨i, f, hf, hid, hef⟩ := inputs_tagTree_mem he
    obtain ⟨o, ho, heo⟩ := hsup i f hf hid e hef
    exact List.mem_flatten.mpr ⟨o.vers, List.mem_map.mpr ⟨o, ho, rfl⟩, heo⟩

/-- decidable form of "every input version is in an output" (for concrete instances) -/
theorem sup_of_flatten {t : Tree} {c : Core} {outs : List File}
    (h : ∀ f ∈ t.flatten, f.id ∈ c.inputs → ∀ e ∈ f.vers, ∃ x ∈ outs, e ∈ x.vers) :
    ∀ i f, f ∈ level t i → f.id ∈ c.inputs → ∀ e ∈ f.vers, ∃ x ∈ outs, e ∈ x.vers :=
  fun i f hf hid e he => h f (mem_flatten_level.mpr ⟨i, hf⟩) hid e he

/-! ## the compaction step of the history model, discharged for `apply_compaction_inner` -/

/-- **`CompactionOk` for `applyCompaction` on any compaction meeting `Chosen`** -/
theorem compactionOk_of_chosen (mem : List (Ver Nat)) (imm : Option (List (Ver Nat))) {t : Tree} {c : Core}
    {outs : List File} (hinv : Blue.NextCompaction.Inv t) (hc : Chosen t c) (ho : OutsOk t c outs)
    (hsub : ∀ o ∈ outs, ∀ e ∈ o.vers, ∃ i f, f ∈ level t i ∧ f.id ∈ c.inputs ∧ e ∈ f.vers)
    (hsup : ∀ i f, f ∈ level t i → f.id ∈ c.inputs → ∀ e ∈ f.vers, ∃ o ∈ outs, e ∈ o.vers)
    (hnew : NewerAbove (comps outs)) :
    CompactionOk (toKState mem imm t) (toKState mem imm (applyCompaction t c outs)) := by
  have hlv := hc.levels
  have hs := hinv.sorted_level (i := c.upper) (by omega)
  have hw := hinv.wf_level c.upper
  refine .mk (tagTree t c) (belowComps t c.upper) (comps outs) (aboveComps t c ++ beforeComps t c) (afterComps t c)
    rfl rfl ?_ hc.closed (same_versions hinv hc hsub hsup) hnew ?_ ?_ ?_ ?_ ?_
  · rw [treeComps_toKState]; exact treeComps_split t c hc.upper_lt
  · exact kept_tagTree hinv hc
  · intro x hx y hy a ha b hb hk
    unfold afterComps comps at hx
    obtain ⟨g, hg, rfl⟩ := List.mem_map.mp hx
    obtain ⟨o, ho', rfl⟩ := List.mem_map.mp hy
    obtain ⟨g1, g2⟩ := (mem_drop_ub hs hw c.last).mp hg
    have h5 : g.first ≤ a.1 := ((hinv.wfT g1).2 a ha).1
    have := ((ho.wf o ho').2 b hb).2
    have := (ho.inside o ho').2
    omega
  · rw [treeComps_toKState, apply_components hinv hc outs]
  · intro g hg
    show g ∈ (level t 0).map toK
    have hg' : g ∈ (level (applyCompaction t c outs) 0).map toK := hg
    rw [level_apply_above hinv hc outs (by omega : 0 < c.upper)] at hg'
    obtain ⟨f, hf, rfl⟩ := List.mem_map.mp hg'
    exact List.mem_map.mpr ⟨f, (mem_dropInputs.mp hf).1, rfl⟩
  · exact i1_toKState mem imm (apply_preserves_inv hinv hc ho)

/-- **`compactionOk_of_apply`**: the successor `apply_compaction_inner` builds from an answer of the
    selector, under the same memtables, is a compaction step of the history model.  Of the bundle
    `CompactionOk`, `hsplit` / `hclosed` / `hkept` / `hdis` / `hplace` / `hl0` / `hI1` are proved
    here; the hypotheses left are about the outputs only. -/
theorem compactionOk_of_apply (n : Num) (o : Opts) (og : List Core) (mem : List (Ver Nat)) (imm : Option (List (Ver Nat)))
    {t : Tree} {c : Core} {outs : List File} (hinv : Blue.NextCompaction.Inv t)
    (hsel : nextCompaction n o t og = some c) (ho : OutsOk t c outs)
    (hsub : ∀ o ∈ outs, ∀ e ∈ o.vers, ∃ i f, f ∈ level t i ∧ f.id ∈ c.inputs ∧ e ∈ f.vers)
    (hsup : ∀ i f, f ∈ level t i → f.id ∈ c.inputs → ∀ e ∈ f.vers, ∃ o ∈ outs, e ∈ o.vers)
    (hnew : NewerAbove (comps outs)) :
    CompactionOk (toKState mem imm t) (toKState mem imm (applyCompaction t c outs)) :=
  compactionOk_of_chosen mem imm hinv (nextCompaction_chosen n o t og hinv hsel) ho hsub hsup hnew

/-- the moving compaction (`apply_moving_compaction`): nothing at all is left to assume -/
theorem compactionOk_of_move (n : Num) (o : Opts) (og : List Core) (mem : List (Ver Nat)) (imm : Option (List (Ver Nat)))
    {t : Tree} {c : Core} {l : Nat} {f : File} (hinv : Blue.NextCompaction.Inv t)
    (hsel : nextCompaction n o t og = some c) (hf : f ∈ level t l) (hone : c.inputs = [f.id]) :
    CompactionOk (toKState mem imm t) (toKState mem imm (applyTrivialMove t c f)) := by
  have hc := nextCompaction_chosen n o t og hinv hsel
  obtain ⟨h1, h2, h3⟩ := move_outs_ok hinv hc hf hone
  refine compactionOk_of_chosen mem imm hinv hc h1 h2 ?_ h3
  intro i g hg hid e he
  rw [hone, List.mem_singleton] at hid
  obtain ⟨_, rfl⟩ := hinv.ids_unique hg hf hid
  exact ⟨g, List.mem_singleton.mpr rfl, he⟩

/-! ## the composed history: one state, one step relation -/

/-- the store: memtables and counters as in `Blue.StoreHist`, the tree as in `Blue.NextCompaction` -/
structure TState where
  mem : List (Ver Nat)
  imm : Option (List (Ver Nat))
  tree : Tree
  seq : Nat
  vis : Nat
  pay : Nat → Nat → Option Payload

/-- the state of the history model `Blue.StoreHist` this state is: the dumped-state record is
    `toKState` of the memtables and the tree -/
def TState.toH (s : TState) : HState := ⟨toKState s.mem s.imm s.tree, s.seq, s.vis, s.pay⟩

/-- the empty store over a version with `k + 1` empty levels (`ingest` needs a level 0) -/
def tinit (k : Nat) : TState := ⟨[], none, emptyTree (k + 1), 0, 0, fun _ _ => none⟩

inductive TOp where
  | write (batch : List (Nat × Payload))
  | rollover
  /-- the flush of the immutable memtable; `id`, `size`: setsum and file size of the table written -/
  | flush (id size : Nat)
  /-- `next_compaction` on the current tree with the compactions `og` in flight, the merge writing
      `outs`, `apply_compaction_inner` -/
  | compactSel (n : Num) (o : Opts) (og : List Core) (outs : List File)
  /-- `next_compaction` answering a compaction with one input: `apply_moving_compaction` -/
  | moveSel (n : Num) (o : Opts) (og : List Core)

/-- the table a flush writes, as a file of the tree (metadata as `Blue.StoreHist.flushFile`) -/
def flushFileT (id size : Nat) (i : List (Ver Nat)) : File :=
  ⟨id, Blue.StoreHist.minKey i, Blue.StoreHist.maxKey i, size, maxTs i, i⟩

/-- the one input of a moving compaction -/
def moveFile (t : Tree) (c : Core) : Option File := t.flatten.find? (fun f => decide (c.inputs = [f.id]))

/-- one completed operation.  Nothing about the successor tree is a parameter: a compaction step is
    `applyCompaction` of what `nextCompaction` answers on the CURRENT tree, a flush is `ingest`. -/
def tapply (s : TState) : TOp → TState
  | .write b =>
    if batchOk b then
      { s with mem := b.map (fun e => (e.1, s.seq + 1)) ++ s.mem, seq := s.seq + 1, vis := s.seq + 1,
               pay := fun k t => if t = s.seq + 1 then List.lookup k b else s.pay k t }
    else s
  | .rollover =>
    match s.imm with
    | none => { s with mem := [], imm := some s.mem, seq := s.seq + 1 }
    | some _ => s
  | .flush id size =>
    match s.imm with
    | none => s
    | some [] => { s with imm := none }
    | some (v :: i) => { s with imm := none, tree := ingest s.tree (flushFileT id size (v :: i)) }
  | .compactSel n o og outs =>
    match nextCompaction n o s.tree og with
    | none => s
    | some c => { s with tree := applyCompaction s.tree c outs }
  | .moveSel n o og =>
    match nextCompaction n o s.tree og with
    | none => s
    | some c =>
      match moveFile s.tree c with
      | none => s
      | some f => { s with tree := applyTrivialMove s.tree c f }

/-- **what is left to assume of a step**: the id of a flushed table is fresh; the outputs of a merge
    are well-formed, sorted, inside the key range, with fresh ids (`OutsOk`), hold exactly the
    inputs' versions and are "newer above" among themselves.  Nothing about placement. -/
def TOpOk (s : TState) : TOp → Prop
  | .flush id _ => ∀ v i, s.imm = some (v :: i) → ∀ l g, g ∈ level s.tree l → g.id ≠ id
  | .compactSel n o og outs => ∀ c, nextCompaction n o s.tree og = some c →
      OutsOk s.tree c outs
      ∧ (∀ x ∈ outs, ∀ e ∈ x.vers, ∃ i f, f ∈ level s.tree i ∧ f.id ∈ c.inputs ∧ e ∈ f.vers)
      ∧ (∀ i f, f ∈ level s.tree i → f.id ∈ c.inputs → ∀ e ∈ f.vers, ∃ x ∈ outs, e ∈ x.vers)
      ∧ NewerAbove (comps outs)
  | _ => True

def TValid : TState → List TOp → Prop
  | _, [] => True
  | s, op :: ops => TOpOk s op ∧ TValid (tapply s op) ops

def trun (s : TState) (ops : List TOp) : TState := ops.foldl tapply s

/-- the operation of `Blue.StoreHist` a step is, as far as the specification (`specStep`,
    `lastWrite`: accepted writes only) looks at it -/
def toOp : TOp → Op
  | .write b => .write b
  | .rollover => .rollover
  | .flush _ _ => .flush
  | .compactSel _ _ _ _ => .compact [] []
  | .moveSel _ _ _ => .compact [] []

def trunSpec : TState → SpecMap → List TOp → SpecMap
  | _, m, [] => m
  | s, m, op :: ops => trunSpec (tapply s op) (specStep m (s.seq + 1) (toOp op)) ops

/-- the specification (key ↦ sequence number and payload of its last accepted write) after `ops`
    from the empty store -/
def tspec (k : Nat) (ops : List TOp) : SpecMap := trunSpec (tinit k) (fun _ => none) ops

/-- both invariants: that of the history model on `toH` (I1, I2 over memtables and tree, counters,
    level-0 metadata), the tree invariant the selector relies on (ids distinct included), and a
    level 0 to flush into -/
structure TInv (s : TState) : Prop where
  hist : Blue.StoreHist.Inv s.toH
  tree : Blue.NextCompaction.Inv s.tree
  ne : s.tree ≠ []

/-! ### equations of `tapply` -/

theorem toH_write (s : TState) (b : List (Nat × Payload)) :
    (tapply s (.write b)).toH = apply s.toH (.write b) ∧ (tapply s (.write b)).tree = s.tree := by
  cases hb : batchOk b with
  | true =>
    rw [tapply.eq_1, if_pos hb, apply_write_ok s.toH b hb]
    exact ⟨rfl, rfl⟩
  | false =>
    rw [tapply.eq_1, if_neg (by rw [hb]; exact Bool.false_ne_true), apply_write_bad s.toH b hb]
    exact ⟨rfl, rfl⟩

theorem tapply_rollover_none (s : TState) (hi : s.imm = none) :
    tapply s .rollover = { s with mem := [], imm := some s.mem, seq := s.seq + 1 } := by
  rw [tapply.eq_2]; simp only [hi]

theorem tapply_rollover_some (s : TState) {i : List (Ver Nat)} (hi : s.imm = some i) : tapply s .rollover = s := by
  rw [tapply.eq_2]; simp only [hi]

theorem toH_rollover (s : TState) :
    (tapply s .rollover).toH = apply s.toH .rollover ∧ (tapply s .rollover).tree = s.tree := by
  cases hi : s.imm with
  | none =>
    rw [tapply_rollover_none s hi, apply_rollover_none s.toH hi]
    exact ⟨rfl, rfl⟩
  | some i =>
    rw [tapply_rollover_some s hi, apply_rollover_some s.toH hi]
    exact ⟨rfl, rfl⟩

theorem tapply_flush_none (s : TState) (id size : Nat) (hi : s.imm = none) : tapply s (.flush id size) = s := by
  rw [tapply.eq_3]; simp only [hi]

theorem tapply_flush_nil (s : TState) (id size : Nat) (hi : s.imm = some []) :
    tapply s (.flush id size) = { s with imm := none } := by
  rw [tapply.eq_3]; simp only [hi]

theorem tapply_flush_cons (s : TState) (id size : Nat) {v : Ver Nat} {i : List (Ver Nat)} (hi : s.imm = some (v :: i)) :
    tapply s (.flush id size) = { s with imm := none, tree := ingest s.tree (flushFileT id size (v :: i)) } := by
  rw [tapply.eq_3]; simp only [hi]

theorem tapply_compact_none (s : TState) (n : Num) (o : Opts) (og : List Core) (outs : List File)
    (h : nextCompaction n o s.tree og = none) : tapply s (.compactSel n o og outs) = s := by
  rw [tapply.eq_4]; simp only [h]

theorem tapply_compact_some (s : TState) (n : Num) (o : Opts) (og : List Core) (outs : List File) {c : Core}
    (h : nextCompaction n o s.tree og = some c) :
    tapply s (.compactSel n o og outs) = { s with tree := applyCompaction s.tree c outs } := by
  rw [tapply.eq_4]; simp only [h]

theorem tapply_move_none (s : TState) (n : Num) (o : Opts) (og : List Core)
    (h : nextCompaction n o s.tree og = none) : tapply s (.moveSel n o og) = s := by
  rw [tapply.eq_5]; simp only [h]

theorem tapply_move_nofile (s : TState) (n : Num) (o : Opts) (og : List Core) {c : Core}
    (h : nextCompaction n o s.tree og = some c) (hf : moveFile s.tree c = none) : tapply s (.moveSel n o og) = s := by
  rw [tapply.eq_5]; simp only [h, hf]

theorem tapply_move_some (s : TState) (n : Num) (o : Opts) (og : List Core) {c : Core} {f : File}
    (h : nextCompaction n o s.tree og = some c) (hf : moveFile s.tree c = some f) :
    tapply s (.moveSel n o og) = { s with tree := applyTrivialMove s.tree c f } := by
  rw [tapply.eq_5]; simp only [h, hf]

/-! ### the flushed table -/

theorem foldr_min_le (d : Nat) : ∀ (c : List (Ver Nat)), ∀ v ∈ c, c.foldr (fun v m => min v.1 m) d ≤ v.1
  | [], _, h => by cases h
  | w :: c, v, h => by
    rcases List.mem_cons.mp h with rfl | h'
    · exact Nat.min_le_left _ _
    · exact Nat.le_trans (Nat.min_le_right _ _) (foldr_min_le d c v h')

theorem le_foldr_max : ∀ (c : List (Ver Nat)), ∀ v ∈ c, v.1 ≤ c.foldr (fun v m => max v.1 m) 0
  | [], _, h => by cases h
  | w :: c, v, h => by
    rcases List.mem_cons.mp h with rfl | h'
    · exact Nat.le_max_left _ _
    · exact Nat.le_trans (le_foldr_max c v h') (Nat.le_max_right _ _)

theorem flushFileT_wf (id size : Nat) (v : Ver Nat) (i : List (Ver Nat)) :
    (flushFileT id size (v :: i)).first ≤ (flushFileT id size (v :: i)).last
      ∧ ∀ w ∈ (flushFileT id size (v :: i)).vers,
          (flushFileT id size (v :: i)).first ≤ w.1 ∧ w.1 ≤ (flushFileT id size (v :: i)).last := by
  have h1 : ∀ w ∈ v :: i, Blue.StoreHist.minKey (v :: i) ≤ w.1 := foldr_min_le _ (v :: i)
  have h2 : ∀ w ∈ v :: i, w.1 ≤ Blue.StoreHist.maxKey (v :: i) := le_foldr_max (v :: i)
  refine ⟨Nat.le_trans (h1 v List.mem_cons_self) (h2 v List.mem_cons_self), fun w hw => ⟨h1 w hw, h2 w hw⟩⟩

/-! ### one step -/

theorem tinv_of_toH {s s' : TState} (e : s'.toH = apply s.toH (toOp op)) (et : s'.tree = s.tree)
    (ok : OpOk s.toH (toOp op)) {m : SpecMap} (inv : TInv s) (r : Rel s.toH m) :
    TInv s' ∧ Rel s'.toH (specStep m (s.seq + 1) (toOp op)) := by
  refine ⟨⟨?_, ?_, ?_⟩, ?_⟩
  · rw [e]; exact inv_step _ _ ok inv.hist
  · rw [et]; exact inv.tree
  · rw [et]; exact inv.ne
  · rw [e]; exact rel_step s.toH (toOp op) m ok inv.hist r

/-- a compaction step whose successor tree is `t'` -/
theorem tstep_tree {s : TState} {t' : Tree} {op : TOp} (hop : toOp op = .compact [] [])
    (ok : CompactionOk (toKState s.mem s.imm s.tree) (toKState s.mem s.imm t'))
    (hinv' : Blue.NextCompaction.Inv t') (hlen : t'.length = s.tree.length)
    {m : SpecMap} (inv : TInv s) (r : Rel s.toH m) :
    TInv { s with tree := t' } ∧ Rel ({ s with tree := t' } : TState).toH (specStep m (s.seq + 1) (toOp op)) := by
  have e : ({ s with tree := t' } : TState).toH
      = apply s.toH (.compact ((level t' 0).map toK) (t'.tail.map (fun l => l.map toK))) := rfl
  have ok' : OpOk s.toH (.compact ((level t' 0).map toK) (t'.tail.map (fun l => l.map toK))) := ok
  rw [hop]
  refine ⟨⟨?_, hinv', ?_⟩, ?_⟩
  · rw [e]; exact inv_step _ _ ok' inv.hist
  · intro h0
    have := inv.ne
    show False
    have h0' : t' = [] := h0
    have hl : t'.length = 0 := by rw [h0']; rfl
    rw [hlen] at hl
    exact this (List.eq_nil_of_length_eq_zero hl)
  · rw [e]; exact rel_step s.toH _ m ok' inv.hist r

theorem tstep (s : TState) (op : TOp) (m : SpecMap) (ok : TOpOk s op) (inv : TInv s) (r : Rel s.toH m) :
    TInv (tapply s op) ∧ Rel (tapply s op).toH (specStep m (s.seq + 1) (toOp op)) := by
  cases op with
  | write b => exact tinv_of_toH (op := .write b) (toH_write s b).1 (toH_write s b).2 trivial inv r
  | rollover => exact tinv_of_toH (op := .rollover) (toH_rollover s).1 (toH_rollover s).2 trivial inv r
  | flush id size =>
    cases hi : s.imm with
    | none => rw [tapply_flush_none s id size hi]; exact ⟨inv, r⟩
    | some i0 =>
    have hi' : s.toH.st.imm = some i0 := hi
    cases i0 with
    | nil =>
      rw [tapply_flush_nil s id size hi]
      refine tinv_of_toH (s := s) (s' := { s with imm := none }) (op := .flush id size) ?_ rfl trivial inv r
      show _ = apply s.toH .flush
      rw [apply_flush_nil s.toH hi']; rfl
    | cons v i =>
      rw [tapply_flush_cons s id size hi]
      obtain ⟨mem, imm, tree, seq, vis, pay⟩ := s
      cases tree with
      | nil => exact absurd rfl inv.ne
      | cons l0 rest =>
      dsimp only at hi hi' ok ⊢
      subst hi
      -- the state of the history model after ITS flush: level 0 is a permutation of ours
      have hH := inv_flush _ inv.hist
      rw [apply_flush_cons _ hi'] at hH
      have hbts : ∀ g ∈ l0, g.bts < (flushFileT id size (v :: i)).bts := by
        intro g hg
        exact flush_bts inv.hist hi' (toK g) (List.mem_map.mpr ⟨g, hg, rfl⟩)
      have e0 : allComps (toKState mem (some (v :: i)) (l0 :: rest))
          = mem :: (v :: i) :: Blue.NextCompaction.treeComps (l0 :: rest) := by
        rw [allComps_imm_some _ rfl, treeComps_toKState]; rfl
      have e1 : allComps (toKState mem none (ingest (l0 :: rest) (flushFileT id size (v :: i))))
          = allComps (toKState mem (some (v :: i)) (l0 :: rest)) := by
        rw [e0, allComps_imm_none _ rfl, treeComps_toKState, treeComps_ingest l0 rest _ hbts]; rfl
      have e2 : allComps (flushSt (TState.toH ⟨mem, some (v :: i), l0 :: rest, seq, vis, pay⟩) (v :: i)).st
          = allComps (toKState mem (some (v :: i)) (l0 :: rest)) := allComps_flush inv.hist hi'
      have hl0 : ∀ g ∈ (toKState mem none (ingest (l0 :: rest) (flushFileT id size (v :: i)))).l0,
          g ∈ (flushSt (TState.toH ⟨mem, some (v :: i), l0 :: rest, seq, vis, pay⟩) (v :: i)).st.l0 := by
        intro g hg
        have hg' : g ∈ (l0 ++ [flushFileT id size (v :: i)]).map toK := hg
        show g ∈ flushFile (v :: i) :: l0.map toK
        rw [List.map_append, List.mem_append] at hg'
        rcases hg' with hg' | hg'
        · exact List.mem_cons_of_mem _ hg'
        · simp only [List.map_cons, List.map_nil, List.mem_singleton] at hg'
          rw [hg']; exact List.mem_cons_self
      have htree := ingest_preserves_inv inv.tree (flushFileT_wf id size v i)
        (fun l g hg => ok v i rfl l g hg)
      refine ⟨⟨⟨?_, ?_, hH.vis_le, ?_, ?_, ?_, ?_⟩, htree, ?_⟩, ?_⟩
      · exact i1_toKState _ _ htree
      · show NewerAbove (allComps (toKState mem none (ingest (l0 :: rest) (flushFileT id size (v :: i)))))
        rw [e1, ← e2]; exact hH.i2
      · intro w hw
        have hw' : w ∈ (allComps (toKState mem none (ingest (l0 :: rest) (flushFileT id size (v :: i))))).flatten := hw
        rw [e1, ← e2] at hw'
        exact hH.ts_le w hw'
      · intro i' hi''; cases hi''
      · intro g hg; exact hH.bts_le g (hl0 g hg)
      · intro g hg c hc a ha; exact hH.bts_lt g (hl0 g hg) c hc a ha
      · intro h0; cases h0
      · refine Rel.of_same (h := TState.toH ⟨mem, some (v :: i), l0 :: rest, seq, vis, pay⟩) ?_ rfl r
        intro e
        show e ∈ (allComps (toKState mem none (ingest (l0 :: rest) (flushFileT id size (v :: i))))).flatten ↔
          e ∈ (allComps (toKState mem (some (v :: i)) (l0 :: rest))).flatten
        rw [e1]
  | compactSel n o og outs =>
    cases hsel : nextCompaction n o s.tree og with
    | none => rw [tapply_compact_none s n o og outs hsel]; exact ⟨inv, r⟩
    | some c =>
      rw [tapply_compact_some s n o og outs hsel]
      obtain ⟨h1, h2, h3, h4⟩ := ok c hsel
      exact tstep_tree (op := .compactSel n o og outs) rfl
        (compactionOk_of_apply n o og s.mem s.imm inv.tree hsel h1 h2 h3 h4)
        (apply_preserves_inv inv.tree (nextCompaction_chosen n o s.tree og inv.tree hsel) h1)
        (length_apply _ _ _) inv r
  | moveSel n o og =>
    cases hsel : nextCompaction n o s.tree og with
    | none => rw [tapply_move_none s n o og hsel]; exact ⟨inv, r⟩
    | some c =>
      cases hmf : moveFile s.tree c with
      | none => rw [tapply_move_nofile s n o og hsel hmf]; exact ⟨inv, r⟩
      | some f =>
        rw [tapply_move_some s n o og hsel hmf]
        have hfm : f ∈ s.tree.flatten := List.mem_of_find?_eq_some hmf
        have hone : c.inputs = [f.id] := by
          have := List.find?_some hmf
          exact of_decide_eq_true this
        obtain ⟨l, hfl⟩ := mem_flatten_level.mp hfm
        have hc := nextCompaction_chosen n o s.tree og inv.tree hsel
        exact tstep_tree (op := .moveSel n o og) rfl
          (compactionOk_of_move n o og s.mem s.imm inv.tree hsel hfl hone)
          (apply_preserves_inv inv.tree hc (move_outs_ok inv.tree hc hfl hone).1)
          (length_apply _ _ _) inv r

/-! ### histories -/

theorem trun_cons (s : TState) (op : TOp) (ops : List TOp) : trun s (op :: ops) = trun (tapply s op) ops := rfl

theorem trun_inv_rel : ∀ (ops : List TOp) (s : TState) (m : SpecMap), TValid s ops → TInv s → Rel s.toH m →
    TInv (trun s ops) ∧ Rel (trun s ops).toH (trunSpec s m ops)
  | [], _, _, _, inv, r => ⟨inv, r⟩
  | op :: ops, s, m, hv, inv, r => by
    rw [trun_cons, trunSpec]
    obtain ⟨i', r'⟩ := tstep s op m hv.1 inv r
    exact trun_inv_rel ops (tapply s op) _ hv.2 i' r'

theorem allComps_tinit (k : Nat) : allComps (tinit k).toH.st = [[]] := by
  show allComps (toKState [] none (emptyTree (k + 1))) = [[]]
  rw [allComps_toKState, treeComps_emptyTree]; rfl

theorem tinv_init (k : Nat) : TInv (tinit k) := by
  refine ⟨⟨i1_toKState _ _ (emptyTree_inv _), ?_, Nat.le_refl _, ?_, ?_, ?_, ?_⟩, emptyTree_inv _, ?_⟩
  · rw [allComps_tinit]; exact ⟨fun _ _ d hd => (by cases hd), trivial⟩
  · intro v hv; rw [allComps_tinit] at hv; simp at hv
  · intro i hi; cases hi
  · intro g hg
    have hg' : g ∈ (level (emptyTree (k + 1)) 0).map toK := hg
    rw [level_emptyTree] at hg'; cases hg'
  · intro g hg
    have hg' : g ∈ (level (emptyTree (k + 1)) 0).map toK := hg
    rw [level_emptyTree] at hg'; cases hg'
  · intro h; cases h

theorem rel_tinit (k : Nat) : Rel (tinit k).toH (fun _ => none) := by
  refine ⟨?_, ?_⟩
  · intro key _ e he; rw [allComps_tinit] at he; simp at he
  · intro key ts p hk; cases hk

theorem trunSpec_payload : ∀ (ops : List TOp) (s : TState) (m : SpecMap) (k : Nat),
    (trunSpec s m ops k).map (·.2) = (ops.map toOp).foldl valStep (fun k => (m k).map (·.2)) k
  | [], _, _, _ => rfl
  | op :: ops, s, m, k => by
    rw [trunSpec, List.map_cons, List.foldl_cons, ← valStep_of_specStep m (s.seq + 1) (toOp op)]
    exact trunSpec_payload ops (tapply s op) _ k

/-- both invariants hold in every state reached -/
theorem store_history_invariant (k : Nat) (ops : List TOp) (hv : TValid (tinit k) ops) : TInv (trun (tinit k) ops) :=
  (trun_inv_rel ops (tinit k) _ hv (tinv_init k) (rel_tinit k)).1

theorem store_history_rel (k : Nat) (ops : List TOp) (hv : TValid (tinit k) ops) :
    Rel (trun (tinit k) ops).toH (tspec k ops) :=
  (trun_inv_rel ops (tinit k) _ hv (tinv_init k) (rel_tinit k)).2

/-- **store_history_refines**: after ANY list of writes, rollovers, flushes (= `ingest`), compactions
    (= `applyCompaction` of the selector's answer on the current tree) and moving compactions from
    the empty store, the point-read model on the state holding the memtables and the tree returns,
    at the published sequence number or later, the version of the last accepted write naming the
    key; the payload map gives its value or tombstone; both invariants hold. -/
theorem store_history_refines (k : Nat) (ops : List TOp) (hv : TValid (tinit k) ops) (key t : Nat)
    (ht : (trun (tinit k) ops).vis ≤ t) :
    kvsLoad (toKState (trun (tinit k) ops).mem (trun (tinit k) ops).imm (trun (tinit k) ops).tree) key t
        = (tspec k ops key).map (fun e => (key, e.1))
    ∧ (∀ ts p, tspec k ops key = some (ts, p) → (trun (tinit k) ops).pay key ts = some p)
    ∧ TInv (trun (tinit k) ops) :=
  ⟨kvsLoad_of_rel (store_history_invariant k ops hv).hist (store_history_rel k ops hv) key t ht,
   fun ts p hk => ((store_history_rel k ops hv).present key ts p hk).2.2,
   store_history_invariant k ops hv⟩

/-- the answer of `load`, as payload, is the payload of the last accepted write of the history -/
theorem store_history_reads_last_write (k : Nat) (ops : List TOp) (hv : TValid (tinit k) ops) (key : Nat) :
    read (trun (tinit k) ops).toH key = lastWrite (ops.map toOp) key := by
  rw [read_of_rel (store_history_invariant k ops hv).hist (store_history_rel k ops hv) key]
  exact trunSpec_payload ops (tinit k) (fun _ => none) key

/-- every reached state passes the decidable check of the correspondence run, and its tree
    satisfies the selector's invariant -/
theorem store_history_invB (k : Nat) (ops : List TOp) (hv : TValid (tinit k) ops) :
    invB (toKState (trun (tinit k) ops).mem (trun (tinit k) ops).imm (trun (tinit k) ops).tree) = true
    ∧ Blue.NextCompaction.Inv (trun (tinit k) ops).tree :=
  ⟨invB_of_inv (store_history_invariant k ops hv).hist, (store_history_invariant k ops hv).tree⟩

end Blue.StoreHistTree

#print axioms Blue.StoreHistTree.treeComps_toKState
#print axioms Blue.StoreHistTree.compactionOk_of_apply
#print axioms Blue.StoreHistTree.compactionOk_of_move
#print axioms Blue.StoreHistTree.store_history_refines
#print axioms Blue.StoreHistTree.store_history_reads_last_write
#print axioms Blue.StoreHistTree.store_history_invB
