import Blue.Proofs.LogTrunc
/-! **C09 (log)**: what is read before the first damaged byte is read identically; a damaged
    payload is an error as soon as the checksum notices. -/
namespace Blue.Log
variable {P : Params}

theorem get_take (file : List Nat) (n i : Nat) (h : i < n) : (file.take n)[i]? = file[i]? := by
  rw [List.getElem?_take, if_pos h]

theorem slice_take' (file : List Nat) (n off k : Nat) (h : off + k ≤ n) :
    slice (file.take n) off k = slice file off k := by
  unfold slice
  rw [List.drop_take, List.take_take]
  congr 1
  omega

theorem trueUp_ge (hB : 0 < P.B) (off : Nat) : off ≤ trueUp P off := by
  unfold trueUp nextBoundary
  split
  · exact Nat.le_refl _
  · have := Nat.div_add_mod' off P.B
    have hml := Nat.mod_lt off hB
    rw [Nat.add_mul, Nat.one_mul]; omega

/-- a header read that ends at or before `n` is the same on the file cut at `n` -/
theorem nextHeader_take_conv (hB : 0 < P.B) (file : List Nat) (n : Nat) :
    ∀ (fuel off : Nat) (r : Hdr × Nat), nextHeader P file fuel off = .ok r → r.2 ≤ n →
      nextHeader P (file.take n) fuel off = .ok r ∧ off < r.2 := by
  intro fuel
  induction fuel with
  | zero => intro off r h; simp [nextHeader] at h
  | succ f ih =>
    intro off r h hn
    rw [nextHeader_succ] at h ⊢
    cases hx : file[off]? with
    | none => rw [hx] at h; cases h
    | some hsz =>
      rw [hx] at h
      simp only at h
      by_cases h0 : hsz = 0
      · rw [if_pos h0] at h
        by_cases ht : trueUp P (off + 1) - (off + 1) > P.H
        · rw [if_pos ht] at h; cases h
        · rw [if_neg ht] at h
          cases hp : padZero file (off + 1) (trueUp P (off + 1)) with
          | false => rw [hp] at h; simp only [Bool.not_false, if_true] at h; cases h
          | true =>
            rw [hp] at h
            simp only [Bool.not_true, Bool.false_eq_true, if_false] at h
            -- the recursive read starts at or after `off + 1`
            have htu : off + 1 ≤ trueUp P (off + 1) := trueUp_ge hB (off + 1)
            obtain ⟨ih1, ih2⟩ := ih _ r h hn
            have hoff : off < n := by omega
            rw [get_take file n off hoff, hx]
            simp only
            rw [if_pos h0, if_neg ht, padZero_take file n (off + 1) _ (by omega), hp]
            simp only [Bool.not_true, Bool.false_eq_true, if_false]
            exact ⟨ih1, by omega⟩
      · rw [if_neg h0] at h
        by_cases h1 : hsz > P.H
        · rw [if_pos h1] at h; cases h
        · rw [if_neg h1] at h
          by_cases h2 : off + 1 + hsz > file.length
          · rw [if_pos h2] at h; cases h
          · rw [if_neg h2] at h
            cases hd : P.decH (slice file (off + 1) hsz) with
            | none => rw [hd] at h; cases h
            | some hdr =>
              rw [hd] at h
              simp only at h
              by_cases h3 : hdr.size > P.tableFull
              · rw [if_pos h3] at h; cases h
              · rw [if_neg h3] at h
                cases h
                simp only at hn
                have hoff : off < n := by omega
                rw [get_take file n off hoff, hx]
                simp only
                rw [if_neg h0, if_neg h1]
                have hlen : (file.take n).length = min n file.length := List.length_take
                rw [if_neg (by rw [hlen]; omega)]
                rw [slice_take' file n (off + 1) hsz (by omega), hd]
                simp only
                rw [if_neg h3]
                exact ⟨rfl, by omega⟩

theorem nextFrame_take_conv (hB : 0 < P.B) (file : List Nat) (n fuel off : Nat) (r : Hdr × List Nat × Nat)
    (h : nextFrame P file fuel off = .ok r) (hn : r.2.2 ≤ n) :
    nextFrame P (file.take n) fuel off = .ok r ∧ off < r.2.2 := by
  unfold nextFrame at h ⊢
  cases hh : nextHeader P file fuel off with
  | eof => rw [hh] at h; cases h
  | err => rw [hh] at h; cases h
  | ok hr =>
    obtain ⟨hd, off'⟩ := hr
    rw [hh] at h
    simp only at h
    by_cases h1 : off' + hd.size > file.length
    · rw [if_pos h1] at h; cases h
    · rw [if_neg h1] at h
      by_cases h2 : P.crc (slice file off' hd.size) ≠ hd.crc
      · rw [if_pos h2] at h; cases h
      · rw [if_neg h2] at h
        cases h
        simp only at hn
        obtain ⟨hc1, hc2⟩ := nextHeader_take_conv hB file n fuel off (hd, off') hh (by simp only; omega)
        rw [hc1]
        simp only
        have hlen : (file.take n).length = min n file.length := List.length_take
        rw [if_neg (by rw [hlen]; omega), slice_take' file n off' hd.size hn, if_neg h2]
        exact ⟨rfl, by simp only at hc2 ⊢; omega⟩

theorem nextBatch_take_conv (hB : 0 < P.B) (file : List Nat) (n fuel off : Nat) (r : List Nat × Nat)
    (h : nextBatch P file fuel off = .ok r) (hn : r.2 ≤ n) :
    nextBatch P (file.take n) fuel off = .ok r := by
  unfold nextBatch at h ⊢
  cases hf : nextFrame P file fuel off with
  | eof => rw [hf] at h; cases h
  | err => rw [hf] at h; cases h
  | ok fr =>
    obtain ⟨hd, p, off'⟩ := fr
    rw [hf] at h
    simp only at h
    by_cases hw : hd.disc = WHOLE
    · rw [if_pos hw] at h
      cases h
      obtain ⟨hc, _⟩ := nextFrame_take_conv hB file n fuel off (hd, p, off') hf hn
      rw [hc]; simp only; rw [if_pos hw]
    · rw [if_neg hw] at h
      by_cases h1 : hd.disc = FIRST
      · rw [if_pos h1] at h
        by_cases ht : trueUp P off' - off' > P.H
        · rw [if_pos ht] at h; cases h
        · rw [if_neg ht] at h
          cases hp : padZero file off' (trueUp P off') with
          | false => rw [hp] at h; simp only [Bool.not_false, if_true] at h; cases h
          | true =>
          rw [hp] at h
          simp only [Bool.not_true, Bool.false_eq_true, if_false] at h
          cases hf2 : nextFrame P file fuel (trueUp P off') with
          | eof => rw [hf2] at h; cases h
          | err => rw [hf2] at h; cases h
          | ok fr2 =>
            obtain ⟨hd2, p2, off2⟩ := fr2
            rw [hf2] at h
            simp only at h
            by_cases hs : hd2.disc = SECOND
            · rw [if_pos hs] at h
              cases h
              simp only at hn
              obtain ⟨hc2, hlt2⟩ := nextFrame_take_conv hB file n fuel (trueUp P off') (hd2, p2, off2) hf2 hn
              have hge := trueUp_ge hB off'
              obtain ⟨hc1, _⟩ := nextFrame_take_conv hB file n fuel off (hd, p, off') hf (by simp only at hlt2 ⊢; omega)
              rw [hc1]
              simp only
              rw [if_neg hw, if_pos h1, if_neg ht,
                padZero_take file n off' _ (by simp only at hlt2; omega), hp, hc2]
              simp only [Bool.not_true, Bool.false_eq_true, if_false]
              rw [if_pos hs]
            · rw [if_neg hs] at h; cases h
      · rw [if_neg h1] at h; cases h

/-- **C09 (log)** if two files agree on their first `m` bytes, every batch whose read ends within
    those bytes is read identically from both — so damage (or truncation) at offset `m` or later
    cannot change, reorder or invent any earlier batch -/
theorem reads_agree_before_damage (hB : 0 < P.B) (f f' : List Nat) (m : Nat) (hsame : f.take m = f'.take m)
    (fuel off : Nat) (r : List Nat × Nat) (h : nextBatch P f fuel off = .ok r) (hm : r.2 ≤ m) :
    nextBatch P f' fuel off = .ok r := by
  have h1 := nextBatch_take_conv hB f m fuel off r h hm
  rw [hsame] at h1
  exact nextBatch_take f' m fuel off r h1

/-- **C09 (log)** a frame whose payload no longer matches its header's checksum is an error, never
    a batch -/
theorem crc_mismatch_is_error (file : List Nat) (fuel off : Nat) (hd : Hdr) (off' : Nat)
    (hh : nextHeader P file fuel off = .ok (hd, off'))
    (hbad : P.crc (slice file off' hd.size) ≠ hd.crc) :
    nextFrame P file fuel off = .err := by
  unfold nextFrame
  rw [hh]
  simp only
  split
  · rfl
  · first | rfl | rw [if_pos hbad]

end Blue.Log

#print axioms Blue.Log.reads_agree_before_damage
