import Blue.Model.Rollover
namespace Blue.Rollover

/-- the snapshot without the one duplication it can contain: between `install` and `clear` the
    immutable memtable is also the newest file of the version -/
def canon (s : St) : List (List Nat) :=
  s.mem :: (if s.installed then [] else s.imm.toList) ++ s.ver

structure Inv (s : St) : Prop where
  /-- newest first, strictly: search order is age order and nothing is held twice -/
  ordered : (canon s).flatten.Pairwise (fun a b => b < a)
  /-- exactly the entries written so far -/
  complete : ∀ e, e < s.next ↔ e ∈ (canon s).flatten
  dup : s.installed = true → ∃ m rest, s.imm = some m ∧ s.ver = m :: rest
  noimm : s.imm = none → s.installed = false

theorem inv_init : Inv init :=
  ⟨by simp [init, canon], (by intro e; simp [init, canon]), (by intro h; cases h), fun _ => rfl⟩

theorem inv_step {s : St} (h : Inv s) (ev : Ev) : Inv (step s ev) := by
  obtain ⟨mem, imm, ver, inst, next⟩ := s
  obtain ⟨ho, hc, hd, hn⟩ := h
  cases ev with
  | write =>
    refine ⟨?_, ?_, hd, hn⟩
    · simp only [step, canon, List.flatten_cons, List.cons_append] at ho ⊢
      rw [List.pairwise_cons]
      refine ⟨?_, ho⟩
      intro a ha
      apply (hc a).mpr
      simp only [canon, List.flatten_cons, List.cons_append]
      exact ha
    · intro e
      have := hc e
      simp only [step, canon, List.flatten_cons, List.cons_append, List.mem_cons] at this ⊢
      constructor
      · intro he
        rcases Nat.lt_or_ge e next with hl | hg
        · exact Or.inr (this.mp hl)
        · left; omega
      · rintro (rfl | he)
        · omega
        · have := this.mpr he; omega
  | rotate =>
    cases imm with
    | some m => exact ⟨ho, hc, hd, hn⟩
    | none =>
      have hinst : inst = false := hn rfl
      subst hinst
      refine ⟨?_, ?_, (by intro hi; cases hi), (by intro hi; cases hi)⟩
      · simpa [step, canon] using ho
      · intro e; simpa [step, canon] using hc e
  | install =>
    cases imm with
    | none => exact ⟨ho, hc, hd, hn⟩
    | some m =>
      cases inst with
      | true => exact ⟨ho, hc, hd, hn⟩
      | false =>
        refine ⟨?_, ?_, fun _ => ⟨m, ver, rfl, rfl⟩, (by intro hi; cases hi)⟩
        · simpa [step, canon] using ho
        · intro e; simpa [step, canon] using hc e
  | clear =>
    cases inst with
    | false => exact ⟨ho, hc, hd, hn⟩
    | true =>
      refine ⟨?_, ?_, (by intro hi; cases hi), fun _ => rfl⟩
      · simpa [step, canon] using ho
      · intro e; simpa [step, canon] using hc e

theorem inv_run {s : St} (h : Inv s) : ∀ (evs : List Ev), Inv (evs.foldl step s)
  | [] => h
  | ev :: evs => by
    simp only [List.foldl_cons]
    exact inv_run (s := step s ev) (inv_step h ev) evs

/-- **C06 / C01 across rollover**: at every instant — in particular between rotation, version
    installation and the clearing of the immutable memtable — a snapshot taken under the store's
    mutex holds every entry written so far and nothing else, newest first; the only thing it can
    hold twice is the immutable memtable, which is then also the first file of the version, right
    behind it in search order -/
theorem snapshot_complete (evs : List Ev) :
    let s := evs.foldl step init
    (∀ e, e < s.next ↔ e ∈ (snapshot s).flatten)
    ∧ (canon s).flatten.Pairwise (fun a b => b < a)
    ∧ (snapshot s = canon s ∨ ∃ m rest, snapshot s = s.mem :: m :: m :: rest ∧ canon s = s.mem :: m :: rest) := by
  intro s
  have h : Inv s := inv_run inv_init evs
  refine ⟨?_, h.ordered, ?_⟩
  · intro e
    rw [h.complete e]
    cases hinst : s.installed with
    | false => simp [snapshot, canon, hinst]; cases s.imm <;> simp
    | true =>
      obtain ⟨m, rest, himm, hver⟩ := h.dup hinst
      simp [snapshot, canon, hinst, himm, hver]
  · cases hinst : s.installed with
    | false => left; simp [snapshot, canon, hinst]; cases s.imm <;> simp
    | true =>
      obtain ⟨m, rest, himm, hver⟩ := h.dup hinst
      right
      exact ⟨m, rest, by simp [snapshot, himm, hver], by simp [canon, hinst, hver]⟩

/-- mutant: the immutable memtable is dropped before the version is installed — a snapshot in
    between misses acknowledged writes -/
def stepBad (s : St) : Ev → St
  | .clear => { s with imm := none, installed := false }
  | ev => step s ev

theorem clear_before_install_loses :
    let s := [Ev.write, .write, .rotate, .clear].foldl stepBad init
    (snapshot s).flatten = [] ∧ s.next = 2 := by decide

end Blue.Rollover

#print axioms Blue.Rollover.snapshot_complete
