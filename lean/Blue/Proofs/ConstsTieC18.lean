import Blue.Generated.Consts
/-! The wait list's ring size regenerated from the Rust source (`sync42::MAX_CONCURRENCY`), tied to
    the model (C18): `Blue.WaitList` takes the ring size as a parameter — the harness passes the
    source's constant — and its theorems need it positive. -/
namespace Blue.ConstsTie

theorem sync42_slots_pos : 0 < Blue.Generated.sync42MaxConcurrency := by decide
theorem sync42_slots : Blue.Generated.sync42MaxConcurrency = 65536 := by decide

end Blue.ConstsTie
