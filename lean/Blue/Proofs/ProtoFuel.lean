import Blue.Proofs.ProtoMsg
import Blue.Proofs.ProtoSz
/-! Fuel of the message interpreter (property C15).

    `unpackMsg`, `dfltMsg`, `packMsg`, `packSzMsg` recurse through nested message types on a fuel
    argument; on exhaustion they return `.error .bufferTooShort`, `.none`, `[]`, `0`, which are
    also genuine results.  This file shows that the fuel is immaterial once it reaches the nesting
    depth of the schema (`Msg.depth`, a structural function of the message type, independent of the
    interpreter): every fuel `≥ m.depth` gives the same function, so the exhaustion branch is never
    what decides a result at such a fuel, and `decode` / `encode` / `encodeSz` (the interpreter at
    fuel `m.depth`) are the fuel-free meaning of a message type. -/
namespace Blue.ProtoMsg
open Blue.Wire

/-! ## nesting depth of a message type (spec side: structural, no fuel) -/

mutual
def Ty.depth : Ty → Nat
  | .scalar _ => 0
  | .msg m => m.depth
def Field.depth : Field → Nat
  | .mk _ _ ty => ty.depth
def fieldsDepth : List Field → Nat
  | [] => 0
  | f :: fs => max f.depth (fieldsDepth fs)
def Variant.depth : Variant → Nat
  | .unit _ => 0
  | .tuple _ ty => ty.depth
  | .named _ fs => fieldsDepth fs
def variantsDepth : List Variant → Nat
  | [] => 0
  | v :: vs => max v.depth (variantsDepth vs)
/-- number of message levels on the longest chain of nested message types (a message without
    nested messages has depth 1) -/
def Msg.depth : Msg → Nat
  | .struct fs => fieldsDepth fs + 1
  | .enum vs _ => variantsDepth vs + 1
  | .result ok err _ => max ok.depth err.depth + 1
end

theorem Msg.depth_pos (m : Msg) : 0 < m.depth := by cases m <;> simp [Msg.depth]

theorem field_msg_depth_le {fs : List Field} {g : Field} (hg : g ∈ fs) {m : Msg} (hm : g.ty = .msg m) :
    m.depth ≤ fieldsDepth fs := by
  induction fs with
  | nil => cases hg
  | cons a t ih =>
    simp only [fieldsDepth]
    rcases List.mem_cons.mp hg with rfl | h
    · cases g with
      | mk n c ty =>
        simp only [Field.ty] at hm
        subst hm
        simp only [Field.depth, Ty.depth]
        omega
    · have := ih h; omega

theorem variant_depth_le {vs : List Variant} {i : Nat} {v : Variant} (h : vs[i]? = some v) :
    v.depth ≤ variantsDepth vs := by
  induction vs generalizing i with
  | nil => simp at h
  | cons a t ih =>
    simp only [variantsDepth]
    cases i with
    | zero => simp at h; subst h; omega
    | succ i => simp at h; have := ih h; omega

theorem findVariant_getElem : ∀ (vars : List Variant) (t : Tag) (k i : Nat) (v : Variant),
    findVariant vars t k = some (i, v) → ∃ j : Nat, vars[j]? = some v
  | [], _, _, _, _, h => by simp [findVariant] at h
  | a :: vs, t, k, i, v, h => by
    simp only [findVariant] at h
    by_cases hc : a.num = t.num ∧ a.wt = t.wt
    · rw [if_pos hc] at h
      simp only [Option.some.injEq, Prod.mk.injEq] at h
      exact ⟨0, by simp [h.2]⟩
    · rw [if_neg hc] at h
      obtain ⟨j, hj⟩ := findVariant_getElem vs t (k + 1) i v h
      exact ⟨j + 1, by simpa using hj⟩

/-! ## the interpreters depend on their recursive argument only at the nested message types -/

section Congr
variable {α : Type}

theorem decTyWith_rec_congr (r1 r2 : Msg → List Nat → R (Val × List Nat)) (ty : Ty)
    (h : ∀ m, ty = .msg m → r1 m = r2 m) (bs : List Nat) : decTyWith r1 ty bs = decTyWith r2 ty bs := by
  cases ty with
  | scalar s => rfl
  | msg m => simp only [decTyWith, h m rfl]

theorem mergeInto_rec_congr (r1 r2 : Msg → List Nat → R (Val × List Nat)) (fld : Tag × List Nat) :
    ∀ (fs : List Field) (a : List Val), (∀ g ∈ fs, ∀ m, g.ty = .msg m → r1 m = r2 m) →
    mergeInto r1 fs a fld = mergeInto r2 fs a fld
  | [], a, _ => by cases a <;> rfl
  | _ :: _, [], _ => rfl
  | g :: fs, v :: vs, h => by
    simp only [mergeInto]
    rw [decTyWith_rec_congr r1 r2 g.ty (h g List.mem_cons_self),
      mergeInto_rec_congr r1 r2 fld fs vs (fun x hx => h x (List.mem_cons_of_mem _ hx))]

theorem unpackFields_rec_congr (r1 r2 : Msg → List Nat → R (Val × List Nat)) (strict : Bool)
    (fs : List Field) (h : ∀ g ∈ fs, ∀ m, g.ty = .msg m → r1 m = r2 m) (d : List Val) (bs : List Nat) :
    unpackFields r1 strict fs d bs = unpackFields r2 strict fs d bs := by
  have e : mergeStep r1 strict fs = mergeStep r2 strict fs := by
    funext acc fld
    cases acc with
    | error e => rfl
    | ok a => simp only [mergeStep, mergeInto_rec_congr r1 r2 fld fs a h]
  unfold unpackFields
  rw [e]

theorem dflts_rec_congr (d1 d2 : Msg → Val) (fs : List Field)
    (h : ∀ g ∈ fs, ∀ m, g.ty = .msg m → d1 m = d2 m) :
    fs.map (dfltSlotWith d1) = fs.map (dfltSlotWith d2) := by
  apply List.map_congr_left
  intro g hg
  cases g with
  | mk n c ty =>
    cases ty with
    | scalar s => cases c <;> rfl
    | msg m =>
      have := h _ hg m rfl
      cases c <;> simp [dfltSlotWith, Field.card, Field.ty, this]

theorem encTyWith_rec_congr (p1 p2 : Msg → Val → List Nat) (ty : Ty)
    (h : ∀ m, ty = .msg m → p1 m = p2 m) (v : Val) : encTyWith p1 ty v = encTyWith p2 ty v := by
  cases ty with
  | scalar s => rfl
  | msg m => simp only [encTyWith, h m rfl]

theorem packOne_rec_congr (p1 p2 : Msg → Val → List Nat) (n : Nat) (ty : Ty)
    (h : ∀ m, ty = .msg m → p1 m = p2 m) : packOne p1 n ty = packOne p2 n ty := by
  funext v
  simp only [packOne, encTyWith_rec_congr p1 p2 ty h]

theorem packFields_rec_congr (p1 p2 : Msg → Val → List Nat) :
    ∀ (fs : List Field) (vs : List Val), (∀ g ∈ fs, ∀ m, g.ty = .msg m → p1 m = p2 m) →
    packFields p1 fs vs = packFields p2 fs vs
  | [], vs, _ => by cases vs <;> rfl
  | _ :: _, [], _ => rfl
  | g :: fs, v :: vs, h => by
    have e := packOne_rec_congr p1 p2 g.num g.ty (h g List.mem_cons_self)
    simp only [packFields, packSlot, e,
      packFields_rec_congr p1 p2 fs vs (fun x hx => h x (List.mem_cons_of_mem _ hx))]

theorem szOne_rec_congr (p1 p2 : Msg → Val → Nat) (n : Nat) (ty : Ty)
    (h : ∀ m, ty = .msg m → p1 m = p2 m) : szOne p1 n ty = szOne p2 n ty := by
  funext v
  cases ty with
  | scalar s => rfl
  | msg m => simp only [szOne, szTyWith, h m rfl]

theorem szFields_rec_congr (p1 p2 : Msg → Val → Nat) :
    ∀ (fs : List Field) (vs : List Val), (∀ g ∈ fs, ∀ m, g.ty = .msg m → p1 m = p2 m) →
    szFields p1 fs vs = szFields p2 fs vs
  | [], vs, _ => by cases vs <;> rfl
  | _ :: _, [], _ => rfl
  | g :: fs, v :: vs, h => by
    have e := szOne_rec_congr p1 p2 g.num g.ty (h g List.mem_cons_self)
    simp only [szFields, szSlot, e,
      szFields_rec_congr p1 p2 fs vs (fun x hx => h x (List.mem_cons_of_mem _ hx))]

end Congr

/-! ## fuel stability -/

/-- `unpackMsg` and `dfltMsg` at two fuels that both reach the depth of the message type are the
    same functions -/
theorem unpack_dflt_fuel : ∀ (f g : Nat) (m : Msg), m.depth ≤ f → m.depth ≤ g →
    unpackMsg f m = unpackMsg g m ∧ dfltMsg f m = dfltMsg g m
  | 0, _, m, h, _ => by have := m.depth_pos; omega
  | _+1, 0, m, _, h => by have := m.depth_pos; omega
  | f+1, g+1, m, hf, hg => by
    cases m with
    | struct fs =>
      simp only [Msg.depth] at hf hg
      have hr : ∀ x ∈ fs, ∀ m, x.ty = .msg m → unpackMsg f m = unpackMsg g m := fun x hx m hm =>
        (unpack_dflt_fuel f g m (by have := field_msg_depth_le hx hm; omega)
          (by have := field_msg_depth_le hx hm; omega)).1
      have hd : ∀ x ∈ fs, ∀ m, x.ty = .msg m → dfltMsg f m = dfltMsg g m := fun x hx m hm =>
        (unpack_dflt_fuel f g m (by have := field_msg_depth_le hx hm; omega)
          (by have := field_msg_depth_le hx hm; omega)).2
      constructor
      · funext bs
        simp only [unpackMsg]
        rw [unpackFields_rec_congr _ _ false fs hr, dflts_rec_congr _ _ fs hd]
      · simp only [dfltMsg]
        rw [dflts_rec_congr _ _ fs hd]
    | enum vars d =>
      simp only [Msg.depth] at hf hg
      refine ⟨?_, rfl⟩
      funext bs
      simp only [unpackMsg]
      cases hT : decTagE bs with
      | error e => rfl
      | ok r =>
        obtain ⟨tag, rest⟩ := r
        simp only
        cases hF : findVariant vars tag 0 with
        | none => rfl
        | some iv =>
          obtain ⟨i, var⟩ := iv
          obtain ⟨j, hj⟩ := findVariant_getElem vars tag 0 i var hF
          have hv := variant_depth_le hj
          cases var with
          | unit n => rfl
          | tuple n ty =>
            simp only
            rw [decTyWith_rec_congr (unpackMsg f) (unpackMsg g) ty (fun m hm => by
              subst hm
              simp only [Variant.depth, Ty.depth] at hv
              exact (unpack_dflt_fuel f g m (by omega) (by omega)).1)]
          | named n fs =>
            simp only [Variant.depth] at hv
            have hr : ∀ x ∈ fs, ∀ m, x.ty = .msg m → unpackMsg f m = unpackMsg g m := fun x hx m hm =>
              (unpack_dflt_fuel f g m (by have := field_msg_depth_le hx hm; omega)
                (by have := field_msg_depth_le hx hm; omega)).1
            have hd : ∀ x ∈ fs, ∀ m, x.ty = .msg m → dfltMsg f m = dfltMsg g m := fun x hx m hm =>
              (unpack_dflt_fuel f g m (by have := field_msg_depth_le hx hm; omega)
                (by have := field_msg_depth_le hx hm; omega)).2
            simp only
            cases decFrame rest with
            | error e => rfl
            | ok fr =>
              simp only
              rw [unpackFields_rec_congr _ _ namedVariantStrict fs hr, dflts_rec_congr _ _ fs hd]
    | result okm errm d =>
      simp only [Msg.depth] at hf hg
      refine ⟨?_, rfl⟩
      funext bs
      simp only [unpackMsg]
      rw [(unpack_dflt_fuel f g okm (by omega) (by omega)).1,
        (unpack_dflt_fuel f g errm (by omega) (by omega)).1]

/-- `packMsg` and `packSzMsg` likewise (on every value, well-formed or not) -/
theorem pack_sz_fuel : ∀ (f g : Nat) (m : Msg), m.depth ≤ f → m.depth ≤ g →
    packMsg f m = packMsg g m ∧ packSzMsg f m = packSzMsg g m
  | 0, _, m, h, _ => by have := m.depth_pos; omega
  | _+1, 0, m, _, h => by have := m.depth_pos; omega
  | f+1, g+1, m, hf, hg => by
    cases m with
    | struct fs =>
      simp only [Msg.depth] at hf hg
      have hp : ∀ x ∈ fs, ∀ m, x.ty = .msg m → packMsg f m = packMsg g m := fun x hx m hm =>
        (pack_sz_fuel f g m (by have := field_msg_depth_le hx hm; omega)
          (by have := field_msg_depth_le hx hm; omega)).1
      have hs : ∀ x ∈ fs, ∀ m, x.ty = .msg m → packSzMsg f m = packSzMsg g m := fun x hx m hm =>
        (pack_sz_fuel f g m (by have := field_msg_depth_le hx hm; omega)
          (by have := field_msg_depth_le hx hm; omega)).2
      constructor <;> funext v <;> cases v <;> simp only [packMsg, packSzMsg]
      · rw [packFields_rec_congr _ _ fs _ hp]
      · rw [szFields_rec_congr _ _ fs _ hs]
    | enum vars d =>
      simp only [Msg.depth] at hf hg
      constructor <;> funext v <;> cases v <;> simp only [packMsg, packSzMsg]
      all_goals
        rename_i i p
        cases hi : vars[i]? with
        | none => rfl
        | some var =>
          have hv := variant_depth_le hi
          cases var with
          | unit n => rfl
          | tuple n ty =>
            simp only [Variant.depth] at hv
            simp only
            first
            | rw [packOne_rec_congr (packMsg f) (packMsg g) n ty (fun m hm => by
                subst hm
                simp only [Ty.depth] at hv
                exact (pack_sz_fuel f g m (by omega) (by omega)).1)]
            | rw [szOne_rec_congr (packSzMsg f) (packSzMsg g) n ty (fun m hm => by
                subst hm
                simp only [Ty.depth] at hv
                exact (pack_sz_fuel f g m (by omega) (by omega)).2)]
          | named n fs =>
            simp only [Variant.depth] at hv
            have hp : ∀ x ∈ fs, ∀ m, x.ty = .msg m → packMsg f m = packMsg g m := fun x hx m hm =>
              (pack_sz_fuel f g m (by have := field_msg_depth_le hx hm; omega)
                (by have := field_msg_depth_le hx hm; omega)).1
            have hs : ∀ x ∈ fs, ∀ m, x.ty = .msg m → packSzMsg f m = packSzMsg g m := fun x hx m hm =>
              (pack_sz_fuel f g m (by have := field_msg_depth_le hx hm; omega)
                (by have := field_msg_depth_le hx hm; omega)).2
            cases p <;> simp only
            first
            | rw [packFields_rec_congr _ _ fs _ hp]
            | rw [szFields_rec_congr _ _ fs _ hs]
    | result okm errm d =>
      simp only [Msg.depth] at hf hg
      have e1 := pack_sz_fuel f g okm (by omega) (by omega)
      have e2 := pack_sz_fuel f g errm (by omega) (by omega)
      constructor <;> funext v <;> cases v <;> simp only [packMsg, packSzMsg, e1.1, e1.2, e2.1, e2.2]

/-! ## well-formedness is fuel-stable as well -/

theorem WfTyWith_rec_congr (w1 w2 : Msg → Val → Prop) (p1 p2 : Msg → Val → List Nat) (ty : Ty)
    (hw : ∀ m, ty = .msg m → w1 m = w2 m) (hp : ∀ m, ty = .msg m → p1 m = p2 m) :
    WfTyWith w1 p1 ty = WfTyWith w2 p2 ty := by
  cases ty with
  | scalar s => rfl
  | msg m => funext v; simp only [WfTyWith, hw m rfl, hp m rfl]

theorem WfFieldsWith_rec_congr (w1 w2 : Msg → Val → Prop) (p1 p2 : Msg → Val → List Nat) :
    ∀ (fs : List Field) (vs : List Val), (∀ g ∈ fs, ∀ m, g.ty = .msg m → w1 m = w2 m) →
    (∀ g ∈ fs, ∀ m, g.ty = .msg m → p1 m = p2 m) → WfFieldsWith w1 p1 fs vs = WfFieldsWith w2 p2 fs vs
  | [], vs, _, _ => by cases vs <;> rfl
  | _ :: _, [], _, _ => rfl
  | g :: fs, v :: vs, hw, hp => by
    have e := WfTyWith_rec_congr w1 w2 p1 p2 g.ty (hw g List.mem_cons_self) (hp g List.mem_cons_self)
    simp only [WfFieldsWith, WfSlotWith, e,
      WfFieldsWith_rec_congr w1 w2 p1 p2 fs vs (fun x hx => hw x (List.mem_cons_of_mem _ hx))
        (fun x hx => hp x (List.mem_cons_of_mem _ hx))]

/-- `WfMsg` at two fuels that both reach the depth of the message type is the same predicate -/
theorem wf_fuel : ∀ (f g : Nat) (m : Msg), m.depth ≤ f → m.depth ≤ g → WfMsg f m = WfMsg g m
  | 0, _, m, h, _ => by have := m.depth_pos; omega
  | _+1, 0, m, _, h => by have := m.depth_pos; omega
  | f+1, g+1, m, hf, hg => by
    cases m with
    | struct fs =>
      simp only [Msg.depth] at hf hg
      have hw : ∀ x ∈ fs, ∀ m, x.ty = .msg m → WfMsg f m = WfMsg g m := fun x hx m hm =>
        wf_fuel f g m (by have := field_msg_depth_le hx hm; omega) (by have := field_msg_depth_le hx hm; omega)
      have hp : ∀ x ∈ fs, ∀ m, x.ty = .msg m → packMsg f m = packMsg g m := fun x hx m hm =>
        (pack_sz_fuel f g m (by have := field_msg_depth_le hx hm; omega)
          (by have := field_msg_depth_le hx hm; omega)).1
      funext v
      cases v <;> simp only [WfMsg]
      rw [WfFieldsWith_rec_congr _ _ _ _ fs _ hw hp]
    | enum vars d =>
      simp only [Msg.depth] at hf hg
      funext v
      cases v <;> simp only [WfMsg]
      rename_i i p
      have key : ∀ var, vars[i]? = some var →
          WfVariantWith (WfMsg f) (packMsg f) var p = WfVariantWith (WfMsg g) (packMsg g) var p := by
        intro var hi
        have hv := variant_depth_le hi
        cases var with
        | unit n =>
          cases p <;> try rfl
          rename_i vs; cases vs <;> rfl
        | tuple n ty =>
          simp only [Variant.depth] at hv
          simp only [WfVariantWith]
          rw [WfTyWith_rec_congr (WfMsg f) (WfMsg g) (packMsg f) (packMsg g) ty
            (fun m hm => by
              subst hm; simp only [Ty.depth] at hv; exact wf_fuel f g m (by omega) (by omega))
            (fun m hm => by
              subst hm; simp only [Ty.depth] at hv; exact (pack_sz_fuel f g m (by omega) (by omega)).1)]
        | named n fs =>
          simp only [Variant.depth] at hv
          have hw : ∀ x ∈ fs, ∀ m, x.ty = .msg m → WfMsg f m = WfMsg g m := fun x hx m hm =>
            wf_fuel f g m (by have := field_msg_depth_le hx hm; omega)
              (by have := field_msg_depth_le hx hm; omega)
          have hp : ∀ x ∈ fs, ∀ m, x.ty = .msg m → packMsg f m = packMsg g m := fun x hx m hm =>
            (pack_sz_fuel f g m (by have := field_msg_depth_le hx hm; omega)
              (by have := field_msg_depth_le hx hm; omega)).1
          cases p <;> simp only [WfVariantWith]
          rw [WfFieldsWith_rec_congr _ _ _ _ fs _ hw hp, packFields_rec_congr _ _ fs _ hp]
      apply propext
      constructor
      · rintro ⟨var, h1, h2, h3, h4⟩
        exact ⟨var, h1, h2, h3, (key var h1) ▸ h4⟩
      · rintro ⟨var, h1, h2, h3, h4⟩
        exact ⟨var, h1, h2, h3, (key var h1) ▸ h4⟩
    | result okm errm d =>
      simp only [Msg.depth] at hf hg
      funext v
      cases v <;> simp only [WfMsg]
      rw [wf_fuel f g okm (by omega) (by omega), wf_fuel f g errm (by omega) (by omega),
        (pack_sz_fuel f g okm (by omega) (by omega)).1, (pack_sz_fuel f g errm (by omega) (by omega)).1]

/-! ## the inner fuel of the UTF-8 validator (`length + 1`) is always sufficient -/

/-- more fuel than bytes changes nothing: the validator consumes a byte per step, so from
    `validUtf8`'s `length + 1` it never reaches the exhaustion answer `false` -/
theorem validUtf8Aux_fuel : ∀ (n m : Nat) (bs : List Nat), bs.length < n → bs.length < m →
    validUtf8Aux n bs = validUtf8Aux m bs
  | 0, _, _, h, _ => by omega
  | _+1, 0, _, _, h => by omega
  | n+1, m+1, [], _, _ => rfl
  | n+1, m+1, b0 :: rest, hn, hm => by
    simp only [List.length_cons] at hn hm
    simp only [validUtf8Aux]
    split
    · exact validUtf8Aux_fuel n m rest (by omega) (by omega)
    · split
      · cases rest with
        | nil => rfl
        | cons b1 r =>
          simp only [List.length_cons] at hn hm
          simp only [validUtf8Aux_fuel n m r (by omega) (by omega)]
      · split
        · match rest, hn, hm with
          | [], _, _ => rfl
          | [_], _, _ => rfl
          | b1 :: b2 :: r, hn, hm =>
            simp only [List.length_cons] at hn hm
            simp only [validUtf8Aux_fuel n m r (by omega) (by omega)]
        · split
          · match rest, hn, hm with
            | [], _, _ => rfl
            | [_], _, _ => rfl
            | [_, _], _, _ => rfl
            | b1 :: b2 :: b3 :: r, hn, hm =>
              simp only [List.length_cons] at hn hm
              simp only [validUtf8Aux_fuel n m r (by omega) (by omega)]
          · rfl

theorem validUtf8_fuel (n : Nat) (bs : List Nat) (h : bs.length < n) : validUtf8Aux n bs = validUtf8 bs :=
  validUtf8Aux_fuel n (bs.length + 1) bs h (Nat.lt_succ_self _)

/-! ## the fuel-free reading -/

/-- `Unpackable::unpack` of message type `m`: the interpreter at the depth of `m` -/
def decode (m : Msg) (bs : List Nat) : R (Val × List Nat) := unpackMsg m.depth m bs
/-- `Packable::pack` -/
def encode (m : Msg) (v : Val) : List Nat := packMsg m.depth m v
/-- `Packable::pack_sz` -/
def encodeSz (m : Msg) (v : Val) : Nat := packSzMsg m.depth m v
/-- `v` is a value of message type `m` -/
def Wf (m : Msg) (v : Val) : Prop := WfMsg m.depth m v

/-- **C15** fuel stability: at every fuel that reaches the nesting depth of the message type the four
    interpreters are the fuel-free ones (so the results `bufferTooShort` / `[]` / `0` of the
    exhaustion branch never decide an answer there) -/
theorem unpackMsg_fuel (f : Nat) (m : Msg) (h : m.depth ≤ f) (bs : List Nat) :
    unpackMsg f m bs = decode m bs :=
  congrFun (unpack_dflt_fuel f m.depth m h (Nat.le_refl _)).1 bs

theorem packMsg_fuel (f : Nat) (m : Msg) (h : m.depth ≤ f) (v : Val) : packMsg f m v = encode m v :=
  congrFun (pack_sz_fuel f m.depth m h (Nat.le_refl _)).1 v

theorem packSzMsg_fuel (f : Nat) (m : Msg) (h : m.depth ≤ f) (v : Val) : packSzMsg f m v = encodeSz m v :=
  congrFun (pack_sz_fuel f m.depth m h (Nat.le_refl _)).2 v

theorem WfMsg_fuel (f : Nat) (m : Msg) (h : m.depth ≤ f) (v : Val) : WfMsg f m v ↔ Wf m v := by
  unfold Wf; rw [wf_fuel f m.depth m h (Nat.le_refl _)]

theorem dfltMsg_fuel (f : Nat) (m : Msg) (h : m.depth ≤ f) : dfltMsg f m = dfltMsg m.depth m :=
  (unpack_dflt_fuel f m.depth m h (Nat.le_refl _)).2

/-- **C15** `message_roundtrip` without fuel: the decoder and the encoder may even run at different
    (sufficient) fuels -/
theorem decode_encode (m : Msg) (v : Val) (h : Wf m v) : decode m (encode m v) = .ok (v, []) :=
  unpack_pack m.depth m v h

theorem unpack_pack_any_fuel (f g : Nat) (m : Msg) (v : Val) (hf : m.depth ≤ f) (hg : m.depth ≤ g)
    (h : Wf m v) : unpackMsg f m (packMsg g m v) = .ok (v, []) := by
  rw [unpackMsg_fuel f m hf, packMsg_fuel g m hg]; exact decode_encode m v h

theorem decode_encode_rest (m : Msg) (v : Val) (h : Wf m v) (rest : List Nat) (hm : ∀ fs, m ≠ .struct fs) :
    decode m (encode m v ++ rest) = .ok (v, rest) := unpack_pack_rest m.depth m v h rest hm

/-- **C15** `pack_sz_is_length` without fuel -/
theorem encodeSz_eq_length (m : Msg) (v : Val) (h : Wf m v) : encodeSz m v = (encode m v).length :=
  packSz_eq_length m.depth m v h

end Blue.ProtoMsg
