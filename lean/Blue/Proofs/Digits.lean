import Blue.Proofs.TupleKey2
/-! Fixed-length digit strings in any base, mapped to bytes by a strictly monotone function,
    compare as the numbers they spell. -/
namespace Blue.TupleKey2

def digits (B v : Nat) : Nat → List Nat
  | 0 => []
  | n+1 => (v / B ^ n % B) :: digits B v n

theorem digits_strong (B : Nat) (hB : 0 < B) (f : Nat → Nat) (hf : ∀ a b, a < b → b < B → f a < f b) :
    ∀ (L a b : Nat), a % B ^ L < b % B ^ L →
      ∀ x y, blt ((digits B a L).map f ++ x) ((digits B b L).map f ++ y) = true := by
  intro L
  induction L with
  | zero => intro a b h; simp [Nat.mod_one] at h
  | succ L ih =>
    intro a b h x y
    simp only [digits, List.map_cons, List.cons_append]
    have hP : 0 < B ^ L := Nat.pow_pos hB
    rw [Nat.pow_succ] at h
    have da : a % (B ^ L * B) / B ^ L = a / B ^ L % B := Nat.mod_mul_right_div_self a (B ^ L) B
    have db : b % (B ^ L * B) / B ^ L = b / B ^ L % B := Nat.mod_mul_right_div_self b (B ^ L) B
    have ra : a % (B ^ L * B) % B ^ L = a % B ^ L := Nat.mod_mul_right_mod a (B ^ L) B
    have rb : b % (B ^ L * B) % B ^ L = b % B ^ L := Nat.mod_mul_right_mod b (B ^ L) B
    have ea := Nat.div_add_mod (a % (B ^ L * B)) (B ^ L)
    have eb := Nat.div_add_mod (b % (B ^ L * B)) (B ^ L)
    rw [da, ra] at ea
    rw [db, rb] at eb
    have hra := Nat.mod_lt a hP
    have hrb := Nat.mod_lt b hP
    have hBb : b / B ^ L % B < B := Nat.mod_lt _ hB
    generalize a / B ^ L % B = A at *
    generalize b / B ^ L % B = Bd at *
    generalize hRa : a % B ^ L = Ra at *
    generalize hRb : b % B ^ L = Rb at *
    rcases Nat.lt_trichotomy A Bd with hlt | heq | hgt
    · exact blt_cons_lt (hf _ _ hlt hBb) _ _
    · subst heq
      rw [blt_cons_same]
      apply ih
      rw [hRa, hRb]
      omega
    · exfalso
      have : B ^ L * (Bd + 1) ≤ B ^ L * A := Nat.mul_le_mul_left _ hgt
      rw [Nat.mul_add, Nat.mul_one] at this
      omega

/-- the same under an order-reversing byte map (descending elements) -/
theorem digits_strong_anti (B : Nat) (hB : 0 < B) (f : Nat → Nat) (hf : ∀ a b, a < b → b < B → f b < f a) :
    ∀ (L a b : Nat), b % B ^ L < a % B ^ L →
      ∀ x y, blt ((digits B a L).map f ++ x) ((digits B b L).map f ++ y) = true := by
  intro L
  induction L with
  | zero => intro a b h; simp [Nat.mod_one] at h
  | succ L ih =>
    intro a b h x y
    simp only [digits, List.map_cons, List.cons_append]
    have hP : 0 < B ^ L := Nat.pow_pos hB
    rw [Nat.pow_succ] at h
    have da : a % (B ^ L * B) / B ^ L = a / B ^ L % B := Nat.mod_mul_right_div_self a (B ^ L) B
    have db : b % (B ^ L * B) / B ^ L = b / B ^ L % B := Nat.mod_mul_right_div_self b (B ^ L) B
    have ra : a % (B ^ L * B) % B ^ L = a % B ^ L := Nat.mod_mul_right_mod a (B ^ L) B
    have rb : b % (B ^ L * B) % B ^ L = b % B ^ L := Nat.mod_mul_right_mod b (B ^ L) B
    have ea := Nat.div_add_mod (a % (B ^ L * B)) (B ^ L)
    have eb := Nat.div_add_mod (b % (B ^ L * B)) (B ^ L)
    rw [da, ra] at ea
    rw [db, rb] at eb
    have hra := Nat.mod_lt a hP
    have hrb := Nat.mod_lt b hP
    have hBa : a / B ^ L % B < B := Nat.mod_lt _ hB
    generalize a / B ^ L % B = A at *
    generalize b / B ^ L % B = Bd at *
    generalize hRa : a % B ^ L = Ra at *
    generalize hRb : b % B ^ L = Rb at *
    rcases Nat.lt_trichotomy Bd A with hlt | heq | hgt
    · exact blt_cons_lt (hf _ _ hlt hBa) _ _
    · subst heq
      rw [blt_cons_same]
      apply ih
      rw [hRa, hRb]
      omega
    · exfalso
      have : B ^ L * (A + 1) ≤ B ^ L * Bd := Nat.mul_le_mul_left _ hgt
      rw [Nat.mul_add, Nat.mul_one] at this
      omega

theorem digits_congr (B : Nat) : ∀ (L a b : Nat), a % B ^ L = b % B ^ L → digits B a L = digits B b L := by
  intro L
  induction L with
  | zero => intros; rfl
  | succ L ih =>
    intro a b h
    simp only [digits]
    rw [Nat.pow_succ] at h
    have da : a % (B ^ L * B) / B ^ L = a / B ^ L % B := Nat.mod_mul_right_div_self a (B ^ L) B
    have db : b % (B ^ L * B) / B ^ L = b / B ^ L % B := Nat.mod_mul_right_div_self b (B ^ L) B
    have ra : a % (B ^ L * B) % B ^ L = a % B ^ L := Nat.mod_mul_right_mod a (B ^ L) B
    have rb : b % (B ^ L * B) % B ^ L = b % B ^ L := Nat.mod_mul_right_mod b (B ^ L) B
    rw [← da, ← db, h]
    congr 1
    apply ih
    rw [← ra, ← rb, h]

end Blue.TupleKey2
