import Blue.Proofs.SstFits
import Blue.Proofs.SstFileB
/-! The C10 file round trip with the `Wf` / `Fits` side conditions discharged
    (`Blue.Sst.sealed_side_conditions`): what remains are the parameters (filter bytes of the right
    length, a 32-byte setsum), `u64` timestamps, byte-string keys / values / filter, a file shorter
    than 2^64 bytes, and — where `BlockCursor` is involved — restart intervals ≥ 1.  The sealed
    builder state `s1` of the older statements is no longer a parameter (`seal` succeeding gives it). -/
namespace Blue.SstOpen
open Blue.Wire Blue.Block Blue.Sst Blue.Cursor Blue.BlockCursor

/-- `sst_file_roundtrip` (reference cursor inside a block, model CRC32C) without `Wf` / `Fits` hypotheses -/
theorem sst_file_roundtrip_limits (o : SstOpts) (atts : List KV) (filter setsum : List Nat)
    (f : SstFile)
    (hseal : (SB.putAll o SB.init atts).2.seal o filter setsum = .ok f)
    (hts : ∀ e ∈ atts, e.ts ≤ U64MAX)
    (hsetsum : setsum.length = 32)
    (hfilter : filter.length = filterLen (SB.putAll o SB.init atts).2.count o.bloomBits)
    (hsize : f.bytes.length < U64)
    (hbE : ∀ e ∈ atts, KVBytes e) (hbF : Bytes filter) :
    ∃ t, openSst crc32c f.bytes = .ok t
      ∧ (∀ ops : List KOp, t.run crc32c t.toFirst ops
          = (Ref.run ⟨(SB.putAll o SB.init atts).2.accepted, 0⟩ (ops.map KOp.toOp)).map .ok)
      ∧ (∀ (k : List Nat) (ts : Nat), t.load crc32c k ts = .ok (loadSpec (SB.putAll o SB.init atts).2.accepted k ts))
      ∧ t.metadata crc32c = .ok
          ⟨setsum,
           (match (SB.putAll o SB.init atts).2.accepted.head? with | some e => e.key | none => []),
           (match (SB.putAll o SB.init atts).2.accepted.getLast? with | some e => e.key | none => MAX_KEY),
           f.fin.smallest, f.fin.biggest, f.bytes.length⟩
      ∧ t.forward crc32c = ((SB.putAll o SB.init atts).2.accepted, none)
      ∧ t.backward crc32c = ((SB.putAll o SB.init atts).2.accepted.reverse, none) := by
  obtain ⟨s1, hs1, _⟩ := seal_eq hseal
  obtain ⟨h1, h2, h3, h4⟩ := sealed_side_conditions o atts hts s1 hs1
  exact sst_file_roundtrip_bytes o atts filter setsum f s1 hs1 hseal hts h1 h2 h3 h4 hsetsum hfilter hsize hbE hbF

/-- `sst_file_roundtrip_bcur` (`BlockCursor` inside the blocks, model CRC32C) without `Wf` / `Fits` hypotheses -/
theorem sst_file_roundtrip_bcur_limits (o : SstOpts)
    (ho : 1 ≤ o.blk.bytesRestartInterval ∧ 1 ≤ o.blk.pairsRestartInterval)
    (atts : List KV) (filter setsum : List Nat)
    (f : SstFile)
    (hseal : (SB.putAll o SB.init atts).2.seal o filter setsum = .ok f)
    (hts : ∀ e ∈ atts, e.ts ≤ U64MAX)
    (hsetsum : setsum.length = 32)
    (hfilter : filter.length = filterLen (SB.putAll o SB.init atts).2.count o.bloomBits)
    (hsize : f.bytes.length < U64)
    (hbE : ∀ e ∈ atts, KVBytes e) (hbF : Bytes filter) :
    ∃ t, openSst crc32c f.bytes = .ok t
      ∧ (∀ ops : List KOp, t.runB crc32c t.toFirstB ops
          = (Ref.run ⟨(SB.putAll o SB.init atts).2.accepted, 0⟩ (ops.map KOp.toOp)).map .ok)
      ∧ (∀ (k : List Nat) (ts : Nat), t.loadB crc32c k ts = .ok (loadSpec (SB.putAll o SB.init atts).2.accepted k ts))
      ∧ t.metadataB crc32c = .ok
          ⟨setsum,
           (match (SB.putAll o SB.init atts).2.accepted.head? with | some e => e.key | none => []),
           (match (SB.putAll o SB.init atts).2.accepted.getLast? with | some e => e.key | none => MAX_KEY),
           f.fin.smallest, f.fin.biggest, f.bytes.length⟩
      ∧ t.forwardB crc32c = ((SB.putAll o SB.init atts).2.accepted, none)
      ∧ t.backwardB crc32c = ((SB.putAll o SB.init atts).2.accepted.reverse, none)
      ∧ (∀ ops : List KOp, t.runB crc32c t.toFirstB ops = t.run crc32c t.toFirst ops) := by
  obtain ⟨s1, hs1, _⟩ := seal_eq hseal
  obtain ⟨h1, h2, h3, h4⟩ := sealed_side_conditions o atts hts s1 hs1
  exact sst_file_roundtrip_bcur_crc32c o ho atts filter setsum f s1 hs1 hseal hts h1 h2 h3 h4 hsetsum hfilter hsize hbE hbF

end Blue.SstOpen

#print axioms Blue.SstOpen.sst_file_roundtrip_limits
#print axioms Blue.SstOpen.sst_file_roundtrip_bcur_limits
