import Blue.Proofs.RrrCfLayoutDef
/-! The queries of cf_rrr on a vector that satisfies `Layout bits v` answer as the plain bit array. -/
namespace Blue.RrrCf
open Blue.BitArr Blue.Rrr

theorem arLoop_succ (b : List Bool) (f : Nat) (it : FwIter) (index oRel rank : Nat) :
    arLoop b (f + 1) it index oRel rank =
      if index ≥ 63 then
        match fwNext b it with
        | none => none
        | some (c, it') => arLoop b f it' (index - 63) (oRel + lOf c) (rank + c)
      else some (it, index, oRel, rank) := rfl

theorem selInner_succ (v : Vec) (zero : Bool) (x base f : Nat) (it : FwIter) (oRel rank index : Nat) (itered : Bool) :
    selInner v zero x base (f + 1) it oRel rank index itered =
      match fwNext v.b it with
      | none => Inner.done itered
      | some (c, it') =>
        if rank + addRank zero c ≥ x then Inner.ret (selFound v zero x base oRel rank index c)
        else selInner v zero x base f it' (oRel + lOf c) (rank + addRank zero c) (index + 63) true := rfl

theorem selOuter_succ (v : Vec) (zero : Bool) (x f blk : Nat) :
    selOuter v zero x (f + 1) blk =
      match load v.p (blk * v.pWidth) v.pWidth with
      | none => Res.ok none
      | some indexOfBlock =>
        match loadRank v zero blk indexOfBlock with
        | none => Res.ok none
        | some none => Res.panic
        | some (some rank) =>
          if rank > x then Res.panic
          else
            match selInner v zero x (indexOfBlock + v.rWidth + v.wordsPerBlock * 6)
                (v.wordsPerBlock + 1) (fwNew (indexOfBlock + v.rWidth) (v.wordsPerBlock * 6) 6) 0 rank
                (blk * v.wordsPerBlock * 63) false with
            | Inner.ret r => Res.ok r
            | Inner.done itered => if itered then selOuter v zero x f (blk + 1) else Res.ok none := rfl

section
variable (ws : WordSpec) {bits : List Bool} {v : Vec} (L : Layout bits v)
include ws L

/-! ### access_rank -/

theorem arLoop_spec {k off : Nat} (hB : BlockAt bits v k off) :
    ∀ (n t f : Nat) (it : FwIter) (rem oRel rank : Nat), rem / 63 = n → t + n < 23 → n < f →
      FwInv v.b (off + v.rWidth) 138 6 (6 * t) it → oRel = oSum bits (23 * k) t →
      rank = ones bits (63 * (23 * k + t)) →
      ∃ it', arLoop v.b f it rem oRel rank
          = some (it', rem % 63, oSum bits (23 * k) (t + n), ones bits (63 * (23 * k + (t + n))))
        ∧ FwInv v.b (off + v.rWidth) 138 6 (6 * (t + n)) it' := by
  intro n
  induction n with
  | zero =>
    intro t f it rem oRel rank hrem _ hf inv ho hr
    obtain ⟨f', rfl⟩ : ∃ f', f = f' + 1 := ⟨f - 1, by omega⟩
    rw [arLoop_succ, if_neg (by omega)]
    refine ⟨it, ?_, inv⟩
    rw [Nat.mod_eq_of_lt (by omega), ho, hr]; rfl
  | succ n ih =>
    intro t f it rem oRel rank hrem ht hf inv ho hr
    obtain ⟨f', rfl⟩ : ∃ f', f = f' + 1 := ⟨f - 1, by omega⟩
    rw [arLoop_succ, if_pos (by omega)]
    obtain ⟨it1, h1, inv1⟩ := fwNext_step_load v.b L.hb8 (off + v.rWidth) 138 6 (6 * t)
      (cls bits (23 * k + t)) it hB.inside (by omega) (by omega) (by omega) inv (hB.cl t (by omega))
    rw [h1]
    simp only
    have e6 : 6 * t + 6 = 6 * (t + 1) := by omega
    rw [e6] at inv1
    obtain ⟨it', h2, inv2⟩ := ih (t + 1) f' it1 (rem - 63) (oRel + lOf (cls bits (23 * k + t)))
      (rank + cls bits (23 * k + t)) (by omega) (by omega) (by omega) inv1
      (by rw [ho, oSum_succ]) (by
        rw [hr, cls_eq ws, ← ones_slot bits _ 63 (Nat.le_refl _)]
        congr 1)
    refine ⟨it', ?_, ?_⟩
    · rw [h2]
      have e1 : (rem - 63) % 63 = rem % 63 := by omega
      have e2 : t + 1 + n = t + (n + 1) := by omega
      rw [e1, e2]
    · have e2 : t + 1 + n = t + (n + 1) := by omega
      rw [← e2]; exact inv2

theorem accessRankBody_spec (x : Nat) (hx : x < bits.length) :
    accessRankBody v x = some (bits.getD x false, ones bits x) := by
  have hk : x / 1449 < nbOf bits := by unfold nbOf nwOf; omega
  obtain ⟨off, hp, hB⟩ := L.pLoad (x / 1449) hk
  unfold accessRankBody
  have hstride : v.wordsPerBlock * 63 = 1449 := by rw [L.hwpb]
  have h6 : v.wordsPerBlock * 6 = 138 := by rw [L.hwpb]
  simp only [hstride, h6]
  rw [hp]
  simp only
  rw [hB.rank]
  simp only
  generalize hrem : x - x / 1449 * 1449 = rem
  have hrem1 : rem < 1449 := by omega
  obtain ⟨it', h1, inv1⟩ := arLoop_spec ws L hB (rem / 63) 0 (rem / 63 + 1) (fwNew (off + v.rWidth) 138 6) rem 0
    (ones bits (63 * (23 * (x / 1449)))) rfl (by omega) (by omega) (fwInv_new _ _ _ _) (oSum_zero _ _).symm rfl
  have e0 : 0 + rem / 63 = rem / 63 := by omega
  rw [e0] at h1 inv1
  rw [h1]
  simp only
  have ht : rem / 63 < 23 := by omega
  obtain ⟨it2, h2, _⟩ := fwNext_step_load v.b L.hb8 (off + v.rWidth) 138 6 (6 * (rem / 63))
      (cls bits (23 * (x / 1449) + rem / 63)) it' hB.inside (by omega) (by omega) (by omega) inv1 (hB.cl _ ht)
  rw [h2]
  simp only
  rw [hB.of _ ht]
  simp only
  rw [decode_slot ws]
  simp only
  have hr63 : rem % 63 < 63 := by omega
  have hxi : 63 * (23 * (x / 1449) + rem / 63) + rem % 63 = x := by omega
  have hA : bitAt (wd bits (23 * (x / 1449) + rem / 63)) (rem % 63) = bits.getD x false := by
    unfold wd
    rw [ws.bitAt_ofBits _ _ (chunk_length_le _ _), chunk_getD _ _ _ hr63, hxi]
  have hR : ones bits (63 * (23 * (x / 1449) + rem / 63)) + lowPop (wd bits (23 * (x / 1449) + rem / 63)) (rem % 63)
      = ones bits x := by
    unfold wd
    rw [ws.lowPop_ofBits _ _ (chunk_length_le _ _) (by omega)]
    have := ones_slot bits (23 * (x / 1449) + rem / 63) (rem % 63) (by omega)
    rw [hxi] at this
    rw [this]
    rfl
  rw [hA, hR]

theorem accessRank_spec (x : Nat) :
    accessRank v x = if x ≤ bits.length then some (bits.getD x false, (bits.take x).count true) else none := by
  unfold accessRank len
  rw [L.hbits]
  by_cases h1 : x > bits.length
  · rw [if_pos h1, if_neg (show ¬ x ≤ bits.length by omega)]
  · rw [if_neg h1, if_pos (show x ≤ bits.length by omega)]
    by_cases h2 : x = 0 ∧ bits.length = 0
    · rw [if_pos h2]
      obtain ⟨rfl, hl⟩ := h2
      have : bits = [] := List.eq_nil_of_length_eq_zero hl
      subst this
      rfl
    · rw [if_neg h2]
      by_cases h3 : x = bits.length
      · have hx0 : x ≠ 0 := fun h0 => h2 ⟨h0, by omega⟩
        rw [if_pos h3, accessRankBody_spec ws L (x - 1) (by omega)]
        simp only
        subst h3
        have hx1 : bits.length - 1 + 1 = bits.length := by omega
        have hc := Blue.BitVec.count_take_succ bits true (bits.length - 1)
        rw [hx1] at hc
        rw [hc]
        have hg : bits.getD bits.length false = false := by
          rw [List.getD_eq_getElem?_getD, List.getElem?_eq_none (Nat.le_refl _)]; rfl
        rw [hg]
        congr 2
        unfold ones
        congr 1
        have hlt : bits.length - 1 < bits.length := by omega
        rw [List.getD_eq_getElem?_getD, List.getElem?_eq_getElem hlt]
        cases bits[bits.length - 1] <;> simp
      · rw [if_neg h3, accessRankBody_spec ws L x (by omega)]
        rfl

theorem access_spec (x : Nat) : access v x = Blue.BitVec.access bits x := by
  unfold access Blue.BitVec.access len
  rw [L.hbits]
  by_cases h : x < bits.length
  · rw [if_pos h, accessRank_spec ws L, if_pos (by omega)]
    rw [List.getD_eq_getElem?_getD, List.getElem?_eq_getElem h]
    rfl
  · rw [if_neg h, List.getElem?_eq_none (by omega)]

theorem rank_spec (x : Nat) : rank v x = Blue.BitVec.rank bits x := by
  unfold rank Blue.BitVec.rank
  rw [accessRank_spec ws L]
  by_cases h : x ≤ bits.length
  · rw [if_pos h, if_pos h]; rfl
  · rw [if_neg h, if_neg h]; rfl

/-! ### select -/

omit ws L in
/-- the least position found inside slot `i` is the least position of the whole pattern -/
theorem slot_min (zero : Bool) (x i q : Nat) (hq : q ≤ 63) (hlt : cntE zero bits (63 * i) < x)
    (hmin : ∀ q', q' < q → cntE zero (chunk bits i) q' < x - cntE zero bits (63 * i)) :
    ∀ p, p < 63 * i + q → cntE zero bits p < x := by
  intro p hp
  rcases Nat.le_total p (63 * i) with h | h
  · exact Nat.lt_of_le_of_lt (cntE_mono zero bits h) hlt
  · have e : p = 63 * i + (p - 63 * i) := by omega
    have := hmin (p - 63 * i) (by omega)
    rw [e, cntE_slot zero bits i _ (by omega)]
    omega

theorem selFound_spec (zero : Bool) (x : Nat) {k off : Nat} (hB : BlockAt bits v k off) (t : Nat) (ht : t < 23)
    (hlt : cntE zero bits (63 * (23 * k + t)) < x)
    (hge : x ≤ cntE zero bits (63 * (23 * k + t)) + cntE zero (chunk bits (23 * k + t)) 63) :
    selFound v zero x (off + v.rWidth + 138) (oSum bits (23 * k) t) (cntE zero bits (63 * (23 * k + t)))
      (63 * (23 * k + t)) (cls bits (23 * k + t)) = selRef zero bits x := by
  unfold selFound
  rw [hB.of t ht]
  simp only
  rw [decode_slot ws]
  simp only
  obtain ⟨q, hq, hq63, hqc, hqmin⟩ := wordSelect_slot ws zero bits (23 * k + t)
    (x - cntE zero bits (63 * (23 * k + t))) (by omega) (by omega)
  rw [hq]
  simp only
  have hmin := slot_min zero x (23 * k + t) q hq63 hlt hqmin
  unfold len
  rw [L.hbits]
  by_cases h : 63 * (23 * k + t) + q ≤ bits.length
  · rw [if_pos h]
    symm
    apply selRef_some zero bits x _ h _ hmin
    rw [cntE_slot zero bits _ _ hq63, hqc]
    omega
  · rw [if_neg h]
    symm
    exact selRef_none zero bits x _ (by omega) hmin

theorem selInner_spec (zero : Bool) (x : Nat) {k off : Nat} (hB : BlockAt bits v k off) (base : Nat)
    (hbase : base = off + v.rWidth + 138) :
    ∀ (n t f : Nat) (it : FwIter) (oRel rank index : Nat) (itered : Bool), t + n = 23 → n < f →
      FwInv v.b (off + v.rWidth) 138 6 (6 * t) it → oRel = oSum bits (23 * k) t →
      rank = cntE zero bits (63 * (23 * k + t)) → index = 63 * (23 * k + t) → rank < x →
      (itered = true ∨ t < 23) →
      selInner v zero x base f it oRel rank index itered = Inner.ret (selRef zero bits x)
      ∨ (selInner v zero x base f it oRel rank index itered = Inner.done true
          ∧ cntE zero bits (63 * (23 * (k + 1))) < x) := by
  intro n
  induction n with
  | zero =>
    intro t f it oRel rank index itered htn hf inv ho hr hi hlt hit
    obtain ⟨f', rfl⟩ : ∃ f', f = f' + 1 := ⟨f - 1, by omega⟩
    have ht : t = 23 := by omega
    subst ht
    rw [selInner_succ, fwNext_end v.b (off + v.rWidth) 138 6 it (by omega) inv]
    right
    have : itered = true := by
      rcases hit with h | h
      · exact h
      · omega
    subst this
    refine ⟨rfl, ?_⟩
    have e : 63 * (23 * (k + 1)) = 63 * (23 * k + 23) := by omega
    rw [e, ← hr]; exact hlt
  | succ n ih =>
    intro t f it oRel rank index itered htn hf inv ho hr hi hlt hit
    obtain ⟨f', rfl⟩ : ∃ f', f = f' + 1 := ⟨f - 1, by omega⟩
    have ht : t < 23 := by omega
    rw [selInner_succ]
    obtain ⟨it1, h1, inv1⟩ := fwNext_step_load v.b L.hb8 (off + v.rWidth) 138 6 (6 * t)
      (cls bits (23 * k + t)) it hB.inside (by omega) (by omega) (by omega) inv (hB.cl t ht)
    rw [h1]
    simp only
    rw [addRank_cls ws]
    by_cases hge : rank + cntE zero (chunk bits (23 * k + t)) 63 ≥ x
    · rw [if_pos hge]
      left
      rw [hbase, ho, hr, hi]
      rw [hr] at hge hlt
      rw [selFound_spec ws L zero x hB t ht hlt hge]
    · rw [if_neg hge]
      have e6 : 6 * t + 6 = 6 * (t + 1) := by omega
      rw [e6] at inv1
      have e63 : 63 * (23 * k + (t + 1)) = 63 * (23 * k + t) + 63 := by omega
      apply ih (t + 1) f' it1 _ _ _ true (by omega) (by omega) inv1
      · rw [ho, oSum_succ]
      · rw [hr, e63, cntE_slot zero bits _ 63 (Nat.le_refl _)]
      · rw [hi, e63]
      · omega
      · left; rfl

omit ws in
theorem loadRank_spec (zero : Bool) {k off : Nat} (hB : BlockAt bits v k off) :
    loadRank v zero k off = some (some (cntE zero bits (63 * (23 * k)))) := by
  unfold loadRank
  rw [hB.rank]
  simp only
  have h1 := ones_le bits (63 * (23 * k))
  cases zero with
  | false => rfl
  | true =>
    simp only [if_true]
    rw [L.hsamp, if_pos (by omega)]
    unfold cntE
    simp only [if_true]
    congr 2
    omega

theorem selOuter_spec (zero : Bool) (x : Nat) (_hx : 0 < x) (hnb : 0 < nbOf bits) :
    ∀ (n k f : Nat), k + n = nbOf bits → n < f → cntE zero bits (63 * (23 * k)) < x →
      selOuter v zero x f k = Res.ok (selRef zero bits x) := by
  intro n
  induction n with
  | zero =>
    intro k f hk hf hlt
    obtain ⟨f', rfl⟩ : ∃ f', f = f' + 1 := ⟨f - 1, by omega⟩
    rw [selOuter_succ, L.pNone k (by omega) (by omega)]
    simp only
    congr 1
    symm
    apply selRef_none zero bits x (63 * (23 * k) + 1)
    · have : k = nbOf bits := by omega
      rw [this]; unfold nbOf nwOf; omega
    · intro q hq
      exact Nat.lt_of_le_of_lt (cntE_mono zero bits (show q ≤ 63 * (23 * k) by omega)) hlt
  | succ n ih =>
    intro k f hk hf hlt
    obtain ⟨f', rfl⟩ : ∃ f', f = f' + 1 := ⟨f - 1, by omega⟩
    obtain ⟨off, hp, hB⟩ := L.pLoad k (by omega)
    rw [selOuter_succ, hp]
    simp only
    rw [loadRank_spec L zero hB]
    simp only
    rw [if_neg (by omega)]
    have h6 : v.wordsPerBlock * 6 = 138 := by rw [L.hwpb]
    rw [h6, L.hwpb]
    rcases selInner_spec ws L zero x hB (off + v.rWidth + 138) rfl 23 0 (23 + 1)
        (fwNew (off + v.rWidth) 138 6) 0 (cntE zero bits (63 * (23 * k))) (k * 23 * 63) false
        (by omega) (by omega) (fwInv_new _ _ _ _) (oSum_zero _ _).symm rfl (by omega) hlt (Or.inr (by omega))
      with h | ⟨h, hlt'⟩
    · rw [h]
    · rw [h]
      simp only [if_true]
      exact ih (k + 1) f' (by omega) (by omega) hlt'

theorem selectRes_spec (zero : Bool) (x : Nat) : selectRes v zero x = Res.ok (selRef zero bits x) := by
  unfold selectRes
  by_cases hx0 : x = 0
  · rw [if_pos hx0]
    subst hx0
    congr 1
    symm
    exact selRef_some zero bits 0 0 (Nat.zero_le _) (cntE_zero _ _) (fun q hq => absurd hq (Nat.not_lt_zero q))
  · rw [if_neg hx0]
    have hstride : v.wordsPerBlock * 63 = 1449 := by rw [L.hwpb]
    simp only [hstride]
    obtain ⟨S, hS1, hS2⟩ := L.samp zero
    cases hj : S[x / 1449]? with
    | none =>
      have hlen : S.length ≤ x / 1449 := by
        rcases Nat.lt_or_ge (x / 1449) S.length with h | h
        · rw [List.getElem?_eq_getElem h] at hj; cases hj
        · exact h
      obtain ⟨h1, h2⟩ := hS2 _ hlen
      rw [h1]
      simp only
      congr 1
      symm
      apply selRef_none zero bits x (bits.length + 1) (by omega)
      intro q hq
      exact Nat.lt_of_le_of_lt (cntE_mono zero bits (show q ≤ bits.length by omega)) (h2 x (by omega) rfl)
    | some b =>
      obtain ⟨h1, h2, h3⟩ := hS1 _ _ hj
      rw [h1]
      simp only
      apply selOuter_spec ws L zero x (by omega) (by omega) (nbOf bits - b) b (v.p.length + 1) (by omega)
        (by have := L.hpfuel; omega)
      rcases h3 with h | h
      · subst h
        rw [cntE_zero]; omega
      · omega

end

end Blue.RrrCf
