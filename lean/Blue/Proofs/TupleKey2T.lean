import Blue.Model.TupleKey2T
import Blue.Proofs.TupleKey2
/-! **C16** compact format, the typed layer: tuples compose, and `TupleKeyParser` with the
    writer's type sequence gives the tuple back. -/
namespace Blue.TupleKey2

/-! ### tuples -/

/-- what the builder writes for a value, whatever the width of the method used -/
def encVal' : Val → List Nat
  | .unit => encodeUnit
  | .nat n => encodeU64 n
  | .int z => encodeI64 z
  | .bytes s => encodeBytes s

def encVals : List Val → List Nat
  | [] => []
  | v :: vs => encVal' v ++ encVals vs

theorem encVal_eq {t : Ty} {v : Val} {bs : List Nat} (h : encVal t v = some bs) : bs = encVal' v := by
  cases t <;> cases v <;> simp [encVal] at h <;> simp [encVal', h]

theorem encRow_eq : ∀ {r : List (Ty × Val)} {bs : List Nat}, encRow r = some bs → bs = encVals (r.map (·.2))
  | [], bs, h => by simp [encRow] at h; simp [encVals, h]
  | (t, v) :: r, bs, h => by
    simp only [encRow] at h
    cases h1 : encVal t v with
    | none => simp [h1] at h
    | some a =>
      cases h2 : encRow r with
      | none => simp [h1, h2] at h
      | some b =>
        simp only [h1, h2, Option.some.injEq] at h
        rw [← h, encVal_eq h1, encRow_eq h2]
        rfl

/-- `Ord` on two values of the same kind (`False` across kinds and on units) -/
def Val.lt : Val → Val → Prop
  | .nat a, .nat b => a < b
  | .int a, .int b => a < b
  | .bytes a, .bytes b => slt a b
  | _, _ => False

def Val.InRange : Val → Prop
  | .int z => I64 z
  | _ => True

theorem encVal'_strong : Strong encVal' (fun a b => a.InRange ∧ b.InRange ∧ Val.lt a b) := by
  intro a b ⟨ha, hb, hlt⟩ x y
  cases a <;> cases b <;> simp only [Val.lt] at hlt <;> simp only [encVal']
  · exact encodeU64_strong _ _ hlt x y
  · exact encodeI64_strong _ _ ⟨hlt, ha, hb⟩ x y
  · exact encodeBytes_strong _ _ hlt x y

/-- element-by-element order of two tuples -/
def rowLt : List Val → List Val → Prop
  | a :: as, b :: bs => Val.lt a b ∨ (a = b ∧ rowLt as bs)
  | _, _ => False

def RowInRange (r : List Val) : Prop := ∀ v ∈ r, v.InRange

/-- **C16** tuples, compact format -/
theorem encVals_strong : Strong encVals (fun a b => RowInRange a ∧ RowInRange b ∧ rowLt a b) := by
  intro a
  induction a with
  | nil => intro b ⟨_, _, h⟩; cases b <;> simp [rowLt] at h
  | cons va as ih =>
    intro b ⟨ha, hb, hlt⟩ x y
    cases b with
    | nil => simp [rowLt] at hlt
    | cons vb bs =>
      simp only [rowLt] at hlt
      simp only [encVals, List.append_assoc]
      rcases hlt with h | ⟨rfl, h⟩
      · exact encVal'_strong va vb ⟨ha va (by simp), hb vb (by simp), h⟩ _ _
      · rw [blt_append_left]
        exact ih bs ⟨fun v hv => ha v (List.mem_cons_of_mem _ hv),
          fun v hv => hb v (List.mem_cons_of_mem _ hv), h⟩ x y

/-- the same about the builder the driver runs -/
theorem encRow_strong {ra rb : List (Ty × Val)} {ea eb : List Nat}
    (ha : encRow ra = some ea) (hb : encRow rb = some eb)
    (ia : RowInRange (ra.map (·.2))) (ib : RowInRange (rb.map (·.2)))
    (h : rowLt (ra.map (·.2)) (rb.map (·.2))) (x y : List Nat) : blt (ea ++ x) (eb ++ y) = true := by
  rw [encRow_eq ha, encRow_eq hb]
  exact encVals_strong _ _ ⟨ia, ib, h⟩ x y

theorem encVals_append (s t : List Val) : encVals (s ++ t) = encVals s ++ encVals t := by
  induction s with
  | nil => rfl
  | cons v s ih => simp only [List.cons_append, encVals, ih, List.append_assoc]

theorem encVal'_ne_nil (v : Val) : encVal' v ≠ [] := by
  cases v with
  | unit => simp [encVal', encodeUnit]
  | nat n => simp [encVal', encodeU64]
  | int z => simp only [encVal', encodeI64]; split <;> simp
  | bytes s =>
    simp only [encVal']
    cases s with
    | nil => simp [encodeBytes]
    | cons b bs => simp only [encodeBytes]; split <;> simp

/-- **C16** prefix contiguity, compact format -/
theorem vals_extension_after (t e : List Val) (he : e ≠ []) : blt (encVals t) (encVals (t ++ e)) = true := by
  rw [encVals_append]
  apply extension_after
  cases e with
  | nil => exact absurd rfl he
  | cons v vs =>
    simp only [encVals]
    intro h
    exact encVal'_ne_nil v (List.append_eq_nil_iff.mp h).1

theorem vals_extension_before (t t' e e' : List Val) (ht : RowInRange t) (ht' : RowInRange t')
    (h : rowLt t t') : blt (encVals (t ++ e)) (encVals (t' ++ e')) = true := by
  rw [encVals_append, encVals_append]
  exact encVals_strong t t' ⟨ht, ht', h⟩ _ _

/-! ### the parser -/

theorem fromBigEndian_bigEndian (v : Nat) : ∀ L, fromBigEndian (bigEndian v L) = v % 256 ^ L
  | 0 => by simp [bigEndian, fromBigEndian, Nat.mod_one]
  | L + 1 => by
    simp only [bigEndian, fromBigEndian, bigEndian_length, fromBigEndian_bigEndian v L]
    rw [Nat.pow_succ, Nat.mod_mul]
    rw [Nat.mul_comm (256 ^ L)]
    omega

theorem take_bigEndian (v L : Nat) (rest : List Nat) : (bigEndian v L ++ rest).take L = bigEndian v L :=
  List.take_left' (bigEndian_length v L)

theorem drop_bigEndian (v L : Nat) (rest : List Nat) : (bigEndian v L ++ rest).drop L = rest :=
  List.drop_left' (bigEndian_length v L)

/-- **C16** `u64` decodes back -/
theorem parseU64_encode (v : Nat) (hv : v < 18446744073709551616) (rest : List Nat) :
    parseU64 (encodeU64 v ++ rest) = .ok (v, rest) := by
  have hl : minLen v ≤ 8 := minLen_le_of_lt_pow 8 v (by simpa using hv)
  have hval : fromBigEndian (bigEndian v (minLen v)) = v := by
    rw [fromBigEndian_bigEndian, Nat.mod_eq_of_lt (lt_pow_minLen v)]
  have c1 : UNSIGNED_BASE ≤ UNSIGNED_BASE + minLen v ∧ UNSIGNED_BASE + minLen v ≤ UNSIGNED_LAST := by
    unfold UNSIGNED_BASE UNSIGNED_LAST; omega
  have e1 : UNSIGNED_BASE + minLen v - UNSIGNED_BASE = minLen v := Nat.add_sub_cancel_left ..
  have c2 : ¬ (minLen v + rest.length < minLen v) := by omega
  unfold encodeU64
  simp only [List.cons_append, parseU64]
  rw [if_pos c1]
  simp only [e1, take_bigEndian, drop_bigEndian, hval, List.length_append, bigEndian_length]
  simp [c2]

/-- **C16** `i64` decodes back -/
theorem parseI64_encode (z : Int) (hz : I64 z) (rest : List Nat) :
    parseI64 (encodeI64 z ++ rest) = .ok (z, rest) := by
  obtain ⟨h1, h2⟩ := hz
  unfold encodeI64
  by_cases hneg : z < 0
  · rw [if_pos hneg]
    simp only
    generalize hm : (-z - 1).toNat = m
    have hmlt : m < 9223372036854775808 := by omega
    have hl : minLen m ≤ 8 := minLen_le_8 hmlt
    have hp := lt_pow_minLen m
    have c1 : SIGNED_NEG_BASE ≤ SIGNED_NEG_BASE + (8 - minLen m) ∧ SIGNED_NEG_BASE + (8 - minLen m) ≤ SIGNED_NEG_LAST := by
      unfold SIGNED_NEG_BASE SIGNED_NEG_LAST; omega
    have e1 : 8 - (SIGNED_NEG_BASE + (8 - minLen m) - SIGNED_NEG_BASE) = minLen m := by
      rw [Nat.add_sub_cancel_left]; omega
    have c2 : ¬ (minLen m + rest.length < minLen m) := by omega
    have hmag : negMagnitude (bigEndian (256 ^ minLen m - 1 - m) (minLen m)) = m := by
      unfold negMagnitude
      rw [bigEndian_length, fromBigEndian_bigEndian, Nat.mod_eq_of_lt (by omega)]
      omega
    have c3 : ¬ (m > 9223372036854775807) := by omega
    have hres : -(m : Int) - 1 = z := by omega
    simp only [List.cons_append, parseI64]
    rw [if_pos c1]
    simp only [e1, take_bigEndian, drop_bigEndian, hmag, List.length_append, bigEndian_length]
    simp [c2, c3, hres]
  · rw [if_neg hneg]
    simp only
    generalize hm : z.toNat = m
    have hmlt : m < 9223372036854775808 := by omega
    have hl : minLen m ≤ 8 := minLen_le_8 hmlt
    have hval : fromBigEndian (bigEndian m (minLen m)) = m := by
      rw [fromBigEndian_bigEndian, Nat.mod_eq_of_lt (lt_pow_minLen m)]
    have c0 : ¬ (SIGNED_NEG_BASE ≤ SIGNED_NONNEG_BASE + minLen m ∧ SIGNED_NONNEG_BASE + minLen m ≤ SIGNED_NEG_LAST) := by
      unfold SIGNED_NEG_BASE SIGNED_NEG_LAST SIGNED_NONNEG_BASE; omega
    have c1 : SIGNED_NONNEG_BASE ≤ SIGNED_NONNEG_BASE + minLen m ∧ SIGNED_NONNEG_BASE + minLen m ≤ SIGNED_NONNEG_LAST := by
      unfold SIGNED_NONNEG_BASE SIGNED_NONNEG_LAST; omega
    have e1 : SIGNED_NONNEG_BASE + minLen m - SIGNED_NONNEG_BASE = minLen m := Nat.add_sub_cancel_left ..
    have c2 : ¬ (minLen m + rest.length < minLen m) := by omega
    have c3 : ¬ (m > 9223372036854775807) := by omega
    have hres : (m : Int) = z := by omega
    simp only [List.cons_append, parseI64]
    rw [if_neg c0, if_pos c1]
    simp only [e1, take_bigEndian, drop_bigEndian, hval, List.length_append, bigEndian_length]
    simp [c2, c3, hres]

/-- **C16** byte strings decode back through the error-reporting parser as well -/
theorem parseBytes_encode :
    ∀ (s rest : List Nat) (fuel : Nat), (encodeBytes s).length ≤ fuel →
      parseBytes fuel (encodeBytes s ++ rest) = .ok (s, rest) := by
  intro s
  induction s with
  | nil =>
    intro rest fuel hf
    cases fuel with
    | zero => simp [encodeBytes] at hf
    | succ f => simp [encodeBytes, parseBytes]
  | cons b bs ih =>
    intro rest fuel hf
    cases fuel with
    | zero => simp [encodeBytes] at hf; split at hf <;> simp at hf
    | succ f =>
      by_cases h0 : b = 0
      · subst h0
        simp only [encodeBytes, if_true, List.cons_append, List.length_cons] at hf ⊢
        simp only [parseBytes, if_true]
        rw [ih rest f (by omega)]
        simp
      · simp only [encodeBytes, h0, if_false, List.cons_append, List.length_cons] at hf ⊢
        simp only [parseBytes, h0, if_false]
        rw [ih rest f (by omega)]

/-- the value fits the builder method's argument type (`String`s are UTF-8) -/
def TyOk : Ty → Val → Prop
  | .unit, .unit => True
  | .u8, .nat n => n < 256
  | .u16, .nat n => n < 65536
  | .u32, .nat n => n < 4294967296
  | .u64, .nat n => n < 18446744073709551616
  | .i8, .int z => -128 ≤ z ∧ z < 128
  | .i16, .int z => -32768 ≤ z ∧ z < 32768
  | .i32, .int z => -2147483648 ≤ z ∧ z < 2147483648
  | .i64, .int z => I64 z
  | .bytes, .bytes _ => True
  | .str, .bytes s => Blue.Utf8.valid s = true
  | _, _ => False

theorem encodeBytes_length_le (s rest : List Nat) : (encodeBytes s).length ≤ (encodeBytes s ++ rest).length + 1 := by
  rw [List.length_append]; omega

/-- **C16** one typed parser call gives the element back and stands behind it -/
theorem parseVal_encVal (t : Ty) (v : Val) (h : TyOk t v) (rest : List Nat) :
    parseVal t (encVal' v ++ rest) = .ok (v, rest) := by
  cases t <;> cases v <;> simp only [TyOk] at h <;> simp only [encVal', parseVal]
  · simp [encodeUnit, parseUnit]
  · rw [parseU64_encode _ (by omega)]; simp [natFits, h]
  · rw [parseU64_encode _ (by omega)]; simp [natFits, h]
  · rw [parseU64_encode _ (by omega)]; simp [natFits, h]
  · rw [parseU64_encode _ h]; simp [natFits]
  · rw [parseI64_encode _ ⟨by omega, by omega⟩]; simp [intFits, h]
  · rw [parseI64_encode _ ⟨by omega, by omega⟩]; simp [intFits, h]
  · rw [parseI64_encode _ ⟨by omega, by omega⟩]; simp [intFits, h]
  · rw [parseI64_encode _ h]; simp [intFits]
  · rw [parseBytes_encode _ _ _ (encodeBytes_length_le _ _)]
  · rw [parseBytes_encode _ _ _ (encodeBytes_length_le _ _)]; simp [h]

/-- **C16** decoding an encoding with the writer's type sequence returns the tuple, and `finish`
    accepts -/
theorem parseRow_encode : ∀ (r : List (Ty × Val)), (∀ e ∈ r, TyOk e.1 e.2) →
    parseRow (r.map (·.1)) (encVals (r.map (·.2))) = (r.map (·.2), none)
  | [], _ => rfl
  | (t, v) :: r, h => by
    simp only [List.map_cons, encVals, parseRow]
    rw [parseVal_encVal t v (h (t, v) (by simp))]
    simp only
    rw [parseRow_encode r (fun e he => h e (List.mem_cons_of_mem _ he))]

end Blue.TupleKey2
