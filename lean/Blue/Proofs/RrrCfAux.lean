import Blue.Model.RrrCf
import Blue.Proofs.BitVecLaws
/-! List-level facts for the cf_rrr proofs: counting set / clear bits in prefixes of a bit pattern
    (`ones`, `cntE`: the pattern is thought of as followed by clear bits for ever, which is how the
    encoding pads the short last word and the short last block), the reference `select` / `select0`
    characterised through them, and `calc_width`. -/
namespace Blue.RrrCf
open Blue.BitArr

/-- set bits among the first `q` -/
def ones (bits : List Bool) (q : Nat) : Nat := (bits.take q).count true

/-- set (`zero = false`) or clear (`zero = true`) bits among the first `q` bits of the pattern
    followed by clear bits for ever -/
def cntE (zero : Bool) (bits : List Bool) (q : Nat) : Nat := if zero then q - ones bits q else ones bits q

/-- the reference answer: the trait's default `select0` / `select` on the plain bit array -/
def selRef (zero : Bool) (bits : List Bool) (x : Nat) : Option Nat :=
  if zero then Blue.BitVec.select0 bits x else Blue.BitVec.select bits x

theorem ones_zero (bits : List Bool) : ones bits 0 = 0 := by simp [ones]

theorem ones_le (bits : List Bool) (q : Nat) : ones bits q ≤ q := by
  unfold ones
  have h1 := List.count_le_length (a := true) (l := bits.take q)
  have h2 := List.length_take_le q bits
  omega

theorem ones_le_len (bits : List Bool) (q : Nat) : ones bits q ≤ bits.length := by
  unfold ones
  have h1 := List.count_le_length (a := true) (l := bits.take q)
  have h2 := List.length_take_le' q bits
  omega

theorem ones_add (bits : List Bool) (a q : Nat) : ones bits (a + q) = ones bits a + ones (bits.drop a) q := by
  unfold ones
  rw [List.take_add, List.count_append]

theorem ones_succ_le (bits : List Bool) (q : Nat) : ones bits (q + 1) ≤ ones bits q + 1 := by
  rw [ones_add]
  have := ones_le (bits.drop q) 1
  omega

theorem ones_le_succ (bits : List Bool) (q : Nat) : ones bits q ≤ ones bits (q + 1) := by
  rw [ones_add]; omega

theorem ones_mono (bits : List Bool) {i j : Nat} (h : i ≤ j) : ones bits i ≤ ones bits j :=
  Blue.BitVec.count_take_mono bits h

theorem ones_ge_len (bits : List Bool) (q : Nat) (h : bits.length ≤ q) : ones bits q = bits.count true := by
  unfold ones; rw [List.take_of_length_le h]

theorem ones_take (l : List Bool) (m q : Nat) (h : q ≤ m) : ones (l.take m) q = ones l q := by
  unfold ones; rw [List.take_take, Nat.min_eq_left h]

theorem ones_append_false (l : List Bool) (m q : Nat) : ones (l ++ List.replicate m false) q = ones l q := by
  unfold ones
  rw [List.take_append, List.count_append, List.take_replicate, List.count_replicate]
  simp

theorem cntE_zero (zero : Bool) (bits : List Bool) : cntE zero bits 0 = 0 := by
  unfold cntE; rw [ones_zero]; split <;> rfl

theorem cntE_succ_le (zero : Bool) (bits : List Bool) (q : Nat) : cntE zero bits (q + 1) ≤ cntE zero bits q + 1 := by
  unfold cntE
  have h1 := ones_succ_le bits q
  have h2 := ones_le_succ bits q
  split <;> omega

theorem cntE_le_succ (zero : Bool) (bits : List Bool) (q : Nat) : cntE zero bits q ≤ cntE zero bits (q + 1) := by
  unfold cntE
  have h1 := ones_succ_le bits q
  have h2 := ones_le_succ bits q
  have h3 := ones_le bits q
  split <;> omega

theorem cntE_mono (zero : Bool) (bits : List Bool) {i j : Nat} (h : i ≤ j) : cntE zero bits i ≤ cntE zero bits j := by
  induction j with
  | zero => have : i = 0 := by omega
            subst this; exact Nat.le_refl _
  | succ j ih =>
    rcases Nat.lt_or_ge i (j + 1) with h1 | h1
    · exact Nat.le_trans (ih (by omega)) (cntE_le_succ zero bits j)
    · have : i = j + 1 := by omega
      subst this; exact Nat.le_refl _

theorem cntE_append_false (zero : Bool) (l : List Bool) (m q : Nat) :
    cntE zero (l ++ List.replicate m false) q = cntE zero l q := by
  unfold cntE; rw [ones_append_false]

/-- position `a + q` seen from position `a` -/
theorem cntE_add (zero : Bool) (bits : List Bool) (a q : Nat) :
    cntE zero bits (a + q) = cntE zero bits a + cntE zero (bits.drop a) q := by
  unfold cntE
  rw [ones_add]
  have h1 := ones_le bits a
  have h2 := ones_le (bits.drop a) q
  split <;> omega

theorem cntE_take (zero : Bool) (l : List Bool) (m q : Nat) (h : q ≤ m) : cntE zero (l.take m) q = cntE zero l q := by
  unfold cntE; rw [ones_take l m q h]

/-- clear bits of a real prefix -/
theorem countf_eq (bits : List Bool) (q : Nat) (h : q ≤ bits.length) : (bits.take q).count false = cntE true bits q := by
  have := Blue.BitVec.count_true_add_false (bits.take q)
  rw [List.length_take, Nat.min_eq_left h] at this
  unfold cntE ones
  simp only [if_true]
  omega

/-- a monotone counting function that starts at 0 and climbs by at most one reaches every value
    on the way at a least position -/
theorem exists_least (f : Nat → Nat) (h0 : f 0 = 0) (hstep : ∀ q, f (q + 1) ≤ f q + 1)
    (hmono : ∀ i j, i ≤ j → f i ≤ f j) :
    ∀ (n y : Nat), y ≤ f n → ∃ p, p ≤ n ∧ f p = y ∧ ∀ q, q < p → f q < y
  | 0, y, hy => ⟨0, Nat.le_refl _, by omega, fun q hq => absurd hq (Nat.not_lt_zero q)⟩
  | n + 1, y, hy => by
    by_cases hle : y ≤ f n
    · obtain ⟨p, h1, h2, h3⟩ := exists_least f h0 hstep hmono n y hle
      exact ⟨p, by omega, h2, h3⟩
    · have := hstep n
      refine ⟨n + 1, Nat.le_refl _, by omega, ?_⟩
      intro q hq
      have := hmono q n (by omega)
      omega

/-! ### the reference `select` / `select0` through `cntE` -/

/-- (A) a least position inside the pattern is what the reference returns -/
theorem selRef_some (zero : Bool) (bits : List Bool) (x p : Nat) (hp : p ≤ bits.length)
    (hx : cntE zero bits p = x) (hmin : ∀ q, q < p → cntE zero bits q < x) :
    selRef zero bits x = some p := by
  cases zero with
  | false =>
    exact Blue.BitVec.select_complete bits x p hp hx hmin
  | true =>
    apply Blue.BitVec.select0_complete bits x p hp
    · rw [countf_eq bits p hp]; exact hx
    · intro q hq
      rw [countf_eq bits q (by omega)]; exact hmin q hq

/-- (B) if every position up to one beyond the pattern counts fewer than `x`, the reference has no answer -/
theorem selRef_none (zero : Bool) (bits : List Bool) (x p : Nat) (hp : bits.length < p)
    (hmin : ∀ q, q < p → cntE zero bits q < x) :
    selRef zero bits x = none := by
  cases zero with
  | false =>
    cases h : selRef false bits x with
    | none => rfl
    | some p' =>
      obtain ⟨h1, h2, _⟩ := Blue.BitVec.select_spec bits x p' h
      have := hmin p' (by omega)
      unfold cntE ones at this
      simp only [Bool.false_eq_true, if_false] at this
      omega
  | true =>
    cases h : selRef true bits x with
    | none => rfl
    | some p' =>
      obtain ⟨h1, h2, _⟩ := Blue.BitVec.select0_spec bits x p' h
      have := hmin p' (by omega)
      rw [← countf_eq bits p' h1] at this
      omega

/-! ### calc_width -/

theorem le_npotAux : ∀ (f p m : Nat), m ≤ p * 2 ^ f → m ≤ npotAux f p m
  | 0, p, m, h => by simpa [npotAux] using h
  | f + 1, p, m, h => by
    rw [npotAux]
    split
    · assumption
    · apply le_npotAux f (2 * p) m
      rw [Nat.pow_succ] at h
      rw [Nat.mul_comm 2 p, Nat.mul_assoc, Nat.mul_comm 2]
      exact h

theorem le_nextPow2 (m : Nat) : m ≤ nextPow2 m := by
  apply le_npotAux
  rw [Nat.one_mul]
  exact Nat.le_of_lt Nat.lt_two_pow_self

theorem lt_ilog2Aux : ∀ (f n : Nat), n < 2 ^ f → n < 2 ^ (ilog2Aux f n + 1)
  | 0, n, h => by
    have : n = 0 := by simpa using h
    subst this; simp [ilog2Aux]
  | f + 1, n, h => by
    rw [ilog2Aux]
    split
    · have h2 : n / 2 < 2 ^ f := by rw [Nat.pow_succ] at h; omega
      have := lt_ilog2Aux f (n / 2) h2
      rw [Nat.pow_succ]
      generalize 2 ^ (ilog2Aux f (n / 2) + 1) = P at *
      omega
    · simp; omega

theorem lt_ilog2 (n : Nat) : n < 2 ^ (ilog2 n + 1) := lt_ilog2Aux n n Nat.lt_two_pow_self

theorem calcWidth_ge (n : Nat) : 8 ≤ calcWidth n := Nat.le_max_right _ _

/-- every value up to `n` fits `calc_width(n)` bits -/
theorem lt_two_pow_calcWidth (v n : Nat) (h : v ≤ n) : v < 2 ^ calcWidth n := by
  have h1 := le_nextPow2 (n + 1)
  have h2 := lt_ilog2 (nextPow2 (n + 1))
  have h3 : 2 ^ (ilog2 (nextPow2 (n + 1)) + 1) ≤ 2 ^ calcWidth n :=
    Nat.pow_le_pow_right (by omega) (Nat.le_max_left _ _)
  omega

end Blue.RrrCf
