import Blue.Proofs.Verifier
/-! A SEMANTIC form of "the verifier keeps the trash a later check needs" (D-28 as repaired), where
    `verifier_keeps_needed_trash` only says that the plan's filter removes what it removes: the
    trash copy of a file that `MANIFEST` itself removes (again) — whatever fragments removed and
    re-created it before — is in `trash/` after every prefix of every pass, provided no such name
    is logged in `verify/` at the start (nothing is, in a fresh directory).  It follows from
    `Legal` alone: a trash entry is unlinked only while its name is logged, a name is logged only
    by an intent, and the repaired plan of an intent leaves out every file `MANIFEST` removes. -/
namespace Blue.Verifier
open Blue.Mani
variable {A : Type}

/-- the trash names of the files `MANIFEST` removes -/
def Protected (d : Dir A) (x : Name) : Prop := ∃ r, r ∈ d.live.flatMap removedBy ∧ x = trashSst r

theorem legalRun_keeps_protected (C : Checker A) (hC : C.asWas = false) :
    ∀ (acts : List (Act A)) (d : Dir A), LegalRun C d acts →
      (∀ x, x ∈ d.vstrs → ¬ Protected d x) →
      ∀ x, Protected d x → x ∈ d.trash → x ∈ (run d acts).trash
  | [], _, _, _, _, _, ht => ht
  | a :: as, d, hl, hv, x, hp, ht => by
    show x ∈ (run (d.apply a) as).trash
    have hp' : Protected (d.apply a) x := by
      obtain ⟨r, hr, hx⟩ := hp
      exact ⟨r, by rw [apply_live]; exact hr, hx⟩
    have hprot : ∀ y, Protected (d.apply a) y → Protected d y := by
      intro y ⟨r, hr, hy⟩
      exact ⟨r, by rw [apply_live] at hr; exact hr, hy⟩
    refine legalRun_keeps_protected C hC as (d.apply a) hl.2 ?_ x hp' ?_
    · -- nothing protected is logged after the action
      intro y hy hpy
      have hpy' := hprot y hpy
      cases a with
      | unlinkFrag n => exact hv y hy hpy'
      | unlinkTrash z => exact hv y hy hpy'
      | clear => cases hy
      | intent n es names o =>
        have hy' : y ∈ names.foldl (fun acc x => insertStr x acc) d.vstrs := hy
        rcases Blue.Orphans.mem_foldl_insertStr names d.vstrs hy' with h | h
        · obtain ⟨r, hr, rfl⟩ := hpy'
          have hlater : r ∈ laterRm d n := List.mem_append_right _ hr
          exact intent_keeps_later C hC d n es names o hl.1 r hlater h
        · exact hv y h hpy'
    · -- the protected entry is still in trash/
      cases a with
      | unlinkFrag n => exact ht
      | unlinkTrash z =>
        have hz : z ∈ d.vstrs := hl.1
        have hne : x ≠ z := fun h => hv z hz (h ▸ hp)
        show x ∈ d.trash.filter (fun y => y != z)
        rw [List.mem_filter]
        exact ⟨ht, by simpa using hne⟩
      | clear => exact ht
      | intent n es names o => exact ht

/-- **the copy `MANIFEST` still needs stays** (as repaired): in a directory in which no trash name
    of a file that `MANIFEST` removes is logged in `verify/` (a fresh one: nothing is logged), the
    trash copy of every file `MANIFEST` removes is in `trash/` after every prefix of the pass —
    whichever fragments removed and re-created the file before, whatever the checker -/
theorem pass_keeps_manifest_removed (C : Checker A) (hC : C.asWas = false) (d : Dir A)
    (hv : ∀ x, x ∈ d.vstrs → ¬ Protected d x) (k : Nat) (r : Name) (hr : r ∈ d.live.flatMap removedBy)
    (ht : trashSst r ∈ d.trash) : trashSst r ∈ (run d ((pass C d).1.take k)).trash :=
  legalRun_keeps_protected C hC _ d (legalRun_take C k _ d (pass_legal C d)) hv _ ⟨r, hr, rfl⟩ ht

end Blue.Verifier

#print axioms Blue.Verifier.pass_keeps_manifest_removed
