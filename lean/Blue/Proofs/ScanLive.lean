import Blue.Proofs.ScanSpecDups
import Blue.Proofs.TreeScan
import Blue.Proofs.ScanCongr
import Blue.Proofs.Compaction
import Blue.Proofs.SumCur
import Blue.Proofs.MergingOver
/-! **C03** what the list on the right-hand side of `scan_spec*` *is*, in terms of point reads:

* `isLive_iff_visible` — `isLive` is exactly "the visible version of its key (the `IsVisible` of C01)
  and not a tombstone" (both directions);
* `mem_scan_iff` — membership in the scan list: visible ∧ not a tombstone ∧ key in range;
* `scan_matches_point_read` — through `load_visible` (C01): on a component list ordered "newer
  above" whose union has the members of `M`, an entry is in the scan list iff the point read of
  its key at the same timestamp returns it, it is no tombstone and its key is in range;
* `scan_list_restrict` — leaving out of the children any versions whose *key* is out of range
  (the memtables' own `BoundsCursor`, the level pre-filter of `Tree::range_scan`) changes no scan;
* `tree_scan_spec_dups'` — `tree_scan_spec_dups` without its redundant hypothesis `hsorted`;
* `store_scan_spec_dups` — the nesting the store really builds:
  `Bounds(Pruning(Merging[mem, imm, Merging[tree children]]))`. -/
namespace Blue.Spec
open Blue.Cursor Blue.Cursor.Filtered
variable {K : Type} [DecidableEq K]

/-- `isLive` (the filter of `scan_spec`) is the visibility of point reads (C01) plus "no tombstone" -/
theorem isLive_iff_visible (M : List (Ver K)) (t : Nat) (tomb : Ver K → Bool) (e : Ver K) (he : e ∈ M) :
    isLive M t tomb e = true ↔ (IsVisible M e.1 t e ∧ tomb e = false) := by
  unfold isLive IsVisible
  simp only [Bool.and_eq_true, decide_eq_true_eq, List.all_eq_true, Bool.or_eq_true, Bool.not_eq_true',
    Bool.and_eq_false_iff, decide_eq_false_iff_not]
  constructor
  · rintro ⟨⟨h1, h2⟩, h3⟩
    refine ⟨⟨he, trivial, h1, ?_⟩, h3⟩
    intro e' he' hk ht
    rcases h2 e' he' with h | h
    · rcases h with h | h
      · exact absurd hk h
      · exact absurd ht h
    · exact h
  · rintro ⟨⟨_, _, h1, h2⟩, h3⟩
    refine ⟨⟨h1, ?_⟩, h3⟩
    intro e' he'
    by_cases hk : e'.1 = e.1
    · by_cases htt : e'.2 ≤ t
      · exact Or.inr (h2 e' he' hk htt)
      · exact Or.inl (Or.inr htt)
    · exact Or.inl (Or.inl hk)

/-- membership in the list a scan shows -/
theorem mem_scan_iff {klt : K → K → Bool} (M : List (Ver K)) (t : Nat) (tomb : Ver K → Bool)
    (sb eb : Bound K) (e : Ver K) :
    e ∈ (M.filter (isLive M t tomb)).filter (inRange klt sb eb)
      ↔ (IsVisible M e.1 t e ∧ tomb e = false ∧ inRange klt sb eb e = true) := by
  rw [List.mem_filter, List.mem_filter]
  constructor
  · rintro ⟨⟨hm, hl⟩, hr⟩
    have := (isLive_iff_visible M t tomb e hm).mp hl
    exact ⟨this.1, this.2, hr⟩
  · rintro ⟨hv, ht, hr⟩
    exact ⟨⟨hv.1, (isLive_iff_visible M t tomb e hv.1).mpr ⟨hv, ht⟩⟩, hr⟩

/-- **scans match point reads**: `cs` the store's components in search order ("newer above", the
    I2 of C01), `M` any list with the members of their union.  An entry is shown by the scan at
    read timestamp `t` iff the point read of its key at `t` returns exactly it, it is not a
    tombstone, and its key lies in the range. -/
theorem scan_matches_point_read {klt : K → K → Bool} (cs : List (List (Ver K))) (hna : NewerAbove cs)
    (M : List (Ver K)) (hM : ∀ e, e ∈ M ↔ e ∈ cs.flatten)
    (t : Nat) (tomb : Ver K → Bool) (sb eb : Bound K) (e : Ver K) :
    e ∈ (M.filter (isLive M t tomb)).filter (inRange klt sb eb)
      ↔ (load cs e.1 t = some e ∧ tomb e = false ∧ inRange klt sb eb e = true) := by
  rw [mem_scan_iff]
  have tr : ∀ b, IsVisible M e.1 t b ↔ IsVisible cs.flatten e.1 t b := by
    intro b
    unfold IsVisible
    constructor
    · rintro ⟨m, hk, ht, hmax⟩
      exact ⟨(hM b).mp m, hk, ht, fun e' he' => hmax e' ((hM e').mpr he')⟩
    · rintro ⟨m, hk, ht, hmax⟩
      exact ⟨(hM b).mpr m, hk, ht, fun e' he' => hmax e' ((hM e').mp he')⟩
  have hlv := load_visible cs e.1 t hna
  constructor
  · rintro ⟨hv, ht, hr⟩
    refine ⟨?_, ht, hr⟩
    have hv' := (tr e).mp hv
    cases hl : load cs e.1 t with
    | none =>
      rw [hl] at hlv
      exact absurd hv'.2.2.1 (hlv e hv'.1 rfl)
    | some b =>
      rw [hl] at hlv
      rw [visible_unique hlv hv']
  · rintro ⟨hl, ht, hr⟩
    rw [hl] at hlv
    exact ⟨(tr e).mpr hlv, ht, hr⟩

/-- a deleted or absent key is not shown: if the point read returns nothing or a tombstone, no
    version of the key is in the scan list -/
theorem scan_shows_no_other_version {klt : K → K → Bool} (cs : List (List (Ver K))) (hna : NewerAbove cs)
    (M : List (Ver K)) (hM : ∀ e, e ∈ M ↔ e ∈ cs.flatten)
    (t : Nat) (tomb : Ver K → Bool) (sb eb : Bound K) (e : Ver K)
    (he : e ∈ (M.filter (isLive M t tomb)).filter (inRange klt sb eb)) :
    ∀ e', e' ∈ (M.filter (isLive M t tomb)).filter (inRange klt sb eb) → e'.1 = e.1 → e' = e := by
  intro e' he' hk
  have h1 := ((scan_matches_point_read cs hna M hM t tomb sb eb e).mp he).1
  have h2 := ((scan_matches_point_read cs hna M hM t tomb sb eb e').mp he').1
  rw [hk, h1] at h2
  exact (Option.some.inj h2).symm

/-- `isLive` of an entry looks only at the entries with the entry's key -/
theorem isLive_congr_key (M M' : List (Ver K)) (t : Nat) (tomb : Ver K → Bool) (e : Ver K)
    (h : ∀ e', e'.1 = e.1 → (e' ∈ M ↔ e' ∈ M')) : isLive M t tomb e = isLive M' t tomb e := by
  unfold isLive
  congr 2
  rw [Bool.eq_iff_iff]
  simp only [List.all_eq_true, Bool.or_eq_true, Bool.not_eq_true', Bool.and_eq_false_iff,
    decide_eq_false_iff_not, decide_eq_true_eq]
  constructor
  · intro hall e' he'
    by_cases hk : e'.1 = e.1
    · exact hall e' ((h e' hk).mpr he')
    · exact Or.inl (Or.inl hk)
  · intro hall e' he'
    by_cases hk : e'.1 = e.1
    · exact hall e' ((h e' hk).mp he')
    · exact Or.inl (Or.inl hk)

/-- **children restricted to the range change no scan.**  `M` the sorted list of all versions of
    the store, `M'` the sorted list of what the children actually hold when each child leaves out
    some versions *whose key is out of range* (a memtable child is a `BoundsCursor` over the
    skiplist; `Tree::range_scan` leaves out the files of levels ≥ 1 whose key range misses the
    bounds): `M' ⊆ M` and every in-range version of `M` is in `M'`.  The two scan lists coincide. -/
theorem scan_list_restrict {klt : K → K → Bool} (st : StrictTotal klt) (M M' : List (Ver K))
    (sb eb : Bound K) (hs : Sorted klt M) (hs' : Sorted klt M') (hsub : ∀ e ∈ M', e ∈ M)
    (hin : ∀ e ∈ M, inRange klt sb eb e = true → e ∈ M')
    (t : Nat) (tomb : Ver K → Bool) :
    (M'.filter (isLive M' t tomb)).filter (inRange klt sb eb)
      = (M.filter (isLive M t tomb)).filter (inRange klt sb eb) := by
  apply sorted_ext (vlt_strictTotal st)
  · exact sorted_filter (sorted_filter hs' _) _
  · exact sorted_filter (sorted_filter hs _) _
  · intro e
    simp only [List.mem_filter]
    constructor
    · rintro ⟨⟨hm, hl⟩, hr⟩
      refine ⟨⟨hsub e hm, ?_⟩, hr⟩
      rw [← hl]
      apply isLive_congr_key
      intro e' hk
      constructor
      · intro h; exact hin e' h (by rw [inRange_key klt sb eb hk]; exact hr)
      · exact hsub e'
    · rintro ⟨⟨hm, hl⟩, hr⟩
      refine ⟨⟨hin e hm hr, ?_⟩, hr⟩
      rw [← hl]
      apply isLive_congr_key
      intro e' hk
      constructor
      · exact hsub e'
      · intro h; exact hin e' h (by rw [inRange_key klt sb eb hk]; exact hr)

/-- each level's table is one of the family's children, hence sorted: the hypothesis `hsorted` of
    `tree_scan_spec_dups` follows from `fam` and `hkids` -/
theorem levels_sorted_of_family {klt : K → K → Bool} {M : List (Ver K × Nat)} {k : Nat}
    (fam : FamilyW (vlt klt) M k) {S : Cur (Ver K)} (levels : List (List (S.σ × List (Ver K))))
    (hkids : ((levels.map levelTable).map (·.xs)).Perm ((List.range k).map (childList M))) :
    ∀ lvl ∈ levels, Sorted klt (lvl.map (·.2)).flatten := by
  intro lvl hl
  have h1 : (lvl.map (·.2)).flatten ∈ (levels.map levelTable).map (·.xs) := by
    rw [List.mem_map]
    exact ⟨levelTable lvl, List.mem_map.mpr ⟨lvl, hl, rfl⟩, rfl⟩
  have h2 := hkids.mem_iff.mp h1
  rw [List.mem_map] at h2
  obtain ⟨j, hj, hje⟩ := h2
  rw [← hje]
  exact fam.child j (List.mem_range.mp hj)

/-- **C03** `tree_scan_spec_dups` without `hsorted` -/
theorem tree_scan_spec_dups' {klt : K → K → Bool} (st : StrictTotal klt)
    (M : List (Ver K × Nat)) (k : Nat) (fam : FamilyW (vlt klt) M k)
    (t : Nat) (tomb : Ver K → Bool) (sb eb : Bound K) (n : Nat) (hn : (M.map (·.1)).length + 2 ≤ n)
    {S : Cur (Ver K)} (levels : List (List (S.σ × List (Ver K))))
    (hfiles : ∀ lvl ∈ levels, ∀ f ∈ lvl, BehEq (SeekAdm klt) S f.1 (RefCur (Ver K)) ⟨f.2, 0⟩)
    (hne : ∀ lvl ∈ levels, 0 < lvl.length)
    (hkids : ((levels.map levelTable).map (·.xs)).Perm ((List.range k).map (childList M))) :
    BehEq (SeekAdm klt)
      (BoundsC.cur (PruningC.cur (MergingC.cur (ConcatC.cur (LazyC.cur S)) (vlt klt)) (pcfg t tomb) n)
        (bcfg klt sb eb) n)
      (BoundsC.new (PruningC.cur (MergingC.cur (ConcatC.cur (LazyC.cur S)) (vlt klt)) (pcfg t tomb) n)
        (bcfg klt sb eb)
        (PruningC.new (MergingC.cur (ConcatC.cur (LazyC.cur S)) (vlt klt))
          (MergingC.new (ConcatC.cur (LazyC.cur S)) (vlt klt) (levels.map levelCursor))))
      (RefCur (Ver K))
      ⟨((dedupAdj (M.map (·.1))).filter (isLive (dedupAdj (M.map (·.1))) t tomb)).filter (inRange klt sb eb), 0⟩ :=
  tree_scan_spec_dups st M k fam t tomb sb eb n hn levels hfiles hne
    (levels_sorted_of_family fam levels hkids) hkids

/-! ### the store's nesting `Merging[mem, imm, Merging[tree children]]` -/

/-- behaviours of a child vector `[inl …, inl …, inr d]` of the tagged union, child by child -/
theorem behA_sum_kids {E α : Type} {A : (E → Bool) → Prop} (C D R : Cur E) (f : α → C.σ) (g : α → R.σ)
    (d : D.σ) (r : R.σ) (hd : behA A D d = behA A R r) :
    ∀ (l : List α), (∀ a ∈ l, behA A C (f a) = behA A R (g a)) →
      (l.map (fun a => (Sum.inl (f a) : (Cur.sum C D).σ)) ++ [Sum.inr d]).map (behA A (Cur.sum C D))
        = (l.map g ++ [r]).map (behA A R)
  | [], _ => by
    show [behA A (Cur.sum C D) (Sum.inr d)] = [behA A R r]
    rw [behA_inr, hd]
  | a :: l, h => by
    show behA A (Cur.sum C D) (Sum.inl (f a))
        :: (l.map (fun a => (Sum.inl (f a) : (Cur.sum C D).σ)) ++ [Sum.inr d]).map (behA A (Cur.sum C D))
      = behA A R (g a) :: (l.map g ++ [r]).map (behA A R)
    rw [behA_inl, h a List.mem_cons_self,
      behA_sum_kids C D R f g d r hd l (fun x hx => h x (List.mem_cons_of_mem _ hx))]

/-- the cursor `Tree::range_scan` returns: one merging cursor over the levels -/
abbrev TreeCur (klt : K → K → Bool) (S : Cur (Ver K)) : Cur (Ver K) :=
  MergingC.cur (ConcatC.cur (LazyC.cur S)) (vlt klt)

/-- the children `KeyValueStore::range_scan` hands to its merging cursor: the memtable cursors
    (`.inl`), then the tree's merging cursor (`.inr`) — `Vec<Box<dyn Cursor>>` in the code, the
    tagged union `Cur.sum` here -/
def storeKids {klt : K → K → Bool} {Cm S : Cur (Ver K)} (mems : List (Cm.σ × List (Ver K)))
    (levels : List (List (S.σ × List (Ver K)))) : List (Cur.sum Cm (TreeCur klt S)).σ :=
  mems.map (fun m => Sum.inl m.1)
    ++ [Sum.inr (MergingC.new (ConcatC.cur (LazyC.cur S)) (vlt klt) (levels.map levelCursor))]

/-- **C03, store level**: `Bounds(Pruning(Merging[mem, imm, Merging[levels]]))`.
    * the tree's children are pairwise distinct strictly sorted levels with merged list `Mt`
      (`Family`: no version is in two files of the tree — the tree's own merge is then strictly
      sorted, which the outer merge needs of each of its children);
    * the memtable cursors behave as the tables `m.2` (for the real store: the window of the
      skiplist's content, `bounds_over`);
    * `M` is the weakly sorted merge with multiplicity of the memtable tables and the tree's
      merged table (`FamilyW`: the immutable memtable and its level-0 file may hold the same
      versions — the flush window).
    Then, under every finite program, the stack shows the live versions in range of the set of
    versions, each once — the same right-hand side as `scan_spec_dups`. -/
theorem store_scan_spec_dups {klt : K → K → Bool} (st : StrictTotal klt)
    (Mt : List (Ver K × Nat)) (kt : Nat) (famT : Family (vlt klt) Mt kt)
    (M : List (Ver K × Nat)) (k : Nat) (fam : FamilyW (vlt klt) M k)
    (t : Nat) (tomb : Ver K → Bool) (sb eb : Bound K) (n : Nat) (hn : (M.map (·.1)).length + 2 ≤ n)
    {Cm S : Cur (Ver K)} (mems : List (Cm.σ × List (Ver K)))
    (hmems : ∀ m ∈ mems, BehEq (SeekAdm klt) Cm m.1 (RefCur (Ver K)) ⟨m.2, 0⟩)
    (levels : List (List (S.σ × List (Ver K))))
    (hfiles : ∀ lvl ∈ levels, ∀ f ∈ lvl, BehEq (SeekAdm klt) S f.1 (RefCur (Ver K)) ⟨f.2, 0⟩)
    (hne : ∀ lvl ∈ levels, 0 < lvl.length)
    (hkidsT : ((levels.map levelTable).map (·.xs)).Perm ((List.range kt).map (childList Mt)))
    (hkids : (mems.map (·.2) ++ [Mt.map (·.1)]).Perm ((List.range k).map (childList M))) :
    BehEq (SeekAdm klt)
      (BoundsC.cur (PruningC.cur (MergingC.cur (Cur.sum Cm (TreeCur klt S)) (vlt klt)) (pcfg t tomb) n)
        (bcfg klt sb eb) n)
      (BoundsC.new (PruningC.cur (MergingC.cur (Cur.sum Cm (TreeCur klt S)) (vlt klt)) (pcfg t tomb) n)
        (bcfg klt sb eb)
        (PruningC.new (MergingC.cur (Cur.sum Cm (TreeCur klt S)) (vlt klt))
          (MergingC.new (Cur.sum Cm (TreeCur klt S)) (vlt klt) (storeKids mems levels))))
      (RefCur (Ver K))
      ⟨((dedupAdj (M.map (·.1))).filter (isLive (dedupAdj (M.map (·.1))) t tomb)).filter (inRange klt sb eb), 0⟩ := by
  have hsortedT := levels_sorted_of_family (famT.toW (vlt_strictTotal st)) levels hkidsT
  -- the tree's merging cursor behaves as the table `Mt.map (·.1)`
  have htree : BehEq (SeekAdm klt) (TreeCur klt S)
      (MergingC.new (ConcatC.cur (LazyC.cur S)) (vlt klt) (levels.map levelCursor))
      (RefCur (Ver K)) ⟨Mt.map (·.1), 0⟩ :=
    merging_over (vlt klt) (vlt_strictTotal st) famT (fun p hp => adm_mono st hp)
      (levels.map levelCursor) (levels.map levelTable) hkidsT (levels_beh st levels hfiles hne hsortedT)
  let rs : List (Ref (Ver K)) := mems.map (fun m => ⟨m.2, 0⟩) ++ [⟨Mt.map (·.1), 0⟩]
  have hrs : rs.map (·.xs) = mems.map (·.2) ++ [Mt.map (·.1)] := by
    simp only [rs, List.map_append, List.map_map, List.map_cons, List.map_nil]
    rfl
  have hbeh : (storeKids mems levels).map (behA (SeekAdm klt) (Cur.sum Cm (TreeCur klt S)))
      = rs.map (behA (SeekAdm klt) (RefCur (Ver K))) :=
    behA_sum_kids Cm (TreeCur klt S) (RefCur (Ver K))
      (fun (m : Cm.σ × List (Ver K)) => m.1) (fun (m : Cm.σ × List (Ver K)) => (⟨m.2, 0⟩ : Ref (Ver K))) _ _
      (behA_eq_of_behEq htree) mems (fun m hm => behA_eq_of_behEq (hmems m hm))
  exact scan_spec_dups st M k fam t tomb sb eb n hn (Cur.sum Cm (TreeCur klt S)) (storeKids mems levels)
    rs (by rw [hrs]; exact hkids) hbeh

end Blue.Spec

#print axioms Blue.Spec.isLive_iff_visible
#print axioms Blue.Spec.mem_scan_iff
#print axioms Blue.Spec.scan_matches_point_read
#print axioms Blue.Spec.scan_list_restrict
#print axioms Blue.Spec.tree_scan_spec_dups'
#print axioms Blue.Spec.store_scan_spec_dups
