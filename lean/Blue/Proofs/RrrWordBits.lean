import Blue.Proofs.RrrWordSpec
/-! Words as bit lists: `ofBits` / `toBits`, `popcount`, `bitAt`, `lowPop` of the word of a chunk,
    and the chunking `wordsOf`.  (Part of the proof of `Blue.Rrr.WordSpec`.) -/
namespace Blue.Rrr
open Blue.BitArr

/-! ### `ofBits` / `toBits` -/

theorem ofBits_nil : ofBits [] = 0 := rfl
theorem ofBits_cons (b : Bool) (t : List Bool) : ofBits (b :: t) = (if b then 1 else 0) + 2 * ofBits t := rfl
theorem toBits_zero (v : Nat) : toBits v 0 = [] := rfl
theorem toBits_succ (v n : Nat) : toBits v (n + 1) = (v % 2 == 1) :: toBits (v / 2) n := rfl

theorem ofBits_cons_mod (b : Bool) (t : List Bool) : ofBits (b :: t) % 2 = if b then 1 else 0 := by
  rw [ofBits_cons]; cases b <;> simp <;> omega

theorem ofBits_cons_div (b : Bool) (t : List Bool) : ofBits (b :: t) / 2 = ofBits t := by
  rw [ofBits_cons]; cases b <;> simp <;> omega

theorem ofBits_lt_pow : ∀ ch : List Bool, ofBits ch < 2 ^ ch.length
  | [] => by simp [ofBits_nil]
  | b :: t => by
    have ih := ofBits_lt_pow t
    rw [ofBits_cons, List.length_cons, Nat.pow_succ]
    generalize 2 ^ t.length = P at ih
    cases b <;> simp <;> omega

theorem toBits_length : ∀ (n v : Nat), (toBits v n).length = n
  | 0, _ => rfl
  | n + 1, v => by rw [toBits_succ, List.length_cons, toBits_length n]

theorem ofBits_toBits : ∀ (n v : Nat), ofBits (toBits v n) = v % 2 ^ n
  | 0, v => by rw [toBits_zero, ofBits_nil, Nat.pow_zero, Nat.mod_one]
  | n + 1, v => by
    rw [toBits_succ, ofBits_cons, ofBits_toBits n, Nat.pow_succ, Nat.mul_comm (2 ^ n) 2,
      Nat.mod_mul]
    rcases Nat.mod_two_eq_zero_or_one v with h | h <;> simp [h] <;> omega

theorem ofBits_toBits_of_lt (n v : Nat) (h : v < 2 ^ n) : ofBits (toBits v n) = v := by
  rw [ofBits_toBits, Nat.mod_eq_of_lt h]

theorem ofBits_append : ∀ (a b : List Bool), ofBits (a ++ b) = ofBits a + 2 ^ a.length * ofBits b
  | [], b => by simp [ofBits_nil]
  | x :: a, b => by
    rw [List.cons_append, ofBits_cons, ofBits_cons, ofBits_append a b, List.length_cons, Nat.pow_succ,
      Nat.mul_add, Nat.mul_comm (2 ^ a.length) 2, Nat.mul_assoc, Nat.add_assoc]

theorem ofBits_replicate_false : ∀ k, ofBits (List.replicate k false) = 0
  | 0 => rfl
  | k + 1 => by rw [List.replicate_succ, ofBits_cons, ofBits_replicate_false k]; rfl

theorem ofBits_pad (ch : List Bool) (k : Nat) : ofBits (ch ++ List.replicate k false) = ofBits ch := by
  rw [ofBits_append, ofBits_replicate_false, Nat.mul_zero, Nat.add_zero]

theorem ofBits_take_drop (ch : List Bool) (s : Nat) (h : s ≤ ch.length) :
    ofBits ch = ofBits (ch.take s) + 2 ^ s * ofBits (ch.drop s) := by
  have := ofBits_append (ch.take s) (ch.drop s)
  rw [List.take_append_drop, List.length_take, Nat.min_eq_left h] at this
  exact this

theorem ofBits_take_lt (ch : List Bool) (s : Nat) : ofBits (ch.take s) < 2 ^ s := by
  have h1 := ofBits_lt_pow (ch.take s)
  have h2 : 2 ^ (ch.take s).length ≤ 2 ^ s :=
    Nat.pow_le_pow_right (by omega) (by rw [List.length_take]; exact Nat.min_le_left _ _)
  omega

/-- the low `s` bits of the word are the word of the first `s` bits -/
theorem ofBits_mod (ch : List Bool) (s : Nat) : ofBits ch % 2 ^ s = ofBits (ch.take s) := by
  by_cases h : s ≤ ch.length
  · rw [ofBits_take_drop ch s h, Nat.add_mul_mod_self_left, Nat.mod_eq_of_lt (ofBits_take_lt ch s)]
  · have h1 := ofBits_lt_pow ch
    have h2 : 2 ^ ch.length ≤ 2 ^ s := Nat.pow_le_pow_right (by omega) (by omega)
    rw [List.take_of_length_le (by omega), Nat.mod_eq_of_lt (by omega)]

/-- shifting the word right by `s` drops the first `s` bits -/
theorem ofBits_div (ch : List Bool) (s : Nat) : ofBits ch / 2 ^ s = ofBits (ch.drop s) := by
  by_cases h : s ≤ ch.length
  · have hpos : 0 < 2 ^ s := Nat.pow_pos (by omega)
    rw [ofBits_take_drop ch s h, Nat.add_mul_div_left _ _ hpos,
      Nat.div_eq_of_lt (ofBits_take_lt ch s), Nat.zero_add]
  · have h1 := ofBits_lt_pow ch
    have h2 : 2 ^ ch.length ≤ 2 ^ s := Nat.pow_le_pow_right (by omega) (by omega)
    rw [List.drop_of_length_le (by omega), Nat.div_eq_of_lt (by omega), ofBits_nil]

/-- complementing every bit complements the word within its width -/
theorem ofBits_map_not : ∀ ch : List Bool, ofBits (ch.map (!·)) = 2 ^ ch.length - 1 - ofBits ch
  | [] => by simp [ofBits_nil]
  | b :: t => by
    have ih := ofBits_map_not t
    have hlt := ofBits_lt_pow t
    rw [List.map_cons, ofBits_cons, ofBits_cons, ih, List.length_cons, Nat.pow_succ]
    generalize 2 ^ t.length = P at *
    generalize ofBits t = v at *
    cases b <;> simp <;> omega

/-! ### `popcount`, `bitAt`, `lowPop` of the word of a chunk -/

theorem popN_zero (w : Nat) : popN 0 w = 0 := rfl
theorem popN_succ (n w : Nat) : popN (n + 1) w = w % 2 + popN n (w / 2) := rfl

theorem popN_of_zero : ∀ n, popN n 0 = 0
  | 0 => rfl
  | n + 1 => by rw [popN_succ, Nat.zero_div, popN_of_zero n]

theorem popN_ofBits : ∀ (n : Nat) (ch : List Bool), ch.length ≤ n → popN n (ofBits ch) = ch.count true
  | 0, ch, h => by
    have : ch = [] := List.eq_nil_of_length_eq_zero (by omega)
    subst this; rfl
  | n + 1, [], _ => by rw [ofBits_nil, popN_of_zero]; rfl
  | n + 1, b :: t, h => by
    rw [popN_succ, ofBits_cons_mod, ofBits_cons_div, popN_ofBits n t (by simpa using h)]
    cases b <;> simp <;> omega

theorem popcount_ofBits' (ch : List Bool) (h : ch.length ≤ 64) : popcount (ofBits ch) = ch.count true :=
  popN_ofBits 64 ch h

theorem bitAt_zero (w : Nat) : bitAt w 0 = (w % 2 == 1) := by
  unfold bitAt; rw [Nat.pow_zero, Nat.div_one]

theorem bitAt_succ (w i : Nat) : bitAt w (i + 1) = bitAt (w / 2) i := by
  unfold bitAt; rw [Nat.pow_succ, Nat.mul_comm, Nat.div_div_eq_div_mul]

theorem bitAt_zero_word (i : Nat) : bitAt 0 i = false := by
  unfold bitAt; rw [Nat.zero_div]; rfl

theorem bitAt_ofBits' : ∀ (ch : List Bool) (i : Nat), bitAt (ofBits ch) i = ch.getD i false
  | [], i => by rw [ofBits_nil, bitAt_zero_word]; rfl
  | b :: t, 0 => by
    rw [bitAt_zero, ofBits_cons_mod]; cases b <;> rfl
  | b :: t, i + 1 => by
    rw [bitAt_succ, ofBits_cons_div, bitAt_ofBits' t i]; simp

theorem lowPop_ofBits' (ch : List Bool) (i : Nat) (h : ch.length ≤ 64) :
    lowPop (ofBits ch) i = (ch.take i).count true := by
  unfold lowPop
  rw [ofBits_mod, popcount_ofBits' _ (by rw [List.length_take]; omega)]

/-! ### words below `2^63` as 63-bit lists -/

theorem count_true_le_length (l : List Bool) : l.count true ≤ l.length := List.count_le_length

theorem popcount_le_of_lt (w : Nat) (h : w < 2 ^ 63) : popcount w ≤ 63 := by
  rw [← ofBits_toBits_of_lt 63 w h, popcount_ofBits' _ (by rw [toBits_length]; omega)]
  have := count_true_le_length (toBits w 63)
  rw [toBits_length] at this
  exact this

theorem ofBits_eq_zero_of_count : ∀ ch : List Bool, ch.count true = 0 → ofBits ch = 0
  | [], _ => rfl
  | b :: t, h => by
    cases b
    · rw [ofBits_cons, ofBits_eq_zero_of_count t (by simpa using h)]; rfl
    · simp at h

theorem ofBits_eq_ones_of_count : ∀ ch : List Bool, ch.count true = ch.length → ofBits ch = 2 ^ ch.length - 1
  | [], _ => rfl
  | b :: t, h => by
    cases b
    · have := count_true_le_length t
      simp at h; omega
    · have ih := ofBits_eq_ones_of_count t (by simpa using h)
      rw [ofBits_cons, ih, List.length_cons, Nat.pow_succ]
      have : 0 < 2 ^ t.length := Nat.pow_pos (by omega)
      generalize 2 ^ t.length = P at *
      simp; omega

theorem eq_zero_of_popcount (w : Nat) (h : w < 2 ^ 63) (hc : popcount w = 0) : w = 0 := by
  rw [← ofBits_toBits_of_lt 63 w h] at hc ⊢
  rw [popcount_ofBits' _ (by rw [toBits_length]; omega)] at hc
  exact ofBits_eq_zero_of_count _ hc

theorem eq_ones_of_popcount (w : Nat) (h : w < 2 ^ 63) (hc : popcount w = 63) : w = 2 ^ 63 - 1 := by
  rw [← ofBits_toBits_of_lt 63 w h] at hc ⊢
  rw [popcount_ofBits' _ (by rw [toBits_length]; omega)] at hc
  have := ofBits_eq_ones_of_count (toBits w 63) (by rw [toBits_length]; exact hc)
  rw [toBits_length] at this
  exact this

/-! ### the chunking -/

theorem wordsAux_zero (bits : List Bool) : wordsAux 0 bits = [] := rfl
theorem wordsAux_succ (f : Nat) (bits : List Bool) :
    wordsAux (f + 1) bits = if bits.isEmpty then [] else ofBits (bits.take 63) :: wordsAux f (bits.drop 63) := rfl

theorem wordsAux_length : ∀ (f : Nat) (bits : List Bool), bits.length ≤ f →
    (wordsAux f bits).length = (bits.length + 62) / 63
  | 0, bits, h => by
    have : bits = [] := List.eq_nil_of_length_eq_zero (by omega)
    subst this; rfl
  | f + 1, [], _ => rfl
  | f + 1, b :: t, h => by
    rw [wordsAux_succ, if_neg (by simp), List.length_cons,
      wordsAux_length f _ (by rw [List.length_drop]; simp at h ⊢; omega), List.length_drop]
    simp only [List.length_cons]
    omega

theorem wordsAux_get : ∀ (f : Nat) (bits : List Bool) (k : Nat), bits.length ≤ f →
    k < (wordsAux f bits).length →
    (wordsAux f bits)[k]? = some (ofBits ((bits.drop (63 * k)).take 63))
  | 0, bits, k, _, hk => by rw [wordsAux_zero] at hk; simp at hk
  | f + 1, [], k, _, hk => by rw [wordsAux_succ] at hk; simp at hk
  | f + 1, b :: t, 0, _, _ => by
    rw [wordsAux_succ, if_neg (by simp)]; simp
  | f + 1, b :: t, k + 1, h, hk => by
    rw [wordsAux_succ, if_neg (by simp)] at hk ⊢
    rw [List.getElem?_cons_succ,
      wordsAux_get f _ k (by rw [List.length_drop]; simp at h ⊢; omega) (by simpa using hk),
      List.drop_drop, Nat.mul_succ, Nat.add_comm 63]

end Blue.Rrr
