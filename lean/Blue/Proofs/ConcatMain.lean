import Blue.Proofs.Concat
namespace Blue.Cursor
open Concat
variable {E : Type}

theorem off_add_le (L : List (List E)) (idx : Nat) (l : List E) (h : L[idx]? = some l) :
    off L idx + l.length ≤ L.flatten.length := by
  have hidx : idx < L.length := (List.getElem?_eq_some_iff.mp h).1
  rw [← off_succ L idx l h]
  unfold off
  conv => rhs; rw [← List.take_append_drop (idx+1) L]
  rw [List.flatten_append, List.length_append]
  omega

theorem off_last (L : List (List E)) (idx : Nat) (l : List E) (h : L[idx]? = some l)
    (hlast : idx + 1 = L.length) : off L idx + l.length = L.flatten.length := by
  rw [← off_succ L idx l h, off_all L (idx+1) (by omega)]

theorem rnp_le (xs : List E) (pos : Nat) (h : pos ≤ xs.length) : (Ref.next ⟨xs, pos⟩).pos = pos + 1 := by
  unfold Ref.next
  have : (Ref.mk xs pos).pos ≤ (Ref.mk xs pos).xs.length := h
  rw [if_pos this]

theorem rnp_gt (xs : List E) (pos : Nat) (h : xs.length < pos) : (Ref.next ⟨xs, pos⟩).pos = pos := by
  unfold Ref.next
  have : ¬ ((Ref.mk xs pos).pos ≤ (Ref.mk xs pos).xs.length) := by show ¬ (pos ≤ xs.length); omega
  rw [if_neg this]

theorem rpp_pos (xs : List E) (pos : Nat) (h : 0 < pos) : (Ref.prev ⟨xs, pos⟩).pos = pos - 1 := by
  unfold Ref.prev
  have : 0 < (Ref.mk xs pos).pos := h
  rw [if_pos this]

theorem rpp_zero (xs : List E) : (Ref.prev ⟨xs, 0⟩).pos = 0 := by
  unfold Ref.prev
  have : ¬ (0 < (Ref.mk xs 0).pos) := by show ¬ (0 < 0); omega
  rw [if_neg this]

/-- simulation relation for the concatenating cursor -/
def CRel (L : List (List E)) (m : Concat E) (p : Nat) : Prop :=
  ∃ idx l q, CState L m idx l q ∧ q ≤ l.length + 1 ∧ (q = 0 → idx = 0)
    ∧ (q = l.length + 1 → idx + 1 = L.length) ∧ p = off L idx + q

theorem crel_kv {L : List (List E)} {m : Concat E} {p : Nat} (h : CRel L m p) :
    m.kv = (Ref.mk L.flatten p).kv := by
  obtain ⟨idx, l, q, hs, hq, h0, hend, rfl⟩ := h
  rw [kv_of_cstate hs]
  by_cases hq0 : q = 0
  · have := h0 hq0; subst this; subst hq0
    simp [Ref.kv, off_zero]
  · by_cases hqe : q = l.length + 1
    · have hl := hend hqe
      have := off_last L idx l hs.child hl
      subst hqe
      have e : off L idx + (l.length + 1) = L.flatten.length + 1 := by omega
      rw [e]
      simp [Ref.kv]
    · have hqle : q ≤ l.length := by omega
      unfold Ref.kv
      have hne : off L idx + q ≠ 0 := by omega
      simp only [hq0, hne, if_false]
      have := flatten_get L idx (q-1) l hs.child (by omega)
      have e : off L idx + q - 1 = off L idx + (q - 1) := by omega
      rw [e, this]

theorem crel_next {L : List (List E)} {m : Concat E} {p : Nat} (h : CRel L m p) :
    CRel L m.next (Ref.next ⟨L.flatten, p⟩).pos := by
  obtain ⟨idx, l, q, hs, hq, h0, hend, rfl⟩ := h
  have hidx : idx < L.length := (List.getElem?_eq_some_iff.mp hs.child).1
  have hlen := cstate_len hs
  by_cases hqe : q = l.length + 1
  · -- after the last entry of the last child: nothing moves
    have hl := hend hqe
    have hfin := off_last L idx l hs.child hl
    have hrp : (Ref.next ⟨L.flatten, off L idx + q⟩).pos = off L idx + q :=
      rnp_gt _ _ (by omega)
    rw [hrp]
    have h1 := cstate_modify hs Ref.next next_xs
    have hn : (Ref.next ⟨l, q⟩).pos = q := rnp_gt _ _ (by omega)
    rw [hn] at h1
    have hstep : m.next = ⟨modifyAt m.cs m.position Ref.next, m.position⟩ := by
      unfold Concat.next nextLoop
      simp only
      have hkv := kv_of_cstate h1
      have hcond : (decide (m.position + 1 < (modifyAt m.cs m.position Ref.next).length)) = false := by
        rw [modifyAt_length, hlen, hs.pos]; simp; omega
      simp [hcond]
    rw [hstep]
    exact ⟨idx, l, q, h1, hq, h0, hend, rfl⟩
  · have hqle : q ≤ l.length := by omega
    obtain ⟨j, lj, q', hc, ho, h3, h4, h5⟩ :=
      concat_nextLoop_spec L (m.cs.length + 1) m idx l q hs hqle (by omega)
    have hle := off_add_le L idx l hs.child
    have hrp : (Ref.next ⟨L.flatten, off L idx + q⟩).pos = off L idx + q + 1 :=
      rnp_le _ _ (by omega)
    rw [hrp]
    exact ⟨j, lj, q', hc, h4, fun h => by omega, h5, by omega⟩

theorem crel_prev {L : List (List E)} {m : Concat E} {p : Nat} (h : CRel L m p) :
    CRel L m.prev (Ref.prev ⟨L.flatten, p⟩).pos := by
  obtain ⟨idx, l, q, hs, hq, h0, hend, rfl⟩ := h
  have hlen := cstate_len hs
  by_cases hq0 : q = 0
  · have hi0 := h0 hq0
    subst hq0
    have hrp : (Ref.prev ⟨L.flatten, off L idx + 0⟩).pos = off L idx + 0 := by
      subst hi0; rw [off_zero]; exact rpp_zero _
    rw [hrp]
    have h1 := cstate_modify hs Ref.prev prev_xs
    have hn : (Ref.prev ⟨l, 0⟩).pos = 0 := rpp_zero _
    rw [hn] at h1
    have hstep : m.prev = ⟨modifyAt m.cs m.position Ref.prev, m.position⟩ := by
      unfold Concat.prev prevLoop
      simp only
      have hcond : (decide (0 < m.position)) = false := by rw [hs.pos, hi0]; simp
      simp [hcond]
    rw [hstep]
    exact ⟨idx, l, 0, h1, hq, h0, hend, rfl⟩
  · obtain ⟨j, lj, q', hc, ho, h3, h4⟩ :=
      concat_prevLoop_spec L (m.cs.length + 1) m idx l q hs (by omega) hq
        (by have := (List.getElem?_eq_some_iff.mp hs.child).1; omega)
    have hrp : (Ref.prev ⟨L.flatten, off L idx + q⟩).pos = off L idx + q - 1 :=
      rpp_pos _ _ (by omega)
    rw [hrp]
    exact ⟨j, lj, q', hc, by omega, h4, fun h => by omega, by omega⟩

theorem crel_first {L : List (List E)} (hne : 0 < L.length) {m : Concat E} {p : Nat} (h : CRel L m p) :
    CRel L m.seekToFirst 0 := by
  obtain ⟨idx, l, q, hs, _, _, _, _⟩ := h
  have hl0 : L[0]? = some L[0] := by simp [hne]
  have := cstate_move hs 0 L[0] hl0 Ref.first first_xs 0 (fun _ => rfl)
  exact ⟨0, L[0], 0, this, by omega, fun _ => rfl, fun h => by omega, by simp [off_zero]⟩

theorem crel_last {L : List (List E)} (hne : 0 < L.length) {m : Concat E} {p : Nat} (h : CRel L m p) :
    CRel L m.seekToLast (L.flatten.length + 1) := by
  obtain ⟨idx, l, q, hs, _, _, _, _⟩ := h
  have hlen := cstate_len hs
  have hk : L.length - 1 < L.length := by omega
  have hl : L[L.length - 1]? = some L[L.length - 1] := by simp [hk]
  have := cstate_move hs (L.length - 1) L[L.length - 1] hl Ref.last last_xs (L[L.length - 1].length + 1)
    (fun _ => rfl)
  unfold Concat.seekToLast
  rw [hlen]
  refine ⟨L.length - 1, L[L.length - 1], _, this, Nat.le_refl _, fun h => by omega, fun _ => by omega, ?_⟩
  have := off_last L (L.length - 1) L[L.length - 1] hl (by omega)
  omega

end Blue.Cursor

namespace Blue.Cursor
open Concat
variable {E : Type}

theorem child_list {L : List (List E)} {cs : List (Ref E)} (hl : cs.map (·.xs) = L) (j : Nat) :
    (cs[j]?).map (·.xs) = L[j]? := by
  rw [← hl, List.getElem?_map]

theorem probeDown_spec {L : List (List E)} {cs : List (Ref E)} (hl : cs.map (·.xs) = L) (left : Nat) :
    ∀ (probe : Nat), left ≤ probe → probe < L.length →
      (∀ j e, probeDown cs left probe = some (j, e) →
         left ≤ j ∧ j ≤ probe ∧ (∃ lj, L[j]? = some lj ∧ lj.getLast? = some e)
         ∧ ∀ i, j < i → i ≤ probe → L[i]? = some [])
      ∧ (probeDown cs left probe = none → ∀ i, left ≤ i → i ≤ probe → L[i]? = some []) := by
  intro probe
  induction probe using Nat.strongRecOn with
  | _ probe ih =>
    intro hlp hpk
    have hLp : L[probe]? = some L[probe] := by simp [hpk]
    have hcp := child_list hl probe
    rw [hLp] at hcp
    cases hc : cs[probe]? with
    | none => rw [hc] at hcp; cases hcp
    | some c =>
      rw [hc] at hcp
      have hcx : c.xs = L[probe] := by simpa using hcp
      unfold probeDown
      simp only [hc]
      cases hlast : c.xs.getLast? with
      | some e =>
        simp only
        constructor
        · intro j e' heq
          cases heq
          refine ⟨hlp, Nat.le_refl _, ⟨L[probe], hLp, by rw [← hcx]; exact hlast⟩, ?_⟩
          intro i h1 h2; omega
        · intro h; cases h
      | none =>
        have hempty : L[probe] = [] := by
          rw [← hcx]; exact List.getLast?_eq_none_iff.mp hlast
        simp only
        by_cases hlt : left < probe
        · rw [if_pos hlt]
          obtain ⟨ih1, ih2⟩ := ih (probe - 1) (by omega) (by omega) (by omega)
          constructor
          · intro j e' heq
            obtain ⟨a, b, c', d⟩ := ih1 j e' heq
            refine ⟨a, by omega, c', ?_⟩
            intro i h1 h2
            by_cases hip : i = probe
            · subst hip; rw [hLp, hempty]
            · exact d i h1 (by omega)
          · intro hn i h1 h2
            by_cases hip : i = probe
            · subst hip; rw [hLp, hempty]
            · exact ih2 hn i h1 (by omega)
        · rw [if_neg hlt]
          constructor
          · intro j e' h; cases h
          · intro _ i h1 h2
            have : i = probe := by omega
            subst this; rw [hLp, hempty]

/-- along the concatenation the predicate switches once from false to true -/
def PredMono (L : List (List E)) (pred : E → Bool) : Prop :=
  ∀ (i j : Nat) (ei ej : E), i ≤ j → L.flatten[i]? = some ei → L.flatten[j]? = some ej →
    pred ei = true → pred ej = true

/-- position of an element of child `idx` in the concatenation -/
theorem mem_child_flatten (L : List (List E)) (idx : Nat) (l : List E) (h : L[idx]? = some l) (r : Nat) (e : E)
    (hr : l[r]? = some e) : L.flatten[off L idx + r]? = some e := by
  have hrl := (List.getElem?_eq_some_iff.mp hr).1
  rw [flatten_get L idx r l h hrl]; exact hr

theorem off_mono (L : List (List E)) {a b : Nat} (hab : a ≤ b) : off L a ≤ off L b := by
  unfold off
  have h1 : L.take a = (L.take b).take a := by rw [List.take_take, Nat.min_eq_left hab]
  have h2 := List.take_append_drop a (L.take b)
  have h3 : (L.take b).flatten.length = (L.take a ++ (L.take b).drop a).flatten.length := by
    rw [h1, h2]
  rw [h3, List.flatten_append, List.length_append]
  omega

/-- what the binary search establishes -/
structure SearchPost (L : List (List E)) (pred : E → Bool) (r : Nat) : Prop where
  lt : r < L.length
  before_false : ∀ (i : Nat) (li : List E) (e : E), i < r → L[i]? = some li → e ∈ li → pred e = false
  here : r + 1 = L.length ∨ ∃ lr e, L[r]? = some lr ∧ e ∈ lr ∧ pred e = true

theorem searchLoop_spec {L : List (List E)} {cs : List (Ref E)} (hl : cs.map (·.xs) = L)
    (pred : E → Bool) (hm : PredMono L pred) :
    ∀ (fuel left right : Nat), left ≤ right → right < L.length → right - left < fuel →
      (∀ (i : Nat) (li : List E) (e : E), i < left → L[i]? = some li → e ∈ li → pred e = false) →
      (right + 1 = L.length ∨ ∃ lr e, L[right]? = some lr ∧ e ∈ lr ∧ pred e = true) →
      SearchPost L pred (searchLoop cs pred fuel left right) := by
  intro fuel
  induction fuel with
  | zero => intro l r _ _ h; omega
  | succ f ih =>
    intro left right hlr hrk hf hbefore hhere
    unfold searchLoop
    by_cases hlt : left < right
    · rw [if_pos hlt]
      have hmid1 : left ≤ (left + right) / 2 := by omega
      have hmid2 : (left + right) / 2 < right := by omega
      obtain ⟨hp1, hp2⟩ := probeDown_spec hl left ((left + right) / 2) hmid1 (by omega)
      -- everything at or below a child whose last entry fails the predicate fails it too
      cases hpd : probeDown cs left ((left + right) / 2) with
      | none =>
        simp only [hpd]
        apply ih ((left + right) / 2 + 1) right (by omega) hrk (by omega) _ hhere
        intro i li e hi hli he
        by_cases hil : i < left
        · exact hbefore i li e hil hli he
        · have := hp2 hpd i (by omega) (by omega)
          rw [hli] at this; cases this; cases he
      | some je =>
        obtain ⟨j, e⟩ := je
        obtain ⟨hj1, hj2, ⟨lj, hlj, hlast⟩, hempty⟩ := hp1 j e hpd
        simp only [hpd]
        have hemem : e ∈ lj := List.mem_of_getLast? hlast
        by_cases hpe : pred e = true
        · rw [if_pos hpe]
          exact ih left j hj1 (by omega) (by omega) hbefore (Or.inr ⟨lj, e, hlj, hemem, hpe⟩)
        · rw [if_neg hpe]
          apply ih ((left + right) / 2 + 1) right (by omega) hrk (by omega) _ hhere
          intro i li e' hi hli he'
          by_cases hij : j < i
          · have := hempty i hij (by omega)
            rw [hli] at this; cases this; cases he'
          · -- e' sits at or before the last entry of child j, which fails the predicate
            cases hpe' : pred e' with
            | false => rfl
            | true =>
              exfalso; apply hpe
              obtain ⟨r', hr', rfl⟩ := List.getElem_of_mem he'
              have hljlen : 0 < lj.length := List.length_pos_of_mem hemem
              have hlastidx : lj[lj.length - 1]? = some e := by
                rw [List.getLast?_eq_getElem?] at hlast; exact hlast
              have h1 := mem_child_flatten L i li hli r' li[r'] (by simp [hr'])
              have h2 := mem_child_flatten L j lj hlj (lj.length - 1) e hlastidx
              refine hm (off L i + r') (off L j + (lj.length - 1)) li[r'] e ?_ h1 h2 hpe'
              by_cases hieq : i = j
              · subst hieq
                rw [hli] at hlj; cases hlj
                omega
              · have hilt : i + 1 ≤ j := by omega
                have := off_mono L hilt
                rw [off_succ L i li hli] at this
                omega
    · rw [if_neg hlt]
      have : left = right := by omega
      subst this
      exact ⟨hrk, hbefore, hhere⟩

end Blue.Cursor

namespace Blue.Cursor
open Concat
variable {E : Type}

theorem flatten_findIdx {L : List (List E)} {pred : E → Bool} {r : Nat} (h : SearchPost L pred r) :
    L.flatten.findIdx pred = off L r + (L[r]'h.lt).findIdx pred := by
  have hsplit : L.flatten = (L.take r).flatten ++ (L.drop r).flatten := by
    rw [← List.flatten_append, List.take_append_drop]
  have hfalse : ∀ x ∈ (L.take r).flatten, pred x = false := by
    intro x hx
    obtain ⟨l, hl, hxl⟩ := List.mem_flatten.mp hx
    obtain ⟨i, hi, rfl⟩ := List.getElem_of_mem hl
    have hi' : i < r := by simp at hi; omega
    have hiL : i < L.length := by simp at hi; omega
    have e : (L.take r)[i] = L[i] := by simp
    rw [e] at hxl
    exact h.before_false i L[i] x hi' (by simp [hiL]) hxl
  have h1 : (L.take r).flatten.findIdx pred = (L.take r).flatten.length :=
    List.findIdx_eq_length_of_false hfalse
  rw [hsplit, List.findIdx_append, h1, if_neg (by omega)]
  have hdrop : L.drop r = L[r]'h.lt :: L.drop (r + 1) := List.drop_eq_getElem_cons h.lt
  rw [hdrop, List.flatten_cons, List.findIdx_append]
  show _ = (L.take r).flatten.length + _
  by_cases hlt : (L[r]'h.lt).findIdx pred < (L[r]'h.lt).length
  · rw [if_pos hlt]; omega
  · rw [if_neg hlt]
    have hle : (L[r]'h.lt).findIdx pred ≤ (L[r]'h.lt).length := List.findIdx_le_length
    have hend : r + 1 = L.length := by
      rcases h.here with h | ⟨lr, e, hlr, he, hpe⟩
      · exact h
      · exfalso; apply hlt
        have : lr = L[r]'h.lt := by
          have := List.getElem?_eq_some_iff.mp hlr
          obtain ⟨_, h2⟩ := this; exact h2.symm
        subst this
        exact List.findIdx_lt_length.mpr ⟨e, he, hpe⟩
    have : L.drop (r + 1) = [] := List.drop_eq_nil_of_le (by omega)
    rw [this]
    simp only [List.flatten_nil, List.findIdx_nil]
    omega

theorem crel_seek {L : List (List E)} (hne : 0 < L.length) (pred : E → Bool) (hm : PredMono L pred)
    {m : Concat E} {p : Nat} (h : CRel L m p) :
    CRel L (m.seek pred) (L.flatten.findIdx pred + 1) := by
  obtain ⟨idx, l, q, hs, _, _, _, _⟩ := h
  have hlen := cstate_len hs
  have hpost := searchLoop_spec hs.lists pred hm (L.length + 1) 0 (L.length - 1) (by omega) (by omega)
    (by omega) (fun i li e hi _ _ => by omega) (Or.inl (by omega))
  unfold Concat.seek
  rw [hlen]
  generalize searchLoop m.cs pred (L.length + 1) 0 (L.length - 1) = r at hpost
  have hlr : L[r]? = some (L[r]'hpost.lt) := by simp [hpost.lt]
  have := cstate_move hs r (L[r]'hpost.lt) hlr (Ref.seek pred) (seek_xs pred)
    ((L[r]'hpost.lt).findIdx pred + 1) (fun _ => rfl)
  have hle : (L[r]'hpost.lt).findIdx pred ≤ (L[r]'hpost.lt).length := List.findIdx_le_length
  refine ⟨r, L[r]'hpost.lt, _, this, by omega, fun h => by omega, ?_, ?_⟩
  · intro hq
    rcases hpost.here with h | ⟨lr, e, hlr', he, hpe⟩
    · exact h
    · exfalso
      rw [hlr] at hlr'; cases hlr'
      have := List.findIdx_lt_length.mpr ⟨e, he, hpe⟩
      omega
  · rw [flatten_findIdx hpost]; omega

theorem crel_new {L : List (List E)} (hne : 0 < L.length) (cs : List (Ref E)) (hl : cs.map (·.xs) = L) :
    CRel L (Concat.new cs) 0 := by
  have hlen : cs.length = L.length := by rw [← hl, List.length_map]
  have hl0 : L[0]? = some L[0] := by simp [hne]
  obtain ⟨q0, hq0⟩ := child_xs (m := ⟨cs, 0⟩) hl 0 L[0] hl0
  have hs : CState L ⟨cs, 0⟩ 0 L[0] q0 := ⟨hl, rfl, hl0, hq0⟩
  have := cstate_modify hs Ref.first first_xs
  exact ⟨0, L[0], 0, this, by omega, fun _ => rfl, fun h => by omega, by simp [off_zero]⟩

end Blue.Cursor

namespace Blue.Cursor
open Concat
variable {E : Type}

/-- **C11, concatenating cursor (with the repaired `next` test and the repaired `seek` search).**
    For any non-empty list of children, and every finite program whose seek predicates switch once
    along the concatenation, the concatenating cursor shows what a reference cursor over the
    concatenated child lists shows. -/
theorem concat_run {L : List (List E)} (hne : 0 < L.length) :
    ∀ (ops : List (Op E)) (m : Concat E) (pos : Nat), CRel L m pos →
      (∀ pred, Op.seek pred ∈ ops → PredMono L pred) →
      Concat.run m ops = Ref.run ⟨L.flatten, pos⟩ ops := by
  intro ops
  induction ops with
  | nil => intros; rfl
  | cons op ops ih =>
    intro m pos h hops
    have hstep : CRel L (m.step op) ((Ref.mk L.flatten pos).step op).pos
        ∧ ((Ref.mk L.flatten pos).step op).xs = L.flatten := by
      cases op with
      | first => exact ⟨crel_first hne h, rfl⟩
      | last => exact ⟨by simpa [Ref.step, Ref.last, Concat.step] using crel_last hne h, rfl⟩
      | next => exact ⟨crel_next h, by simp only [Ref.step, Ref.next]; split <;> rfl⟩
      | prev => exact ⟨crel_prev h, by simp only [Ref.step, Ref.prev]; split <;> rfl⟩
      | seek pred => exact ⟨crel_seek hne pred (hops pred (by simp)) h, rfl⟩
    obtain ⟨h1, h2⟩ := hstep
    have hc : (Ref.mk L.flatten pos).step op = ⟨L.flatten, ((Ref.mk L.flatten pos).step op).pos⟩ := by
      cases hs : (Ref.mk L.flatten pos).step op with
      | mk a c => rw [hs] at h2; simp at h2; simp [h2]
    simp only [Concat.run, Ref.run]
    rw [crel_kv h1, ← hc]
    congr 1
    rw [hc]
    exact ih _ _ h1 (fun pred hp => hops pred (List.mem_cons_of_mem _ hp))

theorem concat_refines (cs : List (Ref E)) (hne : 0 < cs.length) (ops : List (Op E))
    (hops : ∀ pred, Op.seek pred ∈ ops → PredMono (cs.map (·.xs)) pred) :
    Concat.run (Concat.new cs) ops = Ref.run ⟨(cs.map (·.xs)).flatten, 0⟩ ops :=
  concat_run (by simpa using hne) ops _ 0 (crel_new (by simpa using hne) cs rfl) hops

end Blue.Cursor

#print axioms Blue.Cursor.concat_refines
