import Blue.Model.ProtoPanic
import Blue.Proofs.ProtoDeep
set_option linter.unusedSimpArgs false
/-! Property C15, message-level panic-freedom: the decoder written with an explicit panic outcome
    (`Blue/Model/ProtoPanic.lean`: slice indexing, checked `usize` arithmetic, the varint decoders
    of the code, the generated loop in the code's order) never takes it, and is the interpreter
    `Blue.ProtoMsg.unpackMsg` on every buffer of bytes shorter than 2^63. -/
namespace Blue.ProtoPanic
open Blue.Wire Blue.ProtoMsg Blue.Varint

@[simp] theorem ok_bind {α β : Type} (a : α) (f : α → Out β) : (Out.ok a >>= f) = f a := rfl
@[simp] theorem err_bind {α β : Type} (e : Err) (f : α → Out β) : ((Out.err e : Out α) >>= f) = .err e := rfl
@[simp] theorem panic_bind {α β : Type} (f : α → Out β) : ((Out.panic : Out α) >>= f) = .panic := rfl
@[simp] theorem ofR_ok {α : Type} (a : α) : ofR (.ok a : R α) = .ok a := rfl
@[simp] theorem ofR_error {α : Type} (e : Err) : ofR (.error e : R α) = .err e := rfl

theorem ofR_ne_panic {α : Type} (r : R α) : ofR r ≠ .panic := by cases r <;> simp [ofR]

/-- a buffer the code can be handed: bytes, and no longer than `isize::MAX` -/
def Good (bs : List Nat) : Prop := Bytes bs ∧ bs.length < 9223372036854775808

theorem Good.sub {bs l : List Nat} (h : Good bs) (hs : l.Sublist bs) : Good l :=
  ⟨fun b hb => h.1 b (hs.subset hb), Nat.lt_of_le_of_lt hs.length_le h.2⟩

/-! ## the primitives -/

theorem v64P_eq (bs : List Nat) (hb : Bytes bs) : v64P bs = ofR (decVarintE bs) := by
  unfold v64P decVarintE
  rw [unpack_eq_decVarint bs hb]
  cases decVarint bs with
  | none => rfl
  | some r => rfl

theorem decVarint_sub (bs : List Nat) (v : Nat) (rest : List Nat) (h : decVarint bs = some (v, rest)) :
    rest.Sublist bs := by
  obtain ⟨p, hp, _⟩ := decVarint_suffix bs v rest h
  rw [hp]; exact List.sublist_append_right _ _

theorem decVarintE_sub (bs : List Nat) (v : Nat) (rest : List Nat) (h : decVarintE bs = .ok (v, rest)) :
    rest.Sublist bs := by
  unfold decVarintE at h
  cases hd : decVarint bs with
  | none => rw [hd] at h; cases h
  | some r =>
    rw [hd] at h
    simp only [Except.ok.injEq] at h
    subst h; exact decVarint_sub bs _ _ hd

theorem tagP_eq (bs : List Nat) (hb : Bytes bs) : tagP bs = ofR (decTagE bs) := by
  unfold tagP decTagE
  rw [v64P_eq bs hb]
  unfold decVarintE
  cases decVarint bs with
  | none => rfl
  | some r =>
    obtain ⟨v, rest⟩ := r
    simp only [ofR_ok, ok_bind]
    by_cases h1 : v > U32MAX
    · simp [h1]
    · by_cases h2 : (!validFieldNumber (v / 8)) = true
      · simp [h1, h2]
      · cases hw : WT.ofBits (v % 8) <;> simp [h1, h2, hw]

theorem decTagE_sub (bs : List Nat) (t : Tag) (rest : List Nat) (h : decTagE bs = .ok (t, rest)) :
    rest.Sublist bs := by
  obtain ⟨p, hp, _⟩ := decTagE_suffix bs t rest h
  rw [hp]; exact List.sublist_append_right _ _

theorem frameP_eq (bs : List Nat) (hb : Bytes bs) : frameP bs = ofR (decFrame bs) := by
  unfold frameP decFrame
  rw [v64P_eq bs hb]
  unfold decVarintE
  cases decVarint bs with
  | none => rfl
  | some r =>
    obtain ⟨n, rem⟩ := r
    simp only [ofR_ok, ok_bind]
    by_cases h : rem.length < n
    · simp [h]
    · have h' : n ≤ rem.length := by omega
      simp [h, sliceTo, sliceFrom, h']

theorem decFrame_sub (bs fr rest : List Nat) (h : decFrame bs = .ok (fr, rest)) :
    fr.Sublist bs ∧ rest.Sublist bs := by
  unfold decFrame at h
  cases hd : decVarint bs with
  | none => rw [hd] at h; cases h
  | some r =>
    obtain ⟨n, rem⟩ := r
    rw [hd] at h
    simp only at h
    by_cases hl : rem.length < n
    · simp [hl] at h
    · simp only [hl, if_false, Except.ok.injEq, Prod.mk.injEq] at h
      have := decVarint_sub bs n rem hd
      exact ⟨h.1 ▸ (List.take_sublist _ _).trans this, h.2 ▸ (List.drop_sublist _ _).trans this⟩

theorem fixedP_eq (k : Nat) (bs : List Nat) : fixedP k bs = ofR (decFixed k bs) := by
  unfold fixedP decFixed
  by_cases h : bs.length < k
  · simp [h]
  · have h' : k ≤ bs.length := by omega
    simp [h, sliceTo, sliceFrom, h']

theorem decFixed_sub (k : Nat) (bs : List Nat) (x : Nat) (rest : List Nat) (h : decFixed k bs = .ok (x, rest)) :
    rest.Sublist bs := by
  unfold decFixed at h
  by_cases hl : bs.length < k
  · simp [hl] at h
  · simp only [hl, if_false, Except.ok.injEq, Prod.mk.injEq] at h
    exact h.2 ▸ List.drop_sublist _ _

/-! ## field types -/

theorem decScalarP_eq (s : Scalar) (bs : List Nat) (hb : Bytes bs) : decScalarP s bs = ofR (decScalar s bs) := by
  have hv := v64P_eq bs hb
  have hf := frameP_eq bs hb
  have h4 := fixedP_eq 4 bs
  have h8 := fixedP_eq 8 bs
  cases s <;> simp only [decScalarP, decScalar, hv, hf, h4, h8]
  case int32 => cases decVarintE bs with
    | error e => rfl
    | ok r => obtain ⟨x, rest⟩ := r; simp only [ofR_ok, ok_bind]; split <;> rfl
  case int64 => cases decVarintE bs with
    | error e => rfl
    | ok r => rfl
  case uint32 => cases decVarintE bs with
    | error e => rfl
    | ok r => obtain ⟨x, rest⟩ := r; simp only [ofR_ok, ok_bind]; split <;> rfl
  case uint64 => cases decVarintE bs with
    | error e => rfl
    | ok r => rfl
  case sint32 => cases decVarintE bs with
    | error e => rfl
    | ok r => obtain ⟨x, rest⟩ := r; simp only [ofR_ok, ok_bind]; split <;> rfl
  case sint64 => cases decVarintE bs with
    | error e => rfl
    | ok r => rfl
  case bool => cases decVarintE bs with
    | error e => rfl
    | ok r => rfl
  case fixed32 => cases decFixed 4 bs with
    | error e => rfl
    | ok r => rfl
  case float => cases decFixed 4 bs with
    | error e => rfl
    | ok r => rfl
  case sfixed32 => cases decFixed 4 bs with
    | error e => rfl
    | ok r => rfl
  case fixed64 => cases decFixed 8 bs with
    | error e => rfl
    | ok r => rfl
  case double => cases decFixed 8 bs with
    | error e => rfl
    | ok r => rfl
  case sfixed64 => cases decFixed 8 bs with
    | error e => rfl
    | ok r => rfl
  case bytes => cases decFrame bs with
    | error e => rfl
    | ok r => rfl
  case bytesN n => cases decFrame bs with
    | error e => rfl
    | ok r =>
      obtain ⟨b, rest⟩ := r
      simp only [ofR_ok, ok_bind]
      by_cases h1 : b.length < n
      · simp [h1]
      · by_cases h2 : b.length ≠ n
        · simp [h1, h2]
        · have h3 : b.length = n := by omega
          subst h3
          simp [sliceTo]
  case string => cases decFrame bs with
    | error e => rfl
    | ok r => obtain ⟨b, rest⟩ := r; simp only [ofR_ok, ok_bind]; split <;> rfl

/-- what a field type's unpacker hands back is part of what it was given -/
theorem decScalar_sub (s : Scalar) (bs : List Nat) (v : Val) (rest : List Nat)
    (h : decScalar s bs = .ok (v, rest)) : rest.Sublist bs := by
  have HV : ∀ (g : Nat → List Nat → R (Val × List Nat)),
      (∀ x r v' r', g x r = .ok (v', r') → r' = r) →
      (match decVarintE bs with | .error e => (Except.error e : R (Val × List Nat)) | .ok (x, r) => g x r) = .ok (v, rest) → rest.Sublist bs := by
    intro g hg h
    cases hd : decVarintE bs with
    | error e => rw [hd] at h; cases h
    | ok r =>
      obtain ⟨x, r⟩ := r
      rw [hd] at h
      rw [hg x r v rest h]; exact decVarintE_sub bs x r hd
  have HX : ∀ k (g : Nat → List Nat → R (Val × List Nat)),
      (∀ x r v' r', g x r = .ok (v', r') → r' = r) →
      (match decFixed k bs with | .error e => (Except.error e : R (Val × List Nat)) | .ok (x, r) => g x r) = .ok (v, rest) → rest.Sublist bs := by
    intro k g hg h
    cases hd : decFixed k bs with
    | error e => rw [hd] at h; cases h
    | ok r =>
      obtain ⟨x, r⟩ := r
      rw [hd] at h
      rw [hg x r v rest h]; exact decFixed_sub k bs x r hd
  have HF : ∀ (g : List Nat → List Nat → R (Val × List Nat)),
      (∀ x r v' r', g x r = .ok (v', r') → r' = r) →
      (match decFrame bs with | .error e => (Except.error e : R (Val × List Nat)) | .ok (x, r) => g x r) = .ok (v, rest) → rest.Sublist bs := by
    intro g hg h
    cases hd : decFrame bs with
    | error e => rw [hd] at h; cases h
    | ok r =>
      obtain ⟨x, r⟩ := r
      rw [hd] at h
      rw [hg x r v rest h]; exact (decFrame_sub bs x r hd).2
  cases s <;> simp only [decScalar] at h
  case int32 =>
    exact HV (fun x r => if inI32 (i64OfU64 x) then .ok (.int (i64OfU64 x), r) else Except.error .signedOverflow)
      (by intro x r v' r' hh; by_cases c : inI32 (i64OfU64 x) = true <;> simp [c] at hh; exact hh.2.symm) h
  case int64 =>
    exact HV (fun x r => .ok (.int (i64OfU64 x), r)) (by intro x r v' r' hh; simp at hh; exact hh.2.symm) h
  case uint32 =>
    exact HV (fun x r => if x < P32 then .ok (.int x, r) else Except.error .unsignedOverflow)
      (by intro x r v' r' hh; by_cases c : x < P32 <;> simp [c] at hh; exact hh.2.symm) h
  case uint64 =>
    exact HV (fun x r => .ok (.int x, r)) (by intro x r v' r' hh; simp at hh; exact hh.2.symm) h
  case sint32 =>
    exact HV (fun x r => if inI32 (unzigzag x) then .ok (.int (unzigzag x), r) else Except.error .signedOverflow)
      (by intro x r v' r' hh; by_cases c : inI32 (unzigzag x) = true <;> simp [c] at hh; exact hh.2.symm) h
  case sint64 =>
    exact HV (fun x r => .ok (.int (unzigzag x), r)) (by intro x r v' r' hh; simp at hh; exact hh.2.symm) h
  case bool =>
    exact HV (fun x r => .ok (.int (if x = 0 then 0 else 1), r)) (by intro x r v' r' hh; simp at hh; exact hh.2.symm) h
  case fixed32 =>
    exact HX 4 (fun x r => .ok (.int x, r)) (by intro x r v' r' hh; simp at hh; exact hh.2.symm) h
  case float =>
    exact HX 4 (fun x r => .ok (.int x, r)) (by intro x r v' r' hh; simp at hh; exact hh.2.symm) h
  case sfixed32 =>
    exact HX 4 (fun x r => .ok (.int (i32OfU32 x), r)) (by intro x r v' r' hh; simp at hh; exact hh.2.symm) h
  case fixed64 =>
    exact HX 8 (fun x r => .ok (.int x, r)) (by intro x r v' r' hh; simp at hh; exact hh.2.symm) h
  case double =>
    exact HX 8 (fun x r => .ok (.int x, r)) (by intro x r v' r' hh; simp at hh; exact hh.2.symm) h
  case sfixed64 =>
    exact HX 8 (fun x r => .ok (.int (i64OfU64 x), r)) (by intro x r v' r' hh; simp at hh; exact hh.2.symm) h
  case bytes =>
    exact HF (fun x r => .ok (.bytes x, r)) (by intro x r v' r' hh; simp at hh; exact hh.2.symm) h
  case bytesN n =>
    exact HF (fun x r => if x.length < n then .error .bufferTooShort else if x.length ≠ n then .error .wrongLength else .ok (.bytes x, r))
      (by intro x r v' r' hh; by_cases c1 : x.length < n <;> by_cases c2 : x.length ≠ n <;> simp [c1, c2] at hh <;> first | exact hh.2.symm | omega) h
  case string =>
    exact HF (fun x r => if validUtf8 x then .ok (.bytes x, r) else Except.error .stringEncoding)
      (by intro x r v' r' hh; by_cases c : validUtf8 x = true <;> simp [c] at hh; exact hh.2.symm) h

/-! ## the field iterator -/

theorem fieldStepP_eq (bs : List Nat) (hg : Good bs) : fieldStepP bs = ofR (fieldStepE bs) := by
  unfold fieldStepP fieldStepE
  rw [tagP_eq bs hg.1]
  cases hT : decTagE bs with
  | error e => rfl
  | ok r =>
    obtain ⟨tag, buf⟩ := r
    have hsub := decTagE_sub bs tag buf hT
    have hgb : Good buf := hg.sub hsub
    simp only [ofR_ok, ok_bind]
    cases hw : tag.wt <;> simp only
    · -- varint
      rw [v64P_eq buf hgb.1]
      unfold decVarintE
      cases hV : decVarint buf with
      | none => rfl
      | some r =>
        obtain ⟨x, rest⟩ := r
        have := decVarint_canonical_le buf hgb.1 x rest hV
        have hle : (encVarint x).length ≤ buf.length := by omega
        simp [sliceTo, hle]
    · -- sixty-four
      by_cases hl : buf.length < 8
      · simp [hl]
      · have hle : 8 ≤ buf.length := by omega
        simp [hl, sliceTo, hle]
    · -- length-delimited
      rw [v64P_eq buf hgb.1]
      unfold decVarintE
      cases hV : decVarint buf with
      | none => rfl
      | some r =>
        obtain ⟨x, rest⟩ := r
        simp only [ofR_ok, ok_bind]
        by_cases hl : rest.length < x
        · simp [hl]
        · have := decVarint_canonical_le buf hgb.1 x rest hV
          have hle : (encVarint x).length + x ≤ buf.length := by omega
          have hadd : (encVarint x).length + x < USIZE := by
            have := hgb.2; unfold USIZE; omega
          simp [hl, addU, hadd, sliceTo, hle]
    · -- thirty-two
      by_cases hl : buf.length < 4
      · simp [hl]
      · have hle : 4 ≤ buf.length := by omega
        simp [hl, sliceTo, hle]

/-- the slice and the rest a field read yields are parts of the buffer -/
theorem fieldStepE_sub (bs : List Nat) (t : Tag) (sl rest : List Nat)
    (h : fieldStepE bs = .ok ((t, sl), rest)) : sl.Sublist bs ∧ rest.Sublist bs := by
  refine ⟨?_, by obtain ⟨p, hp, _⟩ := fieldStepE_suffix bs _ rest h; rw [hp]; exact List.sublist_append_right _ _⟩
  unfold fieldStepE at h
  cases hT : decTagE bs with
  | error e => simp [hT] at h
  | ok r =>
    obtain ⟨tag, buf⟩ := r
    rw [hT] at h
    have hsub := decTagE_sub bs tag buf hT
    simp only at h
    cases hw : tag.wt <;> simp only [hw] at h
    · cases hV : decVarint buf with
      | none => simp [hV] at h
      | some r =>
        rw [hV] at h
        simp only [Except.ok.injEq, Prod.mk.injEq] at h
        exact h.1.2 ▸ (List.take_sublist _ _).trans hsub
    · by_cases hl : buf.length < 8
      · simp [hl] at h
      · simp only [hl, if_false, Except.ok.injEq, Prod.mk.injEq] at h
        exact h.1.2 ▸ (List.take_sublist _ _).trans hsub
    · cases hV : decVarint buf with
      | none => simp [hV] at h
      | some r =>
        obtain ⟨x, r'⟩ := r
        rw [hV] at h
        simp only at h
        by_cases hl : r'.length < x
        · simp [hl] at h
        · simp only [hl, if_false, Except.ok.injEq, Prod.mk.injEq] at h
          exact h.1.2 ▸ (List.take_sublist _ _).trans hsub
    · by_cases hl : buf.length < 4
      · simp [hl] at h
      · simp only [hl, if_false, Except.ok.injEq, Prod.mk.injEq] at h
        exact h.1.2 ▸ (List.take_sublist _ _).trans hsub

/-! ## field unpackers, the match, the loop -/

section Rec
variable (recP : Msg → List Nat → Out (Val × List Nat)) (rec : Msg → List Nat → R (Val × List Nat))

theorem decTyWithP_eq (hrec : ∀ m sl, Good sl → recP m sl = ofR (rec m sl))
    (hleft : ∀ m sl v left, rec m sl = .ok (v, left) → left.length ≤ sl.length)
    (ty : Ty) (bs : List Nat) (hg : Good bs) : decTyWithP recP ty bs = ofR (decTyWith rec ty bs) := by
  cases ty with
  | scalar s => exact decScalarP_eq s bs hg.1
  | msg m =>
    simp only [decTyWithP, decTyWith]
    rw [frameP_eq bs hg.1]
    cases hF : decFrame bs with
    | error e => rfl
    | ok r =>
      obtain ⟨frame, rest⟩ := r
      simp only [ofR_ok, ok_bind]
      rw [hrec m frame (hg.sub (decFrame_sub bs frame rest hF).1)]
      cases hR : rec m frame with
      | error e => rfl
      | ok r =>
        obtain ⟨v, left⟩ := r
        simp only [ofR_ok, ok_bind]
        by_cases he : left.isEmpty = true
        · simp [he]
        · have := hleft m frame v left hR
          simp [he, subU, this]

theorem decTyWith_sub (ty : Ty) (bs : List Nat) (v : Val) (rest : List Nat)
    (h : decTyWith rec ty bs = .ok (v, rest)) : rest.Sublist bs := by
  cases ty with
  | scalar s => exact decScalar_sub s bs v rest h
  | msg m =>
    simp only [decTyWith] at h
    cases hF : decFrame bs with
    | error e => rw [hF] at h; cases h
    | ok r =>
      obtain ⟨frame, rest'⟩ := r
      rw [hF] at h
      simp only at h
      cases hR : rec m frame with
      | error e => rw [hR] at h; cases h
      | ok r =>
        obtain ⟨v', left⟩ := r
        rw [hR] at h
        simp only at h
        by_cases he : left.isEmpty = true
        · simp only [he, if_true, Except.ok.injEq, Prod.mk.injEq] at h
          exact h.2 ▸ (decFrame_sub bs frame rest' hF).2
        · simp [he] at h

theorem mergeIntoP_eq (hrec : ∀ m sl, Good sl → recP m sl = ofR (rec m sl))
    (hleft : ∀ m sl v left, rec m sl = .ok (v, left) → left.length ≤ sl.length)
    (fld : Tag × List Nat) (hg : Good fld.2) :
    ∀ (fs : List Field) (a : List Val), mergeIntoP recP fs a fld = (mergeInto rec fs a fld).map ofR
  | [], a => by cases a <;> rfl
  | _ :: _, [] => rfl
  | g :: fs, v :: vs => by
    simp only [mergeIntoP, mergeInto]
    by_cases hc : g.num = fld.1.num ∧ g.ty.wt = fld.1.wt
    · rw [if_pos hc, if_pos hc, decTyWithP_eq recP rec hrec hleft g.ty fld.2 hg]
      cases decTyWith rec g.ty fld.2 with
      | error e => rfl
      | ok r => rfl
    · rw [if_neg hc, if_neg hc, mergeIntoP_eq hrec hleft fld hg fs vs]
      cases mergeInto rec fs vs fld with
      | none => rfl
      | some r => cases r <;> rfl

/-- the loop as the code runs it (merge errors at once, the iterator's error at the end) computes
    what `unpackFields` computes from the collected fields -/
theorem loopP_eq (hrec : ∀ m sl, Good sl → recP m sl = ofR (rec m sl))
    (hleft : ∀ m sl v left, rec m sl = .ok (v, left) → left.length ≤ sl.length)
    (strict : Bool) (fs : List Field) :
    ∀ (n : Nat) (bs : List Nat) (acc : List Val), Good bs → bs.length < n →
    loopP recP strict fs n bs acc
      = ofR (match (fieldsE n bs).1.foldl (mergeStep rec strict fs) (.ok acc) with
          | .error e => .error e
          | .ok vs => match (fieldsE n bs).2 with
            | some e => .error e
            | none => .ok vs)
  | 0, _, _, _, h => by omega
  | n+1, [], acc, _, _ => rfl
  | n+1, b :: t, acc, hg, hn => by
    have hne : b :: t ≠ [] := by simp
    rw [fieldsE_step n (b :: t) hne]
    simp only [loopP]
    rw [fieldStepP_eq (b :: t) hg]
    cases hS : fieldStepE (b :: t) with
    | error e => rfl
    | ok r =>
      obtain ⟨⟨tg, sl⟩, rest⟩ := r
      obtain ⟨hsl, hrest⟩ := fieldStepE_sub (b :: t) tg sl rest hS
      have hlt : rest.length < n := by
        obtain ⟨p, hp, hpne⟩ := fieldStepE_suffix (b :: t) _ rest hS
        have := List.length_pos_iff.mpr hpne
        have : (b :: t).length = p.length + rest.length := by rw [hp]; simp
        omega
      simp only [ofR_ok, List.foldl_cons, mergeStep]
      rw [mergeIntoP_eq recP rec hrec hleft (tg, sl) (hg.sub hsl) fs acc]
      cases hM : mergeInto rec fs acc (tg, sl) with
      | none =>
        simp only [Option.map_none]
        cases strict with
        | true => simp [foldl_mergeStep_error]
        | false => simpa using loopP_eq hrec hleft false fs n rest acc (hg.sub hrest) hlt
      | some r =>
        cases r with
        | error e => simp [foldl_mergeStep_error]
        | ok a => simpa using loopP_eq hrec hleft strict fs n rest a (hg.sub hrest) hlt

theorem unpackFieldsP_eq (hrec : ∀ m sl, Good sl → recP m sl = ofR (rec m sl))
    (hleft : ∀ m sl v left, rec m sl = .ok (v, left) → left.length ≤ sl.length)
    (strict : Bool) (fs : List Field) (dflts : List Val) (bs : List Nat) (hg : Good bs) :
    unpackFieldsP recP strict fs dflts bs = ofR (unpackFields rec strict fs dflts bs) :=
  loopP_eq recP rec hrec hleft strict fs (bs.length + 1) bs dflts hg (by omega)

end Rec

/-! ## messages -/

/-- what a message's `unpack` hands back is part of the buffer it was given (so `v - empty.len()`
    in `message<M>::unpack` does not underflow) -/
theorem unpackMsg_left_sub : ∀ (f : Nat) (m : Msg) (bs : List Nat) (v : Val) (left : List Nat),
    unpackMsg f m bs = .ok (v, left) → left.Sublist bs
  | 0, _, _, _, _, h => by simp [unpackMsg] at h
  | f+1, .struct fs, bs, v, left, h => by
    simp only [unpackMsg] at h
    cases hU : unpackFields (unpackMsg f) false fs (fs.map (dfltSlotWith (dfltMsg f))) bs with
    | error e => rw [hU] at h; cases h
    | ok vs =>
      rw [hU] at h
      simp only [Except.ok.injEq, Prod.mk.injEq] at h
      rw [← h.2]; exact List.nil_sublist _
  | f+1, .enum vars d, bs, v, left, h => by
    simp only [unpackMsg] at h
    cases hT : decTagE bs with
    | error e => rw [hT] at h; cases h
    | ok r =>
      obtain ⟨tag, rest⟩ := r
      rw [hT] at h
      have hsub := decTagE_sub bs tag rest hT
      simp only at h
      cases hfind : findVariant vars tag 0 with
      | none => rw [hfind] at h; cases h
      | some r =>
        obtain ⟨i, var⟩ := r
        rw [hfind] at h
        cases var with
        | unit n' =>
          simp only at h
          cases hF : decFrame rest with
          | error e => rw [hF] at h; cases h
          | ok r =>
            obtain ⟨fr, rest'⟩ := r
            rw [hF] at h
            simp only [Except.ok.injEq, Prod.mk.injEq] at h
            exact h.2 ▸ (decFrame_sub rest fr rest' hF).2.trans hsub
        | tuple n' ty =>
          simp only at h
          cases hD : decTyWith (unpackMsg f) ty rest with
          | error e => rw [hD] at h; cases h
          | ok r =>
            obtain ⟨v', rest'⟩ := r
            rw [hD] at h
            simp only [Except.ok.injEq, Prod.mk.injEq] at h
            exact h.2 ▸ (decTyWith_sub (unpackMsg f) ty rest v' rest' hD).trans hsub
        | named n' fs =>
          simp only at h
          cases hF : decFrame rest with
          | error e => rw [hF] at h; cases h
          | ok r =>
            obtain ⟨fr, rest'⟩ := r
            rw [hF] at h
            simp only at h
            cases hU : unpackFields (unpackMsg f) namedVariantStrict fs (fs.map (dfltSlotWith (dfltMsg f))) fr with
            | error e => rw [hU] at h; cases h
            | ok vs =>
              rw [hU] at h
              simp only [Except.ok.injEq, Prod.mk.injEq] at h
              exact h.2 ▸ (decFrame_sub rest fr rest' hF).2.trans hsub
  | f+1, .result okm errm d, bs, v, left, h => by
    simp only [unpackMsg] at h
    cases hV : decVarint bs with
    | none => rw [hV] at h; cases h
    | some r =>
      obtain ⟨t, rest⟩ := r
      rw [hV] at h
      have hsub := decVarint_sub bs t rest hV
      simp only at h
      have arm : ∀ (mm : Msg) (k : Nat),
          (match decFrame rest with
            | .error e => (Except.error e : R (Val × List Nat))
            | .ok (frame, rest') =>
              match unpackMsg f mm frame with
              | .error e => .error e
              | .ok (v, _) => .ok (.variant k v, rest')) = .ok (v, left) → left.Sublist bs := by
        intro mm k h
        cases hF : decFrame rest with
        | error e => rw [hF] at h; cases h
        | ok r =>
          obtain ⟨fr, rest'⟩ := r
          rw [hF] at h
          simp only at h
          cases hU : unpackMsg f mm fr with
          | error e => rw [hU] at h; cases h
          | ok r =>
            rw [hU] at h
            simp only [Except.ok.injEq, Prod.mk.injEq] at h
            exact h.2 ▸ (decFrame_sub rest fr rest' hF).2.trans hsub
      by_cases h1 : t > U32MAX
      · simp [h1] at h
      · by_cases h2 : t = 10
        · simp only [h1, h2, if_false, if_true] at h; exact arm okm 0 h
        · by_cases h3 : t = 18
          · simp only [h1, h2, h3, if_false, if_true] at h; exact arm errm 1 h
          · simp [h1, h2, h3] at h

/-- **C15** `unpackP_eq_unpack`: on every buffer of bytes shorter than 2^63 the decoder with the
    panic outcome — slices, checked arithmetic, the code's varint decoders, the loop in the code's
    order — is the interpreter `unpackMsg`: same value and rest, same error -/
theorem unpackP_eq_unpack : ∀ (f : Nat) (m : Msg) (bs : List Nat), Good bs →
    unpackP f m bs = ofR (unpackMsg f m bs)
  | 0, _, _, _ => rfl
  | f+1, m, bs, hg => by
    have hrec : ∀ m sl, Good sl → unpackP f m sl = ofR (unpackMsg f m sl) :=
      fun m sl h => unpackP_eq_unpack f m sl h
    have hleft : ∀ m sl v left, unpackMsg f m sl = .ok (v, left) → left.length ≤ sl.length :=
      fun m sl v left h => (unpackMsg_left_sub f m sl v left h).length_le
    cases m with
    | struct fs =>
      simp only [unpackP, unpackMsg]
      rw [unpackFieldsP_eq (unpackP f) (unpackMsg f) hrec hleft false fs _ bs hg]
      cases unpackFields (unpackMsg f) false fs (fs.map (dfltSlotWith (dfltMsg f))) bs <;> rfl
    | enum vars d =>
      simp only [unpackP, unpackMsg]
      rw [tagP_eq bs hg.1]
      cases hT : decTagE bs with
      | error e => rfl
      | ok r =>
        obtain ⟨tag, rest⟩ := r
        have hgr : Good rest := hg.sub (decTagE_sub bs tag rest hT)
        simp only [ofR_ok, ok_bind]
        cases hfind : findVariant vars tag 0 with
        | none => rfl
        | some r =>
          obtain ⟨i, var⟩ := r
          cases var with
          | unit n' =>
            simp only
            rw [frameP_eq rest hgr.1]
            cases decFrame rest <;> rfl
          | tuple n' ty =>
            simp only
            rw [decTyWithP_eq (unpackP f) (unpackMsg f) hrec hleft ty rest hgr]
            cases decTyWith (unpackMsg f) ty rest <;> rfl
          | named n' fs =>
            simp only
            rw [frameP_eq rest hgr.1]
            cases hF : decFrame rest with
            | error e => rfl
            | ok r =>
              obtain ⟨fr, rest'⟩ := r
              simp only [ofR_ok, ok_bind]
              rw [unpackFieldsP_eq (unpackP f) (unpackMsg f) hrec hleft _ fs _ fr
                (hgr.sub (decFrame_sub rest fr rest' hF).1)]
              cases unpackFields (unpackMsg f) namedVariantStrict fs (fs.map (dfltSlotWith (dfltMsg f))) fr <;> rfl
    | result okm errm d =>
      simp only [unpackP, unpackMsg]
      rw [v64P_eq bs hg.1]
      unfold decVarintE
      cases hV : decVarint bs with
      | none => rfl
      | some r =>
        obtain ⟨t, rest⟩ := r
        have hgr : Good rest := hg.sub (decVarint_sub bs t rest hV)
        simp only [ofR_ok, ok_bind]
        have arm : ∀ (mm : Msg) (k : Nat),
            (do let (frame, rest') ← frameP rest
                let (v, _) ← unpackP f mm frame
                (Out.ok (Val.variant k v, rest') : Out (Val × List Nat)))
              = ofR (match decFrame rest with
                | .error e => .error e
                | .ok (frame, rest') =>
                  match unpackMsg f mm frame with
                  | .error e => .error e
                  | .ok (v, _) => .ok (.variant k v, rest')) := by
          intro mm k
          rw [frameP_eq rest hgr.1]
          cases hF : decFrame rest with
          | error e => rfl
          | ok r =>
            obtain ⟨fr, rest'⟩ := r
            simp only [ofR_ok, ok_bind]
            rw [hrec mm fr (hgr.sub (decFrame_sub rest fr rest' hF).1)]
            cases unpackMsg f mm fr <;> rfl
        by_cases h1 : t > U32MAX
        · simp [h1]
        · by_cases h2 : t = 10
          · simp only [h1, h2, if_false, if_true]; exact arm okm 0
          · by_cases h3 : t = 18
            · simp only [h1, h2, h3, if_false, if_true]; exact arm errm 1
            · simp [h1, h2, h3]

/-- **C15** `unpackP_never_panics`: decoding any byte string (of a length a Rust slice can have)
    as any message type returns a value or an error; no slice index is out of range, no `usize`
    addition or subtraction overflows, the varint decoders do not index past the buffer -/
theorem unpackP_never_panics (f : Nat) (m : Msg) (bs : List Nat) (hg : Good bs) : unpackP f m bs ≠ .panic := by
  rw [unpackP_eq_unpack f m bs hg]; exact ofR_ne_panic _

end Blue.ProtoPanic
