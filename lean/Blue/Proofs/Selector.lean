import Blue.Model.Selector
import Blue.Model.Stall
/-! `sel` — when the selector offers the level-0 hull compaction — and how it connects to the
    stall protocol's `Sel` (`Blue.Stall.selOK`). -/
namespace Blue.Selector

/-- `sel` spelled out -/
theorem sel_iff (o : Opts) (m : Summary) :
    sel o m = true ↔
      0 < m.l0 ∧ m.l0 + m.l1h ≤ o.maxCompactionFiles ∧ m.l0 + m.l1h < o.maxOpenFiles
        ∧ (o.mandFiles ≤ m.l0 ∨ o.mandBytes ≤ m.l0b ∨ m.full = true ∨ m.l1hb ≤ m.l0b) := by
  simp [sel, and_assoc, or_assoc]

/-- the hull compaction within both file limits and mandatory (or not losing bytes) is offered -/
theorem sel_of_limits (o : Opts) (m : Summary) (h0 : 0 < m.l0)
    (hf : m.l0 + m.l1h ≤ o.maxCompactionFiles) (ho : m.l0 + m.l1h < o.maxOpenFiles)
    (hm : o.mandFiles ≤ m.l0 ∨ o.mandBytes ≤ m.l0b ∨ m.full = true ∨ m.l1hb ≤ m.l0b) : sel o m = true :=
  (sel_iff o m).mpr ⟨h0, hf, ho, hm⟩

/-- `sel` never holds on a tree that is over a file limit (the D-15 trigger) -/
theorem sel_false_of_overLimit (o : Opts) (m : Summary) (h : overLimit o m = true) : sel o m = false := by
  cases hs : sel o m with
  | false => rfl
  | true =>
    exfalso
    obtain ⟨_, hf, ho, _⟩ := (sel_iff o m).mp hs
    simp only [overLimit, Bool.or_eq_true, decide_eq_true_eq] at h
    omega

/-- a stalled level 0 whose mandatory threshold is not above the stall threshold: `sel` fails only
    through a file limit -/
theorem sel_or_overLimit (o : Opts) (m : Summary) (hpos : 0 < o.stallFiles)
    (hmand : o.mandFiles ≤ o.stallFiles) (hst : o.stallFiles ≤ m.l0) :
    sel o m = true ∨ overLimit o m = true := by
  cases hov : overLimit o m with
  | true => exact Or.inr rfl
  | false =>
    left
    have hov' : ¬ (m.l0 + m.l1h > o.maxCompactionFiles ∨ m.l0 + m.l1h ≥ o.maxOpenFiles) := by
      intro h
      have : overLimit o m = true := by
        simp only [overLimit, Bool.or_eq_true, decide_eq_true_eq]; exact h
      rw [hov] at this; cases this
    apply sel_of_limits
    · omega
    · omega
    · omega
    · left; omega

/-- **D-15, first trigger**: a stall threshold above `max_compaction_files` puts every stalled
    tree over the limit — `sel` fails in every state in which ingest waits -/
theorem stall_above_file_limit (o : Opts) (m : Summary) (h : o.maxCompactionFiles < o.stallFiles)
    (hst : o.stallFiles ≤ m.l0) : overLimit o m = true ∧ sel o m = false := by
  have hov : overLimit o m = true := by
    simp only [overLimit, Bool.or_eq_true, decide_eq_true_eq]; left; omega
  exact ⟨hov, sel_false_of_overLimit o m hov⟩

/-- **D-15, second trigger**: within the limit at the threshold, the level-1 files under the hull
    of level 0 take the compaction over it -/
theorem hull_above_file_limit (o : Opts) (m : Summary) (h : o.maxCompactionFiles < m.l0 + m.l1h) :
    sel o m = false :=
  sel_false_of_overLimit o m (by simp only [overLimit, Bool.or_eq_true, decide_eq_true_eq]; left; omega)

/-! ### the selector model offers what `sel` promises -/

theorem bestLoop_succ (o : Opts) (t : Tree) (lower : Nat) (bounds : List Slice) (fuel upper : Nat)
    (prev : List Int) (inputs : List Nat) (cand : Bool) (best : Option Int) :
    bestLoop o t lower bounds (fuel + 1) upper prev inputs cand best =
      (if upper ≥ t.length then (cand, best)
      else
        let b := bounds.getD upper ⟨0, 0, [], []⟩
        let files := ((level t upper).drop b.lo).take (b.hi - b.lo)
        let ov : Int := ((files.map (·.size)).sum : Nat)
        let inputs' := inputs ++ files.map (·.id)
        let score := accOf prev - ov
        let csize := intSum prev + ov
        if decide (csize > (o.maxCompactionBytes : Int)) && lower != 0 then (cand, best)
        else if inputs'.length > o.maxCompactionFiles || inputs'.length > o.maxOpenFiles then (cand, best)
        else
          let take := decide (lower < upper) && better score best
              && mayChoose o (expandCount o t lower upper b.first b.last inputs')
          let cand' := cand || take
          let best' := if take then some score else best
          if b.lo == b.hi then (cand', best')
          else bestLoop o t lower bounds fuel (upper + 1) (prev ++ [ov]) inputs' cand' best') := rfl

theorem nonneg_of_better {score : Int} {best : Option Int} (hb : nonneg best = true)
    (h : better score best = true) : nonneg (some score) = true := by
  cases best with
  | none => cases hb
  | some b =>
    simp only [nonneg, better, decide_eq_true_eq] at *
    omega

/-- once there is a candidate there is one at the end of the loop, and a score of at least zero
    is only replaced by a better one -/
theorem bestLoop_keeps (o : Opts) (t : Tree) (lower : Nat) (bounds : List Slice) :
    ∀ (fuel upper : Nat) (prev : List Int) (inputs : List Nat) (best : Option Int),
      (bestLoop o t lower bounds fuel upper prev inputs true best).1 = true
        ∧ (nonneg best = true → nonneg (bestLoop o t lower bounds fuel upper prev inputs true best).2 = true) := by
  intro fuel
  induction fuel with
  | zero => intro upper prev inputs best; exact ⟨rfl, id⟩
  | succ n ih =>
    intro upper prev inputs best
    rw [bestLoop_succ]
    split
    · exact ⟨rfl, id⟩
    · dsimp only
      split
      · exact ⟨rfl, id⟩
      · split
        · exact ⟨rfl, id⟩
        · split
          · refine ⟨by simp, ?_⟩
            intro hb
            split
            · rename_i htake
              simp only [Bool.and_eq_true] at htake
              exact nonneg_of_better hb htake.1.2
            · exact hb
          · simp only [Bool.true_or]
            refine ⟨(ih _ _ _ _).1, ?_⟩
            intro hb
            apply (ih _ _ _ _).2
            split
            · rename_i htake
              simp only [Bool.and_eq_true] at htake
              exact nonneg_of_better hb htake.1.2
            · exact hb

theorem accOf_single (x : Int) : accOf [x] = x := by
  simp [accOf]

/-- **`sel` is sound for the selector model** (partial: `hullChoosable` is a hypothesis): on a
    tree with at least two levels, when `sel` holds of the summary the selector model offers a
    compaction -/
theorem sel_sound_partial (o : Opts) (l0 l1 : List File) (rest : List (List File))
    (hsel : sel o (summary (l0 :: l1 :: rest)) = true)
    (hexp : hullChoosable o (l0 :: l1 :: rest) = true) : nextSome o (l0 :: l1 :: rest) = true := by
  obtain ⟨hpos, hf, ho, hm⟩ := (sel_iff _ _).mp hsel
  have hl0 : level (l0 :: l1 :: rest) 0 = l0 := rfl
  have hl1 : level (l0 :: l1 :: rest) 1 = l1 := rfl
  have hne : l0.isEmpty = false := by
    cases l0 with
    | nil => simp [summary, hl0] at hpos
    | cons _ _ => rfl
  have hlen0 : 0 < l0.length := by
    cases l0 with
    | nil => cases hne
    | cons _ _ => simp
  -- the two facts about the level-0 candidate
  suffices hbest : (l0Best o (l0 :: l1 :: rest)).1 = true
      ∧ (mandatoryFlag o (l0 :: l1 :: rest) = true ∨ nonneg (l0Best o (l0 :: l1 :: rest)).2 = true) by
    unfold nextSome
    rcases hbest.2 with h | h <;> simp [hbest.1, h]
  -- summary fields
  have hs0 : (summary (l0 :: l1 :: rest)).l0 = l0.length := rfl
  have hs0b : (summary (l0 :: l1 :: rest)).l0b = levelSize l0 := rfl
  have hs1 : (summary (l0 :: l1 :: rest)).l1h = (hullFiles (l0 :: l1 :: rest)).length := rfl
  have hs1b : (summary (l0 :: l1 :: rest)).l1hb = levelSize (hullFiles (l0 :: l1 :: rest)) := rfl
  have hsf : (summary (l0 :: l1 :: rest)).full = full (l0 :: l1 :: rest) := rfl
  rw [hs0, hs1] at hf ho
  rw [hs0] at hm
  rw [hs0b, hs1b, hsf] at hm
  -- unfold the loop twice
  have hB0 : (computeBounds (l0 :: l1 :: rest) 0 (minKey (l0.map (·.first))) (maxKey (l0.map (·.last)))).getD 0 ⟨0, 0, [], []⟩
      = ⟨0, l0.length, minKey (l0.map (·.first)), maxKey (l0.map (·.last))⟩ := rfl
  have hB1 : (computeBounds (l0 :: l1 :: rest) 0 (minKey (l0.map (·.first))) (maxKey (l0.map (·.last)))).getD 1 ⟨0, 0, [], []⟩
      = l1Slice (l0 :: l1 :: rest) := rfl
  have hfuel : (l0 :: l1 :: rest).length + 1 = (rest.length + 1) + 1 + 1 := by simp
  have key : ∀ r, r = l0Best o (l0 :: l1 :: rest) →
      r.1 = true ∧ (mandatoryFlag o (l0 :: l1 :: rest) = true ∨ nonneg r.2 = true) := by
    intro r hr
    unfold l0Best findBest at hr
    rw [hl0, hne] at hr
    simp only [Bool.false_eq_true, if_false] at hr
    rw [hfuel, bestLoop_succ] at hr
    have hlt0 : ¬ (0 ≥ (l0 :: l1 :: rest).length) := by simp
    rw [if_neg hlt0] at hr
    dsimp only at hr
    rw [hB0, hl0] at hr
    dsimp only at hr
    simp only [List.drop_zero, Nat.sub_zero, List.take_length, bne_self_eq_false, Bool.and_false,
      Bool.false_eq_true, if_false, Nat.lt_irrefl, decide_false, Bool.false_and, Bool.or_false,
      List.nil_append, List.length_map] at hr
    have hc0 : ¬ ((decide (l0.length > o.maxCompactionFiles) || decide (l0.length > o.maxOpenFiles)) = true) := by
      simp only [Bool.or_eq_true, decide_eq_true_eq]; omega
    have hc1 : ¬ (((0 : Nat) == l0.length) = true) := by
      simp only [beq_iff_eq]; omega
    rw [if_neg hc0, if_neg hc1] at hr
    have hf2 : rest.length + 2 = (rest.length + 1) + 1 := rfl
    rw [hf2, bestLoop_succ] at hr
    have hlt1 : ¬ (0 + 1 ≥ (l0 :: l1 :: rest).length) := by simp
    rw [if_neg hlt1] at hr
    dsimp only at hr
    rw [Nat.zero_add, hB1, hl1] at hr
    have hfiles : (List.take ((l1Slice (l0 :: l1 :: rest)).hi - (l1Slice (l0 :: l1 :: rest)).lo)
        (List.drop (l1Slice (l0 :: l1 :: rest)).lo l1)) = hullFiles (l0 :: l1 :: rest) := rfl
    rw [hfiles] at hr
    simp only [bne_self_eq_false, Bool.and_false, Bool.false_eq_true, if_false, List.length_append,
      List.length_map] at hr
    have hmc : mayChoose o (expandCount o (l0 :: l1 :: rest) 0 1 (l1Slice (l0 :: l1 :: rest)).first
        (l1Slice (l0 :: l1 :: rest)).last
        (List.map (fun x => x.id) l0 ++ List.map (fun x => x.id) (hullFiles (l0 :: l1 :: rest)))) = true := hexp
    have hc2 : ¬ ((decide (l0.length + (hullFiles (l0 :: l1 :: rest)).length > o.maxCompactionFiles)
        || decide (l0.length + (hullFiles (l0 :: l1 :: rest)).length > o.maxOpenFiles)) = true) := by
      simp only [Bool.or_eq_true, decide_eq_true_eq]; omega
    rw [if_neg hc2] at hr
    simp only [hmc, better, accOf_single, Nat.zero_lt_one, decide_true, Bool.and_true, Bool.true_and,
      Bool.or_true, Bool.false_or, if_true] at hr
    have hscore : nonneg (some (((List.map (fun x => x.size) l0).sum : Nat)
          - (((List.map (fun x => x.size) (hullFiles (l0 :: l1 :: rest))).sum : Nat) : Int))) = true
        ∨ mandatoryFlag o (l0 :: l1 :: rest) = true := by
      rcases hm with h | h | h | h
      · right; simp [mandatoryFlag, hl0, h]
      · right
        simp only [mandatoryFlag, hl0, Bool.or_eq_true, decide_eq_true_eq]
        left; right; exact h
      · right; simp [mandatoryFlag, h]
      · left
        simp only [nonneg, decide_eq_true_eq]
        unfold levelSize at h
        omega
    split at hr
    · subst hr
      refine ⟨rfl, ?_⟩
      rcases hscore with h | h
      · exact Or.inr h
      · exact Or.inl h
    · have hk := bestLoop_keeps o (l0 :: l1 :: rest) 0
        (computeBounds (l0 :: l1 :: rest) 0 (minKey (l0.map (·.first))) (maxKey (l0.map (·.last))))
        (rest.length + 1) (1 + 1)
        ([(((List.map (fun x => x.size) l0).sum : Nat) : Int)] ++ [(((List.map (fun x => x.size) (hullFiles (l0 :: l1 :: rest))).sum : Nat) : Int)])
        (List.map (fun x => x.id) l0 ++ List.map (fun x => x.id) (hullFiles (l0 :: l1 :: rest)))
        (some ((((List.map (fun x => x.size) l0).sum : Nat) : Int) - (((List.map (fun x => x.size) (hullFiles (l0 :: l1 :: rest))).sum : Nat) : Int)))
      rw [hr]
      refine ⟨hk.1, ?_⟩
      rcases hscore with h | h
      · exact Or.inr (hk.2 h)
      · exact Or.inl h
  exact key _ rfl

/-! ### `sel` and the protocol's `Sel` -/

/-- `Sel` for one selection, from the selector's side: if the selector offers a compaction
    whenever `sel` holds of the tree it looks at (nothing in flight), and `sel` holds of every
    tree on which ingest is stalled, the event obeys `Blue.Stall.selOK` — the hypothesis of
    `Blue.Stall.no_deadlock` -/
theorem selOK_of_sel (s : Blue.Stall.St) (i : Nat) (a : Bool) (o : Opts) (m : Summary)
    (hspec : Blue.Stall.idle s = true → sel o m = true → a = true)
    (hcover : Blue.Stall.stalled s = true → sel o m = true) :
    Blue.Stall.selOK s (.select i a) = true := by
  cases a with
  | true => rfl
  | false =>
    simp only [Blue.Stall.selOK, Bool.not_eq_true', Bool.and_eq_false_iff]
    cases hst : Blue.Stall.stalled s with
    | false => left; rfl
    | true =>
      right
      cases hid : Blue.Stall.idle s with
      | false => rfl
      | true => exact absurd (hspec hid (hcover hst)) (by simp)

end Blue.Selector
