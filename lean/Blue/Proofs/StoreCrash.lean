import Blue.Model.StoreCrash
namespace Blue.StoreCrash

/-! ### basics -/

theorem find_cons_ne {k nm : Name} {f : File} {t : List (Name × File)} (h : k ≠ nm) :
    find ((k, f) :: t) nm = find t nm := by
  simp [find, h]

theorem find_cons_eq {k : Name} {f : File} {t : List (Name × File)} :
    find ((k, f) :: t) k = some f := by
  simp [find]

theorem find_filter_ne {x nm : Name} (h : nm ≠ x) : ∀ (t : List (Name × File)),
    find (t.filter (fun e => e.1 ≠ x)) nm = find t nm
  | [] => rfl
  | (k, f) :: t => by
    rw [List.filter_cons]
    by_cases hk : k = x
    · subst hk
      simp only [ne_eq, not_true_eq_false, decide_false, Bool.false_eq_true, if_false]
      rw [find_filter_ne h t, find_cons_ne (Ne.symm h)]
    · simp only [ne_eq, hk, not_false_eq_true, decide_true, if_true]
      simp only [find]
      rw [find_filter_ne h t]

theorem logPart_nil (mani : List Name) : logPart mani [] = [] := rfl

theorem logPart_append (mani : List Name) (a b : List (List Nat)) :
    logPart mani (a ++ b) = logPart mani a ++ logPart mani b := by
  unfold logPart; rw [List.filter_append, List.flatten_append]

theorem logPart_cons_empty (mani : List Name) (ds : List (List Nat)) :
    logPart mani ([] :: ds) = logPart mani ds := by
  unfold logPart
  rw [List.filter_cons]
  split <;> simp

theorem logPart_cons_notin {mani : List Name} {d : List Nat} (ds : List (List Nat)) (h : d ∉ mani) :
    logPart mani (d :: ds) = d ++ logPart mani ds := by
  unfold logPart
  rw [List.filter_cons]
  simp [h]

theorem logPart_cons_in {mani : List Name} {d : List Nat} (ds : List (List Nat)) (h : d ∈ mani) :
    logPart mani (d :: ds) = logPart mani ds := by
  unfold logPart
  rw [List.filter_cons]
  simp [h]

theorem logPart_single {mani : List Name} {d : List Nat} (h : d = [] ∨ d ∉ mani) :
    logPart mani [d] = d := by
  rcases h with rfl | h
  · rw [logPart_cons_empty]; rfl
  · rw [logPart_cons_notin _ h, logPart_nil, List.append_nil]

theorem live_append (txs : List Tx) (tx : Tx) : live (txs ++ [tx]) = applyTx (live txs) tx := by
  unfold live; rw [List.foldl_append]; rfl

theorem recover_some {view : File → List Nat} {txs : List Tx} {fs : Fs}
    (h : ∀ nm ∈ live txs, (find fs.sst nm).map view = some nm) :
    recover view txs fs
      = some ((live txs).flatten ++ logPart (live txs) (fs.logs.map (fun l => view l.2))) := by
  unfold recover; rw [if_pos h]

theorem recover_congr {view : File → List Nat} {txs : List Tx} {fs fs' : Fs}
    (hs : ∀ nm ∈ live txs, find fs'.sst nm = find fs.sst nm)
    (hl : logPart (live txs) (fs'.logs.map (fun l => view l.2))
        = logPart (live txs) (fs.logs.map (fun l => view l.2))) :
    recover view txs fs' = recover view txs fs := by
  unfold recover
  have hiff : (∀ nm ∈ live txs, (find fs'.sst nm).map view = some nm)
      ↔ (∀ nm ∈ live txs, (find fs.sst nm).map view = some nm) := by
    constructor
    · intro h nm hnm; rw [← hs nm hnm]; exact h nm hnm
    · intro h nm hnm; rw [hs nm hnm]; exact h nm hnm
  by_cases hc : ∀ nm ∈ live txs, (find fs.sst nm).map view = some nm
  · rw [if_pos hc, if_pos (hiff.mpr hc), hl]
  · rw [if_neg hc, if_neg (fun h => hc (hiff.mp h))]

theorem run_append (fs : Fs) (a b : List Op) : run fs (a ++ b) = run (run fs a) b := by
  unfold run; rw [List.foldl_append]

theorem run_cons (fs : Fs) (a : Op) (b : List Op) : run fs (a :: b) = run (step fs a) b := rfl

/-! ### operations that cannot change what a reopen sees -/

def FrameOp (mani : List Name) : Op → Prop
  | .tmpCreate _ _ => True
  | .tmpSync _ => True
  | .tmpUnlink _ => True
  | .ack _ => True
  | .logCreate _ => True
  | .link nm => nm ∉ mani
  | .sstTrash nm => nm ∉ mani
  | _ => False

theorem frame_step {view : File → List Nat} (hv : view ⟨[], []⟩ = []) {txs : List Tx} {fs : Fs} {op : Op}
    (h : FrameOp (live txs) op) :
    recover view txs (step fs op) = recover view txs fs
    ∧ (step fs op).maniDurable = fs.maniDurable ∧ (step fs op).maniPending = fs.maniPending := by
  cases op with
  | tmpCreate _ _ => exact ⟨rfl, rfl, rfl⟩
  | tmpSync _ => exact ⟨rfl, rfl, rfl⟩
  | tmpUnlink _ => exact ⟨rfl, rfl, rfl⟩
  | ack _ => exact ⟨rfl, rfl, rfl⟩
  | logCreate n =>
    refine ⟨recover_congr (fun _ _ => rfl) ?_, rfl, rfl⟩
    simp only [step, List.map_append, List.map_cons, List.map_nil]
    rw [logPart_append, hv, logPart_cons_empty, logPart_nil, List.append_nil]
  | link nm =>
    simp only [FrameOp] at h
    simp only [step]
    split
    · refine ⟨recover_congr ?_ rfl, rfl, rfl⟩
      intro x hx
      exact find_cons_ne (by intro he; subst he; exact h hx)
    · exact ⟨rfl, rfl, rfl⟩
  | sstTrash nm =>
    simp only [FrameOp] at h
    refine ⟨recover_congr ?_ rfl, rfl, rfl⟩
    intro x hx
    exact find_filter_ne (by intro he; subst he; exact h hx) _
  | logAppend _ _ => exact absurd h id
  | logSync _ => exact absurd h id
  | maniAppend _ => exact absurd h id
  | maniSync => exact absurd h id
  | logTrash _ => exact absurd h id

theorem frame_run {view : File → List Nat} (hv : view ⟨[], []⟩ = []) {txs : List Tx} : ∀ (ops : List Op) (fs : Fs),
    (∀ op ∈ ops, FrameOp (live txs) op) →
    recover view txs (run fs ops) = recover view txs fs
    ∧ (run fs ops).maniDurable = fs.maniDurable ∧ (run fs ops).maniPending = fs.maniPending
  | [], _, _ => ⟨rfl, rfl, rfl⟩
  | op :: ops, fs, h => by
    rw [run_cons]
    obtain ⟨h1, h2, h3⟩ := frame_run hv ops (step fs op) (fun o ho => h o (List.mem_cons_of_mem _ ho))
    obtain ⟨g1, g2, g3⟩ := frame_step hv (txs := txs) (fs := fs) (h op List.mem_cons_self)
    exact ⟨h1.trans g1, h2.trans g2, h3.trans g3⟩

theorem frameB {ops : List Op} {fs : Fs} (h : ∀ op ∈ ops, FrameOp (live fs.maniDurable) op) :
    recoverB (run fs ops) = recoverB fs := by
  obtain ⟨h1, h2, _⟩ := frame_run (view := (·.durable)) rfl (txs := fs.maniDurable) ops fs h
  unfold recoverB; rw [h2]; exact h1

theorem frameA {ops : List Op} {fs : Fs}
    (h : ∀ op ∈ ops, FrameOp (live (fs.maniDurable ++ fs.maniPending)) op) :
    recoverA (run fs ops) = recoverA fs := by
  obtain ⟨h1, h2, h3⟩ := frame_run (view := (·.data)) rfl (txs := fs.maniDurable ++ fs.maniPending) ops fs h
  unfold recoverA; rw [h2, h3]; exact h1

/-! ### the block-boundary invariant -/

structure Inv (fs : Fs) (kv : Kv) : Prop where
  sst : ∀ c ∈ kv.files, find fs.sst c = some ⟨c, c⟩
  md : live fs.maniDurable = kv.files
  mp : fs.maniPending = []
  logs : fs.logs = [(kv.cur, ⟨kv.content, kv.content⟩)]
  all : (kv.files.flatten ++ kv.content).Perm (List.range kv.next)

theorem notin_files {files : List Name} {c : List Nat} {n : Nat}
    (h : (files.flatten ++ c).Perm (List.range n)) (hne : c ≠ []) : c ∉ files := by
  intro hin
  have hnd : (files.flatten ++ c).Nodup := h.nodup_iff.mpr List.nodup_range
  rw [List.nodup_append] at hnd
  obtain ⟨x, hx⟩ := List.exists_mem_of_ne_nil c hne
  exact hnd.2.2 x (List.mem_flatten.mpr ⟨c, hin, hx⟩) x hx rfl

/-- what a reopen yields: some permutation of the batches `0 … k-1`, `lo ≤ k ≤ hi` -/
def Ok (r : Option (List Nat)) (lo hi : Nat) : Prop :=
  ∃ l k, r = some l ∧ l.Perm (List.range k) ∧ lo ≤ k ∧ k ≤ hi

theorem boundary_gen {view : File → List Nat} (hv : ∀ c, view ⟨c, c⟩ = c) {fs : Fs} {kv : Kv} (h : Inv fs kv) :
    recover view fs.maniDurable fs = some (kv.files.flatten ++ kv.content) := by
  rw [recover_some (by rw [h.md]; intro nm hnm; rw [h.sst nm hnm]; exact congrArg some (hv nm))]
  rw [h.md, h.logs]
  simp only [List.map_cons, List.map_nil, hv]
  rw [logPart_single]
  by_cases hc : kv.content = []
  · exact Or.inl hc
  · exact Or.inr (notin_files h.all hc)

theorem boundaryB {fs : Fs} {kv : Kv} (h : Inv fs kv) :
    recoverB fs = some (kv.files.flatten ++ kv.content) := boundary_gen (fun _ => rfl) h

theorem boundaryA {fs : Fs} {kv : Kv} (h : Inv fs kv) :
    recoverA fs = some (kv.files.flatten ++ kv.content) := by
  unfold recoverA
  rw [h.mp, List.append_nil]
  exact boundary_gen (fun _ => rfl) h

/-! ### a block built around one manifest transaction -/

theorem recover_whole {view : File → List Nat} (hv : ∀ c, view ⟨c, c⟩ = c) {fs : Fs} {txs : List Tx}
    {L : List Name} (hL : live txs = L) (hwhole : ∀ nm ∈ L, find fs.sst nm = some ⟨nm, nm⟩) :
    recover view txs fs = some (L.flatten ++ logPart L (fs.logs.map (fun l => view l.2))) := by
  rw [recover_some (by rw [hL]; intro nm hnm; rw [hwhole nm hnm]; exact congrArg some (hv nm)), hL]

theorem mem_take {α : Type} {l : List α} {n : Nat} {a : α} (h : a ∈ l.take n) : a ∈ l :=
  List.mem_of_mem_take h

/-- every crash point of `pre ++ [maniAppend tx, maniSync] ++ post`, where `pre` and `post` cannot
    change what a reopen sees and `pre` has put every file of the new manifest state in place:
    a reopen yields the old content or the new content `R`, under both persistence models -/
theorem tx_block {fs : Fs} {kv : Kv} (hinv : Inv fs kv) (pre post : List Op) (tx : Tx) (R : List Nat)
    (hpre : ∀ op ∈ pre, FrameOp kv.files op)
    (hwhole : ∀ nm ∈ applyTx kv.files tx, find (run fs pre).sst nm = some ⟨nm, nm⟩)
    (hlogs : ∀ l ∈ (run fs pre).logs, l.2.data = l.2.durable)
    (hR : (applyTx kv.files tx).flatten
        ++ logPart (applyTx kv.files tx) ((run fs pre).logs.map (fun l => l.2.durable)) = R)
    (hpost : ∀ op ∈ post, FrameOp (applyTx kv.files tx) op) (n : Nat) :
    let fsn := run fs ((pre ++ [Op.maniAppend tx, Op.maniSync] ++ post).take n)
    (recoverB fsn = some (kv.files.flatten ++ kv.content) ∨ recoverB fsn = some R)
    ∧ (recoverA fsn = some (kv.files.flatten ++ kv.content) ∨ recoverA fsn = some R) := by
  intro fsn
  have hpreB : ∀ op ∈ pre, FrameOp (live fs.maniDurable) op := by rw [hinv.md]; exact hpre
  have hpreA : ∀ op ∈ pre, FrameOp (live (fs.maniDurable ++ fs.maniPending)) op := by
    rw [hinv.mp, List.append_nil, hinv.md]; exact hpre
  obtain ⟨_, hd1, hp1⟩ := frame_run (view := (·.durable)) rfl (txs := fs.maniDurable) pre fs hpreB
  rw [hinv.mp] at hp1
  have hlogsEq : (run fs pre).logs.map (fun l => l.2.data) = (run fs pre).logs.map (fun l => l.2.durable) :=
    List.map_congr_left (fun l hl => hlogs l hl)
  have hlive' : live (fs.maniDurable ++ [tx]) = applyTx kv.files tx := by rw [live_append, hinv.md]
  rcases Nat.lt_or_ge n (pre.length + 1) with hn | hn
  · -- inside `pre`
    have htake : (pre ++ [Op.maniAppend tx, Op.maniSync] ++ post).take n = pre.take n := by
      rw [List.append_assoc, List.take_append_of_le_length (by omega)]
    have e : fsn = run fs (pre.take n) := by simp only [fsn, htake]
    rw [e]
    constructor
    · left; rw [frameB (fun op ho => hpreB op (mem_take ho))]; exact boundaryB hinv
    · left; rw [frameA (fun op ho => hpreA op (mem_take ho))]; exact boundaryA hinv
  · rcases Nat.lt_or_ge n (pre.length + 2) with hn2 | hn2
    · -- the transaction is appended but not synced
      have hn1 : n = pre.length + 1 := by omega
      have htake : (pre ++ [Op.maniAppend tx, Op.maniSync] ++ post).take n = pre ++ [Op.maniAppend tx] := by
        rw [List.append_assoc, List.take_append, List.take_of_length_le (by omega)]
        have : n - pre.length = 1 := by omega
        rw [this]; rfl
      have e : fsn = step (run fs pre) (Op.maniAppend tx) := by
        simp only [fsn, htake, run_append]; rfl
      rw [e]
      constructor
      · left
        have : recoverB (step (run fs pre) (Op.maniAppend tx)) = recoverB (run fs pre) := rfl
        rw [this, frameB hpreB]; exact boundaryB hinv
      · right
        have hmd : (step (run fs pre) (Op.maniAppend tx)).maniDurable = fs.maniDurable := hd1
        have hmp : (step (run fs pre) (Op.maniAppend tx)).maniPending = [tx] := by
          show (run fs pre).maniPending ++ [tx] = [tx]
          rw [hp1]; rfl
        have hl : (step (run fs pre) (Op.maniAppend tx)).logs = (run fs pre).logs := rfl
        have := recover_whole (view := (·.data)) (fun _ => rfl)
          (fs := step (run fs pre) (Op.maniAppend tx)) hlive' hwhole
        unfold recoverA
        rw [hmd, hmp, this, hl, hlogsEq, hR]
    · -- the transaction is durable
      have htake : (pre ++ [Op.maniAppend tx, Op.maniSync] ++ post).take n
          = pre ++ [Op.maniAppend tx, Op.maniSync] ++ post.take (n - (pre.length + 2)) := by
        rw [List.take_append, List.take_of_length_le (by simp; omega)]
        simp
      let fs2 := step (step (run fs pre) (Op.maniAppend tx)) Op.maniSync
      have e : fsn = run fs2 (post.take (n - (pre.length + 2))) := by
        simp only [fsn, htake, run_append]; rfl
      have h2d : fs2.maniDurable = fs.maniDurable ++ [tx] := by
        simp only [fs2, step]; rw [hd1, hp1, List.nil_append]
      have h2p : fs2.maniPending = [] := rfl
      have hB2 : recoverB fs2 = some R := by
        unfold recoverB
        rw [h2d]
        have := recover_whole (view := (·.durable)) (fun _ => rfl) (fs := fs2) hlive' hwhole
        rw [this]; exact congrArg some hR
      have hA2 : recoverA fs2 = some R := by
        unfold recoverA
        rw [h2d, h2p, List.append_nil]
        have := recover_whole (view := (·.data)) (fun _ => rfl) (fs := fs2) hlive' hwhole
        rw [this]
        have hl2 : fs2.logs = (run fs pre).logs := rfl
        rw [hl2, hlogsEq]; exact congrArg some hR
      rw [e]
      constructor
      · right
        rw [frameB (by rw [h2d, hlive']; exact fun op ho => hpost op (mem_take ho))]; exact hB2
      · right
        rw [frameA (by rw [h2d, h2p, List.append_nil, hlive']; exact fun op ho => hpost op (mem_take ho))]
        exact hA2

/-! ### put -/

theorem put_block {fs : Fs} {kv : Kv} (h : Inv fs kv) :
    recoverB (run fs [.logAppend kv.cur kv.next]) = some (kv.files.flatten ++ kv.content)
    ∧ recoverB (run fs [.logAppend kv.cur kv.next, .logSync kv.cur])
        = some (kv.files.flatten ++ (kv.content ++ [kv.next]))
    ∧ recoverA (run fs [.logAppend kv.cur kv.next]) = some (kv.files.flatten ++ (kv.content ++ [kv.next]))
    ∧ recoverA (run fs [.logAppend kv.cur kv.next, .logSync kv.cur])
        = some (kv.files.flatten ++ (kv.content ++ [kv.next]))
    ∧ Inv (run fs (block kv .put)) (after kv .put) := by
  obtain ⟨tmp, sst, md, mp, logs⟩ := fs
  obtain ⟨h2, h3, h4, h5, h6⟩ := h
  simp only at h2 h3 h4 h5
  subst h4 h5
  have hall' : (kv.files.flatten ++ (kv.content ++ [kv.next])).Perm (List.range (kv.next + 1)) := by
    rw [← List.append_assoc, List.range_succ]
    exact h6.append_right _
  have hn1 := notin_files hall' (by simp)
  have hn0 : kv.content = [] ∨ kv.content ∉ kv.files := by
    by_cases hc : kv.content = []
    · exact Or.inl hc
    · exact Or.inr (notin_files h6 hc)
  refine ⟨?_, ?_, ?_, ?_, ?_⟩
  · unfold recoverB
    simp only [run, List.foldl_cons, List.foldl_nil, step, List.map_cons, List.map_nil, if_true]
    rw [recover_whole (fun _ => rfl) h3 h2]
    simp only [List.map_cons, List.map_nil]
    rw [logPart_single hn0]
  · unfold recoverB
    simp only [run, List.foldl_cons, List.foldl_nil, step, List.map_cons, List.map_nil, if_true]
    rw [recover_whole (fun _ => rfl) h3 h2]
    simp only [List.map_cons, List.map_nil]
    rw [logPart_single (Or.inr hn1)]
  · unfold recoverA
    simp only [run, List.foldl_cons, List.foldl_nil, step, List.map_cons, List.map_nil, if_true, List.append_nil]
    rw [recover_whole (fun _ => rfl) h3 h2]
    simp only [List.map_cons, List.map_nil]
    rw [logPart_single (Or.inr hn1)]
  · unfold recoverA
    simp only [run, List.foldl_cons, List.foldl_nil, step, List.map_cons, List.map_nil, if_true, List.append_nil]
    rw [recover_whole (fun _ => rfl) h3 h2]
    simp only [List.map_cons, List.map_nil]
    rw [logPart_single (Or.inr hn1)]
  · simp only [block, run, List.foldl_cons, List.foldl_nil, step, List.map_cons, List.map_nil, if_true, after]
    exact ⟨h2, h3, rfl, rfl, hall'⟩

/-! ### flush -/

theorem applyTx_add (l a : List Name) : applyTx l ⟨a, []⟩ = l ++ a := by
  unfold applyTx; simp

theorem flush_split (kv : Kv) (hne : kv.content ≠ []) :
    block kv .flush
      = ([Op.logCreate (kv.cur + 1), .tmpCreate kv.content kv.content, .tmpSync kv.content, .link kv.content]
          ++ [Op.maniAppend ⟨[kv.content], []⟩, Op.maniSync] ++ [Op.tmpUnlink kv.content])
        ++ [Op.logTrash kv.cur] := by
  simp [block, hne]

theorem flush_block {fs : Fs} {kv : Kv} (h : Inv fs kv) (hne : kv.content ≠ []) :
    (∀ n, n < (block kv .flush).length →
      recoverB (run fs ((block kv .flush).take n)) = some (kv.files.flatten ++ kv.content)
      ∧ recoverA (run fs ((block kv .flush).take n)) = some (kv.files.flatten ++ kv.content))
    ∧ Inv (run fs (block kv .flush)) (after kv .flush) := by
  have hnot := notin_files h.all hne
  constructor
  · intro n hn
    rw [flush_split kv hne] at hn ⊢
    have hlen : n ≤ ([Op.logCreate (kv.cur + 1), .tmpCreate kv.content kv.content, .tmpSync kv.content,
        .link kv.content] ++ [Op.maniAppend ⟨[kv.content], []⟩, Op.maniSync]
        ++ [Op.tmpUnlink kv.content]).length := by
      simp at hn ⊢; omega
    rw [List.take_append_of_le_length hlen]
    have key := tx_block h
      [Op.logCreate (kv.cur + 1), .tmpCreate kv.content kv.content, .tmpSync kv.content, .link kv.content]
      [Op.tmpUnlink kv.content] ⟨[kv.content], []⟩ (kv.files.flatten ++ kv.content)
      (by
        intro op hop
        simp only [List.mem_cons, List.not_mem_nil, or_false] at hop
        rcases hop with rfl | rfl | rfl | rfl
        · trivial
        · trivial
        · trivial
        · exact hnot)
      (by
        obtain ⟨tmp, sst, md, mp, logs⟩ := fs
        obtain ⟨h2, h3, h4, h5, h6⟩ := h
        simp only at h2 h3 h4 h5
        subst h4 h5
        intro nm hnm
        rw [applyTx_add, List.mem_append] at hnm
        simp only [run, List.foldl_cons, List.foldl_nil, step, List.map_cons, find, if_true]
        rcases hnm with hnm | hnm
        · rw [if_neg (by intro he; rw [← he] at hnm; exact hnot hnm)]; exact h2 nm hnm
        · simp only [List.mem_singleton] at hnm; subst hnm; rw [if_pos rfl])
      (by
        obtain ⟨tmp, sst, md, mp, logs⟩ := fs
        obtain ⟨h2, h3, h4, h5, h6⟩ := h
        simp only at h2 h3 h4 h5
        subst h4 h5
        intro l hl
        simp only [run, List.foldl_cons, List.foldl_nil, step, List.map_cons, find, if_true,
          List.cons_append, List.nil_append, List.mem_cons, List.not_mem_nil, or_false] at hl
        rcases hl with rfl | rfl <;> rfl)
      (by
        obtain ⟨tmp, sst, md, mp, logs⟩ := fs
        obtain ⟨h2, h3, h4, h5, h6⟩ := h
        simp only at h2 h3 h4 h5
        subst h4 h5
        simp only [run, List.foldl_cons, List.foldl_nil, step, List.map_cons, find, if_true,
          List.cons_append, List.nil_append, List.map_nil]
        rw [applyTx_add, logPart_cons_in _ (by simp), logPart_cons_empty, logPart_nil, List.append_nil]
        simp)
      (by
        intro op hop
        simp only [List.mem_singleton] at hop
        subst hop; trivial)
      n
    simp only at key
    obtain ⟨kB, kA⟩ := key
    exact ⟨by rcases kB with k | k <;> exact k, by rcases kA with k | k <;> exact k⟩
  · obtain ⟨tmp, sst, md, mp, logs⟩ := fs
    obtain ⟨h2, h3, h4, h5, h6⟩ := h
    simp only at h2 h3 h4 h5
    subst h4 h5
    simp only [block, if_neg hne, after, run, List.foldl_cons, List.foldl_nil, step, List.cons_append,
      List.nil_append, List.map_cons, List.map_nil, if_true, find, List.foldl_append]
    refine ⟨?_, ?_, rfl, ?_, ?_⟩
    · intro c hc
      rw [applyTx_add, List.mem_append] at hc
      rcases hc with hc | hc
      · rw [find_cons_ne (by intro he; subst he; exact hnot hc)]; exact h2 c hc
      · simp only [List.mem_singleton] at hc; subst hc; exact find_cons_eq
    · simp only [List.append_nil]; rw [live_append, h3]
    · simp
    · rw [applyTx_add]; simpa using h6

/-! ### clean reopen -/

theorem reopen_block {fs : Fs} {kv : Kv} (h : Inv fs kv) :
    (∀ n, n < (block kv .reopen).length →
      recoverB (run fs ((block kv .reopen).take n)) = some (kv.files.flatten ++ kv.content)
      ∧ recoverA (run fs ((block kv .reopen).take n)) = some (kv.files.flatten ++ kv.content))
    ∧ Inv (run fs (block kv .reopen)) (after kv .reopen) := by
  by_cases hne : kv.content = []
  · -- an empty log is only moved away
    have hb : block kv .reopen = [.logTrash kv.cur, .logCreate (kv.cur + 1)] := by simp [block, hne]
    rw [hb]
    obtain ⟨tmp, sst, md, mp, logs⟩ := fs
    obtain ⟨h2, h3, h4, h5, h6⟩ := h
    simp only at h2 h3 h4 h5
    subst h4 h5
    constructor
    · intro n hn
      simp only [List.length_cons, List.length_nil] at hn
      rcases n with _ | _ | n
      · simp only [List.take_zero, run, List.foldl_nil]
        have hinv : Inv ⟨tmp, sst, md, [], [(kv.cur, ⟨kv.content, kv.content⟩)]⟩ kv := ⟨h2, h3, rfl, rfl, h6⟩
        exact ⟨boundaryB hinv, boundaryA hinv⟩
      · simp only [List.take, run, List.foldl_cons, List.foldl_nil, step, List.filter_cons, ne_eq,
          not_true_eq_false, decide_false, Bool.false_eq_true, if_false, List.filter_nil]
        constructor
        · unfold recoverB
          rw [recover_whole (fun _ => rfl) h3 h2]
          simp [logPart, hne]
        · unfold recoverA
          simp only [List.append_nil]
          rw [recover_whole (fun _ => rfl) h3 h2]
          simp [logPart, hne]
      · omega
    · simp only [after, hne, if_true, run, List.foldl_cons, List.foldl_nil, step, List.filter_cons, ne_eq,
        not_true_eq_false, decide_false, Bool.false_eq_true, if_false, List.filter_nil, List.nil_append]
      refine ⟨h2, h3, rfl, rfl, ?_⟩
      rw [hne] at h6; simpa using h6
  · have hnot := notin_files h.all hne
    have hsplit : block kv .reopen
        = ([Op.tmpCreate kv.content kv.content, .tmpSync kv.content, .link kv.content]
            ++ [Op.maniAppend ⟨[kv.content], []⟩, Op.maniSync] ++ [Op.tmpUnlink kv.content])
          ++ [Op.logTrash kv.cur, Op.logCreate (kv.cur + 1)] := by simp [block, hne]
    have hwhole : ∀ nm ∈ applyTx kv.files ⟨[kv.content], []⟩,
        find (run fs [Op.tmpCreate kv.content kv.content, .tmpSync kv.content, .link kv.content]).sst nm
          = some ⟨nm, nm⟩ := by
      obtain ⟨tmp, sst, md, mp, logs⟩ := fs
      obtain ⟨h2, h3, h4, h5, h6⟩ := h
      simp only at h2 h3 h4 h5
      subst h4 h5
      intro nm hnm
      rw [applyTx_add, List.mem_append] at hnm
      simp only [run, List.foldl_cons, List.foldl_nil, step, List.map_cons, find, if_true]
      rcases hnm with hnm | hnm
      · rw [if_neg (by intro he; rw [← he] at hnm; exact hnot hnm)]; exact h2 nm hnm
      · simp only [List.mem_singleton] at hnm; subst hnm; rw [if_pos rfl]
    constructor
    · intro n hn
      rw [hsplit] at hn ⊢
      rcases Nat.lt_or_ge n 7 with hn7 | hn7
      · -- inside the part built around the manifest transaction
        rw [List.take_append_of_le_length (by simp; omega)]
        have key := tx_block h
          [Op.tmpCreate kv.content kv.content, .tmpSync kv.content, .link kv.content]
          [Op.tmpUnlink kv.content] ⟨[kv.content], []⟩ (kv.files.flatten ++ kv.content)
          (by
            intro op hop
            simp only [List.mem_cons, List.not_mem_nil, or_false] at hop
            rcases hop with rfl | rfl | rfl
            · trivial
            · trivial
            · exact hnot)
          hwhole
          (by
            obtain ⟨tmp, sst, md, mp, logs⟩ := fs
            obtain ⟨h2, h3, h4, h5, h6⟩ := h
            simp only at h2 h3 h4 h5
            subst h4 h5
            intro l hl
            simp only [run, List.foldl_cons, List.foldl_nil, step, List.map_cons, find, if_true,
              List.mem_cons, List.not_mem_nil, or_false] at hl
            subst hl; rfl)
          (by
            obtain ⟨tmp, sst, md, mp, logs⟩ := fs
            obtain ⟨h2, h3, h4, h5, h6⟩ := h
            simp only at h2 h3 h4 h5
            subst h4 h5
            simp only [run, List.foldl_cons, List.foldl_nil, step, List.map_cons, find, if_true, List.map_nil]
            rw [applyTx_add, logPart_cons_in _ (by simp), logPart_nil, List.append_nil]
            simp)
          (by
            intro op hop
            simp only [List.mem_singleton] at hop
            subst hop; trivial)
          n
        simp only at key
        obtain ⟨kB, kA⟩ := key
        exact ⟨by rcases kB with k | k <;> exact k, by rcases kA with k | k <;> exact k⟩
      · -- the old log is in the trash, the new one not yet created
        have hn7' : n = 7 := by simp at hn; omega
        subst hn7'
        obtain ⟨tmp, sst, md, mp, logs⟩ := fs
        obtain ⟨h2, h3, h4, h5, h6⟩ := h
        simp only at h2 h3 h4 h5
        subst h4 h5
        have hlive : live (md ++ [⟨[kv.content], []⟩]) = kv.files ++ [kv.content] := by
          rw [live_append, h3, applyTx_add]
        have hw' : ∀ nm ∈ kv.files ++ [kv.content],
            find ((kv.content, ⟨kv.content, kv.content⟩) :: sst) nm = some ⟨nm, nm⟩ := by
          intro nm hnm
          rw [List.mem_append] at hnm
          rcases hnm with hnm | hnm
          · rw [find_cons_ne (by intro he; subst he; exact hnot hnm)]; exact h2 nm hnm
          · simp only [List.mem_singleton] at hnm; subst hnm; exact find_cons_eq
        simp only [List.take, List.cons_append, List.nil_append, run, List.foldl_cons, List.foldl_nil, step,
          List.map_cons, find, if_true, List.filter_cons, ne_eq, not_true_eq_false, decide_false,
          Bool.false_eq_true, if_false, List.filter_nil, List.map_nil]
        constructor
        · unfold recoverB
          dsimp only
          rw [recover_whole (fun _ => rfl) hlive hw']
          simp [logPart]
        · unfold recoverA
          dsimp only
          rw [List.append_nil, recover_whole (fun _ => rfl) hlive hw']
          simp [logPart]
    · obtain ⟨tmp, sst, md, mp, logs⟩ := fs
      obtain ⟨h2, h3, h4, h5, h6⟩ := h
      simp only at h2 h3 h4 h5
      subst h4 h5
      simp only [block, if_neg hne, after, run, List.foldl_cons, List.foldl_nil, step, List.cons_append,
        List.nil_append, List.map_cons, List.map_nil, if_true, find, List.foldl_append, List.filter_cons,
        ne_eq, not_true_eq_false, decide_false, Bool.false_eq_true, if_false, List.filter_nil]
      refine ⟨?_, ?_, rfl, rfl, ?_⟩
      · intro c hc
        rw [applyTx_add, List.mem_append] at hc
        rcases hc with hc | hc
        · rw [find_cons_ne (by intro he; subst he; exact hnot hc)]; exact h2 c hc
        · simp only [List.mem_singleton] at hc; subst hc; exact find_cons_eq
      · simp only [List.append_nil]; rw [live_append, h3]
      · rw [applyTx_add]; simpa using h6

/-! ### compaction: what the phases do -/

theorem find_map_sync_ne {o g : Name} (h : g ≠ o) : ∀ (t : List (Name × File)),
    find (t.map (fun e => if e.1 = o then (e.1, { e.2 with durable := e.2.data }) else e)) g = find t g
  | [] => rfl
  | (k, f) :: t => by
    simp only [List.map_cons]
    by_cases hk : k = o
    · subst hk
      simp only [if_true]
      rw [find_cons_ne (Ne.symm h), find_cons_ne (Ne.symm h), find_map_sync_ne h t]
    · simp only [hk, if_false]
      simp only [find]
      rw [find_map_sync_ne h t]

/-- the files everything but `tmp/` consists of -/
def SameButTmp (a b : Fs) : Prop :=
  a.sst = b.sst ∧ a.logs = b.logs ∧ a.maniDurable = b.maniDurable ∧ a.maniPending = b.maniPending

theorem create_phase : ∀ (outs : List Name) (fs : Fs) (G : List Name),
    (∀ g ∈ G, find fs.tmp g = some ⟨g, g⟩) →
    SameButTmp (run fs (outs.flatMap (fun o => [Op.tmpCreate o o, Op.tmpSync o]))) fs
    ∧ ∀ g ∈ G ++ outs, find (run fs (outs.flatMap (fun o => [Op.tmpCreate o o, Op.tmpSync o]))).tmp g
        = some ⟨g, g⟩
  | [], fs, G, hG => by
    simp only [List.flatMap_nil, List.append_nil]
    exact ⟨⟨rfl, rfl, rfl, rfl⟩, hG⟩
  | o :: outs, fs, G, hG => by
    simp only [List.flatMap_cons, List.cons_append, List.nil_append, run_cons]
    have hG' : ∀ g ∈ G ++ [o], find (step (step fs (Op.tmpCreate o o)) (Op.tmpSync o)).tmp g = some ⟨g, g⟩ := by
      intro g hg
      simp only [step, List.map_cons, if_true]
      by_cases hgo : g = o
      · subst hgo; exact find_cons_eq
      · rw [find_cons_ne (Ne.symm hgo), find_map_sync_ne hgo]
        rw [List.mem_append] at hg
        rcases hg with hg | hg
        · exact hG g hg
        · simp only [List.mem_singleton] at hg; exact absurd hg hgo
    obtain ⟨h1, h2⟩ := create_phase outs (step (step fs (Op.tmpCreate o o)) (Op.tmpSync o)) (G ++ [o]) hG'
    refine ⟨?_, ?_⟩
    · obtain ⟨a, b, c, d⟩ := h1
      exact ⟨a, b, c, d⟩
    · intro g hg
      apply h2
      simpa using hg

theorem link_phase : ∀ (outs : List Name) (fs : Fs) (G : List Name),
    (∀ o ∈ outs, find fs.tmp o = some ⟨o, o⟩) →
    (∀ g ∈ G, find fs.sst g = some ⟨g, g⟩) →
    (run fs (outs.map Op.link)).logs = fs.logs
    ∧ (run fs (outs.map Op.link)).maniDurable = fs.maniDurable
    ∧ (run fs (outs.map Op.link)).maniPending = fs.maniPending
    ∧ (∀ g ∈ G ++ outs, find (run fs (outs.map Op.link)).sst g = some ⟨g, g⟩)
    ∧ (∀ nm, nm ∉ outs → find (run fs (outs.map Op.link)).sst nm = find fs.sst nm)
  | [], fs, G, _, hG => by
    simp only [List.map_nil, List.append_nil]
    exact ⟨rfl, rfl, rfl, hG, fun _ _ => rfl⟩
  | o :: outs, fs, G, ht, hG => by
    simp only [List.map_cons, run_cons]
    have hto : find fs.tmp o = some ⟨o, o⟩ := ht o List.mem_cons_self
    have hstep : step fs (Op.link o) = { fs with sst := (o, ⟨o, o⟩) :: fs.sst } := by
      simp only [step, hto]
    rw [hstep]
    have hG' : ∀ g ∈ G ++ [o], find ({ fs with sst := (o, ⟨o, o⟩) :: fs.sst } : Fs).sst g = some ⟨g, g⟩ := by
      intro g hg
      by_cases hgo : g = o
      · subst hgo; exact find_cons_eq
      · show find ((o, _) :: fs.sst) g = _
        rw [find_cons_ne (Ne.symm hgo)]
        rw [List.mem_append] at hg
        rcases hg with hg | hg
        · exact hG g hg
        · simp only [List.mem_singleton] at hg; exact absurd hg hgo
    obtain ⟨h1, h2, h3, h4, h5⟩ := link_phase outs ({ fs with sst := (o, ⟨o, o⟩) :: fs.sst } : Fs) (G ++ [o])
      (fun o' ho' => ht o' (List.mem_cons_of_mem _ ho')) hG'
    refine ⟨h1, h2, h3, ?_, ?_⟩
    · intro g hg; apply h4; simpa using hg
    · intro nm hnm
      simp only [List.mem_cons, not_or] at hnm
      rw [h5 nm hnm.2]
      show find ((o, _) :: fs.sst) nm = _
      exact find_cons_ne (Ne.symm hnm.1)

def PostOp (X : List Name) : Op → Prop
  | .tmpUnlink _ => True
  | .sstTrash x => x ∈ X
  | _ => False

theorem post_phase (X : List Name) : ∀ (ops : List Op) (fs : Fs), (∀ op ∈ ops, PostOp X op) →
    (run fs ops).logs = fs.logs ∧ (run fs ops).maniDurable = fs.maniDurable
    ∧ (run fs ops).maniPending = fs.maniPending
    ∧ ∀ nm, nm ∉ X → find (run fs ops).sst nm = find fs.sst nm
  | [], _, _ => ⟨rfl, rfl, rfl, fun _ _ => rfl⟩
  | op :: ops, fs, h => by
    rw [run_cons]
    obtain ⟨h1, h2, h3, h4⟩ := post_phase X ops (step fs op) (fun o ho => h o (List.mem_cons_of_mem _ ho))
    have hop := h op List.mem_cons_self
    cases op with
    | tmpUnlink _ => exact ⟨h1, h2, h3, h4⟩
    | sstTrash x =>
      refine ⟨h1, h2, h3, ?_⟩
      intro nm hnm
      rw [h4 nm hnm]
      exact find_filter_ne (by intro he; subst he; exact hnm hop) _
    | logCreate _ => exact absurd hop id
    | logAppend _ _ => exact absurd hop id
    | logSync _ => exact absurd hop id
    | ack _ => exact absurd hop id
    | tmpCreate _ _ => exact absurd hop id
    | tmpSync _ => exact absurd hop id
    | link _ => exact absurd hop id
    | maniAppend _ => exact absurd hop id
    | maniSync => exact absurd hop id
    | logTrash _ => exact absurd hop id

/-! ### compaction -/

theorem filter_notin_filter (files : List Name) (p : Name → Bool) :
    files.filter (fun x => decide (x ∉ files.filter p)) = files.filter (fun x => !p x) := by
  apply List.filter_congr
  intro x hx
  simp [List.mem_filter, hx]

theorem compact_perm {kv : Kv} {p : Name → Bool} {outs : List Name} (hv : validCompact kv p outs)
    (hall : (kv.files.flatten ++ kv.content).Perm (List.range kv.next)) :
    ((applyTx kv.files ⟨outs, kv.files.filter p⟩).flatten ++ kv.content).Perm (List.range kv.next) := by
  refine List.Perm.trans (List.Perm.append_right _ ?_) hall
  unfold applyTx
  simp only
  rw [filter_notin_filter, List.flatten_append]
  refine List.Perm.trans (List.Perm.append_left _ hv.1) ?_
  rw [← List.flatten_append]
  exact List.Perm.flatten (List.Perm.trans List.perm_append_comm (List.filter_append_perm p kv.files))

theorem compact_split (kv : Kv) (p : Name → Bool) (outs : List Name) (hv : validCompact kv p outs) :
    block kv (.compact p outs)
      = (outs.flatMap (fun o => [Op.tmpCreate o o, Op.tmpSync o]) ++ outs.map Op.link ++ outs.map Op.tmpUnlink)
        ++ [Op.maniAppend ⟨outs, kv.files.filter p⟩, Op.maniSync]
        ++ (kv.files.filter p).map Op.sstTrash := by
  simp only [block, if_pos hv]

theorem compact_block {fs : Fs} {kv : Kv} (h : Inv fs kv) (p : Name → Bool) (outs : List Name)
    (hv : validCompact kv p outs) :
    (∀ n, ∃ lB lA, recoverB (run fs ((block kv (.compact p outs)).take n)) = some lB
        ∧ lB.Perm (List.range kv.next)
        ∧ recoverA (run fs ((block kv (.compact p outs)).take n)) = some lA
        ∧ lA.Perm (List.range kv.next))
    ∧ Inv (run fs (block kv (.compact p outs))) (after kv (.compact p outs)) := by
  let tx : Tx := ⟨outs, kv.files.filter p⟩
  let pre0 := outs.flatMap (fun o => [Op.tmpCreate o o, Op.tmpSync o]) ++ outs.map Op.link
  let pre := pre0 ++ outs.map Op.tmpUnlink
  let post := (kv.files.filter p).map Op.sstTrash
  have hperm := compact_perm hv h.all
  have houtsNot : ∀ o ∈ outs, o ∉ kv.files := hv.2
  -- the effect of `pre`
  obtain ⟨⟨c1, c2, c3, c4⟩, ctmp⟩ := create_phase outs fs [] (by intro g hg; cases hg)
  obtain ⟨l1, l2, l3, l4, l5⟩ := link_phase outs
    (run fs (outs.flatMap (fun o => [Op.tmpCreate o o, Op.tmpSync o]))) []
    (fun o ho => ctmp o (by simpa using ho)) (by intro g hg; cases hg)
  have hrunpre0 : run fs pre0 = run (run fs (outs.flatMap (fun o => [Op.tmpCreate o o, Op.tmpSync o])))
      (outs.map Op.link) := run_append _ _ _
  -- the scratch copies are unlinked before the manifest is written (they are invisible to recovery)
  obtain ⟨u1, u2, u3, u4⟩ := post_phase [] (outs.map Op.tmpUnlink) (run fs pre0)
    (by intro op hop; simp only [List.mem_map] at hop; obtain ⟨o, _, rfl⟩ := hop; trivial)
  have hrunpre : run fs pre = run (run fs pre0) (outs.map Op.tmpUnlink) := run_append _ _ _
  have hlogs1 : (run fs pre).logs = [(kv.cur, ⟨kv.content, kv.content⟩)] := by
    rw [hrunpre, u1, hrunpre0, l1, c2, h.logs]
  have hmd1 : (run fs pre).maniDurable = fs.maniDurable := by rw [hrunpre, u2, hrunpre0, l2, c3]
  have hmp1 : (run fs pre).maniPending = [] := by rw [hrunpre, u3, hrunpre0, l3, c4, h.mp]
  have hwhole : ∀ nm ∈ applyTx kv.files tx, find (run fs pre).sst nm = some ⟨nm, nm⟩ := by
    intro nm hnm
    rw [hrunpre, u4 nm (by simp), hrunpre0]
    simp only [applyTx, List.mem_append, List.mem_filter, tx] at hnm
    rcases hnm with ⟨hf, _⟩ | ho
    · rw [l5 nm (fun ho => houtsNot nm ho hf), c1]; exact h.sst nm hf
    · exact l4 nm (by simpa using ho)
  have hnotIns : ∀ c ∈ applyTx kv.files tx, c ∉ kv.files.filter p := by
    intro c hc
    simp only [applyTx, List.mem_append, tx] at hc
    rcases hc with hl | ho
    · exact of_decide_eq_true (List.mem_filter.mp hl).2
    · intro hin; exact houtsNot c ho (List.mem_filter.mp hin).1
  have hcontent : kv.content = [] ∨ kv.content ∉ applyTx kv.files tx := by
    by_cases hc : kv.content = []
    · exact Or.inl hc
    · exact Or.inr (notin_files hperm hc)
  have hpostFrame : ∀ op ∈ post, FrameOp (applyTx kv.files tx) op := by
    intro op hop
    simp only [post, List.mem_map] at hop
    obtain ⟨x, hx, rfl⟩ := hop
    intro hin; exact hnotIns x hin hx
  constructor
  · intro n
    rw [compact_split kv p outs hv]
    have key := tx_block h pre post tx ((applyTx kv.files tx).flatten ++ kv.content)
      (by
        intro op hop
        simp only [pre, pre0, List.mem_append, List.mem_flatMap, List.mem_map] at hop
        rcases hop with (⟨o, _, ho⟩ | ⟨o, ho, rfl⟩) | ⟨o, _, rfl⟩
        · simp only [List.mem_cons, List.not_mem_nil, or_false] at ho
          rcases ho with rfl | rfl <;> trivial
        · exact houtsNot o ho
        · trivial)
      hwhole
      (by rw [hlogs1]; intro l hl; simp only [List.mem_singleton] at hl; subst hl; rfl)
      (by rw [hlogs1]; simp only [List.map_cons, List.map_nil]; rw [logPart_single hcontent])
      hpostFrame n
    simp only at key
    obtain ⟨kB, kA⟩ := key
    have hB : ∃ lB, recoverB (run fs ((pre ++ [Op.maniAppend tx, Op.maniSync] ++ post).take n)) = some lB
        ∧ lB.Perm (List.range kv.next) := by
      rcases kB with k | k
      · exact ⟨_, k, h.all⟩
      · exact ⟨_, k, hperm⟩
    have hA : ∃ lA, recoverA (run fs ((pre ++ [Op.maniAppend tx, Op.maniSync] ++ post).take n)) = some lA
        ∧ lA.Perm (List.range kv.next) := by
      rcases kA with k | k
      · exact ⟨_, k, h.all⟩
      · exact ⟨_, k, hperm⟩
    obtain ⟨lB, b1, b2⟩ := hB
    obtain ⟨lA, a1, a2⟩ := hA
    exact ⟨lB, lA, b1, b2, a1, a2⟩
  · rw [compact_split kv p outs hv]
    have hafter : after kv (.compact p outs) = { kv with files := applyTx kv.files tx } := by
      simp only [after, if_pos hv, tx]
    rw [hafter]
    have hrun : run fs (pre ++ [Op.maniAppend tx, Op.maniSync] ++ post)
        = run (step (step (run fs pre) (Op.maniAppend tx)) Op.maniSync) post := by
      rw [run_append fs (pre ++ [Op.maniAppend tx, Op.maniSync]) post,
        run_append fs pre [Op.maniAppend tx, Op.maniSync]]; rfl
    show Inv (run fs (pre ++ [Op.maniAppend tx, Op.maniSync] ++ post)) _
    rw [hrun]
    obtain ⟨q1, q2, q3, q4⟩ := post_phase (kv.files.filter p) post
      (step (step (run fs pre) (Op.maniAppend tx)) Op.maniSync)
      (by
        intro op hop
        simp only [post, List.mem_map] at hop
        obtain ⟨x, hx, rfl⟩ := hop
        exact hx)
    refine ⟨?_, ?_, ?_, ?_, hperm⟩
    · intro c hc
      rw [q4 c (hnotIns c hc)]
      exact hwhole c hc
    · rw [q2]
      show live ((run fs pre).maniDurable ++ ((run fs pre).maniPending ++ [tx])) = _
      rw [hmd1, hmp1, List.nil_append, live_append, h.md]
    · rw [q3]; rfl
    · rw [q1]; exact hlogs1

/-! ### every history, every crash point -/

def Quiet : Op → Prop
  | .ack _ => False
  | .logAppend _ _ => False
  | _ => True

theorem counts_quiet {l : List Op} (h : ∀ op ∈ l, Quiet op) : acked l = 0 ∧ appended l = 0 := by
  unfold acked appended
  constructor <;>
  · rw [List.length_eq_zero_iff, List.filter_eq_nil_iff]
    intro o ho
    have := h o ho
    cases o <;> simp_all [Quiet]

theorem acked_append (a b : List Op) : acked (a ++ b) = acked a + acked b := by
  unfold acked; rw [List.filter_append, List.length_append]

theorem appended_append (a b : List Op) : appended (a ++ b) = appended a + appended b := by
  unfold appended; rw [List.filter_append, List.length_append]

theorem quiet_flush (kv : Kv) : ∀ op ∈ block kv .flush, Quiet op := by
  intro op hop
  simp only [block] at hop
  split at hop
  · cases hop
  · simp only [List.cons_append, List.nil_append, List.mem_cons, List.not_mem_nil, or_false] at hop
    rcases hop with rfl | rfl | rfl | rfl | rfl | rfl | rfl | rfl <;> trivial

theorem quiet_compact (kv : Kv) (p : Name → Bool) (outs : List Name) :
    ∀ op ∈ block kv (.compact p outs), Quiet op := by
  intro op hop
  simp only [block] at hop
  split at hop
  · simp only [List.mem_append, List.mem_flatMap, List.mem_map, List.mem_cons, List.not_mem_nil,
      or_false] at hop
    rcases hop with (((⟨o, _, rfl | rfl⟩ | ⟨o, _, rfl⟩) | ⟨o, _, rfl⟩) | rfl | rfl) | ⟨o, _, rfl⟩ <;> trivial
  · cases hop

theorem quiet_reopen (kv : Kv) : ∀ op ∈ block kv .reopen, Quiet op := by
  intro op hop
  simp only [block] at hop
  split at hop
  · simp only [List.mem_cons, List.not_mem_nil, or_false] at hop
    rcases hop with rfl | rfl <;> trivial
  · simp only [List.cons_append, List.nil_append, List.mem_cons, List.not_mem_nil, or_false] at hop
    rcases hop with rfl | rfl | rfl | rfl | rfl | rfl | rfl | rfl <;> trivial

/-- **C02** `crash_recover`: for every history of puts, flushes, clean reopens and compactions (any selection of
    input files, any outputs holding the same batches), every crash point `n` in its system-call
    sequence and both persistence models, reopening succeeds and yields a permutation of the
    batches `0 … k-1` with `acknowledged ≤ k ≤ appended`. -/
theorem crash_recover : ∀ (h : List Client) (fs : Fs) (kv : Kv), Inv fs kv → ∀ n,
    Ok (recoverB (run fs ((opsOf h kv).take n)))
      (kv.next + acked ((opsOf h kv).take n)) (kv.next + appended ((opsOf h kv).take n))
    ∧ Ok (recoverA (run fs ((opsOf h kv).take n)))
      (kv.next + acked ((opsOf h kv).take n)) (kv.next + appended ((opsOf h kv).take n)) := by
  intro h
  induction h with
  | nil =>
    intro fs kv hinv n
    simp only [opsOf, List.take_nil, run, List.foldl_nil]
    exact ⟨⟨_, kv.next, boundaryB hinv, hinv.all, by simp [acked], by simp⟩,
           ⟨_, kv.next, boundaryA hinv, hinv.all, by simp [acked], by simp⟩⟩
  | cons c cs ih =>
    intro fs kv hinv n
    simp only [opsOf]
    rw [List.take_append]
    -- the case "past the first block", shared by all three kinds of block
    have past : ∀ (hinv' : Inv (run fs (block kv c)) (after kv c))
        (hnext : (after kv c).next = kv.next + acked (block kv c))
        (hcnt : acked (block kv c) = appended (block kv c))
        (hn : (block kv c).length ≤ n),
        Ok (recoverB (run fs ((block kv c).take n ++ (opsOf cs (after kv c)).take (n - (block kv c).length))))
          (kv.next + acked ((block kv c).take n ++ (opsOf cs (after kv c)).take (n - (block kv c).length)))
          (kv.next + appended ((block kv c).take n ++ (opsOf cs (after kv c)).take (n - (block kv c).length)))
        ∧ Ok (recoverA (run fs ((block kv c).take n ++ (opsOf cs (after kv c)).take (n - (block kv c).length))))
          (kv.next + acked ((block kv c).take n ++ (opsOf cs (after kv c)).take (n - (block kv c).length)))
          (kv.next + appended ((block kv c).take n ++ (opsOf cs (after kv c)).take (n - (block kv c).length))) := by
      intro hinv' hnext hcnt hn
      rw [List.take_of_length_le hn, run_append, acked_append, appended_append]
      obtain ⟨⟨lB, kB, b1, b2, b3, b4⟩, ⟨lA, kA, a1, a2, a3, a4⟩⟩ := ih _ _ hinv' (n - (block kv c).length)
      exact ⟨⟨lB, kB, b1, b2, by omega, by omega⟩, ⟨lA, kA, a1, a2, by omega, by omega⟩⟩
    -- the case "inside a block that neither acknowledges nor appends"
    have inside : ∀ (hq : ∀ op ∈ block kv c, Quiet op) (hn : n < (block kv c).length)
        (lB lA : List Nat)
        (hB : recoverB (run fs ((block kv c).take n)) = some lB) (pB : lB.Perm (List.range kv.next))
        (hA : recoverA (run fs ((block kv c).take n)) = some lA) (pA : lA.Perm (List.range kv.next)),
        Ok (recoverB (run fs ((block kv c).take n ++ (opsOf cs (after kv c)).take (n - (block kv c).length))))
          (kv.next + acked ((block kv c).take n ++ (opsOf cs (after kv c)).take (n - (block kv c).length)))
          (kv.next + appended ((block kv c).take n ++ (opsOf cs (after kv c)).take (n - (block kv c).length)))
        ∧ Ok (recoverA (run fs ((block kv c).take n ++ (opsOf cs (after kv c)).take (n - (block kv c).length))))
          (kv.next + acked ((block kv c).take n ++ (opsOf cs (after kv c)).take (n - (block kv c).length)))
          (kv.next + appended ((block kv c).take n ++ (opsOf cs (after kv c)).take (n - (block kv c).length))) := by
      intro hq hn lB lA hB pB hA pA
      have h0 : n - (block kv c).length = 0 := by omega
      rw [h0, List.take_zero, List.append_nil]
      obtain ⟨c1, c2⟩ := counts_quiet (fun op ho => hq op (mem_take ho) : ∀ op ∈ (block kv c).take n, Quiet op)
      exact ⟨⟨lB, kv.next, hB, pB, by omega, by omega⟩, ⟨lA, kv.next, hA, pA, by omega, by omega⟩⟩
    cases c with
    | put =>
      obtain ⟨p1, p2, p3, p4, p5⟩ := put_block hinv
      have hall' : (kv.files.flatten ++ (kv.content ++ [kv.next])).Perm (List.range (kv.next + 1)) := by
        rw [← List.append_assoc, List.range_succ]
        exact hinv.all.append_right _
      by_cases hn : 3 ≤ n
      · exact past p5 (by simp [after, block, acked]) (by simp [block, acked, appended]) hn
      · have hlen : (block kv .put).length = 3 := rfl
        have h0 : n - (block kv .put).length = 0 := by omega
        rw [h0, List.take_zero, List.append_nil]
        rcases n with _ | _ | _ | n
        · simp only [List.take_zero, run, List.foldl_nil]
          exact ⟨⟨_, kv.next, boundaryB hinv, hinv.all, by simp [acked], by simp⟩,
                 ⟨_, kv.next, boundaryA hinv, hinv.all, by simp [acked], by simp⟩⟩
        · have ht : (block kv .put).take 1 = [.logAppend kv.cur kv.next] := rfl
          rw [ht]
          exact ⟨⟨_, kv.next, p1, hinv.all, by simp [acked], by simp⟩,
                 ⟨_, kv.next + 1, p3, hall', by simp [acked], by simp [appended]⟩⟩
        · have ht : (block kv .put).take 2 = [.logAppend kv.cur kv.next, .logSync kv.cur] := rfl
          rw [ht]
          exact ⟨⟨_, kv.next + 1, p2, hall', by simp [acked], by simp [appended]⟩,
                 ⟨_, kv.next + 1, p4, hall', by simp [acked], by simp [appended]⟩⟩
        · omega
    | flush =>
      by_cases hne : kv.content = []
      · have hb : block kv .flush = [] := by simp [block, hne]
        have ha : after kv .flush = kv := by simp [after, hne]
        rw [hb, ha]
        simp only [List.take_nil, List.nil_append, List.length_nil, Nat.sub_zero]
        exact ih _ _ hinv n
      · obtain ⟨f1, f2⟩ := flush_block hinv hne
        obtain ⟨q1, q2⟩ := counts_quiet (quiet_flush kv)
        by_cases hn : (block kv .flush).length ≤ n
        · exact past f2 (by rw [q1]; simp [after, hne]) (by rw [q1, q2]) hn
        · obtain ⟨hB, hA⟩ := f1 n (by omega)
          exact inside (quiet_flush kv) (by omega) _ _ hB hinv.all hA hinv.all
    | compact p outs =>
      by_cases hv : validCompact kv p outs
      · obtain ⟨g1, g2⟩ := compact_block hinv p outs hv
        obtain ⟨q1, q2⟩ := counts_quiet (quiet_compact kv p outs)
        by_cases hn : (block kv (.compact p outs)).length ≤ n
        · exact past g2 (by rw [q1]; simp [after, hv]) (by rw [q1, q2]) hn
        · obtain ⟨lB, lA, hB, pB, hA, pA⟩ := g1 n
          exact inside (quiet_compact kv p outs) (by omega) lB lA hB pB hA pA
      · have hb : block kv (.compact p outs) = [] := by simp [block, hv]
        have ha : after kv (.compact p outs) = kv := by simp [after, hv]
        rw [hb, ha]
        simp only [List.take_nil, List.nil_append, List.length_nil, Nat.sub_zero]
        exact ih _ _ hinv n
    | reopen =>
      obtain ⟨r1, r2⟩ := reopen_block hinv
      obtain ⟨q1, q2⟩ := counts_quiet (quiet_reopen kv)
      by_cases hn : (block kv .reopen).length ≤ n
      · exact past r2 (by rw [q1]; simp only [after]; split <;> rfl) (by rw [q1, q2]) hn
      · obtain ⟨hB, hA⟩ := r1 n (by omega)
        exact inside (quiet_reopen kv) (by omega) _ _ hB hinv.all hA hinv.all

theorem inv0 : Inv fs0 kv0 :=
  ⟨(by intro c hc; cases hc), rfl, rfl, rfl, List.Perm.refl _⟩

/-- from the empty store -/
theorem crash_recover_init (h : List Client) (n : Nat) :
    Ok (recoverB (run fs0 ((opsOf h kv0).take n))) (acked ((opsOf h kv0).take n)) (appended ((opsOf h kv0).take n))
    ∧ Ok (recoverA (run fs0 ((opsOf h kv0).take n))) (acked ((opsOf h kv0).take n)) (appended ((opsOf h kv0).take n)) := by
  have := crash_recover h fs0 kv0 inv0 n
  simpa [kv0] using this

/-- non-vacuity: two flushed files are compacted into one; crash right after the manifest
    transaction is synced, with the inputs still in `sst/` -/
example :
    let h : List Client := [.put, .flush, .put, .flush, .compact (fun _ => true) [[1, 0]], .put]
    recoverB (run fs0 ((opsOf h kv0).take 28)) = some [1, 0] := by decide

/-- mutant: the inputs go to the trash before the transaction is durable — the old manifest names
    files that are gone and the store does not reopen -/
theorem trash_inputs_early_breaks_reopen :
    let ops := opsOf [.put, .flush, .put, .flush] kv0
      ++ [Op.tmpCreate [1, 0] [1, 0], .tmpSync [1, 0], .link [1, 0], .sstTrash [0], .sstTrash [1],
          .maniAppend ⟨[[1, 0]], [[0], [1]]⟩, .maniSync]
    recoverB (run fs0 (ops.take 26)) = none := by decide

/-- non-vacuity for `reopen`: a put, a clean reopen cut short right after the old log went to the
    trash (no log at all on disk), the reopen after that crash still finds the batch -/
example : recoverB (run fs0 ((opsOf [.put, .reopen, .put] kv0).take 10)) = some [0] := by decide

end Blue.StoreCrash

#print axioms Blue.StoreCrash.crash_recover
#print axioms Blue.StoreCrash.crash_recover_init

