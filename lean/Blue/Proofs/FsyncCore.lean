import Blue.Model.FsyncCore
/-! `FsyncCoalescingCore` (sst/src/log.rs): a caller that is answered `true` has its bytes on disk.
    The model (`St`, `step`; `RSt`, `rstep` with the system call split into issue and return, where
    the call can FAIL) is `Blue/Model/FsyncCore.lean` (shared with the correspondence driver). -/
namespace Blue.FsyncCore

def Inv (s : St) : Prop := s.synced ≤ s.durable ∧ s.durable ≤ s.written

theorem le_acc : ∀ (inputs : List Nat) (b : Nat) (i : Nat), i ∈ inputs ∨ i ≤ b → i ≤ inputs.foldl max b
  | [], b, i, h => by
    rcases h with h | h
    · cases h
    · exact h
  | x :: xs, b, i, h => by
    simp only [List.foldl_cons]
    apply le_acc xs
    rcases h with h | h
    · rcases List.mem_cons.mp h with rfl | h'
      · right; omega
      · left; exact h'
    · right; omega

theorem acc_le : ∀ (inputs : List Nat) (b w : Nat), b ≤ w → (∀ i ∈ inputs, i ≤ w) → inputs.foldl max b ≤ w
  | [], _, _, hb, _ => hb
  | x :: xs, b, w, hb, h => by
    simp only [List.foldl_cons]
    apply acc_le xs
    · have := h x List.mem_cons_self; omega
    · exact fun i hi => h i (List.mem_cons_of_mem _ hi)

theorem inv_step {s : St} (h : Inv s) (ev : Ev) : Inv (step s ev).1 := by
  obtain ⟨h1, h2⟩ := h
  cases ev with
  | wrote w => exact ⟨h1, by simp only [step]; omega⟩
  | work inputs ok =>
    simp only [step]
    split
    · rename_i hin
      split
      · exact ⟨h1, h2⟩
      · split
        · exact ⟨acc_le inputs 0 s.written (Nat.zero_le _) hin, Nat.le_refl _⟩
        · exact ⟨h1, h2⟩
    · exact ⟨h1, h2⟩

/-- **C12 / C02** a caller answered `true` is durable: its offset is covered by an `fdatasync` that
    has returned -/
theorem answered_true_is_durable {s : St} (h : Inv s) (inputs : List Nat) (ok : Bool)
    (hans : (step s (.work inputs ok)).2 = some true) :
    ∀ i ∈ inputs, i ≤ (step s (.work inputs ok)).1.durable := by
  intro i hi
  obtain ⟨h1, h2⟩ := h
  simp only [step] at hans ⊢
  split at hans
  · rename_i hin
    rw [if_pos hin]
    split at hans
    · rename_i hs
      rw [if_pos hs]
      have := le_acc inputs 0 i (Or.inl hi)
      unfold acc at hs
      dsimp only
      omega
    · rename_i hs
      rw [if_neg hs]
      split at hans
      · rename_i hok
        rw [if_pos hok]
        exact hin i hi
      · cases hans
  · cases hans

/-! ### `batch` must keep the maximum

`answered_true_is_durable` is about the accumulator `acc = max` of the batch's inputs
(`FsyncCoalescingCore::batch` returns `std::cmp::max(acc, seen)`).  If `batch` returned the last
input seen instead ("requests queue in the order their writes completed, so the last one is the
high-water mark" — false: `ConcurrentLogBuilder::fsync()` submits 0, and an appender can reach the
fsync queue after a later writer), a batch ending in a stale watermark takes the `synced >= acc`
shortcut, no `fdatasync` is issued, and a member whose bytes were written after the last
`fdatasync` is answered `true`. -/

/-- the accumulator of a core whose `batch` returns `seen` -/
def accSeen (inputs : List Nat) : Nat := inputs.foldl (fun _ x => x) 0

/-- `step` with that accumulator, everything else unchanged -/
def stepSeen (s : St) : Ev → St × Option Bool
  | .wrote w => ({ s with written := max s.written w }, none)
  | .work inputs ok =>
    if (∀ i ∈ inputs, i ≤ s.written) then
      if s.synced ≥ accSeen inputs then (s, some true)
      else if ok then ({ s with synced := accSeen inputs, durable := s.written }, some true)
      else (s, some false)
    else (s, none)

/-- **C12** the as-mutated core loses durability: 5 bytes are synced and durable, 10 are written;
    the batch `{append with watermark 10, fsync() with watermark 0}` is answered `true` although
    offset 10 is not covered by any returned `fdatasync` — while the real core (`max`) issues the
    `fdatasync` and makes it durable -/
theorem batch_returns_seen_loses_durability :
    ∃ (s : St) (inputs : List Nat), Inv s ∧ (∀ i ∈ inputs, i ≤ s.written)
      ∧ (stepSeen s (.work inputs true)).2 = some true
      ∧ (∃ i ∈ inputs, (stepSeen s (.work inputs true)).1.durable < i)
      ∧ (step s (.work inputs true)).2 = some true
      ∧ (∀ i ∈ inputs, i ≤ (step s (.work inputs true)).1.durable) := by
  refine ⟨⟨5, 10, 5⟩, [10, 0], ⟨by decide, by decide⟩, by decide, by decide, ⟨10, by decide, by decide⟩, by decide, by decide⟩

/-! ### runs in which the system call can fail

`rstep` splits `work` into the issue of the `fdatasync` (`enter`, unless the batch takes the
`synced >= acc` shortcut) and its return (`ret ok`).  Writes of other callers land in between; a
call that fails answers every member `false` and moves neither `synced` nor `durable`.  `durable`
is a ghost the core never reads: it is raised only by `ret true`, to the value `written` had when
that call was ISSUED — what the harness's probe measures on the real file. -/

def RInv (s : RSt) : Prop :=
  s.synced ≤ s.durable ∧ s.durable ≤ s.written ∧
  ∀ f, s.flight = some f → (∀ i ∈ f.inputs, i ≤ f.acc) ∧ f.acc ≤ f.len ∧ f.len ≤ s.written

theorem rinv_init : RInv init := ⟨Nat.le_refl _, Nat.le_refl _, fun _ h => by cases h⟩

theorem rinv_step {s : RSt} (h : RInv s) (ev : REv) : RInv (rstep s ev).1 := by
  obtain ⟨h1, h2, h3⟩ := h
  cases ev with
  | wrote w =>
    refine ⟨h1, by simp only [rstep]; omega, fun f hf => ?_⟩
    obtain ⟨a, b, c⟩ := h3 f hf
    exact ⟨a, b, by simp only [rstep]; omega⟩
  | enter inputs =>
    simp only [rstep]
    split
    · exact ⟨h1, h2, h3⟩
    · split
      · rename_i hin
        split
        · exact ⟨h1, h2, h3⟩
        · refine ⟨h1, h2, fun f hf => ?_⟩
          cases hf
          exact ⟨fun i hi => le_acc inputs 0 i (Or.inl hi), acc_le inputs 0 s.written (Nat.zero_le _) hin, Nat.le_refl _⟩
      · exact ⟨h1, h2, h3⟩
  | ret ok =>
    simp only [rstep]
    split
    · exact ⟨h1, h2, h3⟩
    · rename_i f hf
      obtain ⟨_, b, c⟩ := h3 f hf
      split
      · refine ⟨?_, ?_, fun _ hf' => by cases hf'⟩
        · show f.acc ≤ max s.durable f.len
          omega
        · show max s.durable f.len ≤ s.written
          omega
      · exact ⟨h1, h2, fun _ hf' => by cases hf'⟩

theorem rinv_foldl (evs : List REv) : ∀ {s : RSt}, RInv s → RInv (evs.foldl (fun s e => (rstep s e).1) s) := by
  induction evs with
  | nil => exact fun h => h
  | cons e es ih => exact fun h => ih (rinv_step h e)

/-- the invariant holds after every run from the initial state, whatever calls failed -/
theorem rinv_run (evs : List REv) : RInv (run evs) := rinv_foldl evs rinv_init

/-- one event: whoever is answered `true` is covered by a successfully returned `fdatasync` -/
theorem rstep_true_is_durable {s : RSt} (h : RInv s) (ev : REv) (a : Ans)
    (hans : (rstep s ev).2 = some a) (hok : a.ok = true) : ∀ i ∈ a.inputs, i ≤ (rstep s ev).1.durable := by
  obtain ⟨h1, _, h3⟩ := h
  cases ev with
  | wrote w => simp [rstep] at hans
  | enter inputs =>
    simp only [rstep] at hans ⊢
    split at hans
    · cases hans
    · rename_i hfl
      try simp only [hfl]
      split at hans
      · rename_i hin
        rw [if_pos hin]
        split at hans
        · rename_i hs
          rw [if_pos hs]
          cases hans
          intro i hi
          have := le_acc inputs 0 i (Or.inl hi)
          unfold acc at hs
          show i ≤ s.durable
          omega
        · cases hans
      · cases hans
  | ret ok =>
    simp only [rstep] at hans ⊢
    split at hans
    · cases hans
    · rename_i f hf
      try simp only [hf]
      obtain ⟨a1, a2, _⟩ := h3 f hf
      split at hans
      · rename_i hk
        rw [if_pos hk]
        cases hans
        intro i hi
        have := a1 i hi
        show i ≤ max s.durable f.len
        omega
      · cases hans
        cases hok

/-- **C12 / C02, with failing system calls** in every run of the core — any interleaving of
    writes, batches entering `work`, and `fdatasync`s returning success OR FAILURE — a caller
    that is answered `true` has its offset covered by an `fdatasync` that was issued after its
    bytes were written and has returned successfully -/
theorem run_answered_true_is_durable (evs : List REv) (ev : REv) (a : Ans)
    (hans : (rstep (run evs) ev).2 = some a) (hok : a.ok = true) :
    ∀ i ∈ a.inputs, i ≤ (rstep (run evs) ev).1.durable :=
  rstep_true_is_durable (rinv_run evs) ev a hans hok

/-- what is durable stays durable -/
theorem durable_mono (s : RSt) (ev : REv) : s.durable ≤ (rstep s ev).1.durable := by
  cases ev with
  | wrote w => exact Nat.le_refl _
  | enter inputs =>
    simp only [rstep]
    split
    · exact Nat.le_refl _
    · split
      · split <;> exact Nat.le_refl _
      · exact Nat.le_refl _
  | ret ok =>
    simp only [rstep]
    split
    · exact Nat.le_refl _
    · split
      · show s.durable ≤ max s.durable _
        omega
      · exact Nat.le_refl _

/-- a failed call: every member of its batch is answered `false`, and neither `synced` nor
    `durable` (nor `written`) moves — the next batch is treated as if the call had never been made -/
theorem failed_call_answers_false_moves_nothing (s : RSt) (f : Flight) (h : s.flight = some f) :
    rstep s (.ret false) = ({ s with flight := none }, some ⟨f.inputs, false⟩) := by
  simp [rstep, h]

/-- an error is never invented: `false` is answered only by the return of a failed call, to the
    members of the batch that issued it -/
theorem false_only_from_failed_call {s : RSt} {ev : REv} {a : Ans}
    (hans : (rstep s ev).2 = some a) (hf : a.ok = false) :
    ev = .ret false ∧ ∃ f, s.flight = some f ∧ a.inputs = f.inputs := by
  cases ev with
  | wrote w => simp [rstep] at hans
  | enter inputs =>
    simp only [rstep] at hans
    split at hans
    · cases hans
    · split at hans
      · split at hans
        · cases hans; cases hf
        · cases hans
      · cases hans
  | ret ok =>
    simp only [rstep] at hans
    split at hans
    · cases hans
    · rename_i f hfl
      split at hans
      · cases hans; cases hf
      · rename_i hk
        cases hans
        refine ⟨?_, f, hfl, rfl⟩
        cases ok
        · rfl
        · exact absurd rfl hk

/-- after a failed call a batch whose offsets are not yet covered issues its own call (it cannot
    take the shortcut on the strength of the failed one) -/
theorem after_failed_call_next_batch_syncs {s : RSt} (h : RInv s) (f : Flight) (hf : s.flight = some f)
    (inputs : List Nat) (hin : ∀ i ∈ inputs, i ≤ s.written) (hnew : s.durable < acc inputs) :
    (rstep (rstep s (.ret false)).1 (.enter inputs)).2 = none
      ∧ (rstep (rstep s (.ret false)).1 (.enter inputs)).1.flight = some ⟨acc inputs, s.written, inputs⟩ := by
  obtain ⟨h1, _, _⟩ := h
  rw [failed_call_answers_false_moves_nothing s f hf]
  have hn : ¬ (s.synced ≥ acc inputs) := by omega
  simp only [rstep]
  rw [if_pos hin, if_neg hn]
  exact ⟨rfl, rfl⟩

/-! ### `synced` must not move before the call has succeeded

Seeded change C02r3-3: `self.synced = acc` is executed BEFORE the `fdatasync`, whatever it returns
(`rstepEarly`).  The members of the failed batch are still told `false`; but an appender that
shared the coalesced write with them (same offset) and reaches the fsync queue one round later
finds `synced >= acc`, no call is made, and it is answered `true` with nothing durable. -/

/-- **C12 / C02** closed counterexample for the as-mutated core, and the real core on the same run:
    10 bytes written by one coalesced write for two appenders; the first leads a batch alone and
    its `fdatasync` FAILS; the second enters next.  As mutated: answered `true`, `durable = 0`.
    The real core: no answer yet, a second `fdatasync` is in flight, and when it returns
    successfully the answer is `true` with `durable = 10` -/
theorem synced_before_failed_call_loses_durability :
    ∃ (evs : List REv) (inputs : List Nat),
      (rstepEarly (runEarly evs) (.enter inputs)).2 = some ⟨inputs, true⟩
      ∧ (∃ i ∈ inputs, (rstepEarly (runEarly evs) (.enter inputs)).1.durable < i)
      ∧ (rstep (run evs) (.enter inputs)).2 = none
      ∧ (rstep (rstep (run evs) (.enter inputs)).1 (.ret true)).2 = some ⟨inputs, true⟩
      ∧ (∀ i ∈ inputs, i ≤ (rstep (rstep (run evs) (.enter inputs)).1 (.ret true)).1.durable) := by
  refine ⟨[.wrote 10, .enter [10], .ret false], [10], by decide, ⟨10, by decide, by decide⟩, by decide, by decide, by decide⟩

end Blue.FsyncCore

#print axioms Blue.FsyncCore.answered_true_is_durable
#print axioms Blue.FsyncCore.batch_returns_seen_loses_durability
#print axioms Blue.FsyncCore.run_answered_true_is_durable
#print axioms Blue.FsyncCore.false_only_from_failed_call
#print axioms Blue.FsyncCore.after_failed_call_next_batch_syncs
#print axioms Blue.FsyncCore.synced_before_failed_call_loses_durability
