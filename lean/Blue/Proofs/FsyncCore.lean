/-! `FsyncCoalescingCore` (sst/src/log.rs): a caller that is answered `true` has its bytes on disk.
    Offsets are the log's cumulative byte counts; `written` is the largest offset whose `write` has
    returned, `durable` the largest offset covered by an `fdatasync` that has returned. -/
namespace Blue.FsyncCore

structure St where
  synced : Nat
  written : Nat
  durable : Nat

inductive Ev where
  /-- a write core batch finished: the log now extends to `w` -/
  | wrote (w : Nat)
  /-- the fsync core is given a batch of offsets (each from a caller whose write has returned) and
      the `fdatasync`, if it is issued, succeeds or fails -/
  | work (inputs : List Nat) (ok : Bool)

def acc (inputs : List Nat) : Nat := inputs.foldl max 0

/-- the state after the event, and the answer every member of the batch receives -/
def step (s : St) : Ev → St × Option Bool
  | .wrote w => ({ s with written := max s.written w }, none)
  | .work inputs ok =>
    if (∀ i ∈ inputs, i ≤ s.written) then
      if s.synced ≥ acc inputs then (s, some true)
      else if ok then ({ s with synced := acc inputs, durable := s.written }, some true)
      else (s, some false)
    else (s, none)

def Inv (s : St) : Prop := s.synced ≤ s.durable ∧ s.durable ≤ s.written

theorem le_acc : ∀ (inputs : List Nat) (b : Nat) (i : Nat), i ∈ inputs ∨ i ≤ b → i ≤ inputs.foldl max b
  | [], b, i, h => by
    rcases h with h | h
    · cases h
    · exact h
  | x :: xs, b, i, h => by
    simp only [List.foldl_cons]
    apply le_acc xs
    rcases h with h | h
    · rcases List.mem_cons.mp h with rfl | h'
      · right; omega
      · left; exact h'
    · right; omega

theorem acc_le : ∀ (inputs : List Nat) (b w : Nat), b ≤ w → (∀ i ∈ inputs, i ≤ w) → inputs.foldl max b ≤ w
  | [], _, _, hb, _ => hb
  | x :: xs, b, w, hb, h => by
    simp only [List.foldl_cons]
    apply acc_le xs
    · have := h x List.mem_cons_self; omega
    · exact fun i hi => h i (List.mem_cons_of_mem _ hi)

theorem inv_step {s : St} (h : Inv s) (ev : Ev) : Inv (step s ev).1 := by
  obtain ⟨h1, h2⟩ := h
  cases ev with
  | wrote w => exact ⟨h1, by simp only [step]; omega⟩
  | work inputs ok =>
    simp only [step]
    split
    · rename_i hin
      split
      · exact ⟨h1, h2⟩
      · split
        · exact ⟨acc_le inputs 0 s.written (Nat.zero_le _) hin, Nat.le_refl _⟩
        · exact ⟨h1, h2⟩
    · exact ⟨h1, h2⟩

/-- **C12 / C02** a caller answered `true` is durable: its offset is covered by an `fdatasync` that
    has returned -/
theorem answered_true_is_durable {s : St} (h : Inv s) (inputs : List Nat) (ok : Bool)
    (hans : (step s (.work inputs ok)).2 = some true) :
    ∀ i ∈ inputs, i ≤ (step s (.work inputs ok)).1.durable := by
  intro i hi
  obtain ⟨h1, h2⟩ := h
  simp only [step] at hans ⊢
  split at hans
  · rename_i hin
    rw [if_pos hin]
    split at hans
    · rename_i hs
      rw [if_pos hs]
      have := le_acc inputs 0 i (Or.inl hi)
      unfold acc at hs
      dsimp only
      omega
    · rename_i hs
      rw [if_neg hs]
      split at hans
      · rename_i hok
        rw [if_pos hok]
        exact hin i hi
      · cases hans
  · cases hans

/-! ### `batch` must keep the maximum

`answered_true_is_durable` is about the accumulator `acc = max` of the batch's inputs
(`FsyncCoalescingCore::batch` returns `std::cmp::max(acc, seen)`).  If `batch` returned the last
input seen instead ("requests queue in the order their writes completed, so the last one is the
high-water mark" — false: `ConcurrentLogBuilder::fsync()` submits 0, and an appender can reach the
fsync queue after a later writer), a batch ending in a stale watermark takes the `synced >= acc`
shortcut, no `fdatasync` is issued, and a member whose bytes were written after the last
`fdatasync` is answered `true`. -/

/-- the accumulator of a core whose `batch` returns `seen` -/
def accSeen (inputs : List Nat) : Nat := inputs.foldl (fun _ x => x) 0

/-- `step` with that accumulator, everything else unchanged -/
def stepSeen (s : St) : Ev → St × Option Bool
  | .wrote w => ({ s with written := max s.written w }, none)
  | .work inputs ok =>
    if (∀ i ∈ inputs, i ≤ s.written) then
      if s.synced ≥ accSeen inputs then (s, some true)
      else if ok then ({ s with synced := accSeen inputs, durable := s.written }, some true)
      else (s, some false)
    else (s, none)

/-- **C12** the as-mutated core loses durability: 5 bytes are synced and durable, 10 are written;
    the batch `{append with watermark 10, fsync() with watermark 0}` is answered `true` although
    offset 10 is not covered by any returned `fdatasync` — while the real core (`max`) issues the
    `fdatasync` and makes it durable -/
theorem batch_returns_seen_loses_durability :
    ∃ (s : St) (inputs : List Nat), Inv s ∧ (∀ i ∈ inputs, i ≤ s.written)
      ∧ (stepSeen s (.work inputs true)).2 = some true
      ∧ (∃ i ∈ inputs, (stepSeen s (.work inputs true)).1.durable < i)
      ∧ (step s (.work inputs true)).2 = some true
      ∧ (∀ i ∈ inputs, i ≤ (step s (.work inputs true)).1.durable) := by
  refine ⟨⟨5, 10, 5⟩, [10, 0], ⟨by decide, by decide⟩, by decide, by decide, ⟨10, by decide, by decide⟩, by decide, by decide⟩

end Blue.FsyncCore

#print axioms Blue.FsyncCore.answered_true_is_durable
#print axioms Blue.FsyncCore.batch_returns_seen_loses_durability
