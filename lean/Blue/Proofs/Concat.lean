import Blue.Model.Concat
namespace Blue.Cursor
open Concat

variable {E : Type}

theorem modifyAt_get (cs : List (Ref E)) (i j : Nat) (f : Ref E → Ref E) :
    (modifyAt cs i f)[j]? = if j = i then cs[i]?.map f else cs[j]? := by
  unfold modifyAt
  cases hi : cs[i]? with
  | none =>
    simp only [Option.map_none]
    by_cases hji : j = i
    · subst hji; simp [hi]
    · simp [hji]
  | some c =>
    simp only [Option.map_some]
    rw [List.getElem?_set]
    by_cases hji : j = i
    · subst hji
      have := (List.getElem?_eq_some_iff.mp hi).1
      simp [this]
    · have : ¬ i = j := fun h => hji h.symm
      simp [hji, this]

theorem modifyAt_length (cs : List (Ref E)) (i : Nat) (f : Ref E → Ref E) :
    (modifyAt cs i f).length = cs.length := by
  unfold modifyAt; split <;> simp

theorem modifyAt_map_xs (cs : List (Ref E)) (i : Nat) (f : Ref E → Ref E) (hf : ∀ c, (f c).xs = c.xs) :
    (modifyAt cs i f).map (·.xs) = cs.map (·.xs) := by
  apply List.ext_getElem?
  intro j
  rw [List.getElem?_map, List.getElem?_map, modifyAt_get]
  by_cases hji : j = i
  · subst hji
    cases cs[j]? with
    | none => simp
    | some c => simp [hf]
  · simp [hji]

theorem first_xs (c : Ref E) : c.first.xs = c.xs := rfl
theorem last_xs (c : Ref E) : c.last.xs = c.xs := rfl
theorem next_xs (c : Ref E) : c.next.xs = c.xs := by unfold Ref.next; split <;> rfl
theorem prev_xs (c : Ref E) : c.prev.xs = c.xs := by unfold Ref.prev; split <;> rfl
theorem seek_xs (p : E → Bool) (c : Ref E) : (c.seek p).xs = c.xs := rfl

/-- offset of child `idx` in the concatenation -/
def off (L : List (List E)) (idx : Nat) : Nat := (L.take idx).flatten.length

theorem off_zero (L : List (List E)) : off L 0 = 0 := by simp [off]

theorem off_succ (L : List (List E)) (idx : Nat) (l : List E) (h : L[idx]? = some l) :
    off L (idx+1) = off L idx + l.length := by
  unfold off
  rw [List.take_add_one, h]
  simp

theorem off_all (L : List (List E)) (idx : Nat) (h : L.length ≤ idx) : off L idx = L.flatten.length := by
  unfold off; rw [List.take_of_length_le h]

/-- indexing into the concatenation -/
theorem flatten_get (L : List (List E)) (idx r : Nat) (l : List E) (h : L[idx]? = some l) (hr : r < l.length) :
    L.flatten[off L idx + r]? = l[r]? := by
  have hidx : idx < L.length := (List.getElem?_eq_some_iff.mp h).1
  have hsplit : L = L.take idx ++ l :: L.drop (idx+1) := by
    have := List.getElem_cons_drop hidx
    have hl : L[idx] = l := by
      have := List.getElem?_eq_getElem hidx; rw [this] at h; exact Option.some.inj h
    rw [hl] at this
    rw [this, List.take_append_drop]
  conv => lhs; arg 1; rw [hsplit]
  rw [List.flatten_append, List.flatten_cons]
  unfold off
  rw [List.getElem?_append_right (by omega)]
  simp only [Nat.add_sub_cancel_left]
  rw [List.getElem?_append_left hr]

end Blue.Cursor

namespace Blue.Cursor
open Concat
variable {E : Type}

/-- the state facts the loops need: the children's lists, the active index and the active child -/
structure CState (L : List (List E)) (m : Concat E) (idx : Nat) (l : List E) (q : Nat) : Prop where
  lists : m.cs.map (·.xs) = L
  pos : m.position = idx
  child : L[idx]? = some l
  active : m.cs[idx]? = some ⟨l, q⟩

theorem cstate_len {L : List (List E)} {m : Concat E} {idx : Nat} {l : List E} {q : Nat}
    (h : CState L m idx l q) : m.cs.length = L.length := by
  have := congrArg List.length h.lists; simpa using this

/-- child `j` of any state with lists `L` carries the list `L[j]` -/
theorem child_xs {L : List (List E)} {m : Concat E} (hl : m.cs.map (·.xs) = L) (j : Nat) (l : List E)
    (hj : L[j]? = some l) : ∃ q, m.cs[j]? = some ⟨l, q⟩ := by
  have : (m.cs.map (·.xs))[j]? = some l := by rw [hl]; exact hj
  rw [List.getElem?_map] at this
  cases hc : m.cs[j]? with
  | none => rw [hc] at this; cases this
  | some c =>
    rw [hc] at this; simp at this
    exact ⟨c.pos, by cases c; simp_all⟩

/-- apply `f` to the active child -/
theorem cstate_modify {L : List (List E)} {m : Concat E} {idx : Nat} {l : List E} {q : Nat}
    (h : CState L m idx l q) (f : Ref E → Ref E) (hf : ∀ c, (f c).xs = c.xs) :
    CState L ⟨modifyAt m.cs m.position f, m.position⟩ idx l (f ⟨l, q⟩).pos := by
  refine ⟨?_, h.pos, h.child, ?_⟩
  · rw [modifyAt_map_xs _ _ _ hf]; exact h.lists
  · show (modifyAt m.cs m.position f)[idx]? = _
    rw [modifyAt_get, h.pos]
    simp only [if_true, h.active, Option.map_some]
    have := hf ⟨l, q⟩
    cases hfc : f ⟨l, q⟩ with
    | mk a b => rw [hfc] at this; simp at this; simp [this]

/-- move to child `j` and apply `f` (which forgets the old position) to it -/
theorem cstate_move {L : List (List E)} {m : Concat E} {idx : Nat} {l : List E} {q : Nat}
    (h : CState L m idx l q) (j : Nat) (lj : List E) (hj : L[j]? = some lj) (f : Ref E → Ref E)
    (hf : ∀ c, (f c).xs = c.xs) (q' : Nat) (hq' : ∀ q0, (f ⟨lj, q0⟩).pos = q') :
    CState L ⟨modifyAt (m.reposition j).cs (m.reposition j).position f, (m.reposition j).position⟩ j lj q' := by
  have hl2 : (m.reposition j).cs.map (·.xs) = L := by
    unfold reposition
    split
    · simp only; rw [modifyAt_map_xs _ _ _ first_xs]; exact h.lists
    · exact h.lists
  have hp2 : (m.reposition j).position = j := by
    unfold reposition
    split
    · rfl
    · rename_i hne; simp at hne; exact hne
  refine ⟨?_, hp2, hj, ?_⟩
  · rw [modifyAt_map_xs _ _ _ hf]; exact hl2
  · show (modifyAt (m.reposition j).cs (m.reposition j).position f)[j]? = _
    rw [modifyAt_get, hp2]
    simp only [if_true]
    obtain ⟨q0, hq0⟩ := child_xs hl2 j lj hj
    rw [hq0]
    simp only [Option.map_some]
    have h1 := hf ⟨lj, q0⟩
    have h2 := hq' q0
    cases hfc : f ⟨lj, q0⟩ with
    | mk a b => rw [hfc] at h1 h2; simp at h1 h2; simp [h1, h2]

theorem kv_of_cstate {L : List (List E)} {m : Concat E} {idx : Nat} {l : List E} {q : Nat}
    (h : CState L m idx l q) : m.kv = (Ref.mk l q).kv := by
  unfold Concat.kv Concat.active
  rw [h.pos, h.active]

theorem ref_kv_some_iff (l : List E) (q : Nat) : (Ref.mk l q).kv.isNone = (decide (q = 0) || decide (l.length < q)) := by
  unfold Ref.kv
  by_cases hq : q = 0
  · simp [hq]
  · simp only [hq, if_false]
    by_cases h2 : l.length < q
    · have : l[q-1]? = none := by rw [List.getElem?_eq_none_iff]; omega
      simp [this, h2]
    · have : q - 1 < l.length := by omega
      simp [this, h2, hq]

/-- the forward loop: one step ahead in the concatenation -/
theorem concat_nextLoop_spec (L : List (List E)) :
    ∀ (fuel : Nat) (m : Concat E) (idx : Nat) (l : List E) (q : Nat),
      CState L m idx l q → q ≤ l.length → L.length < idx + fuel →
      ∃ j lj q', CState L (nextLoop fuel m) j lj q' ∧ off L j + q' = off L idx + q + 1
        ∧ 1 ≤ q' ∧ q' ≤ lj.length + 1 ∧ (q' = lj.length + 1 → j + 1 = L.length) := by
  intro fuel
  induction fuel with
  | zero =>
    intro m idx l q h _ hf
    have := (List.getElem?_eq_some_iff.mp h.child).1
    omega
  | succ f ih =>
    intro m idx l q h hq hf
    obtain ⟨mcs, mpos⟩ := m
    have hmp : mpos = idx := h.pos
    subst hmp
    have hidx : mpos < L.length := (List.getElem?_eq_some_iff.mp h.child).1
    have h1 := cstate_modify h Ref.next next_xs
    have hnext : (Ref.next ⟨l, q⟩).pos = q + 1 := by unfold Ref.next; simp [hq]
    rw [hnext] at h1
    unfold nextLoop
    simp only
    have hkv := kv_of_cstate h1
    have hlen1 : (modifyAt mcs mpos Ref.next).length = L.length := by
      rw [modifyAt_length]; exact cstate_len h
    by_cases hqlt : q < l.length
    · -- still inside the child
      have hnone : (Concat.kv ⟨modifyAt mcs mpos Ref.next, mpos⟩).isNone = false := by
        rw [hkv, ref_kv_some_iff]; simp; omega
      rw [hnone]
      simp only [Bool.false_and, Bool.false_eq_true, if_false]
      exact ⟨mpos, l, q+1, h1, by omega, by omega, by omega, by omega⟩
    · have hql : q = l.length := by omega
      have hnone : (Concat.kv ⟨modifyAt mcs mpos Ref.next, mpos⟩).isNone = true := by
        rw [hkv, ref_kv_some_iff]; simp; omega
      rw [hnone]
      simp only [Bool.true_and]
      by_cases hmore : mpos + 1 < L.length
      · have hcond : decide (mpos + 1 < (modifyAt mcs mpos Ref.next).length) = true := by
          rw [hlen1]; simpa using hmore
        simp only [hcond, if_true]
        have hlj : L[mpos+1]? = some L[mpos+1] := by simp [hmore]
        have h2 := cstate_move h1 (mpos+1) L[mpos+1] hlj Ref.first first_xs 0 (fun _ => rfl)
        obtain ⟨j, lj, q', hc, ho, h3, h4, h5⟩ := ih _ (mpos+1) L[mpos+1] 0 h2 (Nat.zero_le _) (by omega)
        refine ⟨j, lj, q', hc, ?_, h3, h4, h5⟩
        rw [off_succ L mpos l h.child] at ho
        omega
      · have hcond : decide (mpos + 1 < (modifyAt mcs mpos Ref.next).length) = false := by
          rw [hlen1]; simpa using hmore
        simp only [hcond, Bool.false_eq_true, if_false]
        exact ⟨mpos, l, q+1, h1, by omega, by omega, by omega, fun _ => by omega⟩

/-- the backward loop: one step back in the concatenation -/
theorem concat_prevLoop_spec (L : List (List E)) :
    ∀ (fuel : Nat) (m : Concat E) (idx : Nat) (l : List E) (q : Nat),
      CState L m idx l q → 1 ≤ q → q ≤ l.length + 1 → idx < fuel →
      ∃ j lj q', CState L (prevLoop fuel m) j lj q' ∧ off L j + q' + 1 = off L idx + q
        ∧ q' ≤ lj.length ∧ (q' = 0 → j = 0) := by
  intro fuel
  induction fuel with
  | zero => intro m idx l q _ _ _ hf; omega
  | succ f ih =>
    intro m idx l q h hq1 hq2 hf
    obtain ⟨mcs, mpos⟩ := m
    have hmp : mpos = idx := h.pos
    subst hmp
    have hidx : mpos < L.length := (List.getElem?_eq_some_iff.mp h.child).1
    have h1 := cstate_modify h Ref.prev prev_xs
    have hprev : (Ref.prev ⟨l, q⟩).pos = q - 1 := by
      unfold Ref.prev
      have : 0 < (Ref.mk l q).pos := hq1
      rw [if_pos this]
    rw [hprev] at h1
    unfold prevLoop
    simp only
    have hkv := kv_of_cstate h1
    by_cases hqgt : 1 < q
    · have hnone : (Concat.kv ⟨modifyAt mcs mpos Ref.prev, mpos⟩).isNone = false := by
        rw [hkv, ref_kv_some_iff]; simp; omega
      rw [hnone]
      simp only [Bool.false_and, Bool.false_eq_true, if_false]
      exact ⟨mpos, l, q-1, h1, by omega, by omega, by omega⟩
    · have hq : q = 1 := by omega
      have hnone : (Concat.kv ⟨modifyAt mcs mpos Ref.prev, mpos⟩).isNone = true := by
        rw [hkv, ref_kv_some_iff]; simp; omega
      rw [hnone]
      simp only [Bool.true_and]
      by_cases hpos : 0 < mpos
      · have hcond : decide (0 < mpos) = true := by simpa using hpos
        simp only [hcond, if_true]
        have hjlt : mpos - 1 < L.length := by omega
        have hlj : L[mpos-1]? = some L[mpos-1] := by simp [hjlt]
        have h2 := cstate_move h1 (mpos-1) L[mpos-1] hlj Ref.last last_xs (L[mpos-1].length + 1) (fun _ => rfl)
        obtain ⟨j, lj, q', hc, ho, h3, h4⟩ := ih _ (mpos-1) L[mpos-1] _ h2 (by omega) (Nat.le_refl _) (by omega)
        refine ⟨j, lj, q', hc, ?_, h3, h4⟩
        have := off_succ L (mpos-1) L[mpos-1] hlj
        have e : mpos - 1 + 1 = mpos := by omega
        rw [e] at this
        omega
      · have hcond : decide (0 < mpos) = false := by simpa using hpos
        simp only [hcond, Bool.false_eq_true, if_false]
        have hi0 : mpos = 0 := by omega
        exact ⟨mpos, l, q-1, h1, by omega, by omega, fun _ => hi0⟩

end Blue.Cursor
