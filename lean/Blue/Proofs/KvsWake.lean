import Blue.Model.KvsWake
/-! `Blue.KvsWake`: the hand-off of the head of the wait list in `KeyValueStore::write`.

    * `head_never_asleep` — the repaired store (every thread leaves in its turn, through the exit
      that notifies the new head): in every reachable state the head of the list is awake, under
      every schedule, spurious wake-ups included; `head_can_leave`: it is enabled to leave and the
      list gets shorter.
    * `successor_sleeps_as_found` — the store as found: a write that fails as head after the write
      behind it has gone to sleep leaves that write asleep at the head; `asleep_head_stays`: from
      then on nothing any other thread does changes that (short of a spurious wake-up of that very
      thread): later writers go to sleep behind it or fail, nobody leaves
      (`nobody_leaves_behind_asleep_head`). -/
namespace Blue.KvsWake

theorem run_cons (s : St) (e : Ev) (es : List Ev) :
    run s (e :: es) = match step s e with | some s' => run s' es | none => none := rfl

theorem getElem?_set_other {l : List TS} {i h : Nat} {t : TS} (hne : h ≠ i) : (l.set i t)[h]? = l[h]? := by
  rw [List.getElem?_set_ne (Ne.symm hne)]

/-- the head, if there is one, does not sleep -/
def Good (s : St) : Prop := ∀ h, s.queue.head? = some h → s.ts[h]? ≠ some .asleep

theorem notifyHead_good (q : List Nat) (ts : List TS) : ∀ h, q.head? = some h → (notifyHead q ts)[h]? ≠ some .asleep := by
  intro h hh
  unfold notifyHead
  rw [hh]
  simp only
  by_cases hs : ts[h]? = some .asleep
  · rw [if_pos hs]
    have hlt : h < ts.length := by
      rcases Nat.lt_or_ge h ts.length with hl | hl
      · exact hl
      · rw [List.getElem?_eq_none hl] at hs; cases hs
    rw [List.getElem?_set_self hlt]
    intro hc; cases hc
  · rw [if_neg hs]; exact hs

theorem good_step {s s' : St} (hg : Good s) (ev : Ev) (hin : ev.inTurn = true) (hs : step s ev = some s') : Good s' := by
  cases ev with
  | drop i => simp [Ev.inTurn] at hin
  | link =>
    simp only [step, Option.some.injEq] at hs
    subst hs
    intro h hh
    cases hq : s.queue with
    | nil =>
      rw [hq] at hh
      simp only [List.nil_append, List.head?_cons, Option.some.injEq] at hh
      subst hh
      simp
    | cons a t =>
      rw [hq] at hh
      simp only [List.cons_append, List.head?_cons, Option.some.injEq] at hh
      subst hh
      have h0 := hg a (by rw [hq]; rfl)
      show (s.ts ++ [TS.awake])[a]? ≠ some TS.asleep
      rcases Nat.lt_or_ge a s.ts.length with hl | hl
      · rw [List.getElem?_append_left hl]; exact h0
      · rw [List.getElem?_append_right hl]
        intro hc
        cases hx : a - s.ts.length with
        | zero => rw [hx] at hc; simp at hc
        | succ k => rw [hx] at hc; simp at hc
  | arrive i =>
    simp only [step] at hs
    split at hs
    · split at hs
      · cases hs
        intro h hh
        exact notifyHead_good _ _ h hh
      · rename_i hnh
        cases hs
        intro h hh
        have hne : h ≠ i := by intro he; subst he; exact hnh hh
        show (s.ts.set i TS.asleep)[h]? ≠ some TS.asleep
        rw [getElem?_set_other hne]
        exact hg h hh
    · cases hs
  | spur i =>
    simp only [step] at hs
    split at hs
    · cases hs
      intro h hh
      show (s.ts.set i TS.awake)[h]? ≠ some TS.asleep
      by_cases he : h = i
      · subst he
        intro hc
        rcases Nat.lt_or_ge h s.ts.length with hl | hl
        · rw [List.getElem?_set_self hl] at hc; cases hc
        · rw [List.getElem?_eq_none (by simpa using hl)] at hc; cases hc
      · rw [getElem?_set_other he]; exact hg h hh
    · cases hs

/-- **the head is never asleep** (repaired store): after any sequence of links, arrivals and
    spurious wake-ups the head of the wait list is awake -/
theorem head_never_asleep : ∀ (evs : List Ev) {s s' : St}, Good s → (∀ e ∈ evs, e.inTurn = true) →
    run s evs = some s' → Good s'
  | [], s, s', hg, _, hr => by simp only [run] at hr; cases hr; exact hg
  | e :: es, s, s', hg, hin, hr => by
    rw [run_cons] at hr
    split at hr
    · rename_i s1 hs1
      exact head_never_asleep es (good_step hg e (hin e (List.mem_cons_self ..)) hs1)
        (fun e' he' => hin e' (List.mem_cons_of_mem _ he')) hr
    · cases hr

theorem good_init : Good init := by intro h hh; cases hh

/-- the executable form (what the trace replay evaluates after every event) -/
theorem headAsleep_false_of_good {s : St} (hg : Good s) : headAsleep s = false := by
  unfold headAsleep
  cases hq : s.queue.head? with
  | none => rfl
  | some h =>
    simp only
    have := hg h hq
    cases hx : s.ts[h]? with
    | none => rfl
    | some t =>
      rw [hx] at this
      cases t <;> first | rfl | exact absurd rfl this

/-- … and an awake head is enabled to leave; the list gets shorter by it -/
theorem head_can_leave {s : St} {h : Nat} (hh : s.queue.head? = some h) (ha : s.ts[h]? = some .awake) :
    ∃ s', step s (.arrive h) = some s' ∧ s'.queue = s.queue.tail ∧ s'.queue.length + 1 = s.queue.length := by
  have hmem : h ∈ s.queue := by
    cases hq : s.queue with
    | nil => rw [hq] at hh; cases hh
    | cons a t => rw [hq] at hh; simp at hh; subst hh; exact List.mem_cons_self ..
  refine ⟨⟨s.queue.tail, notifyHead s.queue.tail (s.ts.set h .gone)⟩,
    by simp only [step, ha, hmem, and_self, if_true, hh], rfl, ?_⟩
  show s.queue.tail.length + 1 = s.queue.length
  cases hq : s.queue with
  | nil => rw [hq] at hmem; cases hmem
  | cons a t => simp

/-! ### the store as found -/

/-- **the successor sleeps** (as found): write 0 takes its place, write 1 queues behind it, inserts
    and goes to sleep in `naked_wait`; write 0 fails and drops its guard.  Write 1 is head and
    asleep; write 2 comes, sleeps behind it; nobody has left but the failed write -/
theorem successor_sleeps_as_found :
    (run init [.link, .link, .arrive 1, .drop 0]).map (fun s => (s.queue, s.ts, headAsleep s))
      = some ([1], [.gone, .asleep], true) ∧
    (run init [.link, .link, .arrive 1, .drop 0, .link, .arrive 2]).map (fun s => (s.queue, s.ts, headAsleep s))
      = some ([1, 2], [.gone, .asleep, .asleep], true) := by
  decide

/-- … the same threads, the failed write leaving in its turn (repaired): everybody leaves -/
theorem same_schedule_repaired :
    (run init [.link, .link, .arrive 1, .arrive 0, .arrive 1, .link, .arrive 2]).map
      (fun s => (s.queue, s.ts, headAsleep s)) = some ([], [.gone, .gone, .gone], false) := by
  decide

/-- **an asleep head stays asleep**: whatever any thread does next — link, arrive, fail, wake
    spuriously — other than a spurious wake-up of the head itself, the same thread is still head
    and still asleep -/
theorem asleep_head_stays {s s' : St} {h : Nat} (hh : s.queue.head? = some h) (ha : s.ts[h]? = some .asleep)
    (ev : Ev) (hne : ev ≠ .spur h) (hs : step s ev = some s') :
    s'.queue.head? = some h ∧ s'.ts[h]? = some .asleep := by
  obtain ⟨t, hq⟩ : ∃ t, s.queue = h :: t := by
    cases hq : s.queue with
    | nil => rw [hq] at hh; cases hh
    | cons a t => rw [hq] at hh; simp at hh; subst hh; exact ⟨t, rfl⟩
  have hlt : h < s.ts.length := by
    rcases Nat.lt_or_ge h s.ts.length with hl | hl
    · exact hl
    · rw [List.getElem?_eq_none hl] at ha; cases ha
  cases ev with
  | link =>
    simp only [step, Option.some.injEq] at hs
    subst hs
    refine ⟨by show (s.queue ++ [s.ts.length]).head? = some h; rw [hq]; rfl, ?_⟩
    show (s.ts ++ [TS.awake])[h]? = some TS.asleep
    rw [List.getElem?_append_left hlt]; exact ha
  | arrive i =>
    simp only [step] at hs
    split at hs
    · rename_i hc
      have hi : i ≠ h := by intro he; subst he; rw [ha] at hc; cases hc.1
      split at hs
      · rename_i hhead
        rw [hh] at hhead
        simp only [Option.some.injEq] at hhead
        exact absurd hhead.symm hi
      · cases hs
        exact ⟨hh, by show (s.ts.set i TS.asleep)[h]? = some TS.asleep; rw [getElem?_set_other (Ne.symm hi)]; exact ha⟩
    · cases hs
  | drop i =>
    simp only [step] at hs
    split at hs
    · rename_i hc
      have hi : i ≠ h := by intro he; subst he; rw [ha] at hc; cases hc.1
      cases hs
      refine ⟨?_, by show (s.ts.set i TS.gone)[h]? = some TS.asleep; rw [getElem?_set_other (Ne.symm hi)]; exact ha⟩
      show (s.queue.erase i).head? = some h
      rw [hq, List.erase_cons_tail (by simpa using Ne.symm hi)]
      rfl
    · cases hs
  | spur i =>
    simp only [step] at hs
    split at hs
    · cases hs
      have hi : i ≠ h := by intro he; subst he; exact hne rfl
      exact ⟨hh, by show (s.ts.set i TS.awake)[h]? = some TS.asleep; rw [getElem?_set_other (Ne.symm hi)]; exact ha⟩
    · cases hs

/-- … along whole schedules: behind an asleep head nobody leaves in turn — the only threads that
    ever get out are writes that fail -/
theorem nobody_leaves_behind_asleep_head : ∀ (evs : List Ev) {s s' : St} {h : Nat},
    s.queue.head? = some h → s.ts[h]? = some .asleep → (∀ e ∈ evs, e ≠ .spur h) → run s evs = some s' →
    s'.queue.head? = some h ∧ s'.ts[h]? = some .asleep
  | [], s, s', h, hh, ha, _, hr => by simp only [run] at hr; cases hr; exact ⟨hh, ha⟩
  | e :: es, s, s', h, hh, ha, hne, hr => by
    rw [run_cons] at hr
    split at hr
    · rename_i s1 hs1
      obtain ⟨h1, h2⟩ := asleep_head_stays hh ha e (hne e (List.mem_cons_self ..)) hs1
      exact nobody_leaves_behind_asleep_head es h1 h2 (fun e' he' => hne e' (List.mem_cons_of_mem _ he')) hr
    · cases hr

end Blue.KvsWake
