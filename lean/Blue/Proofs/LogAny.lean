import Blue.Proofs.Log
import Blue.Proofs.LogTrunc
/-! The log round-trip without the `MAX_BATCH_SIZE` hypothesis.

`append_read` / `log_roundtrip` (Blue/Proofs/Log.lean) assume `|buf| + 2·H ≤ B`, i.e. a batch no
larger than the documented `MAX_BATCH_SIZE`.  `WriteBatch::put/del/merge` (and the write core's
`can_batch`) accept buffers up to `BLOCK_SIZE`.  For those the writer has one more case: after
padding to the boundary the whole frame does not fit in the fresh block either and is split there
(a `FIRST` frame of `B − H` payload bytes, and a `SECOND` frame that may itself run past the next
boundary — the reader does not care, it reads `size` bytes).  The theorems below cover every batch
size up to `TABLE_FULL_SIZE` (the only limit the reader enforces). -/
namespace Blue.Log
variable {P : Params}

/-- `nextBatch` with separate fuel for the two frame reads -/
def nextBatch2 (P : Params) (file : List Nat) (f1 f2 off : Nat) : R (List Nat × Nat) :=
  match nextFrame P file f1 off with
  | .eof => .eof
  | .err => .err
  | .ok (h, p, off') =>
    if h.disc = WHOLE then .ok (p, off')
    else if h.disc = FIRST then
      let t := trueUp P off'
      if t - off' > P.H then .err
      else if !padZero file off' t then .err
      else match nextFrame P file f2 t with
        | .ok (h2, p2, off'') => if h2.disc = SECOND then .ok (p ++ p2, off'') else .err
        | _ => .err
    else .err

theorem nextBatch_eq (file : List Nat) (f off : Nat) :
    nextBatch P file f off = nextBatch2 P file f f off := rfl

theorem nextBatch2_of_frame (file : List Nat) (f1 f1' f2 off off' : Nat)
    (h : nextFrame P file f1 off = nextFrame P file f1' off') :
    nextBatch2 P file f1 f2 off = nextBatch2 P file f1' f2 off' := by
  unfold nextBatch2; rw [h]

/-- the two cases of the writer that do not start with padding: the frame fits, or it is split
    with more than `H` bytes left in the block -/
theorem append_read_nopad (g : Good P) (pre buf suf : List Nat) (htf : buf.length ≤ P.tableFull)
    (hno : ¬ (pre.length + (frame P WHOLE buf).length > nextBoundary P pre.length
              ∧ nextBoundary P pre.length - pre.length ≤ P.H))
    (f k j : Nat) :
    nextBatch2 P (pre ++ appendAt P (f + 1) pre.length buf ++ suf) (k + 1) (j + 1) pre.length
      = .ok (buf, pre.length + (appendAt P (f + 1) pre.length buf).length) := by
  have hB : 0 < P.B := by have := g.hB; omega
  obtain ⟨q, m, hpos, hm⟩ := block_decomp (P := P) hB pre.length
  have hnb : nextBoundary P pre.length = q * P.B + P.B :=
    nextBoundary_block hB q pre.length (by omega) (by omega)
  obtain ⟨hw1, hw2⟩ := frame_length g WHOLE buf htf (by decide)
  by_cases hfit : pre.length + (frame P WHOLE buf).length > nextBoundary P pre.length
  · have hround : ¬ (nextBoundary P pre.length - pre.length ≤ P.H) := fun h => hno ⟨hfit, h⟩
    -- two frames with the boundary between them
    generalize hfb : nextBoundary P pre.length - pre.length - P.H = fb at *
    have hout : appendAt P (f + 1) pre.length buf
        = frame P FIRST (buf.take fb) ++
          zeros (nextBoundary P pre.length - (pre.length + (frame P FIRST (buf.take fb)).length)) ++
          frame P SECOND (buf.drop fb) := by
      rw [appendAt_succ]
      rw [if_pos hfit, if_neg hround, hfb]
    rw [hout, hnb]
    rw [hnb] at hfb hround hfit
    obtain ⟨hf1a, hf1b⟩ := frame_length g FIRST (buf.take fb) (by rw [List.length_take]; omega) (by decide)
    have hfble : fb ≤ buf.length := by omega
    have htake : (buf.take fb).length = fb := by rw [List.length_take]; omega
    generalize hz : q * P.B + P.B - (pre.length + (frame P FIRST (buf.take fb)).length) = z at *
    have hzH : z ≤ P.H := by omega
    have hend : pre.length + (frame P FIRST (buf.take fb)).length + z = q * P.B + P.B := by omega
    have hfile1 : pre ++ (frame P FIRST (buf.take fb) ++ zeros z ++ frame P SECOND (buf.drop fb)) ++ suf
        = pre ++ frame P FIRST (buf.take fb) ++ (zeros z ++ frame P SECOND (buf.drop fb) ++ suf) := by simp
    have hframe1 := read_frame_at g _ pre (zeros z ++ frame P SECOND (buf.drop fb) ++ suf) (buf.take fb)
      FIRST k pre.length (by simp; omega) (by decide) hfile1 rfl
    have hfile2 : pre ++ (frame P FIRST (buf.take fb) ++ zeros z ++ frame P SECOND (buf.drop fb)) ++ suf
        = (pre ++ frame P FIRST (buf.take fb) ++ zeros z) ++ frame P SECOND (buf.drop fb) ++ suf := by simp
    have hframe2 := read_frame_at g _ (pre ++ frame P FIRST (buf.take fb) ++ zeros z) suf (buf.drop fb)
      SECOND j (q * P.B + P.B) (by simp; omega) (by decide) hfile2 (by simp [zeros_length]; omega)
    have htrue : trueUp P (pre.length + (frame P FIRST (buf.take fb)).length) = q * P.B + P.B := by
      by_cases hz0 : z = 0
      · have : pre.length + (frame P FIRST (buf.take fb)).length = (q + 1) * P.B := by
          rw [Nat.add_mul, Nat.one_mul]; omega
        rw [this, trueUp_at, Nat.add_mul, Nat.one_mul]
      · exact trueUp_inside hB q _ (by omega) (by omega)
    unfold nextBatch2
    rw [hframe1]
    simp only [FIRST, WHOLE, Nat.reduceEqDiff, if_false, if_true]
    have htrue' := htrue
    simp only [FIRST] at htrue'
    have hframe2' := hframe2
    simp only [FIRST, SECOND] at hframe2'
    have hnot : ¬ (q * P.B + P.B - (pre.length + (frame P 2 (List.take fb buf)).length) > P.H) := by
      have := hend; simp only [FIRST] at this; omega
    -- the padding between the two frames is the writer's zeros
    have hpad : padZero (pre ++ (frame P FIRST (buf.take fb) ++ zeros z ++ frame P SECOND (buf.drop fb)) ++ suf)
        (pre.length + (frame P FIRST (buf.take fb)).length) (q * P.B + P.B) = true :=
      padZero_zeros _ (pre ++ frame P FIRST (buf.take fb)) (frame P SECOND (buf.drop fb) ++ suf) z _ _
        (by simp) (by simp) (by simp only [List.length_append]; omega)
    have hpad' := hpad
    simp only [FIRST, SECOND] at hpad'
    simp only [htrue', hnot, if_false, hpad', Bool.not_true, Bool.false_eq_true, hframe2', SECOND, if_true]
    congr 2
    · exact List.take_append_drop fb buf
    · have hend' := hend
      simp only [FIRST] at hend'
      simp only [List.length_append, zeros_length, FIRST, SECOND]
      omega
  · -- fits in the current block
    have hout : appendAt P (f + 1) pre.length buf = frame P WHOLE buf := by
      rw [appendAt_succ, if_neg hfit]
    rw [hout]
    have hframe := read_frame_at g (pre ++ frame P WHOLE buf ++ suf) pre suf buf WHOLE k pre.length htf (by decide) rfl rfl
    unfold nextBatch2
    rw [hframe]
    simp only [if_true]

/-- **C12** `append_read` for every batch size the reader accepts: whole, padded + whole,
    padded + split at the boundary, or split -/
theorem append_read_any (g : Good P) (pre buf suf : List Nat) (htf : buf.length ≤ P.tableFull) :
    nextBatch P (pre ++ appendAt P 2 pre.length buf ++ suf) 2 pre.length
      = .ok (buf, pre.length + (appendAt P 2 pre.length buf).length) := by
  have hB : 0 < P.B := by have := g.hB; omega
  have hBH : P.H < P.B := by have := g.hB; omega
  obtain ⟨q, m, hpos, hm⟩ := block_decomp (P := P) hB pre.length
  have hnb : nextBoundary P pre.length = q * P.B + P.B :=
    nextBoundary_block hB q pre.length (by omega) (by omega)
  by_cases hpad : pre.length + (frame P WHOLE buf).length > nextBoundary P pre.length
            ∧ nextBoundary P pre.length - pre.length ≤ P.H
  · obtain ⟨hfit, hround⟩ := hpad
    have hout : appendAt P 2 pre.length buf
        = zeros (q * P.B + P.B - pre.length) ++ appendAt P 1 (q * P.B + P.B) buf := by
      rw [show (2 : Nat) = 1 + 1 from rfl, appendAt_succ]
      rw [if_pos hfit, if_pos hround, hnb]
    rw [hout]
    generalize hr : q * P.B + P.B - pre.length = r at *
    have hr1 : 1 ≤ r := by omega
    have hrH : r ≤ P.H := by rw [hnb] at hround; omega
    generalize hX : appendAt P 1 (q * P.B + P.B) buf = X
    have hget : (pre ++ (zeros r ++ X) ++ suf)[pre.length]? = some 0 := by
      obtain ⟨r', rfl⟩ : ∃ r', r = r' + 1 := ⟨r - 1, by omega⟩
      simp [zeros, List.replicate_succ]
    have hpad : padZero (pre ++ (zeros r ++ X) ++ suf) (pre.length + 1) (q * P.B + P.B) = true :=
      padZero_zeros _ pre (X ++ suf) r _ _ (by simp) (by omega) (by omega)
    have hskip := nextHeader_padding g (pre ++ (zeros r ++ X) ++ suf) 1 pre.length q r
      hget (by omega) (by omega) hr1 hrH (by omega) hpad
    -- at the boundary the writer is not in the padding case: a whole block is left
    have hlen' : (pre ++ zeros r).length = q * P.B + P.B := by simp [zeros_length]; omega
    have hnb2 : nextBoundary P (q * P.B + P.B) = (q + 1) * P.B + P.B :=
      nextBoundary_block hB (q + 1) _ (by rw [Nat.add_mul, Nat.one_mul]; omega)
        (by rw [Nat.add_mul, Nat.one_mul]; omega)
    have hno : ¬ ((pre ++ zeros r).length + (frame P WHOLE buf).length > nextBoundary P (pre ++ zeros r).length
              ∧ nextBoundary P (pre ++ zeros r).length - (pre ++ zeros r).length ≤ P.H) := by
      rw [hlen', hnb2, Nat.add_mul, Nat.one_mul]
      intro h
      omega
    have hA := append_read_nopad g (pre ++ zeros r) buf suf htf hno 0 0 1
    rw [hlen', hX] at hA
    have hfile : pre ++ (zeros r ++ X) ++ suf = pre ++ zeros r ++ X ++ suf := by simp
    rw [nextBatch_eq,
      nextBatch2_of_frame _ 2 1 2 pre.length (q * P.B + P.B) (nextFrame_of_header _ 2 1 pre.length (q * P.B + P.B) hskip),
      hfile, hA]
    congr 2
    simp only [List.length_append, zeros_length]
    omega
  · rw [nextBatch_eq]
    exact append_read_nopad g pre buf suf htf hpad 1 1 1

/-- **C12** `log_roundtrip` for every batch size up to `TABLE_FULL_SIZE` -/
theorem log_roundtrip_any (g : Good P) :
    ∀ (bufs : List (List Nat)) (pre : List Nat),
      (∀ b ∈ bufs, b.length ≤ P.tableFull) →
      readAll P (pre ++ writeAll P bufs pre.length) (bufs.length + 1) pre.length = some bufs := by
  intro bufs
  induction bufs with
  | nil =>
    intro pre _
    simp only [writeAll, List.append_nil, List.length_nil, Nat.zero_add]
    rw [show (1 : Nat) = 0 + 1 from rfl, readAll_succ]
    have : nextBatch P pre 2 pre.length = .eof := by
      unfold nextBatch nextFrame
      rw [show (2 : Nat) = 1 + 1 from rfl, nextHeader_succ]
      simp
    rw [this]
  | cons b bs ih =>
    intro pre h
    have h1 := h b (List.mem_cons_self ..)
    simp only [writeAll, List.length_cons]
    have hfile : pre ++ (appendAt P 2 pre.length b ++ writeAll P bs (pre.length + (appendAt P 2 pre.length b).length))
        = pre ++ appendAt P 2 pre.length b ++ writeAll P bs (pre.length + (appendAt P 2 pre.length b).length) := by
      simp
    rw [readAll_succ, hfile, append_read_any g pre b _ h1]
    simp only
    have ih' := ih (pre ++ appendAt P 2 pre.length b) (fun x hx => h x (List.mem_cons_of_mem _ hx))
    simp only [List.length_append] at ih'
    rw [ih']
    rfl

/-- **C12** `truncated_log_prefix` for every batch size up to `TABLE_FULL_SIZE` -/
theorem truncated_log_prefix_any (g : Good P) (bufs : List (List Nat)) (n : Nat)
    (hsz : ∀ b ∈ bufs, b.length ≤ P.tableFull) :
    ∃ rest, bufs = (readSome P ((writeAll P bufs 0).take n) (bufs.length + 1) 0).1 ++ rest := by
  have hfull := log_roundtrip_any g bufs [] hsz
  simp only [List.nil_append, List.length_nil] at hfull
  have hsome := readSome_of_readAll (P := P) _ _ _ _ hfull
  obtain ⟨rest, h⟩ := readSome_take_prefix (P := P) (writeAll P bufs 0) n (bufs.length + 1) 0
  refine ⟨rest, ?_⟩
  rw [hsome] at h
  exact h

end Blue.Log

#print axioms Blue.Log.append_read_any
#print axioms Blue.Log.log_roundtrip_any
#print axioms Blue.Log.truncated_log_prefix_any
