import Blue.Model.ManiCrash
namespace Blue.ManiCrash
variable {St E : Type}

theorem replay_append (A : Algebra St E) (a b : List E) :
    replay A (a ++ b) = b.foldl A.apply (replay A a) := by
  unfold replay; rw [List.foldl_append]

theorem replay_snoc (A : Algebra St E) (a : List E) (e : E) :
    replay A (a ++ [e]) = A.apply (replay A a) e := by
  rw [replay_append]; rfl

theorem run_append (fs : Fs E) (a b : List (Op E)) : run fs (a ++ b) = run (run fs a) b := by
  unfold run; rw [List.foldl_append]

theorem acked_append (a b : List (Op E)) : acked (a ++ b) = acked a + acked b := by
  unfold acked; rw [List.filter_append, List.length_append]

theorem appended_append (a b : List (Op E)) : appended (a ++ b) = appended a + appended b := by
  unfold appended; rw [List.filter_append, List.length_append]

/-- at a block boundary MANIFEST is fully synced and replays to the in-memory state -/
structure Inv (A : Algebra St E) (fs : Fs E) (sofar : List E) : Prop where
  pend : fs.mani.pending = []
  same : replay A fs.mani.durable = replay A sofar

/-- what a reopen may yield after `n` calls: the replay of a prefix of the edits, no shorter than
    those acknowledged and no longer than those issued -/
def Ok (A : Algebra St E) (st : St) (all : List E) (lo hi : Nat) : Prop :=
  ∃ k, lo ≤ k ∧ k ≤ hi ∧ st = replay A (all.take k)

theorem take_len_append (a b : List E) : (a ++ b).take a.length = a := by
  rw [List.take_append_of_le_length (Nat.le_refl _), List.take_length]

/-- **C13** crash part: for every history of edits and rollovers, every crash point and both
    persistence models, reopening yields the state after a prefix of the applied edits that
    contains every edit whose call had returned -/
theorem crash_recover (A : Algebra St E) (hlaw : Lawful A) : ∀ (h : List (Client E)) (fs : Fs E) (sofar : List E),
    Inv A fs sofar → ∀ n,
    Ok A (recoverB A (run fs ((opsOf A h sofar).take n))) (sofar ++ editsOf h)
      (sofar.length + acked ((opsOf A h sofar).take n)) (sofar.length + appended ((opsOf A h sofar).take n))
    ∧ Ok A (recoverA A (run fs ((opsOf A h sofar).take n))) (sofar ++ editsOf h)
      (sofar.length + acked ((opsOf A h sofar).take n)) (sofar.length + appended ((opsOf A h sofar).take n)) := by
  intro h
  induction h with
  | nil =>
    intro fs sofar hinv n
    simp only [opsOf, List.take_nil, run, List.foldl_nil, editsOf, List.append_nil]
    have hk : replay A (sofar.take sofar.length) = replay A sofar := by rw [List.take_length]
    refine ⟨⟨sofar.length, by simp [acked], by simp, ?_⟩, ⟨sofar.length, by simp [acked], by simp, ?_⟩⟩
    · unfold recoverB; rw [hinv.same, hk]
    · unfold recoverA; rw [hinv.pend, List.append_nil, hinv.same, hk]
  | cons c cs ih =>
    intro fs sofar hinv n
    obtain ⟨⟨d, p⟩, tmp, backups, linked⟩ := fs
    obtain ⟨hp, hs⟩ := hinv
    simp only at hp hs
    subst hp
    simp only [opsOf]
    rw [List.take_append]
    cases c with
    | edit e =>
      have hall : sofar ++ editsOf (Client.edit e :: cs) = (sofar ++ [e]) ++ editsOf cs := by
        simp [editsOf]
      rw [hall]
      have hk0 : replay A (((sofar ++ [e]) ++ editsOf cs).take sofar.length) = replay A sofar := by
        rw [List.append_assoc, take_len_append]
      have hk1 : replay A (((sofar ++ [e]) ++ editsOf cs).take (sofar.length + 1)) = replay A (sofar ++ [e]) := by
        have : sofar.length + 1 = (sofar ++ [e]).length := by simp
        rw [this, take_len_append]
      have hsnoc : replay A (d ++ [e]) = replay A (sofar ++ [e]) := by
        rw [replay_snoc, replay_snoc, hs]
      have hlen : (block A sofar (Client.edit e)).length = 3 := rfl
      rw [hlen]
      rcases Nat.lt_or_ge n 3 with hn | hn
      · have h0 : n - 3 = 0 := by omega
        rw [h0, List.take_zero, List.append_nil]
        rcases n with _ | _ | _ | n
        · simp only [List.take_zero, run, List.foldl_nil]
          exact ⟨⟨sofar.length, by simp [acked], by simp, by unfold recoverB; (try dsimp only); rw [hs, hk0]⟩,
                 ⟨sofar.length, by simp [acked], by simp, by unfold recoverA; (try simp only [List.append_nil]); rw [hs, hk0]⟩⟩
        · have ht : (block A sofar (Client.edit e)).take (0 + 1) = [.append e] := rfl
          rw [ht]
          simp only [run, List.foldl_cons, List.foldl_nil, step, List.nil_append]
          refine ⟨⟨sofar.length, by simp [acked], by simp, ?_⟩, ⟨sofar.length + 1, by simp [acked], by simp [appended], ?_⟩⟩
          · unfold recoverB; (try dsimp only); rw [hs, hk0]
          · unfold recoverA; (try dsimp only); rw [hsnoc, hk1]
        · have ht : (block A sofar (Client.edit e)).take (0 + 1 + 1) = [.append e, .sync] := rfl
          rw [ht]
          simp only [run, List.foldl_cons, List.foldl_nil, step, List.nil_append]
          refine ⟨⟨sofar.length + 1, by simp [acked], by simp [appended], ?_⟩,
                  ⟨sofar.length + 1, by simp [acked], by simp [appended], ?_⟩⟩
          · unfold recoverB; (try dsimp only); rw [hsnoc, hk1]
          · unfold recoverA; (try simp only [List.append_nil]); rw [hsnoc, hk1]
        · omega
      · have htake : (block A sofar (Client.edit e)).take n = block A sofar (Client.edit e) := by
          apply List.take_of_length_le; rw [hlen]; omega
        rw [htake, run_append, acked_append, appended_append]
        have hinv' : Inv A (run ⟨⟨d, []⟩, tmp, backups, linked⟩ (block A sofar (Client.edit e))) (sofar ++ [e]) := by
          simp only [block, run, List.foldl_cons, List.foldl_nil, step, List.nil_append]
          exact ⟨rfl, hsnoc⟩
        obtain ⟨⟨kB, b1, b2, b3⟩, ⟨kA, a1, a2, a3⟩⟩ := ih _ _ hinv' (n - 3)
        have hl : (sofar ++ [e]).length = sofar.length + 1 := by simp
        have c1 : acked (block A sofar (Client.edit e)) = 1 := by simp [block, acked]
        have c2 : appended (block A sofar (Client.edit e)) = 1 := by simp [block, appended]
        simp only [sofarAfter] at b1 b2 b3 a1 a2 a3 ⊢
        exact ⟨⟨kB, by omega, by omega, b3⟩, ⟨kA, by omega, by omega, a3⟩⟩
    | rollover =>
      have hall : sofar ++ editsOf (Client.rollover :: cs) = sofar ++ editsOf cs := by simp [editsOf]
      rw [hall]
      have hk0 : replay A ((sofar ++ editsOf cs).take sofar.length) = replay A sofar := by
        rw [take_len_append]
      have hroll : replay A [A.rollup (replay A sofar)] = replay A sofar := by
        unfold replay; simp only [List.foldl_cons, List.foldl_nil]; exact hlaw _
      have hlen : (block A sofar Client.rollover).length = 5 := rfl
      rw [hlen]
      have quiet : ∀ m, acked ((block A sofar Client.rollover).take m) = 0
          ∧ appended ((block A sofar Client.rollover).take m) = 0 := by
        intro m
        rcases m with _ | _ | _ | _ | _ | _ | m <;> simp [block, acked, appended]
      rcases Nat.lt_or_ge n 5 with hn | hn
      · have h0 : n - 5 = 0 := by omega
        rw [h0, List.take_zero, List.append_nil]
        obtain ⟨q1, q2⟩ := quiet n
        rw [q1, q2]
        rcases n with _ | _ | _ | _ | _ | n
        · simp only [List.take_zero, run, List.foldl_nil]
          exact ⟨⟨sofar.length, Nat.le_refl _, Nat.le_refl _, by unfold recoverB; (try dsimp only); rw [hs, hk0]⟩,
                 ⟨sofar.length, Nat.le_refl _, Nat.le_refl _, by unfold recoverA; (try simp only [List.append_nil]); rw [hs, hk0]⟩⟩
        · simp only [block, List.take, run, List.foldl_cons, List.foldl_nil, step]
          exact ⟨⟨sofar.length, Nat.le_refl _, Nat.le_refl _, by unfold recoverB; (try dsimp only); rw [hs, hk0]⟩,
                 ⟨sofar.length, Nat.le_refl _, Nat.le_refl _, by unfold recoverA; (try simp only [List.append_nil]); rw [hs, hk0]⟩⟩
        · simp only [block, List.take, run, List.foldl_cons, List.foldl_nil, step]
          exact ⟨⟨sofar.length, Nat.le_refl _, Nat.le_refl _, by unfold recoverB; (try dsimp only); rw [hs, hk0]⟩,
                 ⟨sofar.length, Nat.le_refl _, Nat.le_refl _, by unfold recoverA; (try simp only [List.append_nil]); rw [hs, hk0]⟩⟩
        · simp only [block, List.take, run, List.foldl_cons, List.foldl_nil, step]
          exact ⟨⟨sofar.length, Nat.le_refl _, Nat.le_refl _, by unfold recoverB; (try dsimp only); rw [hs, hk0]⟩,
                 ⟨sofar.length, Nat.le_refl _, Nat.le_refl _, by unfold recoverA; (try simp only [List.append_nil]); rw [hs, hk0]⟩⟩
        · simp only [block, List.take, run, List.foldl_cons, List.foldl_nil, step]
          exact ⟨⟨sofar.length, Nat.le_refl _, Nat.le_refl _, by unfold recoverB; (try dsimp only); rw [hs, hk0]⟩,
                 ⟨sofar.length, Nat.le_refl _, Nat.le_refl _, by unfold recoverA; (try simp only [List.append_nil]); rw [hs, hk0]⟩⟩
        · omega
      · have htake : (block A sofar Client.rollover).take n = block A sofar Client.rollover := by
          apply List.take_of_length_le; rw [hlen]; exact hn
        rw [htake, run_append, acked_append, appended_append]
        have hinv' : Inv A (run ⟨⟨d, []⟩, tmp, backups, linked⟩ (block A sofar Client.rollover)) sofar := by
          simp only [block, run, List.foldl_cons, List.foldl_nil, step, Option.map_some, List.nil_append]
          exact ⟨rfl, hroll⟩
        obtain ⟨⟨kB, b1, b2, b3⟩, ⟨kA, a1, a2, a3⟩⟩ := ih _ _ hinv' (n - 5)
        obtain ⟨q1, q2⟩ := quiet 5
        have ht4 : (block A sofar Client.rollover).take 5 = block A sofar Client.rollover := rfl
        rw [ht4] at q1 q2
        simp only [sofarAfter] at b1 b2 b3 a1 a2 a3 ⊢
        exact ⟨⟨kB, by omega, by omega, b3⟩, ⟨kA, by omega, by omega, a3⟩⟩

    | editRoll e =>
      have hall : sofar ++ editsOf (Client.editRoll e :: cs) = (sofar ++ [e]) ++ editsOf cs := by
        simp [editsOf]
      rw [hall]
      have hk0 : replay A (((sofar ++ [e]) ++ editsOf cs).take sofar.length) = replay A sofar := by
        rw [List.append_assoc, take_len_append]
      have hk1 : replay A (((sofar ++ [e]) ++ editsOf cs).take (sofar.length + 1)) = replay A (sofar ++ [e]) := by
        have : sofar.length + 1 = (sofar ++ [e]).length := by simp
        rw [this, take_len_append]
      have hsnoc : replay A (d ++ [e]) = replay A (sofar ++ [e]) := by
        rw [replay_snoc, replay_snoc, hs]
      have hroll : replay A [A.rollup (replay A (sofar ++ [e]))] = replay A (sofar ++ [e]) := by
        unfold replay; simp only [List.foldl_cons, List.foldl_nil]; exact hlaw _
      have hlen : (block A sofar (Client.editRoll e)).length = 8 := rfl
      rw [hlen]
      rcases Nat.lt_or_ge n 8 with hn | hn
      · have h0 : n - 8 = 0 := by omega
        rw [h0, List.take_zero, List.append_nil]
        rcases n with _ | _ | _ | _ | _ | _ | _ | _ | n
        · simp only [List.take_zero, run, List.foldl_nil]
          exact ⟨⟨sofar.length, by simp [acked], by simp, by unfold recoverB; (try dsimp only); rw [hs, hk0]⟩,
                 ⟨sofar.length, by simp [acked], by simp, by unfold recoverA; (try simp only [List.append_nil]); rw [hs, hk0]⟩⟩
        · simp only [block, List.take, run, List.foldl_cons, List.foldl_nil, step, List.nil_append]
          refine ⟨⟨sofar.length, by simp [acked], by simp, ?_⟩, ⟨sofar.length + 1, by simp [acked], by simp [appended], ?_⟩⟩
          · unfold recoverB; (try dsimp only); rw [hs, hk0]
          · unfold recoverA; (try dsimp only); rw [hsnoc, hk1]
        · simp only [block, List.take, run, List.foldl_cons, List.foldl_nil, step, List.nil_append]
          refine ⟨⟨sofar.length + 1, by simp [acked], by simp [appended], ?_⟩,
                  ⟨sofar.length + 1, by simp [acked], by simp [appended], ?_⟩⟩
          · unfold recoverB; (try dsimp only); rw [hsnoc, hk1]
          · unfold recoverA; (try simp only [List.append_nil]); rw [hsnoc, hk1]
        · simp only [block, List.take, run, List.foldl_cons, List.foldl_nil, step, List.nil_append]
          refine ⟨⟨sofar.length + 1, by simp [acked], by simp [appended], ?_⟩,
                  ⟨sofar.length + 1, by simp [acked], by simp [appended], ?_⟩⟩
          · unfold recoverB; (try dsimp only); rw [hsnoc, hk1]
          · unfold recoverA; (try simp only [List.append_nil]); rw [hsnoc, hk1]
        · simp only [block, List.take, run, List.foldl_cons, List.foldl_nil, step, List.nil_append]
          refine ⟨⟨sofar.length + 1, by simp [acked], by simp [appended], ?_⟩,
                  ⟨sofar.length + 1, by simp [acked], by simp [appended], ?_⟩⟩
          · unfold recoverB; (try dsimp only); rw [hsnoc, hk1]
          · unfold recoverA; (try simp only [List.append_nil]); rw [hsnoc, hk1]
        · simp only [block, List.take, run, List.foldl_cons, List.foldl_nil, step, List.nil_append]
          refine ⟨⟨sofar.length + 1, by simp [acked], by simp [appended], ?_⟩,
                  ⟨sofar.length + 1, by simp [acked], by simp [appended], ?_⟩⟩
          · unfold recoverB; (try dsimp only); rw [hsnoc, hk1]
          · unfold recoverA; (try simp only [List.append_nil]); rw [hsnoc, hk1]
        · simp only [block, List.take, run, List.foldl_cons, List.foldl_nil, step, List.nil_append, Option.map_some]
          refine ⟨⟨sofar.length + 1, by simp [acked], by simp [appended], ?_⟩,
                  ⟨sofar.length + 1, by simp [acked], by simp [appended], ?_⟩⟩
          · unfold recoverB; (try dsimp only); rw [hsnoc, hk1]
          · unfold recoverA; (try simp only [List.append_nil]); rw [hsnoc, hk1]
        · simp only [block, List.take, run, List.foldl_cons, List.foldl_nil, step, List.nil_append, Option.map_some]
          refine ⟨⟨sofar.length + 1, by simp [acked], by simp [appended], ?_⟩,
                  ⟨sofar.length + 1, by simp [acked], by simp [appended], ?_⟩⟩
          · unfold recoverB; (try dsimp only); rw [hroll, hk1]
          · unfold recoverA; (try simp only [List.append_nil]); rw [hroll, hk1]
        · omega
      · have htake : (block A sofar (Client.editRoll e)).take n = block A sofar (Client.editRoll e) := by
          apply List.take_of_length_le; rw [hlen]; omega
        rw [htake, run_append, acked_append, appended_append]
        have hinv' : Inv A (run ⟨⟨d, []⟩, tmp, backups, linked⟩ (block A sofar (Client.editRoll e))) (sofar ++ [e]) := by
          simp only [block, run, List.foldl_cons, List.foldl_nil, step, Option.map_some, List.nil_append]
          exact ⟨rfl, hroll⟩
        obtain ⟨⟨kB, b1, b2, b3⟩, ⟨kA, a1, a2, a3⟩⟩ := ih _ _ hinv' (n - 8)
        have hl : (sofar ++ [e]).length = sofar.length + 1 := by simp
        have c1 : acked (block A sofar (Client.editRoll e)) = 1 := by simp [block, acked]
        have c2 : appended (block A sofar (Client.editRoll e)) = 1 := by simp [block, appended]
        simp only [sofarAfter] at b1 b2 b3 a1 a2 a3 ⊢
        exact ⟨⟨kB, by omega, by omega, b3⟩, ⟨kA, by omega, by omega, a3⟩⟩

/-- mutant (Appendix B): the temporary is renamed over MANIFEST before it is synced — under
    persistence model (b) the manifest is empty after the crash -/
theorem rename_before_sync_loses (A : Algebra St E) (e : E) (roll : E) :
    recoverB A (run ({ mani := ⟨[e], []⟩, tmp := none, backups := [] } : Fs E) [.linkBackup, .tmpClear, .tmpWrite roll, .rename]) = A.empty := by
  simp [run, step, recoverB, replay]

end Blue.ManiCrash

#print axioms Blue.ManiCrash.crash_recover
