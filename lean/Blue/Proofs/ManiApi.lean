import Blue.Proofs.Mani
import Blue.Proofs.ManiAlgebra
/-! The repaired `Edit` API (D-12, D-24) enforces exactly the hypothesis of `replay_roundtrip`:
    every edit built through `Edit::add` / `rm` / `info`, and every roll-up (`to_edit`) of a state
    such edits replay to, is `Edit.Ok`.  CRC-32C is a 32-bit value. -/
namespace Blue.Mani
open Blue.ManiCrash

theorem crcOk_crc32c : CrcOk Blue.Crc32c.crc32c := fun _ => UInt32.toNat_lt _

/-- known answers: the check value of CRC-32C, and the first line of mani's own unit test -/
theorem crc32c_check : Blue.Crc32c.crc32c [49, 50, 51, 52, 53, 54, 55, 56, 57] = 0xE3069283 := by decide +kernel
theorem crc32c_thing_one :
    hex8 (Blue.Crc32c.crc32c [43, 116, 104, 105, 110, 103, 32, 111, 110, 101]) = [100, 99, 97, 98, 57, 100, 50, 56] := by
  decide +kernel

theorem strOk_iff (s : List Nat) : strOk s = true ↔ StrOk s := by
  unfold strOk StrOk
  simp only [Bool.and_eq_true, Bool.not_eq_true', List.isEmpty_eq_false_iff, List.all_eq_true,
    decide_eq_true_eq, and_assoc]

theorem keyOk_iff (k : Nat) : keyOk k = true ↔ (k < 128 ∧ k ≠ 10 ∧ k ≠ 43 ∧ k ≠ 45) := by
  unfold keyOk
  simp only [Bool.and_eq_true, decide_eq_true_eq, and_assoc]

/-- the edits a client can build -/
inductive Built : Edit → Prop
  | empty : Built Edit.empty
  | add {e e' : Edit} {s : List Nat} : Built e → e.addStr s = some e' → Built e'
  | rm {e e' : Edit} {s : List Nat} : Built e → e.rmStr s = some e' → Built e'
  | info {e e' : Edit} {k : Nat} {v : List Nat} : Built e → e.setInfo k v = some e' → Built e'

theorem Built.ok {e : Edit} (h : Built e) : e.Ok := by
  induction h with
  | empty => exact ⟨(fun _ h => nomatch h), (fun _ h => nomatch h), (fun _ h => nomatch h)⟩
  | @add e e' s _ hs ih =>
    unfold Edit.addStr at hs
    split at hs
    · rename_i hok
      injection hs with hs; subst hs
      refine ⟨ih.1, fun x hx => ?_, ih.2.2⟩
      rcases mem_insertStr hx with rfl | hx
      · exact (strOk_iff _).mp hok
      · exact ih.2.1 x hx
    · cases hs
  | @rm e e' s _ hs ih =>
    unfold Edit.rmStr at hs
    split at hs
    · rename_i hok
      injection hs with hs; subst hs
      refine ⟨fun x hx => ?_, ih.2.1, ih.2.2⟩
      rcases mem_insertStr hx with rfl | hx
      · exact (strOk_iff _).mp hok
      · exact ih.1 x hx
    · cases hs
  | @info e e' k v _ hs ih =>
    unfold Edit.setInfo at hs
    split at hs
    · rename_i hok
      injection hs with hs; subst hs
      rw [Bool.and_eq_true] at hok
      refine ⟨ih.1, ih.2.1, fun kv hkv => ?_⟩
      rcases mem_setInfo hkv with rfl | hkv
      · exact ⟨(strOk_iff _).mp hok.2, (keyOk_iff _).mp hok.1⟩
      · exact ih.2.2 kv hkv
    · cases hs

/-- what the API refuses is exactly what the reader cannot hand back -/
theorem api_rejects_iff (e : Edit) (s : List Nat) : e.addStr s = none ↔ ¬ StrOk s := by
  unfold Edit.addStr
  rw [← strOk_iff]
  split <;> simp_all

/-- states whose strings and infos the reader can hand back -/
def StateOk (s : State) : Prop :=
  (∀ x ∈ s.strs, StrOk x) ∧ (∀ kv ∈ s.info, StrOk kv.2 ∧ kv.1 < 128 ∧ kv.1 ≠ 10 ∧ kv.1 ≠ 43 ∧ kv.1 ≠ 45)

theorem foldl_insert_mem : ∀ (xs acc : List (List Nat)) (z : List Nat),
    z ∈ xs.foldl (fun acc x => insertStr x acc) acc → z ∈ xs ∨ z ∈ acc
  | [], _, _, h => Or.inr h
  | x :: xs, acc, z, h => by
    simp only [List.foldl_cons] at h
    rcases foldl_insert_mem xs _ z h with h | h
    · exact Or.inl (List.mem_cons_of_mem _ h)
    · rcases mem_insertStr h with rfl | h
      · exact Or.inl (List.mem_cons_self ..)
      · exact Or.inr h

theorem foldl_info_mem : ∀ (kvs acc : List (Nat × List Nat)) (z : Nat × List Nat),
    z ∈ kvs.foldl (fun acc kv => setInfo kv.1 kv.2 acc) acc → z ∈ kvs ∨ z ∈ acc
  | [], _, _, h => Or.inr h
  | kv :: kvs, acc, z, h => by
    simp only [List.foldl_cons] at h
    rcases foldl_info_mem kvs _ z h with h | h
    · exact Or.inl (List.mem_cons_of_mem _ h)
    · rcases mem_setInfo h with rfl | h
      · exact Or.inl (List.mem_cons_self ..)
      · exact Or.inr h

theorem applyEdit_ok (s : State) (e : Edit) (hs : StateOk s) (he : e.Ok) : StateOk (applyEdit s e) := by
  unfold applyEdit
  refine ⟨fun x hx => ?_, fun kv hkv => ?_⟩
  · rcases foldl_insert_mem _ _ _ hx with h | h
    · exact he.2.1 x h
    · exact hs.1 x (List.mem_filter.mp h).1
  · rcases foldl_info_mem _ _ _ hkv with h | h
    · exact he.2.2 kv h
    · exact hs.2 kv h

theorem replay_ok : ∀ (es : List Edit) (s : State), StateOk s → (∀ e ∈ es, e.Ok) → StateOk (es.foldl applyEdit s)
  | [], _, hs, _ => hs
  | e :: es, s, hs, he =>
    replay_ok es _ (applyEdit_ok s e hs (he e (List.mem_cons_self ..)))
      (fun x hx => he x (List.mem_cons_of_mem _ hx))

/-- the roll-up `rollover` writes (`to_edit` of the state) is an edit the reader hands back -/
theorem rollup_ok (es : List Edit) (h : ∀ e ∈ es, e.Ok) :
    (maniAlgebra.rollup (replay maniAlgebra es)).Ok := by
  have hst : StateOk (replay maniAlgebra es) :=
    replay_ok es ⟨[], []⟩ ⟨(fun _ h => nomatch h), (fun _ h => nomatch h)⟩ h
  exact ⟨(fun _ h => nomatch h), hst.1, hst.2⟩

end Blue.Mani
