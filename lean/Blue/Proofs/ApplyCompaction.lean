import Blue.Model.ApplyCompaction
import Blue.Proofs.NextCompactionMain
import Blue.Proofs.Kvs
/-! **C01** the successor tree of a compaction (`Version::apply_compaction_inner`), of a moving
    compaction and of `Version::ingest`, and the tree invariant as an INDUCTIVE invariant. -/
namespace Blue.NextCompaction
open Blue.Spec

/-! ## the levels of the successor -/

theorem length_apply (t : Tree) (c : Core) (outs : List File) : (applyCompaction t c outs).length = t.length := by
  simp [applyCompaction]

theorem level_apply (t : Tree) (c : Core) (outs : List File) {i : Nat} (hi : i < t.length) :
    level (applyCompaction t c outs) i = applyLevel c outs i (level t i) := by
  unfold level applyCompaction
  rw [List.getD_eq_getElem?_getD, List.getD_eq_getElem?_getD, List.getElem?_mapIdx, List.getElem?_eq_getElem hi]
  rfl

theorem level_out (t : Tree) {i : Nat} (hi : t.length ≤ i) : level t i = [] := by
  unfold level
  rw [List.getD_eq_getElem?_getD, List.getElem?_eq_none hi]; rfl

/-- a tree invariant from facts about `level t i` -/
theorem inv_of_levels (t : Tree)
    (h1 : ∀ i f, f ∈ level t i → f.first ≤ f.last ∧ ∀ v ∈ f.vers, f.first ≤ v.1 ∧ v.1 ≤ f.last)
    (h2 : ∀ i, 1 ≤ i → SortedLevel (level t i))
    (h3 : ∀ i, ((level t i).map (·.id)).Nodup)
    (h4 : ∀ i j f g, f ∈ level t i → g ∈ level t j → f.id = g.id → i = j) : Inv t := by
  refine ⟨?_, ?_, ?_⟩
  · intro l hl f hf
    obtain ⟨i, hi, rfl⟩ := List.getElem_of_mem hl
    exact h1 i f (by rw [level_of_get (List.getElem?_eq_getElem hi)]; exact hf)
  · intro l hl
    obtain ⟨i, hi, rfl⟩ := List.getElem_of_mem hl
    have : t[i + 1]? = some (t.tail[i]) := by
      rw [← List.getElem?_tail, List.getElem?_eq_getElem hi]
    rw [← level_of_get this]
    exact h2 (i + 1) (by omega)
  · -- ids
    have gen : ∀ (ls : List (List File)), (∀ l ∈ ls, (l.map (·.id)).Nodup) →
        (∀ (i j : Nat) (li lj : List File) (f g : File), ls[i]? = some li → ls[j]? = some lj → f ∈ li → g ∈ lj → f.id = g.id → i = j) →
        (ls.flatten.map (·.id)).Nodup := by
      intro ls
      induction ls with
      | nil => intro _ _; simp
      | cons l tl ih =>
        intro hn hc
        rw [List.flatten_cons, List.map_append, List.nodup_append]
        refine ⟨hn l List.mem_cons_self, ih (fun l' hl' => hn l' (List.mem_cons_of_mem _ hl')) ?_, ?_⟩
        · intro i j li lj f g hi hj hf hg he
          have := hc (i + 1) (j + 1) li lj f g (by simpa using hi) (by simpa using hj) hf hg he
          omega
        · intro a ha b hb hab
          obtain ⟨f, hf, rfl⟩ := List.mem_map.mp ha
          obtain ⟨g, hg, rfl⟩ := List.mem_map.mp hb
          obtain ⟨lj, hlj, hglj⟩ := List.mem_flatten.mp hg
          obtain ⟨j, hj, rfl⟩ := List.getElem_of_mem hlj
          have := hc 0 (j + 1) l tl[j] f g rfl (by simp [List.getElem?_eq_getElem hj]) hf hglj hab
          omega
    apply gen t
    · intro l hl
      obtain ⟨i, hi, rfl⟩ := List.getElem_of_mem hl
      rw [← level_of_get (List.getElem?_eq_getElem hi)]
      exact h3 i
    · intro i j li lj f g hi hj hf hg he
      rw [← level_of_get hi] at hf
      rw [← level_of_get hj] at hg
      exact h4 i j f g hf hg he

/-! ## membership in the two kept parts of the output level -/

theorem mem_take_lb {l : List File} (hs : SortedLevel l) (hw : WfLevel l) (a : Nat) {g : File} :
    g ∈ l.take (lowerBound l a) ↔ g ∈ l ∧ g.last < a := by
  constructor
  · intro h
    obtain ⟨i, hi⟩ := List.mem_iff_getElem?.mp h
    rw [List.getElem?_take] at hi
    split at hi
    · rename_i hlt
      obtain ⟨hlen, rfl⟩ := List.getElem?_eq_some_iff.mp hi
      exact ⟨List.getElem_mem hlen, (lb_idx hs hw a i hlen).mpr hlt⟩
    · cases hi
  · rintro ⟨hg, hlt⟩
    obtain ⟨i, hi, rfl⟩ := List.getElem_of_mem hg
    have := (lb_idx hs hw a i hi).mp hlt
    apply List.mem_iff_getElem?.mpr
    exact ⟨i, by rw [List.getElem?_take, if_pos this, List.getElem?_eq_getElem hi]⟩

theorem mem_drop_ub {l : List File} (hs : SortedLevel l) (hw : WfLevel l) (b : Nat) {g : File} :
    g ∈ l.drop (upperBound l b) ↔ g ∈ l ∧ b < g.first := by
  constructor
  · intro h
    obtain ⟨i, hi⟩ := List.mem_iff_getElem?.mp h
    rw [List.getElem?_drop] at hi
    obtain ⟨hlen, rfl⟩ := List.getElem?_eq_some_iff.mp hi
    refine ⟨List.getElem_mem hlen, ?_⟩
    have := mt (ub_idx hs hw b _ hlen).mp (by omega)
    omega
  · rintro ⟨hg, hlt⟩
    obtain ⟨i, hi, rfl⟩ := List.getElem_of_mem hg
    have := mt (ub_idx hs hw b i hi).mpr (by omega)
    apply List.mem_iff_getElem?.mpr
    refine ⟨i - upperBound l b, ?_⟩
    rw [List.getElem?_drop]
    have e : upperBound l b + (i - upperBound l b) = i := by omega
    rw [e, List.getElem?_eq_getElem hi]

/-- `lower_bound(first) ≤ upper_bound(last)` on a sorted level when `first ≤ last`: the capacity
    computation of `apply_compaction_inner` does not underflow -/
theorem lb_le_ub {l : List File} (hs : SortedLevel l) (hw : WfLevel l) {a b : Nat} (hab : a ≤ b) :
    lowerBound l a ≤ upperBound l b := by
  apply Nat.le_of_not_lt
  intro hlt
  have hlen : upperBound l b < l.length := by have := lowerBound_le l a; omega
  have h1 := (lb_idx hs hw a _ hlen).mpr hlt
  have h2 := mt (ub_idx hs hw b _ hlen).mp (Nat.lt_irrefl _)
  have := hw _ (List.getElem_mem hlen)
  omega

/-! ## what the selector guarantees of its answer, as far as the successor tree needs it -/

/-- a compaction as `apply_compaction_inner` may be handed it -/
structure Chosen (t : Tree) (c : Core) : Prop where
  /-- `may_choose_compaction`: the levels differ -/
  levels : c.lower < c.upper
  upper_lt : c.upper < t.length
  range : c.first ≤ c.last
  /-- no file that stays lies below an input it shares a key with -/
  closed : Closed (tagTree t c)
  /-- every input is a file of the levels `lower ..= upper` inside `[first, last]` -/
  within : InputsWithin t c
  /-- every file of the output level that meets `[first, last]` is an input -/
  covered : ∀ g ∈ level t c.upper, g.first ≤ c.last → c.first ≤ g.last → g.id ∈ c.inputs

theorem Chosen.input_at {t : Tree} {c : Core} (hinv : Inv t) (hc : Chosen t c) {i : Nat} {f : File}
    (hf : f ∈ level t i) (hid : f.id ∈ c.inputs) :
    c.lower ≤ i ∧ i ≤ c.upper ∧ c.first ≤ f.first ∧ f.last ≤ c.last := by
  obtain ⟨l', f', hf', he', h1, h2, h3, h4⟩ := hc.within f.id hid
  obtain ⟨e1, e2⟩ := hinv.ids_unique hf hf' he'.symm
  subst e1; subst e2
  exact ⟨h1, h2, h3, h4⟩

/-- the outputs: well-formed files, sorted by key with at most touching ranges, inside the key
    range of the compaction, with ids that are distinct and name no file that stays -/
structure OutsOk (t : Tree) (c : Core) (outs : List File) : Prop where
  wf : ∀ o ∈ outs, o.first ≤ o.last ∧ ∀ v ∈ o.vers, o.first ≤ v.1 ∧ v.1 ≤ o.last
  sorted : SortedLevel outs
  inside : ∀ o ∈ outs, c.first ≤ o.first ∧ o.last ≤ c.last
  ids : (outs.map (·.id)).Nodup
  fresh : ∀ o ∈ outs, ∀ l f, f ∈ level t l → f.id = o.id → f.id ∈ c.inputs

theorem mem_dropInputs {ids : List Nat} {l : List File} {f : File} :
    f ∈ dropInputs ids l ↔ f ∈ l ∧ f.id ∉ ids := by
  unfold dropInputs
  simp [List.mem_filter]

/-- **the files of the successor**: at every level, the files that were there and are no input,
    and at the output level the outputs (position-based removal at the output level drops exactly
    the inputs of that level) -/
theorem mem_level_apply {t : Tree} {c : Core} (hinv : Inv t) (hc : Chosen t c) (outs : List File) {i : Nat} {f : File} :
    f ∈ level (applyCompaction t c outs) i ↔ (f ∈ level t i ∧ f.id ∉ c.inputs) ∨ (i = c.upper ∧ f ∈ outs) := by
  by_cases hi : i < t.length
  · rw [level_apply t c outs hi]
    unfold applyLevel
    have hlv := hc.levels
    split
    · rename_i hr
      rw [mem_dropInputs]
      constructor
      · intro h; exact Or.inl h
      · rintro (h | ⟨h, _⟩)
        · exact h
        · omega
    · rename_i hr
      split
      · rename_i hu
        subst hu
        have hs := hinv.sorted_level (i := c.upper) (by omega)
        have hw := hinv.wf_level c.upper
        unfold spliceUpper
        simp only [List.mem_append, mem_take_lb hs hw, mem_drop_ub hs hw]
        constructor
        · rintro ((⟨h1, h2⟩ | h) | ⟨h1, h2⟩)
          · refine Or.inl ⟨h1, fun hid => ?_⟩
            have := hc.input_at hinv h1 hid
            have := hw f h1
            omega
          · exact Or.inr ⟨trivial, h⟩
          · refine Or.inl ⟨h1, fun hid => ?_⟩
            have := hc.input_at hinv h1 hid
            have := hw f h1
            omega
        · rintro (⟨h1, h2⟩ | ⟨_, h⟩)
          · by_cases ha : f.last < c.first
            · exact Or.inl (Or.inl ⟨h1, ha⟩)
            · by_cases hb : c.last < f.first
              · exact Or.inr ⟨h1, hb⟩
              · exact absurd (hc.covered f h1 (by omega) (by omega)) h2
          · exact Or.inl (Or.inr h)
      · rename_i hu
        constructor
        · intro h
          refine Or.inl ⟨h, fun hid => ?_⟩
          have := hc.input_at hinv h hid
          omega
        · rintro (⟨h, _⟩ | ⟨h, _⟩)
          · exact h
          · exact absurd h hu
  · have hi' : t.length ≤ i := by omega
    rw [level_out _ (by rw [length_apply]; exact hi'), level_out t hi']
    have := hc.upper_lt
    constructor
    · intro h; cases h
    · rintro (⟨h, _⟩ | ⟨h, _⟩)
      · cases h
      · omega

/-- the output level of the successor is sorted by key -/
theorem spliceUpper_sorted {l : List File} (hs : SortedLevel l) (hw : WfLevel l) {a b : Nat} (hab : a ≤ b)
    {outs : List File} (ho : SortedLevel outs) (hin : ∀ o ∈ outs, a ≤ o.first ∧ o.last ≤ b) :
    SortedLevel (spliceUpper l a b outs) := by
  unfold spliceUpper SortedLevel
  rw [List.pairwise_append]
  refine ⟨?_, hs.sublist (List.drop_sublist _ _), ?_⟩
  · rw [List.pairwise_append]
    refine ⟨hs.sublist (List.take_sublist _ _), ho, ?_⟩
    intro x hx y hy
    have := ((mem_take_lb hs hw a).mp hx).2
    have := (hin y hy).1
    omega
  · intro x hx y hy
    have h2 := ((mem_drop_ub hs hw b).mp hy).2
    rcases List.mem_append.mp hx with hx | hx
    · have := ((mem_take_lb hs hw a).mp hx).2
      omega
    · have := (hin x hx).2
      omega

/-- **I1 and the rest of the tree invariant are preserved** by `apply_compaction_inner`: if the tree
    satisfies `Inv`, the compaction is one the selector may return (`Chosen`) and the outputs are
    well-formed, sorted, inside the compaction's key range and fresh, the successor satisfies `Inv` -/
theorem apply_preserves_inv {t : Tree} {c : Core} {outs : List File} (hinv : Inv t) (hc : Chosen t c)
    (ho : OutsOk t c outs) : Inv (applyCompaction t c outs) := by
  have hlv := hc.levels
  apply inv_of_levels
  · intro i f hf
    rcases (mem_level_apply hinv hc outs).mp hf with ⟨h, _⟩ | ⟨_, h⟩
    · exact hinv.wfT h
    · exact ho.wf f h
  · intro i hi
    by_cases hlen : i < t.length
    · rw [level_apply t c outs hlen]
      unfold applyLevel
      split
      · exact (hinv.sorted_level hi).sublist List.filter_sublist
      · split
        · rename_i hu
          subst hu
          exact spliceUpper_sorted (hinv.sorted_level hi) (hinv.wf_level _) hc.range ho.sorted ho.inside
        · exact hinv.sorted_level hi
    · rw [level_out _ (by rw [length_apply]; omega)]
      exact List.Pairwise.nil
  · intro i
    by_cases hlen : i < t.length
    · rw [level_apply t c outs hlen]
      unfold applyLevel
      split
      · exact ((List.filter_sublist).map _).nodup (level_ids_nodup hinv i)
      · split
        · rename_i hu
          subst hu
          have hs := hinv.sorted_level (i := c.upper) (by omega)
          have hw := hinv.wf_level c.upper
          have hnd := level_ids_nodup hinv c.upper
          unfold spliceUpper
          rw [List.map_append, List.map_append, List.nodup_append]
          have hcross : ∀ x ∈ level t c.upper, x.id ∉ c.inputs → ∀ o ∈ outs, x.id ≠ o.id := by
            intro x hx hni o ho' he
            exact hni (ho.fresh o ho' _ x hx he)
          have hni_take : ∀ x ∈ (level t c.upper).take (lowerBound (level t c.upper) c.first), x ∈ level t c.upper ∧ x.id ∉ c.inputs := by
            intro x hx
            obtain ⟨h1, h2⟩ := (mem_take_lb hs hw c.first).mp hx
            refine ⟨h1, fun hid => ?_⟩
            have := hc.input_at hinv h1 hid
            have := hw x h1
            omega
          have hni_drop : ∀ x ∈ (level t c.upper).drop (upperBound (level t c.upper) c.last), x ∈ level t c.upper ∧ x.id ∉ c.inputs := by
            intro x hx
            obtain ⟨h1, h2⟩ := (mem_drop_ub hs hw c.last).mp hx
            refine ⟨h1, fun hid => ?_⟩
            have := hc.input_at hinv h1 hid
            have := hw x h1
            omega
          refine ⟨?_, ((List.drop_sublist _ _).map _).nodup hnd, ?_⟩
          · rw [List.nodup_append]
            refine ⟨((List.take_sublist _ _).map _).nodup hnd, ho.ids, ?_⟩
            intro a ha b hb hab
            obtain ⟨x, hx, rfl⟩ := List.mem_map.mp ha
            obtain ⟨o, ho', rfl⟩ := List.mem_map.mp hb
            exact hcross x (hni_take x hx).1 (hni_take x hx).2 o ho' hab
          · intro a ha b hb hab
            obtain ⟨y, hy, rfl⟩ := List.mem_map.mp hb
            rcases List.mem_append.mp ha with ha | ha
            · obtain ⟨x, hx, rfl⟩ := List.mem_map.mp ha
              have e := inj_of_nodup_map (·.id) _ hnd x (hni_take x hx).1 y (hni_drop y hy).1 hab
              subst e
              have := ((mem_take_lb hs hw c.first).mp hx).2
              have := ((mem_drop_ub hs hw c.last).mp hy).2
              have := hw x (hni_take x hx).1
              have := hc.range
              omega
            · obtain ⟨o, ho', rfl⟩ := List.mem_map.mp ha
              exact hcross y (hni_drop y hy).1 (hni_drop y hy).2 o ho' hab.symm
        · exact level_ids_nodup hinv i
    · rw [level_out _ (by rw [length_apply]; omega)]
      exact List.nodup_nil
  · intro i j f g hf hg he
    rcases (mem_level_apply hinv hc outs).mp hf with ⟨h1, h2⟩ | ⟨h1, h2⟩
    · rcases (mem_level_apply hinv hc outs).mp hg with ⟨g1, g2⟩ | ⟨g1, g2⟩
      · exact (hinv.ids_unique h1 g1 he).1
      · exact absurd (ho.fresh g g2 i f h1 he) h2
    · rcases (mem_level_apply hinv hc outs).mp hg with ⟨g1, g2⟩ | ⟨g1, g2⟩
      · exact absurd (ho.fresh f h2 j g g1 he.symm) g2
      · omega

/-! ## every answer of the selector is `Chosen` -/

/-- `nextCompaction_origin` with one more fact about the range `compute_bounds` is started from:
    it is non-empty (the hull of a non-empty level 0, or the range of a well-formed file) -/
theorem nextCompaction_origin_range (n : Num) (o : Opts) (t : Tree) (og : List Core) (hinv : Inv t) (Q : Core → Prop)
    (hT : ∀ lower f c, (lower = 0 → oldest (level t 0) = some f) → (0 < lower → f ∈ level t lower) →
      trivialOne o og t lower f = some c → Q c)
    (hB : ∀ lower first last d sz,
      (lower = 0 → first = minKey ((level t 0).map (·.first)) ∧ last = maxKey ((level t 0).map (·.last))) →
      first ≤ last →
      1 ≤ d → lower + d < t.length →
      mayChoose o og (candOver o t lower (computeBounds t lower first last) d sz) = true →
      Q (candOver o t lower (computeBounds t lower first last) d sz))
    {c : Core} (h : nextCompaction n o t og = some c) : Q c := by
  have hF : ∀ lower first last c sc,
      (lower = 0 → first = minKey ((level t 0).map (·.first)) ∧ last = maxKey ((level t 0).map (·.last))) →
      first ≤ last →
      findBest o og t lower (computeBounds t lower first last) = (some c, sc) → Q c := by
    intro lower first last c sc hh hfl hfb
    exact findBest_origin o og t lower _ Q (fun d sz h1 h2 _ _ h5 => hB lower first last d sz hh hfl h1 h2 h5) hfb
  have noneQ : ∀ c, (none : Option Core) = some c → Q c := fun _ h => nomatch h
  unfold nextCompaction at h
  split at h
  · rename_i c' hfs
    cases h
    obtain ⟨lower, _, htm⟩ := firstSome_some _ _ _ hfs
    unfold trivialMove at htm
    split at htm
    · rename_i h0
      subst h0
      split at htm
      · cases htm
      · rename_i f hold
        exact hT 0 f c (fun _ => hold) (fun h => absurd h (Nat.lt_irrefl 0)) htm
    · rename_i h0
      obtain ⟨f, hf, hone⟩ := firstSome_some _ _ _ htm
      exact hT lower f c (fun h => absurd h h0) (fun _ => hf) hone
  · have hsel : (∀ c, ((deeperLevels t.length).foldl (levelStep n o og t) (l0Stage o og t)).cand = some c → Q c)
        ∧ (∀ c, ((deeperLevels t.length).foldl (levelStep n o og t) (l0Stage o og t)).mand = some c → Q c) := by
      apply foldl_inv (fun st : Sel => (∀ c, st.cand = some c → Q c) ∧ (∀ c, st.mand = some c → Q c))
      · unfold l0Stage
        split
        · exact ⟨noneQ, noneQ⟩
        · rename_i hne
          dsimp only
          have hrange : minKey ((level t 0).map (·.first)) ≤ maxKey ((level t 0).map (·.last)) := by
            cases hl : level t 0 with
            | nil => rw [hl] at hne; simp at hne
            | cons g gs =>
              have hg : g ∈ level t 0 := by rw [hl]; exact List.mem_cons_self
              have h1 := hull_covers t g hg
              have h2 := hinv.wf_level 0 g hg
              rw [hl] at h1
              omega
          split
          · rename_i c0 sc hfb
            have hq := hF 0 _ _ c0 sc (fun _ => ⟨rfl, rfl⟩) hrange hfb
            split
            · exact ⟨noneQ, fun c h => by cases h; exact hq⟩
            · exact ⟨fun c h => by cases h; exact hq, noneQ⟩
          · exact ⟨noneQ, noneQ⟩
      · intro st lower hlow hst
        have hpos : 0 < lower := by
          unfold deeperLevels at hlow
          obtain ⟨k, hk, rfl⟩ := List.mem_map.mp hlow
          rw [List.mem_range] at hk
          omega
        unfold levelStep
        split
        · exact hst
        · apply foldl_inv (fun st : Sel => (∀ c, st.cand = some c → Q c) ∧ (∀ c, st.mand = some c → Q c)) _ _ _ hst
          intro st' f hfm hst'
          unfold fileStep
          split
          · rename_i c0 sc hfb
            have hq := hF lower f.first f.last c0 sc (fun h => by omega) (hinv.wf_level lower f hfm) hfb
            unfold fileUpdate
            by_cases hA : (mandatoryFlag o t && (level t lower).all (fun x => c0.inputs.contains x.id)
                && decide (c0.size < mandSize st')) = true
            · rw [if_pos hA]
              exact ⟨hst'.1, fun c h => by cases h; exact hq⟩
            · rw [if_neg hA]
              by_cases hB' : sc > st'.best
              · rw [if_pos hB']
                exact ⟨fun c h => by cases h; exact hq, hst'.2⟩
              · rw [if_neg hB']
                exact hst'
          · exact hst'
    dsimp only at h
    split at h
    · rename_i m hm
      cases h
      exact hsel.2 c hm
    · split at h
      · rename_i c' hc'
        split at h
        · cases h; exact hsel.1 c hc'
        · cases h
      · cases h

/-- `expand_compaction` only adds inputs -/
theorem expandLoop_sub (o : Opts) (t : Tree) : ∀ (levels : List Nat) (first last : Nat) (inputs : List Nat),
    ∀ id ∈ inputs, id ∈ expandLoop o t levels first last inputs
  | [], _, _, inputs, id, h => by rw [expandLoop_nil]; exact h
  | lvl :: rest, first, last, inputs, id, h => by
    cases hl : expandLevel o first last inputs (level t lvl) [] with
    | none => rw [expandLoop_cons_none o t _ _ _ _ _ hl]; exact h
    | some toAdd =>
      rw [expandLoop_cons_some o t _ _ _ _ _ toAdd hl]
      exact expandLoop_sub o t rest _ _ _ id (List.mem_append_left _ h)

/-- **every compaction the selector returns meets what `apply_compaction_inner` relies on**: the
    levels differ and exist, the key range is non-empty, the selection is closed, the inputs lie in
    the levels and inside the key range, and the output level's files meeting the key range are all
    inputs (so that cutting the output level by position drops inputs only) -/
theorem nextCompaction_chosen (n : Num) (o : Opts) (t : Tree) (og : List Core) (hinv : Inv t)
    {c : Core} (h : nextCompaction n o t og = some c) : Chosen t c := by
  have hcl := nextCompaction_closed n o t og hinv h
  have hwi := nextCompaction_inputs_within n o t og hinv h
  suffices hs : c.lower < c.upper ∧ c.upper < t.length ∧ c.first ≤ c.last ∧
      (∀ g ∈ level t c.upper, g.first ≤ c.last → c.first ≤ g.last → g.id ∈ c.inputs) from
    ⟨hs.1, hs.2.1, hs.2.2.1, hcl, hwi, hs.2.2.2⟩
  apply nextCompaction_origin_range n o t og hinv (fun c => c.lower < c.upper ∧ c.upper < t.length ∧ c.first ≤ c.last ∧
      (∀ g ∈ level t c.upper, g.first ≤ c.last → c.first ≤ g.last → g.id ∈ c.inputs)) ?_ ?_ h
  · intro lower f c h0 hpos hone
    obtain ⟨_, h2, h3, rfl, _⟩ := trivialOne_some hone
    have hf : f ∈ level t lower := by
      by_cases hl : lower = 0
      · subst hl
        obtain ⟨init, hinit⟩ := l0Search_oldest (h0 rfl)
        exact mem_l0Search.mp (by rw [hinit]; simp)
      · exact hpos (by omega)
    refine ⟨Nat.lt_succ_self _, h2, hinv.wf_level lower f hf, ?_⟩
    intro g hg h1 h2'
    exact absurd ⟨h1, h2'⟩ (no_meet_of_eq (hinv.sorted_level (by omega : 1 ≤ lower + 1)) (hinv.wf_level (lower + 1)) h3 g hg)
  · intro lower first last d sz hh hfl hd hup _
    have hhull : lower = 0 → ∀ g ∈ level t 0, first ≤ g.first ∧ g.last ≤ last := by
      intro h0 g hg
      obtain ⟨e1, e2⟩ := hh h0
      rw [e1, e2]; exact hull_covers t g hg
    have hb := computeBounds_ok hinv lower first last hhull
    -- the range at the output level contains the starting range
    have hwide : ((computeBounds t lower first last).getD (lower + d) ⟨0, 0, 0, 0⟩).first ≤ first
        ∧ last ≤ ((computeBounds t lower first last).getD (lower + d) ⟨0, 0, 0, 0⟩).last := by
      unfold computeBounds
      obtain ⟨hlen, _, h3, _⟩ := boundsLoop_spec lower t 0 first last
        (by
          intro k lvl hk h1
          rw [← level_of_get hk]
          exact ⟨hinv.sorted_level (by omega), hinv.wf_level k⟩)
        (by
          intro _ h0 lvl hk g hg
          rw [← level_of_get hk] at hg
          have := hhull h0 g hg
          have := hinv.wf_level 0 g hg
          omega)
      apply h3 (lower + d) _ _ (by omega)
      rw [List.getD_eq_getElem?_getD, List.getElem?_eq_getElem (by omega)]; rfl
    unfold candOver expand
    dsimp only
    refine ⟨by omega, hup, by omega, ?_⟩
    intro g hg h1 h2
    apply expandLoop_sub
    rw [mem_baseIds]
    refine ⟨d, by omega, ?_⟩
    unfold sliceIds
    exact List.mem_map.mpr ⟨g, ((hb.ok (lower + d) (by omega) hup).takes g hg).mpr ⟨h1, h2⟩, rfl⟩

/-! ## stable sort: two facts about `sort_by_key(biggest_timestamp)` -/

theorem split_unique {α : Type} (q : α → Bool) : ∀ (x₁ x₂ y₁ y₂ : List α), x₁ ++ x₂ = y₁ ++ y₂ →
    (∀ b ∈ x₁, q b = true) → (∀ b ∈ x₂, q b = false) → (∀ b ∈ y₁, q b = true) → (∀ b ∈ y₂, q b = false) →
    x₁ = y₁ ∧ x₂ = y₂
  | [], x₂, [], y₂, h, _, _, _, _ => ⟨rfl, by simpa using h⟩
  | [], x₂, b :: y₁, y₂, h, _, h2, h3, _ => by
    simp only [List.nil_append, List.cons_append] at h
    have e1 := h2 b (by rw [h]; exact List.mem_cons_self)
    have e2 := h3 b List.mem_cons_self
    rw [e1] at e2; cases e2
  | a :: x₁, x₂, [], y₂, h, h1, _, _, h4 => by
    simp only [List.nil_append, List.cons_append] at h
    have e1 := h4 a (by rw [← h]; exact List.mem_cons_self)
    have e2 := h1 a List.mem_cons_self
    rw [e1] at e2; cases e2
  | a :: x₁, x₂, b :: y₁, y₂, h, h1, h2, h3, h4 => by
    simp only [List.cons_append, List.cons.injEq] at h
    obtain ⟨rfl, h⟩ := h
    obtain ⟨e1, e2⟩ := split_unique q x₁ x₂ y₁ y₂ h (fun b hb => h1 b (List.mem_cons_of_mem _ hb)) h2
      (fun b hb => h3 b (List.mem_cons_of_mem _ hb)) h4
    exact ⟨by rw [e1], e2⟩

theorem mergeSort_cons_split {α : Type} {le : α → α → Bool}
    (trans : ∀ (a b c : α), le a b = true → le b c = true → le a c = true)
    (total : ∀ (a b : α), (le a b || le b a) = true) (a : α) (l : List α) :
    ∃ l₁ l₂, List.mergeSort (a :: l) le = l₁ ++ a :: l₂ ∧ List.mergeSort l le = l₁ ++ l₂ ∧
      (∀ b ∈ l₁, (!le a b) = true) ∧ (∀ b ∈ l₂, (!le a b) = false) := by
  obtain ⟨l₁, l₂, h₁, h₂, h₃⟩ := List.mergeSort_cons (le := le) trans total a l
  refine ⟨l₁, l₂, h₁, h₂, h₃, ?_⟩
  have hs := List.pairwise_mergeSort (le := le) trans total (a :: l)
  rw [h₁, List.pairwise_append] at hs
  have := hs.2.1
  rw [List.pairwise_cons] at this
  intro b hb
  simp [this.1 b hb]

/-- a stable sort commutes with `retain` -/
theorem filter_mergeSort {α : Type} {le : α → α → Bool}
    (trans : ∀ (a b c : α), le a b = true → le b c = true → le a c = true)
    (total : ∀ (a b : α), (le a b || le b a) = true) (p : α → Bool) : ∀ (l : List α),
    List.mergeSort (l.filter p) le = (List.mergeSort l le).filter p
  | [] => by simp
  | a :: l => by
    obtain ⟨l₁, l₂, h₁, h₂, h₃, h₄⟩ := mergeSort_cons_split trans total a l
    have ih := filter_mergeSort trans total p l
    rw [h₂, List.filter_append] at ih
    rw [h₁, List.filter_append]
    by_cases hp : p a = true
    · rw [List.filter_cons_of_pos hp, List.filter_cons_of_pos hp]
      obtain ⟨m₁, m₂, g₁, g₂, g₃, g₄⟩ := mergeSort_cons_split trans total a (l.filter p)
      rw [g₁]
      rw [ih] at g₂
      obtain ⟨e1, e2⟩ := split_unique (fun b => !le a b) m₁ m₂ (l₁.filter p) (l₂.filter p) g₂.symm g₃ g₄
        (fun b hb => h₃ b (List.mem_filter.mp hb).1) (fun b hb => h₄ b (List.mem_filter.mp hb).1)
      rw [e1, e2]
    · rw [List.filter_cons_of_neg hp, List.filter_cons_of_neg hp]
      exact ih

/-- a stable sort leaves a strictly biggest last element last -/
theorem mergeSort_snoc_max {α : Type} {le : α → α → Bool}
    (trans : ∀ (a b c : α), le a b = true → le b c = true → le a c = true)
    (total : ∀ (a b : α), (le a b || le b a) = true) (f : α) : ∀ (l : List α), (∀ x ∈ l, le f x = false) →
    List.mergeSort (l ++ [f]) le = List.mergeSort l le ++ [f]
  | [], _ => by simp
  | a :: l, hmax => by
    have ih := mergeSort_snoc_max trans total f l (fun x hx => hmax x (List.mem_cons_of_mem _ hx))
    obtain ⟨l₁, l₂, h₁, h₂, h₃, h₄⟩ := mergeSort_cons_split trans total a (l ++ [f])
    obtain ⟨k₁, k₂, g₁, g₂, g₃, g₄⟩ := mergeSort_cons_split trans total a l
    rw [List.cons_append, h₁, g₁]
    rw [ih, g₂, List.append_assoc] at h₂
    have haf : le a f = true := by
      have h1 := total a f
      have h2 := hmax a List.mem_cons_self
      rw [h2] at h1
      simpa using h1
    obtain ⟨e1, e2⟩ := split_unique (fun b => !le a b) l₁ l₂ k₁ (k₂ ++ [f]) h₂.symm h₃ h₄ g₃
      (by
        intro b hb
        rcases List.mem_append.mp hb with hb | hb
        · exact g₄ b hb
        · simp only [List.mem_singleton] at hb
          subst hb
          simp [haf])
    rw [e1, e2]
    simp

theorem l0Search_dropInputs (ids : List Nat) (l : List File) :
    l0Search (dropInputs ids l) = dropInputs ids (l0Search l) := by
  unfold l0Search dropInputs
  rw [filter_mergeSort bts_trans bts_total, List.filter_reverse]

/-- the file `ingest` pushed is searched first if its newest timestamp is the biggest of level 0 -/
theorem l0Search_ingest (l : List File) (f : File) (h : ∀ g ∈ l, g.bts < f.bts) :
    l0Search (l ++ [f]) = f :: l0Search l := by
  unfold l0Search
  rw [mergeSort_snoc_max bts_trans bts_total f l (by
    intro x hx
    have := h x hx
    simp only [decide_eq_false_iff_not]
    omega)]
  simp

/-! ## the components of a tree in search order -/

def comps (l : List File) : List (List (Ver Nat)) := l.map (·.vers)

/-- the levels `a .. a + n - 1`, whole -/
def deepComps (t : Tree) (a n : Nat) : List (List (Ver Nat)) :=
  ((List.range n).map (fun j => comps (level t (j + a)))).flatten

/-- **the search order of a tree**: level 0 by descending newest timestamp (`Version::load`), then
    the levels 1, 2, … in the order the version holds their files -/
def treeComps (t : Tree) : List (List (Ver Nat)) :=
  comps (l0Search (level t 0)) ++ deepComps t 1 (t.length - 1)

/-- what lies below the output level -/
def belowComps (t : Tree) (upper : Nat) : List (List (Ver Nat)) := deepComps t (upper + 1) (t.length - 1 - upper)

theorem deepComps_add (t : Tree) (a n m : Nat) : deepComps t a (n + m) = deepComps t a n ++ deepComps t (a + n) m := by
  unfold deepComps
  rw [List.range_add, List.map_append, List.flatten_append, List.map_map]
  congr 2
  apply List.map_congr_left
  intro j _
  simp only [Function.comp]
  have : n + j + a = j + (a + n) := by omega
  rw [this]

theorem deepComps_one (t : Tree) (a : Nat) : deepComps t a 1 = comps (level t a) := by
  simp [deepComps, List.range_succ]

theorem tagIds_cons (ids : List Nat) (l : Nat × List File) (ls : List (Nat × List File)) :
    tagIds ids (l :: ls) = l.2.map (fun f => (ids.contains f.id, f.vers)) ++ tagIds ids ls := by
  simp [tagIds]

theorem tagIds_append (ids : List Nat) (l1 l2 : List (Nat × List File)) :
    tagIds ids (l1 ++ l2) = tagIds ids l1 ++ tagIds ids l2 := by
  simp [tagIds]

theorem kept_append {K : Type} (a b : Tagged K) : kept (a ++ b) = kept a ++ kept b := by
  simp [kept]

theorem kept_tag_level (ids : List Nat) (l : List File) :
    kept (l.map (fun f => (ids.contains f.id, f.vers))) = comps (dropInputs ids l) := by
  induction l with
  | nil => rfl
  | cons f l ih =>
    rw [List.map_cons, show (((ids.contains f.id, f.vers) : Bool × List (Ver Nat)) :: l.map (fun f => (ids.contains f.id, f.vers)))
      = [(ids.contains f.id, f.vers)] ++ l.map (fun f => (ids.contains f.id, f.vers)) from rfl, kept_append, ih]
    unfold dropInputs comps kept
    by_cases h : f.id ∈ ids <;> simp [h]

theorem snd_tag_level (ids : List Nat) (l : List File) :
    (l.map (fun f => (ids.contains f.id, f.vers))).map (·.2) = comps l := by
  simp [comps]

theorem kept_tagIds (ids : List Nat) : ∀ (ls : List (Nat × List File)),
    kept (tagIds ids ls) = (ls.map (fun l => comps (dropInputs ids l.2))).flatten
  | [] => rfl
  | l :: ls => by
    rw [tagIds_cons, kept_append, kept_tag_level, kept_tagIds ids ls]
    simp

theorem snd_tagIds (ids : List Nat) : ∀ (ls : List (Nat × List File)),
    (tagIds ids ls).map (·.2) = (ls.map (fun l => comps l.2)).flatten
  | [] => rfl
  | l :: ls => by
    rw [tagIds_cons, List.map_append, snd_tag_level, snd_tagIds ids ls]
    simp

theorem numLevels_succ (t : Tree) (u : Nat) : numLevels t (u + 1) = numLevels t u ++ [(u + 1, level t (u + 1))] := by
  simp [numLevels, List.range_succ]

/-- the search order down to level `u` -/
theorem comps_numLevels (t : Tree) (u : Nat) :
    ((numLevels t u).map (fun l => comps l.2)).flatten = comps (l0Search (level t 0)) ++ deepComps t 1 u := by
  simp only [numLevels, deepComps, List.map_cons, List.flatten_cons, List.map_map]
  rfl

/-- the search order of a tree is the tagged list down to the output level, then the rest -/
theorem treeComps_split (t : Tree) (c : Core) (hu : c.upper < t.length) :
    treeComps t = (tagTree t c).map (·.2) ++ belowComps t c.upper := by
  unfold treeComps tagTree belowComps
  rw [snd_tagIds, comps_numLevels, List.append_assoc]
  congr 1
  have : t.length - 1 = c.upper + (t.length - 1 - c.upper) := by omega
  rw [this, deepComps_add]
  have e : 1 + c.upper = c.upper + 1 := by omega
  have e2 : c.upper + (t.length - 1 - c.upper) - c.upper = t.length - 1 - c.upper := by omega
  rw [e, e2]

/-! ## the components of the successor -/

/-- above the output level every level of the successor is the old level without the inputs -/
theorem level_apply_above {t : Tree} {c : Core} (hinv : Inv t) (hc : Chosen t c) (outs : List File) {i : Nat}
    (hi : i < c.upper) : level (applyCompaction t c outs) i = dropInputs c.inputs (level t i) := by
  have hlen : i < t.length := by have := hc.upper_lt; omega
  rw [level_apply t c outs hlen]
  unfold applyLevel
  split
  · rfl
  · rw [if_neg (by omega)]
    unfold dropInputs
    symm
    rw [List.filter_eq_self]
    intro f hf
    simp only [Bool.not_eq_true', List.contains_eq_mem, decide_eq_false_iff_not]
    intro hid
    have := hc.input_at hinv hf hid
    omega

theorem level_apply_upper {t : Tree} {c : Core} (hc : Chosen t c) (outs : List File) :
    level (applyCompaction t c outs) c.upper = spliceUpper (level t c.upper) c.first c.last outs := by
  have hlv := hc.levels
  rw [level_apply t c outs hc.upper_lt]
  unfold applyLevel
  rw [if_neg (by omega), if_pos rfl]

theorem level_apply_below {t : Tree} {c : Core} (_hc : Chosen t c) (outs : List File) {i : Nat}
    (hi : c.upper < i) : level (applyCompaction t c outs) i = level t i := by
  by_cases hlen : i < t.length
  · rw [level_apply t c outs hlen]
    unfold applyLevel
    rw [if_neg (by omega), if_neg (by omega)]
  · rw [level_out _ (by rw [length_apply]; omega), level_out t (by omega)]

/-- **cutting the output level by position drops exactly its inputs**: what
    `ssts[..lower_bound] ++ ssts[upper_bound..]` keeps is what `retain(not an input)` would keep -/
theorem spliceUpper_drops_inputs {t : Tree} {c : Core} (hinv : Inv t) (hc : Chosen t c) :
    dropInputs c.inputs (level t c.upper)
      = (level t c.upper).take (lowerBound (level t c.upper) c.first)
        ++ (level t c.upper).drop (upperBound (level t c.upper) c.last) := by
  have hlv := hc.levels
  have hs := hinv.sorted_level (i := c.upper) (by omega)
  have hw := hinv.wf_level c.upper
  generalize hl : level t c.upper = lvl at hs hw
  have hle := lb_le_ub hs hw hc.range
  have hsplit : lvl = lvl.take (lowerBound lvl c.first)
      ++ (sliceFiles lvl ⟨lowerBound lvl c.first, upperBound lvl c.last, 0, 0⟩
        ++ lvl.drop (upperBound lvl c.last)) := by
    unfold sliceFiles
    dsimp only
    have : lvl.drop (upperBound lvl c.last)
        = (lvl.drop (lowerBound lvl c.first)).drop (upperBound lvl c.last - lowerBound lvl c.first) := by
      rw [List.drop_drop]
      congr 1
      omega
    rw [this, List.take_append_drop, List.take_append_drop]
  have hmem : ∀ g, g ∈ lvl → g ∈ level t c.upper := by intro g hg; rw [hl]; exact hg
  unfold dropInputs
  conv => lhs; rw [hsplit]
  rw [List.filter_append, List.filter_append]
  have h1 : (lvl.take (lowerBound lvl c.first)).filter (fun x => !c.inputs.contains x.id) = lvl.take (lowerBound lvl c.first) := by
    rw [List.filter_eq_self]
    intro g hg
    obtain ⟨g1, g2⟩ := (mem_take_lb hs hw c.first).mp hg
    simp only [Bool.not_eq_true', List.contains_eq_mem, decide_eq_false_iff_not]
    intro hid
    have := hc.input_at hinv (hmem g g1) hid
    have := hw g g1
    omega
  have h2 : (sliceFiles lvl ⟨lowerBound lvl c.first, upperBound lvl c.last, 0, 0⟩).filter (fun x => !c.inputs.contains x.id) = [] := by
    rw [List.filter_eq_nil_iff]
    intro g hg
    obtain ⟨i, i1, i2, i3⟩ := mem_sliceFiles.mp hg
    obtain ⟨ilen, rfl⟩ := List.getElem?_eq_some_iff.mp i3
    dsimp only at i1 i2
    have a1 := mt (lb_idx hs hw c.first i ilen).mp (by omega)
    have a2 := (ub_idx hs hw c.last i ilen).mpr i2
    have := hc.covered lvl[i] (hmem _ (List.getElem_mem ilen)) a2 (by omega)
    simp [this]
  have h3 : (lvl.drop (upperBound lvl c.last)).filter (fun x => !c.inputs.contains x.id) = lvl.drop (upperBound lvl c.last) := by
    rw [List.filter_eq_self]
    intro g hg
    obtain ⟨g1, g2⟩ := (mem_drop_ub hs hw c.last).mp hg
    simp only [Bool.not_eq_true', List.contains_eq_mem, decide_eq_false_iff_not]
    intro hid
    have := hc.input_at hinv (hmem g g1) hid
    have := hw g g1
    omega
  rw [h1, h2, h3, List.nil_append]

/-- the kept components above the output level -/
def aboveComps (t : Tree) (c : Core) : List (List (Ver Nat)) :=
  ((numLevels t (c.upper - 1)).map (fun l => comps (dropInputs c.inputs l.2))).flatten

/-- the kept files of the output level left of the compaction's key range -/
def beforeComps (t : Tree) (c : Core) : List (List (Ver Nat)) :=
  comps ((level t c.upper).take (lowerBound (level t c.upper) c.first))

/-- … and right of it -/
def afterComps (t : Tree) (c : Core) : List (List (Ver Nat)) :=
  comps ((level t c.upper).drop (upperBound (level t c.upper) c.last))

theorem comps_append (a b : List File) : comps (a ++ b) = comps a ++ comps b := by simp [comps]

/-- the components that stay, `kept` of the existing step theorems, level by level -/
theorem kept_tagTree {t : Tree} {c : Core} (hinv : Inv t) (hc : Chosen t c) :
    kept (tagTree t c) = aboveComps t c ++ beforeComps t c ++ afterComps t c := by
  have hlv := hc.levels
  unfold tagTree aboveComps beforeComps afterComps
  obtain ⟨u, hu⟩ : ∃ u, c.upper = u + 1 := ⟨c.upper - 1, by omega⟩
  have e3 : c.upper - 1 = u := by omega
  rw [kept_tagIds, e3]
  have hn : numLevels t c.upper = numLevels t u ++ [(c.upper, level t c.upper)] := by
    rw [hu]; exact numLevels_succ t u
  rw [hn, List.map_append, List.flatten_append]
  simp only [List.map_cons, List.map_nil, List.flatten_cons, List.flatten_nil, List.append_nil]
  rw [spliceUpper_drops_inputs hinv hc, comps_append, List.append_assoc]

/-- **gap (a) closed — the components of the successor state**: the search order of the tree
    `apply_compaction_inner` builds is the kept components above the output level, then the output
    level as the code assembles it (the kept files left of the key range, the outputs in the order
    given, the kept files right of it), then the deeper levels untouched.  `kept (tagTree t c)` of
    the step theorems is `aboveComps ++ beforeComps ++ afterComps` (`kept_tagTree`): the real
    successor is NOT `kept ++ outs ++ post` as a list — the outputs stand before `afterComps` —
    and `apply_preserves_newer_above` moves them there (`swap_disjoint_blocks`). -/
theorem apply_components {t : Tree} {c : Core} (hinv : Inv t) (hc : Chosen t c) (outs : List File) :
    treeComps (applyCompaction t c outs)
      = aboveComps t c ++ beforeComps t c ++ comps outs ++ afterComps t c ++ belowComps t c.upper := by
  have hlv := hc.levels
  have hul := hc.upper_lt
  obtain ⟨u, hu⟩ : ∃ u, c.upper = u + 1 := ⟨c.upper - 1, by omega⟩
  unfold treeComps
  rw [length_apply]
  have e : t.length - 1 = u + (1 + (t.length - 1 - c.upper)) := by omega
  rw [e, deepComps_add, deepComps_add, deepComps_one]
  have e1 : 1 + u = c.upper := by omega
  have e2 : 1 + u + 1 = c.upper + 1 := by omega
  rw [e2, e1, level_apply_upper hc, level_apply_above hinv hc outs (by omega : 0 < c.upper), l0Search_dropInputs]
  have hdeep : deepComps (applyCompaction t c outs) 1 u
      = ((List.range u).map (fun j => comps (dropInputs c.inputs (level t (j + 1))))).flatten := by
    unfold deepComps
    congr 1
    apply List.map_congr_left
    intro j hj
    rw [List.mem_range] at hj
    rw [level_apply_above hinv hc outs (by omega)]
  have hbelow : deepComps (applyCompaction t c outs) (c.upper + 1) (t.length - 1 - c.upper) = belowComps t c.upper := by
    unfold belowComps deepComps
    congr 1
    apply List.map_congr_left
    intro j _
    rw [level_apply_below hc outs (by omega)]
  rw [hdeep, hbelow]
  unfold aboveComps beforeComps afterComps spliceUpper
  have e3 : c.upper - 1 = u := by omega
  rw [e3, comps_append, comps_append]
  simp [numLevels, List.map_map, List.append_assoc]
  rfl

/-! ## "newer above" (I2) on the successor -/

theorem numLevels_has (t : Tree) {upper i : Nat} (hi : i ≤ upper) :
    ∃ l ∈ numLevels t upper, l.1 = i ∧ ∀ f, f ∈ l.2 ↔ f ∈ level t i := by
  unfold numLevels
  cases i with
  | zero => exact ⟨_, List.mem_cons_self, rfl, fun f => mem_l0Search⟩
  | succ j =>
    refine ⟨(j + 1, level t (j + 1)), List.mem_cons_of_mem _ (List.mem_map.mpr ⟨j, List.mem_range.mpr (by omega), rfl⟩), rfl, fun f => Iff.rfl⟩

/-- the versions of an input file are among the inputs of the tagged list -/
theorem mem_inputs_tagTree {t : Tree} {c : Core} {i : Nat} {f : File} (hf : f ∈ level t i) (hi : i ≤ c.upper)
    (hid : f.id ∈ c.inputs) : f.vers ∈ inputs (tagTree t c) := by
  obtain ⟨l, hl, _, hmem⟩ := numLevels_has t hi
  unfold inputs tagTree tagIds
  apply List.mem_map.mpr
  refine ⟨(true, f.vers), List.mem_filter.mpr ⟨?_, rfl⟩, rfl⟩
  apply List.mem_flatten.mpr
  refine ⟨_, List.mem_map.mpr ⟨l, hl, rfl⟩, ?_⟩
  apply List.mem_map.mpr
  exact ⟨f, (hmem f).mpr hf, by simp [hid]⟩

theorem kept_mems {K : Type} (mems : List (List (Ver K))) (pre : Tagged K) :
    kept (mems.map (fun m => (false, m)) ++ pre) = mems ++ kept pre := by
  rw [kept_append]
  congr 1
  induction mems with
  | nil => rfl
  | cons m ms ih =>
    simp [kept] at ih ⊢
    exact ih

theorem inputs_mems {K : Type} (mems : List (List (Ver K))) (pre : Tagged K) :
    inputs (mems.map (fun m => (false, m)) ++ pre) = inputs pre := by
  simp [inputs, List.filter_append]

theorem snd_mems {K : Type} (mems : List (List (Ver K))) (pre : Tagged K) :
    (mems.map (fun m => (false, m)) ++ pre).map (·.2) = mems ++ pre.map (·.2) := by
  rw [List.map_append]
  congr 1
  induction mems with
  | nil => rfl
  | cons m ms ih => simpa using ih

/-- **I2 is preserved by `apply_compaction_inner`** (`mems`: whatever is searched before the tree —
    the memtables): `apply_components` puts the real successor into the shape of the step theorem
    `compaction_preserves` up to the place of the outputs inside the output level, and the kept
    files right of the outputs share no key with them. -/
theorem apply_preserves_newer_above {t : Tree} {c : Core} {outs : List File} (hinv : Inv t) (hc : Chosen t c)
    (ho : OutsOk t c outs) (mems : List (List (Ver Nat)))
    (hna : NewerAbove (mems ++ treeComps t))
    (hsub : ∀ o ∈ outs, ∀ e ∈ o.vers, ∃ i f, f ∈ level t i ∧ f.id ∈ c.inputs ∧ e ∈ f.vers)
    (hnew : NewerAbove (comps outs)) :
    NewerAbove (mems ++ treeComps (applyCompaction t c outs)) := by
  have hlv := hc.levels
  have hs := hinv.sorted_level (i := c.upper) (by omega)
  have hw := hinv.wf_level c.upper
  rw [treeComps_split t c hc.upper_lt, ← List.append_assoc, ← snd_mems] at hna
  have hstep := compaction_preserves _ (belowComps t c.upper) (comps outs) hna
    (closed_under_memtables mems _ hc.closed)
    (by
      intro e he
      rw [inputs_mems]
      obtain ⟨vs, hvs, hev⟩ := List.mem_flatten.mp he
      obtain ⟨o, ho', rfl⟩ := List.mem_map.mp hvs
      obtain ⟨i, f, hf, hid, hef⟩ := hsub o ho' e hev
      exact List.mem_flatten.mpr ⟨f.vers, mem_inputs_tagTree hf (hc.input_at hinv hf hid).2.1 hid, hef⟩)
    hnew
  rw [kept_mems, kept_tagTree hinv hc] at hstep
  have hswap := swap_disjoint_blocks (mems ++ aboveComps t c ++ beforeComps t c) (afterComps t c) (comps outs)
    (belowComps t c.upper) (by simpa only [List.append_assoc] using hstep)
    (by
      intro x hx y hy a ha b hb hk
      unfold afterComps comps at hx
      obtain ⟨g, hg, rfl⟩ := List.mem_map.mp hx
      obtain ⟨o, ho', rfl⟩ := List.mem_map.mp hy
      obtain ⟨g1, g2⟩ := (mem_drop_ub hs hw c.last).mp hg
      have h5 : g.first ≤ a.1 := ((hinv.wfT g1).2 a ha).1
      have := ((ho.wf o ho').2 b hb).2
      have := (ho.inside o ho').2
      omega)
  rw [apply_components hinv hc outs]
  simpa only [List.append_assoc] using hswap

/-! ## `ingest` -/

theorem level_ingest_zero (l0 : List File) (rest : Tree) (f : File) : level (ingest (l0 :: rest) f) 0 = l0 ++ [f] := rfl

theorem level_ingest_succ (l0 : List File) (rest : Tree) (f : File) (i : Nat) :
    level (ingest (l0 :: rest) f) (i + 1) = level (l0 :: rest) (i + 1) := rfl

/-- `Version::ingest` keeps the tree invariant (a well-formed file with a fresh id) -/
theorem ingest_preserves_inv {t : Tree} (hinv : Inv t) {f : File}
    (hwf : f.first ≤ f.last ∧ ∀ v ∈ f.vers, f.first ≤ v.1 ∧ v.1 ≤ f.last)
    (hfresh : ∀ l g, g ∈ level t l → g.id ≠ f.id) : Inv (ingest t f) := by
  cases t with
  | nil => exact hinv
  | cons l0 rest =>
    refine ⟨?_, hinv.sorted, ?_⟩
    · intro l hl g hg
      rcases List.mem_cons.mp hl with rfl | hl'
      · rcases List.mem_append.mp hg with hg | hg
        · exact hinv.wf l0 List.mem_cons_self g hg
        · simp only [List.mem_singleton] at hg; subst hg; exact hwf
      · exact hinv.wf l (List.mem_cons_of_mem _ hl') g hg
    · have hids := hinv.ids
      show (((l0 ++ [f]) :: rest).flatten.map (·.id)).Nodup
      simp only [List.flatten_cons, List.map_append, List.map_cons, List.append_assoc,
        List.singleton_append] at hids ⊢
      refine (List.perm_middle.nodup_iff).mpr (List.nodup_cons.mpr ⟨?_, hids⟩)
      intro hm
      rcases List.mem_append.mp hm with hm | hm
      · obtain ⟨g, hg, he⟩ := List.mem_map.mp hm
        exact hfresh 0 g hg he
      · obtain ⟨g, hg, he⟩ := List.mem_map.mp hm
        obtain ⟨l, hl, hgl⟩ := List.mem_flatten.mp hg
        obtain ⟨j, hj, rfl⟩ := List.getElem_of_mem hl
        exact hfresh (j + 1) g (by
          unfold level
          simp only [List.getD_eq_getElem?_getD, List.getElem?_cons_succ, List.getElem?_eq_getElem hj]
          exact hgl) he

/-- the search order after `ingest`: the new file first, if its newest timestamp is the biggest of
    level 0 -/
theorem treeComps_ingest (l0 : List File) (rest : Tree) (f : File) (h : ∀ g ∈ l0, g.bts < f.bts) :
    treeComps (ingest (l0 :: rest) f) = f.vers :: treeComps (l0 :: rest) := by
  unfold treeComps
  rw [level_ingest_zero, l0Search_ingest l0 f h]
  rfl

/-! ## the tree invariant and I2 as an inductive invariant -/

/-- one step of the tree -/
inductive Step (n : Num) (o : Opts) : Tree → Tree → Prop where
  /-- `Version::ingest` of a well-formed file with a fresh id whose versions are newer than what
      the tree holds for their keys and whose newest timestamp exceeds those of level 0 -/
  | ingest (t : Tree) (f : File)
      (hwf : f.first ≤ f.last ∧ ∀ v ∈ f.vers, f.first ≤ v.1 ∧ v.1 ≤ f.last)
      (hfresh : ∀ l g, g ∈ level t l → g.id ≠ f.id)
      (hbts : ∀ g ∈ level t 0, g.bts < f.bts)
      (hnew : ∀ a ∈ f.vers, ∀ b ∈ (treeComps t).flatten, a.1 = b.1 → b.2 < a.2) :
      Step n o t (Blue.NextCompaction.ingest t f)
  /-- `apply_compaction_inner` of an answer of the selector (any compactions in flight) with outputs
      that are a well-formed sorted cut of (a subset of) the inputs' versions -/
  | compact (t : Tree) (og : List Core) (c : Core) (outs : List File)
      (hsel : nextCompaction n o t og = some c)
      (hout : OutsOk t c outs)
      (hsub : ∀ x ∈ outs, ∀ e ∈ x.vers, ∃ i f, f ∈ level t i ∧ f.id ∈ c.inputs ∧ e ∈ f.vers)
      (hrun : NewerAbove (comps outs)) :
      Step n o t (applyCompaction t c outs)
  /-- a moving compaction: an answer of the selector with exactly one input, the input file itself
      being the output (`perform_compaction` → `apply_moving_compaction`) -/
  | move (t : Tree) (og : List Core) (c : Core) (l : Nat) (f : File)
      (hsel : nextCompaction n o t og = some c)
      (hf : f ∈ level t l) (hone : c.inputs = [f.id]) :
      Step n o t (applyTrivialMove t c f)

/-- the trees reachable from the version with `k` empty levels -/
inductive Reachable (n : Num) (o : Opts) (k : Nat) : Tree → Prop where
  | init : Reachable n o k (emptyTree k)
  | step {t t' : Tree} : Reachable n o k t → Step n o t t' → Reachable n o k t'

theorem level_emptyTree (k i : Nat) : level (emptyTree k) i = [] := by
  unfold level emptyTree
  rw [List.getD_eq_getElem?_getD, List.getElem?_replicate]
  split <;> rfl

theorem emptyTree_inv (k : Nat) : Inv (emptyTree k) := by
  apply inv_of_levels <;> intros <;> simp_all [level_emptyTree, SortedLevel]

theorem treeComps_emptyTree (k : Nat) : treeComps (emptyTree k) = [] := by
  unfold treeComps deepComps
  simp [level_emptyTree, comps, l0Search]

/-- the one output of a moving compaction meets `OutsOk` and the merge conditions by itself -/
theorem move_outs_ok {t : Tree} {c : Core} (hinv : Inv t) (hc : Chosen t c) {l : Nat} {f : File}
    (hf : f ∈ level t l) (hone : c.inputs = [f.id]) :
    OutsOk t c [f] ∧ (∀ x ∈ [f], ∀ e ∈ x.vers, ∃ i g, g ∈ level t i ∧ g.id ∈ c.inputs ∧ e ∈ g.vers)
      ∧ NewerAbove (comps [f]) := by
  have hid : f.id ∈ c.inputs := by rw [hone]; exact List.mem_singleton.mpr rfl
  have hat := hc.input_at hinv hf hid
  refine ⟨⟨?_, ?_, ?_, ?_, ?_⟩, ?_, ?_⟩
  · intro x hx; simp only [List.mem_singleton] at hx; subst hx; exact hinv.wfT hf
  · exact List.pairwise_singleton _ _
  · intro x hx; simp only [List.mem_singleton] at hx; subst hx; exact ⟨hat.2.2.1, hat.2.2.2⟩
  · simp
  · intro x hx l' g _ he
    simp only [List.mem_singleton] at hx; subst hx
    rw [hone, he]; exact List.mem_singleton.mpr rfl
  · intro x hx e he
    simp only [List.mem_singleton] at hx; subst hx
    exact ⟨l, x, hf, hid, he⟩
  · rw [newerAbove_iff_pairwise]
    exact List.pairwise_singleton _ _

theorem step_preserves {n : Num} {o : Opts} {t t' : Tree} (hs : Step n o t t')
    (hinv : Inv t) (hna : NewerAbove (treeComps t)) : Inv t' ∧ NewerAbove (treeComps t') := by
  cases hs with
  | ingest f hwf hfresh hbts hnew =>
    refine ⟨ingest_preserves_inv hinv hwf hfresh, ?_⟩
    cases t with
    | nil => exact hna
    | cons l0 rest =>
      rw [treeComps_ingest l0 rest f hbts]
      exact ingest_preserves _ _ hna hnew
  | compact og c outs hsel hout hsub hrun =>
    have hc := nextCompaction_chosen n o t og hinv hsel
    exact ⟨apply_preserves_inv hinv hc hout, by
      simpa using apply_preserves_newer_above hinv hc hout [] (by simpa using hna) hsub hrun⟩
  | move og c l f hsel hf hone =>
    have hc := nextCompaction_chosen n o t og hinv hsel
    obtain ⟨h1, h2, h3⟩ := move_outs_ok hinv hc hf hone
    unfold applyTrivialMove
    exact ⟨apply_preserves_inv hinv hc h1, by
      simpa using apply_preserves_newer_above hinv hc h1 [] (by simpa using hna) h2 h3⟩

/-- **the tree invariant is inductive**: starting from the empty version, after ANY sequence of
    ingests, compactions chosen by the selector (applied to the tree they were chosen on, with
    outputs that are a well-formed sorted cut of the inputs) and moving compactions, the tree
    satisfies `Inv` (files well-formed, I1: levels below level 0 sorted by key with at most touching
    ranges, ids distinct) and I2 ("newer above" in search order) -/
theorem tree_invariant_inductive {n : Num} {o : Opts} {k : Nat} {t : Tree} (h : Reachable n o k t) :
    Inv t ∧ NewerAbove (treeComps t) := by
  induction h with
  | init => exact ⟨emptyTree_inv k, by rw [treeComps_emptyTree]; trivial⟩
  | step _ hs ih => exact step_preserves hs ih.1 ih.2

/-! ## `Blue.Kvs.invB` (the check on dumped store states) and `Inv` (what the selector relies on),
    on the same tree -/

def toK (f : File) : Blue.Kvs.KFile := ⟨f.first, f.last, f.bts, f.vers⟩

/-- the store state of `Blue.Kvs` that holds the tree `t` under the given memtables -/
def toKState (mem : List (Ver Nat)) (imm : Option (List (Ver Nat))) (t : Tree) : Blue.Kvs.KState :=
  ⟨mem, imm, (level t 0).map toK, t.tail.map (fun l => l.map toK)⟩

theorem tail_levels (t : Tree) : (List.range (t.length - 1)).map (fun j => level t (j + 1)) = t.tail := by
  apply List.ext_getElem
  · simp
  · intro i h1 h2
    simp only [List.getElem_map, List.getElem_range]
    have : t[i + 1]? = some (t.tail[i]) := by
      rw [← List.getElem?_tail, List.getElem?_eq_getElem h2]
    exact level_of_get this

/-- **the search orders agree**: `Blue.Kvs.allComps` of the store state is the memtables followed by
    `treeComps` of the tree -/
theorem allComps_toKState (mem : List (Ver Nat)) (imm : Option (List (Ver Nat))) (t : Tree) :
    Blue.Kvs.allComps (toKState mem imm t) = Blue.Kvs.memComps (toKState mem imm t) ++ treeComps t := by
  unfold Blue.Kvs.allComps treeComps
  congr 2
  · unfold Blue.Kvs.l0Comps Blue.Kvs.l0Order l0Search comps toKState
    dsimp only
    rw [← List.map_mergeSort (f := toK) (r := fun a b => decide (a.bts ≤ b.bts)) (fun _ _ _ _ => rfl),
      ← List.map_reverse, List.map_map]
    rfl
  · unfold Blue.Kvs.tLevels toKState deepComps
    dsimp only
    rw [← tail_levels t]
    simp [List.flatMap, List.map_map, comps]
    congr 1
    apply List.map_congr_left
    intro j _
    simp [Function.comp, Blue.Kvs.toT, toK]

theorem newerB_complete {c d : List (Ver Nat)} (h : ∀ a ∈ c, ∀ b ∈ d, a.1 = b.1 → b.2 < a.2) :
    Blue.Kvs.newerB c d = true := by
  unfold Blue.Kvs.newerB
  simp only [List.all_eq_true, Bool.or_eq_true, Bool.not_eq_true', beq_eq_false_iff_ne, decide_eq_true_eq]
  intro a ha b hb
  by_cases e : a.1 = b.1
  · exact Or.inr (h a ha b hb e)
  · exact Or.inl e

theorem newerAboveB_complete : ∀ (cs : List (List (Ver Nat))), NewerAbove cs → Blue.Kvs.newerAboveB cs = true
  | [], _ => rfl
  | c :: cs, h => by
    unfold Blue.Kvs.newerAboveB
    rw [Bool.and_eq_true, List.all_eq_true]
    exact ⟨fun d hd => newerB_complete (fun a ha b hb => h.1 a ha d hd b hb), newerAboveB_complete cs h.2⟩

theorem kvs_sortedB_iff : ∀ (l : List File), Blue.Kvs.sortedB (l.map (Blue.Kvs.toT ∘ toK)) = true ↔ SortedLevel l
  | [] => by simp [Blue.Kvs.sortedB, SortedLevel]
  | a :: r => by
    unfold SortedLevel
    rw [List.map_cons, Blue.Kvs.sortedB, Bool.and_eq_true, kvs_sortedB_iff r, List.pairwise_cons]
    simp [Blue.Kvs.toT, toK, SortedLevel]
    intro _
    constructor
    · intro h x hx; exact of_decide_eq_true (h x hx)
    · intro h x hx; exact decide_eq_true (h x hx)

theorem kvs_wfB_iff (f : File) : Blue.Kvs.wfB (Blue.Kvs.toT (toK f)) = true ↔
    (f.first ≤ f.last ∧ ∀ v ∈ f.vers, f.first ≤ v.1 ∧ v.1 ≤ f.last) := by
  unfold Blue.Kvs.wfB
  simp [Blue.Kvs.toT, toK]
  constructor
  · rintro ⟨h1, h2⟩
    exact ⟨of_decide_eq_true h1, fun a b hab => ⟨of_decide_eq_true (h2 a b hab).1, of_decide_eq_true (h2 a b hab).2⟩⟩
  · rintro ⟨h1, h2⟩
    exact ⟨decide_eq_true h1, fun a b hab => ⟨decide_eq_true (h2 a b hab).1, decide_eq_true (h2 a b hab).2⟩⟩

/-- **gap (c) closed — the two invariants on the same tree**.  `Blue.Kvs.invB` is I2 over the
    whole search order (memtables included) ∧ for the levels BELOW level 0: sorted (I1) and files
    well-formed.  `Inv` is files well-formed at ALL levels ∧ I1 ∧ ids distinct, and says nothing
    about versions across files.  Hence: `Kvs.invB` plus the two conjuncts it lacks (level-0 files
    well-formed, ids distinct) is exactly `Inv` plus the one conjunct `Inv` lacks (I2). -/
theorem inv_bridge (mem : List (Ver Nat)) (imm : Option (List (Ver Nat))) (t : Tree) :
    (Blue.Kvs.invB (toKState mem imm t) = true
      ∧ (∀ f ∈ level t 0, f.first ≤ f.last ∧ ∀ v ∈ f.vers, f.first ≤ v.1 ∧ v.1 ≤ f.last)
      ∧ (t.flatten.map (·.id)).Nodup)
    ↔ (Inv t ∧ NewerAbove (Blue.Kvs.memComps (toKState mem imm t) ++ treeComps t)) := by
  rw [← allComps_toKState]
  unfold Blue.Kvs.invB
  rw [Bool.and_eq_true]
  have hlev : (Blue.Kvs.tLevels (toKState mem imm t)).all (fun l => Blue.Kvs.sortedB l && l.all Blue.Kvs.wfB) = true ↔
      ∀ l ∈ t.tail, SortedLevel l ∧ ∀ f ∈ l, f.first ≤ f.last ∧ ∀ v ∈ f.vers, f.first ≤ v.1 ∧ v.1 ≤ f.last := by
    unfold Blue.Kvs.tLevels toKState
    dsimp only
    rw [List.map_map, List.all_map, List.all_eq_true]
    apply forall_congr'
    intro l
    apply imp_congr_right
    intro _
    simp only [Function.comp, List.map_map, Bool.and_eq_true, List.all_map, List.all_eq_true]
    rw [kvs_sortedB_iff]
    apply and_congr_right
    intro _
    apply forall_congr'
    intro f
    apply imp_congr_right
    intro _
    exact kvs_wfB_iff f
  rw [hlev]
  constructor
  · rintro ⟨⟨hna, hl⟩, h0, hids⟩
    refine ⟨⟨?_, fun l hl' => (hl l hl').1, hids⟩, Blue.Kvs.newerAboveB_sound _ hna⟩
    intro l hl' f hf
    cases t with
    | nil => cases hl'
    | cons l0 rest =>
      rcases List.mem_cons.mp hl' with rfl | hr
      · exact h0 f hf
      · exact (hl l hr).2 f hf
  · rintro ⟨hinv, hna⟩
    refine ⟨⟨newerAboveB_complete _ hna, fun l hl' => ⟨hinv.sorted l hl', fun f hf => ?_⟩⟩, ?_, hinv.ids⟩
    · exact hinv.wf l (List.mem_of_mem_tail hl') f hf
    · intro f hf
      exact hinv.wfT hf

/-! ## decidable forms of the hypotheses on the outputs (for concrete instances) -/

theorem mem_flatten_level {t : Tree} {f : File} : f ∈ t.flatten ↔ ∃ i, f ∈ level t i := by
  constructor
  · intro h
    obtain ⟨l, hl, hfl⟩ := List.mem_flatten.mp h
    obtain ⟨i, hi, rfl⟩ := List.getElem_of_mem hl
    exact ⟨i, by rw [level_of_get (List.getElem?_eq_getElem hi)]; exact hfl⟩
  · rintro ⟨i, h⟩
    obtain ⟨l, hl, hfl⟩ := mem_level h
    exact List.mem_flatten.mpr ⟨l, List.mem_of_getElem? hl, hfl⟩

theorem outsOk_of_flatten {t : Tree} {c : Core} {outs : List File}
    (wf : ∀ o ∈ outs, o.first ≤ o.last ∧ ∀ v ∈ o.vers, o.first ≤ v.1 ∧ v.1 ≤ o.last)
    (sorted : outs.Pairwise (fun a b => a.last ≤ b.first))
    (inside : ∀ o ∈ outs, c.first ≤ o.first ∧ o.last ≤ c.last)
    (ids : nodupB (outs.map (·.id)) = true)
    (fresh : ∀ o ∈ outs, ∀ f ∈ t.flatten, f.id = o.id → f.id ∈ c.inputs) : OutsOk t c outs :=
  ⟨wf, sorted, inside, nodupB_sound _ ids, fun o ho _ f hf he => fresh o ho f (mem_flatten_level.mpr ⟨_, hf⟩) he⟩

theorem sub_of_flatten {t : Tree} {c : Core} {outs : List File}
    (h : ∀ o ∈ outs, ∀ e ∈ o.vers, ∃ f ∈ t.flatten, f.id ∈ c.inputs ∧ e ∈ f.vers) :
    ∀ o ∈ outs, ∀ e ∈ o.vers, ∃ i f, f ∈ level t i ∧ f.id ∈ c.inputs ∧ e ∈ f.vers := by
  intro o ho e he
  obtain ⟨f, hf, h1, h2⟩ := h o ho e he
  obtain ⟨i, hi⟩ := mem_flatten_level.mp hf
  exact ⟨i, f, hi, h1, h2⟩

end Blue.NextCompaction

#print axioms Blue.NextCompaction.apply_components
#print axioms Blue.NextCompaction.apply_preserves_inv
#print axioms Blue.NextCompaction.apply_preserves_newer_above
#print axioms Blue.NextCompaction.nextCompaction_chosen
#print axioms Blue.NextCompaction.inv_bridge
#print axioms Blue.NextCompaction.tree_invariant_inductive
