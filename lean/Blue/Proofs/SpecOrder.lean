import Blue.Proofs.Stack
/-! Instantiating the abstract hypotheses of the cursor theorems for versioned entries
    `(key, timestamp)` ordered by key ascending, then timestamp descending (`KeyRef::cmp`). -/
namespace Blue.Spec
open Blue.Cursor Blue.Cursor.Filtered

variable {K : Type} [DecidableEq K]

/-- an entry is identified by its key and timestamp; the payload is a function of the identity -/
abbrev Ver (K : Type) := K × Nat

/-- `KeyRef::cmp == Less`: key ascending, then timestamp descending -/
def vlt (klt : K → K → Bool) (a b : Ver K) : Bool :=
  klt a.1 b.1 || (decide (a.1 = b.1) && decide (b.2 < a.2))

theorem vlt_strictTotal {klt : K → K → Bool} (st : StrictTotal klt) : StrictTotal (vlt klt) where
  irrefl := by
    intro a; unfold vlt; simp [st.irrefl]
  trans := by
    intro a b c h1 h2
    unfold vlt at *
    simp only [Bool.or_eq_true, Bool.and_eq_true, decide_eq_true_eq] at *
    rcases h1 with h1 | ⟨h1, h1'⟩
    · rcases h2 with h2 | ⟨h2, _⟩
      · exact Or.inl (st.trans _ _ _ h1 h2)
      · rw [← h2]; exact Or.inl h1
    · rcases h2 with h2 | ⟨h2, h2'⟩
      · rw [h1]; exact Or.inl h2
      · exact Or.inr ⟨h1.trans h2, by omega⟩
  total := by
    intro a b hab
    unfold vlt
    simp only [Bool.or_eq_true, Bool.and_eq_true, decide_eq_true_eq]
    by_cases hk : a.1 = b.1
    · have hts : a.2 ≠ b.2 := by
        intro h; apply hab; exact Prod.ext hk h
      rcases Nat.lt_or_gt_of_ne hts with h | h
      · exact Or.inr (Or.inr ⟨hk.symm, h⟩)
      · exact Or.inl (Or.inr ⟨hk, h⟩)
    · rcases st.total _ _ hk with h | h
      · exact Or.inl (Or.inl h)
      · exact Or.inr (Or.inl h)

/-- a sorted table of versions -/
def Sorted (klt : K → K → Bool) (M : List (Ver K)) : Prop := M.Pairwise (fun a b => vlt klt a b = true)

section
variable {klt : K → K → Bool} (st : StrictTotal klt) {M : List (Ver K)} (hs : Sorted klt M)
include st hs

theorem sorted_get {i j : Nat} {a b : Ver K} (hij : i < j) (ha : M[i]? = some a) (hb : M[j]? = some b) :
    vlt klt a b = true := by
  obtain ⟨hi, rfl⟩ := List.getElem?_eq_some_iff.mp ha
  obtain ⟨hj, rfl⟩ := List.getElem?_eq_some_iff.mp hb
  exact List.pairwise_iff_getElem.mp hs i j hi hj hij

/-- keys never decrease along the table -/
theorem keys_mono {i j : Nat} {a b : Ver K} (hij : i ≤ j) (ha : M[i]? = some a) (hb : M[j]? = some b) :
    klt b.1 a.1 = false := by
  rcases Nat.lt_or_ge i j with h | h
  · have := sorted_get st hs h ha hb
    unfold vlt at this
    simp only [Bool.or_eq_true, Bool.and_eq_true, decide_eq_true_eq] at this
    rcases this with h1 | ⟨h1, _⟩
    · exact st.asymm _ _ h1
    · rw [h1]; exact st.irrefl _
  · have : i = j := by omega
    subst this; rw [ha] at hb; cases hb; exact st.irrefl _

/-- inside one key timestamps strictly decrease -/
theorem ts_desc {i j : Nat} {a b : Ver K} (hij : i < j) (ha : M[i]? = some a) (hb : M[j]? = some b)
    (hk : a.1 = b.1) : b.2 < a.2 := by
  have := sorted_get st hs hij ha hb
  unfold vlt at this
  simp only [Bool.or_eq_true, Bool.and_eq_true, decide_eq_true_eq] at this
  rcases this with h1 | ⟨_, h2⟩
  · rw [hk, st.irrefl] at h1; cases h1
  · exact h2

/-- a key's versions are contiguous -/
theorem key_contiguous {i j l : Nat} {a b c : Ver K} (hij : i ≤ j) (hjl : j ≤ l)
    (ha : M[i]? = some a) (hb : M[j]? = some b) (hc : M[l]? = some c) (hk : a.1 = c.1) : b.1 = a.1 := by
  have h1 := keys_mono st hs hij ha hb   -- ¬ b < a
  have h2 := keys_mono st hs hjl hb hc   -- ¬ c < b
  rw [← hk] at h2
  exact st.eq_of_not_lt _ _ h1 h2

end

/-- the read configuration of the pruning cursor: versions not newer than `t`; tombstones by payload -/
def pcfg (t : Nat) (tomb : Ver K → Bool) : PruneCfg (Ver K) K where
  key := Prod.fst
  tsOk := fun e => decide (e.2 ≤ t)
  tomb := tomb

theorem grouped_of_sorted {klt : K → K → Bool} (st : StrictTotal klt) {M : List (Ver K)} (hs : Sorted klt M)
    (t : Nat) (tomb : Ver K → Bool) : Grouped (pcfg t tomb) M where
  contiguous := by
    intro i j l ei ej el hij hjl hi hj hl hk
    exact key_contiguous st hs hij hjl hi hj hl hk
  mono := by
    intro i j ei ej hij hi hj hk hts
    simp only [pcfg, decide_eq_true_eq] at *
    rcases Nat.lt_or_ge i j with h | h
    · have := ts_desc st hs h hi hj hk; omega
    · have : i = j := by omega
      subst this; rw [hi] at hj; cases hj; exact hts

/-- what a read at `t` sees of the table: per key the newest version not newer than `t`, unless
    its payload is a tombstone -/
def isLive (M : List (Ver K)) (t : Nat) (tomb : Ver K → Bool) (e : Ver K) : Bool :=
  decide (e.2 ≤ t) && M.all (fun e' => !(decide (e'.1 = e.1) && decide (e'.2 ≤ t)) || decide (e'.2 ≤ e.2))
    && !tomb e

theorem isCand_iff {klt : K → K → Bool} (st : StrictTotal klt) {M : List (Ver K)} (hs : Sorted klt M)
    (t : Nat) (tomb : Ver K → Bool) (i : Nat) (e : Ver K) (he : M[i]? = some e) :
    isCand (pcfg t tomb) M i = true ↔
      (e.2 ≤ t ∧ ∀ e' ∈ M, e'.1 = e.1 → e'.2 ≤ t → e'.2 ≤ e.2) := by
  constructor
  · intro hc
    unfold isCand at hc
    rw [he] at hc
    simp only [Bool.and_eq_true] at hc
    obtain ⟨hts, hprev⟩ := hc
    have hts' : e.2 ≤ t := by simpa [pcfg] using hts
    refine ⟨hts', ?_⟩
    intro e' hmem hk ht'
    -- suppose e' is newer than e: it sits before e, and then so does a visible version right before e
    apply Nat.le_of_not_lt
    intro hlt
    obtain ⟨j, hj, rfl⟩ := List.getElem_of_mem hmem
    have hje : M[j]? = some M[j] := by simp [hj]
    have hji : j < i := by
      apply Nat.lt_of_not_le
      intro hij
      rcases Nat.lt_or_ge i j with h | h
      · have := ts_desc st hs h he hje hk.symm; omega
      · have : i = j := by omega
        subst this; rw [he] at hje; cases hje; omega
    have hi0 : i ≠ 0 := by omega
    rw [if_neg hi0] at hprev
    have hil : i - 1 < M.length := by
      have := (List.getElem?_eq_some_iff.mp he).1; omega
    have hpe : M[i-1]? = some M[i-1] := by simp [hil]
    rw [hpe] at hprev
    simp only [Bool.or_eq_true, bne_iff_ne, ne_eq, Bool.not_eq_true'] at hprev
    have hkp : M[i-1].1 = e.1 := by
      have := key_contiguous st hs (show j ≤ i - 1 by omega) (show i - 1 ≤ i by omega) hje hpe he hk
      rw [this, hk]
    rcases hprev with h | h
    · exact h (by simpa [pcfg] using hkp)
    · -- the predecessor is visible too: its timestamp is at most that of `e'`
      have hle : M[i-1].2 ≤ M[j].2 := by
        rcases Nat.lt_or_ge j (i-1) with h' | h'
        · have := ts_desc st hs h' hje hpe (by rw [hkp, hk]); omega
        · have : j = i - 1 := by omega
          subst this; exact Nat.le_refl _
      have : decide (M[i-1].2 ≤ t) = true := by simp; omega
      simp only [pcfg] at h
      rw [this] at h; cases h
  · intro ⟨hts, hmax⟩
    unfold isCand
    rw [he]
    simp only [Bool.and_eq_true]
    refine ⟨by simpa [pcfg] using hts, ?_⟩
    by_cases hi0 : i = 0
    · rw [if_pos hi0]
    · rw [if_neg hi0]
      have hil : i - 1 < M.length := by
        have := (List.getElem?_eq_some_iff.mp he).1; omega
      have hpe : M[i-1]? = some M[i-1] := by simp [hil]
      rw [hpe]
      simp only [Bool.or_eq_true, bne_iff_ne, ne_eq, Bool.not_eq_true']
      by_cases hk : M[i-1].1 = e.1
      · right
        have hdesc := ts_desc st hs (show i - 1 < i by omega) hpe he hk
        simp only [pcfg]
        apply decide_eq_false
        intro hle
        have := hmax M[i-1] (List.getElem_mem _) hk hle
        omega
      · left; simpa [pcfg] using hk

/-- generic: selecting by index predicate and reading back is filtering -/
theorem select_eq_filter {α : Type} (p : α → Bool) :
    ∀ (M : List α) (q : Nat → Bool), (∀ (i : Nat) (e : α), M[i]? = some e → q i = p e) →
      ((List.range M.length).filter q).filterMap (fun i => M[i]?) = M.filter p := by
  intro M
  induction M with
  | nil => intros; rfl
  | cons a t ih =>
    intro q hq
    have h0 : q 0 = p a := hq 0 a rfl
    have ht := ih (fun i => q (i + 1)) (fun i e he => hq (i + 1) e (by simpa using he))
    rw [List.length_cons, List.range_succ_eq_map, List.filter_cons, List.filter_map]
    have hmap : List.filterMap (fun i => (a :: t)[i]?) (List.map Nat.succ (List.filter (q ∘ Nat.succ) (List.range t.length)))
        = List.filterMap (fun i => t[i]?) (List.filter (fun i => q (i + 1)) (List.range t.length)) := by
      rw [List.filterMap_map]
      rfl
    cases hp : p a with
    | true =>
      rw [h0, hp]
      simp only [if_true, List.filterMap_cons, List.getElem?_cons_zero, List.filter_cons, hp]
      rw [hmap, ht]
    | false =>
      rw [h0, hp]
      simp only [Bool.false_eq_true, if_false, List.filter_cons, hp]
      rw [hmap, ht]

/-- **C03, list level**: what the pruning cursor shows is exactly the live versions, in order -/
theorem pruned_eq_live {klt : K → K → Bool} (st : StrictTotal klt) {M : List (Ver K)} (hs : Sorted klt M)
    (t : Nat) (tomb : Ver K → Bool) :
    pruned (pcfg t tomb) M = M.filter (isLive M t tomb) := by
  unfold pruned P S
  apply select_eq_filter
  intro i e he
  unfold shownP
  rw [he]
  simp only
  unfold isLive
  have hiff := isCand_iff st hs t tomb i e he
  have hall : (M.all (fun e' => !(decide (e'.1 = e.1) && decide (e'.2 ≤ t)) || decide (e'.2 ≤ e.2)) = true)
      ↔ ∀ e' ∈ M, e'.1 = e.1 → e'.2 ≤ t → e'.2 ≤ e.2 := by
    simp only [List.all_eq_true, Bool.or_eq_true, Bool.not_eq_true', Bool.and_eq_false_iff,
      decide_eq_false_iff_not, decide_eq_true_eq]
    constructor
    · intro h e' hm hk ht
      rcases h e' hm with (h1 | h1) | h1
      · exact absurd hk h1
      · exact absurd ht h1
      · exact h1
    · intro h e' hm
      by_cases hk : e'.1 = e.1
      · by_cases ht : e'.2 ≤ t
        · exact Or.inr (h e' hm hk ht)
        · exact Or.inl (Or.inr ht)
      · exact Or.inl (Or.inl hk)
  have htomb : (pcfg t tomb).tomb e = tomb e := rfl
  rw [htomb]
  cases hc : isCand (pcfg t tomb) M i with
  | true =>
    obtain ⟨h1, h2⟩ := hiff.mp hc
    have : decide (e.2 ≤ t) = true := by simpa using h1
    rw [this, hall.mpr h2]; simp
  | false =>
    simp only [Bool.false_and]
    symm
    cases hl : (decide (e.2 ≤ t) && M.all (fun e' => !(decide (e'.1 = e.1) && decide (e'.2 ≤ t)) || decide (e'.2 ≤ e.2))) with
    | false => simp
    | true =>
      exfalso
      simp only [Bool.and_eq_true, decide_eq_true_eq] at hl
      have := hiff.mpr ⟨hl.1, hall.mp hl.2⟩
      rw [hc] at this; cases this

end Blue.Spec

#print axioms Blue.Spec.pruned_eq_live
