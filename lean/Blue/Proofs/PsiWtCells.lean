import Blue.Proofs.PsiWtBase
import Blue.Proofs.Sampled
import Blue.Proofs.SigmaBuckets
import Blue.Proofs.BitVecLaws
/-! The cells of `WaveletTreePsi`: what `y_key.rank` / `y_key.select` / `y_value` answer on the
    structure `ofTable k table`, and where the cells of one symbol lie. -/
namespace Blue.PsiWt
open Blue.BitVec Blue.Sampled

/-! ### running totals of the cell counts -/

/-- the ranks covered by the first `k` cells -/
def sumTake (flat : List (Nat × Nat)) (k : Nat) : Nat := ((flat.take k).map (·.2)).sum

theorem sumTake_zero (flat : List (Nat × Nat)) : sumTake flat 0 = 0 := by simp [sumTake]

theorem sumTake_nil (k : Nat) : sumTake [] k = 0 := by simp [sumTake]

theorem sumTake_cons_succ (x : Nat × Nat) (t : List (Nat × Nat)) (k : Nat) :
    sumTake (x :: t) (k + 1) = x.2 + sumTake t k := by
  simp [sumTake]

theorem sumTake_succ (flat : List (Nat × Nat)) (k : Nat) (h : k < flat.length) :
    sumTake flat (k + 1) = sumTake flat k + flat[k].2 := by
  unfold sumTake
  rw [List.take_succ_eq_append_getElem h, List.map_append, List.sum_append]
  simp

theorem sumTake_all (flat : List (Nat × Nat)) (k : Nat) (h : flat.length ≤ k) :
    sumTake flat k = (flat.map (·.2)).sum := by
  unfold sumTake; rw [List.take_of_length_le h]

theorem sumTake_append_left (a b : List (Nat × Nat)) (k : Nat) (h : k ≤ a.length) :
    sumTake (a ++ b) k = sumTake a k := by
  unfold sumTake; rw [List.take_append_of_le_length h]

theorem sumTake_append_right (a b : List (Nat × Nat)) (k : Nat) :
    sumTake (a ++ b) (a.length + k) = (a.map (·.2)).sum + sumTake b k := by
  unfold sumTake
  rw [List.take_append, List.take_of_length_le (by omega), Nat.add_sub_cancel_left, List.map_append,
    List.sum_append]

/-- every cell is non-empty -/
def PosCells (flat : List (Nat × Nat)) : Prop := ∀ x ∈ flat, 0 < x.2

theorem sumTake_mono (flat : List (Nat × Nat)) : ∀ (a b : Nat), a ≤ b → sumTake flat a ≤ sumTake flat b := by
  intro a b hab
  induction b with
  | zero => have : a = 0 := by omega
            rw [this]; exact Nat.le_refl _
  | succ b ih =>
    rcases Nat.lt_or_ge a (b + 1) with h | h
    · have := ih (by omega)
      by_cases hb : b < flat.length
      · rw [sumTake_succ flat b hb]; omega
      · rw [sumTake_all flat (b + 1) (by omega)]
        rw [sumTake_all flat b (by omega)] at this
        exact this
    · have : a = b + 1 := by omega
      rw [this]; exact Nat.le_refl _

theorem sumTake_lt (flat : List (Nat × Nat)) (hp : PosCells flat) (a b : Nat) (hab : a < b)
    (hb : b ≤ flat.length) : sumTake flat a < sumTake flat b := by
  have h1 := sumTake_succ flat a (by omega)
  have h2 := hp flat[a] (List.getElem_mem (by omega))
  have h3 := sumTake_mono flat (a + 1) b (by omega)
  omega

/-! ### `y_key`'s positions and `y_value` -/

/-- the last rank of every cell -/
def ykeysOf (flat : List (Nat × Nat)) : List Nat :=
  (List.range flat.length).map (fun k => sumTake flat (k + 1) - 1)

theorem yArrays_nil (s : Nat) : yArrays s [] = ([s - 1], []) := rfl

theorem yArrays_cons (s : Nat) (x : Nat × Nat) (rest : List (Nat × Nat)) :
    yArrays s (x :: rest)
      = ((if s > 0 then (s - 1) :: (yArrays (s + x.2) rest).1 else (yArrays (s + x.2) rest).1),
          x.1 :: (yArrays (s + x.2) rest).2) := rfl

theorem yArrays_snd : ∀ (flat : List (Nat × Nat)) (s : Nat), (yArrays s flat).2 = flat.map (·.1)
  | [], s => rfl
  | x :: rest, s => by rw [yArrays_cons]; simp [yArrays_snd rest]

theorem yArrays_fst_pos : ∀ (flat : List (Nat × Nat)) (s : Nat), 0 < s →
    (yArrays s flat).1 = (s - 1) :: (List.range flat.length).map (fun k => s + sumTake flat (k + 1) - 1)
  | [], s, _ => by rw [yArrays_nil]; rfl
  | x :: rest, s, hs => by
    rw [yArrays_cons]
    simp only [gt_iff_lt, hs, if_true]
    rw [yArrays_fst_pos rest (s + x.2) (by omega)]
    rw [List.length_cons, List.range_succ_eq_map, List.map_cons, List.map_map]
    refine List.cons_eq_cons.mpr ⟨rfl, List.cons_eq_cons.mpr ⟨?_, ?_⟩⟩
    · rw [sumTake_cons_succ, sumTake_zero]; rfl
    · apply List.map_congr_left
      intro k _
      simp only [Function.comp, Nat.succ_eq_add_one]
      rw [sumTake_cons_succ x rest (k + 1)]
      omega

theorem yArrays_fst (flat : List (Nat × Nat)) (hne : flat ≠ []) (hp : PosCells flat) :
    (yArrays 0 flat).1 = ykeysOf flat := by
  cases flat with
  | nil => exact absurd rfl hne
  | cons x rest =>
    have hx : 0 < x.2 := hp x List.mem_cons_self
    rw [yArrays_cons]
    simp only [gt_iff_lt, Nat.lt_irrefl, if_false, Nat.zero_add]
    rw [yArrays_fst_pos rest x.2 hx]
    unfold ykeysOf
    rw [List.length_cons, List.range_succ_eq_map, List.map_cons, List.map_map]
    refine List.cons_eq_cons.mpr ⟨?_, ?_⟩
    · rw [sumTake_cons_succ, sumTake_zero]; rfl
    · apply List.map_congr_left
      intro k _
      simp only [Function.comp, Nat.succ_eq_add_one]
      rw [sumTake_cons_succ x rest (k + 1)]

theorem ykeysOf_length (flat : List (Nat × Nat)) : (ykeysOf flat).length = flat.length := by
  simp [ykeysOf]

theorem ykeysOf_getElem (flat : List (Nat × Nat)) (k : Nat) (h : k < (ykeysOf flat).length) :
    (ykeysOf flat)[k] = sumTake flat (k + 1) - 1 := by
  simp [ykeysOf]

theorem sumTake_succ_pos (flat : List (Nat × Nat)) (hp : PosCells flat) (k : Nat) (h : k < flat.length) :
    0 < sumTake flat (k + 1) := by
  have := sumTake_lt flat hp 0 (k + 1) (by omega) (by omega)
  omega

theorem ykeysOf_pairwise (flat : List (Nat × Nat)) (hp : PosCells flat) :
    (ykeysOf flat).Pairwise (· < ·) := by
  rw [List.pairwise_iff_getElem]
  intro i j hi hj hij
  rw [ykeysOf_getElem, ykeysOf_getElem]
  rw [ykeysOf_length] at hi hj
  have h1 := sumTake_lt flat hp (i + 1) (j + 1) (by omega) (by omega)
  have h2 := sumTake_succ_pos flat hp i hi
  omega

theorem ykeysOf_lt (flat : List (Nat × Nat)) (hp : PosCells flat) :
    ∀ o ∈ ykeysOf flat, o < (flat.map (·.2)).sum := by
  intro o ho
  obtain ⟨k, hk, rfl⟩ := List.getElem_of_mem ho
  rw [ykeysOf_getElem]
  rw [ykeysOf_length] at hk
  have h1 := sumTake_succ_pos flat hp k hk
  have h2 := sumTake_mono flat (k + 1) flat.length (by omega)
  rw [sumTake_all flat flat.length (Nat.le_refl _)] at h2
  omega

/-- in a list, the number of entries below `x` when exactly the first `k` are -/
theorem countP_lt_split (l : List Nat) (x k : Nat) (hk : k ≤ l.length)
    (h1 : ∀ i (h : i < l.length), i < k → l[i] < x) (h2 : ∀ i (h : i < l.length), k ≤ i → x ≤ l[i]) :
    l.countP (fun o => decide (o < x)) = k := by
  conv => lhs; rw [← List.take_append_drop k l]
  rw [List.countP_append]
  have ha : (l.take k).countP (fun o => decide (o < x)) = (l.take k).length := by
    rw [List.countP_eq_length]
    intro a ha
    obtain ⟨i, hi, rfl⟩ := List.getElem_of_mem ha
    rw [List.getElem_take]
    rw [List.length_take] at hi
    simp only [decide_eq_true_eq]
    exact h1 i (by omega) (by omega)
  have hb : (l.drop k).countP (fun o => decide (o < x)) = 0 := by
    rw [List.countP_eq_zero]
    intro a ha
    obtain ⟨i, hi, rfl⟩ := List.getElem_of_mem ha
    rw [List.getElem_drop]
    rw [List.length_drop] at hi
    simp only [decide_eq_true_eq]
    have := h2 (k + i) (by omega) (by omega)
    omega
  rw [ha, hb, List.length_take]; omega

/-- the bit array `y_key` of a list of cells -/
def ykeyOf (flat : List (Nat × Nat)) : List Bool := presentBits ((flat.map (·.2)).sum) (ykeysOf flat)

theorem ykeyOf_length (flat : List (Nat × Nat)) : (ykeyOf flat).length = (flat.map (·.2)).sum := by
  unfold ykeyOf; rw [presentBits_length]

/-- `y_key.rank(idx)` is the cell that covers rank `idx` -/
theorem rank_ykey (flat : List (Nat × Nat)) (hp : PosCells flat) (k idx : Nat) (hk : k < flat.length)
    (h1 : sumTake flat k ≤ idx) (h2 : idx < sumTake flat (k + 1)) :
    rank (ykeyOf flat) idx = some k := by
  have htot := sumTake_mono flat (k + 1) flat.length (by omega)
  rw [sumTake_all flat flat.length (Nat.le_refl _)] at htot
  rw [rank_some _ _ (by rw [ykeyOf_length]; omega)]
  unfold ykeyOf
  rw [presentBits_rank _ _ (ykeysOf_pairwise flat hp) idx (by omega)]
  congr 1
  apply countP_lt_split _ _ _ (by rw [ykeysOf_length]; omega)
  · intro i hi hik
    rw [ykeysOf_getElem]
    rw [ykeysOf_length] at hi
    have := sumTake_mono flat (i + 1) k (by omega)
    have := sumTake_succ_pos flat hp i hi
    omega
  · intro i hi hik
    rw [ykeysOf_getElem]
    have := sumTake_mono flat (k + 1) (i + 1) (by omega)
    omega

/-- `y_key.rank(len)` is the number of cells -/
theorem rank_ykey_len (flat : List (Nat × Nat)) (hp : PosCells flat) :
    rank (ykeyOf flat) ((flat.map (·.2)).sum) = some flat.length := by
  rw [rank_some _ _ (by rw [ykeyOf_length]; exact Nat.le_refl _)]
  unfold ykeyOf
  rw [presentBits_rank _ _ (ykeysOf_pairwise flat hp) _ (Nat.le_refl _)]
  congr 1
  apply countP_lt_split _ _ _ (by rw [ykeysOf_length]; exact Nat.le_refl _)
  · intro i hi _
    exact ykeysOf_lt flat hp _ (List.getElem_mem hi)
  · intro i hi hik
    rw [ykeysOf_length] at hi; omega

theorem rank_ykey_none (flat : List (Nat × Nat)) (idx : Nat) (h : (flat.map (·.2)).sum < idx) :
    rank (ykeyOf flat) idx = none := by
  unfold rank; rw [if_neg (by rw [ykeyOf_length]; omega)]

/-- `y_key.select(k)` is the first rank of cell `k` (one past the last rank for `k` = number of cells) -/
theorem select_ykey (flat : List (Nat × Nat)) (hp : PosCells flat) (k : Nat) (hk : k ≤ flat.length) :
    select (ykeyOf flat) k = some (sumTake flat k) := by
  cases k with
  | zero => rw [sumTake_zero]; exact Blue.Sigma.select_zero _
  | succ k' =>
    unfold ykeyOf
    rw [Blue.Sigma.select_presentBits _ _ (ykeysOf_pairwise flat hp) (ykeysOf_lt flat hp) k'
      (by rw [ykeysOf_length]; omega), ykeysOf_getElem]
    have := sumTake_succ_pos flat hp k' (by omega)
    congr 1; omega

/-! ### the cells of one symbol -/

theorem rowCellsFrom_sum (σ : Nat) : ∀ (T : List Ctx) (j : Nat),
    ((rowCellsFrom σ j T).map (·.2)).sum = ((T.map (·.tree)).flatten).count σ
  | [], j => by simp [rowCellsFrom_nil]
  | c :: t, j => by
    rw [rowCellsFrom_cons, List.map_append, List.sum_append, rowCellsFrom_sum σ t (j + 1),
      List.map_cons, List.flatten_cons, List.count_append]
    by_cases h : 0 < c.tree.count σ
    · rw [if_pos h]; simp
    · rw [if_neg h]; simp; omega

theorem rowCellsFrom_pos (σ : Nat) : ∀ (T : List Ctx) (j : Nat), PosCells (rowCellsFrom σ j T)
  | [], j => by intro x hx; simp [rowCellsFrom_nil] at hx
  | c :: t, j => by
    intro x hx
    rw [rowCellsFrom_cons, List.mem_append] at hx
    rcases hx with hx | hx
    · by_cases h : 0 < c.tree.count σ
      · rw [if_pos h] at hx
        have : x = (j, c.tree.count σ) := by simpa using hx
        rw [this]; exact h
      · rw [if_neg h] at hx; simp at hx
    · exact rowCellsFrom_pos σ t (j + 1) x hx

/-- what cell `t` of a symbol says: its row, its count, and that the cells before it account for
    every occurrence of the symbol in the earlier rows -/
theorem rowCellsFrom_getElem (σ : Nat) : ∀ (T : List Ctx) (j0 t : Nat) (ht : t < (rowCellsFrom σ j0 T).length),
    ∃ c, j0 ≤ (rowCellsFrom σ j0 T)[t].1 ∧ T[(rowCellsFrom σ j0 T)[t].1 - j0]? = some c
      ∧ (rowCellsFrom σ j0 T)[t].2 = c.tree.count σ
      ∧ sumTake (rowCellsFrom σ j0 T) t
          = (((T.take ((rowCellsFrom σ j0 T)[t].1 - j0)).map (·.tree)).flatten).count σ
  | [], j0, t, ht => by simp [rowCellsFrom_nil] at ht
  | c0 :: T', j0, t, ht => by
    by_cases h : 0 < c0.tree.count σ
    · have e : rowCellsFrom σ j0 (c0 :: T') = (j0, c0.tree.count σ) :: rowCellsFrom σ (j0 + 1) T' := by
        rw [rowCellsFrom_cons, if_pos h]; rfl
      cases t with
      | zero =>
        refine ⟨c0, ?_, ?_, ?_, ?_⟩
        · simp [e]
        · simp [e]
        · simp [e]
        · simp [e, sumTake_zero]
      | succ t' =>
        have ht' : t' < (rowCellsFrom σ (j0 + 1) T').length := by
          rw [e] at ht; simpa using ht
        obtain ⟨c, h1, h2, h3, h4⟩ := rowCellsFrom_getElem σ T' (j0 + 1) t' ht'
        have eg : (rowCellsFrom σ j0 (c0 :: T'))[t' + 1] = (rowCellsFrom σ (j0 + 1) T')[t'] := by
          simp [e]
        refine ⟨c, ?_, ?_, ?_, ?_⟩
        · rw [eg]; omega
        · rw [eg]
          have : (rowCellsFrom σ (j0 + 1) T')[t'].1 - j0 = ((rowCellsFrom σ (j0 + 1) T')[t'].1 - (j0 + 1)) + 1 := by
            omega
          rw [this, List.getElem?_cons_succ]; exact h2
        · rw [eg]; exact h3
        · rw [eg]
          have : (rowCellsFrom σ (j0 + 1) T')[t'].1 - j0 = ((rowCellsFrom σ (j0 + 1) T')[t'].1 - (j0 + 1)) + 1 := by
            omega
          rw [this, List.take_succ_cons, List.map_cons, List.flatten_cons, List.count_append, ← h4, e,
            sumTake_cons_succ]
    · have e : rowCellsFrom σ j0 (c0 :: T') = rowCellsFrom σ (j0 + 1) T' := by
        rw [rowCellsFrom_cons, if_neg h]; rfl
      have ht' : t < (rowCellsFrom σ (j0 + 1) T').length := by rw [e] at ht; exact ht
      obtain ⟨c, h1, h2, h3, h4⟩ := rowCellsFrom_getElem σ T' (j0 + 1) t ht'
      have eg : (rowCellsFrom σ j0 (c0 :: T'))[t] = (rowCellsFrom σ (j0 + 1) T')[t] := by
        simp [e]
      refine ⟨c, ?_, ?_, ?_, ?_⟩
      · rw [eg]; omega
      · rw [eg]
        have : (rowCellsFrom σ (j0 + 1) T')[t].1 - j0 = ((rowCellsFrom σ (j0 + 1) T')[t].1 - (j0 + 1)) + 1 := by
          omega
        rw [this, List.getElem?_cons_succ]; exact h2
      · rw [eg]; exact h3
      · rw [eg]
        have : (rowCellsFrom σ (j0 + 1) T')[t].1 - j0 = ((rowCellsFrom σ (j0 + 1) T')[t].1 - (j0 + 1)) + 1 := by
          omega
        have h0 : c0.tree.count σ = 0 := by omega
        rw [this, List.take_succ_cons, List.map_cons, List.flatten_cons, List.count_append, ← h4, e, h0,
          Nat.zero_add]

/-- the rows of a symbol's cells ascend -/
theorem rowCellsFrom_rows (σ : Nat) : ∀ (T : List Ctx) (j0 : Nat),
    ((rowCellsFrom σ j0 T).map (·.1)).Pairwise (· < ·) ∧ ∀ x ∈ rowCellsFrom σ j0 T, j0 ≤ x.1
  | [], j0 => by simp [rowCellsFrom_nil]
  | c0 :: T', j0 => by
    obtain ⟨ih1, ih2⟩ := rowCellsFrom_rows σ T' (j0 + 1)
    rw [rowCellsFrom_cons]
    by_cases h : 0 < c0.tree.count σ
    · rw [if_pos h]
      constructor
      · rw [List.singleton_append, List.map_cons, List.pairwise_cons]
        refine ⟨?_, ih1⟩
        intro a ha
        obtain ⟨x, hx, rfl⟩ := List.mem_map.mp ha
        have := ih2 x hx
        simp only; omega
      · intro x hx
        rcases List.mem_append.mp hx with hx | hx
        · have : x = (j0, c0.tree.count σ) := by simpa using hx
          rw [this]; exact Nat.le_refl _
        · have := ih2 x hx; omega
    · rw [if_neg h, List.nil_append]
      exact ⟨ih1, fun x hx => by have := ih2 x hx; omega⟩

/-- every row in which the symbol occurs has a cell -/
theorem rowCellsFrom_mem (σ : Nat) : ∀ (T : List Ctx) (j0 j : Nat) (c : Ctx), T[j]? = some c →
    0 < c.tree.count σ → (j0 + j, c.tree.count σ) ∈ rowCellsFrom σ j0 T
  | [], j0, j, c, h, _ => by simp at h
  | c0 :: T', j0, 0, c, h, hc => by
    have : c0 = c := by simpa using h
    subst this
    rw [rowCellsFrom_cons, if_pos hc]
    simp
  | c0 :: T', j0, j + 1, c, h, hc => by
    rw [List.getElem?_cons_succ] at h
    have := rowCellsFrom_mem σ T' (j0 + 1) j c h hc
    rw [rowCellsFrom_cons]
    apply List.mem_append_right
    have e : j0 + (j + 1) = j0 + 1 + j := by omega
    rw [e]; exact this

/-! ### all cells, symbol-major -/

theorem sum_flatten_map (ll : List (List (Nat × Nat))) :
    ((ll.flatten).map (·.2)).sum = (ll.map (fun l => (l.map (·.2)).sum)).sum := by
  induction ll with
  | nil => rfl
  | cons a t ih => rw [List.flatten_cons, List.map_append, List.sum_append, ih, List.map_cons, List.sum_cons]

/-- the occurrences of the symbols below `σ` -/
theorem sum_count_range (l : List Nat) : ∀ (σ : Nat),
    ((List.range σ).map (fun s => l.count s)).sum = l.countP (fun x => decide (x < σ))
  | 0 => by simp
  | σ + 1 => by
    rw [List.range_succ, List.map_append, List.sum_append, sum_count_range l σ, countP_lt_succ]
    simp

theorem cellsSpec_length (k : Nat) (table : List Ctx) : (cellsSpec k table).length = k := by
  simp [cellsSpec]

theorem cellsSpec_getElem (k : Nat) (table : List Ctx) (σ : Nat) (h : σ < (cellsSpec k table).length) :
    (cellsSpec k table)[σ] = rowCellsFrom σ 0 table := by
  simp [cellsSpec]

theorem cellsSpec_pos (k : Nat) (table : List Ctx) : PosCells (cellsSpec k table).flatten := by
  intro x hx
  obtain ⟨l, hl, hxl⟩ := List.mem_flatten.mp hx
  unfold cellsSpec at hl
  obtain ⟨σ, _, rfl⟩ := List.mem_map.mp hl
  exact rowCellsFrom_pos σ table 0 x hxl

/-- the cells before symbol `σ`'s cover the ranks of the smaller symbols -/
theorem cellsSpec_pre_sum (k : Nat) (table : List Ctx) (σ : Nat) (h : σ ≤ k) :
    ((((cellsSpec k table).take σ).flatten).map (·.2)).sum
      = ((table.map (·.tree)).flatten).countP (fun x => decide (x < σ)) := by
  rw [sum_flatten_map, ← sum_count_range]
  unfold cellsSpec
  rw [← List.map_take, List.take_range, Nat.min_eq_left h, List.map_map]
  congr 1
  apply List.map_congr_left
  intro s _
  simp only [Function.comp]
  rw [rowCellsFrom_sum]

theorem cellsSpec_total (k : Nat) (table : List Ctx) (hk : ∀ x ∈ (table.map (·.tree)).flatten, x < k) :
    (((cellsSpec k table).flatten).map (·.2)).sum = ((table.map (·.tree)).flatten).length := by
  have := cellsSpec_pre_sum k table k (Nat.le_refl _)
  rw [List.take_of_length_le (by rw [cellsSpec_length]; exact Nat.le_refl _)] at this
  rw [this, List.countP_eq_length]
  intro x hx
  simp only [decide_eq_true_eq]
  exact hk x hx

/-- where symbol `σ`'s cells lie among all cells, and what they cover -/
theorem cells_of_symbol (k : Nat) (table : List Ctx) (σ : Nat) (hσ : σ < k) (t : Nat)
    (ht : t ≤ (rowCellsFrom σ 0 table).length) :
    let flat := (cellsSpec k table).flatten
    let k0 := pre (cellsSpec k table) σ
    k0 + (rowCellsFrom σ 0 table).length ≤ flat.length
    ∧ sumTake flat (k0 + t)
        = ((table.map (·.tree)).flatten).countP (fun x => decide (x < σ)) + sumTake (rowCellsFrom σ 0 table) t
    ∧ (∀ (h : t < (rowCellsFrom σ 0 table).length), flat[k0 + t]? = some (rowCellsFrom σ 0 table)[t]) := by
  intro flat k0
  have hσ' : σ < (cellsSpec k table).length := by rw [cellsSpec_length]; exact hσ
  have hg := cellsSpec_getElem k table σ hσ'
  refine ⟨?_, ?_, ?_⟩
  · have h1 := pre_succ (cellsSpec k table) σ hσ'
    have h2 := pre_le (cellsSpec k table) (σ + 1)
    rw [hg] at h1
    show pre (cellsSpec k table) σ + _ ≤ (cellsSpec k table).flatten.length
    omega
  · show sumTake (cellsSpec k table).flatten (pre (cellsSpec k table) σ + t) = _
    unfold sumTake
    rw [take_pre_add (cellsSpec k table) σ t hσ' (by rw [hg]; exact ht), List.map_append, List.sum_append,
      cellsSpec_pre_sum k table σ (by omega), hg]
  · intro h
    show (cellsSpec k table).flatten[pre (cellsSpec k table) σ + t]? = _
    rw [getElem?_pre_add (cellsSpec k table) σ t hσ' (by rw [hg]; exact h)]
    rw [List.getElem?_eq_getElem (by rw [hg]; exact h)]
    congr 1
    simp [hg]

end Blue.PsiWt
