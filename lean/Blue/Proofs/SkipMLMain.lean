import Blue.Proofs.SkipML
/-! What the invariant of the multi-level skiplist says about the structure, about inserts that
    have returned, and about the answers of `seek`, `next`, `prev`, `contains`. -/
namespace Blue.SkipML
open Blue.SkipList (Node keyOf nextOf setNextAt SChain)

/-- a walk along level `l` (what a traversal of that level sees) yields the chain -/
theorem chainFrom_schain {heap : List MNode} {l : Nat} {lo p ids} (h : SChain (proj l heap) lo p ids) :
    ∀ fuel, ids.length < fuel → chainFrom heap l fuel p = ids := by
  induction h with
  | nil => intro fuel _; cases fuel <;> simp [chainFrom]
  | @cons _ x nd rest hx _ _ ih =>
    intro fuel hf
    cases fuel with
    | zero => simp at hf
    | succ f =>
      have hn : mnext heap l x = nd.next := by
        rw [← nextOf_proj]; exact Blue.SkipList.nextOf_of_get hx
      simp only [chainFrom, hn]
      rw [ih f (by simp at hf; omega)]

/-- **C17, all levels** in every reachable state, whatever the interleaving of inserting and
    reading threads: every level's chain from the head is strictly sorted by key; level `l + 1` is
    a sub-chain of level `l`; the keys on level 0 are exactly the keys whose level-0 CAS has
    succeeded; and a walk along a level yields exactly its chain. -/
theorem upper_levels_are_subchains {s : St} (h : Reach s) :
    ∃ ids : Nat → List Nat,
      (∀ l, l < s.H → chainFrom s.heap l ((ids l).length + 1) (mnext s.heap l 0) = ids l) ∧
      (∀ l, l < s.H → ((ids l).map (mkey s.heap)).Pairwise (· < ·)) ∧
      (∀ l n, n ∈ ids (l + 1) → n ∈ ids l) ∧
      (∀ k, k ∈ s.inserted ↔ k ∈ (ids 0).map (mkey s.heap)) := by
  obtain ⟨ids, hinv⟩ := reach_minv h
  refine ⟨ids, ?_, ?_, hinv.sub, ?_⟩
  · intro l hl
    exact chainFrom_schain (hinv.chains l hl) _ (by omega)
  · intro l hl
    have := Blue.SkipList.schain_sorted (hinv.chains l hl)
    have e : (ids l).map (keyOf (proj l s.heap)) = (ids l).map (mkey s.heap) := by
      apply List.map_congr_left
      intro x _
      exact keyOf_proj l s.heap x
    rw [e] at this
    exact this
  · intro k
    rw [hinv.keys k, List.mem_map]

/-- neither assertion of the code fires: no `insert` meets its own key, no `find_less_than`
    stands on a node that is not before the key -/
theorem no_panic {s : St} (h : Reach s) (i : Nat) : (th s i).pc ≠ .panicked := by
  obtain ⟨ids, hinv⟩ := reach_minv h
  intro hp
  have := hinv.pure i
  rw [hp] at this
  exact this

/-! ### the iterator's last load -/

/-- every linked key is at most the key stood on, or at least the key loaded -/
theorem mload_splits {s : St} {ids} (h : MInv s ids) (x : Nat) (hx : x = 0 ∨ x ∈ ids 0) :
    ∀ k' ∈ s.inserted, (x ≠ 0 ∧ k' ≤ mkey s.heap x) ∨ ∃ n, mnext s.heap 0 x = some n ∧ mkey s.heap n ≤ k' := by
  intro k' hk'
  obtain ⟨m, hm, rfl⟩ := (h.keys k').mp hk'
  have hc := h.chains 0 h.hpos
  rcases hx with rfl | hx
  · obtain ⟨n, hn, _, hle⟩ := Blue.SkipList.schain_first hc m hm
    rw [keyOf_proj, keyOf_proj] at hle
    exact Or.inr ⟨n, hn, hle⟩
  · rcases Blue.SkipList.schain_succ hc x hx m hm with h1 | ⟨n, h1, _, h3⟩
    · rw [keyOf_proj, keyOf_proj] at h1
      exact Or.inl ⟨fun e => h.noHead 0 (e ▸ hx), h1⟩
    · rw [nextOf_proj] at h1
      rw [keyOf_proj, keyOf_proj] at h3
      exact Or.inr ⟨n, h1, h3⟩

/-- **`seek(k)` / `contains(k)`**: when `find_greater_or_equal` does its last load (level 0, the
    node loaded is null or not before `k`), in whatever state the other threads have brought
    about, the node it returns carries the smallest linked key `≥ k`; null means that every
    linked key is `< k`.  ("Linked" = level-0 CAS succeeded, at the time of this load.) -/
theorem seek_lands {s : St} (h : Reach s) (i k x : Nat) (c : Bool) (hpc : (th s i).pc = .geq k x 0 c)
    (hstop : ∀ n, mnext s.heap 0 x = some n → ¬ mkey s.heap n < k) :
    (mnext s.heap 0 x = none → ∀ k' ∈ s.inserted, k' < k) ∧
    (∀ n, mnext s.heap 0 x = some n →
      mkey s.heap n ∈ s.inserted ∧ k ≤ mkey s.heap n ∧ ∀ k' ∈ s.inserted, k ≤ k' → mkey s.heap n ≤ k') := by
  obtain ⟨ids, hinv⟩ := reach_minv h
  have hstand := own_obl hinv i hpc (.stand k 0 x) (by simp [obls])
  have hx : x = 0 ∨ x ∈ ids 0 := by
    rcases hstand with h1 | h1
    · exact Or.inl h1
    · exact Or.inr h1.1
  have hbelow : ∀ k', x ≠ 0 ∧ k' ≤ mkey s.heap x → k' < k := by
    intro k' ⟨hne, hle⟩
    rcases hstand with h1 | h1
    · exact absurd h1 hne
    · have := h1.2; omega
  constructor
  · intro hnone k' hk'
    rcases mload_splits hinv x hx k' hk' with h1 | ⟨n, h1, _⟩
    · exact hbelow k' h1
    · rw [hnone] at h1; cases h1
  · intro n hn
    have hnk := hstop n hn
    refine ⟨minv_key_linked hinv 0 n (minv_next hinv 0 x n hinv.hpos hx hn), by omega, ?_⟩
    intro k' hk' hge
    rcases mload_splits hinv x hx k' hk' with h1 | ⟨n', h1, h2⟩
    · have := hbelow k' h1; omega
    · rw [hn] at h1; cases h1; exact h2

/-- **`next()` / `seek_to_first()`**: the one load from the node the iterator is on (`x = 0`: the
    head) yields the node with the smallest linked key above it, or null if there is none -/
theorem next_lands {s : St} (h : Reach s) (i x : Nat) (hpc : (th s i).pc = .nxt x) :
    (mnext s.heap 0 x = none → ∀ k' ∈ s.inserted, x ≠ 0 ∧ k' ≤ mkey s.heap x) ∧
    (∀ n, mnext s.heap 0 x = some n →
      mkey s.heap n ∈ s.inserted ∧ (x ≠ 0 → mkey s.heap x < mkey s.heap n) ∧
      ∀ k' ∈ s.inserted, (x ≠ 0 ∧ k' ≤ mkey s.heap x) ∨ mkey s.heap n ≤ k') := by
  obtain ⟨ids, hinv⟩ := reach_minv h
  have hx : x = 0 ∨ x ∈ ids 0 := own_obl hinv i hpc (.on 0 x) (by simp [obls])
  constructor
  · intro hnone k' hk'
    rcases mload_splits hinv x hx k' hk' with h1 | ⟨n, h1, _⟩
    · exact h1
    · rw [hnone] at h1; cases h1
  · intro n hn
    have hnids := minv_next hinv 0 x n hinv.hpos hx hn
    refine ⟨minv_key_linked hinv 0 n hnids, ?_, ?_⟩
    · intro hne
      rcases hx with h1 | h1
      · exact absurd h1 hne
      · have := Blue.SkipList.schain_next_lt (hinv.chains 0 hinv.hpos) x h1 n (by rw [nextOf_proj]; exact hn)
        rw [keyOf_proj, keyOf_proj] at this
        exact this
    · intro k' hk'
      rcases mload_splits hinv x hx k' hk' with h1 | ⟨n', h1, h2⟩
      · exact Or.inl h1
      · rw [hn] at h1; cases h1; exact Or.inr h2

/-- **`prev()` from a key**: when `find_less_than(k)` does its last load (level 0, the node loaded
    is null or not before `k`), it returns where it stands: the node with the largest linked key
    `< k`, or the head (iterator not valid) if there is none -/
theorem prev_lands {s : St} (h : Reach s) (i k x : Nat) (hpc : (th s i).pc = .lt k x 0)
    (hstop : ∀ n, mnext s.heap 0 x = some n → ¬ mkey s.heap n < k) :
    (x = 0 → ∀ k' ∈ s.inserted, ¬ k' < k) ∧
    (x ≠ 0 → mkey s.heap x ∈ s.inserted ∧ mkey s.heap x < k ∧ ∀ k' ∈ s.inserted, k' < k → k' ≤ mkey s.heap x) := by
  obtain ⟨ids, hinv⟩ := reach_minv h
  have hstand := own_obl hinv i hpc (.stand k 0 x) (by simp [obls])
  have hx : x = 0 ∨ x ∈ ids 0 := by
    rcases hstand with h1 | h1
    · exact Or.inl h1
    · exact Or.inr h1.1
  have key : ∀ k' ∈ s.inserted, k' < k → x ≠ 0 ∧ k' ≤ mkey s.heap x := by
    intro k' hk' hlt
    rcases mload_splits hinv x hx k' hk' with h1 | ⟨n, h1, h2⟩
    · exact h1
    · exact absurd (by omega) (hstop n h1)
  constructor
  · intro h0 k' hk' hlt
    exact (key k' hk' hlt).1 h0
  · intro hne
    rcases hstand with h1 | ⟨h1, h2⟩
    · exact absurd h1 hne
    · exact ⟨minv_key_linked hinv 0 x h1, h2, fun k' hk' hlt => (key k' hk' hlt).2⟩

/-- **`prev()` from the end**: when `find_last` loads null at level 0 it returns where it stands:
    the node with the largest linked key, or the head if nothing is linked -/
theorem last_lands {s : St} (h : Reach s) (i x : Nat) (hpc : (th s i).pc = .last x 0)
    (hstop : mnext s.heap 0 x = none) :
    (x = 0 → ∀ k' ∈ s.inserted, False) ∧
    (x ≠ 0 → mkey s.heap x ∈ s.inserted ∧ ∀ k' ∈ s.inserted, k' ≤ mkey s.heap x) := by
  obtain ⟨ids, hinv⟩ := reach_minv h
  have hx : x = 0 ∨ x ∈ ids 0 := own_obl hinv i hpc (.on 0 x) (by simp [obls])
  have key : ∀ k' ∈ s.inserted, x ≠ 0 ∧ k' ≤ mkey s.heap x := by
    intro k' hk'
    rcases mload_splits hinv x hx k' hk' with h1 | ⟨n, h1, _⟩
    · exact h1
    · rw [hstop] at h1; cases h1
  constructor
  · intro h0 k' hk'
    exact (key k' hk').1 h0
  · intro hne
    rcases hx with h1 | h1
    · exact absurd h1 hne
    · exact ⟨minv_key_linked hinv 0 x h1, fun k' hk' => (key k' hk').2⟩

/-- the iterator always points at null, at the head, or at a linked node: it never dangles in
    the model (the nodes' memory staying valid is `Blue.SkipLife`, finding D-4) -/
theorem iterator_on_chain {s : St} (h : Reach s) (i x : Nat) (hp : (th s i).pos = some x) :
    x = 0 ∨ mkey s.heap x ∈ s.inserted := by
  obtain ⟨ids, hinv⟩ := reach_minv h
  rcases pos_ok hinv i x hp with h1 | h1
  · exact Or.inl h1
  · exact Or.inr (minv_key_linked hinv 0 x h1)

/-! ### inserts that have returned -/

/-- only the CAS changes the ghost lists -/
theorem step_ghost_same (s : St) (i : Nat) (h : ∀ nd k idx hh prev obs, (th s i).pc ≠ .cas nd k idx hh prev obs) :
    (step s i).inserted = s.inserted ∧ (step s i).returned = s.returned := by
  cases hpc : (th s i).pc with
  | cas nd k idx hh prev obs => exact absurd hpc (h nd k idx hh prev obs)
  | _ =>
    unfold step
    simp only [hpc]
    repeat' split
    all_goals first | exact ⟨rfl, rfl⟩ | exact ⟨trivial, trivial⟩ | trivial

/-- linked keys stay linked, and a key is reported as returned only when it is linked -/
theorem step_ghost {s : St} {ids} (h : MInv s ids) (i : Nat) :
    (∀ k' ∈ s.inserted, k' ∈ (step s i).inserted) ∧
    (∀ k' ∈ (step s i).returned, k' ∈ s.returned ∨ k' ∈ (step s i).inserted) := by
  by_cases hc : ∃ nd k idx hh prev obs, (th s i).pc = .cas nd k idx hh prev obs
  · obtain ⟨nd, k, idx, hh, prev, obs, hpc⟩ := hc
    have f : InsFacts s ids nd k idx hh prev obs :=
      insFacts_of (fun o ho => own_obl h i hpc o (by simp only [obls, List.mem_cons]; exact Or.inr ho))
    have hklinked : idx ≠ 0 → k ∈ s.inserted := by
      intro h0
      have := minv_key_linked h 0 nd (f.below 0 (by omega))
      rw [f.node.2.2.2] at this
      exact this
    unfold step
    simp only [hpc]
    split
    · split
      · refine ⟨?_, fun k' hk' => Or.inl hk'⟩
        intro k' hk'
        show k' ∈ (if idx = 0 then k :: s.inserted else s.inserted)
        split
        · exact List.mem_cons_of_mem _ hk'
        · exact hk'
      · constructor
        · intro k' hk'
          show k' ∈ (if idx = 0 then k :: s.inserted else s.inserted)
          split
          · exact List.mem_cons_of_mem _ hk'
          · exact hk'
        · intro k' hk'
          have hk'' : k' ∈ k :: s.returned := hk'
          simp only [List.mem_cons] at hk''
          rcases hk'' with rfl | hk''
          · right
            show k' ∈ (if idx = 0 then k' :: s.inserted else s.inserted)
            split
            · exact List.mem_cons_self ..
            · rename_i h0; exact hklinked h0
          · exact Or.inl hk''
    · exact ⟨fun k' hk' => hk', fun k' hk' => Or.inl hk'⟩
  · have := step_ghost_same s i (fun nd k idx hh prev obs hpc => hc ⟨nd, k, idx, hh, prev, obs, hpc⟩)
    rw [this.1, this.2]
    exact ⟨fun k' hk' => hk', fun k' hk' => Or.inl hk'⟩

/-- **no insert is lost**: in every reachable state, a key whose `insert` has returned is linked
    at level 0 (and `step_ghost`: linked keys stay linked) — so by `seek_lands` every later search
    for it finds it, and by `upper_levels_are_subchains` every later full iteration shows it,
    exactly once -/
theorem returned_linked {s : St} (h : Reach s) : ∀ k ∈ s.returned, k ∈ s.inserted := by
  induction h with
  | init H T _ => intro k hk; simp [init] at hk
  | insert i k hh _ _ ih => unfold callInsert; split <;> exact ih
  | seek i k _ ih => unfold callSeek; split <;> exact ih
  | contains i k _ ih => unfold callContains; split <;> exact ih
  | first i _ ih => unfold callFirst; split <;> exact ih
  | last i _ ih => unfold callLast; split <;> exact ih
  | next i _ ih =>
    unfold callNext
    split
    · split <;> exact ih
    · exact ih
  | prev i _ ih =>
    unfold callPrev
    split
    · split <;> exact ih
    · exact ih
  | step i hs ih =>
    obtain ⟨ids, hinv⟩ := reach_minv hs
    obtain ⟨h1, h2⟩ := step_ghost hinv i
    intro k hk
    rcases h2 k hk with h3 | h3
    · exact h1 k (ih k h3)
    · exact h3

/-- linked keys stay linked whatever step whichever thread takes -/
theorem linked_stays_linked {s : St} (h : Reach s) (i : Nat) : ∀ k ∈ s.inserted, k ∈ (step s i).inserted := by
  obtain ⟨ids, hinv⟩ := reach_minv h
  exact (step_ghost hinv i).1

theorem keyOfPc_eq (pc : PC) : keyOfPc pc = pcKey pc := by cases pc <;> rfl

/-- the check the trace validator makes before every `insert` is the precondition of `Reach.insert` -/
theorem insertOk_sound {s : St} {k : Nat} (h : insertOk s k = true) : InsertOk s k := by
  simp only [insertOk, Bool.and_eq_true, Bool.not_eq_true', List.all_eq_true, bne_iff_ne, ne_eq] at h
  obtain ⟨h1, h2⟩ := h
  refine ⟨by simpa using h1, ?_⟩
  intro j
  by_cases hj : j < s.ths.length
  · have : th s j ∈ s.ths := by
      simp only [th, List.getD]
      rw [List.getElem?_eq_getElem hj]
      exact List.getElem_mem hj
    rw [← keyOfPc_eq]
    exact h2 _ this
  · rw [th_default s j (by omega)]
    simp [pcKey]

end Blue.SkipML
