import Blue.Proofs.SpecBounds
/-! **C03** `scan_spec`: the scan stack over table-like children shows exactly the live versions
    in range, in order, under every finite cursor program. -/
namespace Blue.Spec
open Blue.Cursor Blue.Cursor.Filtered

variable {K : Type} [DecidableEq K]

/-- `seek(target)` looks for the first entry whose key is at least `target` -/
def geKey (klt : K → K → Bool) (k : K) : Ver K → Bool := fun e => !klt e.1 k

/-- the seek predicates a client of the scan cursor can issue (and the trivial one the bounds
    cursor's configuration carries for an unbounded side) -/
def SeekAdm (klt : K → K → Bool) (pred : Ver K → Bool) : Prop :=
  (∃ k, pred = geKey klt k) ∨ pred = fun _ => true

section
variable {klt : K → K → Bool} (st : StrictTotal klt)
include st

theorem vlt_keys {a b : Ver K} (h : vlt klt a b = true) : klt b.1 a.1 = false := by
  unfold vlt at h
  simp only [Bool.or_eq_true, Bool.and_eq_true, decide_eq_true_eq] at h
  rcases h with h | ⟨h, _⟩
  · exact st.asymm _ _ h
  · rw [h]; exact st.irrefl _

theorem adm_mono {pred : Ver K → Bool} (h : SeekAdm klt pred) : Mono (vlt klt) pred := by
  intro a b hab ha
  rcases h with ⟨k, rfl⟩ | rfl
  · simp only [geKey, Bool.not_eq_true'] at ha ⊢
    exact ge_up st k (vlt_keys st hab) ha
  · rfl

theorem adm_along {pred : Ver K → Bool} (h : SeekAdm klt pred) (xs : List (Ver K)) (hm : KeysMono klt xs) :
    MonoAlong xs pred := by
  intro i j a b hij ha hb hp
  rcases h with ⟨k, rfl⟩ | rfl
  · simp only [geKey, Bool.not_eq_true'] at hp ⊢
    exact ge_up st k (hm i j a b hij ha hb) hp
  · rfl

theorem adm_seekPred {pred : Ver K → Bool} (h : SeekAdm klt pred) (t : Nat) (tomb : Ver K → Bool)
    (xs : List (Ver K)) (hm : KeysMono klt xs) : SeekPred (pcfg t tomb) xs pred where
  byKey := by
    intro a b hk
    rcases h with ⟨k, rfl⟩ | rfl
    · simp only [geKey]
      have : a.1 = b.1 := hk
      rw [this]
    · rfl
  mono := adm_along st h xs hm

end

theorem adm_geStart (klt : K → K → Bool) (sb eb : Bound K) : SeekAdm klt (bcfg klt sb eb).geStart := by
  cases sb with
  | unbounded => exact Or.inr rfl
  | included k => exact Or.inl ⟨k, rfl⟩
  | excluded k => exact Or.inl ⟨k, rfl⟩

theorem adm_geEnd (klt : K → K → Bool) (sb eb : Bound K) : SeekAdm klt (bcfg klt sb eb).geEnd := by
  cases eb with
  | unbounded => exact Or.inr rfl
  | included k => exact Or.inl ⟨k, rfl⟩
  | excluded k => exact Or.inl ⟨k, rfl⟩

/-- **C03.**  Let the children of the merging cursor behave as tables whose merge is the strictly
    sorted list `M` of versions.  Then `Bounds(Pruning(Merging[children]))` at read timestamp `t`
    with bounds `sb … eb` behaves, under every finite program of
    `seek_to_first / seek_to_last / seek k / next / prev`, as a reference cursor over

      [ e ∈ M | e is the newest version of its key with ts ≤ t, not a tombstone, key in range ]. -/
theorem scan_spec {klt : K → K → Bool} (st : StrictTotal klt)
    (M : List (Ver K × Nat)) (k : Nat) (fam : Family (vlt klt) M k)
    (t : Nat) (tomb : Ver K → Bool) (sb eb : Bound K) (n : Nat) (hn : (M.map (·.1)).length + 2 ≤ n)
    (C : Cur (Ver K)) (cs : List C.σ) (rs : List (Ref (Ver K)))
    (hkids : (rs.map (·.xs)).Perm ((List.range k).map (childList M)))
    (hbeh : cs.map (behA (SeekAdm klt) C) = rs.map (behA (SeekAdm klt) (RefCur (Ver K)))) :
    BehEq (SeekAdm klt)
      (BoundsC.cur (PruningC.cur (MergingC.cur C (vlt klt)) (pcfg t tomb) n) (bcfg klt sb eb) n)
      (BoundsC.new (PruningC.cur (MergingC.cur C (vlt klt)) (pcfg t tomb) n) (bcfg klt sb eb)
        (PruningC.new (MergingC.cur C (vlt klt)) (MergingC.new C (vlt klt) cs)))
      (RefCur (Ver K))
      ⟨((M.map (·.1)).filter (isLive (M.map (·.1)) t tomb)).filter (inRange klt sb eb), 0⟩ := by
  have hs : Sorted klt (M.map (·.1)) := fam.sorted
  have hm := keysMono_of_sorted st hs
  have hlive := pruned_eq_live st hs t tomb
  have hsp : Sorted klt (pruned (pcfg t tomb) (M.map (·.1))) := by rw [hlive]; exact sorted_filter hs _
  have hmp := keysMono_of_sorted st hsp
  have ok := boundsOk_of_keysMono st sb eb _ hmp
  have hwin := window_eq_range st sb eb _ hmp
  have := scan_stack (vlt klt) (vlt_strictTotal st) M k fam (pcfg t tomb) (bcfg klt sb eb) n
    (grouped_of_sorted st hs t tomb) ok hn (SeekAdm klt)
    (fun p hp => adm_mono st hp)
    (fun p hp => adm_seekPred st hp t tomb _ hm)
    (fun p hp => adm_along st hp _ hmp)
    (adm_geStart klt sb eb) (adm_geEnd klt sb eb) C cs rs hkids hbeh
  rw [hwin, hlive] at this
  exact this

end Blue.Spec

#print axioms Blue.Spec.scan_spec
