import Blue.Proofs.SstCut
/-! `SstBuilder` and `SstMultiBuilder`: what the builder *holds* in terms of what was *attempted*.

    `SB.accepted` is a ghost field the model of `SstBuilder::put` writes itself.  Here it is tied to
    a definition that does not mention the builder: `acceptedOfB results attempts` — the attempts
    whose result was "accepted" (`none`) — so that the spec side of `sst_builder_refines` /
    `sst_file_roundtrip` can be read as "the attempts that were answered `Ok`".  Added after the
    independent audit of the C10 theorem statements (docs/AUDIT_REPORT.md, C10). -/
namespace Blue.Sst
open Blue.Wire Blue.EntryCodec Blue.Block Blue.Cursor

/-- the attempts that were answered `Ok` (independent of the builder's state) -/
def acceptedOfB : List (Option BuildErr) → List KV → List KV
  | none :: rs, e :: es => e :: acceptedOfB rs es
  | some _ :: rs, _ :: es => acceptedOfB rs es
  | _, _ => []

/-- an accepted `put` / `del` appends exactly the entry to the ghost list -/
theorem put_accepted {o : SstOpts} {s s' : SB} {e : KV} (h : s.put o e = .ok s') :
    s'.accepted = s.accepted ++ [e] := by
  obtain ⟨_, hc⟩ := put_ok h
  rcases hc with ⟨_, c', _, rfl⟩ | ⟨c, _, _, c', _, rfl⟩ | ⟨c, _, _, sf, hf, c', _, rfl⟩
  · rfl
  · rfl
  · obtain ⟨c2, idx, _, _, rfl⟩ := flush_ok hf
    rfl

theorem putAll_accepted (o : SstOpts) : ∀ (atts : List KV) (s : SB),
    (SB.putAll o s atts).2.accepted = s.accepted ++ acceptedOfB (SB.putAll o s atts).1 atts
  | [], s => by simp [SB.putAll, acceptedOfB]
  | e :: es, s => by
    simp only [SB.putAll]
    cases hp : s.put o e with
    | error err => simp only [acceptedOfB]; exact putAll_accepted o es s
    | ok s' => simp only [acceptedOfB]; rw [putAll_accepted o es s', put_accepted hp]; simp

theorem putAll_results_length (o : SstOpts) : ∀ (atts : List KV) (s : SB),
    (SB.putAll o s atts).1.length = atts.length
  | [], _ => rfl
  | e :: es, s => by
    simp only [SB.putAll]
    cases hp : s.put o e with
    | error err => simp only [List.length_cons]; rw [putAll_results_length o es s]
    | ok s' => simp only [List.length_cons]; rw [putAll_results_length o es s']

/-- `SstBuilder::put` / `del` refuse with the error of the check whenever the check refuses: an
    oversize key or value, a full table, or an entry not strictly after the last accepted one never
    reaches a block -/
theorem put_refused {o : SstOpts} {s : SB} {e : KV} {err : PutErr}
    (h : putCheck s.approxSize s.lastKey s.lastTs e = some err) : s.put o e = .error (.put err) := by
  unfold SB.put
  rw [h]

/-- the negative direction in words of the limits: not (in-limit, below table-full, strictly after
    the last accepted entry) ⇒ the call is an error -/
theorem put_refuses_iff_check {o : SstOpts} {s : SB} {e : KV}
    (h : ¬ (e.key.length ≤ MAX_KEY_LEN ∧ (∀ v, e.val = some v → v.length ≤ MAX_VALUE_LEN)
      ∧ s.approxSize < TABLE_FULL_SIZE ∧ keyRefLt s.lastKey s.lastTs e.key e.ts = true)) :
    ∃ err, s.put o e = .error (.put err) := by
  cases hc : putCheck s.approxSize s.lastKey s.lastTs e with
  | none => exact absurd ((putCheck_none_iff _ _ _ _).mp hc) h
  | some err => exact ⟨err, put_refused hc⟩

/-- every accepted entry passed the size checks -/
structure LInv (s : SB) : Prop where
  lim : ∀ e ∈ s.accepted, e.key.length ≤ MAX_KEY_LEN ∧ ∀ v, e.val = some v → v.length ≤ MAX_VALUE_LEN

theorem linv_init : LInv SB.init := ⟨by intro e he; simp [SB.init] at he⟩

theorem linv_put {o : SstOpts} {s s' : SB} {e : KV} (hi : LInv s) (h : s.put o e = .ok s') : LInv s' := by
  obtain ⟨hchk, _⟩ := put_ok h
  obtain ⟨h1, h2, _, _⟩ := (putCheck_none_iff _ _ _ _).mp hchk
  refine ⟨?_⟩
  intro x hx
  rw [put_accepted h, List.mem_append] at hx
  rcases hx with hx | hx
  · exact hi.lim x hx
  · simp only [List.mem_singleton] at hx
    subst hx
    exact ⟨h1, h2⟩

theorem linv_putAll (o : SstOpts) : ∀ (atts : List KV) (s : SB), LInv s → LInv (SB.putAll o s atts).2
  | [], _, h => h
  | e :: es, s, h => by
    simp only [SB.putAll]
    cases hp : s.put o e with
    | error err => exact linv_putAll o es s h
    | ok s' => exact linv_putAll o es s' (linv_put h hp)

/-- **`SstBuilder` rejects out-of-order and oversize input** (the C10 clause, at the table builder):
    after any run of attempts

    * the builder's `accepted` list — the spec side of `sst_builder_refines` / `sst_file_roundtrip` —
      is exactly the list of attempts answered `Ok` (one answer per attempt),
    * it is strictly sorted (key ascending, timestamp descending, no equal key and timestamp),
    * every entry of it is within `MAX_KEY_LEN` / `MAX_VALUE_LEN`,
    * and the builder's `(last_key, last_timestamp)` is the last accepted entry, against which the
      next attempt is checked (`put_refuses_iff_check`). -/
theorem sst_builder_rejects (o : SstOpts) (atts : List KV) :
    (SB.putAll o SB.init atts).1.length = atts.length
    ∧ (SB.putAll o SB.init atts).2.accepted = acceptedOfB (SB.putAll o SB.init atts).1 atts
    ∧ Sorted (acceptedOfB (SB.putAll o SB.init atts).1 atts)
    ∧ (∀ e ∈ acceptedOfB (SB.putAll o SB.init atts).1 atts,
        e.key.length ≤ MAX_KEY_LEN ∧ ∀ v, e.val = some v → v.length ≤ MAX_VALUE_LEN)
    ∧ (∀ l, (acceptedOfB (SB.putAll o SB.init atts).1 atts).getLast? = some l →
        (SB.putAll o SB.init atts).2.lastKey = l.key ∧ (SB.putAll o SB.init atts).2.lastTs = l.ts) := by
  have hacc : (SB.putAll o SB.init atts).2.accepted = acceptedOfB (SB.putAll o SB.init atts).1 atts := by
    have := putAll_accepted o atts SB.init
    simpa [SB.init] using this
  have hi := sinv_putAll o atts SB.init (sinv_init o)
  have hl := linv_putAll o atts SB.init linv_init
  refine ⟨putAll_results_length o atts SB.init, hacc, ?_, ?_, ?_⟩
  · rw [← hacc]; exact hi.sorted
  · rw [← hacc]; exact hl.lim
  · rw [← hacc]; exact hi.last

/-! ## `SstMultiBuilder` -/
theorem putAll_append (o : SstOpts) : ∀ (a b : List KV) (s : SB),
    (SB.putAll o s (a ++ b)).2 = (SB.putAll o (SB.putAll o s a).2 b).2
  | [], _, _ => rfl
  | e :: es, b, s => by
    simp only [List.cons_append, SB.putAll]
    cases hp : s.put o e with
    | error err => exact putAll_append o es b s
    | ok s' => exact putAll_append o es b s'

/-- the state is one an `SstBuilder` reaches from `SstBuilder::new` by `put` / `del` calls: the
    theorems about `(SB.putAll o SB.init atts).2` (`sst_builder_refines`, `sst_file_roundtrip`,
    `metadata_exact`) apply to it -/
def Reach (o : SstOpts) (s : SB) : Prop := ∃ as, s = (SB.putAll o SB.init as).2

theorem reach_init (o : SstOpts) : Reach o SB.init := ⟨[], rfl⟩

theorem reach_put {o : SstOpts} {s s' : SB} {e : KV} (hr : Reach o s) (h : s.put o e = .ok s') : Reach o s' := by
  obtain ⟨as, rfl⟩ := hr
  refine ⟨as ++ [e], ?_⟩
  rw [putAll_append]
  simp only [SB.putAll, h]

/-- the entries of all files of a multi-builder, in file order -/
def MB.acc (m : MB) : List KV := m.files.flatMap (·.accepted)

structure MBInv (o : SstOpts) (m : MB) : Prop where
  reach : ∀ s ∈ m.files, Reach o s
  sorted : Sorted m.acc
  last : ∀ l, m.acc.getLast? = some l → m.lastKey = l.key ∧ m.lastTs = l.ts

theorem mbinv_init (o : SstOpts) : MBInv o MB.init :=
  ⟨by intro s hs; simp [MB.files, MB.init] at hs, List.Pairwise.nil, by intro l hl; simp [MB.acc, MB.files, MB.init] at hl⟩

theorem roll_files (o : SstOpts) (m : MB) : (m.roll o).files = m.files := by
  unfold MB.roll
  cases hc : m.cur with
  | none => rfl
  | some s =>
    simp only
    split
    · simp [MB.files, hc]
    · rfl

theorem roll_last (o : SstOpts) (m : MB) : (m.roll o).lastKey = m.lastKey ∧ (m.roll o).lastTs = m.lastTs := by
  unfold MB.roll
  cases hc : m.cur with
  | none => exact ⟨rfl, rfl⟩
  | some s =>
    simp only
    split <;> exact ⟨rfl, rfl⟩

/-- the builder `get_builder` hands out: the open one, or a fresh one -/
def MB.curOr (m : MB) : SB := match m.cur with | some s => s | none => SB.init

/-- the files of a multi-builder: the sealed ones, then the open one (a fresh builder when none is open) -/
theorem files_acc_cur (m : MB) : m.acc = m.sealed.flatMap (·.accepted) ++ m.curOr.accepted := by
  unfold MB.acc MB.files MB.curOr
  cases m.cur with
  | none => simp [SB.init]
  | some s => simp

theorem mb_put_ok {o : SstOpts} {m : MB} {e : KV} (hc : putCheck 0 m.lastKey m.lastTs e = none) {s' : SB}
    (hp : (m.roll o).curOr.put o e = .ok s') :
    m.put o e = (none, ⟨(m.roll o).sealed, some s', e.key, e.ts⟩) := by
  unfold MB.put
  rw [hc]
  unfold MB.curOr at hp
  cases hcur : (m.roll o).cur with
  | none => rw [hcur] at hp; simp only [hcur] at hp ⊢; rw [hp]
  | some s => rw [hcur] at hp; simp only [hcur] at hp ⊢; rw [hp]

theorem mb_put_err {o : SstOpts} {m : MB} {e : KV} (hc : putCheck 0 m.lastKey m.lastTs e = none) {err : BuildErr}
    (hp : (m.roll o).curOr.put o e = .error err) :
    m.put o e = (some err, ⟨(m.roll o).sealed, some (m.roll o).curOr, (m.roll o).lastKey, (m.roll o).lastTs⟩) := by
  unfold MB.put
  rw [hc]
  unfold MB.curOr at hp ⊢
  cases hcur : (m.roll o).cur with
  | none => rw [hcur] at hp; simp only [hcur] at hp ⊢; rw [hp]
  | some s => rw [hcur] at hp; simp only [hcur] at hp ⊢; rw [hp]

/-- one `put` / `del` of the multi-builder: the answer and what the files hold afterwards -/
theorem mb_put_step {o : SstOpts} {m : MB} (e : KV) (hi : MBInv o m) :
    MBInv o (m.put o e).2
    ∧ (m.put o e).2.acc = m.acc ++ (match (m.put o e).1 with | none => [e] | some _ => []) := by
  cases hc : putCheck 0 m.lastKey m.lastTs e with
  | some err =>
    have : m.put o e = (some (.put err), m) := by unfold MB.put; rw [hc]
    rw [this]
    simp only [List.append_nil]; exact ⟨hi, trivial⟩
  | none =>
    have hlt := ((putCheck_none_iff _ _ _ _).mp hc).2.2.2
    have hf := roll_files o m
    have hacc1 : (m.roll o).acc = m.acc := by unfold MB.acc; rw [hf]
    have hs1 := files_acc_cur (m.roll o)
    have hreach_s : Reach o (m.roll o).curOr := by
      unfold MB.curOr
      cases hcur : (m.roll o).cur with
      | none => exact reach_init o
      | some s =>
        apply hi.reach
        rw [← hf]
        simp [MB.files, hcur]
    have hsealed : ∀ s ∈ (m.roll o).sealed, Reach o s := by
      intro s hs
      apply hi.reach
      rw [← hf]
      simp only [MB.files, List.mem_append]
      exact Or.inl hs
    cases hp : (m.roll o).curOr.put o e with
    | error err =>
      rw [mb_put_err hc hp]
      simp only [List.append_nil]
      have hacc : (MB.mk (m.roll o).sealed (some (m.roll o).curOr) (m.roll o).lastKey (m.roll o).lastTs).acc = m.acc := by
        rw [← hacc1, hs1]
        simp [MB.acc, MB.files]
      refine ⟨⟨?_, ?_, ?_⟩, hacc⟩
      · intro x hx
        simp only [MB.files, List.mem_append, List.mem_singleton] at hx
        rcases hx with hx | hx
        · exact hsealed x hx
        · subst hx; exact hreach_s
      · rw [hacc]; exact hi.sorted
      · intro l hl
        rw [hacc] at hl
        obtain ⟨h1, h2⟩ := roll_last o m
        show (m.roll o).lastKey = l.key ∧ (m.roll o).lastTs = l.ts
        rw [h1, h2]
        exact hi.last l hl
    | ok s' =>
      rw [mb_put_ok hc hp]
      simp only
      have hacc : (MB.mk (m.roll o).sealed (some s') e.key e.ts).acc = m.acc ++ [e] := by
        rw [← hacc1, hs1]
        simp [MB.acc, MB.files, put_accepted hp]
      refine ⟨⟨?_, ?_, ?_⟩, hacc⟩
      · intro x hx
        simp only [MB.files, List.mem_append, List.mem_singleton] at hx
        rcases hx with hx | hx
        · exact hsealed x hx
        · subst hx; exact reach_put hreach_s hp
      · rw [hacc]
        apply sorted_snoc hi.sorted
        intro l hl
        obtain ⟨h1, h2⟩ := hi.last l hl
        unfold KV.lt; rw [← h1, ← h2]; exact hlt
      · intro l hl
        rw [hacc] at hl
        simp only [List.getLast?_append, List.getLast?_singleton, Option.some_or, Option.some.injEq] at hl
        subst hl
        exact ⟨rfl, rfl⟩

theorem mb_putAll_inv (o : SstOpts) : ∀ (atts : List KV) (m : MB), MBInv o m →
    MBInv o (MB.putAll o m atts).2 ∧ (MB.putAll o m atts).2.acc = m.acc ++ acceptedOfB (MB.putAll o m atts).1 atts
  | [], m, h => ⟨h, by simp [MB.putAll, acceptedOfB]⟩
  | e :: es, m, h => by
    obtain ⟨h1, h2⟩ := mb_put_step e h
    obtain ⟨h3, h4⟩ := mb_putAll_inv o es (m.put o e).2 h1
    simp only [MB.putAll]
    refine ⟨h3, ?_⟩
    rw [h4, h2]
    cases (m.put o e).1 with
    | none => simp [acceptedOfB]
    | some err => simp [acceptedOfB]

/-- **`SstMultiBuilder`** (with the sort order enforced across a roll-over, /repo fix 22ee7e6):
    after any run of attempts

    * every file — the sealed builders and the open one — is a state an `SstBuilder` reaches from
      `new` by `put` / `del` calls, so each file falls under `sst_builder_refines` /
      `sst_file_roundtrip` (for the entries that builder accepted),
    * the files' entries, concatenated in file order, are exactly the attempts answered `Ok`,
    * and that concatenation is strictly sorted: the order holds *across* files.

    Where a roll-over happens (`approximate_size` against `TABLE_FULL_SIZE` / the target file size)
    is the model's `MB.roll`; the theorem holds for every outcome of that decision. -/
theorem mb_files_sorted (o : SstOpts) (atts : List KV) :
    (∀ s ∈ (MB.putAll o MB.init atts).2.files, ∃ as, s = (SB.putAll o SB.init as).2)
    ∧ (MB.putAll o MB.init atts).2.files.flatMap (·.accepted) = acceptedOfB (MB.putAll o MB.init atts).1 atts
    ∧ Sorted (acceptedOfB (MB.putAll o MB.init atts).1 atts) := by
  obtain ⟨h1, h2⟩ := mb_putAll_inv o atts MB.init (mbinv_init o)
  have h2' : (MB.putAll o MB.init atts).2.acc = acceptedOfB (MB.putAll o MB.init atts).1 atts := by
    rw [h2]; simp [MB.acc, MB.files, MB.init]
  exact ⟨h1.reach, h2', by rw [← h2']; exact h1.sorted⟩

end Blue.Sst

#print axioms Blue.Sst.sst_builder_rejects
#print axioms Blue.Sst.put_refuses_iff_check
#print axioms Blue.Sst.mb_files_sorted
